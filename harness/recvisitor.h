// Recording visitor: a decoder visitor whose handlers are variadic member templates, so that
// MatcherCreator::Create's `&V::name` against the exact member-pointer type selects, by template
// argument deduction, a handler that receives the very operand objects the interpreter would receive.
// It records "<handler>/<parameter type list>" and the operand values.
// handler_names.inc is the frozen list of handler names of the pinned decoder.h.
#pragma once
#include <string>
#include <type_traits>
#include <vector>
#include "decoder.h"
#include "operand.h"

namespace vrec {

template <class T> struct TypeName;
#define VREC_T(T) template <> struct TypeName<T> { static constexpr const char* value = #T; };
VREC_T(Register) VREC_T(Ax) VREC_T(Axl) VREC_T(Axh) VREC_T(Bx) VREC_T(Bxl) VREC_T(Bxh) VREC_T(Px) VREC_T(Ab)
VREC_T(Abl) VREC_T(Abh) VREC_T(Abe) VREC_T(Ablh) VREC_T(RnOld) VREC_T(Rn) VREC_T(R45) VREC_T(R0123)
VREC_T(ArArpSttMod) VREC_T(ArArp) VREC_T(SttMod) VREC_T(Ar) VREC_T(Arp) VREC_T(SwapType) VREC_T(StepZIDS)
VREC_T(ArRn1) VREC_T(ArRn2) VREC_T(ArStep1) VREC_T(ArStep1Alt) VREC_T(ArStep2) VREC_T(ArpRn1) VREC_T(ArpRn2)
VREC_T(ArpStep1) VREC_T(ArpStep2) VREC_T(Address18_2) VREC_T(Address18_16) VREC_T(Address16) VREC_T(RelAddr7)
VREC_T(Imm2) VREC_T(Imm4) VREC_T(Imm5) VREC_T(Imm5s) VREC_T(Imm6s) VREC_T(Imm7s) VREC_T(Imm8) VREC_T(Imm8s)
VREC_T(Imm9) VREC_T(Imm16) VREC_T(MemImm8) VREC_T(MemImm16) VREC_T(MemR7Imm7s) VREC_T(MemR7Imm16) VREC_T(Alm)
VREC_T(Alu) VREC_T(Alb) VREC_T(Mul3) VREC_T(Mul2) VREC_T(Moda4) VREC_T(Moda3) VREC_T(Cond) VREC_T(BankFlags)
VREC_T(CbsCond)
#undef VREC_T

// raw field value of an operand object (storage is protected: read it through a derived class)
template <class T> struct Peek : T {
    u16 get() const { return this->storage; }
};
template <class T> u16 RawValue(T v) {
    Peek<T> p;
    static_cast<T&>(p) = v;
    return p.get();
}

struct Rec {
    using instruction_return_type = void;
    std::string key;
    std::vector<int> vals;

    template <class T> void one(T v) {
        if (!vals.empty() || key.back() != '/') key += ',';
        if constexpr (std::is_same_v<T, bool>) { key += "bool"; vals.push_back(v ? 1 : 0); }
        else if constexpr (std::is_same_v<T, SumBase>) { key += "SumBase"; vals.push_back((int)v); }
        else if constexpr (std::is_same_v<T, RegName>) { key += "RegName"; vals.push_back((int)v); }
        else { key += TypeName<T>::value; vals.push_back(RawValue(v)); }
    }
    template <class... A> void h(const char* name, A... a) {
        key = name; key += '/'; vals.clear();
        (one(a), ...);
    }
    void undefined(u16) { key = "undefined/"; vals.clear(); }
#define H(n) template <class... A> void n(A... a) { h(#n, a...); }
#include "handler_names.inc"
#undef H
};

} // namespace vrec
