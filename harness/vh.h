// Common helpers for the conformance drivers: deterministic RNG, ndjson writer, fault reporting.
#pragma once
#include <cinttypes>
#include <csignal>
#include <cstdint>
#include <cstdio>
#include <cstdlib>
#include <cstring>
#include <exception>
#include <string>
#include <unistd.h>
#include <vector>

namespace vh {

struct Rng {
    uint64_t s;
    // the seed is hashed first: consecutive seeds must not give the same stream shifted by one draw
    explicit Rng(uint64_t seed) {
        uint64_t z = seed + 0x632BE59BD9B4E019ull;
        z = (z ^ (z >> 30)) * 0xBF58476D1CE4E5B9ull;
        z = (z ^ (z >> 27)) * 0x94D049BB133111EBull;
        s = z ^ (z >> 31);
    }
    uint64_t next() {
        uint64_t z = (s += 0x9E3779B97F4A7C15ull);
        z = (z ^ (z >> 30)) * 0xBF58476D1CE4E5B9ull;
        z = (z ^ (z >> 27)) * 0x94D049BB133111EBull;
        return z ^ (z >> 31);
    }
    uint32_t below(uint32_t n) { return n ? (uint32_t)(next() % n) : 0; }
    bool chance(uint32_t num, uint32_t den) { return below(den) < num; }
    uint16_t u16() { return (uint16_t)next(); }
    // 16-bit value clustered at boundaries
    uint16_t edge16() {
        static const uint16_t e[] = {0, 1, 2, 3, 0x7F, 0x80, 0xFF, 0x100, 0x7FFE, 0x7FFF, 0x8000,
                                     0x8001, 0xFFFE, 0xFFFF};
        if (chance(3, 5)) return e[below(sizeof(e) / sizeof(e[0]))];
        return u16();
    }
    template <class T> const T& pick(const std::vector<T>& v) { return v[below((uint32_t)v.size())]; }
};

// Trace file (ndjson). All numbers written are < 2^31 (TLC integers are 32-bit).
struct Out {
    FILE* f = nullptr;
    std::string line;
    long lines = 0;
    void open(const char* path) {
        f = std::fopen(path, "w");
        if (!f) { std::perror(path); std::exit(2); }
    }
    void begin() { line.clear(); line += '{'; }
    void sep() { if (line.size() > 1 && line.back() != '{' && line.back() != '[') line += ','; }
    void key(const char* k) { sep(); line += '"'; line += k; line += "\":"; }
    void num(const char* k, long long v) { key(k); line += std::to_string(v); }
    void str(const char* k, const char* v) { key(k); line += '"'; line += v; line += '"'; }
    void raw(const char* k, const std::string& v) { key(k); line += v; }
    void end() { line += "}\n"; std::fputs(line.c_str(), f); ++lines; }
    void close() { if (f) std::fclose(f); f = nullptr; }
};
inline std::string pair16(uint32_t v) {  // wide value as [hi,lo]
    return "[" + std::to_string(v >> 16) + "," + std::to_string(v & 0xFFFF) + "]";
}
template <class It> std::string arr(It b, It e) {
    std::string s = "[";
    for (It i = b; i != e; ++i) { if (i != b) s += ','; s += std::to_string((long long)*i); }
    return s + "]";
}

// A crash must not silently truncate a trace: write a Fault line and leave.
inline Out* g_fault_out = nullptr;
inline void fault(const char* kind) {
    if (g_fault_out && g_fault_out->f) {
        std::fprintf(g_fault_out->f, "{\"e\":\"Fault\",\"kind\":\"%s\"}\n", kind);
        std::fflush(g_fault_out->f);
    }
    _exit(0);
}
inline void on_signal(int sig) { fault(sig == SIGSEGV ? "SIGSEGV" : sig == SIGABRT ? "SIGABRT" : sig == SIGFPE ? "SIGFPE" : "signal"); }
inline void install_fault_handlers(Out* o) {
    g_fault_out = o;
    std::set_terminate([] { fault("terminate"); });
    std::signal(SIGSEGV, on_signal);
    std::signal(SIGABRT, on_signal);
    std::signal(SIGFPE, on_signal);
    std::signal(SIGBUS, on_signal);
    std::signal(SIGILL, on_signal);
}

struct Args {
    uint64_t seed = 1;
    long n = 1000;
    std::string out = "trace.ndjson";
    std::string mode;
    Args(int argc, char** argv) {
        for (int i = 1; i < argc; ++i) {
            std::string a = argv[i];
            auto val = [&]() -> const char* { return i + 1 < argc ? argv[++i] : ""; };
            if (a == "--seed") seed = std::strtoull(val(), nullptr, 10);
            else if (a == "--n") n = std::strtol(val(), nullptr, 10);
            else if (a == "--out") out = val();
            else if (a == "--mode") mode = val();
        }
    }
};

// keep the repository's printf chatter out of the way
inline void silence_stdout() {
    std::freopen("/dev/null", "w", stdout);
}

} // namespace vh
