// C19 conformance recorder, hammer mode: atomicity windows of a few nanoseconds.
//
// conc_rec records long two-thread runs with rich protocols; a defect whose window is a handful of
// instructions inside ONE call (e.g. a receive that reads the value and clears the ready flag in two separate
// critical sections) is hit there only by luck.  This driver runs MILLIONS of tiny two-thread episodes on a
// real Teakra -- two persistent threads released together, each executing a script of one to three mailbox
// calls -- and records per episode exactly what conc_rec records per run: what each thread did and was
// told, in its own order, nothing about the interleaving.  Episodes with identical content are one
// OUTCOME CLASS (values are small constants, so there are few classes); every class is written once, with
// its count, in the Run-line format of conc_rec, and TLC (ApbpConcTrace.tla) must find an interleaving of
// ApbpConc's micro-operations -- the lock granularity of the code -- that explains it.  An outcome that
// only a split critical section can produce has no explanation.
//
// Host thread: public API (SendData / RecvData / RecvDataIsReady / SendDataIsEmpty / SetSemaphore /
// ClearSemaphore / GetSemaphore).  DSP-side thread: the MMIO entry points the guest reaches (RecvData on
// apbp_from_cpu = read of 0x0C2+4c, SendData on apbp_from_dsp = write of 0x0C0+4c, semaphore set 0x0CC);
// the host callbacks run on it and log CbData / CbSem .. CbEnd.  After both scripts ended the main thread
// makes the final observations (q).
#include "vh.h"

#include <atomic>
#include <map>
#include <thread>

#include "teakra.cpp"

struct TeakraVerifAccess {
    static auto& impl(Teakra::Teakra& t) { return *t.impl; }
};

struct Call { const char* e; int c; int v; };   // script entry
struct Script { std::vector<Call> h, d, q; };

static std::string ev(const char* e, const char* k1, long v1) {
    return std::string("{\"e\":\"") + e + "\",\"" + k1 + "\":" + std::to_string(v1) + "}";
}
static std::string ev(const char* e, const char* k1, long v1, const char* k2, long v2) {
    return std::string("{\"e\":\"") + e + "\",\"" + k1 + "\":" + std::to_string(v1) + ",\"" + k2 + "\":" + std::to_string(v2) + "}";
}

static thread_local std::vector<std::string>* t_log = nullptr;

static void perform(Teakra::Teakra& t, const Call& c, std::vector<std::string>& log) {
    std::string e = c.e;
    if (e == "Send") { log.push_back(ev("Send", "c", c.c, "v", c.v)); t.SendData((uint8_t)c.c, (uint16_t)c.v); }
    else if (e == "Recv") { unsigned r = t.RecvData((uint8_t)c.c); log.push_back(ev("Recv", "c", c.c, "r", r)); }
    else if (e == "Peek") { unsigned r = t.PeekRecvData((uint8_t)c.c); log.push_back(ev("Peek", "c", c.c, "r", r)); }
    else if (e == "Ready") { unsigned r = t.RecvDataIsReady((uint8_t)c.c) ? 1 : 0; log.push_back(ev("Ready", "c", c.c, "r", r)); }
    else if (e == "Empty") { unsigned r = t.SendDataIsEmpty((uint8_t)c.c) ? 1 : 0; log.push_back(ev("Empty", "c", c.c, "r", r)); }
    else if (e == "SemSet") { log.push_back(ev("SemSet", "v", c.v)); t.SetSemaphore((uint16_t)c.v); }
    else if (e == "SemClr") { t.ClearSemaphore((uint16_t)c.v); log.push_back(ev("SemClr", "v", c.v)); }
    else if (e == "SemMask") { log.push_back(ev("SemMask", "v", c.v)); t.MaskSemaphore((uint16_t)c.v); }
    else if (e == "SemGet") { unsigned r = t.GetSemaphore(); log.push_back(ev("SemGet", "r", r)); }
    // DSP side: the functions behind the MMIO registers (logged before the call where a callback runs inside)
    else if (e == "GRecv") { unsigned r = t.MMIORead((uint16_t)(0x0C2 + 4 * c.c)); log.push_back(ev("GRecv", "c", c.c, "r", r)); }
    else if (e == "GSend") { log.push_back(ev("GSend", "c", c.c, "v", c.v)); t.MMIOWrite((uint16_t)(0x0C0 + 4 * c.c), (uint16_t)c.v); }
    else if (e == "GSemSet") { log.push_back(ev("GSemSet", "v", c.v)); t.MMIOWrite(0x0CC, (uint16_t)c.v); }
    else if (e == "GSemGet") { unsigned r = t.MMIORead(0x0D2); log.push_back(ev("GSemGet", "r", r)); }
    else if (e == "GSemClr") { t.MMIOWrite(0x0D0, (uint16_t)c.v); log.push_back(ev("GSemClr", "v", c.v)); }
    else if (e == "Stat") {
        unsigned w = t.MMIORead(0x0D6);
        log.push_back(std::string("{\"e\":\"Stat\",\"r\":[") + std::to_string((w >> 5) & 1) + "," + std::to_string((w >> 6) & 1) + "," +
                      std::to_string((w >> 7) & 1) + "," + std::to_string((w >> 8) & 1) + "," + std::to_string((w >> 9) & 1) + "," +
                      std::to_string((w >> 12) & 1) + "," + std::to_string((w >> 13) & 1) + "]}");
    }
}

static std::string join(const std::vector<std::string>& v) {
    std::string s = "[";
    for (size_t i = 0; i < v.size(); ++i) { if (i) s += ','; s += v[i]; }
    return s + "]";
}

int main(int argc, char** argv) {
    // an earlier emulator instance lives in the same process for the whole run (constructed first, reset, never used again):
    // nothing the instance under test does may depend on it or reach it (function-local statics, shared tables, captured `this`)
    static std::unique_ptr<Teakra::Teakra> g_decoy = std::make_unique<Teakra::Teakra>(Teakra::UserConfig{});
    g_decoy->Reset();
    vh::Args a(argc, argv);
    vh::Out o;
    o.open(a.out.c_str());
    vh::install_fault_handlers(&o);
    vh::silence_stdout();
    vh::Rng rng(a.seed);

    // the episode shapes: pairs of scripts whose outcome depends on how critical sections interleave
    std::vector<Script> shapes = {
        // two sends against one receive; is the last value still announced?
        {{{"Send", 0, 1}, {"Send", 0, 2}}, {{"GRecv", 0, 0}}, {{"Empty", 0, 0}}},
        {{{"Send", 1, 1}, {"Send", 1, 2}}, {{"GRecv", 1, 0}, {"Stat", 0, 0}}, {{"Empty", 1, 0}}},
        {{{"Recv", 0, 0}}, {{"GSend", 0, 1}, {"GSend", 0, 2}}, {{"Ready", 0, 0}, {"Peek", 0, 0}}},
        {{{"Recv", 2, 0}, {"Ready", 2, 0}}, {{"GSend", 2, 1}, {"GSend", 2, 2}}, {{"Ready", 2, 0}, {"Peek", 2, 0}}},
        // one send against a poll-then-receive
        {{{"Send", 0, 1}, {"Empty", 0, 0}}, {{"Stat", 0, 0}, {"GRecv", 0, 0}}, {{"Empty", 0, 0}}},
        {{{"Ready", 1, 0}, {"Recv", 1, 0}}, {{"GSend", 1, 3}}, {{"Ready", 1, 0}}},
        // semaphore words: set against clear / read
        {{{"SemClr", 0, 1}, {"SemGet", 0, 0}}, {{"GSemSet", 0, 1}, {"GSemSet", 0, 2}}, {{"SemGet", 0, 0}}},
        {{{"SemSet", 0, 1}, {"SemSet", 0, 2}}, {{"GSemGet", 0, 0}, {"GSemClr", 0, 1}, {"GSemGet", 0, 0}}, {}},
        // masking against setting: the semaphore callback may run on either thread (fix bf7856c)
        {{{"SemMask", 0, 1}, {"SemGet", 0, 0}, {"SemMask", 0, 0}}, {{"GSemSet", 0, 1}, {"GSemSet", 0, 3}}, {{"SemGet", 0, 0}}},
        // two channels at once, status word in between
        {{{"Send", 0, 1}, {"Send", 2, 2}}, {{"GRecv", 2, 0}, {"Stat", 0, 0}, {"GRecv", 0, 0}}, {{"Empty", 0, 0}, {"Empty", 2, 0}}},
        // reply direction: send, poll, send again against receive + peek
        {{{"Ready", 0, 0}, {"Recv", 0, 0}, {"Peek", 0, 0}}, {{"GSend", 0, 1}, {"Stat", 0, 0}, {"GSend", 0, 2}}, {{"Ready", 0, 0}, {"Peek", 0, 0}}},
    };

    std::map<std::string, long> classes;
    std::vector<std::string> order;
    long rounds = a.n;

    for (size_t si = 0; si < shapes.size(); ++si) {
        const Script& S = shapes[si];
        // persistent threads released together per round (the barrier synchronises rounds, nothing inside one)
        std::unique_ptr<Teakra::Teakra> t;
        std::vector<std::string> hl, dl, ql;
        std::atomic<long> go{0}, hdone{0}, ddone{0};
        std::atomic<bool> stop{false};
        auto worker = [&](bool host) {
            long seen = 0;
            std::vector<std::string>& log = host ? hl : dl;
            const std::vector<Call>& sc = host ? S.h : S.d;
            std::atomic<long>& done = host ? hdone : ddone;
            t_log = &log;
            while (true) {
                long g;
                while ((g = go.load(std::memory_order_acquire)) == seen) { if (stop.load(std::memory_order_relaxed)) return; }
                seen = g;
                unsigned jitter = (unsigned)(g * (host ? 2654435761u : 40503u)) >> 27;     // 0..31 spins, different per thread
                for (volatile unsigned k = 0; k < jitter; ++k) {}
                for (const Call& c : sc) perform(*t, c, log);
                done.store(g, std::memory_order_release);
            }
        };
        std::thread th(worker, true), td(worker, false);
        t = std::make_unique<Teakra::Teakra>(Teakra::UserConfig{});
        for (int c = 0; c < 3; ++c)
            t->SetRecvDataHandler((uint8_t)c, [c] { if (t_log) { t_log->push_back(ev("CbData", "c", c)); t_log->push_back("{\"e\":\"CbEnd\"}"); } });
        t->SetSemaphoreHandler([] { if (t_log) { t_log->push_back("{\"e\":\"CbSem\"}"); t_log->push_back("{\"e\":\"CbEnd\"}"); } });
        t->SetAudioCallback([](std::array<std::int16_t, 2>) {});
        for (long r = 1; r <= rounds; ++r) {
            // every episode starts from the reset state of the mailboxes and the ICU (the component resets of
            // Teakra::Reset without the 512 KiB memory clear), irq 14 routed to interrupt line 0 as in the model
            auto& I = TeakraVerifAccess::impl(*t);
            I.apbp_from_cpu.Reset(); I.apbp_from_dsp.Reset(); I.icu.Reset();
            t->MMIOWrite(0x206, 0x4000);
            hl.clear(); dl.clear(); ql.clear();
            go.store(r, std::memory_order_release);
            while (hdone.load(std::memory_order_acquire) != r || ddone.load(std::memory_order_acquire) != r) {}
            t_log = &ql;
            for (const Call& c : S.q) perform(*t, c, ql);
            std::string key = "\"h\":" + join(hl) + ",\"d\":" + join(dl) + ",\"q\":" + join(ql);
            auto it = classes.find(key);
            if (it == classes.end()) { classes[key] = 1; order.push_back(key); }
            else ++it->second;
        }
        stop.store(true);
        th.join(); td.join();
    }
    long k = 0;
    for (auto& key : order) {
        o.begin();
        o.str("e", "Run"); o.num("run", k++); o.num("n", classes[key]);
        o.raw("cfg", "{\"ven\":0}");
        std::string body = key;           // "h":[..],"d":[..],"q":[..]
        // vh::Out writes key/value pairs: split the prepared body into its three arrays
        size_t pd = body.find(",\"d\":"), pq = body.find(",\"q\":");
        o.raw("h", body.substr(4, pd - 4));
        o.raw("d", body.substr(pd + 5, pq - pd - 5));
        o.raw("q", body.substr(pq + 5));
        o.raw("x", "[]");
        o.end();
    }
    o.close();
    return 0;
}
