// C18 runtime monitor on a full Teakra instance (built with ASan + UBSan in the asan flavour):
//   soup   random instruction streams (valid-biased opcodes, control flow to anywhere) from random
//          well-formed register states, Run(n)
//   mmio   every MMIO offset written with boundary/random 16-bit values, DMA transfers (bounded to 2^18 elements) with arbitrary
//          configurations started, AHBM accesses, then Run
// Every raw access outside the 0x80000-byte array is vetoed and logged with its cause; a run ends by
// returning, by UnimplementedException or by a deliberate assertion -- anything else (signal, sanitizer abort,
// foreign exception) is written as a Fault line.  One ndjson line per run.
#include <map>
#include "vh.h"
#include "randstate.h"
#include "interpreter.h"
#include "processor.cpp"
#include "teakra.cpp"

using namespace Teakra;
using vlayout::NREG;

struct Obs : VerifMemObserver {
    long oob = 0;
    u32 first = 0;
    bool OnAccess(u32 byte_address, bool, u16) override {
        if (byte_address + 1 >= 0x80000) { if (!oob) first = byte_address; ++oob; return false; }
        return true;
    }
};

int main(int argc, char** argv) {
    vh::Args a(argc, argv);
    vh::Out o;
    o.open(a.out.c_str());
    vh::install_fault_handlers(&o);
    vh::silence_stdout();
    vh::Rng rng(a.seed);
    Obs obs;
    for (long run = 0; run < a.n; ++run) {
        Teakra::UserConfig cfg;
        Teakra::Teakra t(cfg);
        t.SetAudioCallback([](std::array<s16, 2>) {});
        Teakra::AHBMCallback cb;
        cb.read8 = [](u32) -> u8 { return 0x5A; };  cb.write8 = [](u32, u8) {};
        cb.read16 = [](u32) -> u16 { return 0x5A5A; }; cb.write16 = [](u32, u16) {};
        cb.read32 = [](u32) -> u32 { return 0x5A5A5A5A; }; cb.write32 = [](u32, u32) {};
        t.SetAHBMCallback(cb);
        t.Reset();
        obs.oob = 0; obs.first = 0;
        verif_mem_observer = &obs;
        const char* out = "ok";
        std::string what;
        u32 pc_at = 0;
        try {
            if (a.mode == "mmio") {
                int ops = 50 + rng.below(300);
                for (int i = 0; i < ops; ++i) {
                    u16 off = (u16)(rng.below(0x800));
                    u16 v = rng.chance(1, 8) ? 0x40C0 : rng.edge16();
                    unsigned r = rng.below(10);
                    what = "mmio";
                    // a DMA start moves size0 x size1 x size2 elements at once (up to 2^48): keep every transfer below 2^18 elements by
                    // shrinking the sizes of the active channel first (a long finite transfer is not what this driver looks for)
                    auto bound_dma = [&]() {
                        for (int guard = 0; guard < 64; ++guard) {
                            u32 z[3] = {t.MMIORead(0x1C8), t.MMIORead(0x1CA), t.MMIORead(0x1CC)};
                            double n = (double)(z[0] ? z[0] : 1) * (z[1] ? z[1] : 1) * (z[2] ? z[2] : 1);
                            if (n <= 262144.0) break;
                            int big = z[0] >= z[1] && z[0] >= z[2] ? 0 : z[1] >= z[2] ? 1 : 2;
                            t.MMIOWrite((u16)(0x1C8 + 2 * big), (u16)(z[big] / 2));
                        }
                    };
                    if ((r < 6 && off == 0x1DE && v == 0x40C0) || r >= 9) bound_dma();
                    if (r < 6) t.MMIOWrite(off, v);
                    else if (r < 8) (void)t.MMIORead(off);
                    else if (r < 9) t.AHBMWrite32(rng.next() & 0xFFFFFFFF, (u32)rng.next());
                    else { t.MMIOWrite(0x1DE, 0x40C0); }
                }
                t.Run(20);
            } else {
                // random code everywhere it can be reached cheaply: 4 KB around a random pc, plus the vectors
                std::vector<int> st(NREG);
                vstate::random_state(rng, st.data());
                u32 pc = rng.chance(1, 8) ? (u32[]){0, 0x3FFF0, 0x3FFFE, 0x1FFFF}[rng.below(4)] : (u32)(rng.below(0x3F000));
                st[vlayout::I_pc] = (int)pc;
                if (rng.chance(1, 16)) st[vlayout::I_prpage] = 1;
                vlayout::unpack_regs(st.data(), t.GetRegisterState());
                for (u32 w = 0; w < 0x40; ++w) t.ProgramWrite(w, rng.u16());
                for (u32 w = 0; w < 0x800 && pc + w < 0x40000; ++w) t.ProgramWrite(pc + w, rng.u16());
                pc_at = pc;
                what = "soup";
                for (int k = 0; k < 40; ++k) t.Run(8);
            }
        } catch (const UnimplementedException&) { out = "unimpl";
        } catch (const TeakraVerifAssert&) { out = "assert";
        } catch (const std::bad_function_call&) { out = "bad_function_call";
        } catch (const std::exception& e) { out = "exception";
        }
        verif_mem_observer = nullptr;
        o.begin(); o.str("e", "Fuzz"); o.str("mode", what.c_str()); o.str("out", out); o.num("oob", obs.oob);
        o.num("first", (long long)obs.first); o.num("pc", pc_at); o.num("prpage", t.GetRegisterState().prpage); o.end();
    }
    o.close();
    return 0;
}
