// C14 / C19 conformance recorder for re-entrant semaphore callbacks (spec/ApbpReent.tla, ApbpReentTrace.tla).
// A real Apbp object; the installed semaphore handler calls the same object's API again (set / mask /
// acknowledge, up to three levels deep), the way a host callback reads and acknowledges the semaphore on the
// spot.  One ndjson line per step of the specification:
//   {"e":"N"}                              a new object
//   {"e":"B","op":"set|mask","v":b,"fire":0|1, st}   the call up to its decision to run the handler
//                                          (fire=1: logged from inside the handler, st = what the handler sees;
//                                           fire=0: logged after the call returned)
//   {"e":"C","v":b, st}                    ClearSemaphore
//   {"e":"E", st}                          a call whose handler ran has returned
// st = the private fields semaphore / semaphore_mask / semaphore_master_signal and what the public getters say.
#include "vh.h"
#include "apbp.cpp"
using namespace Teakra;
struct TeakraVerifAccess {
    static auto& ai(Apbp& a) { return *a.impl; }
};
using VA = TeakraVerifAccess;

static vh::Out o;
static vh::Rng* g_rng;
static Apbp* g_a;
static int g_depth = 0;
struct Frame { const char* op; unsigned v; bool fired; };
static std::vector<Frame> g_frames;

static void st() {
    auto& im = VA::ai(*g_a);
    o.num("sem", im.semaphore); o.num("msk", im.semaphore_mask); o.num("sig", (int)im.semaphore_master_signal);
    o.num("gsem", g_a->GetSemaphore()); o.num("gmsk", g_a->GetSemaphoreMask()); o.num("gsig", (int)g_a->IsSemaphoreSignaled());
}
static unsigned bits() {
    auto& r = *g_rng;
    switch (r.below(6)) {
    case 0: return 0;
    case 1: return 1u << r.below(16);
    case 2: return (1u << r.below(16)) | (1u << r.below(16));
    case 3: return 0xFFFF;
    case 4: return VA::ai(*g_a).semaphore;            // exactly what is pending (the acknowledging callback)
    default: return r.edge16();
    }
}
static void do_call();
static void handler() {
    Frame& f = g_frames.back();
    f.fired = true;
    o.begin(); o.str("e", "B"); o.str("op", f.op); o.num("v", f.v); o.num("fire", 1); st(); o.end();
    if (g_depth < 3) {
        int k = g_rng->chance(1, 4) ? 0 : 1 + g_rng->below(3);
        ++g_depth;
        for (int i = 0; i < k; ++i) do_call();
        --g_depth;
    }
}
static void do_call() {
    auto& r = *g_rng;
    unsigned v = bits();
    int kind = r.below(10);
    if (kind < 4) {
        g_frames.push_back({"set", v, false});
        g_a->SetSemaphore((u16)v);
    } else if (kind < 7) {
        g_frames.push_back({"mask", v, false});
        g_a->MaskSemaphore((u16)v);
    } else {
        g_a->ClearSemaphore((u16)v);
        o.begin(); o.str("e", "C"); o.num("v", v); st(); o.end();
        return;
    }
    Frame f = g_frames.back();
    g_frames.pop_back();
    if (f.fired) { o.begin(); o.str("e", "E"); st(); o.end(); }
    else { o.begin(); o.str("e", "B"); o.str("op", f.op); o.num("v", f.v); o.num("fire", 0); st(); o.end(); }
}
int main(int argc, char** argv) {
    vh::Args a(argc, argv);
    vh::Rng rng(a.seed);
    g_rng = &rng;
    o.open(a.out.c_str());
    for (long h = 0; h < a.n; ++h) {
        Apbp ap;
        g_a = &ap;
        ap.SetSemaphoreHandler(handler);
        o.begin(); o.str("e", "N"); o.end();
        int len = 4 + rng.below(40);
        for (int i = 0; i < len && o.lines < 19000; ++i) do_call();
    }
    o.close();
    return 0;
}
