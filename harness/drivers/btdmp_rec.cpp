// C16 conformance recorder: random API histories on real Btdmp objects (capacity 16), one ndjson line
// per call with the arguments, the complete transmit state after the call (queue contents, timer,
// period, enable, flags, clock config -- read through the TeakraVerifAccess friend hook), the callbacks
// made during the call in order ([0,l,r] = one frame handed to the audio callback, samples as unsigned
// 16-bit; [1,0,0] = one interrupt-handler call), the outcome (ok / deliberate assertion / SIGFPE), the
// horizon GetMaxSkip reports afterwards, the public getters and the MMIO read-back (0x2C2 status, 0x2A2,
// 0x2BE, 0x2CA).  The port under test sits in the same wiring as Teakra::Impl (two ports on one
// CoreTiming behind an MMIORegion); calls go directly, through MMIO, or through CoreTiming.
//
//   --mode directed : instead of random histories, the fixed histories around Btdmp::Skip with
//                     transmit_timer >= transmit_period (period lowered below the running phase, then
//                     Skip(k) within the reported horizon; period 0), as a trace in the same format.
//   --mode repro    : the same situations side by side on the real code (Skip(k) against k Ticks from
//                     equal states), one JSON object per situation, for the evidence file.
// A call that trips the deliberate assertion or dies ends its history; a fresh object ("New") follows.
#include "vh.h"
#include <array>
#include <csetjmp>
#include <memory>
#include "ahbm.h"
#include "apbp.h"
#include "btdmp.h"
#include "core_timing.h"
#include "crash.h"
#include "dma.h"
#include "icu.h"
#include "memory_interface.h"
#include "mmio.h"
#include "shared_memory.h"
#include "timer.h"

using namespace Teakra;

struct TeakraVerifAccess {
    static std::vector<u16> queue(const Btdmp& b) {
        auto q = b.transmit_queue;
        std::vector<u16> v;
        while (!q.empty()) { v.push_back(q.front()); q.pop(); }
        return v;
    }
    static u16 timer(const Btdmp& b) { return b.transmit_timer; }
    static u16 period(const Btdmp& b) { return b.transmit_period; }
    static u16 enable(const Btdmp& b) { return b.transmit_enable; }
    static int empty(const Btdmp& b) { return b.transmit_empty ? 1 : 0; }
    static int full(const Btdmp& b) { return b.transmit_full ? 1 : 0; }
    static u16 clock(const Btdmp& b) { return b.transmit_clock_config; }
};
using VA = TeakraVerifAccess;

static std::vector<std::array<int, 3>> g_cb; // callbacks of the current call, in order

// the wiring of Teakra::Impl without the processor
static std::vector<u8> g_mem(0x80000);
struct Env {
    CoreTiming core_timing;
    SharedMemory shared_memory{g_mem.data()};
    MemoryInterfaceUnit miu;
    ICU icu;
    Apbp apbp_from_cpu, apbp_from_dsp;
    std::array<Timer, 2> timer{{{core_timing}, {core_timing}}};
    Ahbm ahbm;
    Dma dma{shared_memory, ahbm};
    std::array<Btdmp, 2> btdmp{{{core_timing}, {core_timing}}};
    MMIORegion mmio{miu, icu, apbp_from_cpu, apbp_from_dsp, timer, dma, ahbm, btdmp};
    unsigned idx;
    explicit Env(unsigned i) : idx(i) {
        timer[0].SetInterruptHandler([] {});
        timer[1].SetInterruptHandler([] {});
        btdmp[1 - idx].SetInterruptHandler([] { g_cb.push_back({9, 9, 9}); }); // the idle port must stay silent
        btdmp[idx].SetInterruptHandler([] { g_cb.push_back({1, 0, 0}); });
        btdmp[idx].SetAudioCallback([](std::array<std::int16_t, 2> f) {
            g_cb.push_back({0, (int)(u16)f[0], (int)(u16)f[1]});
        });
    }
    Btdmp& b() { return btdmp[idx]; }
    u16 reg(u16 a) const { return (u16)(a + idx * 0x80); }
};

static long long horizon(const Btdmp& b) {
    u64 h = b.GetMaxSkip();
    if (h == CoreTiming::Callbacks::Infinity) return 2147483647LL;
    if (h > 2147483646ull) return 2147483646LL; // not a value the specification can produce
    return (long long)h;
}

static std::string state_json(const Btdmp& b) {
    auto q = VA::queue(b);
    return "{\"q\":" + vh::arr(q.begin(), q.end()) + ",\"tm\":" + std::to_string(VA::timer(b)) +
           ",\"pd\":" + std::to_string(VA::period(b)) + ",\"en\":" + std::to_string(VA::enable(b)) +
           ",\"em\":" + std::to_string(VA::empty(b)) + ",\"fu\":" + std::to_string(VA::full(b)) +
           ",\"cc\":" + std::to_string(VA::clock(b)) + "}";
}
static std::string cb_json() {
    std::string s = "[";
    for (size_t i = 0; i < g_cb.size(); ++i) {
        if (i) s += ',';
        s += vh::arr(g_cb[i].begin(), g_cb[i].end());
    }
    return s + "]";
}

static void observe(vh::Out& o, Env& e, const char* out) {
    Btdmp& b = e.b();
    o.raw("s", state_json(b));
    o.raw("cb", cb_json());
    o.str("out", out);
    o.num("h", horizon(b));
    long long g[6] = {b.GetTransmitEmpty(), b.GetTransmitFull(), b.GetTransmitPeriod(), b.GetTransmitEnable(),
                      b.GetTransmitClockConfig(), b.GetTransmitFlush()};
    o.raw("g", vh::arr(g, g + 6));
    long long m[4] = {e.mmio.Read(e.reg(0x2C2)), e.mmio.Read(e.reg(0x2A2)), e.mmio.Read(e.reg(0x2BE)),
                      e.mmio.Read(e.reg(0x2CA))};
    o.raw("mm", vh::arr(m, m + 4));
}

// integer division by zero in Btdmp::Skip (period 0) arrives as SIGFPE: come back and report it
static sigjmp_buf g_jmp;
static volatile sig_atomic_t g_armed = 0;
static void on_fpe(int sig) {
    if (g_armed) { g_armed = 0; siglongjmp(g_jmp, 1); }
    vh::on_signal(sig);
}

// runs `call`; returns "ok", "assert" or "fpe"
template <class F> static const char* guarded(F&& call) {
    if (sigsetjmp(g_jmp, 1)) return "fpe";
    g_armed = 1;
    const char* out = "ok";
    try {
        call();
    } catch (const TeakraVerifAssert&) {
        out = "assert";
    }
    g_armed = 0;
    return out;
}

enum Op { SEND, FLUSH, ENABLE, CLOCK, PERIOD, TICK, SKIP, RESET };

// one call on the port under test = one trace line.  via: 0 direct, 1 through MMIO (Send, Flush,
// SetEnable, SetClock) or through CoreTiming (Tick, Skip: CoreTiming clips k to the smallest horizon).
static const char* call(vh::Out& o, Env& e, Op op, u64 v, int via) {
    Btdmp& b = e.b();
    g_cb.clear();
    const char* out = "ok";
    o.begin();
    switch (op) {
    case SEND:
        o.str("e", "Send"); o.num("v", (long long)v); o.num("via", via);
        out = guarded([&] { if (via) e.mmio.Write(e.reg(0x2C6), (u16)v); else b.Send((u16)v); });
        break;
    case FLUSH:
        o.str("e", "Flush"); o.num("v", (long long)v); o.num("via", via);
        out = guarded([&] { if (via) e.mmio.Write(e.reg(0x2CA), (u16)v); else b.SetTransmitFlush((u16)v); });
        break;
    case ENABLE:
        o.str("e", "SetEnable"); o.num("v", (long long)v); o.num("via", via);
        out = guarded([&] { if (via) e.mmio.Write(e.reg(0x2BE), (u16)v); else b.SetTransmitEnable((u16)v); });
        break;
    case CLOCK:
        o.str("e", "SetClock"); o.num("v", (long long)v); o.num("via", via);
        out = guarded([&] { if (via) e.mmio.Write(e.reg(0x2A2), (u16)v); else b.SetTransmitClockConfig((u16)v); });
        break;
    case PERIOD: // no register: the class API is the only way
        o.str("e", "SetPeriod"); o.num("v", (long long)v); o.num("via", 0);
        out = guarded([&] { b.SetTransmitPeriod((u16)v); });
        break;
    case TICK:
        o.str("e", "Tick"); o.num("via", via);
        out = guarded([&] { if (via) e.core_timing.Tick(); else b.Tick(); });
        break;
    case SKIP: {
        u64 h = b.GetMaxSkip();
        u64 done = v < h ? v : h; // what CoreTiming hands down
        out = guarded([&] { if (via) done = e.core_timing.Skip(v); else b.Skip(v); });
        o.str("e", "Skip"); o.num("k", (long long)(via ? done : v)); o.num("via", via);
        if (via) o.num("max", (long long)v);
        break;
    }
    case RESET:
        o.str("e", "Reset"); o.num("via", 0);
        out = guarded([&] { b.Reset(); });
        break;
    }
    observe(o, e, out);
    o.end();
    return out;
}
static void fresh(vh::Out& o, Env& e) {
    g_cb.clear();
    o.begin(); o.str("e", "New"); observe(o, e, "ok"); o.end();
}

// The directed histories around Btdmp::Skip with transmit_timer >= transmit_period, as a trace:
// the period is lowered below the running phase, then Skip(k) within the reported horizon; period 0.
static int directed(const vh::Args& a) {
    vh::Out o;
    o.open(a.out.c_str());
    vh::g_fault_out = &o;
    for (u64 k : {0ull, 3ull}) {
        Env e(k ? 1 : 0);
        fresh(o, e);
        call(o, e, PERIOD, 7, 0);
        for (int i = 0; i < (k ? 3 : 1); ++i) call(o, e, SEND, 0x11 * (i + 1), i & 1);
        call(o, e, ENABLE, 1, 1);
        for (int i = 0; i < 5; ++i) call(o, e, TICK, 0, 0);
        call(o, e, PERIOD, 3, 0); // phase 5 >= period 3: Tick transmits on the next tick
        call(o, e, SKIP, k, 0);   // k <= reported horizon
        for (int i = 0; i < 4; ++i) call(o, e, TICK, 0, 0);
    }
    {
        Env e(0);
        fresh(o, e);
        call(o, e, PERIOD, 0, 0);
        call(o, e, SEND, 0x1234, 0);
        call(o, e, ENABLE, 1, 0);
        call(o, e, TICK, 0, 0);  // period 0: a frame on every tick
        call(o, e, TICK, 0, 0);
        call(o, e, SKIP, 0, 0);  // divides by zero as pinned
    }
    o.close();
    return 0;
}

// the same two situations side by side on the real code: Skip(k) against k Ticks from equal states
static int repro(const vh::Args& a) {
    FILE* f = std::fopen(a.out.c_str(), "w");
    if (!f) return 2;
    // 1. period lowered below the running phase, then Skip(k) within the reported horizon vs k Ticks
    for (u64 k : {0ull, 3ull}) {
        std::string st[2], cbs[2];
        long long h0 = 0;
        for (int side = 0; side < 2; ++side) {
            Env e(0);
            Btdmp& b = e.b();
            b.SetTransmitPeriod(7);
            for (int i = 0; i < (k ? 3 : 1); ++i) b.Send(0x11 * (i + 1));
            b.SetTransmitEnable(1);
            for (int i = 0; i < 5; ++i) b.Tick();
            b.SetTransmitPeriod(3); // timer 5 >= period 3
            h0 = horizon(b);
            g_cb.clear();
            if (side == 0) b.Skip(k); else for (u64 i = 0; i < k; ++i) b.Tick();
            b.Tick(); // and one more cycle on both sides
            st[side] = state_json(b);
            cbs[side] = cb_json();
        }
        std::fprintf(f, "{\"repro\":\"skip-overrun\",\"history\":\"SetPeriod(7) Send x%d Enable(1) Tick x5 SetPeriod(3)\","
                        "\"horizon\":%lld,\"k\":%llu,\"then\":\"Tick\",\"after_skip\":%s,\"cb_skip\":%s,"
                        "\"after_ticks\":%s,\"cb_ticks\":%s,\"equal\":%s}\n",
                     k ? 3 : 1, h0, (unsigned long long)k, st[0].c_str(), cbs[0].c_str(), st[1].c_str(), cbs[1].c_str(),
                     (st[0] == st[1] && cbs[0] == cbs[1]) ? "true" : "false");
    }
    // 2. period 0: Tick is defined (a frame per tick), Skip(0) within the horizon divides by zero
    {
        Env e(0);
        Btdmp& b = e.b();
        b.SetTransmitPeriod(0);
        b.SetTransmitEnable(1);
        g_cb.clear();
        b.Tick();
        std::string cb_tick = cb_json();
        long long h0 = horizon(b);
        const char* out = guarded([&] { b.Skip(0); });
        std::fprintf(f, "{\"repro\":\"skip-period0\",\"history\":\"SetPeriod(0) Enable(1) Tick\",\"cb_tick\":%s,"
                        "\"horizon\":%lld,\"k\":0,\"skip_outcome\":\"%s\"}\n", cb_tick.c_str(), h0, out);
    }
    std::fclose(f);
    return 0;
}

int main(int argc, char** argv) {
    vh::Args a(argc, argv);
    vh::install_fault_handlers(nullptr);
    std::signal(SIGFPE, on_fpe);
    vh::silence_stdout();
    if (a.mode == "repro") return repro(a);
    if (a.mode == "directed") return directed(a);
    vh::Out o;
    o.open(a.out.c_str());
    vh::g_fault_out = &o;
    vh::Rng rng(a.seed);

    const std::vector<u16> periods = {1, 1, 2, 2, 3, 3, 7, 7, 4096, 4096, 4096, 4, 5, 8, 16, 100, 1000, 4095, 4097,
                                      0x7FFF, 0x8000, 0xFFFE, 0xFFFF, 0};
    const std::vector<u16> enables = {1, 1, 1, 1, 0, 0, 2, 0x8000, 0xFFFF};
    while (o.lines < a.n) {
        auto env = std::make_unique<Env>(rng.below(2));
        Env& e = *env;
        Btdmp& b = e.b();
        fresh(o, e);
        int len = 20 + rng.below(200);
        // most histories program the period once before anything else, as a user of the port would
        bool first_period = rng.chance(5, 6);
        const char* out = "ok";
        // anything but "ok" ends the history: a fresh object comes next
        for (int i = 0; i < len && o.lines < a.n && std::strcmp(out, "ok") == 0; ++i) {
            unsigned fill = (unsigned)VA::queue(b).size();
            u16 pd = VA::period(b), tm = VA::timer(b);
            bool on = VA::enable(b) != 0;
            unsigned r = rng.below(100);
            if (first_period && i == 0) r = 92;
            if (r < 26) {
                out = call(o, e, SEND, rng.chance(1, 6) ? 0 : rng.edge16(), rng.chance(1, 2));
            } else if (r < 30) {
                out = call(o, e, FLUSH, rng.edge16(), rng.chance(1, 2));
            } else if (r < 38) {
                u16 v = on ? (rng.chance(1, 2) ? 0 : rng.pick(enables)) : rng.pick(enables);
                out = call(o, e, ENABLE, v, rng.chance(1, 2));
            } else if (r < 41) {
                out = call(o, e, CLOCK, rng.edge16(), rng.chance(1, 2));
            } else if (r < 62) {
                out = call(o, e, TICK, 0, rng.chance(1, 3));
            } else if (r < 88) {
                u64 h = b.GetMaxSkip();
                bool inf = h == CoreTiming::Callbacks::Infinity;
                u64 k;
                unsigned c = rng.below(20);
                if (!on) {
                    k = c < 4 ? 0 : c < 8 ? 1 : c < 14 ? rng.below(100000) : (u64)(rng.next() % 1000000000ull);
                } else if (inf) {
                    // enabled with an empty queue: every period delivers a frame of zeros; keep calls short
                    u64 p = pd ? pd : 1, left = tm < pd ? (u64)(pd - tm) : 1;
                    if (c < 3) k = 0;
                    else if (c < 5) k = 1;
                    else if (c < 8) k = left - 1;
                    else if (c < 11) k = left;
                    else if (c < 13) k = left + p;
                    else if (c < 15) k = 3 * p + rng.below((u32)p);
                    else k = rng.next() % (12 * p + 1);
                } else {
                    if (c < 3) k = 0;
                    else if (c < 5) k = h ? 1 : 0;
                    else if (c < 9) k = h;
                    else if (c < 12) k = h ? h - 1 : 0;
                    else if (c < 18) k = h ? rng.next() % (h + 1) : 0;
                    else if (c < 19) k = h + 1; // one past the horizon: the deliberate assertion
                    else k = rng.chance(1, 2) ? h + 1 + rng.below(3 * (pd ? pd : 1)) : (h ? rng.next() % (h + 1) : 0);
                }
                out = call(o, e, SKIP, k, rng.chance(1, 4));
            } else if (r < 96) {
                // period: boundary values; mid-history also just above / at / below the running phase
                u16 v;
                unsigned c = rng.below(10);
                if (i == 0 || c < 5) v = rng.pick(periods);
                else if (c < 6) v = (u16)(tm + 1);
                else if (c < 7) v = tm;
                else if (c < 8) v = tm ? (u16)(tm - 1) : 1;
                else if (c < 9) v = tm ? (u16)(1 + rng.below(tm)) : 2;
                else v = (u16)(1 + rng.below(12));
                out = call(o, e, PERIOD, v, 0);
            } else if (r < 97) {
                out = call(o, e, RESET, 0, 0);
            } else {
                // a run of Sends up to 14..18 words attempted: the full boundary (15, 16, dropped 17th)
                unsigned target = 14 + rng.below(5);
                for (unsigned n = fill; n < target && o.lines < a.n; ++n)
                    out = call(o, e, SEND, rng.chance(1, 8) ? 0 : rng.u16(), rng.chance(1, 2));
            }
        }
    }
    o.close();
    return 0;
}
