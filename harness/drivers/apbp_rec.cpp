// C14 conformance recorder/replayer: a real Teakra::Teakra instance, host side driven through the
// facade API, DSP side through MMIORead/MMIOWrite on 0x0C0-0x0D8 (+ ICU 0x200/0x202).
//
//   --mode rec   (default) seeded random histories; one ndjson line per call: the call, its arguments,
//                the value returned, the handler invocations it made (which handler, what that handler
//                could see at that moment), the complete private state of both Apbp objects + ICU
//                request bit 14 after the call, and everything either side can read without side
//                effect after the call (status/config registers, peeks, host getters).
//   --mode d3    a short directed history around MaskSemaphore (defect D3), same format.
//   --mode replay --in FILE   spec -> impl: every line of FILE is one transition of the model-checked
//                state graph (source state, call, expected return/handlers/state); the real instance is
//                seeded to the source state through the private fields, the call is made and everything
//                is compared.  Writes one summary line {"edges":N,"bad":K,...} (+ the first mismatches).
//
// apbp.cpp / teakra.cpp are compiled into this translation unit (from the tree under test) so that the
// pimpl classes Apbp::Impl and Teakra::Impl are visible; the rest comes from the library.
#include "vh.h"
#include <fstream>
#include <sstream>
#include "apbp.cpp"
#include "teakra.cpp"

using namespace Teakra;
using TK = ::Teakra::Teakra;

struct TeakraVerifAccess {
    static auto& impl(TK& t) { return *t.impl; }
    static auto& ai(Apbp& a) { return *a.impl; }
    static bool& ready(DataChannel& c) { return c.ready; }
    static u16& data(DataChannel& c) { return c.data; }
    static u16& dis(DataChannel& c) { return c.disable_interrupt; }
    static ICU::IrqBits& request(ICU& i) { return i.request; }
};
using VA = TeakraVerifAccess;

struct HCall { std::string h; long a, b; };
static std::vector<HCall> g_calls;

struct Rig {
    std::unique_ptr<TK> t;
    void fresh() {
        t = std::make_unique<TK>(UserConfig{});
        TK* p = t.get();
        for (int i = 0; i < 3; ++i)
            t->SetRecvDataHandler(i, [p, i] {
                g_calls.push_back({"d" + std::to_string(i), (long)p->RecvDataIsReady(i), (long)p->PeekRecvData(i)});
            });
        t->SetSemaphoreHandler([p] {
            g_calls.push_back({"sem", (long)p->GetSemaphore(),
                               (long)VA::ai(VA::impl(*p).apbp_from_dsp).semaphore_master_signal});
        });
        // DSP side: count what reaches the core from the ICU for irq 14 (interrupt line 0 enabled for it)
        auto& icu = VA::impl(*t).icu;
        icu.SetInterruptHandler(
            [p](u32) { g_calls.push_back({"irq", (long)p->MMIORead(0x0D6), (long)p->MMIORead(0x0D2)}); },
            [](u32, bool) { g_calls.push_back({"virq", 0, 0}); });
        t->MMIOWrite(0x206, 0x4000);
    }
};

static std::string apbp_state(Apbp& a) {
    auto& im = VA::ai(a);
    long r[3], d[3], x[3];
    for (int i = 0; i < 3; ++i) {
        r[i] = VA::ready(im.data_channels[i]);
        d[i] = VA::data(im.data_channels[i]);
        x[i] = VA::dis(im.data_channels[i]);
    }
    return "{\"rdy\":" + vh::arr(r, r + 3) + ",\"dat\":" + vh::arr(d, d + 3) + ",\"dis\":" + vh::arr(x, x + 3) +
           ",\"sem\":" + std::to_string(im.semaphore) + ",\"msk\":" + std::to_string(im.semaphore_mask) +
           ",\"sig\":" + std::to_string((int)im.semaphore_master_signal) + "}";
}
static std::string sys_state(TK& t) {
    auto& im = VA::impl(t);
    return "{\"fc\":" + apbp_state(im.apbp_from_cpu) + ",\"fd\":" + apbp_state(im.apbp_from_dsp) +
           ",\"icu\":" + std::to_string((int)VA::request(im.icu)[14]) + "}";
}
// everything readable without side effect, through the public interfaces only
static std::string observe(TK& t) {
    long rep[3], hemp[3], hrdy[3], hpk[3];
    for (int i = 0; i < 3; ++i) {
        rep[i] = t.MMIORead(0x0C0 + 4 * i);
        hemp[i] = t.SendDataIsEmpty(i);
        hrdy[i] = t.RecvDataIsReady(i);
        hpk[i] = t.PeekRecvData(i);
    }
    return "{\"cfg\":" + std::to_string(t.MMIORead(0x0D4)) + ",\"sts\":" + std::to_string(t.MMIORead(0x0D6)) +
           ",\"psts\":" + std::to_string(t.MMIORead(0x0D8)) + ",\"req\":" + std::to_string(t.MMIORead(0x200)) +
           ",\"rep\":" + vh::arr(rep, rep + 3) + ",\"set\":" + std::to_string(t.MMIORead(0x0CC)) +
           ",\"mask\":" + std::to_string(t.MMIORead(0x0CE)) + ",\"get\":" + std::to_string(t.MMIORead(0x0D2)) +
           ",\"hemp\":" + vh::arr(hemp, hemp + 3) + ",\"hrdy\":" + vh::arr(hrdy, hrdy + 3) +
           ",\"hpk\":" + vh::arr(hpk, hpk + 3) + ",\"hsem\":" + std::to_string(t.GetSemaphore()) + "}";
}
static std::string calls_json() {
    std::string s = "[";
    for (size_t i = 0; i < g_calls.size(); ++i) {
        if (i) s += ',';
        s += "{\"h\":\"" + g_calls[i].h + "\",\"a\":" + std::to_string(g_calls[i].a) + ",\"b\":" +
             std::to_string(g_calls[i].b) + "}";
    }
    return s + "]";
}

// one call; returns the value returned (0 for void)
static long perform(TK& t, const std::string& e, long c, long v) {
    if (e == "HSendData") { t.SendData((uint8_t)c, (u16)v); return 0; }
    if (e == "HRecvData") return t.RecvData((uint8_t)c);
    if (e == "HPeekRecvData") return t.PeekRecvData((uint8_t)c);
    if (e == "HSendDataIsEmpty") return t.SendDataIsEmpty((uint8_t)c);
    if (e == "HRecvDataIsReady") return t.RecvDataIsReady((uint8_t)c);
    if (e == "HSetSemaphore") { t.SetSemaphore((u16)v); return 0; }
    if (e == "HClearSemaphore") { t.ClearSemaphore((u16)v); return 0; }
    if (e == "HMaskSemaphore") { t.MaskSemaphore((u16)v); return 0; }
    if (e == "HGetSemaphore") return t.GetSemaphore();
    // Teakra::Reset also resets the ICU (since the fix b81da6f): the rig's routing of irq 14 to line 0 is part of
    // the harness set-up, not of the behaviour under test, and is put back
    if (e == "HReset") { t.Reset(); t.MMIOWrite(0x206, 0x4000); return 0; }
    if (e == "R") return t.MMIORead((u16)c);
    if (e == "W") { t.MMIOWrite((u16)c, (u16)v); return 0; }
    std::fprintf(stderr, "unknown event %s\n", e.c_str());
    std::exit(2);
}

static void emit(vh::Out& o, Rig& g, const char* e, long c, long v) {
    g_calls.clear();
    long ret = 0;
    if (std::strcmp(e, "New") == 0) g.fresh();
    else ret = perform(*g.t, e, c, v);
    std::string hc = calls_json();   // before observe(): the observation must not add to the log
    std::string y = sys_state(*g.t);
    std::vector<HCall> keep = g_calls;
    std::string ob = observe(*g.t);
    if (g_calls.size() != keep.size()) hc = "[{\"h\":\"observer-not-pure\",\"a\":0,\"b\":0}]";
    o.begin();
    o.str("e", e); o.num("c", c); o.num("v", v); o.num("ret", ret);
    o.raw("hc", hc); o.raw("y", y); o.raw("o", ob);
    o.end();
}

// 16-bit semaphore words: single bits, all, none, complements, what is pending / masked right now
static u16 semword(vh::Rng& r, TK& t, bool from_cpu) {
    auto& im = VA::ai(from_cpu ? VA::impl(t).apbp_from_cpu : VA::impl(t).apbp_from_dsp);
    switch (r.below(12)) {
    case 0: return 0;
    case 1: return 0xFFFF;
    case 2: case 3: return (u16)(1u << r.below(16));
    case 4: return (u16)~(1u << r.below(16));
    case 5: return im.semaphore;
    case 6: return (u16)~im.semaphore;
    case 7: return im.semaphore_mask;
    case 8: return (u16)(im.semaphore & ~im.semaphore_mask);
    case 9: return (u16)(im.semaphore ^ (1u << r.below(16)));
    case 10: return (u16)(r.below(4));
    default: return r.edge16();
    }
}

static void record(vh::Args& a, vh::Out& o) {
    vh::Rng rng(a.seed);
    Rig g;
    long emitted = 0;
    static const u16 cfgbits[3] = {1u << 8, 1u << 12, 1u << 13};
    while (emitted < a.n) {
        emit(o, g, "New", 0, 0); ++emitted;
        // per history: how busy each kind of operation is (so that some histories are mask-heavy, ...)
        int len = 20 + rng.below(280);
        unsigned wsem = 20 + rng.below(40), wdata = 20 + rng.below(40);
        for (int i = 0; i < len && emitted < a.n; ++i, ++emitted) {
            TK& t = *g.t;
            unsigned ch = rng.below(3);
            unsigned r = rng.below(wsem + wdata + 30);
            bool host = rng.chance(1, 2);
            if (r < wdata) {                      // mailboxes
                unsigned k = rng.below(10);
                if (host) {
                    if (k < 4) emit(o, g, "HSendData", ch, rng.edge16());
                    else if (k < 7) emit(o, g, "HRecvData", ch, 0);
                    else if (k < 8) emit(o, g, "HPeekRecvData", ch, 0);
                    else if (k < 9) emit(o, g, "HSendDataIsEmpty", ch, 0);
                    else emit(o, g, "HRecvDataIsReady", ch, 0);
                } else {
                    if (k < 4) emit(o, g, "W", 0x0C0 + 4 * ch, rng.edge16());
                    else if (k < 7) emit(o, g, "R", 0x0C2 + 4 * ch, 0);
                    else if (k < 9) emit(o, g, "R", 0x0C0 + 4 * ch, 0);
                    else emit(o, g, "W", 0x0C2 + 4 * ch, rng.edge16());
                }
            } else if (r < wdata + wsem) {        // semaphores
                unsigned k = rng.below(12);
                if (host) {
                    if (k < 4) emit(o, g, "HSetSemaphore", 0, semword(rng, t, true));
                    else if (k < 7) emit(o, g, "HClearSemaphore", 0, semword(rng, t, false));
                    else if (k < 11) emit(o, g, "HMaskSemaphore", 0, semword(rng, t, false));
                    else emit(o, g, "HGetSemaphore", 0, 0);
                } else {
                    if (k < 4) emit(o, g, "W", 0x0CC, semword(rng, t, false));
                    else if (k < 7) emit(o, g, "W", 0x0D0, semword(rng, t, true));
                    else if (k < 10) emit(o, g, "W", 0x0CE, semword(rng, t, true));
                    else if (k < 11) emit(o, g, "R", 0x0CC + 2 * rng.below(4), 0);
                    else emit(o, g, "W", 0x0D2, rng.edge16());
                }
            } else {                              // config / status / ICU / reset
                unsigned k = rng.below(30);
                if (k < 9) {
                    u16 v = 0;
                    for (int j = 0; j < 3; ++j) if (rng.chance(1, 3)) v |= cfgbits[j];
                    if (rng.chance(1, 4)) v |= rng.edge16() & ~(cfgbits[0] | cfgbits[1] | cfgbits[2]);
                    if (rng.chance(1, 10)) v = rng.edge16();
                    emit(o, g, "W", 0x0D4, v);
                }
                else if (k < 12) emit(o, g, "R", 0x0D4 + 2 * rng.below(3), 0);
                else if (k < 14) emit(o, g, "W", 0x0D6 + 2 * rng.below(2), rng.edge16());
                else if (k < 20) {
                    static const u16 acks[] = {0x4000, 0x4000, 0x4000, 0xFFFF, 0, 0xBFFF, 0x8000, 0x2000};
                    emit(o, g, "W", 0x202, rng.chance(1, 8) ? rng.u16() : acks[rng.below(8)]);
                }
                else if (k < 23) emit(o, g, "R", 0x200, 0);
                else if (k < 24) emit(o, g, "R", 0x202, 0);
                else if (k < 25) emit(o, g, "W", 0x200, rng.edge16());
                else if (k < 27) emit(o, g, "R", 0x0D0, 0);
                else emit(o, g, "HReset", 0, 0);
            }
        }
    }
}

// D3: MaskSemaphore and the signal flag, both directions, both faces (stale 1, missed rise)
static void directed_d3(vh::Out& o) {
    Rig g;
    emit(o, g, "New", 0, 0);
    emit(o, g, "HSetSemaphore", 0, 0x0001);   // CPU->DSP pending, irq
    emit(o, g, "W", 0x0CE, 0x0001);           // DSP masks it: S must drop
    emit(o, g, "R", 0x0D6, 0);
    emit(o, g, "W", 0x202, 0x4000);
    emit(o, g, "W", 0x0CE, 0x0000);           // DSP unmasks: S must rise, irq 14
    emit(o, g, "R", 0x200, 0);
    emit(o, g, "New", 0, 0);
    emit(o, g, "W", 0x0CE, 0xFFFF);           // mask everything first
    emit(o, g, "HSetSemaphore", 0, 0x8000);   // pending but masked: no irq
    emit(o, g, "W", 0x0CE, 0x7FFF);           // unmask that bit: S must rise, irq 14
    emit(o, g, "R", 0x0D6, 0);
    emit(o, g, "New", 0, 0);
    emit(o, g, "HMaskSemaphore", 0, 0x0100);  // DSP->CPU direction
    emit(o, g, "W", 0x0CC, 0x0100);           // masked: host not called
    emit(o, g, "HMaskSemaphore", 0, 0x0000);  // unmask: host semaphore handler must run
    emit(o, g, "HMaskSemaphore", 0, 0xFFFF);  // mask: flag must drop
}

// ---- spec -> impl edge replay ---------------------------------------------------------------------
// line: <e> <c> <v> <ret> | src: 2x(rdy dat dis per channel, sem msk sig) icu s4 | dst: same | hc...
// (numbers only; written by tools/props/c14.py from TLC's dump of the model-checked graph)
struct AState { long rdy[3] = {0, 0, 0}, dat[3] = {0, 0, 0}, dis[3] = {0, 0, 0}, sem = 0, msk = 0, sig = 0; };
struct SState { AState fc, fd; long icu = 0, s4 = 0; };
static void seed_apbp(Apbp& a, const AState& s) {
    auto& im = VA::ai(a);
    for (int i = 0; i < 3; ++i) {
        VA::ready(im.data_channels[i]) = s.rdy[i] != 0;
        VA::data(im.data_channels[i]) = (u16)s.dat[i];
        VA::dis(im.data_channels[i]) = (u16)s.dis[i];
    }
    im.semaphore = (u16)s.sem; im.semaphore_mask = (u16)s.msk; im.semaphore_master_signal = s.sig != 0;
}
static void read_apbp(std::istream& in, AState& s, int nch) {
    for (int i = 0; i < nch; ++i) in >> s.rdy[i];
    for (int i = 0; i < nch; ++i) in >> s.dat[i];
    for (int i = 0; i < nch; ++i) in >> s.dis[i];
    in >> s.sem >> s.msk >> s.sig;
}
static bool same_apbp(Apbp& a, const AState& s) {
    auto& im = VA::ai(a);
    for (int i = 0; i < 3; ++i)
        if (VA::ready(im.data_channels[i]) != (s.rdy[i] != 0) || VA::data(im.data_channels[i]) != s.dat[i] ||
            VA::dis(im.data_channels[i]) != s.dis[i]) return false;
    return im.semaphore == s.sem && im.semaphore_mask == s.msk && im.semaphore_master_signal == (s.sig != 0);
}
static int replay(vh::Args& a, const std::string& in_path, vh::Out& o) {
    std::ifstream in(in_path);
    if (!in) { std::perror(in_path.c_str()); return 2; }
    Rig g;
    g.fresh();
    TK& t = *g.t;
    auto& im = VA::impl(t);
    std::string line;
    long edges = 0, bad = 0, with_handlers = 0;
    int nch = 2;
    while (std::getline(in, line)) {
        if (line.empty()) continue;
        std::istringstream ls(line);
        std::string e;
        long c, v, ret, nhc;
        ls >> e;
        if (e == "NCH") { ls >> nch; continue; }
        SState s, d;
        ls >> c >> v >> ret;
        read_apbp(ls, s.fc, nch); read_apbp(ls, s.fd, nch); ls >> s.icu >> s.s4;
        read_apbp(ls, d.fc, nch); read_apbp(ls, d.fd, nch); ls >> d.icu >> d.s4;
        ls >> nhc;
        std::vector<HCall> exp;
        for (long i = 0; i < nhc; ++i) { HCall h; ls >> h.h >> h.a >> h.b; exp.push_back(h); }
        if (!ls) { std::fprintf(stderr, "bad replay line: %s\n", line.c_str()); return 2; }
        // seed the source state (0x0D4 first: it writes the disable bits and its backing storage)
        t.MMIOWrite(0x0D4, (u16)s.s4);
        seed_apbp(im.apbp_from_cpu, s.fc); seed_apbp(im.apbp_from_dsp, s.fd);
        VA::request(im.icu)[14] = s.icu != 0;
        g_calls.clear();
        long got = perform(t, e, c, v);
        std::vector<HCall> calls = g_calls;
        bool ok = got == ret && same_apbp(im.apbp_from_cpu, d.fc) && same_apbp(im.apbp_from_dsp, d.fd) &&
                  (long)VA::request(im.icu)[14] == d.icu && calls.size() == exp.size();
        for (size_t i = 0; ok && i < exp.size(); ++i)
            ok = calls[i].h == exp[i].h && calls[i].a == exp[i].a && calls[i].b == exp[i].b;
        ++edges;
        if (!exp.empty()) ++with_handlers;
        if (!ok) {
            if (bad < 5) {
                o.begin(); o.str("bad_edge", line.c_str()); o.num("got_ret", got);
                o.raw("got_hc", [&] { g_calls = calls; return calls_json(); }());
                o.raw("got_y", sys_state(t)); o.end();
            }
            ++bad;
        }
    }
    o.begin(); o.num("edges", edges); o.num("bad", bad); o.num("edges_with_handler_calls", with_handlers); o.end();
    return 0;
}

int main(int argc, char** argv) {
    vh::Args a(argc, argv);
    std::string in_path;
    for (int i = 1; i + 1 < argc; ++i) if (std::string(argv[i]) == "--in") in_path = argv[i + 1];
    vh::Out o;
    o.open(a.out.c_str());
    vh::install_fault_handlers(&o);
    vh::silence_stdout();
    int rc = 0;
    if (a.mode == "d3") directed_d3(o);
    else if (a.mode == "replay") rc = replay(a, in_path, o);
    else record(a, o);
    o.close();
    return rc;
}
