// C13 conformance recorder: random DMA transfers on the real Dma + Ahbm objects, both stand-alone
// (as tests/dma.cpp builds them) and inside a full Teakra driven through its MMIO registers.
// One ndjson line per call (see spec/DmaTrace.tla):
//   New / Ahbm   complete AHBM state after the call
//   Dma          channel configuration written, ordered log of every DSP-memory access (memory hook)
//                and every external-memory callback [kind, addr_hi, addr_lo, val_hi, val_lo],
//                interrupt-handler calls, ICU request bit 15, the channel's cursors/counters/running
//                flag and the complete AHBM state afterwards, outcome
//   DmaLong      the same for long DSP->DSP transfers; accesses counted instead of listed
// kinds: 0/1 DSP word read/write (address = byte address seen by SharedMemory), 2/3 r8/w8, 4/5 r16/w16,
// 6/7 r32/w32, 8/9 DSP access outside the data memory [0x40000,0x80000) (vetoed, not performed).
// Modes: (default) C13 configurations, DSP-side cursors kept inside the data memory;
//        d8  the trigger of defect D8 (double-word mode, size0 = 0xFFFF) under a watchdog;
//        d9  configurations whose DSP-side cursor leaves the data memory (for C18).
#include "vh.h"
#include "teakra.cpp" // Teakra::Impl is a private pimpl of this TU; taking it from here makes it reachable
#include "crash.h"
#include <algorithm>
#include <memory>
#include <unordered_map>

using namespace Teakra;

struct TeakraVerifAccess {
    static ::Teakra::Teakra::Impl& impl(::Teakra::Teakra& t) { return *t.impl; }
    static auto& chan(Dma& d, int c) { return d.channels[c]; }
    static auto& ach(Ahbm& a, int i) { return a.channels[i]; }
    static std::function<void()>& handler(Dma& d) { return d.interrupt_handler; }
};
using VA = TeakraVerifAccess;

struct Watchdog {};

// ---------------------------------------------------------------- environment of a transfer
struct Ev { int k; u32 a; u32 v; };
struct Env : VerifMemObserver {
    u8* raw = nullptr;               // DSP memory of the current rig
    std::vector<u8> shadow;          // what the memory must be: initial contents + logged writes
    std::unordered_map<u32, u8> ext; // external memory, sparse; untouched bytes have a hashed default
    std::vector<Ev> log;
    bool active = false, keep = true, memok = true;
    long nev = 0, limit = 0, nread = 0;
    int irq = 0;

    static u8 fill(u32 a) { u32 x = a * 2654435761u; x ^= x >> 15; x *= 2246822519u; x ^= x >> 13; return (u8)x; }
    u8 xget(u32 a) { auto it = ext.find(a); return it == ext.end() ? fill(a) : it->second; }
    void event(int k, u32 a, u32 v) {
        if (keep) log.push_back({k, a, v});
        ++nev;
    }
    void guard() { if (active && nev >= limit) throw Watchdog{}; }

    bool OnAccess(u32 ba, bool w, u16 value) override {
        if (!active) return true;
        guard();
        bool in = ba >= 0x40000 && ba + 1 < 0x80000;
        if (!in) { event(w ? 9 : 8, ba, w ? value : 0); return false; }
        if (w) {
            event(1, ba, value);
            shadow[ba] = (u8)value; shadow[ba + 1] = (u8)(value >> 8);
        } else {
            u16 v = raw[ba] | ((u16)raw[ba + 1] << 8);
            u16 s = shadow[ba] | ((u16)shadow[ba + 1] << 8);
            if (v != s) memok = false;
            event(0, ba, v);
            ++nread;
        }
        return true;
    }
    u8 r8(u32 a) { guard(); u8 v = xget(a); event(2, a, v); return v; }
    void w8(u32 a, u8 v) { guard(); event(3, a, v); ext[a] = v; }
    u16 r16(u32 a) { guard(); u16 v = xget(a) | ((u16)xget(a + 1) << 8); event(4, a, v); return v; }
    void w16(u32 a, u16 v) { guard(); event(5, a, v); ext[a] = (u8)v; ext[a + 1] = (u8)(v >> 8); }
    u32 r32(u32 a) {
        guard();
        u32 v = xget(a) | ((u32)xget(a + 1) << 8) | ((u32)xget(a + 2) << 16) | ((u32)xget(a + 3) << 24);
        event(6, a, v); return v;
    }
    void w32(u32 a, u32 v) {
        guard(); event(7, a, v);
        ext[a] = (u8)v; ext[a + 1] = (u8)(v >> 8); ext[a + 2] = (u8)(v >> 16); ext[a + 3] = (u8)(v >> 24);
    }
};
static Env env;

struct Cfg {
    u32 sa = 0, da = 0;
    u16 z[3] = {0, 0, 0}, ss[3] = {0, 0, 0}, ds[3] = {0, 0, 0};
    u16 sp = 0, dp = 0, dw = 0;
};

// ---------------------------------------------------------------- the two rigs
struct Rig {
    virtual ~Rig() = default;
    virtual int path() = 0;
    virtual Dma& dma() = 0;
    virtual Ahbm& ahbm() = 0;
    virtual u8* mem() = 0;
    virtual void set_ahbm(int i, u16 u, u16 bu, u16 dir, u16 dm, vh::Rng& rng) = 0;
    virtual void start(int dc, const Cfg& c, vh::Rng& rng) = 0; // writes the configuration, runs DoDma
    virtual int icu_bit() = 0;
};

static void hook_callbacks(Ahbm& a) {
    a.SetExternalMemoryCallback([](u32 x) { return env.r8(x); }, [](u32 x, u8 v) { env.w8(x, v); },
                                [](u32 x) { return env.r16(x); }, [](u32 x, u16 v) { env.w16(x, v); },
                                [](u32 x) { return env.r32(x); }, [](u32 x, u32 v) { env.w32(x, v); });
}

struct DirectRig : Rig {
    SharedMemory sm;
    Ahbm ah;
    Dma d{sm, ah};
    DirectRig() {
        d.SetInterruptHandler([] { ++env.irq; });
        hook_callbacks(ah);
    }
    int path() override { return 0; }
    Dma& dma() override { return d; }
    Ahbm& ahbm() override { return ah; }
    u8* mem() override { return sm.raw; }
    void set_ahbm(int i, u16 u, u16 bu, u16 dir, u16 dm, vh::Rng&) override {
        ah.SetUnitSize(i, u); ah.SetBurstSize(i, bu); ah.SetDirection(i, dir); ah.SetDmaChannel(i, dm);
    }
    void start(int dc, const Cfg& c, vh::Rng&) override {
        d.ActivateChannel(dc);
        d.SetAddrSrcLow(c.sa & 0xFFFF); d.SetAddrSrcHigh(c.sa >> 16);
        d.SetAddrDstLow(c.da & 0xFFFF); d.SetAddrDstHigh(c.da >> 16);
        d.SetSize0(c.z[0]); d.SetSize1(c.z[1]); d.SetSize2(c.z[2]);
        d.SetSrcStep0(c.ss[0]); d.SetSrcStep1(c.ss[1]); d.SetSrcStep2(c.ss[2]);
        d.SetDstStep0(c.ds[0]); d.SetDstStep1(c.ds[1]); d.SetDstStep2(c.ds[2]);
        d.SetSrcSpace(c.sp); d.SetDstSpace(c.dp); d.SetDwordMode(c.dw);
        d.DoDma(dc);
    }
    int icu_bit() override { return env.irq > 0 ? 1 : 0; }
};

struct MmioRig : Rig {
    ::Teakra::Teakra t{UserConfig{}};
    MmioRig() {
        AHBMCallback cb;
        cb.read8 = [](u32 x) { return env.r8(x); };   cb.write8 = [](u32 x, u8 v) { env.w8(x, v); };
        cb.read16 = [](u32 x) { return env.r16(x); }; cb.write16 = [](u32 x, u16 v) { env.w16(x, v); };
        cb.read32 = [](u32 x) { return env.r32(x); }; cb.write32 = [](u32 x, u32 v) { env.w32(x, v); };
        t.SetAHBMCallback(cb);
        // count the calls of the handler the facade installed (which raises ICU request 15)
        auto old = VA::handler(dma());
        dma().SetInterruptHandler([old] { ++env.irq; old(); });
    }
    int path() override { return 1; }
    Dma& dma() override { return VA::impl(t).dma; }
    Ahbm& ahbm() override { return VA::impl(t).ahbm; }
    u8* mem() override { return t.GetDspMemory(); }
    void set_ahbm(int i, u16 u, u16 bu, u16 dir, u16 dm, vh::Rng& rng) override {
        // bits outside the documented fields are don't-care
        t.MMIOWrite(0x0E2 + i * 6, (u16)((bu << 1) | (u << 4) | (rng.chance(1, 2) ? 1 : 0)));
        t.MMIOWrite(0x0E4 + i * 6, (u16)((dir << 8) | (rng.chance(1, 2) ? 0x200 : 0)));
        t.MMIOWrite(0x0E6 + i * 6, dm);
    }
    void start(int dc, const Cfg& c, vh::Rng& rng) override {
        t.MMIOWrite(0x1BE, dc);
        t.MMIOWrite(0x1C0, c.sa & 0xFFFF); t.MMIOWrite(0x1C2, c.sa >> 16);
        t.MMIOWrite(0x1C4, c.da & 0xFFFF); t.MMIOWrite(0x1C6, c.da >> 16);
        t.MMIOWrite(0x1C8, c.z[0]); t.MMIOWrite(0x1CA, c.z[1]); t.MMIOWrite(0x1CC, c.z[2]);
        t.MMIOWrite(0x1CE, c.ss[0]); t.MMIOWrite(0x1D0, c.ds[0]);
        t.MMIOWrite(0x1D2, c.ss[1]); t.MMIOWrite(0x1D4, c.ds[1]);
        t.MMIOWrite(0x1D6, c.ss[2]); t.MMIOWrite(0x1D8, c.ds[2]);
        t.MMIOWrite(0x1DA, (u16)(c.sp | (c.dp << 4) | (c.dw << 10) | (rng.chance(1, 4) ? 0x200 : 0)));
        t.MMIOWrite(0x184, (u16)(1u << dc));
        t.MMIOWrite(0x202, 0x8000); // acknowledge: ICU request bit 15 is clear before the transfer
        if (t.MMIORead(0x200) & 0x8000) env.memok = false;
        t.MMIOWrite(0x1DE, 0x40C0); // start: runs Dma::DoDma synchronously
    }
    int icu_bit() override { return (t.MMIORead(0x200) >> 15) & 1; }
};

// ---------------------------------------------------------------- output helpers
static std::string ahbm_state(Ahbm& a) {
    std::string s = "[";
    for (int i = 0; i < 3; ++i) {
        auto& c = VA::ach(a, i);
        if (i) s += ',';
        s += "[" + std::to_string((int)c.unit_size) + "," + std::to_string((int)c.burst_size) + "," +
             std::to_string((int)c.direction) + "," + std::to_string(c.dma_channel) + ",[";
        auto q = c.burst_queue; // copy
        bool first = true;
        while (!q.empty()) { if (!first) s += ','; first = false; s += vh::pair16(q.front()); q.pop(); }
        s += "]," + vh::pair16(c.write_burst_start) + "]";
    }
    return s + "]";
}
static std::string cfg_str(const Cfg& c) {
    long long v[16] = {c.sa >> 16, c.sa & 0xFFFF, c.da >> 16, c.da & 0xFFFF, c.z[0], c.z[1], c.z[2],
                       c.ss[0], c.ss[1], c.ss[2], c.ds[0], c.ds[1], c.ds[2], c.sp, c.dp, c.dw};
    return vh::arr(v, v + 16);
}
static std::string fin_str(Dma& d, int dc) {
    auto& c = VA::chan(d, dc);
    long long v[9] = {c.current_src >> 16, c.current_src & 0xFFFF, c.current_dst >> 16, c.current_dst & 0xFFFF,
                      c.counter0, c.counter1, c.counter2, c.running, c.ahbm_channel};
    return vh::arr(v, v + 9);
}
static std::string log_str() {
    std::string s;
    s.reserve(env.log.size() * 24 + 2);
    s += '[';
    for (size_t i = 0; i < env.log.size(); ++i) {
        const Ev& e = env.log[i];
        if (i) s += ',';
        s += '['; s += std::to_string(e.k); s += ','; s += std::to_string(e.a >> 16); s += ',';
        s += std::to_string(e.a & 0xFFFF); s += ','; s += std::to_string(e.v >> 16); s += ',';
        s += std::to_string(e.v & 0xFFFF); s += ']';
    }
    return s + ']';
}

// ---------------------------------------------------------------- configuration generation
// The generator's own walk over a configuration (plain 32-bit counters): used only to *choose*
// configurations (element count within the budget, DSP-side cursors inside the data memory); it is
// no oracle -- what the code does is judged by TLC against Dma.tla.
struct Walk { long n; u32 src_span, dst_span; bool wide; };
static Walk walk(const Cfg& c, long cap) {
    u32 n0 = c.z[0] ? c.z[0] : 1, n1 = c.z[1] ? c.z[1] : 1, n2 = c.z[2] ? c.z[2] : 1;
    if (c.dw) n0 = (n0 + 1) / 2;
    Walk w{0, 0, 0, false};
    unsigned long long total = (unsigned long long)n0 * n1 * n2;
    if (total > (unsigned long long)cap) { w.n = (long)std::min<unsigned long long>(total, 1ull << 40); w.wide = true; return w; }
    unsigned long long s = 0, d = 0;
    for (u32 k = 0; k + 1 < total; ++k) {
        u32 i0 = k % n0, i1 = (k / n0) % n1;
        int dim = i0 + 1 < n0 ? 0 : (i1 + 1 < n1 ? 1 : 2);
        s += c.ss[dim]; d += c.ds[dim];
    }
    w.n = (long)total;
    w.wide = s > 0xFFFFFFFFull || d > 0xFFFFFFFFull;
    w.src_span = (u32)s; w.dst_span = (u32)d;
    return w;
}

static u16 pick_size(vh::Rng& r, unsigned max) {
    static const u16 e[] = {0, 1, 2, 3, 4, 5, 7, 8, 9, 15, 16, 17, 31, 32, 33, 63, 64, 65, 127, 128, 255, 256,
                            257, 1023, 1024, 2047, 2048, 4095, 4096};
    for (;;) {
        u16 v = r.chance(2, 3) ? e[r.below(sizeof(e) / sizeof(e[0]))] : (u16)r.below(max + 1);
        if (v <= max) return v;
        if (r.chance(1, 4)) return (u16)max;
    }
}
static u16 pick_step(vh::Rng& r) {
    static const u16 e[] = {0, 1, 2, 3, 4, 5, 8, 16, 0xFFFF, 0xFFFE, 0xFFFC, 0x8000, 0x7FFF, 0x100, 0xFF};
    unsigned c = r.below(10);
    if (c < 6) return e[r.below(sizeof(e) / sizeof(e[0]))];
    if (c < 8) return (u16)r.below(12);
    return r.u16();
}
static u32 ext_base(vh::Rng& r) {
    static const u32 e[] = {0x20000000, 0x20000100, 0, 0x10000, 0xFFFC, 0xFFFF0, 0x7FFFFFF0, 0x80000000,
                            0xFFFFFFE0, 0xFFFFFFF8, 0xFFFEFFF8, 0x1FFF8};
    u32 b = r.chance(3, 4) ? e[r.below(sizeof(e) / sizeof(e[0]))] : (u32)r.next();
    b &= ~3u;
    if (r.chance(2, 5)) b += r.below(4); // unaligned
    return b;
}

struct Gen {
    vh::Rng& r;
    unsigned maxsize; long cap;
    // place a DSP-side range of `span`+2 words inside the data memory; false if it cannot fit
    bool dsp_base(u32 span, u32& base) {
        if (span + 2 >= 0x20000) return false;
        u32 room = 0x20000 - span - 2;
        unsigned c = r.below(8);
        if (c == 0) base = 0;
        else if (c == 1) base = room + r.below(2); // the last element touches the last data word
        else if (c == 2) base = std::min<u32>(room, 0xFFFF - r.below(4)); // around the low/high limb carry
        else if (c == 3) base = std::min<u32>(room, 0x10000 + r.below(3));
        else base = r.below(room + 1);
        if (base > room + 1) base = room;
        return true;
    }
    Cfg make(bool natural_burst, u16 unit, unsigned burst) {
        for (;;) {
            Cfg c;
            unsigned sc = r.below(20);
            c.sp = sc < 9 ? 0 : (sc < 18 ? 7 : (u16)r.pick(std::vector<u16>{1, 5, 2, 15}));
            sc = r.below(20);
            c.dp = sc < 9 ? 0 : (sc < 18 ? 7 : (u16)r.pick(std::vector<u16>{1, 5, 3, 8}));
            c.dw = r.chance(2, 5) ? 1 : 0;
            if (natural_burst) { // external side(s) one unit apart, whole bursts
                c.dw = unit == 2 ? 1 : 0;
                if (c.sp != 7 && c.dp != 7) { if (r.chance(1, 2)) c.sp = 7; else c.dp = 7; }
                if (c.sp == 7 && c.dp == 7 && burst > 1) c.dp = 0;
            }
            unsigned shape = r.below(10);
            for (int i = 0; i < 3; ++i) {
                c.ss[i] = pick_step(r); c.ds[i] = pick_step(r);
            }
            if (shape < 4) { c.z[0] = pick_size(r, maxsize); c.z[1] = r.below(2); c.z[2] = r.below(2); }
            else if (shape < 7) { c.z[0] = pick_size(r, 12); c.z[1] = pick_size(r, 12); c.z[2] = r.below(2); }
            else { c.z[0] = pick_size(r, 6); c.z[1] = pick_size(r, 5); c.z[2] = pick_size(r, 5); }
            if (natural_burst) {
                u16 ub = c.dw ? 4 : 2;
                for (int i = 0; i < 3; ++i) { if (c.sp == 7) c.ss[i] = ub; if (c.dp == 7) c.ds[i] = ub; }
                unsigned groups = 1 + r.below(4);
                c.z[0] = (u16)(burst * groups * (c.dw ? 2 : 1)); c.z[1] = r.below(3); c.z[2] = r.below(2);
            }
            if (c.dw && c.z[0] == 0xFFFF) continue; // the D8 trigger has its own mode
            // DSP sides must stay inside the data memory: tame the steps until the walk fits
            Walk w = walk(c, cap);
            for (int tries = 0; tries < 6 && !w.wide && ((c.sp == 0 && w.src_span + 2 >= 0x20000) ||
                                                         (c.dp == 0 && w.dst_span + 2 >= 0x20000)); ++tries) {
                for (int i = 0; i < 3; ++i) {
                    if (c.sp == 0 && c.ss[i] > 8) c.ss[i] = (u16)r.below(9);
                    if (c.dp == 0 && c.ds[i] > 8) c.ds[i] = (u16)r.below(9);
                }
                w = walk(c, cap);
            }
            if (w.wide || w.n > cap) continue;
            u32 sb = 0, db = 0;
            if (c.sp == 0 && !dsp_base(w.src_span, sb)) continue;
            if (c.dp == 0 && !dsp_base(w.dst_span, db)) continue;
            if (c.sp == 0 && c.dp == 0 && r.chance(3, 5)) { // overlapping ranges
                long delta = (long)r.below(9) - 4;
                long cand = (long)sb + delta;
                if (cand >= 0 && (u32)cand + w.dst_span + 2 < 0x20000) db = (u32)cand;
            }
            c.sa = c.sp == 0 ? sb : ext_base(r);
            c.da = c.dp == 0 ? db : ext_base(r);
            if (c.sp != 0 && c.sp != 7) c.sa = (u32)r.next();
            if (c.dp != 0 && c.dp != 7) c.da = (u32)r.next();
            if (natural_burst) {
                if (c.sp == 7) c.sa &= c.dw ? ~3u : ~1u;
                if (c.dp == 7) c.da &= c.dw ? ~3u : ~1u;
            }
            if (c.sp == 7 && c.dp == 7 && r.chance(1, 3)) c.da = c.sa + (r.below(9) - 4) * (c.dw ? 4 : 2); // overlapping external ranges
            return c;
        }
    }
};

// ---------------------------------------------------------------- running one transfer
struct Session {
    vh::Out& o;
    vh::Rng& rng;
    std::unique_ptr<Rig> rig;
    long ticks_done = 0;   // elements of listed transfers (the file's budget)
    int long_done = 0;     // long (counted) transfers: a few per file, outside the budget

    void fresh(int path) {
        verif_mem_observer = nullptr;
        rig.reset();
        rig = path ? std::unique_ptr<Rig>(new MmioRig) : std::unique_ptr<Rig>(new DirectRig);
        env.raw = rig->mem();
        // junk in the data memory (and a little around it), mirrored in the shadow
        u64 s = rng.next();
        for (u32 i = 0; i < 0x80000; i += 8) {
            s = s * 6364136223846793005ull + 1442695040888963407ull;
            u64 v = s ^ (s >> 29);
            std::memcpy(env.raw + i, &v, 8);
        }
        env.shadow.assign(env.raw, env.raw + 0x80000);
        env.ext.clear();
        verif_mem_observer = &env;
        o.begin(); o.str("e", "New"); o.num("path", rig->path()); o.raw("ah", ahbm_state(rig->ahbm())); o.end();
    }
    void set_ahbm(int i, u16 u, u16 bu, u16 dir, u16 dm) {
        rig->set_ahbm(i, u, bu, dir, dm, rng);
        o.begin(); o.str("e", "Ahbm"); o.num("path", rig->path()); o.num("i", i); o.num("u", u); o.num("bu", bu);
        o.num("dir", dir); o.num("dm", dm); o.raw("ah", ahbm_state(rig->ahbm())); o.end();
    }
    // long_ticks < 0: list every access; otherwise count them and stop the transfer after long_ticks elements
    bool transfer(int dc, const Cfg& c, long expect, long long_ticks) {
        bool lng = long_ticks >= 0;
        int per = (c.dw ? 2 : 1) * 2; // accesses per element of a DSP->DSP transfer
        env.log.clear(); env.nev = 0; env.nread = 0; env.irq = 0; env.memok = true;
        env.keep = !lng;
        env.limit = lng ? long_ticks * per : expect * 24 + 64;
        const char* out = "ok";
        env.active = true;
        try { rig->start(dc, c, rng); }
        catch (const Watchdog&) { out = "watchdog"; }
        catch (const TeakraVerifAssert&) { out = "assert"; }
        env.active = false;
        if (std::memcmp(env.raw, env.shadow.data(), 0x80000) != 0) env.memok = false;
        o.begin();
        o.str("e", lng ? "DmaLong" : "Dma"); o.num("path", rig->path()); o.num("dc", dc); o.raw("cfg", cfg_str(c));
        if (lng) { o.num("nt", env.nev / per); o.num("nev", env.nev); }
        else o.raw("log", log_str());
        o.num("irq", env.irq); o.num("icu", rig->icu_bit());
        o.raw("fin", fin_str(rig->dma(), dc)); o.raw("ah", ahbm_state(rig->ahbm()));
        o.num("memok", env.memok ? 1 : 0); o.str("out", out);
        o.end();
        if (lng) ++long_done; else ticks_done += expect;
        return out[0] == 'o';
    }
};

static void on_alarm(int) { vh::fault("timeout"); }

int main(int argc, char** argv) {
    vh::Args a(argc, argv);
    vh::Out o;
    o.open(a.out.c_str());
    vh::install_fault_handlers(&o);
    std::signal(SIGALRM, on_alarm);
    alarm(240);
    vh::silence_stdout();
    vh::Rng rng(a.seed);
    Session s{o, rng};

    if (a.mode == "d8") {
        // double-word mode with size0 = 0xFFFF: 0x8000 elements expected; counter0 (u16) goes
        // 0xFFFE -> 0x0000 and never reaches size0.  Steps 0 keep both cursors inside the data memory.
        // --n 1 (quick tier): only the full Teakra through MMIO and only the trigger itself
        bool brief = a.n <= 1;
        for (int path = brief ? 1 : 0; path < 2; ++path) {
            s.fresh(path);
            Cfg c; c.sa = 0x10; c.da = 0x20; c.dw = 1; c.z[1] = 1; c.z[2] = 1;
            if (!brief) { c.z[0] = 0xFFFE; s.transfer(3, c, 0, 0x8000 + 64); }  // contrast: terminates after 0x7FFF
            c.z[0] = 0xFFFF; bool ok = s.transfer(3, c, 0, 0x8000 + 64);        // D8
            if (!ok || brief) continue;                                          // rig is mid-transfer: start over
            c.z[0] = 0xFFFD; s.transfer(3, c, 0, 0x8000 + 64);
        }
        o.close();
        return 0;
    }
    if (a.mode == "d9") {
        auto mk = [](u32 sa, u32 da, u16 z0, u16 s0, u16 d0, u16 dw) {
            Cfg c; c.sa = sa; c.da = da; c.z[0] = z0; c.z[1] = 1; c.z[2] = 1; c.ss[0] = s0; c.ds[0] = d0; c.dw = dw; return c;
        };
        const Cfg list[] = {
            mk(0x1FFFE, 0x100, 4, 1, 1, 0),      // source runs off the end of the data memory (= of the array)
            mk(0x100, 0x1FFFF, 2, 1, 1, 0),      // destination one past the end
            mk(0x20000, 0x200, 2, 0, 2, 1),      // double word entirely outside
            mk(0x1FF00, 0x300, 0x40, 8, 1, 0),   // strided walk across the end
            mk(0xFFFE0000, 0x400, 2, 1, 1, 0),   // 0x20000 + cursor wraps to word 0: program memory
            mk(0x80000000, 0x500, 2, 1, 1, 0),   // byte address 2*(0x20000+cursor) wraps onto data word 0 (aliasing, not vetoed)
            mk(0x600, 0xFFFFFFFF, 2, 1, 1, 1),   // destination cursor at the top of the 32-bit range
        };
        for (int path = 0; path < 2; ++path) {
            s.fresh(path);
            for (const Cfg& c : list) s.transfer(path ? 5 : 0, c, c.z[0], -1);
        }
        o.close();
        return 0;
    }

    bool thorough = a.mode == "thorough";
    Gen g{rng, thorough ? 4096u : 40u, thorough ? 4400 : 260};
    long lines_cap = 15000;
    while (s.ticks_done < a.n && o.lines < lines_cap) {
        s.fresh(rng.below(2));
        // route a few DMA channels
        for (int i = 0; i < 3; ++i)
            if (rng.chance(2, 3)) s.set_ahbm(i, rng.below(3), rng.below(3), rng.below(2), rng.chance(1, 2) ? (u16)(1u << rng.below(8)) : rng.u16());
        int n = 20 + rng.below(60);
        for (int k = 0; k < n && s.ticks_done < a.n && o.lines < lines_cap; ++k) {
            int dc = rng.below(8);
            bool nat = rng.chance(1, 4);
            u16 unit = 1 + rng.below(2);
            unsigned bu = rng.below(3);
            if (nat || rng.chance(1, 3)) {
                int i = rng.below(3);
                u16 u = nat ? unit : (u16)(rng.chance(1, 12) ? 3 : rng.below(3));
                u16 b = nat ? (u16)bu : (u16)(rng.chance(1, 12) ? 3 : rng.below(3));
                u16 dm = rng.chance(3, 4) ? (u16)((1u << dc) | (rng.chance(1, 2) ? rng.u16() : 0)) : rng.u16();
                if (nat) { // the channel that will serve dc must be this one, with an empty queue
                    i = 0; dm = (u16)((1u << dc) | rng.u16());
                    if (!VA::ach(s.rig->ahbm(), 0).burst_queue.empty()) { s.fresh(s.rig->path()); }
                }
                s.set_ahbm(i, u, b, rng.below(2), dm);
            }
            Cfg c = g.make(nat, unit, bu == 0 ? 1 : (bu == 1 ? 4 : 8));
            if (s.rig->path() == 1) { c.sp &= 15; c.dp &= 15; c.dw &= 1; }
            else if (c.dw && rng.chance(1, 8)) c.dw = rng.chance(1, 2) ? 2 : 0x100; // any non-zero value means double-word
            Walk w = walk(c, 1 << 20);
            bool ok = s.transfer(dc, c, w.n, -1);
            if (!ok) break; // the rig stopped mid-transfer: start over with fresh objects
            // thorough: now and then a long DSP->DSP transfer with 16-bit edge sizes, accesses counted
            if (thorough && s.long_done < 3 && rng.chance(1, 25)) {
                static const u16 big[] = {0xFFFF, 0xFFFE, 0x8000, 0x7FFF, 0x8001, 0x4000, 20000};
                Cfg l; l.dw = rng.below(2);
                int dim = rng.below(3);
                l.z[0] = l.z[1] = l.z[2] = (u16)rng.below(2);
                l.z[dim] = big[rng.below(7)];
                if (l.dw && l.z[0] == 0xFFFF) l.z[0] = 0xFFFE;
                if (rng.chance(1, 3)) { l.z[0] = 0x100 + rng.below(3) - 1; l.z[1] = 0x80 + rng.below(3) - 1; l.z[2] = rng.below(3); }
                for (int i = 0; i < 3; ++i) { l.ss[i] = rng.below(2); l.ds[i] = rng.below(2); }
                if (rng.chance(1, 2)) { l.ss[dim] = 1; l.ds[dim] = 1; }
                Walk lw = walk(l, 1 << 18);
                if (!lw.wide && lw.src_span + 2 < 0x20000 && lw.dst_span + 2 < 0x20000) {
                    l.sa = rng.chance(1, 2) ? 0 : 0x20000 - lw.src_span - 2;
                    l.da = rng.chance(1, 2) ? 0 : 0x20000 - lw.dst_span - 2;
                    if (!s.transfer(rng.below(8), l, lw.n, lw.n + 64)) break;
                }
            }
        }
    }
    verif_mem_observer = nullptr;
    o.close();
    return 0;
}
