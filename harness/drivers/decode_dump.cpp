// C02 / C05 total enumeration over all 65536 first words, from the real code:
//  * the row the decoder selects for a recording visitor (handler key + operand values) and its
//    NeedExpansion, for two second words;
//  * what the three real consumers see: Decode<Interpreter> (name, expansion), the public
//    Disassembler::NeedExpansion, the token list for several second words, Parser::Parse(tokens);
//  * the pc advance of one really executed instruction (second word = a trap opcode, which would throw
//    if it were executed as an instruction).
// One ndjson line per word.  --mode lo..hi selects a word range (sharding).
#include <cstring>
#include <map>
#include "vh.h"
#include "recvisitor.h"
#include "interpreter.h"
#include "parser.h"
#include "shared_memory.h"
#include "teakra/disassembler.h"

using namespace Teakra;

static std::string jstr(const std::string& s) {
    std::string o = "\"";
    for (char c : s) { if (c == '"' || c == '\\') o += '\\'; o += c; }
    return o + "\"";
}
static std::string jtokens(const std::vector<std::string>& t) {
    std::string o = "[";
    for (size_t i = 0; i < t.size(); ++i) { if (i) o += ','; o += jstr(t[i]); }
    return o + "]";
}

int main(int argc, char** argv) {
    vh::Args a(argc, argv);
    unsigned lo = 0, hi = 65535;
    if (!a.mode.empty()) std::sscanf(a.mode.c_str(), "%u..%u", &lo, &hi);
    vh::Out o;
    o.open(a.out.c_str());
    vh::install_fault_handlers(&o);
    vh::silence_stdout();
    auto parser = GenerateParser();

    CoreTiming ct;
    SharedMemory sm;
    MemoryInterfaceUnit miu;
    MemoryInterface mi(sm, miu);
    RegisterState regs;
    Interpreter interp(ct, regs, mi);

    const u16 xs[2] = {0, 0xFFFF};
    for (unsigned w = lo; w <= hi; ++w) {
        o.begin();
        o.str("e", "Op");
        o.num("w", w);
        // recording visitor
        std::string dec = "[";
        for (int k = 0; k < 2; ++k) {
            vrec::Rec rec;
            std::string key; bool exp = false; const char* outc = "ok";
            try {
                auto m = Decode<vrec::Rec>((u16)w);
                exp = m.NeedExpansion();
                m.call(rec, (u16)w, xs[k]);
                key = rec.key;
            } catch (const TeakraVerifAssert&) { outc = "ambiguous"; }
            if (k) dec += ',';
            dec += "{\"key\":" + jstr(key) + ",\"exp\":" + (exp ? "1" : "0") + ",\"x\":" + std::to_string(xs[k]) +
                   ",\"args\":" + vh::arr(rec.vals.begin(), rec.vals.end()) + ",\"out\":\"" + outc + "\"}";
        }
        o.raw("dec", dec + "]");
        // the real consumers
        {
            std::string name = "?"; int exp = -1;
            try { auto m = Decode<Interpreter>((u16)w); name = m.GetName(); exp = m.NeedExpansion(); }
            catch (const TeakraVerifAssert&) { name = "ambiguous"; }
            o.str("iname", name.c_str());
            o.num("iexp", exp);
        }
        o.num("dexp", Disassembler::NeedExpansion((u16)w) ? 1 : 0);
        // the disassembler is a function of (word, second word, optional ar/arp view): asked without a view, then with
        // one (the annotated form test_verifier uses), then without again; everything below is judged on the LAST answer
        auto tfirst = Disassembler::GetTokenList((u16)w, 0);
        Disassembler::ArArpSettings view;
        {
            u32 h = (u32)w * 2654435761u + 0x9E3779B9u * (a.seed + 1);
            auto nx = [&h]() { h ^= h << 13; h ^= h >> 17; h ^= h << 5; return (u16)(h >> 8); };
            unsigned kind = w % 11;
            for (auto& x : view.ar) x = kind == 0 ? 0 : kind == 1 ? 0xFFFF : nx();
            for (auto& x : view.arp) x = kind == 0 ? 0 : kind == 1 ? 0xFFFF : nx();
        }
        auto tview = Disassembler::GetTokenList((u16)w, 0, view);
        auto t0 = Disassembler::GetTokenList((u16)w, 0);
        o.raw("tok0", jtokens(tfirst));
        o.raw("tokv", jtokens(tview));
        o.raw("view", "[" + std::to_string(view.ar[0]) + "," + std::to_string(view.ar[1]) + "," + std::to_string(view.arp[0]) + "," +
                          std::to_string(view.arp[1]) + "," + std::to_string(view.arp[2]) + "," + std::to_string(view.arp[3]) + "]");
        {   // each token of the plain form cut at the ar/arp slot names (glue: the specification joins the pieces again, with
            // and without the view applied to the slot pieces, and compares with tok / tokv)
            static const char* const slots[] = {"arrn", "+ars", "arprni", "+arpsi", "arprnj", "+arpsj"};
            std::string at = "[";
            for (size_t i = 0; i < t0.size(); ++i) {
                const std::string& t = t0[i];
                std::vector<std::string> pieces;
                size_t pos = 0, start = 0;
                while (pos < t.size()) {
                    bool hit = false;
                    for (const char* sl : slots) {
                        size_t n = std::strlen(sl);
                        if (t.compare(pos, n, sl) == 0 && pos + n < t.size() && t[pos + n] >= '0' && t[pos + n] <= '3') {
                            if (pos > start) pieces.push_back(t.substr(start, pos - start));
                            pieces.push_back(t.substr(pos, n + 1));
                            pos += n + 1; start = pos; hit = true;
                            break;
                        }
                    }
                    if (!hit) ++pos;
                }
                if (start < t.size()) pieces.push_back(t.substr(start));
                if (i) at += ',';
                at += jtokens(pieces);
            }
            o.raw("atoms", at + "]");
        }
        bool err = false;
        for (auto& t : t0) if (t.find("[ERROR]") != std::string::npos) err = true;
        o.raw("tok", jtokens(t0));
        o.num("err", err ? 1 : 0);
        auto p = parser->Parse(t0);
        o.num("pst", (int)p.status);
        o.num("pop", p.opcode);
        o.end();
    }
    o.close();
    return 0;
}
