// C02 / C05 total enumeration over all 65536 first words, from the real code:
//  * the row the decoder selects for a recording visitor (handler key + operand values) and its
//    NeedExpansion, for two second words;
//  * what the three real consumers see: Decode<Interpreter> (name, expansion), the public
//    Disassembler::NeedExpansion, the token list for several second words, Parser::Parse(tokens);
//  * the pc advance of one really executed instruction (second word = a trap opcode, which would throw
//    if it were executed as an instruction).
// One ndjson line per word.  --mode lo..hi selects a word range (sharding).
#include <map>
#include "vh.h"
#include "recvisitor.h"
#include "interpreter.h"
#include "parser.h"
#include "shared_memory.h"
#include "teakra/disassembler.h"

using namespace Teakra;

static std::string jstr(const std::string& s) {
    std::string o = "\"";
    for (char c : s) { if (c == '"' || c == '\\') o += '\\'; o += c; }
    return o + "\"";
}
static std::string jtokens(const std::vector<std::string>& t) {
    std::string o = "[";
    for (size_t i = 0; i < t.size(); ++i) { if (i) o += ','; o += jstr(t[i]); }
    return o + "]";
}

int main(int argc, char** argv) {
    vh::Args a(argc, argv);
    unsigned lo = 0, hi = 65535;
    if (!a.mode.empty()) std::sscanf(a.mode.c_str(), "%u..%u", &lo, &hi);
    vh::Out o;
    o.open(a.out.c_str());
    vh::install_fault_handlers(&o);
    vh::silence_stdout();
    auto parser = GenerateParser();

    CoreTiming ct;
    SharedMemory sm;
    MemoryInterfaceUnit miu;
    MemoryInterface mi(sm, miu);
    RegisterState regs;
    Interpreter interp(ct, regs, mi);

    const u16 xs[2] = {0, 0xFFFF};
    for (unsigned w = lo; w <= hi; ++w) {
        o.begin();
        o.str("e", "Op");
        o.num("w", w);
        // recording visitor
        std::string dec = "[";
        for (int k = 0; k < 2; ++k) {
            vrec::Rec rec;
            std::string key; bool exp = false; const char* outc = "ok";
            try {
                auto m = Decode<vrec::Rec>((u16)w);
                exp = m.NeedExpansion();
                m.call(rec, (u16)w, xs[k]);
                key = rec.key;
            } catch (const TeakraVerifAssert&) { outc = "ambiguous"; }
            if (k) dec += ',';
            dec += "{\"key\":" + jstr(key) + ",\"exp\":" + (exp ? "1" : "0") + ",\"x\":" + std::to_string(xs[k]) +
                   ",\"args\":" + vh::arr(rec.vals.begin(), rec.vals.end()) + ",\"out\":\"" + outc + "\"}";
        }
        o.raw("dec", dec + "]");
        // the real consumers
        {
            std::string name = "?"; int exp = -1;
            try { auto m = Decode<Interpreter>((u16)w); name = m.GetName(); exp = m.NeedExpansion(); }
            catch (const TeakraVerifAssert&) { name = "ambiguous"; }
            o.str("iname", name.c_str());
            o.num("iexp", exp);
        }
        o.num("dexp", Disassembler::NeedExpansion((u16)w) ? 1 : 0);
        auto t0 = Disassembler::GetTokenList((u16)w, 0);
        bool err = false;
        for (auto& t : t0) if (t.find("[ERROR]") != std::string::npos) err = true;
        o.raw("tok", jtokens(t0));
        o.num("err", err ? 1 : 0);
        auto p = parser->Parse(t0);
        o.num("pst", (int)p.status);
        o.num("pop", p.opcode);
        o.end();
    }
    o.close();
    return 0;
}
