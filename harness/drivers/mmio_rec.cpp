// C12 conformance recorder: MMIO accesses on a real Teakra::Teakra through both paths
// (host accessor Teakra::MMIORead/MMIOWrite at any 0x800 mirror; DSP data access
// Teakra::DataRead/DataWrite at mmio_base + offset, the MemoryInterface path a guest load/store uses).
//
// One ndjson line per event.  After EVERY event the recorder reads back all 0x800 offsets through the
// host accessor (except CMD0..2 = 0x0C2/0x0C6/0x0CA, whose read is a mailbox receive) and compares with
// the read-backs it had before the event; the line carries the complete list of changes
//   "ch":[[offset,new read-back],...]
// and the changes of the state no register shows directly, taken through TeakraVerifAccess
//   "hid":[[id,value],...]  id 0..3 timer0/1 counter hi,lo; 16+32*ch+f DMA channel ch field f;
//                           300,301 audio FIFO length; 400+i,416+i,432+i ICU vector low/high/ctx i;
//                           500.. the fields behind the registers themselves (timer, MIU, AHBM, DMA
//                           enable/select, ICU request/enables, BTDMP config/flags) read directly from
//                           the objects, so a bit-field slot that is shifted the same way in its setter
//                           and getter (invisible to read-back) still shows
// So "nothing else changed" is part of every line.  Events:
//   New   fresh instance: iv = the (uninitialised) ICU vector arrays as found, nz/hnz = every non-zero
//         read-back / hidden value
//   W     p=h|g, a=address used, o=offset meant (2048: guest address outside the window), v, out
//   R     same with r = value returned
//   Reset Teakra::Reset();  HSend/HRecv/HSetSem/HClrSem/HMaskSem/HGetSem: host side of the mailbox
// out: ok | assert (TeakraVerifAssert) | badcall (std::bad_function_call) | exc (anything else).
//
// modes: sweep  every documented register x walking ones/zeros x both write paths, read back through
//               both paths (--part i --parts n splits the registers)
//        random histories of ~200 events over all 0x800 offsets (odd offsets included: they are cells
//               of their own), boundary-clustered values, random mirrors, relocated window, Reset
//        probe  (not a trace) shows what happens when a DMA from AHBM space starts without
//               SetAHBMCallback: prints the outcome on stderr
#include "vh.h"
#include <functional>
#include <stdexcept>
#include "teakra.cpp" // Teakra::Teakra::Impl is a pimpl private to this TU of the library

struct TeakraVerifAccess {
    using Impl = Teakra::Teakra::Impl;
    static Impl& impl(Teakra::Teakra& t) { return *t.impl; }
    static unsigned active(Teakra::Dma& d) { return d.active_channel; }
    static void channel(Teakra::Dma& d, unsigned c, uint32_t* f) {
        auto& x = d.channels[c];
        const u16 v[18] = {x.addr_src_low, x.addr_src_high, x.addr_dst_low, x.addr_dst_high, x.size0,
                           x.size1, x.size2, x.src_step0, x.dst_step0, x.src_step1, x.dst_step1,
                           x.src_step2, x.dst_step2, x.src_space, x.dst_space, x.dword_mode, x.y, x.z};
        for (int i = 0; i < 18; ++i) f[i] = v[i];
    }
    static uint32_t qlen(Teakra::Btdmp& b) { return (uint32_t)b.transmit_queue.size(); }
    static void btdmp(Teakra::Btdmp& b, uint32_t* f) {
        f[0] = b.transmit_clock_config; f[1] = b.transmit_enable; f[2] = b.transmit_empty; f[3] = b.transmit_full;
    }
    static void ahbm(Teakra::Ahbm& a, uint32_t* f) { // 3 x (burst, unit, dir, dmach), busy
        for (int i = 0; i < 3; ++i) {
            f[4 * i] = (u16)a.channels[i].burst_size; f[4 * i + 1] = (u16)a.channels[i].unit_size;
            f[4 * i + 2] = (u16)a.channels[i].direction; f[4 * i + 3] = a.channels[i].dma_channel;
        }
        f[12] = a.busy_flag;
    }
    static void dmac(Teakra::Dma& d, uint32_t* f) { f[0] = d.enable_channel; f[1] = d.active_channel; }
    static void icu(Teakra::ICU& c, uint32_t* f) {
        f[0] = (uint32_t)c.request.to_ulong();
        for (int i = 0; i < 3; ++i) f[1 + i] = (uint32_t)c.enabled[i].to_ulong();
        f[4] = (uint32_t)c.vectored_enabled.to_ulong();
    }
};
using TVA = TeakraVerifAccess;

namespace {

constexpr unsigned NOFF = 0x800, NHID = 600;
const unsigned CMD[3] = {0x0C2, 0x0C6, 0x0CA};

struct MemGuard : Teakra::VerifMemObserver { // a DMA started with wild addresses must not leave the array
    long vetoed = 0;
    bool OnAccess(u32 byte_address, bool, u16) override {
        if (byte_address + 1 >= Teakra::DspMemorySize) { ++vetoed; return false; }
        return true;
    }
} g_guard;

std::vector<unsigned> documented() { // the offsets the *.md files describe; same list as Mmio.tla DocOffs
    std::vector<unsigned> d{0x01A};
    auto range = [&](unsigned a, unsigned b) { for (unsigned o = a; o <= b; o += 2) d.push_back(o); };
    range(0x20, 0x3E); range(0xC0, 0xD8); range(0xE0, 0xF2); range(0x100, 0x122);
    range(0x180, 0x190); range(0x1BE, 0x1DE); range(0x200, 0x250);
    for (unsigned b : {0u, 0x80u}) { range(b + 0x280, b + 0x290); d.push_back(b + 0x29E);
        range(b + 0x2A0, b + 0x2B0); d.push_back(b + 0x2BE); range(b + 0x2C0, b + 0x2CA); }
    return d;
}

struct Rec {
    vh::Out& o;
    std::unique_ptr<Teakra::Teakra> t;
    uint32_t sh[NOFF], hv[NHID];
    long audio = 0, garbage_news = 0;
    explicit Rec(vh::Out& out) : o(out) {}

    TVA::Impl& im() { return TVA::impl(*t); }
    unsigned active() { return TVA::active(im().dma); }
    unsigned base() { return im().miu.mmio_base; }
    static bool window(unsigned off) { return off >= 0x1C0 && off <= 0x1DE && (off & 1) == 0; }
    static bool cmd(unsigned off) { return off == CMD[0] || off == CMD[1] || off == CMD[2]; }

    void observe(uint32_t* s, uint32_t* h) {
        for (unsigned off = 0; off < NOFF; ++off) {
            if (cmd(off)) s[off] = 0;
            else s[off] = t->MMIORead((u16)off);
        }
        for (unsigned i = 0; i < NHID; ++i) h[i] = 0;
        auto& I = im();
        for (int i = 0; i < 2; ++i) { h[2 * i] = I.timer[i].counter >> 16; h[2 * i + 1] = I.timer[i].counter & 0xFFFF; }
        for (unsigned c = 0; c < 8; ++c) TVA::channel(I.dma, c, &h[16 + 32 * c]);
        h[300] = TVA::qlen(I.btdmp[0]); h[301] = TVA::qlen(I.btdmp[1]);
        for (int i = 0; i < 16; ++i) { h[400 + i] = I.icu.vector_low[i]; h[416 + i] = I.icu.vector_high[i];
                                       h[432 + i] = I.icu.vector_context_switch[i]; }
        for (int i = 0; i < 2; ++i) {
            const Teakra::Timer& T = I.timer[i];
            const uint32_t v[8] = {T.scale, (u16)T.count_mode, T.pause, T.update_mmio, T.start_low, T.start_high,
                                   T.counter_low, T.counter_high};
            for (int f = 0; f < 8; ++f) h[500 + 10 * i + f] = v[f];
            TVA::btdmp(I.btdmp[i], &h[560 + 5 * i]);
        }
        const uint32_t m[9] = {I.miu.x_page, I.miu.y_page, I.miu.z_page, I.miu.page_mode, I.miu.mmio_base,
                               I.miu.x_size[0], I.miu.x_size[1], I.miu.y_size[0], I.miu.y_size[1]};
        for (int f = 0; f < 9; ++f) h[520 + f] = m[f];
        TVA::ahbm(I.ahbm, &h[530]);
        TVA::dmac(I.dma, &h[545]);
        TVA::icu(I.icu, &h[550]);
    }
    static std::string pairs(const uint32_t* a, const uint32_t* b, unsigned n, bool nonzero) {
        std::string s = "[";
        for (unsigned i = 0; i < n; ++i)
            if (nonzero ? b[i] != 0 : a[i] != b[i]) {
                if (s.size() > 1) s += ',';
                s += "[" + std::to_string(i) + "," + std::to_string(b[i]) + "]";
            }
        return s + "]";
    }
    void finish() { // complete the open line with the observed changes
        static uint32_t s2[NOFF], h2[NHID];
        observe(s2, h2);
        o.raw("ch", pairs(sh, s2, NOFF, false));
        o.raw("hid", pairs(hv, h2, NHID, false));
        std::memcpy(sh, s2, sizeof sh); std::memcpy(hv, h2, sizeof hv);
        o.end();
    }

    void fresh() {
        t.reset();
        t = std::make_unique<Teakra::Teakra>(Teakra::UserConfig{});
        Teakra::AHBMCallback cb;
        cb.read8 = [](u32 a) -> u8 { return (u8)(a * 7 + 1); };
        cb.read16 = [](u32 a) -> u16 { return (u16)(a * 7 + 2); };
        cb.read32 = [](u32 a) -> u32 { return a * 7 + 3; };
        cb.write8 = [](u32, u8) {}; cb.write16 = [](u32, u16) {}; cb.write32 = [](u32, u32) {};
        t->SetAHBMCallback(cb);
        t->SetAudioCallback([this](std::array<std::int16_t, 2>) { ++audio; });
        auto& I = im();
        o.begin(); o.str("e", "New");
        o.raw("iv", "[" + vh::arr(I.icu.vector_low.begin(), I.icu.vector_low.end()) + "," +
                          vh::arr(I.icu.vector_high.begin(), I.icu.vector_high.end()) + "," +
                          vh::arr(I.icu.vector_context_switch.begin(), I.icu.vector_context_switch.end()) + "]");
        bool g = false;
        for (int i = 0; i < 16; ++i) g = g || I.icu.vector_low[i] || I.icu.vector_high[i] || I.icu.vector_context_switch[i];
        if (g) ++garbage_news;
        observe(sh, hv);
        o.raw("nz", pairs(sh, sh, NOFF, true));
        o.raw("hnz", pairs(hv, hv, NHID, true));
        o.end();
    }

    template <class F> const char* guarded(F f) {
        try { f(); return "ok"; }
        catch (const TeakraVerifAssert&) { return "assert"; }
        catch (const std::bad_function_call&) { return "badcall"; }
        catch (...) { return "exc"; }
    }
    // the address a path uses for an offset; guest falls back to the host path when the relocated
    // window does not reach that offset with a 16-bit address
    bool guest_ok(unsigned off) { return base() + off <= 0xFFFF; }

    void write(char p, unsigned addr, unsigned off, unsigned v) {
        o.begin(); o.str("e", "W"); o.str("p", p == 'h' ? "h" : "g"); o.num("a", addr); o.num("o", off); o.num("v", v);
        const char* out = guarded([&] { if (p == 'h') t->MMIOWrite((u16)addr, (u16)v); else t->DataWrite((u16)addr, (u16)v); });
        o.str("out", out);
        finish();
    }
    void read(char p, unsigned addr, unsigned off) {
        unsigned r = 0;
        o.begin(); o.str("e", "R"); o.str("p", p == 'h' ? "h" : "g"); o.num("a", addr); o.num("o", off);
        const char* out = guarded([&] { r = p == 'h' ? t->MMIORead((u16)addr) : t->DataRead((u16)addr); });
        o.num("r", r); o.str("out", out);
        finish();
    }
    void W(char p, unsigned off, unsigned v, unsigned mirror = 0) {
        if (p == 'g' && !guest_ok(off)) p = 'h';
        write(p, p == 'h' ? off + 0x800 * (mirror & 31) : base() + off, off, v);
    }
    void R(char p, unsigned off, unsigned mirror = 0) {
        if (p == 'g' && !guest_ok(off)) p = 'h';
        read(p, p == 'h' ? off + 0x800 * (mirror & 31) : base() + off, off);
    }
    void reset() { o.begin(); o.str("e", "Reset"); t->Reset(); finish(); }

    // would a start of the active channel terminate quickly?  (sizes of 0 count as 1; 32-bit mode
    // with size0 = 0xFFFF never terminates, a 2^48 element transfer effectively never)
    bool dma_start_safe() {
        uint32_t f[18]; TVA::channel(im().dma, active() & 7, f);
        uint64_t n = (uint64_t)(f[4] ? f[4] : 1) * (f[5] ? f[5] : 1) * (f[6] ? f[6] : 1);
        return n <= 4096;
    }
};

void sweep(Rec& r, vh::Rng& rng, unsigned part, unsigned parts, bool full) {
    const auto doc = documented();
    const unsigned bases[] = {0x8000, 0x0000, 0x0800, 0xF800, 0x7E01, 0x4000, 0xFC00};
    std::vector<unsigned> vals;
    for (int k = 0; k < 16; ++k) vals.push_back(1u << k);
    if (full) for (int k = 0; k < 16; ++k) vals.push_back(0xFFFF ^ (1u << k));
    else for (int k : {0, 5, 10, 15}) vals.push_back(0xFFFF ^ (1u << k));
    vals.push_back(0); vals.push_back(0xFFFF);
    unsigned n = 0;
    for (unsigned idx = 0; idx < doc.size(); ++idx) {
        if (idx % parts != part) continue;
        unsigned off = doc[idx];
        if (n++ % 6 == 0) r.fresh();
        r.W('h', 0x11E, bases[idx % 7], idx);                     // relocate the window for this register
        std::vector<unsigned> vs = vals;
        if (off == 0x20 || off == 0x30) for (unsigned v : vals) vs.push_back(v & ~0x400u); // same without RES
        if (off == 0x1BE) for (unsigned c = 0; c < 8; ++c) vs.push_back(c);
        for (unsigned v : vs) {
            if (off == 0x1DE && v == 0x40C0 && !r.dma_start_safe()) continue;
            for (char p : {'h', 'g'}) {
                r.W(p, off, v, rng.below(32));
                r.R('h', off, rng.below(32));
                r.R('g', off);
                if (off == 0x1BE) { r.R('g', 0x1C2); r.W('h', 0x1CC, v ^ 0x00FF); r.R('h', 0x1DA); } // window after ANY select value
                if (off == 0x112 && r.im().miu.z_page != 0) r.W('h', 0x112, 0); // or every guest access asserts
            }
        }
        if (off == 0x1BE) r.W('g', 0x1BE, idx % 8);
    }
    if (part == 0) { // DMA start with a small, safe configuration, every channel once
        r.fresh();
        for (unsigned c = 0; c < 8; ++c) {
            char p = c & 1 ? 'g' : 'h';
            r.W(p, 0x1BE, c); r.W(p, 0x1C0, 0x100 + c); r.W(p, 0x1C4, 0x200 + c); r.W(p, 0x1C8, 1 + c % 3);
            r.W(p, 0x1CA, c % 2); r.W(p, 0x1CC, 2); r.W(p, 0x1CE, 1); r.W(p, 0x1D0, 2);
            r.W(p, 0x1DA, c % 4 == 3 ? 0x0007 : 0); r.W(p, 0x0E6, 1u << c);
            r.W(p, 0x1DE, 0x40C0, c); r.R('h', 0x200); r.W('g', 0x202, 0x8000); r.R('g', 0x1DE);
        }
        // the two as-is behaviours that the strict forms of the property reject (see MC_Mmio_pinned*.cfg):
        // bits of 0x1DA outside SRC_SPACE/DST_SPACE/DWM are one word shared by all eight channels ...
        r.fresh();
        r.W('h', 0x1BE, 0); r.W('h', 0x1DA, 0xFB00); r.W('h', 0x1BE, 1); r.R('h', 0x1DA); r.R('g', 0x1DA);
        // ... and TIMER0_CFG := RES | CM=4 (watchdog mode 1) stops in ASSERT(count_mode < 4), raw word not stored
        r.W('h', 0x20, 0x0410); r.R('h', 0x20);
    }
}

void random_histories(Rec& r, vh::Rng& rng, long n) {
    const auto doc = documented();
    const std::vector<unsigned> basev = {0x8000, 0x8000, 0x0000, 0x0800, 0xF800, 0xFC00, 0xFFFF, 0x1234, 0x7E00, 0x4001};
    const std::vector<unsigned> cfgv = {0x060C, 0x0404, 0x0608, 0x0410, 0x020C, 0x000C, 0x0100, 0x0400, 0x0414, 0x0600};
    while (r.o.lines < n) {
        r.fresh();
        int len = 120 + rng.below(160);
        for (int i = 0; i < len && r.o.lines < n; ++i) {
            unsigned k = rng.below(1000);
            char p = rng.chance(1, 2) ? 'h' : 'g';
            unsigned off;
            unsigned c = rng.below(100);
            if (c < 60) off = rng.pick(doc);
            else if (c < 80) off = rng.below(0x400) * 2;
            else off = rng.below(0x800);
            if (r.im().miu.z_page != 0 && rng.chance(1, 2)) { r.W('h', 0x112, 0, rng.below(32)); continue; }
            if (k < 520) {
                unsigned v = rng.edge16();
                if (off == 0x1BE && rng.chance(1, 2)) v = rng.below(8); // else any 16-bit value: only v & 7 may count
                if (off == 0x112 && rng.chance(3, 4)) v = 0;
                if (off == 0x11E && rng.chance(3, 4)) v = rng.pick(basev);
                if ((off == 0x20 || off == 0x30) && rng.chance(2, 3)) v = rng.pick(cfgv) | (rng.chance(1, 3) ? rng.u16() & 0xF8E0 : 0);
                if ((off == 0x24 || off == 0x34) && rng.chance(1, 2)) v = rng.below(4);
                if ((off == 0x26 || off == 0x36) && rng.chance(1, 2)) v = rng.below(2);
                if (off == 0x1DE && rng.chance(1, 3)) v = 0x40C0;
                if (off == 0x1DE && v == 0x40C0 && !r.dma_start_safe()) v = 0x40C1;
                r.W(p, off, v, rng.below(32));
            } else if (k < 820) {
                r.R(p, off, rng.below(32));
            } else if (k < 835) {
                r.reset();
            } else if (k < 880) { // guest store outside the (possibly relocated) window: must not reach a register
                unsigned b = r.base();
                unsigned cand[] = {b ? b - 1 : 0xFFFFu, b + 0x800, 0x8000 + off, 0x0000 + off, b ^ 0x8000, (unsigned)rng.u16()};
                unsigned a = cand[rng.below(6)] & 0xFFFF;
                if (a >= b && a < b + 0x800) continue;
                r.write('g', a, 2048, rng.edge16());
            } else if (k < 940) { // the host side of the mailbox
                unsigned h = rng.below(6), ch = rng.below(3), v = rng.edge16(), ret = 0;
                r.o.begin();
                switch (h) {
                case 0: r.o.str("e", "HSend"); r.o.num("i", ch); r.o.num("v", v); r.t->SendData(ch, v); break;
                case 1: r.o.str("e", "HRecv"); r.o.num("i", ch); ret = r.t->RecvData(ch); r.o.num("r", ret); break;
                case 2: r.o.str("e", "HSetSem"); r.o.num("v", v); r.t->SetSemaphore(v); break;
                case 3: r.o.str("e", "HClrSem"); r.o.num("v", v); r.t->ClearSemaphore(v); break;
                case 4: r.o.str("e", "HMaskSem"); r.o.num("v", v); r.t->MaskSemaphore(v); break;
                default: r.o.str("e", "HGetSem"); ret = r.t->GetSemaphore(); r.o.num("r", ret); break;
                }
                r.finish();
            } else if (k < 960) { // small DMA job on a random channel, then start
                r.W(p, 0x1BE, rng.below(8)); r.W(p, 0x1C8, rng.below(4)); r.W(p, 0x1CA, rng.below(3));
                r.W(p, 0x1CC, rng.below(3)); r.W(p, 0x1DA, rng.chance(1, 3) ? (rng.u16() & 0x04FF) : 0);
                if (r.dma_start_safe()) r.W(p, 0x1DE, 0x40C0, rng.below(32));
            } else if (k < 980) { // audio FIFO: fill towards full, look at the flags, sometimes flush
                unsigned b = rng.below(2) * 0x80, cnt = rng.below(19);
                for (unsigned j = 0; j < cnt; ++j) r.W(p, b + 0x2C6, rng.u16());
                r.R(p, b + 0x2C2);
                if (rng.chance(1, 2)) r.W(p, b + 0x2CA, rng.below(2) * 4);
            } else { // event-count timer run down to its interrupt
                unsigned b = 0x20 + rng.below(2) * 0x10, cnt = 1 + rng.below(3);
                r.W(p, b + 4, cnt); r.W(p, b + 6, 0); r.W(p, b, 0x060C | (rng.chance(1, 4) ? 0 : 0));
                for (unsigned j = 0; j <= cnt; ++j) { r.W(p, b + 2, rng.chance(1, 5) ? 0 : 1 + rng.below(0xFFFF)); r.R(p, b + 8); }
                r.R(p, 0x200);
            }
        }
    }
}

int probe() { // C18-relevant: can MMIO writes alone reach an empty std::function?
    Teakra::Teakra t{Teakra::UserConfig{}};
    const char* out = "ok";
    try {
        t.MMIOWrite(0x1DA, 0x0007); // source space 7 = AHBM, no SetAHBMCallback was made
        t.MMIOWrite(0x1DE, 0x40C0);
    } catch (const std::bad_function_call&) { out = "std::bad_function_call"; }
    catch (const TeakraVerifAssert&) { out = "assert"; }
    std::fprintf(stderr, "probe: MMIO 0x1DA:=0x0007; 0x1DE:=0x40C0 without AHBM callbacks -> %s\n", out);
    return 0;
}

} // namespace

int main(int argc, char** argv) {
    vh::Args a(argc, argv);
    unsigned part = 0, parts = 1;
    for (int i = 1; i + 1 < argc; ++i) {
        if (!std::strcmp(argv[i], "--part")) part = (unsigned)std::atoi(argv[i + 1]);
        if (!std::strcmp(argv[i], "--parts")) parts = (unsigned)std::atoi(argv[i + 1]);
    }
    if (a.mode == "probe") return probe();
    vh::Out o;
    o.open(a.out.c_str());
    vh::install_fault_handlers(&o);
    vh::silence_stdout();
    Teakra::verif_mem_observer = &g_guard;
    vh::Rng rng(a.seed);
    Rec r(o);
    if (a.mode == "sweep" || a.mode == "sweepfull") sweep(r, rng, part, parts ? parts : 1, a.mode == "sweepfull");
    else random_histories(r, rng, a.n);
    std::fprintf(stderr, "mmio_rec: %ld lines, %ld fresh instances with non-zero ICU vector garbage, %ld vetoed DMA accesses\n",
                 o.lines, r.garbage_news, g_guard.vetoed);
    o.close();
    return 0;
}
