// C19 conformance recorder (build in the tsan flavour): a real Teakra::Teakra, a DSP thread that calls
// Run(k) in a loop on a hand-written guest program, a host thread that issues the mailbox/semaphore
// API, host callbacks (run on the DSP thread) that re-enter the API.
//
// What runs where (said plainly, because the task allows a shortcut and this driver takes half of it):
//   * the GUEST PROGRAM (assembled at start-up from the text below with the repository's own
//     Teakra::Parser) does the initialisation (sp, mod3: ie/im0, ICU enable of irq 14 on int0), a main
//     loop that polls the APBP status register 0x80D6, and the INT0 handler: log marker, acknowledge
//     the ICU (0x8202), read the status, for every ready channel read 0x80C2+4c (RecvData on
//     apbp_from_cpu) and reply with a write to 0x80C0+4c (SendData on apbp_from_dsp, which calls the
//     host callback), for a signalled semaphore read 0x80D2, clear it through 0x80D0 and set the same
//     bits towards the host through 0x80CC (which calls the host semaphore callback), reti.  Everything
//     the handler reads is appended to a log ring in DSP data memory (pointer r2).
//   * the DSP THREAD, between two Run(k) slices and only while the guest is not inside the handler
//     (regs.ie == 1), additionally calls the DSP-side entry points directly -- MMIORead/MMIOWrite of
//     0x0D6, 0x0C2/0x0C0, 0x0D2/0x0D0/0x0CC, 0x0CE, 0x200, and in the modes `dis` / `vec` the writes to
//     0x0D4 (disable-interrupt bits) and 0x24A/0x24C (ICU vector registers of irq 14).  These are the same functions the
//     guest reaches through the MMIO window; they are made from the thread that executes Run, so from
//     the library's point of view they are DSP-side accesses.  This is the "polls" half of the DSP
//     program; it is done natively so that it can be logged without a guest-side log of every poll.
//
// Events are recorded per thread in per-thread buffers (no wall clock, no shared counter, no
// synchronisation added between the two threads: progress counters and the done flag are relaxed
// atomics, which ThreadSanitizer does not treat as synchronisation).  One ndjson line per run:
//   {"e":"Run","run":k,"cfg":{..},"h":[host events],"d":[dsp-thread events],"q":[events of the main
//    thread after both threads were joined],"x":[Race / Stuck events]}
// A ThreadSanitizer report arrives through __tsan_on_report and becomes a Race event that names the
// racing variable (address looked up in the object's field map); a watchdog turns N seconds without
// progress into a Stuck event.
#include "vh.h"

#include <atomic>
#include <chrono>
#include <thread>

#include "apbp.cpp"   // Apbp::Impl / DataChannel are defined in the .cpp (see CONTRIBUTING: pimpl access)
#include "teakra.cpp" // Teakra::Impl

#include "parser.h"
#include "register.h"

#define NOSAN __attribute__((no_sanitize("thread")))

// ------------------------------------------------------------------ guest program
static const char* GUEST = R"(
segment p 0000
br 0x0000$0100 always
reti always
data 0000
reti always
data 0000
br 0x0000$0200 always

segment p 0100
mov 0x$f000 sp
mov 0x$1000 r2
mov 0x$80d6 r0
mov 0x$4000 r4
mov 0x$8206 r3
mov r4 [r3]
mov 0x$0180 mod3
br 0x0000$0180 always

segment p 0180
mov [r0] r1
nop
br 0x0000$0180 always

segment p 0200
mov 0x$00f1 r4
mov r4 [r2++]
mov 0x$4000 r4
mov 0x$8202 r3
mov r4 [r3]
mov 0x$80d6 r3
mov [r3] r5
mov r5 [r2++]
tstb r5 0x0008
br 0x0000$0230 neq
mov 0x$80c2 r3
mov [r3] r4
mov r4 [r2++]
mov 0x$80c0 r3
mov r4 [r3]
br 0x0000$0230 always

segment p 0230
tstb r5 0x000c
br 0x0000$0250 neq
mov 0x$80c6 r3
mov [r3] r4
mov r4 [r2++]
mov 0x$80c4 r3
mov r4 [r3]
br 0x0000$0250 always

segment p 0250
tstb r5 0x0009
br 0x0000$0270 neq
mov 0x$80d2 r3
mov [r3] r4
mov r4 [r2++]
mov 0x$80d0 r3
mov r4 [r3]
mov 0x$80cc r3
mov r4 [r3]
br 0x0000$0270 always

segment p 0270
mov 0x$00f2 r4
mov r4 [r2++]
reti always
)";
static const unsigned LOG_BASE = 0x1000;
static const unsigned INIT_CYCLES = 24; // reset vector + 7 init instructions + a few main-loop turns

static std::vector<std::string> tokens_of(const std::string& in) {
    std::vector<std::string> out;
    bool need_new = true;
    for (char c : in) {
        if (c == ' ' || c == '\t') need_new = true;
        else { if (need_new) { need_new = false; out.push_back(""); } out.back() += c; }
    }
    return out;
}

struct Word { unsigned addr; uint16_t w; };
static std::vector<Word> assemble(const char* text) {
    auto parser = Teakra::GenerateParser();
    std::vector<Word> out;
    unsigned at = 0;
    std::string all(text), line;
    size_t pos = 0;
    while (pos < all.size()) {
        size_t nl = all.find('\n', pos);
        if (nl == std::string::npos) nl = all.size();
        line = all.substr(pos, nl - pos);
        pos = nl + 1;
        bool has_exp = false;
        uint16_t exp = 0;
        size_t ep = line.find('$');
        if (ep != std::string::npos) {
            has_exp = true;
            exp = (uint16_t)std::stoi(line.substr(ep + 1, 4), 0, 16);
            line = line.substr(0, ep) + "0000" + line.substr(ep + 5);
        }
        auto tk = tokens_of(line);
        if (tk.empty()) continue;
        if (tk[0] == "segment") { at = (unsigned)std::stoi(tk[2], 0, 16); continue; }
        if (tk[0] == "data") { out.push_back({at++, (uint16_t)std::stoi(tk[1], 0, 16)}); continue; }
        auto r = parser->Parse(tk);
        if (r.status == Teakra::Parser::Opcode::Invalid ||
            (r.status == Teakra::Parser::Opcode::ValidWithExpansion) != has_exp) {
            std::fprintf(stderr, "conc_rec: cannot assemble: %s\n", line.c_str());
            std::exit(2);
        }
        out.push_back({at++, r.opcode});
        if (has_exp) out.push_back({at++, exp});
    }
    return out;
}

// ------------------------------------------------------------------ private state access (addresses only)
struct Field { const char* name; const void* p; size_t n; };
static std::vector<Field> g_fields; // rebuilt single-threaded at the start of every run

struct TeakraVerifAccess {
    static void map(Teakra::Teakra& t) {
        g_fields.clear();
        auto& I = *t.impl;
        static char names[64][48];
        int k = 0;
        auto add = [&](const char* fmt, const char* o, int c, const void* p, size_t n) {
            std::snprintf(names[k], sizeof names[k], fmt, o, c);
            g_fields.push_back({names[k], p, n});
            ++k;
        };
        for (int side = 0; side < 2; ++side) {
            Teakra::Apbp& a = side == 0 ? I.apbp_from_cpu : I.apbp_from_dsp;
            const char* o = side == 0 ? "apbp_from_cpu" : "apbp_from_dsp";
            auto& ai = *a.impl;
            for (int c = 0; c < 3; ++c) {
                auto& ch = ai.data_channels[c];
                add("%s.channel%d.disable_interrupt", o, c, &ch.disable_interrupt, sizeof ch.disable_interrupt);
                add("%s.channel%d.ready", o, c, &ch.ready, sizeof ch.ready);
                add("%s.channel%d.data", o, c, &ch.data, sizeof ch.data);
                add("%s.channel%d.handler", o, c, &ch.handler, sizeof ch.handler);
            }
            add("%s.semaphore", o, 0, &ai.semaphore, sizeof ai.semaphore);
            add("%s.semaphore_mask", o, 0, &ai.semaphore_mask, sizeof ai.semaphore_mask);
            add("%s.semaphore_master_signal", o, 0, &ai.semaphore_master_signal, sizeof ai.semaphore_master_signal);
            add("%s.semaphore_handler", o, 0, &ai.semaphore_handler, sizeof ai.semaphore_handler);
        }
        auto& icu = I.icu;
        add("%s.vector_low", "icu", 0, &icu.vector_low, sizeof icu.vector_low);
        add("%s.vector_high", "icu", 0, &icu.vector_high, sizeof icu.vector_high);
        add("%s.vector_context_switch", "icu", 0, &icu.vector_context_switch, sizeof icu.vector_context_switch);
        add("%s.request", "icu", 0, &icu.request, sizeof icu.request);
        add("%s.enabled", "icu", 0, &icu.enabled, sizeof icu.enabled);
        add("%s.vectored_enabled", "icu", 0, &icu.vectored_enabled, sizeof icu.vectored_enabled);
        add("%s.on_interrupt", "icu", 0, &icu.on_interrupt, sizeof icu.on_interrupt);
        add("%s", "shared_memory", 0, I.shared_memory.raw, Teakra::DspMemorySize);
        add("%s", "register_state", 0, &t.GetRegisterState(), sizeof(Teakra::RegisterState));
    }
};

NOSAN static const char* field_of(const void* a) {
    for (auto& f : g_fields)
        if ((const char*)a >= (const char*)f.p && (const char*)a < (const char*)f.p + f.n) return f.name;
    return "other";
}

// ------------------------------------------------------------------ ThreadSanitizer report hook
extern "C" {
// weak: the driver also links (without a hook that ever fires) in the non-tsan flavours
__attribute__((weak)) int __tsan_get_report_data(void* report, const char** description, int* count, int* stack_count,
                           int* mop_count, int* loc_count, int* mutex_count, int* thread_count,
                           int* unique_tid_count, void** sleep_trace, unsigned long trace_size);
__attribute__((weak)) int __tsan_get_report_mop(void* report, unsigned long idx, int* tid, void** addr, int* size, int* write,
                          int* atomic, void** trace, unsigned long trace_size);
const char* __tsan_default_options() { return "exitcode=0:halt_on_error=0:report_signal_unsafe=0:second_deadlock_stack=1"; }
}
struct RaceRec { const char* desc; const char* var; int nmop; int write[2]; int atomic[2]; int size[2]; };
static RaceRec g_races[32];
static std::atomic<int> g_nraces{0};
static std::atomic<bool> g_ignore_reports{false};

extern "C" NOSAN void __tsan_on_report(void* rep) {
    if (g_ignore_reports.load(std::memory_order_relaxed) || !__tsan_get_report_data || !__tsan_get_report_mop) return;
    int i = g_nraces.fetch_add(1, std::memory_order_relaxed);
    if (i >= 32) return;
    RaceRec& r = g_races[i];
    const char* desc = "?";
    int count = 0, sc = 0, mc = 0, lc = 0, mxc = 0, tc = 0, utc = 0;
    void* sleep_trace[1];
    __tsan_get_report_data(rep, &desc, &count, &sc, &mc, &lc, &mxc, &tc, &utc, sleep_trace, 1);
    r.desc = desc;
    r.nmop = mc > 2 ? 2 : mc;
    r.var = mc ? "other" : "none";
    for (int m = 0; m < r.nmop; ++m) {
        int tid = 0;
        void* addr = nullptr;
        void* trace[1];
        __tsan_get_report_mop(rep, m, &tid, &addr, &r.size[m], &r.write[m], &r.atomic[m], trace, 1);
        if (m == 0) r.var = field_of(addr);
    }
}

// ------------------------------------------------------------------ per-thread event buffers
struct Ev {
    std::vector<std::string> v;
    std::atomic<unsigned long> progress{0};
    void add(const std::string& s) { v.push_back(s); progress.fetch_add(1, std::memory_order_relaxed); }
    void tick() { progress.fetch_add(1, std::memory_order_relaxed); }
};
static std::string J(const char* e) { return std::string("{\"e\":\"") + e + "\"}"; }
static std::string J(const char* e, const char* k1, long v1) {
    return std::string("{\"e\":\"") + e + "\",\"" + k1 + "\":" + std::to_string(v1) + "}";
}
static std::string J(const char* e, const char* k1, long v1, const char* k2, long v2) {
    return std::string("{\"e\":\"") + e + "\",\"" + k1 + "\":" + std::to_string(v1) + ",\"" + k2 + "\":" +
           std::to_string(v2) + "}";
}
static std::string J(const char* e, const char* k1, long v1, const char* k2, long v2, const char* k3, long v3) {
    return std::string("{\"e\":\"") + e + "\",\"" + k1 + "\":" + std::to_string(v1) + ",\"" + k2 + "\":" +
           std::to_string(v2) + ",\"" + k3 + "\":" + std::to_string(v3) + "}";
}
static std::string join(const std::vector<std::string>& v) {
    std::string s = "[";
    for (size_t i = 0; i < v.size(); ++i) { if (i) s += ','; s += v[i]; }
    return s + "]";
}

static void spin(unsigned n) {
    for (volatile unsigned i = 0; i < n; ++i) {}
}

// ------------------------------------------------------------------ one run
struct Cfg {
    bool dis = false;     // DSP thread writes 0x0D4 (disable-interrupt bits) while the host sends
    bool vec = false;     // vectored delivery of irq 14 enabled; DSP thread rewrites the vector registers
    bool cbsend = false;  // data callback re-enters SendData
    bool cbrecv = true;   // data callback re-enters RecvData
    bool maskdance = false; // host masks, sets, waits for the forward, unmasks: semaphore callback on the host thread
    int nops = 8;
    long watchdog_s = 6;
};

struct RunCtx {
    Teakra::Teakra* t = nullptr;
    Cfg cfg;
    Ev h, d, q;
    std::vector<std::string> x;
    std::atomic<bool> host_done{false}, dsp_done{false};
    // DSP-thread private
    unsigned log_rd = LOG_BASE;
    int gstate = 0; // 0 idle, 1 status, 2 v0, 3 v1, 4 sem, 5 end
    unsigned gstat = 0;
    std::vector<std::string> pending;
    int cb_count = 0, cbsend_count = 0;
    unsigned cb_val = 0;
    unsigned long guest_words = 0;
};
static RunCtx* g_run = nullptr;
// which of the run's threads is executing: callbacks run on whichever thread made the call that fires them
// (data callback: DSP thread; semaphore callback: DSP thread for the guest's 0x0CC write, HOST thread for
// Teakra::MaskSemaphore since fix bf7856c).  0 = main thread, 1 = host thread, 2 = DSP thread.
static thread_local int t_who = 0;

static std::string stat_event(const char* e, unsigned w) {
    // order in which Cell::BitFieldCell::get evaluates the slots of 0x0D6
    std::string s = std::string("{\"e\":\"") + e + "\",\"r\":[" + std::to_string((w >> 5) & 1) + "," +
                    std::to_string((w >> 6) & 1) + "," + std::to_string((w >> 7) & 1) + "," +
                    std::to_string((w >> 8) & 1) + "," + std::to_string((w >> 9) & 1) + "," +
                    std::to_string((w >> 12) & 1) + "," + std::to_string((w >> 13) & 1) + "]}";
    return s;
}

static void flush_pending(RunCtx& R) {
    for (auto& s : R.pending) R.d.add(s);
    R.pending.clear();
}

// decode what the guest appended to its log ring since the last call (DSP thread only)
static void drain(RunCtx& R) {
    unsigned wr = R.t->GetRegisterState().r[2];
    while (R.log_rd != wr) {
        unsigned w = R.t->DataRead((uint16_t)R.log_rd, true);
        ++R.log_rd;
        ++R.guest_words;
        flush_pending(R);
        auto next_after = [&](int from) {
            if (from < 2 && (R.gstat >> 8 & 1)) return 2;
            if (from < 3 && (R.gstat >> 12 & 1)) return 3;
            if (from < 4 && (R.gstat >> 9 & 1)) return 4;
            return 5;
        };
        switch (R.gstate) {
        case 0:
            if (w == 0xF1) { R.d.add(J("Irq")); R.gstate = 1; }
            else R.d.add(J("GuestLogCorrupt", "w", w));
            break;
        case 1:
            R.d.add(J("Ack"));
            R.d.add(stat_event("Stat", w));
            R.gstat = w;
            R.gstate = next_after(1);
            break;
        case 2:
        case 3: {
            int c = R.gstate - 2;
            R.d.add(J("GRecv", "c", c, "r", w));
            R.pending.push_back(J("GSend", "c", c, "v", w));
            R.gstate = next_after(R.gstate);
            break;
        }
        case 4:
            R.d.add(J("GSemGet", "r", w));
            R.pending.push_back(J("GSemClr", "v", w));
            R.pending.push_back(J("GSemSet", "v", w));
            R.gstate = 5;
            break;
        case 5:
            if (w == 0xF2) { R.d.add(J("Reti")); R.gstate = 0; }
            else R.d.add(J("GuestLogCorrupt", "w", w));
            break;
        }
    }
}

// host callbacks: they run on the DSP thread, inside the guest's (or the DSP thread's) write
static void on_data(int c) {
    RunCtx& R = *g_run;
    if (t_who != 2) { // cannot happen with the pinned wiring; never touch DSP-thread state from elsewhere
        (t_who == 1 ? R.h : R.q).add(J("CbDataOnWrongThread", "c", c));
        return;
    }
    drain(R);
    flush_pending(R);
    R.d.add(J("CbData", "c", c));
    ++R.cb_count;
    if (R.cfg.cbrecv || (R.cb_count % 3) == 0) {
        unsigned v = R.t->RecvData((uint8_t)c);
        R.d.add(J("Recv", "c", c, "r", v, "cb", 1));
    }
    if ((R.cb_count % 3) == 1) {
        unsigned s = R.t->GetSemaphore();
        R.d.add(J("SemGet", "r", s, "cb", 1));
    }
    if (R.cfg.cbsend && R.cbsend_count < 2) {
        ++R.cbsend_count;
        int c2 = (c + R.cbsend_count) & 1;
        unsigned v = 0x4000 + (c2 << 8) + (++R.cb_val);
        R.d.add(J("Send", "c", c2, "v", v, "cb", 1)); // logged before the call: its own handler runs inside
        R.t->SendData((uint8_t)c2, (uint16_t)v);
    }
    R.d.add(J("CbEnd"));
}
static void on_sem() {
    RunCtx& R = *g_run;
    // The re-entrant calls belong to the sequence of the thread that runs the callback.  Only the DSP
    // thread may look at the guest's log ring / registers and at the DSP-thread buffer.
    Ev& me = t_who == 2 ? R.d : t_who == 1 ? R.h : R.q;
    if (t_who == 2) {
        drain(R);
        flush_pending(R);
    }
    me.add(J("CbSem"));
    bool rdy = R.t->RecvDataIsReady(0);
    me.add(J("Ready", "c", 0, "r", rdy, "cb", 1));
    if (rdy) {
        unsigned v = R.t->RecvData(0);
        me.add(J("Recv", "c", 0, "r", v, "cb", 1));
    }
    unsigned s = R.t->GetSemaphore();
    me.add(J("SemGet", "r", s, "cb", 1));
    R.t->ClearSemaphore((uint16_t)s);
    me.add(J("SemClr", "v", s, "cb", 1));
    me.add(J("CbEnd"));
}

static const unsigned SEMV[] = {1, 2, 4, 3, 0x8000, 0x8001, 0xFFFF, 6};

static void host_thread(RunCtx& R, uint64_t seed) {
    t_who = 1;
    vh::Rng rng(seed);
    Teakra::Teakra& t = *R.t;
    unsigned nsent[2] = {0, 0};
    int dance_at = R.cfg.maskdance ? (int)rng.below(R.cfg.nops) : -1;
    for (int i = 0; i < R.cfg.nops; ++i) {
        if (i == dance_at) {
            // mask everything, raise a semaphore towards the DSP, give the DSP time to forward it (it arrives
            // masked: no callback), then unmask: since fix bf7856c MaskSemaphore calls the host semaphore
            // callback ON THIS THREAD, with the recursive semaphore mutex held
            unsigned b = SEMV[rng.below(8)];
            R.h.add(J("SemMask", "v", 0xFFFF));
            t.MaskSemaphore(0xFFFF);
            R.h.add(J("SemSet", "v", b));
            t.SetSemaphore((uint16_t)b);
            for (int k = 0; k < 4; ++k) {
                spin(20000 + rng.below(20000));
                std::this_thread::yield();
                unsigned g = t.GetSemaphore();
                R.h.add(J("SemGet", "r", g));
                if (g) break;
            }
            R.h.add(J("SemMask", "v", 0));
            t.MaskSemaphore(0);
            continue;
        }
        spin(rng.below(4) == 0 ? rng.below(20000) : rng.below(600));
        if (rng.chance(1, 6)) std::this_thread::yield();
        unsigned r = rng.below(100);
        int c = rng.below(2);
        if (r < 38) {
            bool go = true;
            if (rng.chance(1, 2)) {
                bool e = t.SendDataIsEmpty((uint8_t)c);
                R.h.add(J("Empty", "c", c, "r", e));
                if (!e && rng.chance(1, 2)) go = false;
            }
            if (go) {
                unsigned k = ++nsent[c];
                unsigned v = ((c + 1) << 8) + k;
                if (rng.chance(1, 5)) v |= 0x8000;
                if (rng.chance(1, 16)) v = 0xFFFF - (c << 4) - k;
                R.h.add(J("Send", "c", c, "v", v)); // the handler (ICU trigger) runs inside the call
                t.SendData((uint8_t)c, (uint16_t)v);
            }
        } else if (r < 58) {
            bool rd = t.RecvDataIsReady((uint8_t)c);
            R.h.add(J("Ready", "c", c, "r", rd));
            if (rd) {
                unsigned v = t.RecvData((uint8_t)c);
                R.h.add(J("Recv", "c", c, "r", v));
            }
        } else if (r < 62) {
            unsigned v = t.PeekRecvData((uint8_t)c);
            R.h.add(J("Peek", "c", c, "r", v));
        } else if (r < 76) {
            unsigned b = SEMV[rng.below(8)];
            R.h.add(J("SemSet", "v", b));
            t.SetSemaphore((uint16_t)b);
        } else if (r < 84) {
            unsigned s = t.GetSemaphore();
            R.h.add(J("SemGet", "r", s));
        } else if (r < 91) {
            unsigned b = SEMV[rng.below(8)];
            t.ClearSemaphore((uint16_t)b);
            R.h.add(J("SemClr", "v", b));
        } else if (r < 96) {
            unsigned b = rng.chance(1, 2) ? 0 : SEMV[rng.below(8)];
            R.h.add(J("SemMask", "v", b)); // logged first: the semaphore callback may run inside the call
            t.MaskSemaphore((uint16_t)b);
        } else {
            bool e = t.SendDataIsEmpty((uint8_t)c);
            R.h.add(J("Empty", "c", c, "r", e));
        }
    }
    R.host_done.store(true, std::memory_order_relaxed);
}

// DSP-side accesses made natively by the thread that executes Run (only while the guest is in its main loop)
static unsigned dsp_service(RunCtx& R) {
    Teakra::Teakra& t = *R.t;
    unsigned w = t.MMIORead(0x0D6);
    R.d.add(stat_event("Stat", w));
    for (int c = 0; c < 2; ++c) {
        if (w >> (c == 0 ? 8 : 12) & 1) {
            unsigned v = t.MMIORead((uint16_t)(0x0C2 + 4 * c));
            R.d.add(J("GRecv", "c", c, "r", v));
            R.pending.push_back(J("GSend", "c", c, "v", v));
            t.MMIOWrite((uint16_t)(0x0C0 + 4 * c), (uint16_t)v);
            flush_pending(R);
        }
    }
    if (w >> 9 & 1) {
        unsigned m = t.MMIORead(0x0D2);
        R.d.add(J("GSemGet", "r", m));
        t.MMIOWrite(0x0D0, (uint16_t)m);
        R.d.add(J("GSemClr", "v", m));
        R.pending.push_back(J("GSemSet", "v", m));
        t.MMIOWrite(0x0CC, (uint16_t)m);
        flush_pending(R);
    }
    return w & 0x3300; // anything from the host still waiting?
}

static void dsp_thread(RunCtx& R, uint64_t seed) {
    t_who = 2;
    vh::Rng rng(seed);
    Teakra::Teakra& t = *R.t;
    int quiet = 0;
    unsigned long guard = 0;
    while (true) {
        bool hd = R.host_done.load(std::memory_order_relaxed);
        unsigned long words_before = R.guest_words;
        t.Run(hd ? 300 : 1 + rng.below(60));
        R.d.tick();
        drain(R);
        bool in_main = t.GetRegisterState().ie == 1 && R.gstate == 0;
        if (in_main && hd) {
            // final polls: whatever was sent with interrupts disabled is fetched here; the run is over
            // once three polls in a row found nothing waiting and the guest took no interrupt in between
            unsigned waiting = dsp_service(R);
            quiet = (waiting == 0 && R.guest_words == words_before) ? quiet + 1 : 0;
            if (quiet >= 3) break;
        } else if (in_main) {
            unsigned r = rng.below(100);
            if (R.cfg.dis && r < 30) {
                // a burst of writes to the disable-interrupt bits, with nothing that synchronises in between
                int n = 1 + rng.below(4);
                for (int i = 0; i < n; ++i) {
                    unsigned b0 = rng.below(2), b1 = rng.below(2), b2 = rng.below(2);
                    unsigned disv = b0 << 8 | b1 << 12 | b2 << 13;
                    t.MMIOWrite(0x0D4, (uint16_t)disv);
                    R.d.add("{\"e\":\"SetDis\",\"v\":[" + std::to_string(b0) + "," + std::to_string(b1) + "," +
                            std::to_string(b2) + "]}");
                    spin(rng.below(3000));
                }
            } else if (R.cfg.vec && r < 30) {
                int n = 1 + rng.below(4);
                for (int i = 0; i < n; ++i) {
                    unsigned v = 0x0300 + rng.below(4);
                    if (rng.chance(1, 3)) t.MMIOWrite(0x212 + 4 * 14, (uint16_t)(rng.below(2) << 15)); // vector_high, context switch
                    else t.MMIOWrite(0x214 + 4 * 14, (uint16_t)v);                                   // vector_low
                    R.d.add(J("SetVec", "v", v));
                    spin(rng.below(3000));
                }
            } else if (r < 45) {
                dsp_service(R);
            } else if (r < 50) {
                unsigned q = t.MMIORead(0x200);
                R.d.add(J("GetReq", "r", q));
            } else if (r < 56) {
                unsigned b = rng.chance(1, 2) ? 0 : (rng.chance(1, 2) ? 0xFFFF : SEMV[rng.below(8)]);
                R.d.add(J("GSemMask", "v", b));
                t.MMIOWrite(0x0CE, (uint16_t)b);
            } else if (r < 59) {
                unsigned q = t.MMIORead(0x0D4);
                R.d.add(J("GetDis", "r", q));
            }
        }
        if (++guard > 200000) { R.d.add(J("NoQuiescence")); break; }
    }
    R.dsp_done.store(true, std::memory_order_relaxed);
}

static void final_observation(RunCtx& R) {
    Teakra::Teakra& t = *R.t;
    for (int c = 0; c < 2; ++c) {
        bool rd = t.RecvDataIsReady((uint8_t)c);
        R.q.add(J("Ready", "c", c, "r", rd));
        if (rd) {
            unsigned v = t.RecvData((uint8_t)c);
            R.q.add(J("Recv", "c", c, "r", v));
        }
        bool e = t.SendDataIsEmpty((uint8_t)c);
        R.q.add(J("Empty", "c", c, "r", e));
    }
    unsigned s = t.GetSemaphore();
    R.q.add(J("SemGet", "r", s));
    R.q.add(J("Quiesce", "req", t.MMIORead(0x200), "ip", t.GetRegisterState().ip[0], "ie",
              t.GetRegisterState().ie));
}

static vh::Out g_out;
static long g_runno = 0;

NOSAN static void write_run(RunCtx& R) {
    std::string line = "{\"e\":\"Run\",\"run\":" + std::to_string(g_runno) + ",\"cfg\":{\"dis\":" +
                       std::to_string(R.cfg.dis) + ",\"ven\":" + std::to_string(R.cfg.vec) + ",\"cbsend\":" +
                       std::to_string(R.cfg.cbsend) + ",\"cbrecv\":" + std::to_string(R.cfg.cbrecv) + "}";
    line += ",\"h\":" + join(R.h.v) + ",\"d\":" + join(R.d.v) + ",\"q\":" + join(R.q.v) + ",\"x\":" + join(R.x) + "}\n";
    std::fputs(line.c_str(), g_out.f);
    std::fflush(g_out.f);
    ++g_out.lines;
}

static const int MAX_RACE_EVENTS_PER_RUN = 6; // a flood of reports must never make the line unwieldy
static void collect_races(RunCtx& R, int from) { // from = number of reports before this run (uncapped)
    int total = g_nraces.load(std::memory_order_relaxed);
    int lo = from > 32 ? 32 : from;
    int n = total > 32 ? 32 : total;
    if (n > lo + MAX_RACE_EVENTS_PER_RUN) n = lo + MAX_RACE_EVENTS_PER_RUN;
    if (total - from > n - lo) // more reports in this run than are written out (or than the table holds)
        R.x.push_back("{\"e\":\"RaceFlood\",\"reports\":" + std::to_string(total - from) + "}");
    from = lo;
    for (int i = from; i < n; ++i) {
        RaceRec& r = g_races[i];
        std::string s = std::string("{\"e\":\"Race\",\"kind\":\"") + (r.desc ? r.desc : "?") + "\",\"var\":\"" + r.var + "\"";
        for (int m = 0; m < r.nmop; ++m)
            s += ",\"mop" + std::to_string(m) + "\":\"" + (r.write[m] ? "write" : "read") + (r.atomic[m] ? "-atomic" : "") +
                 "/" + std::to_string(r.size[m]) + "\"";
        R.x.push_back(s + "}");
    }
}

NOSAN static void watchdog(RunCtx* R, int races_before) {
    unsigned long last = ~0ul;
    auto since = std::chrono::steady_clock::now();
    while (!(R->dsp_done.load(std::memory_order_relaxed) && R->host_done.load(std::memory_order_relaxed))) {
        std::this_thread::sleep_for(std::chrono::milliseconds(50));
        unsigned long p = R->h.progress.load(std::memory_order_relaxed) + R->d.progress.load(std::memory_order_relaxed);
        auto now = std::chrono::steady_clock::now();
        if (p != last) { last = p; since = now; continue; }
        if (now - since > std::chrono::seconds(R->cfg.watchdog_s)) {
            // no progress: report what was recorded so far and leave (the stuck threads cannot be joined)
            g_ignore_reports.store(true, std::memory_order_relaxed);
            collect_races(*R, races_before);
            R->x.push_back(std::string("{\"e\":\"Stuck\",\"host_done\":") +
                           std::to_string(R->host_done.load(std::memory_order_relaxed)) + ",\"dsp_done\":" +
                           std::to_string(R->dsp_done.load(std::memory_order_relaxed)) + "}");
            write_run(*R);
            _exit(0);
        }
    }
}

int main(int argc, char** argv) {
    // an earlier emulator instance lives in the same process for the whole run (constructed first, reset, never used again):
    // nothing the instance under test does may depend on it or reach it (function-local statics, shared tables, captured `this`)
    static std::unique_ptr<Teakra::Teakra> g_decoy = std::make_unique<Teakra::Teakra>(Teakra::UserConfig{});
    g_decoy->Reset();
    vh::Args a(argc, argv);
    g_out.open(a.out.c_str());
    vh::install_fault_handlers(&g_out);
    vh::silence_stdout();
    vh::Rng rng(a.seed);
    bool m_dis = a.mode.find("dis") != std::string::npos;
    bool m_vec = a.mode.find("vec") != std::string::npos;
    bool m_asm = a.mode.find("asm") != std::string::npos;
    auto prog = assemble(GUEST);
    if (m_asm) {
        for (auto& w : prog) std::fprintf(stderr, "%04X: %04X\n", w.addr, w.w);
        return 0;
    }

    for (g_runno = 1; g_runno <= a.n; ++g_runno) {
        RunCtx R;
        g_run = &R;
        R.cfg.dis = m_dis;
        R.cfg.vec = m_vec;
        R.cfg.cbsend = rng.chance(1, 3);
        R.cfg.cbrecv = !rng.chance(1, 4);
        R.cfg.nops = 4 + rng.below(7);
        R.cfg.maskdance = rng.chance(1, 2);
        if (const char* w = std::getenv("CONC_WATCHDOG_S")) R.cfg.watchdog_s = std::atol(w);
        Teakra::UserConfig uc;
        Teakra::Teakra t(uc);
        R.t = &t;
        t.Reset();
        for (auto& w : prog) t.ProgramWrite(w.addr, w.w);
        TeakraVerifAccess::map(t);
        t.SetRecvDataHandler(0, [] { on_data(0); });
        t.SetRecvDataHandler(1, [] { on_data(1); });
        t.SetRecvDataHandler(2, [] { on_data(2); });
        t.SetSemaphoreHandler([] { on_sem(); });
        if (R.cfg.vec) {
            // the vector registers are plain storage without initialiser: give them a value first
            t.MMIOWrite(0x212 + 4 * 14, 0);
            t.MMIOWrite(0x214 + 4 * 14, 0x0300);
            t.MMIOWrite(0x20C, 0x4000); // vectored delivery of irq 14 on (guest keeps imv = 0)
        }
        t.Run(INIT_CYCLES); // guest initialisation, single-threaded
        {
            auto& rs = t.GetRegisterState();
            if (!(rs.ie == 1 && rs.im[0] == 1 && rs.r[2] == LOG_BASE && t.MMIORead(0x206) == 0x4000)) {
                std::fprintf(stderr, "conc_rec: guest initialisation did not complete\n");
                return 2;
            }
        }
        int races_before = g_nraces.load(std::memory_order_relaxed);
        uint64_t s1 = rng.next(), s2 = rng.next();
        std::thread wd(watchdog, &R, races_before);
        std::thread dt(dsp_thread, std::ref(R), s2);
        std::thread ht(host_thread, std::ref(R), s1);
        ht.join();
        dt.join();
        wd.join();
        final_observation(R);
        collect_races(R, races_before);
        write_run(R);
        g_run = nullptr;
    }
    g_out.close();
    return 0;
}
