// C15 conformance recorder: random API histories on real Timer objects, one ndjson line per call
// with the arguments, the full timer state after the call, the interrupt-handler calls made by the
// call, the outcome (ok / deliberate assertion) and the horizon GetMaxSkip reports afterwards.
#include "vh.h"
#include "core_timing.h"
#include "crash.h"
#include "timer.h"

using namespace Teakra;

static int g_irq = 0;

static void state(vh::Out& o, const Timer& t) {
    std::string s = "{\"c\":" + vh::pair16(t.counter) +
                    ",\"s\":" + vh::pair16(((u32)t.start_high << 16) | t.start_low) +
                    ",\"m\":" + std::to_string((int)t.count_mode) +
                    ",\"p\":" + std::to_string(t.pause) + ",\"u\":" + std::to_string(t.update_mmio) +
                    ",\"mi\":[" + std::to_string(t.counter_high) + "," + std::to_string(t.counter_low) + "]" +
                    ",\"sc\":" + std::to_string(t.scale) + "}";
    o.raw("t", s);
    u64 h = t.GetMaxSkip();
    if (h == CoreTiming::Callbacks::Infinity) o.raw("h", "[65536,0]");
    else if (h > 0xFFFFFFFFull) o.raw("h", "[70000,0]"); // not a value the spec can produce
    else o.raw("h", vh::pair16((u32)h));
}

int main(int argc, char** argv) {
    vh::Args a(argc, argv);
    vh::Out o;
    o.open(a.out.c_str());
    vh::install_fault_handlers(&o);
    vh::silence_stdout();
    vh::Rng rng(a.seed);

    const std::vector<u32> starts = {0, 1, 2, 3, 4, 5, 7, 0xFFFF, 0x10000, 0x10001, 0x1FFFF, 0x20000,
                                     0xFFFFFFFE, 0xFFFFFFFF, 0xFFFF0000, 0xFFFF0001};
    long emitted = 0;
    while (emitted < a.n) {
        CoreTiming ct;
        Timer t(ct);
        t.SetInterruptHandler([] { ++g_irq; });
        o.begin(); o.str("e", "New"); state(o, t); o.num("irq", 0); o.str("out", "ok"); o.end();
        ++emitted;
        int len = 20 + rng.below(120);
        for (int i = 0; i < len && emitted < a.n; ++i, ++emitted) {
            g_irq = 0;
            const char* out = "ok";
            o.begin();
            try {
                unsigned r = rng.below(100);
                if (r < 34) { o.str("e", "Tick"); t.Tick(); }
                else if (r < 40) { o.str("e", "TickEvent"); t.TickEvent(); }
                else if (r < 47) { o.str("e", "Restart"); t.Restart(); }
                else if (r < 48) { o.str("e", "Reset"); t.Reset(); }
                else if (r < 70) {
                    u64 h = t.GetMaxSkip();
                    u64 k;
                    unsigned c = rng.below(10);
                    u64 cap = h == CoreTiming::Callbacks::Infinity ? 0xFFFFFFFFull : h;
                    if (c < 3) k = 0;
                    else if (c < 4) k = cap ? 1 : 0;
                    else if (c < 6) k = cap;
                    else if (c < 7) k = cap ? cap - 1 : 0;
                    else if (c < 9) k = cap ? rng.next() % (cap + 1) : 0;
                    else k = (cap < 0xFFFFFFFFull && rng.chance(1, 3)) ? cap + 1 : (cap ? rng.below(5) % (cap + 1) : 0);
                    o.str("e", "Skip"); o.raw("k", vh::pair16((u32)k));
                    t.Skip(k);
                }
                else if (r < 78) { u16 v = rng.below(4); o.str("e", "SetMode"); o.num("v", v); t.count_mode = (Timer::CountMode)v; }
                else if (r < 82) { u16 v = rng.below(2); o.str("e", "SetPause"); o.num("v", v); t.pause = v; }
                else if (r < 86) { u16 v = rng.below(2); o.str("e", "SetUpd"); o.num("v", v); t.update_mmio = v; }
                else if (r < 95) {
                    u32 v = rng.chance(3, 4) ? rng.pick(starts) : (rng.chance(1, 2) ? rng.below(40) : (u32)rng.next());
                    o.str("e", "SetStart"); o.raw("v", vh::pair16(v));
                    t.start_high = v >> 16; t.start_low = v & 0xFFFF;
                }
                else if (r < 98) { u32 v = (u32)rng.next(); o.str("e", "SetMirror"); o.raw("v", vh::pair16(v)); t.counter_high = v >> 16; t.counter_low = v & 0xFFFF; }
                else { u16 v = rng.chance(2, 3) ? 0 : rng.below(4); o.str("e", "SetScale"); o.num("v", v); t.scale = v; }
            } catch (const TeakraVerifAssert&) {
                out = "assert";
            }
            state(o, t);
            o.num("irq", g_irq);
            o.str("out", out);
            o.end();
        }
    }
    o.close();
    return 0;
}
