// C17 recorder: determinism and Reset.  Emulator instances are created after deliberate heap pollution
// (freed blocks filled with junk, MALLOC_PERTURB_ set by the runner, previous instances destroyed first),
// driven through random API histories (guest programs with timers / interrupts, host MMIO writes to every
// component, mailbox and semaphore traffic) and observed completely:
//   r      the complete register state        lat   interrupt latches and vectored address/context
//   tm     both timers                        icu   request, enables, vectors
//   apbp   host view of both mailboxes and semaphores, interrupt-disable bits
//   mmio   read-back of every even MMIO offset (mailbox receive registers excluded: reading them is a receive)
//   dma    the register window of all eight channels,  ahbm  channel settings,  miu  MIU registers
//   ahbm   the hidden AHBM state (busy flag; per channel unit/burst/direction/DMA channel, the burst FIFO with its
//          pending words, write_burst_start),  ext  number and digest of the external-memory callbacks made
//          since the previous observation (reads return a hash of the address, so stale burst words show)
//   memown whether the DSP memory is the instance's own allocation (instances are created without user memory)
//   mem    number of non-zero bytes of DSP memory and the first few of them
// Lines: New(kind) / Hist(n ops, digest) / Reset / Obs(when, o).  `when` tells the specification which rule
// applies: "fresh" (constructed, not reset), "fresh_reset", "dirty", "reset" (history, then Reset()).
#include <map>
#include "vh.h"
#include "reglayout.h"
#include "interpreter.h"
#include "processor.cpp"
#include "teakra.cpp"
#include "teakra/teakra_c.h"
#include "teakra_c.cpp"   // struct TeakraObject: every other instance is created (and reset) through the C binding

using namespace Teakra;
using vlayout::NREG;

// every allocation made through operator new starts out filled with junk (byte from VERIF_NEW_FILL, default 0xA5): whatever
// an object does not initialise itself is visibly dirty, independently of what the allocator happens to recycle or clear
static unsigned char g_new_fill = 0xA5;
void* operator new(std::size_t n) {
    void* p = std::malloc(n ? n : 1);
    if (!p) throw std::bad_alloc();
    std::memset(p, g_new_fill, n);
    return p;
}
void* operator new[](std::size_t n) { return operator new(n); }
void operator delete(void* p) noexcept { std::free(p); }
void operator delete[](void* p) noexcept { std::free(p); }
void operator delete(void* p, std::size_t) noexcept { std::free(p); }
void operator delete[](void* p, std::size_t) noexcept { std::free(p); }

static void pollute_heap(vh::Rng& rng) {
    std::vector<void*> blocks;
    for (int i = 0; i < 200; ++i) {
        size_t n = 16 + rng.below(1 << (4 + rng.below(12)));
        void* p = std::malloc(n);
        std::memset(p, 0xA0 + rng.below(0x50), n);
        blocks.push_back(p);
    }
    for (void* p : blocks) std::free(p);
}

struct Inst {
    std::unique_ptr<Teakra::Teakra> own;
    TeakraContext* ctx = nullptr;
    Teakra::Teakra* t = nullptr;
    ~Inst() { if (ctx) Teakra_Destroy(ctx); }
    void reset() { if (ctx) Teakra_Reset(ctx); else t->Reset(); }
    long audio = 0, rd[3] = {0, 0, 0}, sem = 0;
    long ext_n = 0; u32 ext_h = 0;
    void ext(u32 kind, u32 addr, u32 v) { ++ext_n; ext_h = (ext_h * 16777619u) ^ (kind * 0x9E3779B1u + addr * 31u + v); }
    static u32 mix(u32 a) { a ^= a >> 15; a *= 0x2C1B3C6Du; a ^= a >> 12; return a; }
    auto& impl() { return *TeakraVerifAccess::impl(*t); }
    auto& interp() { return TeakraVerifAccess::interpreter(*TeakraVerifAccess::impl(TeakraVerifAccess::processor(impl()))); }
    void make(bool capi = false) {
        if (capi) { ctx = Teakra_Create(); t = &ctx->teakra; }
        else { Teakra::UserConfig cfg; own = std::make_unique<Teakra::Teakra>(cfg); t = own.get(); }
        t->SetAudioCallback([this](std::array<s16, 2>) { ++audio; });
        for (int i = 0; i < 3; ++i) t->SetRecvDataHandler(i, [this, i]() { ++rd[i]; });
        t->SetSemaphoreHandler([this]() { ++sem; });
        Teakra::AHBMCallback cb;
        cb.read8 = [this](u32 a) -> u8 { u8 v = (u8)mix(a); ext(1, a, v); return v; };
        cb.write8 = [this](u32 a, u8 v) { ext(2, a, v); };
        cb.read16 = [this](u32 a) -> u16 { u16 v = (u16)mix(a); ext(3, a, v); return v; };
        cb.write16 = [this](u32 a, u16 v) { ext(4, a, v); };
        cb.read32 = [this](u32 a) -> u32 { u32 v = mix(a); ext(5, a, v); return v; };
        cb.write32 = [this](u32 a, u32 v) { ext(6, a, v); };
        t->SetAHBMCallback(cb);
    }
};

static std::string observe(Inst& in) {
    std::string o = "{";
    std::vector<int> r(NREG);
    vlayout::pack_regs(in.t->GetRegisterState(), r.data());
    o += "\"r\":" + vh::arr(r.begin(), r.end());
    auto& ip = in.interp();
    u32 va = TeakraVerifAccess::vinterrupt_address(ip);
    int lat[7] = {TeakraVerifAccess::interrupt_pending(ip)[0] ? 1 : 0, TeakraVerifAccess::interrupt_pending(ip)[1] ? 1 : 0,
                  TeakraVerifAccess::interrupt_pending(ip)[2] ? 1 : 0, TeakraVerifAccess::vinterrupt_pending(ip) ? 1 : 0,
                  (int)(va >> 16), (int)(va & 0xFFFF), TeakraVerifAccess::vinterrupt_context_switch(ip) ? 1 : 0};
    // the vectored address / context flag only mean something while the vectored latch is set
    if (!lat[3]) lat[4] = lat[5] = lat[6] = 0;
    o += ",\"lat\":" + vh::arr(lat, lat + 7);
    std::vector<int> tm;
    for (int i = 0; i < 2; ++i) {
        const Timer& t = in.impl().timer[i];
        for (int v : {(int)(t.counter >> 16), (int)(t.counter & 0xFFFF), (int)t.start_high, (int)t.start_low, (int)t.count_mode,
                      (int)t.pause, (int)t.update_mmio, (int)t.counter_high, (int)t.counter_low, (int)t.scale}) tm.push_back(v);
    }
    o += ",\"tm\":" + vh::arr(tm.begin(), tm.end());
    ICU& icu = in.impl().icu;
    std::vector<int> ic = {icu.GetRequest(), icu.GetEnable(0), icu.GetEnable(1), icu.GetEnable(2), icu.GetEnableVectored()};
    o += ",\"icu\":" + vh::arr(ic.begin(), ic.end());
    std::vector<int> vec;
    for (int i = 0; i < 16; ++i) { vec.push_back(icu.vector_low[i]); vec.push_back(icu.vector_high[i]); vec.push_back(icu.vector_context_switch[i]); }
    o += ",\"icuvec\":" + vh::arr(vec.begin(), vec.end());
    std::vector<int> ap;
    for (int i = 0; i < 3; ++i) { ap.push_back(in.t->SendDataIsEmpty(i)); ap.push_back(in.t->RecvDataIsReady(i)); ap.push_back(in.t->PeekRecvData(i)); }
    ap.push_back(in.t->GetSemaphore());
    ap.push_back(in.impl().apbp_from_cpu.GetSemaphore()); ap.push_back(in.impl().apbp_from_cpu.GetSemaphoreMask());
    ap.push_back(in.impl().apbp_from_dsp.GetSemaphoreMask());
    ap.push_back(in.impl().apbp_from_cpu.IsSemaphoreSignaled()); ap.push_back(in.impl().apbp_from_dsp.IsSemaphoreSignaled());
    for (int i = 0; i < 3; ++i) { ap.push_back(in.impl().apbp_from_cpu.PeekData(i)); }
    o += ",\"apbp\":" + vh::arr(ap.begin(), ap.end());
    std::vector<int> dis;
    for (int i = 0; i < 3; ++i) { dis.push_back(in.impl().apbp_from_cpu.GetDisableInterrupt(i)); dis.push_back(in.impl().apbp_from_dsp.GetDisableInterrupt(i)); }
    o += ",\"apbpdis\":" + vh::arr(dis.begin(), dis.end());
    // DMA channel windows (select each channel, read its registers, restore the selection)
    std::vector<int> dma;
    u16 act = in.t->MMIORead(0x1BE);
    dma.push_back(act); dma.push_back(in.t->MMIORead(0x184));
    for (int ch = 0; ch < 8; ++ch) {
        in.t->MMIOWrite(0x1BE, ch);
        for (u16 off = 0x1C0; off <= 0x1DE; off += 2) dma.push_back(in.t->MMIORead(off));
    }
    in.t->MMIOWrite(0x1BE, act);
    o += ",\"dma\":" + vh::arr(dma.begin(), dma.end());
    std::vector<int> mm;
    for (u16 off = 0; off < 0x800; off += 2) {
        bool skip = off == 0xC2 || off == 0xC6 || off == 0xCA || (off >= 0x1BE && off <= 0x1DE);
        mm.push_back(skip ? 0 : in.t->MMIORead(off));
    }
    o += ",\"mmio\":" + vh::arr(mm.begin(), mm.end());
    std::vector<int> bt;
    for (int i = 0; i < 2; ++i) {
        auto& b = in.impl().btdmp[i];
        for (int v : {(int)TeakraVerifAccess::transmit_timer(b), (int)TeakraVerifAccess::transmit_period(b), (int)TeakraVerifAccess::transmit_enable(b),
                      (int)TeakraVerifAccess::transmit_empty(b), (int)TeakraVerifAccess::transmit_full(b),
                      (int)TeakraVerifAccess::transmit_queue(b).size(), (int)TeakraVerifAccess::transmit_clock_config(b)}) bt.push_back(v);
    }
    o += ",\"btdmp\":" + vh::arr(bt.begin(), bt.end());
    std::vector<int> ah;
    {
        Ahbm& A = in.impl().ahbm;
        ah.push_back(A.GetBusyFlag());
        auto& chs = TeakraVerifAccess::channels(A);
        for (int i = 0; i < 3; ++i) {
            auto& c = chs[i];
            auto q = c.burst_queue;
            for (int v : {(int)c.unit_size, (int)c.burst_size, (int)c.direction, (int)c.dma_channel, (int)q.size(),
                          (int)(c.write_burst_start >> 16), (int)(c.write_burst_start & 0xFFFF)}) ah.push_back(v);
            for (int k = 0; k < 3; ++k) { u32 w = 0; if (!q.empty()) { w = q.front(); q.pop(); } ah.push_back((int)(w >> 16)); ah.push_back((int)(w & 0xFFFF)); }
        }
    }
    o += ",\"ahbm\":" + vh::arr(ah.begin(), ah.end());
    int ex[3] = {(int)in.ext_n, (int)(in.ext_h >> 16), (int)(in.ext_h & 0xFFFF)};
    o += ",\"ext\":" + vh::arr(ex, ex + 3);
    in.ext_n = 0; in.ext_h = 0;
    // an instance created without user memory works on memory it owns (not on whatever a stray pointer designates)
    {
        auto& sm = in.impl().shared_memory;
        int own = sm.own_memory && sm.raw == sm.own_memory->data() && in.t->GetDspMemory() == sm.raw ? 1 : 0;
        o += ",\"memown\":[" + std::to_string(own) + "]";
    }
    const u8* mem = in.t->GetDspMemory();
    long nz = 0;
    std::vector<int> first;
    for (u32 i = 0; i < 0x80000; ++i) if (mem[i]) { ++nz; if (first.size() < 6) first.push_back((int)i); }
    o += ",\"memnz\":" + std::to_string(nz) + ",\"memfirst\":" + vh::arr(first.begin(), first.end());
    return o + "}";
}

// a random API history touching every component
static void history(Inst& in, vh::Rng& rng, int ops) {
    static const u16 docs[] = {0x20, 0x22, 0x24, 0x26, 0x28, 0x2A, 0x2C, 0x30, 0x34, 0x36, 0xC0, 0xC4, 0xC8, 0xCC, 0xCE, 0xD0, 0xD4,
                               0xE2, 0xE4, 0xE6, 0xE8, 0xEA, 0xEC, 0x10E, 0x110, 0x114, 0x116, 0x184, 0x1BE, 0x1C0, 0x1C2, 0x1C4,
                               0x1C8, 0x1CA, 0x1CE, 0x1D0, 0x1DA, 0x1DC, 0x1DE, 0x202, 0x204, 0x206, 0x208, 0x20A, 0x20C, 0x212,
                               0x214, 0x24A, 0x24C, 0x2A2, 0x2BE, 0x2C6, 0x2CA, 0x322, 0x33E, 0x346, 0x100, 0x400, 0x7FE, 0x2C, 0x18C};
    // a small program: timers + interrupts + idle
    std::map<u32, u16> prog = {{0, 0x4180}, {1, 0x0100}, {6, 0x67D0 | 0x1000}, {7, 0x45C0}, {0x0E, 0x45C0}, {0x16, 0x45C0},
                               {0x100, 0x5E0D}, {0x101, 0x1100}, {0x102, 0x0037}, {0x103, 0xE780}, {0x104, 0x67D0}, {0x105, 0x5020 | 0x7C0}};
    for (auto& kv : prog) in.t->ProgramWrite(kv.first, kv.second);
    for (int i = 0; i < ops; ++i) {
        unsigned r = rng.below(100);
        try {
            if (r < 40) {
                u16 off = rng.chance(4, 5) ? docs[rng.below(sizeof(docs) / sizeof(docs[0]))] : (u16)(rng.below(0x400) * 2);
                u16 v = rng.edge16();
                if (off == 0x1DE && v == 0x40C0) v = 0x40C1;         // no wild DMA transfers
                if (off == 0x1BE) v &= 7;                             // documented range of the channel select
                if (off == 0x112) v = 0;                              // z page stays 0 (an MMIO access with z = 1 asserts)
                if (off == 0x11E) continue;                           // the window stays where guest accesses expect it
                if ((off & ~0x10) == 0x20) v &= ~0x0013;              // timer scale 0 and modes 0..3 (anything else asserts when ticking)
                in.t->MMIOWrite(off, v);
            } else if (r < 50) in.t->SendData(rng.below(3), rng.u16());
            else if (r < 55) { if (in.t->RecvDataIsReady(rng.below(3))) in.t->RecvData(rng.below(3)); }
            else if (r < 60) in.t->SetSemaphore(rng.edge16());
            else if (r < 63) in.t->ClearSemaphore(rng.edge16());
            else if (r < 66) in.t->MaskSemaphore(rng.edge16());
            else if (r < 72) in.t->DataWrite(rng.u16() & 0x7FFF, rng.u16());
            else if (r < 75) in.t->ProgramWrite(0x2000 + rng.below(0x100), rng.u16());
            else if (r < 80) in.t->MMIORead((u16)(rng.below(0x400) * 2));
            else if (r < 82) in.t->AHBMWrite16(rng.below(64) * 2 + rng.below(2), rng.u16());
            else if (r < 83) in.t->AHBMWrite32(rng.below(64) * 4 + rng.below(4), ((u32)rng.u16() << 16) | rng.u16());
            else if (r < 85) { if (rng.chance(1, 2)) in.t->AHBMRead16(rng.below(256)); else in.t->AHBMRead32(rng.below(256)); }
            else if (r < 87) in.t->MMIOWrite(0xE2, (u16)((rng.below(3) << 1) | (rng.below(3) << 4) | (rng.u16() & 0xFFC9)));   // AHBM channel 0: burst x1/x4/x8, unit 8/16/32
            else in.t->Run(1 + rng.below(60));
        } catch (const TeakraVerifAssert&) {
        } catch (const UnimplementedException&) {
        }
    }
}

int main(int argc, char** argv) {
    vh::Args a(argc, argv);
    vh::Out o;
    o.open(a.out.c_str());
    vh::install_fault_handlers(&o);
    vh::silence_stdout();
    vh::Rng rng(a.seed);
    if (const char* f = std::getenv("VERIF_NEW_FILL")) g_new_fill = (unsigned char)std::strtoul(f, nullptr, 0);
    // reference: the very first instance of a pristine process, constructed and reset
    {
        Inst ref; ref.make(); ref.reset();
        o.begin(); o.str("e", "Obs"); o.str("when", "reference"); o.raw("o", observe(ref)); o.end();
    }
    for (long k = 0; k < a.n; ++k) {
        vh::Rng hr(a.seed * 131 + k);                    // the history depends on (seed, k) only
        pollute_heap(rng);
        Inst in; in.make(k % 2 == 1);
        o.begin(); o.str("e", "New"); o.num("k", k); o.end();
        o.begin(); o.str("e", "Obs"); o.str("when", "fresh"); o.raw("o", observe(in)); o.end();
        if (rng.chance(1, 2)) { in.reset(); o.begin(); o.str("e", "Reset"); o.end();
            o.begin(); o.str("e", "Obs"); o.str("when", "fresh_reset"); o.raw("o", observe(in)); o.end(); }
        int ops = 20 + hr.below(200);
        history(in, hr, ops);
        o.begin(); o.str("e", "Hist"); o.num("ops", ops); o.end();
        o.begin(); o.str("e", "Obs"); o.str("when", "dirty"); o.raw("o", observe(in)); o.end();
        in.reset();
        o.begin(); o.str("e", "Reset"); o.end();
        o.begin(); o.str("e", "Obs"); o.str("when", "reset"); o.raw("o", observe(in)); o.end();
        // the same history again after the Reset must give the same observation as on a fresh reset instance
        vh::Rng hr2(a.seed * 131 + k);
        hr2.below(200);
        history(in, hr2, ops);
        o.begin(); o.str("e", "Obs"); o.str("when", "replayed_after_reset"); o.raw("o", observe(in)); o.end();
        Inst f2; f2.make(k % 2 == 1); f2.reset();
        vh::Rng hr3(a.seed * 131 + k);
        hr3.below(200);
        history(f2, hr3, ops);
        o.begin(); o.str("e", "Obs"); o.str("when", "replayed_on_fresh"); o.raw("o", observe(f2)); o.end();
    }
    o.close();
    return 0;
}
