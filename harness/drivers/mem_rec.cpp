// C11 conformance recorder: random histories over every view of the DSP memory of real Teakra::Teakra
// instances -- user-supplied memory (UserConfig.dsp_memory = a buffer this driver owns; raw view = that
// buffer) and internally owned memory (raw view = GetDspMemory()).  One ndjson line per call with the
// arguments, the value returned / written, the raw SharedMemory accesses seen by the TEAKRA_VERIF
// observer during the call ([byte address, is_write, value written], in order), the outcome and the
// MemoryInterfaceUnit registers after the call (read straight from the object).  "Scan" lines list every
// non-zero byte of the whole raw memory.  Validated by spec/MemoryTrace.tla.
//
// Guest accesses are single instructions executed with Teakra::Run(1).  Encodings are written by hand
// from src/decoder.h (`mem_rec --mode disasm` prints what the repository's disassembler makes of them):
//   ldr 0x1C20 mov [r0], r1      str 0x1820 mov r1, [r0]
//   lda 0xD4B8 imm16 mov [imm16], a0      sta 0xD4BC imm16 mov a0l, [imm16]
//   ld8 0x6400|imm8 mov [page:imm8], r1   st8 0x2200|imm8 mov r1, [page:imm8]
//   mpr 0x0041 movp a0l, r1   mpm 0x0601 movp [r1], [r0]   mdm 0x5F80 movd [r0], [r4]
//
// MMIO offsets touched: the MIU registers 0x10E/0x110/0x112/0x114/0x11A/0x11E and offsets which mmio.cpp
// leaves as default cells (0x000..0x019 and 0x400..0x7FF), which behave as plain storage.  The driver
// never issues a non-bypass access that would land on any other offset (those belong to C12).
#include "vh.h"
#include "teakra.cpp" // Teakra::Impl must be complete here: MIU registers are observed directly
#include "teakra/disassembler.h"
#include "interpreter.h"

struct TeakraVerifAccess {
    static Teakra::MemoryInterfaceUnit& miu(Teakra::Teakra& t) { return t.impl->miu; }
};

using namespace Teakra;

namespace {

struct Obs : VerifMemObserver {
    std::vector<std::array<long long, 3>> acc;
    bool OnAccess(u32 byte_address, bool is_write, u16 value) override {
        long long b = byte_address > 0x7FFFFFFEu ? 0x7FFFFFFELL : (long long)byte_address;
        acc.push_back({b, is_write ? 1 : 0, is_write ? value : 0});
        return byte_address < DspMemorySize - 1; // an out-of-range access is reported, not performed
    }
};
Obs g_obs;

constexpr u16 OFF_XPAGE = 0x10E, OFF_YPAGE = 0x110, OFF_ZPAGE = 0x112, OFF_PAGE0 = 0x114,
              OFF_MISC = 0x11A, OFF_BASE = 0x11E;
const u16 MIU_OFFS[] = {OFF_XPAGE, OFF_YPAGE, OFF_ZPAGE, OFF_PAGE0, OFF_MISC, OFF_BASE};

bool plain_off(u16 o) { return o < 0x1A || o >= 0x400; }
bool miu_off(u16 o) { for (u16 m : MIU_OFFS) if (m == o) return true; return false; }

struct Sess {
    vh::Out& o;
    vh::Rng& rng;
    bool own;
    std::vector<u8> buf;
    std::unique_ptr<Teakra::Teakra> t;
    std::vector<u16> pool; // a few random data addresses of this session (keeps the sparse map small)
    long& emitted;

    Sess(vh::Out& o, vh::Rng& rng, long& emitted) : o(o), rng(rng), emitted(emitted) {}

    MemoryInterfaceUnit& miu() { return TeakraVerifAccess::miu(*t); }
    u8* held = nullptr; // the raw pointer as a host takes it once, right after construction, and keeps it
    u8* raw(int via) {
        if (!own && via == 0) return buf.data();
        if (own && via == 0 && held) return held;
        if (via == 2) return const_cast<u8*>(static_cast<const Teakra::Teakra&>(*t).GetDspMemory());
        return t->GetDspMemory();
    }

    // ---------------------------------------------------------------- line output
    void tail(long long v, const char* out) {
        o.num("v", v);
        std::string s = "[";
        for (size_t i = 0; i < g_obs.acc.size(); ++i) {
            if (i) s += ',';
            s += "[" + std::to_string(g_obs.acc[i][0]) + "," + std::to_string(g_obs.acc[i][1]) + "," +
                 std::to_string(g_obs.acc[i][2]) + "]";
        }
        o.raw("acc", s + "]");
        o.str("out", out);
        auto& m = miu();
        long long r[7] = {m.page_mode, m.x_page, m.y_page, m.z_page, m.x_size[0], m.y_size[0], m.mmio_base};
        o.raw("m", vh::arr(r, r + 7));
        o.end();
        ++emitted;
    }
    template <class F> void call(F f, long long& v, const char*& out) {
        g_obs.acc.clear();
        out = "ok";
        verif_mem_observer = &g_obs;
        try {
            f();
        } catch (const TeakraVerifAssert&) {
            out = "assert";
            v = 0;
        } catch (const UnimplementedException&) {
            out = "unimplemented";
            v = 0;
        }
        verif_mem_observer = nullptr;
    }

    // ---------------------------------------------------------------- events
    void start() {
        own = rng.chance(1, 2);
        pool.clear();
        for (int i = 0; i < 6; ++i) pool.push_back(rng.u16());
        std::string init = "[";
        if (!own) {
            buf.assign(DspMemorySize, 0);
            int k = rng.chance(1, 4) ? 0 : rng.below(24);
            std::vector<u32> used;
            for (int i = 0; i < k; ++i) {
                u32 b = raw_addr();
                bool dup = false;
                for (u32 u : used) dup |= (u == b);
                if (dup) continue;
                used.push_back(b);
                u8 val = (u8)(1 + rng.below(255));
                buf[b] = val;
                if (init.size() > 1) init += ',';
                init += "[" + std::to_string(b) + "," + std::to_string(val) + "]";
            }
        }
        init += "]";
        UserConfig cfg;
        cfg.dsp_memory = own ? nullptr : buf.data();
        t = std::make_unique<Teakra::Teakra>(cfg);
        held = t->GetDspMemory();
        g_obs.acc.clear();
        const u8* c = static_cast<const Teakra::Teakra&>(*t).GetDspMemory();
        int same = own ? (t->GetDspMemory() != nullptr && t->GetDspMemory() == c)
                       : (t->GetDspMemory() == buf.data() && c == buf.data());
        o.begin(); o.str("e", "New"); o.num("own", own); o.raw("init", init); o.num("same", same);
        tail(0, "ok");
    }
    void scan() {
        const u8* p = raw(rng.below(3));
        std::string s = "[";
        for (u32 i = 0; i < DspMemorySize; i += 8) {
            u64 w;
            std::memcpy(&w, p + i, 8);
            if (!w) continue;
            for (u32 j = i; j < i + 8; ++j)
                if (p[j]) {
                    if (s.size() > 1) s += ',';
                    s += "[" + std::to_string(j) + "," + std::to_string(p[j]) + "]";
                }
        }
        g_obs.acc.clear();
        o.begin(); o.str("e", "Scan"); o.raw("nz", s + "]");
        tail(0, "ok");
    }
    void reset() {
        long long v = 0; const char* out;
        call([&] { t->Reset(); }, v, out);
        // the raw view is the same storage before and after Reset (a pointer taken earlier stays THE raw memory pointer)
        o.begin(); o.str("e", "Reset"); o.num("same", t->GetDspMemory() == held ? 1 : 0); tail(0, out);
    }
    void pr(u32 a) {
        long long v = 0; const char* out;
        call([&] { v = static_cast<const Teakra::Teakra&>(*t).ProgramRead(a); }, v, out);
        o.begin(); o.str("e", "PR"); o.num("a", a); tail(v, out);
    }
    void pw(u32 a, u16 x) {
        long long v = x; const char* out;
        call([&] { t->ProgramWrite(a, x); }, v, out);
        o.begin(); o.str("e", "PW"); o.num("a", a); tail(v, out);
    }
    void dr(u16 a, bool bp, bool dflt) {
        long long v = 0; const char* out;
        call([&] { v = dflt ? t->DataRead(a) : t->DataRead(a, bp); }, v, out);
        o.begin(); o.str("e", "DR"); o.num("a", a); o.num("bp", bp); tail(v, out);
    }
    void dw(u16 a, u16 x, bool bp, bool dflt) {
        long long v = x; const char* out;
        call([&] { if (dflt) t->DataWrite(a, x); else t->DataWrite(a, x, bp); }, v, out);
        o.begin(); o.str("e", "DW"); o.num("a", a); o.num("bp", bp); tail(v, out);
    }
    void ar(u32 a) {
        long long v = 0; const char* out;
        call([&] { v = static_cast<const Teakra::Teakra&>(*t).DataReadA32(a); }, v, out);
        o.begin(); o.str("e", "AR"); o.raw("a", vh::pair16(a)); tail(v, out);
    }
    void aw(u32 a, u16 x) {
        long long v = x; const char* out;
        call([&] { t->DataWriteA32(a, x); }, v, out);
        o.begin(); o.str("e", "AW"); o.raw("a", vh::pair16(a)); tail(v, out);
    }
    void mr(u16 a) {
        long long v = 0; const char* out;
        call([&] { v = t->MMIORead(a); }, v, out);
        o.begin(); o.str("e", "MR"); o.num("a", a); tail(v, out);
    }
    void mw(u16 a, u16 x) {
        long long v = x; const char* out;
        call([&] { t->MMIOWrite(a, x); }, v, out);
        o.begin(); o.str("e", "MW"); o.num("a", a); tail(v, out);
    }
    void rr(u32 b) {
        int via = rng.below(3);
        g_obs.acc.clear();
        long long v = raw(via)[b];
        o.begin(); o.str("e", "RR"); o.num("a", b); o.num("via", via); tail(v, "ok");
    }
    void rw(u32 b, u8 x) {
        int via = rng.below(2);
        g_obs.acc.clear();
        raw(via)[b] = x;
        o.begin(); o.str("e", "RW"); o.num("a", b); o.num("via", via); tail(x, "ok");
    }

    // ---------------------------------------------------------------- input classes
    u16 value() {
        if (rng.chance(1, 12)) return 0;
        u16 v = rng.chance(1, 2) ? rng.edge16() : rng.u16();
        return v;
    }
    // 16-bit data address, clustered at the window, bank and X/Y boundaries
    u16 data_addr() {
        static const u16 e[] = {0, 1, 2, 0x3FF, 0x400, 0x401, 0x7FFE, 0x7FFF, 0x8000, 0x8001, 0x87FE,
                                0x87FF, 0x8800, 0x8801, 0xF7FF, 0xF800, 0xFFFE, 0xFFFF};
        static const int woff[] = {-2, -1, 0, 1, 2, 0x19, 0x400, 0x401, 0x7FE, 0x7FF, 0x800, 0x801};
        u16 base = t ? miu().mmio_base : 0x8000; // (no object yet while the user buffer is pre-filled)
        u16 xsz = t ? miu().x_size[0] : 0x20;
        unsigned c = rng.below(100);
        if (c < 25) return e[rng.below(sizeof(e) / sizeof(e[0]))];
        if (c < 50) return (u16)(base + woff[rng.below(sizeof(woff) / sizeof(woff[0]))]);
        if (c < 60) return (u16)(base + (rng.chance(1, 2) ? 0x400 + rng.below(8) : rng.below(8)));
        if (c < 72) return (u16)(base + MIU_OFFS[rng.below(6)]);
        if (c < 84) return (u16)(xsz * 0x400 + (int)rng.below(3) - 1);
        return (u16)(pool[rng.below((u32)pool.size())] + rng.below(2));
    }
    bool in_window(u16 a) {
        u32 base = miu().mmio_base;
        return a >= base && a < base + 0x800;
    }
    // a non-bypass access may only land on a modelled MMIO offset
    bool safe(u16 a) {
        // the neighbours of the window edges stay usable whatever an off-by-one would do with them:
        // offsets 0 / 0x7FF are plain cells, so only the inside of the window needs a look
        if (!in_window(a)) return true;
        u16 off = (u16)((a - miu().mmio_base) & 0x7FF);
        return plain_off(off) || miu_off(off);
    }
    u16 safe_data_addr() {
        for (;;) {
            u16 a = data_addr();
            if (safe(a)) return a;
        }
    }
    u32 prog_addr() {
        static const u32 e[] = {0, 1, 2, 0xFFFF, 0x10000, 0x1FFFE, 0x1FFFF, 0x20000, 0x20001, 0x27FFF,
                                0x28000, 0x2FFFF, 0x30000, 0x30001, 0x37FFF, 0x38000, 0x3FFFE, 0x3FFFF};
        unsigned c = rng.below(100);
        if (c < 35) return e[rng.below(sizeof(e) / sizeof(e[0]))];
        if (c < 80) return 0x20000 + 0x10000 * rng.below(2) + data_addr();
        return (pool[rng.below((u32)pool.size())] + rng.below(2)) & 0x1FFFF;
    }
    u32 a32_addr() {
        static const u32 hi[] = {0, 0, 0, 2, 4, 6, 0x7FFE, 0x8000, 0xFFFE};
        u32 a = (rng.below(2) << 16) | data_addr();
        u32 h = rng.chance(1, 8) ? (rng.u16() & 0xFFFE) : hi[rng.below(sizeof(hi) / sizeof(hi[0]))];
        return a + (h << 16);
    }
    u32 raw_addr() { return prog_addr() * 2 + rng.below(2); }

    // MIU register values, class-wise
    u16 reg_value(u16 off) {
        switch (off) {
        case OFF_BASE: {
            static const u16 e[] = {0, 1, 0x7FF, 0x800, 0x7FFF, 0x8000, 0x8001, 0xF7FF, 0xF800, 0xF801,
                                    0xFC00, 0xFFFE, 0xFFFF};
            if (rng.chance(1, 4)) return 0x8000;
            if (rng.chance(1, 3)) return e[rng.below(sizeof(e) / sizeof(e[0]))];
            static const u16 low[] = {0, 1, 2, 0x1FF, 0x200, 0x3FE, 0x3FF};
            u16 lo = rng.chance(1, 3) ? (u16)rng.below(0x400) : low[rng.below(7)];
            return (u16)((rng.below(64) << 10) | lo); // high 6 bits x unaligned low bits
        }
        case OFF_ZPAGE: {
            unsigned c = rng.below(100);
            return c < 55 ? 0 : c < 92 ? 1 : c < 96 ? 2 : c < 98 ? 0xFFFF : rng.u16();
        }
        case OFF_XPAGE:
        case OFF_YPAGE: {
            unsigned c = rng.below(100);
            return c < 45 ? 0 : c < 90 ? 1 : c < 96 ? 2 : rng.u16();
        }
        case OFF_PAGE0: {
            static const u16 xs[] = {0, 1, 0x1F, 0x20, 0x21, 0x3E, 0x3F};
            u16 x = rng.chance(1, 3) ? (u16)rng.below(64) : xs[rng.below(7)];
            u16 y = (u16)rng.below(64);
            u16 junk = rng.chance(1, 2) ? 0 : (u16)(rng.u16() & 0xC0C0);
            return (u16)(x | (y << 8) | junk);
        }
        default: { // OFF_MISC: PAGEMODE is bit 6
            u16 junk = rng.chance(1, 2) ? 0 : (u16)(rng.u16() & ~0x40);
            return (u16)((rng.chance(1, 2) ? 0x40 : 0) | junk);
        }
        }
    }

    // ---------------------------------------------------------------- guest
    enum Form { LDR, STR, LDA, STA, LD8, ST8, MPR, MPM, MDM, NFORM };
    void place(u32 p, u16 w) { // put one instruction word where the fetch will find it, through any view
        unsigned c = rng.below(10);
        if (c < 6) pw(p, w);
        else if (c < 8) { rw(2 * p, (u8)(w & 0xFF)); rw(2 * p + 1, (u8)(w >> 8)); }
        else if (p >= 0x20000) aw((p - 0x20000) + ((rng.below(4) * 2) << 16), w);
        else pw(p, w);
    }
    void guest() {
        static const char* names[] = {"ldr", "str", "lda", "sta", "ld8", "st8", "mpr", "mpm", "mdm"};
        Form f = (Form)rng.below(NFORM);
        bool two = f == LDA || f == STA;
        u32 pc;
        do pc = prog_addr(); while (two && pc == 0x3FFFF);
        u16 a = safe_data_addr();          // the data operand address
        u32 pa = prog_addr();              // the program operand address (movp/movd)
        u16 val = value(), poison = rng.u16();
        u16 imm = 0, op = 0;
        RegisterState rs; // fresh registers: prpage 0, no loops, no bit-reverse/modulo, interrupts off
        rs.pc = pc;
        switch (f) {
        case LDR: op = 0x1C20; rs.r[0] = a; rs.r[1] = poison; break;
        case STR: op = 0x1820; rs.r[0] = a; rs.r[1] = val; break;
        case LDA: op = 0xD4B8; imm = a; rs.a[0] = poison; break;
        case STA: op = 0xD4BC; imm = a; rs.a[0] = val; break;
        case LD8: imm = a & 0xFF; op = 0x6400 | imm; rs.page = a >> 8; rs.r[1] = poison; break;
        case ST8: imm = a & 0xFF; op = 0x2200 | imm; rs.page = a >> 8; rs.r[1] = val; break;
        case MPR: op = 0x0041; rs.a[0] = pa & 0xFFFF; rs.pcmhi = pa >> 16; rs.r[1] = poison; break;
        case MPM: op = 0x0601; rs.r[1] = pa & 0xFFFF; rs.pcmhi = pa >> 16; rs.r[0] = a; break;
        case MDM: op = 0x5F80; rs.r[0] = a; rs.r[4] = pa & 0xFFFF; rs.pcmhi = pa >> 16; break;
        default: break;
        }
        place(pc, op);
        if (two) place(pc + 1, imm);
        RegisterState& regs = t->GetRegisterState();
        regs = rs;
        long long v = 0; const char* out;
        long long r0 = rs.r[0], r1 = rs.r[1], r4 = rs.r[4], al = rs.a[0] & 0xFFFF, pg = rs.page, hi = rs.pcmhi;
        call([&] { t->Run(1); }, v, out);
        if (std::strcmp(out, "ok") == 0) {
            switch (f) {
            case LDR: case LD8: case MPR: v = regs.r[1]; break;
            case LDA: v = regs.a[0] & 0xFFFF; break;
            case STR: case ST8: v = r1; break;
            case STA: v = al; break;
            default: v = 0; break;
            }
        }
        o.begin(); o.str("e", "G"); o.str("f", names[f]); o.num("pc", pc);
        o.num("r0", r0); o.num("r1", r1); o.num("r4", r4); o.num("al", al); o.num("pg", pg); o.num("hi", hi);
        o.num("imm", imm);
        tail(v, out);
    }

    // ---------------------------------------------------------------- one random step
    void set_reg() {
        unsigned k = rng.below(100);
        u16 off = k < 30 ? OFF_BASE : k < 55 ? OFF_ZPAGE : k < 70 ? OFF_MISC : k < 80 ? OFF_PAGE0
                  : k < 90 ? OFF_XPAGE : OFF_YPAGE;
        u16 v = reg_value(off);
        unsigned c = rng.below(10);
        u16 base = miu().mmio_base;
        if (c < 6 || (u32)base + off > 0xFFFF) mw((u16)(off | (rng.chance(1, 2) ? 0 : (rng.u16() & 0xF800))), v);
        else dw((u16)(base + off), v, false, rng.chance(1, 2));
    }
    void heal() { // do not stay for long where every access asserts
        auto& m = miu();
        if (m.z_page >= 2 && rng.chance(1, 2)) mw(OFF_ZPAGE, (u16)rng.below(2));
        else if (m.z_page == 1 && rng.chance(1, 25)) mw(OFF_ZPAGE, 0);
        if (m.x_page >= 2 && rng.chance(1, 3)) mw(OFF_XPAGE, (u16)rng.below(2));
        if (m.y_page >= 2 && rng.chance(1, 3)) mw(OFF_YPAGE, (u16)rng.below(2));
    }
    void step() {
        heal();
        unsigned r = rng.below(200);
        bool bp = rng.chance(1, 3);
        if (r < 14) pr(prog_addr());
        else if (r < 28) pw(prog_addr(), value());
        else if (r < 48) { u16 a = bp ? data_addr() : safe_data_addr(); dr(a, bp, !bp && rng.chance(1, 2)); }
        else if (r < 68) { u16 a = bp ? data_addr() : safe_data_addr(); dw(a, value(), bp, !bp && rng.chance(1, 2)); }
        else if (r < 80) ar(a32_addr());
        else if (r < 92) aw(a32_addr(), value());
        else if (r < 104) rr(raw_addr());
        else if (r < 114) rw(raw_addr(), rng.chance(1, 8) ? 0 : (u8)rng.u16());
        else if (r < 122) { // host MMIO on plain cells and MIU registers, any 0x800 mirror
            u16 off = rng.chance(1, 2) ? MIU_OFFS[rng.below(6)]
                                       : (rng.chance(1, 2) ? (u16)(0x400 + rng.below(8)) : (u16)rng.below(8));
            if (rng.chance(1, 8)) off = rng.chance(1, 2) ? 0x7FF : 0x19;
            mr((u16)(off | (rng.chance(1, 2) ? 0 : (rng.u16() & 0xF800))));
        }
        else if (r < 128) {
            u16 off = rng.chance(1, 2) ? (u16)(0x400 + rng.below(8)) : (u16)rng.below(8);
            if (rng.chance(1, 8)) off = rng.chance(1, 2) ? 0x7FF : 0x19;
            mw((u16)(off | (rng.chance(1, 2) ? 0 : (rng.u16() & 0xF800))), value());
        }
        else if (r < 148) set_reg();
        else if (r < 150) reset();
        else if (r < 153) scan();
        else guest();
    }
};

int disasm() {
    struct { const char* n; u16 op; bool two; } forms[] = {
        {"ldr", 0x1C20, false}, {"str", 0x1820, false}, {"lda", 0xD4B8, true}, {"sta", 0xD4BC, true},
        {"ld8", 0x6400 | 0x34, false}, {"st8", 0x2200 | 0x34, false}, {"mpr", 0x0041, false},
        {"mpm", 0x0601, false}, {"mdm", 0x5F80, false}};
    for (auto& f : forms)
        std::fprintf(stderr, "%s %04X%s  %s\n", f.n, f.op, f.two ? " 1234" : "",
                     Disassembler::Do(f.op, 0x1234).c_str());
    return 0;
}

} // namespace

int main(int argc, char** argv) {
    vh::Args a(argc, argv);
    if (a.mode == "disasm") return disasm();
    vh::Out o;
    o.open(a.out.c_str());
    vh::install_fault_handlers(&o);
    vh::silence_stdout();
    // vh::Rng(seed) and vh::Rng(seed + 1) are the same splitmix64 stream one draw apart; the runner hands
    // out consecutive seeds, so scramble the seed first to get unrelated streams per file
    uint64_t z = a.seed + 0x51ED270B0F1D3A5Bull;
    z = (z ^ (z >> 33)) * 0xFF51AFD7ED558CCDull;
    z = (z ^ (z >> 33)) * 0xC4CEB9FE1A85EC53ull;
    vh::Rng rng(z ^ (z >> 33));
    long emitted = 0;
    while (emitted < a.n) {
        Sess s(o, rng, emitted);
        s.start();
        s.scan();
        int len = 40 + rng.below(160);
        for (int i = 0; i < len && emitted < a.n; ++i) s.step();
        s.scan();
    }
    o.close();
    return 0;
}
