// System-level conformance recorder (C06, C07, C08, C09, C17): a real Teakra::Teakra instance runs random
// guest programs built from templates (interrupt handlers, timer / ICU programming through the MMIO
// window, counting and idle loops, calls, hardware loops, context switches) through Teakra::Run in
// random slices.  After every slice one "Run" line records the complete observable state:
//   r     the complete register state (int[NREG])
//   lat   interrupt latches [p0,p1,p2,pv, vaddr_hi, vaddr_lo, vctx], idle flag
//   tm    both timers, icu  the interrupt controller (request, enables, vectors)
//   bt    both audio ports (queue, phase, period, enable, flags), ap  both mailbox blocks (ready/data/disable per
//         channel, semaphore, mask, signal flag), ev  every host callback of the slice in order
//         ([0,l,r] audio frame, [1,c,0] receive-data handler of channel c, [2,0,0] semaphore handler)
//   wr    every memory cell written during the slice with its final value
//   out   ok | unimpl | assert | oob
// Between slices the host side acts through the public API (SendData, RecvData, SetSemaphore, ...): one
// "Host" line each with arguments, result, callbacks and the complete observation afterwards.
// The same program is then run again on a fresh instance with a different slicing (and in one piece):
// the specification has no fast-forward at all, so accepting all of them is C06.
#include <map>
#include "vh.h"
#include "reglayout.h"
#include "interpreter.h"
#include "processor.cpp"
#include "apbp.cpp"
#include "teakra.cpp"

using namespace Teakra;
using vlayout::NREG;

struct WriteLog : VerifMemObserver {
    std::map<u32, u16> written;
    bool oob = false;
    bool OnAccess(u32 byte_address, bool is_write, u16 value) override {
        if (byte_address + 1 >= 0x80000) { oob = true; return false; }
        if (is_write) written[byte_address >> 1] = value;
        return true;
    }
};

struct Prog {
    std::map<u32, u16> words;
    u32 at = 0;
    u16 mbase = 0x8000;                       // where the program believes the MMIO window is
    void org(u32 a) { at = a; }
    void w(u16 v) { words[at++] = v; }
    void mov_imm_reg(u16 imm, unsigned reg) { w(0x5E00 | reg); w(imm); }
    void store_reg_at_rn(unsigned reg, unsigned rn) { w(0x1800 | (reg << 5) | rn); }   // mov reg, [rn]
    void load_rn_reg(unsigned rn, unsigned reg) { w(0x1C00 | rn | (reg << 5)); }       // mov [rn], reg
    void mmio_write(u16 off, u16 val) { mov_imm_reg(mbase + off, 0); mov_imm_reg(val, 1); store_reg_at_rn(1, 0); }
    void mmio_read_to_r(u16 off, unsigned reg) { mov_imm_reg(mbase + off, 0); load_rn_reg(0, reg); }
    void data_store(u16 addr, u16 val) { mov_imm_reg(addr, 2); mov_imm_reg(val, 1); store_reg_at_rn(1, 2); }
    void data_load(u16 addr, unsigned reg) { mov_imm_reg(addr, 2); load_rn_reg(2, reg); }
    void mov_imm_sttmod(u16 imm, unsigned idx) { w(0x0030 | idx); w(imm); }
    void br(u32 addr, unsigned cond = 0) { w(0x4180 | ((addr >> 16) << 4) | cond); w(addr & 0xFFFF); }
    void call(u32 addr, unsigned cond = 0) { w(0x41C0 | ((addr >> 16) << 4) | cond); w(addr & 0xFFFF); }
    void brr(int rel, unsigned cond = 0) { w(0x5000 | ((rel & 0x7F) << 4) | cond); }
    void ret() { w(0x4580); }
    void reti() { w(0x45C0); }
    void retic() { w(0x45D0); }
    void eint() { w(0x4380); }
    void dint() { w(0x43C0); }
    void nop() { w(0); }
    void inc(unsigned ax) { w(0x67D0 | (ax << 12)); }
    void dec(unsigned ax) { w(0x67E0 | (ax << 12)); }
    void add_imm(u16 imm, unsigned ax) { w(0x86C0 | (ax << 8)); w(imm); }
    void rep(u8 n) { w(0x0C00 | n); }
    void bkrep(u8 n, u16 end) { w(0x5C00 | n); w(end); }
    void push_reg(unsigned reg) { w(0x5E40 | reg); }
    void pop_reg(unsigned reg) { w(0x5E60 | reg); }
    void cntx_s() { w(0xD380); }
    void cntx_r() { w(0xD390); }
    void modr_inc(unsigned rn) { w(0x0080 | rn | (1 << 3)); }
};

// a random program exercising interrupts, timers, the ICU, idle loops, calls and hardware loops
static Prog make_program(vh::Rng& rng, std::string& descr, bool io, int force_kind = -1) {
    Prog p;
    const u32 MAIN = 0x0100, SUB = 0x0300, VEC = 0x0400;
    p.org(0); p.br(MAIN);
    bool use_ctx[3];
    for (int i = 0; i < 3; ++i) {
        use_ctx[i] = rng.chance(1, 4);
        p.org(0x0006 + 8 * i);
        p.inc(1);                                  // count handler entries in a1
        if (rng.chance(1, 2)) { p.mmio_read_to_r(0x28 + 0x10 * rng.below(2), 4); }   // look at a timer counter mirror
        if (rng.chance(1, 2)) p.mmio_write(0x202, 1u << (rng.chance(1, 2) ? 10 : 9));  // acknowledge
        use_ctx[i] ? p.retic() : p.reti();
        // handlers longer than 8 words run into the next vector: keep them short
    }
    // fix: handlers above may exceed 8 words; rebuild compactly
    p.words.clear();
    // the MMIO window is moved by the first thing main does (MIU_MMIOBASE); everything else addresses the new place
    static const u16 bases[] = {0x4000, 0xF800, 0x0800, 0xE000, 0xF000, 0xFC00};
    u16 newbase = (io && rng.chance(1, 3)) ? bases[rng.below(6)] : 0x8000;
    p.mbase = newbase;
    p.org(0); p.br(MAIN);
    for (int i = 0; i < 3; ++i) {
        p.org(0x0006 + 8 * i);
        p.br(0x0200 + 0x20 * i);
        p.org(0x0200 + 0x20 * i);
        p.inc(1);
        if (rng.chance(1, 2)) p.mmio_read_to_r(0x28 + 0x10 * rng.below(2), 4);
        if (rng.chance(1, 2)) p.mmio_write(0x202, 1u << (rng.chance(1, 2) ? 10 : 9));
        if (rng.chance(1, 4)) { p.push_reg(4); p.pop_reg(4); }
        if (io) {   // mailbox / audio traffic from the handler: command -> reply echo, semaphore, a sample
            if (rng.chance(1, 2)) {
                unsigned c = rng.below(3);
                p.mmio_read_to_r(0xC2 + 4 * c, 4);
                if (rng.chance(2, 3)) { p.mov_imm_reg(p.mbase + 0xC0 + 4 * rng.below(3), 0); p.store_reg_at_rn(4, 0); }
            }
            if (rng.chance(1, 3)) p.mmio_write(0xCC, 1u << rng.below(16));
            if (rng.chance(1, 3)) p.mmio_write(0x2C6 + (rng.chance(1, 6) ? 0x80 : 0), rng.u16());
            if (rng.chance(1, 3)) p.mmio_write(0x202, (1u << 14) | (1u << 11));
        }
        use_ctx[i] ? p.retic() : p.reti();
    }
    bool vctx = rng.chance(1, 3);
    p.org(VEC);
    p.add_imm(0x100, 1);
    if (rng.chance(1, 2)) p.mmio_write(0x202, 0xFFFF);
    vctx ? p.retic() : p.reti();
    p.org(SUB);
    p.inc(0); p.modr_inc(2);
    if (rng.chance(1, 3)) { p.cntx_s(); p.inc(0); p.cntx_r(); }
    p.ret();

    p.org(MAIN);
    p.mov_imm_reg(0x1000 + rng.below(0x100), 13);             // sp
    if (newbase != 0x8000) { p.mbase = 0x8000; p.mmio_write(0x11E, newbase); p.mbase = newbase; }
    // ICU routing: which irq goes to which line
    u16 en[3] = {0, 0, 0}, ven = 0;
    for (unsigned irq : {10u, 9u, 14u, 3u, 11u}) {
        unsigned c = rng.below(6);
        if (c < 3) en[c] |= 1u << irq;
        else if (c == 3) ven |= 1u << irq;
        else if (c == 4) { en[rng.below(3)] |= 1u << irq; ven |= 1u << irq; }
    }
    for (int i = 0; i < 3; ++i) p.mmio_write(0x206 + 2 * i, en[i]);
    p.mmio_write(0x20C, ven);
    for (unsigned irq : {10u, 9u, 14u, 3u, 11u}) {
        p.mmio_write(0x212 + 4 * irq, (VEC >> 16) | (vctx ? 0x8000 : 0));
        p.mmio_write(0x214 + 4 * irq, VEC & 0xFFFF);
    }
    // timers
    static const u32 starts[] = {0, 1, 2, 3, 5, 7, 12, 20, 33, 64, 200, 0x10000, 0x10003};
    for (int i = 0; i < 2; ++i) {
        if (rng.chance(1, 4)) continue;
        u32 st = starts[rng.below(sizeof(starts) / sizeof(starts[0]))];
        p.mmio_write(0x24 + 0x10 * i, st & 0xFFFF);
        p.mmio_write(0x26 + 0x10 * i, st >> 16);
        unsigned mode = rng.below(4);
        u16 cfg = (mode << 2) | (rng.chance(1, 8) ? 0x100 : 0) | (rng.chance(2, 3) ? 0x200 : 0) | (rng.chance(4, 5) ? 0x400 : 0);
        p.mmio_write(0x20 + 0x10 * i, cfg);
        if (mode == 3 && rng.chance(1, 2)) p.mmio_write(0x22 + 0x10 * i, 1);
    }
    if (io) {   // audio ports and mailbox configuration
        for (int i = 0; i < 2; ++i) {
            if (rng.chance(1, i ? 4 : 1)) p.mmio_write(0x2BE + 0x80 * i, rng.chance(1, 4) ? 0x8000 : 1);
            for (unsigned k = 0, n = rng.below(i ? 3 : 20); k < n; ++k) p.mmio_write(0x2C6 + 0x80 * i, rng.u16());
            if (rng.chance(1, 4)) p.mmio_write(0x2A2 + 0x80 * i, rng.u16());
            if (rng.chance(1, 4)) p.mmio_write(0x2C2 + 0x80 * i, rng.u16());
        }
        if (rng.chance(1, 2)) p.mmio_write(0xD4, (rng.chance(1, 3) ? 0x100 : 0) | (rng.chance(1, 3) ? 0x1000 : 0) | (rng.chance(1, 3) ? 0x2000 : 0) | (rng.u16() & 4));
        if (rng.chance(1, 3)) p.mmio_write(0xCE, rng.chance(1, 2) ? rng.u16() : (1u << rng.below(16)));
        if (rng.chance(1, 3)) p.mmio_write(0xC0 + 4 * rng.below(3), rng.u16());
        if (rng.chance(1, 4)) p.mmio_write(0xD6 + 2 * rng.below(2), rng.u16());
    }
    // interrupt masks: mod3 = crep|cpc|ccnta defaults, im bits, ic bits, ie
    u16 mod3 = 0xE000 | (rng.below(16) << 8) | (rng.chance(4, 5) ? 0x80 : 0);
    for (int i = 0; i < 3; ++i) if (use_ctx[i]) mod3 |= 1u << (1 + i);
    p.mov_imm_sttmod(mod3, 7);
    if (rng.chance(1, 3)) p.mmio_write(0x204, 1u << 3);         // software trigger
    // body
    unsigned kind = force_kind >= 0 ? (unsigned)force_kind : io ? 6 + rng.below(4) : rng.below(6);
    descr = "kind" + std::to_string(kind);
    switch (kind) {
    case 0: // pure idle
        p.brr(-1);
        break;
    case 1: // counting loop
        p.inc(0); p.brr(-2);
        break;
    case 2: // nops then idle
        for (unsigned i = 0, n = rng.below(6); i < n; ++i) p.nop();
        p.inc(0); p.brr(-1);
        break;
    case 3: { // calls and a repeat, then idle
        p.call(SUB); p.rep((u8)rng.below(5)); p.inc(0); p.call(SUB);
        if (rng.chance(1, 2)) { p.dint(); p.nop(); p.eint(); }
        p.brr(-1);
        break;
    }
    case 4: { // block repeat (possibly nested), then idle
        u32 here = p.at;
        unsigned n1 = rng.below(4);
        if (rng.chance(1, 2)) {
            p.bkrep((u8)n1, (u16)(here + 2 + 1));          // body: inc a0 ; modr
            p.inc(0); p.modr_inc(3);
        } else {
            unsigned n2 = rng.below(3);
            p.bkrep((u8)n1, (u16)(here + 2 + 2 + 1 + 1));  // outer body: bkrep inner(2 words) ; inc ; [inner end] ; add? keep simple
            p.bkrep((u8)n2, (u16)(here + 2 + 2));           // inner body: inc a0 (one word at here+4)
            p.inc(0);
            p.modr_inc(3);
            p.nop();
        }
        p.brr(-1);
        break;
    }
    case 6: { // poll the status registers, echo commands, feed the audio queue, clear semaphore bits
        u32 top = p.at;
        p.mmio_read_to_r(0xD6 + 2 * rng.below(2), 4);
        p.mmio_read_to_r(0x2C2, 5);
        p.mmio_write(0x2C6, rng.u16());
        if (rng.chance(1, 2)) { p.mmio_read_to_r(0xC2 + 4 * rng.below(3), 4); p.mov_imm_reg(p.mbase + 0xC0 + 4 * rng.below(3), 0); p.store_reg_at_rn(4, 0); }
        if (rng.chance(1, 2)) { p.mmio_read_to_r(0xD2, 4); p.mov_imm_reg(p.mbase + 0xD0, 0); p.store_reg_at_rn(4, 0); }
        if (rng.chance(1, 3)) p.mmio_write(0xCC, rng.u16());
        if (rng.chance(1, 4)) p.mmio_write(0x2CA, 1);
        p.inc(0);
        p.br(top);
        break;
    }
    case 7: // idle: everything happens in the handlers, woken by the host and the audio port
        p.brr(-1);
        break;
    case 8: { // mask / unmask the semaphore and read the mirrors in a counting loop
        u32 top = p.at;
        p.mmio_write(0xCE, rng.u16());
        p.mmio_read_to_r(0xCE, 4); p.mmio_read_to_r(0xD8, 5); p.mmio_read_to_r(0xC0 + 4 * rng.below(3), 4);
        p.mmio_write(0xCE, 0);
        p.mmio_read_to_r(0x2BE, 4); p.mmio_read_to_r(0x2A2 + 0x80, 5); p.mmio_read_to_r(0x2CA, 4);
        p.inc(0);
        p.br(top);
        break;
    }
    case 9: { // paging: x/y pages with page mode 1, then the z page; stores and loads around the X/Y boundary;
              // pages above 1 and MMIO accesses with a non-zero z page end in the emulator's assertion
        static const u16 xss[] = {0x20, 0x10, 0x3F, 0x01, 0x00};
        u16 xs = xss[rng.below(5)];
        auto page = [&]() -> u16 { return rng.chance(1, 10) ? 2 + rng.below(3) : rng.below(2); };
        p.mmio_write(0x114, xs | (rng.below(64) << 8) | (rng.u16() & 0xC0C0));
        if (rng.chance(1, 3)) p.mmio_write(0x116, rng.u16());
        p.mmio_write(0x10E, page()); p.mmio_write(0x110, page());
        p.mmio_write(0x11A, 0x40 | (rng.u16() & 0x17));
        auto somewhere = [&]() -> u16 {
            u16 b = xs * 0x400;
            static const int d[] = {-1, 0, 1};
            u16 a = rng.chance(1, 2) ? (u16)(b + d[rng.below(3)]) : rng.u16();
            if (a >= p.mbase && (u32)a < (u32)p.mbase + 0x800) a = (u16)(p.mbase - 1 - rng.below(16));
            return a;
        };
        for (unsigned k = 0, n = 2 + rng.below(4); k < n; ++k) { u16 a = somewhere(); p.data_store(a, rng.u16()); p.data_load(a, 4); }
        p.mmio_read_to_r(0x114, 4); p.mmio_read_to_r(0x11A, 5); p.mmio_read_to_r(0x10E + 2 * rng.below(3), 4);
        if (rng.chance(2, 3)) {
            p.mmio_write(0x11A, rng.u16() & 0x17);          // back to page mode 0
            p.mmio_write(0x112, page());                    // z page: with 1 the next MMIO access asserts
            for (unsigned k = 0, n = 1 + rng.below(3); k < n; ++k) { u16 a = somewhere(); p.data_store(a, rng.u16()); p.data_load(a, 5); }
            if (rng.chance(1, 2)) p.mmio_read_to_r(0x112, 4);
        }
        p.inc(0);
        p.brr(-1);
        break;
    }
    default: // software-triggered interrupts in a loop
        p.mmio_write(0x204, 1u << (rng.chance(1, 2) ? 3 : 14));
        p.inc(0);
        p.brr(-7);
        break;
    }
    return p;
}

// C09: nested hardware loops: depth 1..4, immediate / register counts, single-instruction repeats,
// two-word last instructions, loop-frame store/restore, then idle
static Prog make_loop_program(vh::Rng& rng, std::string& descr) {
    Prog p;
    const u32 MAIN = 0x0100;
    p.org(0); p.br(MAIN);
    p.org(MAIN);
    p.mov_imm_reg(0x1000 + rng.below(0x100), 13);             // sp
    unsigned depth = 1 + rng.below(4);
    static const unsigned cnts[] = {0, 1, 2, 3, 1, 2, 0, 5};
    descr = "loops" + std::to_string(depth);
    // emit heads with placeholder end addresses, fix up afterwards
    std::vector<u32> end_slot(depth);
    std::vector<bool> is_imm(depth);
    for (unsigned k = 0; k < depth; ++k) {
        unsigned c = cnts[rng.below(8)];
        if (depth <= 2 && rng.chance(1, 6)) c = 200 + rng.below(56);
        if (rng.chance(1, 2)) { p.w(0x5C00 | c); end_slot[k] = p.at; p.w(0); }                    // bkrep #imm8, end
        else if (rng.chance(1, 2)) { p.w(0x0023); p.w(c); p.w(0x8FDC); end_slot[k] = p.at; p.w(0); } // mov #c, r6 ; bkrep r6, end
        else { p.mov_imm_reg(c, 5); p.w(0x5D00 | 5); end_slot[k] = p.at; p.w(0); }                  // mov #c, r5 ; bkrep r5, end
        if (k + 1 < depth && rng.chance(1, 3)) p.inc(1);                                           // something before the inner loop
    }
    // innermost body
    if (rng.chance(1, 3)) { unsigned r = rng.below(4); if (rng.chance(1, 2)) p.rep((u8)r); else { p.w(0x0023); p.w(r); p.w(0x0002); } }
    p.inc(0);
    if (rng.chance(1, 4)) { p.w(0x9468); p.w(0x5F48); }      // bkrepsto [sp] ; bkreprst [sp]: frame round trip inside the loop
    if (rng.chance(1, 2)) p.modr_inc(2);
    bool two = rng.chance(1, 3);
    u32 inner_end;
    if (two) { p.add_imm(1, 1); inner_end = p.at - 1; } else { inner_end = p.at - 1; }
    p.words[end_slot[depth - 1]] = (u16)inner_end;
    for (int k = (int)depth - 2; k >= 0; --k) {
        if (rng.chance(1, 3)) p.nop();
        p.modr_inc(3);
        p.words[end_slot[k]] = (u16)(p.at - 1);
    }
    p.inc(1);
    p.brr(-1);
    return p;
}

struct Inst {
    std::unique_ptr<Teakra::Teakra> t;
    WriteLog log;
    std::vector<std::array<int, 3>> ev;   // host callbacks since the last observation, in order
    auto& impl() { return *TeakraVerifAccess::impl(*t); }
    auto& interp() { return TeakraVerifAccess::interpreter(*TeakraVerifAccess::impl(TeakraVerifAccess::processor(impl()))); }
};

static void observe(vh::Out& o, Inst& in) {
    std::vector<int> r(NREG);
    vlayout::pack_regs(in.t->GetRegisterState(), r.data());
    o.raw("r", vh::arr(r.begin(), r.end()));
    Interpreter& ip = in.interp();
    u32 va = TeakraVerifAccess::vinterrupt_address(ip);
    int lat[7] = {TeakraVerifAccess::interrupt_pending(ip)[0] ? 1 : 0, TeakraVerifAccess::interrupt_pending(ip)[1] ? 1 : 0,
                  TeakraVerifAccess::interrupt_pending(ip)[2] ? 1 : 0, TeakraVerifAccess::vinterrupt_pending(ip) ? 1 : 0,
                  (int)(va >> 16), (int)(va & 0xFFFF), TeakraVerifAccess::vinterrupt_context_switch(ip) ? 1 : 0};
    o.raw("lat", vh::arr(lat, lat + 7));
    o.num("idle", TeakraVerifAccess::idle(ip) ? 1 : 0);
    std::string tm = "[";
    for (int i = 0; i < 2; ++i) {
        const Timer& t = in.impl().timer[i];
        if (i) tm += ',';
        tm += "{\"c\":" + vh::pair16(t.counter) + ",\"s\":" + vh::pair16(((u32)t.start_high << 16) | t.start_low) +
              ",\"m\":" + std::to_string((int)t.count_mode) + ",\"p\":" + std::to_string(t.pause) + ",\"u\":" +
              std::to_string(t.update_mmio) + ",\"mi\":[" + std::to_string(t.counter_high) + "," + std::to_string(t.counter_low) +
              "],\"sc\":" + std::to_string(t.scale) + "}";
    }
    o.raw("tm", tm + "]");
    ICU& icu = in.impl().icu;
    int en[3] = {icu.GetEnable(0), icu.GetEnable(1), icu.GetEnable(2)};
    o.raw("icu", "{\"req\":" + std::to_string(icu.GetRequest()) + ",\"en\":" + vh::arr(en, en + 3) + ",\"ven\":" +
                     std::to_string(icu.GetEnableVectored()) + ",\"vlo\":" + vh::arr(icu.vector_low.begin(), icu.vector_low.end()) +
                     ",\"vhi\":" + vh::arr(icu.vector_high.begin(), icu.vector_high.end()) + ",\"vctx\":" +
                     vh::arr(icu.vector_context_switch.begin(), icu.vector_context_switch.end()) + "}");
}

static void observe_io(vh::Out& o, Inst& in, std::vector<std::array<int, 3>>& ev) {
    std::string bt = "[";
    for (int i = 0; i < 2; ++i) {
        Btdmp& b = in.impl().btdmp[i];
        auto q = TeakraVerifAccess::transmit_queue(b);
        std::vector<int> qs;
        while (!q.empty()) { qs.push_back(q.front()); q.pop(); }
        if (i) bt += ',';
        bt += "{\"q\":" + vh::arr(qs.begin(), qs.end()) + ",\"tm\":" + std::to_string(TeakraVerifAccess::transmit_timer(b)) +
              ",\"pd\":" + std::to_string(TeakraVerifAccess::transmit_period(b)) + ",\"en\":" + std::to_string(TeakraVerifAccess::transmit_enable(b)) +
              ",\"em\":" + std::to_string(TeakraVerifAccess::transmit_empty(b) ? 1 : 0) + ",\"fu\":" + std::to_string(TeakraVerifAccess::transmit_full(b) ? 1 : 0) +
              ",\"cc\":" + std::to_string(TeakraVerifAccess::transmit_clock_config(b)) + "}";
    }
    const MemoryInterfaceUnit& m = in.impl().miu;
    o.raw("miu", "{\"base\":" + std::to_string(m.mmio_base) + ",\"z\":" + std::to_string(m.z_page) + ",\"pm\":" + std::to_string(m.page_mode) +
                     ",\"xp\":" + std::to_string(m.x_page) + ",\"yp\":" + std::to_string(m.y_page) + ",\"xs\":" + vh::arr(m.x_size.begin(), m.x_size.end()) +
                     ",\"ys\":" + vh::arr(m.y_size.begin(), m.y_size.end()) + "}");
    o.raw("bt", bt + "]");
    std::string ap = "[";
    Apbp* aps[2] = {&in.impl().apbp_from_cpu, &in.impl().apbp_from_dsp};
    for (int i = 0; i < 2; ++i) {
        auto& ai = *TeakraVerifAccess::impl(*aps[i]);
        int rdy[3], dat[3], dis[3];
        for (int c = 0; c < 3; ++c) {
            rdy[c] = TeakraVerifAccess::ready(ai.data_channels[c]) ? 1 : 0;
            dat[c] = TeakraVerifAccess::data(ai.data_channels[c]);
            dis[c] = TeakraVerifAccess::disable_interrupt(ai.data_channels[c]);
        }
        if (i) ap += ',';
        ap += "{\"rdy\":" + vh::arr(rdy, rdy + 3) + ",\"dat\":" + vh::arr(dat, dat + 3) + ",\"dis\":" + vh::arr(dis, dis + 3) +
              ",\"sem\":" + std::to_string(ai.semaphore) + ",\"msk\":" + std::to_string(ai.semaphore_mask) + ",\"sig\":" +
              std::to_string(ai.semaphore_master_signal ? 1 : 0) + "}";
    }
    o.raw("ap", ap + "]");
    std::string e = "[";
    for (size_t i = 0; i < ev.size(); ++i) { if (i) e += ','; e += vh::arr(ev[i].begin(), ev[i].end()); }
    o.raw("ev", e + "]");
    ev.clear();
}

static void fresh(Inst& in) {
    Teakra::UserConfig cfg;
    in.t = std::make_unique<Teakra::Teakra>(cfg);
    auto* ev = &in.ev;
    in.t->SetAudioCallback([ev](std::array<s16, 2> f) { ev->push_back({0, (int)(u16)f[0], (int)(u16)f[1]}); });
    for (int c = 0; c < 3; ++c) in.t->SetRecvDataHandler(c, [ev, c] { ev->push_back({1, c, 0}); });
    in.t->SetSemaphoreHandler([ev] { ev->push_back({2, 0, 0}); });
    in.t->Reset();
    in.ev.clear();
    // the ICU has no reset and its vector tables no initialiser: give the run a defined start and let the
    // New line carry it (C17 looks at the uninitialised case separately)
    ICU& icu = in.impl().icu;
    icu.vector_low.fill(0); icu.vector_high.fill(0); icu.vector_context_switch.fill(0);
    in.log.written.clear(); in.log.oob = false;
}

int main(int argc, char** argv) {
    vh::Args a(argc, argv);
    vh::Out o;
    o.open(a.out.c_str());
    vh::install_fault_handlers(&o);
    vh::silence_stdout();
    vh::Rng rng(a.seed);
    long programs = a.n;
    for (long pi = 0; pi < programs; ++pi) {
        std::string descr;
        bool io = a.mode == "io" || a.mode == "page" || (a.mode != "loops" && rng.chance(1, 3));
        Prog prog = a.mode == "loops" ? make_loop_program(rng, descr) : make_program(rng, descr, io, a.mode == "page" ? 9 : -1);
        // the audio transmit period has no register (4096 cycles after reset): shorten it so that frames, the
        // empty interrupt and queue refills happen within the budget; the New line carries the value
        unsigned period[2] = {io ? (rng.chance(1, 8) ? 4096u : 2 + rng.below(60)) : 4096u, io ? 1 + rng.below(40) : 4096u};
        u64 host_seed = rng.next();
        unsigned total = rng.chance(1, 5) ? 300 + rng.below(3000) : 60 + rng.below(400);
        // slicings: one piece, single steps for a prefix then the rest, random slices, twos/threes
        std::vector<std::vector<unsigned>> slicings;
        slicings.push_back({total});
        { std::vector<unsigned> s; unsigned left = total; while (left) { unsigned n = 1 + rng.below(rng.chance(1, 2) ? 3 : 40); if (n > left) n = left; s.push_back(n); left -= n; } slicings.push_back(s); }
        { std::vector<unsigned> s; unsigned left = total; unsigned ones = std::min<unsigned>(left, 20 + rng.below(80)); for (unsigned i = 0; i < ones; ++i) s.push_back(1); left -= ones; while (left) { unsigned n = 1 + rng.below(200); if (n > left) n = left; s.push_back(n); left -= n; } slicings.push_back(s); }
        if (a.mode == "step") {   // every instruction boundary observed (C07): single steps only, for a bounded budget
            total = std::min<unsigned>(total, 260);
            slicings.clear();
            slicings.push_back(std::vector<unsigned>(total, 1));
        }
        for (auto& sl : slicings) {
            Inst in;
            fresh(in);
            for (int i = 0; i < 2; ++i) in.impl().btdmp[i].SetTransmitPeriod((u16)period[i]);
            vh::Rng hrng(host_seed);
            o.begin(); o.str("e", "New"); o.str("prog", descr.c_str()); observe(o, in); observe_io(o, in, in.ev); o.end();
            std::string lw = "[";
            bool first = true;
            for (auto& kv : prog.words) {
                in.t->ProgramWrite(kv.first, kv.second);
                if (!first) lw += ',';
                first = false;
                lw += "[" + std::to_string(kv.first) + "," + std::to_string(kv.second) + "]";
            }
            o.begin(); o.str("e", "Load"); o.raw("w", lw + "]"); o.end();
            verif_mem_observer = &in.log;
            bool dead = false;
            for (unsigned n : sl) {
                if (dead) break;
                in.log.written.clear();
                const char* out = "ok";
                std::string why;
                try { in.t->Run(n); }
                catch (const UnimplementedException&) { out = "unimpl"; dead = true; }
                catch (const TeakraVerifAssert& e) { out = "assert"; dead = true; why = std::string(e.expression) + " @" + e.file + ":" + std::to_string(e.line); }
                if (in.log.oob) { out = "oob"; dead = true; }
                o.begin(); o.str("e", "Run"); o.num("n", n);
                if (!why.empty()) o.str("why", why.c_str());
                observe(o, in); observe_io(o, in, in.ev);
                std::string wr = "[";
                bool f2 = true;
                for (auto& kv : in.log.written) { if (!f2) wr += ','; f2 = false; wr += "[" + std::to_string(kv.first) + "," + std::to_string(kv.second) + "]"; }
                o.raw("wr", wr + "]");
                o.str("out", out);
                o.end();
                // the host acts between two Run calls
                for (unsigned hk = 0, hn = (io && !dead && hrng.chance(1, 2)) ? 1 + hrng.below(3) : 0; hk < hn; ++hk) {
                    static const char* ops[] = {"SendData", "SendData", "SendData", "RecvData", "RecvData", "RecvDataIsReady", "SendDataIsEmpty",
                                                "SetSemaphore", "SetSemaphore", "ClearSemaphore", "MaskSemaphore", "GetSemaphore", "PeekRecvData",
                                                "DataWrite", "DataRead", "DataWriteBypass", "DataReadBypass", "DataWriteA32", "DataReadA32",
                                                "ProgramWrite", "ProgramRead", "MMIOWrite", "MMIORead", "DataWrite", "DataRead"};
                    // registers the host pokes: timers, ICU, MIU, mailboxes, audio ports, plain cells (none of the unmodelled AHBM/DMA ones)
                    static const u16 offs[] = {0x20, 0x22, 0x24, 0x26, 0x28, 0x2A, 0x30, 0x34, 0x38, 0x1A, 0x200, 0x202, 0x204, 0x206, 0x208, 0x20A, 0x20C,
                                               0x212, 0x214, 0x23A, 0x23C, 0x10E, 0x110, 0x112, 0x114, 0x116, 0x11A, 0xC0, 0xC2, 0xC4, 0xC6, 0xC8, 0xCA,
                                               0xCC, 0xCE, 0xD0, 0xD2, 0xD4, 0xD6, 0xD8, 0x2A2, 0x2BE, 0x2C2, 0x2C6, 0x2CA, 0x322, 0x33E, 0x342, 0x346,
                                               0x34A, 0x00, 0x02, 0x101, 0x7FE, 0x7FF, 0x300};
                    auto moff = [&]() -> u16 { return offs[hrng.below(sizeof(offs) / sizeof(offs[0]))]; };
                    auto mval = [&](u16 off) -> u16 {   // values that keep the machine alive most of the time
                        if (off == 0x10E || off == 0x110 || off == 0x112) return hrng.chance(1, 12) ? 2 : hrng.below(2);
                        if (off == 0x20 || off == 0x30) return (hrng.below(4) << 2) | (hrng.u16() & 0x700);
                        return hrng.u16();
                    };
                    const MemoryInterfaceUnit& mu = in.impl().miu;
                    // (registers of the peripherals System.tla does not model -- AHBM 0xE0.., DMA 0x184, 0x18C, 0x1BE.. -- are left alone)
                    auto unmodelled = [&](u16 a) { if (!mu.InMMIO(a)) return false; u16 off = (a - mu.mmio_base) & 0x7FF;
                                                   return (off >= 0xE0 && off <= 0xF3) || off == 0x184 || off == 0x18C || (off >= 0x1BE && off <= 0x1DF); };
                    auto daddr = [&]() -> u16 { u16 a = hrng.chance(1, 2) ? (u16)(mu.mmio_base + moff()) : hrng.chance(1, 2) ? (u16)(mu.x_size[0] * 0x400 + hrng.below(3) - 1) : hrng.u16();
                                                return unmodelled(a) ? (u16)(mu.mmio_base + 0x300 + (a & 0xF)) : a; };
                    const char* hout = "ok";
                    std::string op = ops[hrng.below(sizeof(ops) / sizeof(ops[0]))];
                    unsigned ha = 0, hb = 0; long ret = 0;
                    in.log.written.clear();
                    if (op == "SendData") { ha = hrng.below(3); hb = hrng.u16(); in.t->SendData(ha, hb); }
                    else if (op == "RecvData") { ha = hrng.below(3); ret = in.t->RecvData(ha); }
                    else if (op == "RecvDataIsReady") { ha = hrng.below(3); ret = in.t->RecvDataIsReady(ha) ? 1 : 0; }
                    else if (op == "SendDataIsEmpty") { ha = hrng.below(3); ret = in.t->SendDataIsEmpty(ha) ? 1 : 0; }
                    else if (op == "SetSemaphore") { ha = hrng.chance(1, 2) ? (1u << hrng.below(16)) : hrng.u16(); in.t->SetSemaphore(ha); }
                    else if (op == "ClearSemaphore") { ha = hrng.chance(1, 2) ? 0xFFFF : hrng.u16(); in.t->ClearSemaphore(ha); }
                    else if (op == "MaskSemaphore") { ha = hrng.chance(1, 2) ? 0 : hrng.u16(); in.t->MaskSemaphore(ha); }
                    else if (op == "GetSemaphore") { ret = in.t->GetSemaphore(); }
                    else if (op == "PeekRecvData") { ha = hrng.below(3); ret = in.t->PeekRecvData(ha); }
                    else try {
                        if (op == "DataWrite") { ha = daddr(); hb = mval((u16)(ha - mu.mmio_base)); in.t->DataWrite(ha, hb); }
                        else if (op == "DataRead") { ha = daddr(); ret = in.t->DataRead(ha); }
                        else if (op == "DataWriteBypass") { ha = daddr(); hb = hrng.u16(); in.t->DataWrite(ha, hb, true); }
                        else if (op == "DataReadBypass") { ha = daddr(); ret = in.t->DataRead(ha, true); }
                        else if (op == "DataWriteA32") { ha = hrng.chance(1, 2) ? hrng.below(0x20000) : (hrng.below(0x100) << 16) | hrng.u16(); hb = hrng.u16(); in.t->DataWriteA32(ha, hb); }
                        else if (op == "DataReadA32") { ha = hrng.chance(1, 2) ? hrng.below(0x20000) : (hrng.below(0x100) << 16) | hrng.u16(); ret = in.t->DataReadA32(ha); }
                        else if (op == "ProgramWrite") { ha = hrng.chance(1, 2) ? 0x20000 + hrng.below(0x20000) : 0x1000 + hrng.below(0x3F000); hb = hrng.u16(); in.t->ProgramWrite(ha, hb); }
                        else if (op == "ProgramRead") { ha = hrng.below(0x40000); ret = in.t->ProgramRead(ha); }
                        else if (op == "MMIOWrite") { ha = moff() + (hrng.chance(1, 4) ? 0x800 * hrng.below(31) : 0); hb = mval((u16)(ha & 0x7FF)); in.t->MMIOWrite(ha, hb); }
                        else if (op == "MMIORead") { ha = moff() + (hrng.chance(1, 4) ? 0x800 * hrng.below(31) : 0); ret = in.t->MMIORead(ha); }
                    } catch (const TeakraVerifAssert&) { hout = "assert"; dead = true; }
                    if (in.log.oob) { hout = "oob"; dead = true; }
                    o.begin(); o.str("e", "Host"); o.str("op", op.c_str()); o.num("a", ha); o.num("b", hb); o.num("ret", ret);
                    observe(o, in); observe_io(o, in, in.ev);
                    std::string hw = "[";
                    bool f3 = true;
                    for (auto& kv : in.log.written) { if (!f3) hw += ','; f3 = false; hw += "[" + std::to_string(kv.first) + "," + std::to_string(kv.second) + "]"; }
                    o.raw("wr", hw + "]"); o.str("out", hout);
                    o.end();
                    if (dead) break;
                }
            }
            verif_mem_observer = nullptr;
        }
    }
    o.close();
    return 0;
}
