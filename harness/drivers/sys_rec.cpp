// System-level conformance recorder (C06, C07, C08, C09, C17): a real Teakra::Teakra instance runs random
// guest programs built from templates (interrupt handlers, timer / ICU programming through the MMIO
// window, counting and idle loops, calls, hardware loops, context switches) through Teakra::Run in
// random slices.  After every slice one "Run" line records the complete observable state:
//   r     the complete register state (int[NREG])
//   lat   interrupt latches [p0,p1,p2,pv, vaddr_hi, vaddr_lo, vctx], idle flag
//   tm    both timers, icu  the interrupt controller (request, enables, vectors)
//   bt    both audio ports (queue, phase, period, enable, flags), ap  both mailbox blocks (ready/data/disable per
//         channel, semaphore, mask, signal flag), ev  every host callback of the slice in order
//         ([0,l,r] audio frame, [1,c,0] receive-data handler of channel c, [2,0,0] semaphore handler)
//   dma   the DMA engine: enable word, active channel, the eight channels (configuration, y, z, cursors, counters,
//         running flag, AHBM channel);  ah  the AHB bridge: busy flag, the three channels with their burst queues;
//   xa    every external-memory callback of the slice in order [kind, addr_hi, addr_lo, value_hi, value_lo]
//         (kinds as in dma_rec: 2/3 r8/w8, 4/5 r16/w16, 6/7 r32/w32); the callbacks are backed by a sparse byte map
//         whose untouched bytes hold (7 * addr_lo + 13 * addr_hi + 3) & 0xFF
//   wr    every memory cell written during the slice with its final value (DMA writes included)
//   out   ok | unimpl | assert | oob
// Between slices the host side acts through the public API (SendData, RecvData, SetSemaphore, ..., the AHBM
// accessors AHBMRead16/32, AHBMWrite16/32 -- 32-bit addresses / values are logged as [hi, lo] --, AHBMGet*,
// DMAChan0Get*): one "Host" line each with arguments, result, callbacks and the complete observation afterwards.
// Modes: (none) mixed programs; io: mailbox / audio / paging / DMA programs with host traffic; dma: only DMA programs
// (kind 10: AHBM channel configuration and DMA channels programmed through the MMIO window, transfers DSP<->DSP,
// DSP<->external, external<->external in 16-bit and double-word mode, irq 15 through the ICU); page; loops; step.
// Program modes (--mode): default (interrupts, timers, loops, calls; one program in three of the io kind), step, loops, io
// (mailboxes, audio, MIU, DMA mixed), audio, irq, page, dma.  Now and then the host calls Teakra::Reset between two
// slices and loads the program again.
// The same program is then run again on a fresh instance with a different slicing (and in one piece):
// the specification has no fast-forward at all, so accepting all of them is C06.
#include <map>
#include "vh.h"
#include "reglayout.h"
#include "interpreter.h"
#include "processor.cpp"
#include "apbp.cpp"
#include "teakra.cpp"
#include "teakra/teakra_c.h"
#include "teakra_c.cpp"   // struct TeakraObject (the C binding's context) is defined in the .cpp

using namespace Teakra;
using vlayout::NREG;

// software trigger word: mostly one source, sometimes several raised by the same write
static u16 soft_trigger(vh::Rng& rng, bool multi = false) {
    static const unsigned src[] = {3, 14, 9, 10, 11};
    if (multi) {        // several vectored sources raised by one write (see `multi` in the program generator)
        static const u16 sets[] = {(1u << 3) | (1u << 14), (1u << 3) | (1u << 9), (1u << 9) | (1u << 14), (1u << 3) | (1u << 9) | (1u << 14)};
        return sets[rng.below(4)];
    }
    if (rng.chance(3, 5)) return (u16)(1u << (rng.chance(1, 2) ? 3 : 14));
    u16 w = 0;
    int n = 2 + rng.below(3);
    for (int i = 0; i < n; ++i) w |= (u16)(1u << src[rng.below(5)]);
    return w;
}

struct WriteLog : VerifMemObserver {
    std::map<u32, u16> written;
    bool oob = false;
    bool OnAccess(u32 byte_address, bool is_write, u16 value) override {
        if (byte_address + 1 >= 0x80000) { oob = true; return false; }
        if (is_write) written[byte_address >> 1] = value;
        return true;
    }
};

// external memory behind the AHBM callbacks + the ordered log of the callbacks
struct ExtMem {
    std::map<u32, u8> mem;
    std::vector<std::array<u32, 3>> xa;   // kind, address, value
    static u8 fill(u32 a) { return (u8)(7 * (a & 0xFFFF) + 13 * (a >> 16) + 3); }
    u8 get(u32 a) { auto it = mem.find(a); return it == mem.end() ? fill(a) : it->second; }
    u8 r8(u32 a) { u8 v = get(a); xa.push_back({2, a, v}); return v; }
    void w8(u32 a, u8 v) { xa.push_back({3, a, v}); mem[a] = v; }
    u16 r16(u32 a) { u16 v = get(a) | ((u16)get(a + 1) << 8); xa.push_back({4, a, v}); return v; }
    void w16(u32 a, u16 v) { xa.push_back({5, a, v}); mem[a] = (u8)v; mem[a + 1] = (u8)(v >> 8); }
    u32 r32(u32 a) { u32 v = get(a) | ((u32)get(a + 1) << 8) | ((u32)get(a + 2) << 16) | ((u32)get(a + 3) << 24); xa.push_back({6, a, v}); return v; }
    void w32(u32 a, u32 v) { xa.push_back({7, a, v}); mem[a] = (u8)v; mem[a + 1] = (u8)(v >> 8); mem[a + 2] = (u8)(v >> 16); mem[a + 3] = (u8)(v >> 24); }
};

struct Prog {
    std::map<u32, u16> words;
    std::vector<u32> ext_hot;                 // external addresses the program works on (the host pokes around them)
    u32 at = 0;
    u16 mbase = 0x8000;                       // where the program believes the MMIO window is
    void org(u32 a) { at = a; }
    void w(u16 v) { words[at++] = v; }
    void mov_imm_reg(u16 imm, unsigned reg) { w(0x5E00 | reg); w(imm); }
    void store_reg_at_rn(unsigned reg, unsigned rn) { w(0x1800 | (reg << 5) | rn); }   // mov reg, [rn]
    void load_rn_reg(unsigned rn, unsigned reg) { w(0x1C00 | rn | (reg << 5)); }       // mov [rn], reg
    void mmio_write(u16 off, u16 val) { mov_imm_reg(mbase + off, 0); mov_imm_reg(val, 1); store_reg_at_rn(1, 0); }
    void mmio_read_to_r(u16 off, unsigned reg) { mov_imm_reg(mbase + off, 0); load_rn_reg(0, reg); }
    void data_store(u16 addr, u16 val) { mov_imm_reg(addr, 2); mov_imm_reg(val, 1); store_reg_at_rn(1, 2); }
    void data_load(u16 addr, unsigned reg) { mov_imm_reg(addr, 2); load_rn_reg(2, reg); }
    void mov_imm_sttmod(u16 imm, unsigned idx) { w(0x0030 | idx); w(imm); }
    void br(u32 addr, unsigned cond = 0) { w(0x4180 | ((addr >> 16) << 4) | cond); w(addr & 0xFFFF); }
    void call(u32 addr, unsigned cond = 0) { w(0x41C0 | ((addr >> 16) << 4) | cond); w(addr & 0xFFFF); }
    void brr(int rel, unsigned cond = 0) { w(0x5000 | ((rel & 0x7F) << 4) | cond); }
    void ret() { w(0x4580); }
    void reti() { w(0x45C0); }
    void retic() { w(0x45D0); }
    void eint() { w(0x4380); }
    void dint() { w(0x43C0); }
    void nop() { w(0); }
    // the idle loop `brr -1`, now and then preceded by a CONDITIONAL self-branch (taken: the core idles there until a handler
    // changes the flags; not taken: execution goes on -- only a taken self-branch may arm the fast-forward)
    template <class R> void idle(R& rng) {
        if (rng.chance(1, 3)) { brr(-1, 1 + rng.below(15)); if (rng.chance(1, 2)) inc(0); }
        brr(-1);
    }
    void inc(unsigned ax) { w(0x67D0 | (ax << 12)); }
    void dec(unsigned ax) { w(0x67E0 | (ax << 12)); }
    void add_imm(u16 imm, unsigned ax) { w(0x86C0 | (ax << 8)); w(imm); }
    void rep(u8 n) { w(0x0C00 | n); }
    void bkrep(u8 n, u16 end) { w(0x5C00 | n); w(end); }
    void push_reg(unsigned reg) { w(0x5E40 | reg); }
    void pop_reg(unsigned reg) { w(0x5E60 | reg); }
    void cntx_s() { w(0xD380); }
    void cntx_r() { w(0xD390); }
    void modr_inc(unsigned rn) { w(0x0080 | rn | (1 << 3)); }
};

// ---------------------------------------------------------------- DMA / AHBM program body (kind 10)
struct DmaCfg { u32 sa = 0, da = 0; u16 z[3] = {0, 0, 0}, ss[3] = {0, 0, 0}, ds[3] = {0, 0, 0}; u16 sp = 0, dp = 0, dw = 0; };
static unsigned dma_count(const DmaCfg& c) {
    u32 n0 = c.z[0] ? c.z[0] : 1, n1 = c.z[1] ? c.z[1] : 1, n2 = c.z[2] ? c.z[2] : 1;
    if (c.dw) n0 = (n0 + 1) / 2;
    unsigned long long t = (unsigned long long)n0 * n1 * n2;
    return t > 100000 ? 100000u : (unsigned)t;
}
// The generator's own walk over one side of a configuration (plain counters): used only to CHOOSE configurations whose
// DSP-side cursors stay inside the array (word 0x20000 + cursor < 0x40000, known finding oob:dma_cursor otherwise) and
// away from the stack; it is no oracle -- what the transfer does is judged by TLC against System.tla.
static bool dsp_walk_ok(const DmaCfg& c, bool src) {
    u32 n0 = c.z[0] ? c.z[0] : 1, n1 = c.z[1] ? c.z[1] : 1;
    if (c.dw) n0 = (n0 + 1) / 2;
    unsigned total = dma_count(c);
    u32 cur = src ? c.sa : c.da;
    const u16* st = src ? c.ss : c.ds;
    for (unsigned k = 0; k < total; ++k) {
        u32 lo = c.dw ? (cur & ~1u) : cur, hi = c.dw ? (cur | 1u) : cur;
        if (lo >= 0x20000 || hi >= 0x20000) return false;
        if (hi >= 0x0E00 && lo < 0x1200) return false;            // the stack lives around 0x1000-0x10FF
        u32 i0 = k % n0, i1 = (k / n0) % n1;
        cur += st[i0 + 1 < n0 ? 0 : (i1 + 1 < n1 ? 1 : 2)];
    }
    return true;
}
static u16 dma_size(vh::Rng& r, unsigned max) {
    static const u16 e[] = {0, 1, 2, 3, 4, 5, 7, 8, 9, 15, 16, 17, 31, 32, 33};
    for (;;) { u16 v = r.chance(2, 3) ? e[r.below(sizeof(e) / sizeof(e[0]))] : (u16)r.below(max + 1); if (v <= max) return v; }
}
static u16 dma_step(vh::Rng& r, bool tame) {
    static const u16 small[] = {0, 1, 2, 3, 4, 5, 8}, big[] = {0x100, 0xFF, 0x8000, 0x7FFF, 0xFFFF, 0xFFFE, 0xFFFC};
    unsigned c = tame ? 0 : r.below(12);
    if (c < 9) return small[r.below(7)];
    if (c < 11) return big[r.below(7)];
    return r.u16();
}
static u32 ext_spot(vh::Rng& r) {
    static const u32 e[] = {0x20000000, 0x20000100, 0, 0x10000, 0xFFFC, 0xFFFF0, 0x7FFFFFF0, 0x80000000, 0xFFFFFFE0, 0xFFFFFFF8, 0xFFFEFFF8, 0x1FFF8};
    return (r.chance(3, 4) ? e[r.below(sizeof(e) / sizeof(e[0]))] : (u32)r.next()) & ~3u;
}
static u32 dsp_spot(vh::Rng& r) {
    switch (r.below(6)) {
    case 0: return 0x2000 + r.below(0x1000);
    case 1: return 0xFFE0 + r.below(0x30);            // around the carry from the low into the high address word
    case 2: return 0x1FF80 + r.below(0x60);           // the end of the array
    case 3: return 0x10000 + r.below(0x8000);         // the second data page (only DMA and the host's A32 accessors get there)
    case 4: return r.below(8);
    default: return 0x2000 + r.below(0x40);
    }
}
static DmaCfg make_dma_cfg(vh::Rng& r, const u32* hot, const u32* xhot) {
    for (int tries = 0; tries < 400; ++tries) {
        DmaCfg c;
        unsigned m = r.below(20);
        if (m < 6) { c.sp = 0; c.dp = 0; } else if (m < 11) { c.sp = 0; c.dp = 7; } else if (m < 16) { c.sp = 7; c.dp = 0; }
        else if (m < 18) { c.sp = 7; c.dp = 7; }
        else { static const u16 os[] = {1, 5, 2, 15, 0, 7}, od[] = {1, 5, 3, 8, 0, 7}; c.sp = os[r.below(6)]; c.dp = od[r.below(6)]; }
        c.dw = r.chance(2, 5) ? 1 : 0;
        unsigned shape = r.below(10);
        if (shape < 4) { c.z[0] = dma_size(r, 34); c.z[1] = r.below(2); c.z[2] = r.below(2); }
        else if (shape < 7) { c.z[0] = dma_size(r, 9); c.z[1] = dma_size(r, 6); c.z[2] = r.below(2); }
        else { c.z[0] = dma_size(r, 5); c.z[1] = dma_size(r, 4); c.z[2] = dma_size(r, 3); }
        if (dma_count(c) > 40) continue;
        bool tame = tries > 60;
        for (int i = 0; i < 3; ++i) { c.ss[i] = dma_step(r, tame); c.ds[i] = dma_step(r, tame); }
        auto base = [&](u16 space) -> u32 {
            if (space == 0) return (r.chance(5, 6) ? hot[r.below(3)] : dsp_spot(r)) + r.below(5);
            if (space == 7) return (r.chance(5, 6) ? xhot[r.below(2)] : ext_spot(r)) + (r.chance(1, 2) ? r.below(9) : 4 * r.below(3));
            return (u32)r.next();
        };
        c.sa = base(c.sp); c.da = base(c.dp);
        if (c.sp == 0 && c.dp == 0 && r.chance(1, 2)) c.da = c.sa + r.below(7) - 3;          // overlapping ranges
        if (c.sp == 7 && c.dp == 7 && r.chance(1, 2)) c.da = c.sa + (r.below(9) - 4) * (c.dw ? 4 : 2);
        if (c.sp == 0 && !dsp_walk_ok(c, true)) continue;
        if (c.dp == 0 && !dsp_walk_ok(c, false)) continue;
        return c;
    }
    DmaCfg c; c.sa = hot[0]; c.da = hot[0] + 1; c.z[0] = 2; c.ss[0] = 1; c.ds[0] = 1;
    return c;
}

// Programs the AHBM channels and several DMA channels through the MMIO window and starts transfers (DSP->DSP,
// DSP->external, external->DSP, both external, the odd spaces; 16-bit and double-word elements, all three dimensions,
// unaligned cursors, queue leftovers of one transfer met by the next); irq 15 is routed by the caller.
static void emit_dma_body(Prog& p, vh::Rng& rng) {
    u32 hot[3] = {0x2000 + rng.below(0x1000), dsp_spot(rng), dsp_spot(rng)};
    u32 xhot[2] = {ext_spot(rng), ext_spot(rng)};
    p.ext_hot = {xhot[0], xhot[1]};
    for (unsigned k = 0, n = 3 + rng.below(4); k < n; ++k) p.data_store((u16)(hot[0] + rng.below(8)), rng.u16());   // something to move
    unsigned nt = 2 + rng.below(4);
    std::vector<DmaCfg> cfgs; std::vector<int> dcs;
    DmaCfg cur[8]; bool used[8] = {false};
    for (unsigned t = 0; t < nt; ++t) {
        int dc = (t && rng.chance(1, 3)) ? dcs[rng.below(t)] : (int)rng.below(8);
        DmaCfg c;
        bool got = false;
        if (used[dc] && rng.chance(1, 2)) {       // the channel as it is, one thing changed
            for (int tries = 0; tries < 20 && !got; ++tries) {
                c = cur[dc];
                switch (rng.below(5)) {
                case 0: c.z[rng.below(3)] = dma_size(rng, 6); break;
                case 1: c.dw ^= 1; break;
                case 2: c.ss[rng.below(3)] = dma_step(rng, true); break;
                case 3: c.ds[rng.below(3)] = dma_step(rng, true); break;
                default: break;                   // restart as it is
                }
                got = dma_count(c) <= 40 && (c.sp != 0 || dsp_walk_ok(c, true)) && (c.dp != 0 || dsp_walk_ok(c, false));
            }
        }
        if (!got) c = make_dma_cfg(rng, hot, xhot);
        cur[dc] = c; used[dc] = true;
        cfgs.push_back(c); dcs.push_back(dc);
    }
    auto ahbm_cfg = [&](int i) {
        u16 unit = rng.chance(1, 12) ? 3 : rng.below(3), burst = rng.chance(1, 12) ? 3 : (rng.chance(1, 2) ? 0 : rng.below(3));
        u16 mask = rng.chance(2, 3) ? (u16)((1u << dcs[rng.below(nt)]) | (rng.chance(1, 2) ? (1u << rng.below(8)) : 0)) : rng.u16();
        p.mmio_write(0xE2 + 6 * i, (u16)((burst << 1) | (unit << 4) | (rng.u16() & 0xFFC9)));    // the other bits are only stored
        p.mmio_write(0xE4 + 6 * i, (u16)((rng.below(2) << 8) | (rng.u16() & 0xFEFF)));
        p.mmio_write(0xE6 + 6 * i, mask);
    };
    for (int i = 0; i < 3; ++i) if (rng.chance(3, 4)) ahbm_cfg(i);
    p.mmio_read_to_r(0xE0, 4);                  // "wait" for the bridge
    static const u16 peek[] = {0xE0, 0xE2, 0xE4, 0xE6, 0xE8, 0xEA, 0xEC, 0xEE, 0xF0, 0xF2, 0x184, 0x18C, 0x1BE, 0x1C0, 0x1C2, 0x1C4, 0x1C6,
                               0x1C8, 0x1CA, 0x1CC, 0x1CE, 0x1D0, 0x1D2, 0x1D4, 0x1D6, 0x1D8, 0x1DA, 0x1DC, 0x1DE, 0xE1, 0x1DF, 0x186};
    u32 top = p.at;
    bool loop = rng.chance(1, 2);               // run the whole sequence again and again (on what the last pass left) or once
    DmaCfg reg[8];                              // what the channel registers hold (as far as this program knows)
    bool seen[8] = {false};
    for (unsigned t = 0; t < nt; ++t) {
        const DmaCfg& c = cfgs[t];
        int dc = dcs[t];
        p.mmio_write(0x1BE, (u16)(dc | (rng.chance(1, 4) ? (rng.u16() & 0xFFF8) : 0)));        // CHANNEL is a 3-bit field
        // every register, or only those that change (a looping program writes all of them at the first use of a
        // channel: the second pass finds the channel as its last use left it)
        bool all = rng.chance(1, 3) || (loop && !seen[dc]);
        seen[dc] = true;
        DmaCfg& o = reg[dc];
        auto put = [&](u16 off, u16 v, u16 old) { if (all || v != old) p.mmio_write(off, v); };
        put(0x1C0, c.sa & 0xFFFF, o.sa & 0xFFFF); put(0x1C2, c.sa >> 16, o.sa >> 16);
        put(0x1C4, c.da & 0xFFFF, o.da & 0xFFFF); put(0x1C6, c.da >> 16, o.da >> 16);
        put(0x1C8, c.z[0], o.z[0]); put(0x1CA, c.z[1], o.z[1]); put(0x1CC, c.z[2], o.z[2]);
        put(0x1CE, c.ss[0], o.ss[0]); put(0x1D0, c.ds[0], o.ds[0]); put(0x1D2, c.ss[1], o.ss[1]);
        put(0x1D4, c.ds[1], o.ds[1]); put(0x1D6, c.ss[2], o.ss[2]); put(0x1D8, c.ds[2], o.ds[2]);
        if (all || c.sp != o.sp || c.dp != o.dp || c.dw != o.dw || rng.chance(1, 4))
            p.mmio_write(0x1DA, (u16)(c.sp | (c.dp << 4) | (c.dw << 10) | (rng.u16() & 0xFB00)));   // the other bits are only stored
        o = c;
        if (rng.chance(1, 3)) p.mmio_write(0x184, rng.chance(1, 2) ? (u16)(1u << dc) : rng.u16());
        if (rng.chance(1, 4)) p.mmio_write(0x1DC, rng.u16());
        if (rng.chance(1, 4)) p.mmio_write(0x202, 0x8000);
        if (rng.chance(1, 6)) p.mmio_write(0x1DE, rng.chance(1, 2) ? 0x40C1 : (u16)(rng.u16() & 0xBFFF));   // not the start pattern
        p.mmio_write(0x1DE, 0x40C0);            // runs the whole transfer
        for (unsigned k = 0, n = rng.below(3); k < n; ++k) p.mmio_read_to_r(peek[rng.below(sizeof(peek) / sizeof(peek[0]))], 4 + rng.below(2));
        if (c.dp == 0 && c.da >= 0x2000 && c.da < 0x3FF0 && rng.chance(2, 3)) p.data_load((u16)(c.da + rng.below(3)), 4 + rng.below(2));
        if (rng.chance(1, 5)) ahbm_cfg(rng.below(3));
    }
    p.inc(0);
    if (loop) p.br(top); else p.idle(rng);
}

// a random program exercising interrupts, timers, the ICU, idle loops, calls and hardware loops
// flavour: 0 general, 1 audio (queues filled before/after enabling, both ports), 2 irq (timers always running with short
// auto-restart periods, line and vectored routing, masks mostly open: many interrupt deliveries per program)
static Prog make_program(vh::Rng& rng, std::string& descr, bool io, int force_kind = -1, int flavour = 0) {
    Prog p;
    const u32 MAIN = 0x0100, SUB = 0x0300, VEC = 0x0400;
    p.org(0); p.br(MAIN);
    bool use_ctx[3];
    for (int i = 0; i < 3; ++i) {
        use_ctx[i] = rng.chance(1, 4);
        p.org(0x0006 + 8 * i);
        p.inc(1);                                  // count handler entries in a1
        if (rng.chance(1, 2)) { p.mmio_read_to_r(0x28 + 0x10 * rng.below(2), 4); }   // look at a timer counter mirror
        if (rng.chance(1, 2)) p.mmio_write(0x202, 1u << (rng.chance(1, 2) ? 10 : 9));  // acknowledge
        use_ctx[i] ? p.retic() : p.reti();
        // handlers longer than 8 words run into the next vector: keep them short
    }
    // fix: handlers above may exceed 8 words; rebuild compactly
    p.words.clear();
    // the MMIO window is moved by the first thing main does (MIU_MMIOBASE); everything else addresses the new place
    static const u16 bases[] = {0x4000, 0xF800, 0x0800, 0xE000, 0xF000, 0xFC00};
    u16 newbase = (io && rng.chance(1, 3)) ? bases[rng.below(6)] : 0x8000;
    p.mbase = newbase;
    // kind 10 = DMA: decided here because the handlers and the interrupt set-up below know about irq 15 for it
    const bool dmak = force_kind == 10 || (force_kind < 0 && io && rng.chance(1, 5));
    p.org(0); p.br(MAIN);
    for (int i = 0; i < 3; ++i) {
        p.org(0x0006 + 8 * i);
        p.br(0x0200 + 0x20 * i);
        p.org(0x0200 + 0x20 * i);
        p.inc(1);
        if (rng.chance(1, 2)) p.mmio_read_to_r(0x28 + 0x10 * rng.below(2), 4);
        if (rng.chance(1, 2)) p.mmio_write(0x202, 1u << (rng.chance(1, 2) ? 10 : 9));
        if (rng.chance(1, 4)) { p.push_reg(4); p.pop_reg(4); }
        if (io) {   // mailbox / audio traffic from the handler: command -> reply echo, semaphore, a sample
            if (rng.chance(1, 2)) {
                unsigned c = rng.below(3);
                p.mmio_read_to_r(0xC2 + 4 * c, 4);
                if (rng.chance(2, 3)) { p.mov_imm_reg(p.mbase + 0xC0 + 4 * rng.below(3), 0); p.store_reg_at_rn(4, 0); }
            }
            if (rng.chance(1, 3)) p.mmio_write(0xCC, 1u << rng.below(16));
            if (rng.chance(1, 3)) p.mmio_write(0x2C6 + (rng.chance(1, 6) ? 0x80 : 0), rng.u16());
            if (rng.chance(1, 3)) p.mmio_write(0x202, (1u << 14) | (1u << 11) | (dmak && rng.chance(1, 2) ? 0x8000u : 0u));
        }
        use_ctx[i] ? p.retic() : p.reti();
    }
    bool vctx = rng.chance(1, 3);
    p.org(VEC);
    p.add_imm(0x100, 1);
    if (rng.chance(1, 2)) p.mmio_write(0x202, 0xFFFF);
    vctx ? p.retic() : p.reti();
    p.org(SUB);
    p.inc(0); p.modr_inc(2);
    if (rng.chance(1, 3)) { p.cntx_s(); p.inc(0); p.cntx_r(); }
    p.ret();

    p.org(MAIN);
    p.mov_imm_reg(0x1000 + rng.below(0x100), 13);             // sp
    if (newbase != 0x8000) { p.mbase = 0x8000; p.mmio_write(0x11E, newbase); p.mbase = newbase; }
    // ICU routing: which irq goes to which line
    u16 en[3] = {0, 0, 0}, ven = 0;
    std::vector<unsigned> irqs = {10u, 9u, 14u, 3u, 11u};
    if (dmak) irqs.push_back(15u);
    // one program in five is about several sources raised by ONE trigger write: sources 3, 9 and 14 are vectored, each with
    // its own context-switch flag (mostly set on the lower ones, mostly clear on the highest), the trigger names two or three
    // PARKED (default off, SYSREC_MULTI=1 switches it on): see DESIGN.md, open lead of 2026-09-30
    bool multi = std::getenv("SYSREC_MULTI") != nullptr && rng.chance(1, 5);
    for (unsigned irq : irqs) {
        // (c == 5: the source is routed nowhere -- its request bit rises, the core sleeps on)
        unsigned c = flavour == 2 ? (rng.chance(1, 5) ? 5 : rng.chance(1, 2) ? 3 : rng.below(3)) : flavour == 3 ? (rng.chance(1, 2) ? 5 : rng.below(5)) : rng.below(6);
        if (multi && (irq == 3 || irq == 9 || irq == 14)) c = rng.chance(3, 4) ? 3 : 4;
        if (c < 3) en[c] |= 1u << irq;
        else if (c == 3) ven |= 1u << irq;
        else if (c == 4) { en[rng.below(3)] |= 1u << irq; ven |= 1u << irq; }
    }
    for (int i = 0; i < 3; ++i) p.mmio_write(0x206 + 2 * i, en[i]);
    p.mmio_write(0x20C, ven);
    // one program in four gives every source its own context-switch flag (the vector is shared): what a trigger of several
    // sources at once hands to the core is then observable (address and flag of the HIGHEST raised source)
    bool mixed_ctx = rng.chance(1, 4);
    for (unsigned irq : irqs) {
        bool cx = multi ? (irq == 14 ? rng.chance(1, 4) : rng.chance(3, 4)) : mixed_ctx ? rng.chance(1, 2) : vctx;
        p.mmio_write(0x212 + 4 * irq, (VEC >> 16) | (cx ? 0x8000 : 0));
        p.mmio_write(0x214 + 4 * irq, VEC & 0xFFFF);
    }
    // timers
    static const u32 starts[] = {0, 1, 2, 3, 5, 7, 12, 20, 33, 64, 200, 0x10000, 0x10003};
    for (int i = 0; i < 2; ++i) {
        if (flavour != 2 && rng.chance(1, 4)) continue;
        static const u32 shorts[] = {2, 3, 5, 7, 12, 20};
        static const u32 longs[] = {3000, 5000, 0xFFFE, 0xFFFF, 0x10000, 0x10001, 70000, 0x12345, 131071, 131072, 200000};   // flavour 3: long horizons
        u32 st = flavour == 2 ? shorts[rng.below(6)] : flavour == 3 ? longs[rng.below(11)] : starts[rng.below(sizeof(starts) / sizeof(starts[0]))];
        p.mmio_write(0x24 + 0x10 * i, st & 0xFFFF);
        p.mmio_write(0x26 + 0x10 * i, st >> 16);
        unsigned mode = (flavour == 2 || flavour == 3) ? (rng.chance(1, 2) ? 1 : rng.chance(1, 2) ? 2 : rng.below(4)) : rng.below(4);   // auto-restart, free-running, any
        u16 cfg = (mode << 2) | (flavour != 2 && rng.chance(1, 8) ? 0x100 : 0) | (rng.chance(2, 3) ? 0x200 : 0) | (flavour == 2 || rng.chance(4, 5) ? 0x400 : 0);
        p.mmio_write(0x20 + 0x10 * i, cfg);
        if (mode == 3 && rng.chance(1, 2)) p.mmio_write(0x22 + 0x10 * i, 1);
        // now and then the mode is changed afterwards WITHOUT a restart: the counter goes on from where it is under the new
        // rules (a loaded single-shot timer turned free-running runs down to 0 and wraps, ...)
        if (rng.chance(1, flavour == 3 ? 2 : flavour == 2 ? 3 : 6))
            p.mmio_write(0x20 + 0x10 * i, (u16)(((flavour == 3 && rng.chance(1, 2) ? 2 : rng.below(3)) << 2) | (cfg & 0x300)));
    }
    u16 late_en[2] = {0, 0};      // port enabled as the very last thing before the main loop (the queue is still as filled)
    if (io) {   // audio ports and mailbox configuration
        for (int i = 0; i < 2; ++i) {
            // the port is enabled before the queue is filled (it drains while being filled) or after (it starts full);
            // port 0: exactly full (16 words), over-full and partly filled queues all occur often
            bool on = rng.chance(1, i ? (flavour == 1 ? 2 : 4) : 1), late = rng.chance(flavour == 1 ? 3 : 1, flavour == 1 ? 4 : 2);
            u16 env = rng.chance(1, 4) ? 0x8000 : 1;
            if (on && !late) p.mmio_write(0x2BE + 0x80 * i, env);
            for (unsigned k = 0, n = i ? rng.below(flavour == 1 ? 18 : 3) : rng.chance(flavour == 1 ? 2 : 1, flavour == 1 ? 4 : 3) ? 16 : rng.chance(1, 5) ? 17 + rng.below(3) : rng.below(16); k < n; ++k)
                p.mmio_write(0x2C6 + 0x80 * i, rng.u16());
            if (on && late) { if (rng.chance(1, flavour == 1 ? 4 : 2)) p.mmio_write(0x2BE + 0x80 * i, env); else late_en[i] = env; }
            if (rng.chance(1, 4)) p.mmio_write(0x2A2 + 0x80 * i, rng.u16());
            if (rng.chance(1, 4)) p.mmio_write(0x2C2 + 0x80 * i, rng.u16());
        }
        if (rng.chance(1, 2)) p.mmio_write(0xD4, (rng.chance(1, 3) ? 0x100 : 0) | (rng.chance(1, 3) ? 0x1000 : 0) | (rng.chance(1, 3) ? 0x2000 : 0) | (rng.u16() & 4));
        if (rng.chance(1, 3)) p.mmio_write(0xCE, rng.chance(1, 2) ? rng.u16() : (1u << rng.below(16)));
        if (rng.chance(1, 3)) p.mmio_write(0xC0 + 4 * rng.below(3), rng.u16());
        if (rng.chance(1, 4)) p.mmio_write(0xD6 + 2 * rng.below(2), rng.u16());
    }
    // interrupt masks: mod3 = crep|cpc|ccnta defaults, im bits, ic bits, ie
    u16 mod3 = 0xE000 | ((flavour == 2 && rng.chance(7, 8) ? 15 : rng.below(16)) << 8) | (flavour == 2 || rng.chance(4, 5) ? 0x80 : 0);
    for (int i = 0; i < 3; ++i) if (use_ctx[i]) mod3 |= 1u << (1 + i);
    p.mov_imm_sttmod(mod3, 7);
    if (multi || rng.chance(1, 3)) p.mmio_write(0x204, soft_trigger(rng, multi));         // software trigger
    for (int i = 0; i < 2; ++i) if (late_en[i]) p.mmio_write(0x2BE + 0x80 * i, late_en[i]);
    // body
    unsigned kind = force_kind >= 0 ? (unsigned)force_kind : dmak ? 10 : io ? 6 + rng.below(4) : rng.below(6);
    descr = "kind" + std::to_string(kind);
    switch (kind) {
    case 0: // pure idle
        p.idle(rng);
        break;
    case 1: // counting loop
        p.inc(0); p.brr(-2);
        break;
    case 2: // nops then idle
        for (unsigned i = 0, n = rng.below(6); i < n; ++i) p.nop();
        p.inc(0); p.idle(rng);
        break;
    case 3: { // calls and a repeat, then idle
        p.call(SUB); p.rep((u8)rng.below(5)); p.inc(0); p.call(SUB);
        if (rng.chance(1, 2)) { p.dint(); p.nop(); p.eint(); }
        p.idle(rng);
        break;
    }
    case 4: { // block repeat (possibly nested), then idle
        u32 here = p.at;
        unsigned n1 = rng.below(4);
        if (rng.chance(1, 2)) {
            p.bkrep((u8)n1, (u16)(here + 2 + 1));          // body: inc a0 ; modr
            p.inc(0); p.modr_inc(3);
        } else {
            unsigned n2 = rng.below(3);
            p.bkrep((u8)n1, (u16)(here + 2 + 2 + 1 + 1));  // outer body: bkrep inner(2 words) ; inc ; [inner end] ; add? keep simple
            p.bkrep((u8)n2, (u16)(here + 2 + 2));           // inner body: inc a0 (one word at here+4)
            p.inc(0);
            p.modr_inc(3);
            p.nop();
        }
        p.idle(rng);
        break;
    }
    case 6: { // poll the status registers, echo commands, feed the audio queue, clear semaphore bits
        u32 top = p.at;
        p.mmio_read_to_r(0xD6 + 2 * rng.below(2), 4);
        p.mmio_read_to_r(0x2C2, 5);
        p.mmio_write(0x2C6, rng.u16());
        if (rng.chance(1, 2)) { p.mmio_read_to_r(0xC2 + 4 * rng.below(3), 4); p.mov_imm_reg(p.mbase + 0xC0 + 4 * rng.below(3), 0); p.store_reg_at_rn(4, 0); }
        if (rng.chance(1, 2)) { p.mmio_read_to_r(0xD2, 4); p.mov_imm_reg(p.mbase + 0xD0, 0); p.store_reg_at_rn(4, 0); }
        if (rng.chance(1, 3)) p.mmio_write(0xCC, rng.u16());
        if (rng.chance(1, 4)) p.mmio_write(0x2CA, 1);
        p.inc(0);
        p.br(top);
        break;
    }
    case 7: // idle: everything happens in the handlers, woken by the host and the audio port
        p.idle(rng);
        break;
    case 8: { // mask / unmask the semaphore and read the mirrors in a counting loop
        u32 top = p.at;
        p.mmio_write(0xCE, rng.u16());
        p.mmio_read_to_r(0xCE, 4); p.mmio_read_to_r(0xD8, 5); p.mmio_read_to_r(0xC0 + 4 * rng.below(3), 4);
        p.mmio_write(0xCE, 0);
        p.mmio_read_to_r(0x2BE, 4); p.mmio_read_to_r(0x2A2 + 0x80, 5); p.mmio_read_to_r(0x2CA, 4);
        p.inc(0);
        p.br(top);
        break;
    }
    case 9: { // paging: x/y pages with page mode 1, then the z page; stores and loads around the X/Y boundary;
              // pages above 1 and MMIO accesses with a non-zero z page end in the emulator's assertion
        static const u16 xss[] = {0x20, 0x10, 0x3F, 0x01, 0x00};
        u16 xs = xss[rng.below(5)];
        auto page = [&]() -> u16 { return rng.chance(1, 10) ? 2 + rng.below(3) : rng.below(2); };
        p.mmio_write(0x114, xs | (rng.below(64) << 8) | (rng.u16() & 0xC0C0));
        if (rng.chance(1, 3)) p.mmio_write(0x116, rng.u16());
        p.mmio_write(0x10E, page()); p.mmio_write(0x110, page());
        p.mmio_write(0x11A, 0x40 | (rng.u16() & 0x17));
        auto somewhere = [&]() -> u16 {
            u16 b = xs * 0x400;
            static const int d[] = {-1, 0, 1};
            u16 a = rng.chance(1, 2) ? (u16)(b + d[rng.below(3)]) : rng.u16();
            if (a >= p.mbase && (u32)a < (u32)p.mbase + 0x800) a = (u16)(p.mbase - 1 - rng.below(16));
            return a;
        };
        for (unsigned k = 0, n = 2 + rng.below(4); k < n; ++k) { u16 a = somewhere(); p.data_store(a, rng.u16()); p.data_load(a, 4); }
        p.mmio_read_to_r(0x114, 4); p.mmio_read_to_r(0x11A, 5); p.mmio_read_to_r(0x10E + 2 * rng.below(3), 4);
        if (rng.chance(2, 3)) {
            p.mmio_write(0x11A, rng.u16() & 0x17);          // back to page mode 0
            p.mmio_write(0x112, page());                    // z page: with 1 the next MMIO access asserts
            for (unsigned k = 0, n = 1 + rng.below(3); k < n; ++k) { u16 a = somewhere(); p.data_store(a, rng.u16()); p.data_load(a, 5); }
            if (rng.chance(1, 2)) p.mmio_read_to_r(0x112, 4);
        }
        p.inc(0);
        p.idle(rng);
        break;
    }
    case 10: // DMA transfers and the AHB bridge (the body is long: it lives behind the vectors)
        p.br(0x0500); p.org(0x0500);
        emit_dma_body(p, rng);
        break;
    default: // software-triggered interrupts in a loop
        p.mmio_write(0x204, soft_trigger(rng, multi));
        p.inc(0);
        p.brr(-7);
        break;
    }
    return p;
}

// C09: nested hardware loops: depth 1..4, immediate / register counts, single-instruction repeats,
// two-word last instructions, loop-frame store/restore, then idle
static Prog make_loop_program(vh::Rng& rng, std::string& descr) {
    Prog p;
    const u32 MAIN = 0x0100;
    p.org(0); p.br(MAIN);
    p.org(MAIN);
    p.mov_imm_reg(0x1000 + rng.below(0x100), 13);             // sp
    unsigned depth = 1 + rng.below(4);
    static const unsigned cnts[] = {0, 1, 2, 3, 1, 2, 0, 5};
    descr = "loops" + std::to_string(depth);
    // emit heads with placeholder end addresses, fix up afterwards
    std::vector<u32> end_slot(depth);
    std::vector<bool> is_imm(depth);
    for (unsigned k = 0; k < depth; ++k) {
        unsigned c = cnts[rng.below(8)];
        if (depth <= 2 && rng.chance(1, 6)) c = 200 + rng.below(56);
        if (rng.chance(1, 2)) { p.w(0x5C00 | c); end_slot[k] = p.at; p.w(0); }                    // bkrep #imm8, end
        else if (rng.chance(1, 2)) { p.w(0x0023); p.w(c); p.w(0x8FDC); end_slot[k] = p.at; p.w(0); } // mov #c, r6 ; bkrep r6, end
        else { p.mov_imm_reg(c, 5); p.w(0x5D00 | 5); end_slot[k] = p.at; p.w(0); }                  // mov #c, r5 ; bkrep r5, end
        if (k + 1 < depth && rng.chance(1, 3)) p.inc(1);                                           // something before the inner loop
    }
    // innermost body
    if (rng.chance(1, 3)) { unsigned r = rng.below(4); if (rng.chance(1, 2)) p.rep((u8)r); else { p.w(0x0023); p.w(r); p.w(0x0002); } }
    p.inc(0);
    if (rng.chance(1, 4)) { p.w(0x9468); p.w(0x5F48); }      // bkrepsto [sp] ; bkreprst [sp]: frame round trip inside the loop
    if (rng.chance(1, 2)) p.modr_inc(2);
    bool two = rng.chance(1, 3);
    u32 inner_end;
    if (two) { p.add_imm(1, 1); inner_end = p.at - 1; } else { inner_end = p.at - 1; }
    p.words[end_slot[depth - 1]] = (u16)inner_end;
    for (int k = (int)depth - 2; k >= 0; --k) {
        if (rng.chance(1, 3)) p.nop();
        p.modr_inc(3);
        p.words[end_slot[k]] = (u16)(p.at - 1);
    }
    p.inc(1);
    p.idle(rng);
    return p;
}

// The host side of the recorder talks to the machine either through the C++ class or, with --api c, through the C
// binding (teakra_c.h): same calls, same observations, same specification.
struct HostApi {
    Teakra::Teakra* t = nullptr;      // the machine (owned by `own` or living inside `ctx`)
    TeakraContext* ctx = nullptr;     // non-null: every call goes through the Teakra_* functions
    void Run(unsigned n) { ctx ? Teakra_Run(ctx, n) : t->Run(n); }
    void Reset() { ctx ? Teakra_Reset(ctx) : t->Reset(); }
    bool SendDataIsEmpty(u8 i) { return ctx ? Teakra_SendDataIsEmpty(ctx, i) != 0 : t->SendDataIsEmpty(i); }
    void SendData(u8 i, u16 v) { ctx ? Teakra_SendData(ctx, i, v) : t->SendData(i, v); }
    bool RecvDataIsReady(u8 i) { return ctx ? Teakra_RecvDataIsReady(ctx, i) != 0 : t->RecvDataIsReady(i); }
    u16 RecvData(u8 i) { return ctx ? Teakra_RecvData(ctx, i) : t->RecvData(i); }
    u16 PeekRecvData(u8 i) { return ctx ? Teakra_PeekRecvData(ctx, i) : t->PeekRecvData(i); }
    void SetSemaphore(u16 v) { ctx ? Teakra_SetSemaphore(ctx, v) : t->SetSemaphore(v); }
    void ClearSemaphore(u16 v) { ctx ? Teakra_ClearSemaphore(ctx, v) : t->ClearSemaphore(v); }
    void MaskSemaphore(u16 v) { ctx ? Teakra_MaskSemaphore(ctx, v) : t->MaskSemaphore(v); }
    u16 GetSemaphore() { return ctx ? Teakra_GetSemaphore(ctx) : t->GetSemaphore(); }
    u16 ProgramRead(u32 a) { return ctx ? Teakra_ProgramRead(ctx, a) : t->ProgramRead(a); }
    void ProgramWrite(u32 a, u16 v) { ctx ? Teakra_ProgramWrite(ctx, a, v) : t->ProgramWrite(a, v); }
    u16 DataRead(u16 a, bool bypass = false) { return ctx ? Teakra_DataRead(ctx, a, bypass) : t->DataRead(a, bypass); }
    void DataWrite(u16 a, u16 v, bool bypass = false) { ctx ? Teakra_DataWrite(ctx, a, v, bypass) : t->DataWrite(a, v, bypass); }
    u16 DataReadA32(u32 a) { return ctx ? Teakra_DataReadA32(ctx, a) : t->DataReadA32(a); }
    void DataWriteA32(u32 a, u16 v) { ctx ? Teakra_DataWriteA32(ctx, a, v) : t->DataWriteA32(a, v); }
    u16 MMIORead(u16 a) { return ctx ? Teakra_MMIORead(ctx, a) : t->MMIORead(a); }
    void MMIOWrite(u16 a, u16 v) { ctx ? Teakra_MMIOWrite(ctx, a, v) : t->MMIOWrite(a, v); }
    u16 DMAChan0GetSrcHigh() { return ctx ? Teakra_DMAChan0GetSrcHigh(ctx) : t->DMAChan0GetSrcHigh(); }
    u16 DMAChan0GetDstHigh() { return ctx ? Teakra_DMAChan0GetDstHigh(ctx) : t->DMAChan0GetDstHigh(); }
    u16 AHBMGetUnitSize(u16 i) { return ctx ? Teakra_AHBMGetUnitSize(ctx, i) : t->AHBMGetUnitSize(i); }
    u16 AHBMGetDirection(u16 i) { return ctx ? Teakra_AHBMGetDirection(ctx, i) : t->AHBMGetDirection(i); }
    u16 AHBMGetDmaChannel(u16 i) { return ctx ? Teakra_AHBMGetDmaChannel(ctx, i) : t->AHBMGetDmaChannel(i); }
    u16 AHBMRead16(u32 a) { return ctx ? Teakra_AHBMRead16(ctx, a) : t->AHBMRead16(a); }
    void AHBMWrite16(u32 a, u16 v) { ctx ? Teakra_AHBMWrite16(ctx, a, v) : t->AHBMWrite16(a, v); }
    u16 AHBMRead32(u32 a) { return ctx ? Teakra_AHBMRead32(ctx, a) : t->AHBMRead32(a); }
    void AHBMWrite32(u32 a, u32 v) { ctx ? Teakra_AHBMWrite32(ctx, a, v) : t->AHBMWrite32(a, v); }
};

struct Inst {
    std::unique_ptr<Teakra::Teakra> own;
    Teakra::Teakra* t = nullptr;
    HostApi api;
    struct ChanCb { Inst* in; int c; } chan_cb[3];
    ~Inst() { if (api.ctx) Teakra_Destroy(api.ctx); }
    WriteLog log;
    std::vector<std::array<int, 3>> ev;   // host callbacks since the last observation, in order
    ExtMem x;                             // external memory behind the AHBM callbacks
    auto& impl() { return *TeakraVerifAccess::impl(*t); }
    auto& interp() { return TeakraVerifAccess::interpreter(*TeakraVerifAccess::impl(TeakraVerifAccess::processor(impl()))); }
};

static void observe(vh::Out& o, Inst& in) {
    std::vector<int> r(NREG);
    vlayout::pack_regs(in.t->GetRegisterState(), r.data());
    o.raw("r", vh::arr(r.begin(), r.end()));
    Interpreter& ip = in.interp();
    u32 va = TeakraVerifAccess::vinterrupt_address(ip);
    int lat[7] = {TeakraVerifAccess::interrupt_pending(ip)[0] ? 1 : 0, TeakraVerifAccess::interrupt_pending(ip)[1] ? 1 : 0,
                  TeakraVerifAccess::interrupt_pending(ip)[2] ? 1 : 0, TeakraVerifAccess::vinterrupt_pending(ip) ? 1 : 0,
                  (int)(va >> 16), (int)(va & 0xFFFF), TeakraVerifAccess::vinterrupt_context_switch(ip) ? 1 : 0};
    o.raw("lat", vh::arr(lat, lat + 7));
    o.num("idle", TeakraVerifAccess::idle(ip) ? 1 : 0);
    std::string tm = "[";
    for (int i = 0; i < 2; ++i) {
        const Timer& t = in.impl().timer[i];
        if (i) tm += ',';
        tm += "{\"c\":" + vh::pair16(t.counter) + ",\"s\":" + vh::pair16(((u32)t.start_high << 16) | t.start_low) +
              ",\"m\":" + std::to_string((int)t.count_mode) + ",\"p\":" + std::to_string(t.pause) + ",\"u\":" +
              std::to_string(t.update_mmio) + ",\"mi\":[" + std::to_string(t.counter_high) + "," + std::to_string(t.counter_low) +
              "],\"sc\":" + std::to_string(t.scale) + "}";
    }
    o.raw("tm", tm + "]");
    ICU& icu = in.impl().icu;
    int en[3] = {icu.GetEnable(0), icu.GetEnable(1), icu.GetEnable(2)};
    o.raw("icu", "{\"req\":" + std::to_string(icu.GetRequest()) + ",\"en\":" + vh::arr(en, en + 3) + ",\"ven\":" +
                     std::to_string(icu.GetEnableVectored()) + ",\"vlo\":" + vh::arr(icu.vector_low.begin(), icu.vector_low.end()) +
                     ",\"vhi\":" + vh::arr(icu.vector_high.begin(), icu.vector_high.end()) + ",\"vctx\":" +
                     vh::arr(icu.vector_context_switch.begin(), icu.vector_context_switch.end()) + "}");
}

static void observe_io(vh::Out& o, Inst& in, std::vector<std::array<int, 3>>& ev) {
    std::string bt = "[";
    for (int i = 0; i < 2; ++i) {
        Btdmp& b = in.impl().btdmp[i];
        auto q = TeakraVerifAccess::transmit_queue(b);
        std::vector<int> qs;
        while (!q.empty()) { qs.push_back(q.front()); q.pop(); }
        if (i) bt += ',';
        bt += "{\"q\":" + vh::arr(qs.begin(), qs.end()) + ",\"tm\":" + std::to_string(TeakraVerifAccess::transmit_timer(b)) +
              ",\"pd\":" + std::to_string(TeakraVerifAccess::transmit_period(b)) + ",\"en\":" + std::to_string(TeakraVerifAccess::transmit_enable(b)) +
              ",\"em\":" + std::to_string(TeakraVerifAccess::transmit_empty(b) ? 1 : 0) + ",\"fu\":" + std::to_string(TeakraVerifAccess::transmit_full(b) ? 1 : 0) +
              ",\"cc\":" + std::to_string(TeakraVerifAccess::transmit_clock_config(b)) + "}";
    }
    const MemoryInterfaceUnit& m = in.impl().miu;
    o.raw("miu", "{\"base\":" + std::to_string(m.mmio_base) + ",\"z\":" + std::to_string(m.z_page) + ",\"pm\":" + std::to_string(m.page_mode) +
                     ",\"xp\":" + std::to_string(m.x_page) + ",\"yp\":" + std::to_string(m.y_page) + ",\"xs\":" + vh::arr(m.x_size.begin(), m.x_size.end()) +
                     ",\"ys\":" + vh::arr(m.y_size.begin(), m.y_size.end()) + "}");
    o.raw("bt", bt + "]");
    std::string ap = "[";
    Apbp* aps[2] = {&in.impl().apbp_from_cpu, &in.impl().apbp_from_dsp};
    for (int i = 0; i < 2; ++i) {
        auto& ai = *TeakraVerifAccess::impl(*aps[i]);
        int rdy[3], dat[3], dis[3];
        for (int c = 0; c < 3; ++c) {
            rdy[c] = TeakraVerifAccess::ready(ai.data_channels[c]) ? 1 : 0;
            dat[c] = TeakraVerifAccess::data(ai.data_channels[c]);
            dis[c] = TeakraVerifAccess::disable_interrupt(ai.data_channels[c]);
        }
        if (i) ap += ',';
        ap += "{\"rdy\":" + vh::arr(rdy, rdy + 3) + ",\"dat\":" + vh::arr(dat, dat + 3) + ",\"dis\":" + vh::arr(dis, dis + 3) +
              ",\"sem\":" + std::to_string(ai.semaphore) + ",\"msk\":" + std::to_string(ai.semaphore_mask) + ",\"sig\":" +
              std::to_string(ai.semaphore_master_signal ? 1 : 0) + "}";
    }
    o.raw("ap", ap + "]");
    std::string e = "[";
    for (size_t i = 0; i < ev.size(); ++i) { if (i) e += ','; e += vh::arr(ev[i].begin(), ev[i].end()); }
    o.raw("ev", e + "]");
    ev.clear();
    // DMA engine and AHB bridge (private state through the friend accessor), external accesses since the last observation
    Dma& d = in.impl().dma;
    std::string ds = "{\"en\":" + std::to_string(TeakraVerifAccess::enable_channel(d)) + ",\"act\":" + std::to_string(TeakraVerifAccess::active_channel(d)) + ",\"ch\":[";
    for (int i = 0; i < 8; ++i) {
        auto& c = TeakraVerifAccess::channels(d)[i];
        long long v[27] = {c.addr_src_high, c.addr_src_low, c.addr_dst_high, c.addr_dst_low, c.size0, c.size1, c.size2,
                           c.src_step0, c.src_step1, c.src_step2, c.dst_step0, c.dst_step1, c.dst_step2, c.src_space, c.dst_space,
                           c.dword_mode, c.y, c.z, c.current_src >> 16, c.current_src & 0xFFFF, c.current_dst >> 16, c.current_dst & 0xFFFF,
                           c.counter0, c.counter1, c.counter2, c.running, c.ahbm_channel};
        if (i) ds += ',';
        ds += vh::arr(v, v + 27);
    }
    o.raw("dma", ds + "]}");
    Ahbm& ah = in.impl().ahbm;
    std::string as = "{\"busy\":" + std::to_string(TeakraVerifAccess::busy_flag(ah)) + ",\"ch\":[";
    for (int i = 0; i < 3; ++i) {
        auto& c = TeakraVerifAccess::channels(ah)[i];
        if (i) as += ',';
        as += "[" + std::to_string((int)c.unit_size) + "," + std::to_string((int)c.burst_size) + "," + std::to_string((int)c.direction) + "," +
              std::to_string(c.dma_channel) + ",[";
        auto q = c.burst_queue;   // copy
        bool first = true;
        while (!q.empty()) { if (!first) as += ','; first = false; as += vh::pair16(q.front()); q.pop(); }
        as += "]," + vh::pair16(c.write_burst_start) + "]";
    }
    o.raw("ah", as + "]}");
    std::string xs = "[";
    for (size_t i = 0; i < in.x.xa.size(); ++i) {
        auto& a = in.x.xa[i];
        if (i) xs += ',';
        xs += "[" + std::to_string(a[0]) + "," + std::to_string(a[1] >> 16) + "," + std::to_string(a[1] & 0xFFFF) + "," +
              std::to_string(a[2] >> 16) + "," + std::to_string(a[2] & 0xFFFF) + "]";
    }
    o.raw("xa", xs + "]");
    in.x.xa.clear();
}

static bool g_capi = false;
static void fresh(Inst& in) {
    ExtMem* x = &in.x;
    x->mem.clear(); x->xa.clear();
    if (g_capi) {
        in.api.ctx = Teakra_Create();
        in.t = in.api.t = &in.api.ctx->teakra;
        Teakra_SetAudioCallback(in.api.ctx, [](void* ud, int16_t sm[2]) { ((Inst*)ud)->ev.push_back({0, (int)(u16)sm[0], (int)(u16)sm[1]}); }, &in);
        for (int c = 0; c < 3; ++c) {
            in.chan_cb[c] = {&in, c};
            Teakra_SetRecvDataHandler(in.api.ctx, (u8)c, [](void* ud) { auto* k = (Inst::ChanCb*)ud; k->in->ev.push_back({1, k->c, 0}); }, &in.chan_cb[c]);
        }
        Teakra_SetSemaphoreHandler(in.api.ctx, [](void* ud) { ((Inst*)ud)->ev.push_back({2, 0, 0}); }, &in);
        Teakra_SetAHBMCallback(in.api.ctx,
            [](void* ud, u32 a) -> u8 { return ((ExtMem*)ud)->r8(a); }, [](void* ud, u32 a, u8 v) { ((ExtMem*)ud)->w8(a, v); },
            [](void* ud, u32 a) -> u16 { return ((ExtMem*)ud)->r16(a); }, [](void* ud, u32 a, u16 v) { ((ExtMem*)ud)->w16(a, v); },
            [](void* ud, u32 a) -> u32 { return ((ExtMem*)ud)->r32(a); }, [](void* ud, u32 a, u32 v) { ((ExtMem*)ud)->w32(a, v); }, x);
    } else {
        Teakra::UserConfig cfg;
        in.own = std::make_unique<Teakra::Teakra>(cfg);
        in.t = in.api.t = in.own.get();
        auto* ev = &in.ev;
        in.t->SetAudioCallback([ev](std::array<s16, 2> f) { ev->push_back({0, (int)(u16)f[0], (int)(u16)f[1]}); });
        for (int c = 0; c < 3; ++c) in.t->SetRecvDataHandler(c, [ev, c] { ev->push_back({1, c, 0}); });
        in.t->SetSemaphoreHandler([ev] { ev->push_back({2, 0, 0}); });
        Teakra::AHBMCallback cb;
        cb.read8 = [x](u32 a) { return x->r8(a); };   cb.write8 = [x](u32 a, u8 v) { x->w8(a, v); };
        cb.read16 = [x](u32 a) { return x->r16(a); }; cb.write16 = [x](u32 a, u16 v) { x->w16(a, v); };
        cb.read32 = [x](u32 a) { return x->r32(a); }; cb.write32 = [x](u32 a, u32 v) { x->w32(a, v); };
        in.t->SetAHBMCallback(cb);
    }
    in.api.Reset();
    in.ev.clear();
    // the ICU has no reset and its vector tables no initialiser: give the run a defined start and let the
    // New line carry it (C17 looks at the uninitialised case separately)
    ICU& icu = in.impl().icu;
    icu.vector_low.fill(0); icu.vector_high.fill(0); icu.vector_context_switch.fill(0);
    in.log.written.clear(); in.log.oob = false;
}

int main(int argc, char** argv) {
    // an earlier emulator instance lives in the same process for the whole run (constructed first, reset, never used again):
    // nothing the instance under test does may depend on it or reach it (function-local statics, shared tables, captured `this`)
    static std::unique_ptr<Teakra::Teakra> g_decoy = std::make_unique<Teakra::Teakra>(Teakra::UserConfig{});
    g_decoy->Reset();
    vh::Args a(argc, argv);
    for (int i = 1; i + 1 < argc; ++i) if (std::string(argv[i]) == "--api") g_capi = std::string(argv[i + 1]) == "c";
    vh::Out o;
    o.open(a.out.c_str());
    vh::install_fault_handlers(&o);
    vh::silence_stdout();
    vh::Rng rng(a.seed);
    long programs = a.n;
    for (long pi = 0; pi < programs; ++pi) {
        std::string descr;
        bool io = a.mode == "io" || a.mode == "page" || a.mode == "dma" || a.mode == "audio" || (a.mode == "long" && rng.chance(1, 2)) || (a.mode != "loops" && rng.chance(1, 3));
        Prog prog = a.mode == "loops" ? make_loop_program(rng, descr) : make_program(rng, descr, io, a.mode == "page" ? 9 : a.mode == "dma" ? 10 : a.mode == "audio" ? (rng.chance(2, 3) ? 7 : 6) :
                                                                                      a.mode == "irq" ? (rng.chance(1, 2) ? 0 : 2) :
                                                                                      a.mode == "long" ? (io ? 7 : rng.chance(1, 2) ? 0 : 2) : -1,
                                                                                      a.mode == "audio" ? 1 : a.mode == "irq" ? 2 : a.mode == "long" ? 3 : 0);
        const bool dmaprog = descr == "kind10";
        // the audio transmit period has no register (4096 cycles after reset): shorten it so that frames, the
        // empty interrupt and queue refills happen within the budget; the New line carries the value
        unsigned period[2] = {io ? (rng.chance(1, 8) ? 4096u : 2 + rng.below(60)) : 4096u, io ? 1 + rng.below(40) : 4096u};
        const bool longrun = a.mode == "long";
        if (longrun) { period[0] = rng.chance(1, 2) ? 4096u : 1000 + rng.below(9000); period[1] = rng.chance(1, 2) ? 4096u : 3000 + rng.below(60000); }
        u64 host_seed = rng.next();
        unsigned total = rng.chance(1, 5) ? 300 + rng.below(3000) : 60 + rng.below(400);
        if (dmaprog) total = 300 + rng.below(500);     // the set-up alone takes a few hundred instructions
        // long mode: tens to hundreds of thousands of cycles, mostly spent idle (counters crossing 2^16, many audio periods)
        if (longrun) total = rng.chance(1, 3) ? 200000 + rng.below(300000) : 20000 + rng.below(120000);
        // slicings: one piece, single steps for a prefix then the rest, random slices, twos/threes
        std::vector<std::vector<unsigned>> slicings;
        slicings.push_back({total});
        { std::vector<unsigned> s; unsigned left = total; while (left) { unsigned n = 1 + rng.below(rng.chance(1, 2) ? 3 : 40); if (n > left) n = left; s.push_back(n); left -= n; } slicings.push_back(s); }
        { std::vector<unsigned> s; unsigned left = total; unsigned ones = std::min<unsigned>(left, 20 + rng.below(80)); for (unsigned i = 0; i < ones; ++i) s.push_back(1); left -= ones; while (left) { unsigned n = 1 + rng.below(200); if (n > left) n = left; s.push_back(n); left -= n; } slicings.push_back(s); }
        if (a.mode == "irq" || a.mode == "audio") {   // a fourth slicing of short slices only (2..5 cycles): a slice boundary every few cycles
            std::vector<unsigned> s; unsigned left = total; while (left) { unsigned n = 2 + rng.below(4); if (n > left) n = left; s.push_back(n); left -= n; } slicings.push_back(s);
        }
        if (longrun) {   // slices of very different sizes: one piece; thousands at a time; a few huge ones with small ones between
            slicings.clear();
            slicings.push_back({total});
            { std::vector<unsigned> s; unsigned left = total; while (left) { unsigned n = 1 + rng.below(rng.chance(1, 3) ? 60000 : 5000); if (n > left) n = left; s.push_back(n); left -= n; } slicings.push_back(s); }
            { std::vector<unsigned> s; unsigned left = total; while (left) { unsigned n = rng.chance(1, 2) ? 1 + rng.below(4) : 65530 + rng.below(12); if (n > left) n = left; s.push_back(n); left -= n; } slicings.push_back(s); }
        }
        if (a.mode == "step") {   // every instruction boundary observed (C07): single steps only, for a bounded budget
            total = std::min<unsigned>(total, 260);
            slicings.clear();
            slicings.push_back(std::vector<unsigned>(total, 1));
        }
        for (auto& sl : slicings) {
            Inst in;
            fresh(in);
            for (int i = 0; i < 2; ++i) in.impl().btdmp[i].SetTransmitPeriod((u16)period[i]);
            vh::Rng hrng(host_seed);
            o.begin(); o.str("e", "New"); o.str("prog", descr.c_str()); observe(o, in); observe_io(o, in, in.ev); o.end();
            std::string lw = "[";
            bool first = true;
            for (auto& kv : prog.words) {
                in.api.ProgramWrite(kv.first, kv.second);
                if (!first) lw += ',';
                first = false;
                lw += "[" + std::to_string(kv.first) + "," + std::to_string(kv.second) + "]";
            }
            o.begin(); o.str("e", "Load"); o.raw("w", lw + "]"); o.end();
            verif_mem_observer = &in.log;
            bool dead = false;
            // The planned slices are run in order; now and then a slice is SPLIT so that a boundary falls on (or right next to)
            // the cycle in which a timer counter or an audio phase reaches its event -- the run loop's fast-forward then starts
            // from exactly those states (counter 0, phase = period - 1).  This only chooses where the host calls Run again.
            std::vector<unsigned> plan(sl.rbegin(), sl.rend());      // back() is the next planned slice
            vh::Rng arng(host_seed ^ 0x5EEDA11Cull);
            while (!plan.empty()) {
                unsigned n = plan.back(); plan.pop_back();
                if (a.mode != "step" && n > 2 && &sl != &slicings[0] && arng.chance(2, 3)) {   // (the first slicing stays in one piece)
                    // the nearest counter-reaches-zero / frame tick that falls inside this slice
                    u64 ev_in = 0;
                    for (int pick = 0; pick < 4; ++pick) {
                        u64 e = 0;
                        if (pick < 2) { const Timer& tmr = in.impl().timer[pick]; if (tmr.counter > 0 && tmr.count_mode != Timer::CountMode::EventCount && !tmr.pause) e = tmr.counter; }
                        else { Btdmp& b = in.impl().btdmp[pick - 2]; u16 pd = TeakraVerifAccess::transmit_period(b), tm = TeakraVerifAccess::transmit_timer(b);
                               if (TeakraVerifAccess::transmit_enable(b) && pd > tm) e = pd - tm; }
                        if (e > 2 && e + 1 < n && (ev_in == 0 || e < ev_in)) ev_in = e;
                    }
                    if (ev_in > 2) {
                        static const int off[] = {-2, -1, -1, 0, 1};   // the next call starts 2 / 1 / 1 / 0 cycles before the event, or 1 after
                        u64 cut = ev_in + off[arng.below(5)];
                        if (cut >= 1 && cut < n) { plan.push_back((unsigned)(n - cut)); n = (unsigned)cut; }
                    }
                }
                if (dead) break;
                in.log.written.clear();
                const char* out = "ok";
                std::string why;
                try { in.api.Run(n); }
                catch (const UnimplementedException&) { out = "unimpl"; dead = true; }
                catch (const TeakraVerifAssert& e) { out = "assert"; dead = true; why = std::string(e.expression) + " @" + e.file + ":" + std::to_string(e.line); }
                if (in.log.oob) { out = "oob"; dead = true; }
                o.begin(); o.str("e", "Run"); o.num("n", n);
                if (!why.empty()) o.str("why", why.c_str());
                observe(o, in); observe_io(o, in, in.ev);
                std::string wr = "[";
                bool f2 = true;
                for (auto& kv : in.log.written) { if (!f2) wr += ','; f2 = false; wr += "[" + std::to_string(kv.first) + "," + std::to_string(kv.second) + "]"; }
                o.raw("wr", wr + "]");
                o.str("out", out);
                o.end();
                // the host acts between two Run calls
                for (unsigned hk = 0, hn = (io && !dead && hrng.chance(1, 2)) ? 1 + hrng.below(3) : 0; hk < hn; ++hk) {
                    static const char* ops[] = {"SendData", "SendData", "SendData", "RecvData", "RecvData", "RecvDataIsReady", "SendDataIsEmpty",
                                                "SetSemaphore", "SetSemaphore", "ClearSemaphore", "MaskSemaphore", "GetSemaphore", "PeekRecvData",
                                                "DataWrite", "DataRead", "DataWriteBypass", "DataReadBypass", "DataWriteA32", "DataReadA32",
                                                "ProgramWrite", "ProgramRead", "MMIOWrite", "MMIORead", "DataWrite", "DataRead"};
                    // the AHBM / DMA part of the host API, and the AHBM / DMA registers (incl. the plain cells between them)
                    static const char* dops[] = {"AHBMRead16", "AHBMRead32", "AHBMWrite16", "AHBMWrite32", "AHBMRead16", "AHBMWrite32", "AHBMGetUnitSize",
                                                 "AHBMGetDirection", "AHBMGetDmaChannel", "DMAChan0GetSrcHigh", "DMAChan0GetDstHigh",
                                                 "MMIOWrite", "MMIOWrite", "MMIORead", "MMIORead", "DataWrite", "DataRead"};
                    static const u16 doffs[] = {0xE0, 0xE2, 0xE4, 0xE6, 0xE8, 0xEA, 0xEC, 0xEE, 0xF0, 0xF2, 0xE1, 0xF3, 0x184, 0x18C, 0x1BE, 0x1C8, 0x1CA,
                                                0x1CC, 0x1CE, 0x1D0, 0x1D4, 0x1D8, 0x1DA, 0x1DC, 0x1DE, 0x1DE, 0x1DF, 0x1C2, 0x1C6, 0x186};
                    bool dmaop = hrng.chance(dmaprog ? 3 : 1, dmaprog ? 5 : 12);
                    // registers the host pokes: timers, ICU, MIU, mailboxes, audio ports, plain cells
                    static const u16 offs[] = {0x20, 0x22, 0x24, 0x26, 0x28, 0x2A, 0x30, 0x34, 0x38, 0x1A, 0x200, 0x202, 0x204, 0x206, 0x208, 0x20A, 0x20C,
                                               0x212, 0x214, 0x23A, 0x23C, 0x10E, 0x110, 0x112, 0x114, 0x116, 0x11A, 0xC0, 0xC2, 0xC4, 0xC6, 0xC8, 0xCA,
                                               0xCC, 0xCE, 0xD0, 0xD2, 0xD4, 0xD6, 0xD8, 0x2A2, 0x2BE, 0x2C2, 0x2C6, 0x2CA, 0x322, 0x33E, 0x342, 0x346,
                                               0x34A, 0x00, 0x02, 0x101, 0x7FE, 0x7FF, 0x300};
                    auto moff = [&]() -> u16 { return dmaop ? doffs[hrng.below(sizeof(doffs) / sizeof(doffs[0]))] : offs[hrng.below(sizeof(offs) / sizeof(offs[0]))]; };
                    auto mval = [&](u16 off) -> u16 {   // values that keep the machine alive most of the time
                        if (off == 0x10E || off == 0x110 || off == 0x112) return hrng.chance(1, 12) ? 2 : hrng.below(2);
                        if (off == 0x20 || off == 0x30) return (hrng.below(4) << 2) | (hrng.u16() & 0x700);
                        // DMA: the channel select keeps the channel (only the bits above the 3-bit field vary), sizes and steps
                        // stay small, the address registers are read only (whatever the guest set up stays inside the array),
                        // the spaces keep their values or become one of the spaces that move nothing
                        Dma& d = in.impl().dma;
                        auto& dc = TeakraVerifAccess::channels(d)[TeakraVerifAccess::active_channel(d)];
                        if (off == 0x1BE) return (u16)(TeakraVerifAccess::active_channel(d) | (hrng.u16() & 0xFFF8));
                        if (off == 0x1C8 || off == 0x1CA || off == 0x1CC) return hrng.below(4);
                        if (off >= 0x1CE && off <= 0x1D8) return hrng.below(3);
                        if (off == 0x1C2) return dc.addr_src_high;
                        if (off == 0x1C6) return dc.addr_dst_high;
                        if (off == 0x1DA) { u16 sp = hrng.chance(1, 6) ? 1 : dc.src_space, dp = hrng.chance(1, 6) ? 5 : dc.dst_space;
                                            return (u16)(sp | (dp << 4) | (hrng.below(2) << 10) | (hrng.u16() & 0xFB00)); }
                        if (off == 0x1DE) return hrng.chance(1, 2) ? 0x40C0 : hrng.u16();
                        return hrng.u16();
                    };
                    const MemoryInterfaceUnit& mu = in.impl().miu;
                    // a random data address may fall on a DMA / AHBM register: the registers a random value would derail (addresses,
                    // sizes, steps, spaces, start) are left to moff()/mval() above
                    auto touchy = [&](u16 a) { if (!mu.InMMIO(a)) return false; u16 off = (a - mu.mmio_base) & 0x7FF;
                                               return off == 0x1BE || (off >= 0x1C0 && off <= 0x1DF); };
                    auto daddr = [&]() -> u16 { if (dmaop || hrng.chance(1, 2)) return (u16)(mu.mmio_base + moff());
                                                u16 a = hrng.chance(1, 2) ? (u16)(mu.x_size[0] * 0x400 + hrng.below(3) - 1) : hrng.u16();
                                                return touchy(a) ? (u16)(mu.mmio_base + 0x300 + (a & 0xF)) : a; };
                    auto xaddr = [&]() -> u32 { if (!prog.ext_hot.empty() && hrng.chance(3, 4)) return prog.ext_hot[hrng.below(prog.ext_hot.size())] + hrng.below(14) - 3;
                                                static const u32 e[] = {0, 1, 2, 3, 0xFFFFFFFF, 0xFFFFFFFE, 0xFFFFFFFC, 0x20000000, 0x7FFFFFFF, 0x80000001, 0xFFFF, 0x1FFFE};
                                                return hrng.chance(2, 3) ? e[hrng.below(sizeof(e) / sizeof(e[0]))] : (u32)hrng.next(); };
                    const char* hout = "ok";
                    // now and then the host resets the machine (and loads the program again: Reset clears the memory)
                    std::string op = hrng.chance(1, 30) ? "Reset" : dmaop ? dops[hrng.below(sizeof(dops) / sizeof(dops[0]))] : ops[hrng.below(sizeof(ops) / sizeof(ops[0]))];
                    unsigned ha = 0, hb = 0; long ret = 0;
                    u32 xa = 0, xv = 0;               // AHBM accessors: 32-bit address / value, logged as [hi, lo]
                    in.log.written.clear();
                    if (op == "SendData") { ha = hrng.below(3); hb = hrng.u16(); in.api.SendData(ha, hb); }
                    else if (op == "RecvData") { ha = hrng.below(3); ret = in.api.RecvData(ha); }
                    else if (op == "RecvDataIsReady") { ha = hrng.below(3); ret = in.api.RecvDataIsReady(ha) ? 1 : 0; }
                    else if (op == "SendDataIsEmpty") { ha = hrng.below(3); ret = in.api.SendDataIsEmpty(ha) ? 1 : 0; }
                    else if (op == "SetSemaphore") { ha = hrng.chance(1, 2) ? (1u << hrng.below(16)) : hrng.u16(); in.api.SetSemaphore(ha); }
                    else if (op == "ClearSemaphore") { ha = hrng.chance(1, 2) ? 0xFFFF : hrng.u16(); in.api.ClearSemaphore(ha); }
                    else if (op == "MaskSemaphore") { ha = hrng.chance(1, 2) ? 0 : hrng.u16(); in.api.MaskSemaphore(ha); }
                    else if (op == "GetSemaphore") { ret = in.api.GetSemaphore(); }
                    else if (op == "Reset") { in.api.Reset(); }
                    else if (op == "PeekRecvData") { ha = hrng.below(3); ret = in.api.PeekRecvData(ha); }
                    else if (op == "AHBMRead16") { xa = xaddr(); ret = in.api.AHBMRead16(xa); }
                    else if (op == "AHBMRead32") { xa = xaddr(); ret = in.api.AHBMRead32(xa); }
                    else if (op == "AHBMWrite16") { xa = xaddr(); hb = hrng.u16(); in.api.AHBMWrite16(xa, (u16)hb); }
                    else if (op == "AHBMWrite32") { xa = xaddr(); xv = (u32)hrng.next(); in.api.AHBMWrite32(xa, xv); }
                    else if (op == "AHBMGetUnitSize") { ha = hrng.below(3); ret = in.api.AHBMGetUnitSize(ha); }
                    else if (op == "AHBMGetDirection") { ha = hrng.below(3); ret = in.api.AHBMGetDirection(ha); }
                    else if (op == "AHBMGetDmaChannel") { ha = hrng.below(3); ret = in.api.AHBMGetDmaChannel(ha); }
                    else if (op == "DMAChan0GetSrcHigh") { ret = in.api.DMAChan0GetSrcHigh(); }
                    else if (op == "DMAChan0GetDstHigh") { ret = in.api.DMAChan0GetDstHigh(); }
                    else try {
                        if (op == "DataWrite") { ha = daddr(); hb = mval((u16)(ha - mu.mmio_base)); in.api.DataWrite(ha, hb); }
                        else if (op == "DataRead") { ha = daddr(); ret = in.api.DataRead(ha); }
                        else if (op == "DataWriteBypass") { ha = daddr(); hb = hrng.u16(); in.api.DataWrite(ha, hb, true); }
                        else if (op == "DataReadBypass") { ha = daddr(); ret = in.api.DataRead(ha, true); }
                        else if (op == "DataWriteA32") { ha = hrng.chance(1, 2) ? hrng.below(0x20000) : (hrng.below(0x100) << 16) | hrng.u16(); hb = hrng.u16(); in.api.DataWriteA32(ha, hb); }
                        else if (op == "DataReadA32") { ha = hrng.chance(1, 2) ? hrng.below(0x20000) : (hrng.below(0x100) << 16) | hrng.u16(); ret = in.api.DataReadA32(ha); }
                        else if (op == "ProgramWrite") { ha = hrng.chance(1, 2) ? 0x20000 + hrng.below(0x20000) : 0x1000 + hrng.below(0x3F000); hb = hrng.u16(); in.api.ProgramWrite(ha, hb); }
                        else if (op == "ProgramRead") { ha = hrng.below(0x40000); ret = in.api.ProgramRead(ha); }
                        else if (op == "MMIOWrite") { ha = moff() + (hrng.chance(1, 4) ? 0x800 * hrng.below(31) : 0); hb = mval((u16)(ha & 0x7FF)); in.api.MMIOWrite(ha, hb); }
                        else if (op == "MMIORead") { ha = moff() + (hrng.chance(1, 4) ? 0x800 * hrng.below(31) : 0); ret = in.api.MMIORead(ha); }
                    } catch (const TeakraVerifAssert&) { hout = "assert"; dead = true; }
                    if (in.log.oob) { hout = "oob"; dead = true; }
                    o.begin(); o.str("e", "Host"); o.str("op", op.c_str());
                    if (op.compare(0, 6, "AHBMRe") == 0 || op.compare(0, 6, "AHBMWr") == 0) {
                        o.raw("a", vh::pair16(xa));
                        if (op == "AHBMWrite32") o.raw("b", vh::pair16(xv)); else o.num("b", hb);
                    } else { o.num("a", ha); o.num("b", hb); }
                    o.num("ret", ret);
                    observe(o, in); observe_io(o, in, in.ev);
                    std::string hw = "[";
                    bool f3 = true;
                    for (auto& kv : in.log.written) { if (!f3) hw += ','; f3 = false; hw += "[" + std::to_string(kv.first) + "," + std::to_string(kv.second) + "]"; }
                    o.raw("wr", hw + "]"); o.str("out", hout);
                    o.end();
                    if (dead) break;
                    if (op == "Reset") {
                        for (auto& kv : prog.words) in.api.ProgramWrite(kv.first, kv.second);
                        o.begin(); o.str("e", "Load"); o.raw("w", lw + "]"); o.end();
                    }
                }
            }
            verif_mem_observer = nullptr;
        }
    }
    o.close();
    return 0;
}
