// System-level conformance recorder (C06, C07, C08, C09, C17): a real Teakra::Teakra instance runs random
// guest programs built from templates (interrupt handlers, timer / ICU programming through the MMIO
// window, counting and idle loops, calls, hardware loops, context switches) through Teakra::Run in
// random slices.  After every slice one "Run" line records the complete observable state:
//   r     the complete register state (int[NREG])
//   lat   interrupt latches [p0,p1,p2,pv, vaddr_hi, vaddr_lo, vctx], idle flag
//   tm    both timers, icu  the interrupt controller (request, enables, vectors)
//   wr    every memory cell written during the slice with its final value
//   out   ok | unimpl | assert | oob
// The same program is then run again on a fresh instance with a different slicing (and in one piece):
// the specification has no fast-forward at all, so accepting all of them is C06.
#include <map>
#include "vh.h"
#include "reglayout.h"
#include "interpreter.h"
#include "processor.cpp"
#include "teakra.cpp"

using namespace Teakra;
using vlayout::NREG;

struct WriteLog : VerifMemObserver {
    std::map<u32, u16> written;
    bool oob = false;
    bool OnAccess(u32 byte_address, bool is_write, u16 value) override {
        if (byte_address + 1 >= 0x80000) { oob = true; return false; }
        if (is_write) written[byte_address >> 1] = value;
        return true;
    }
};

struct Prog {
    std::map<u32, u16> words;
    u32 at = 0;
    void org(u32 a) { at = a; }
    void w(u16 v) { words[at++] = v; }
    void mov_imm_reg(u16 imm, unsigned reg) { w(0x5E00 | reg); w(imm); }
    void store_reg_at_rn(unsigned reg, unsigned rn) { w(0x1800 | (reg << 5) | rn); }   // mov reg, [rn]
    void load_rn_reg(unsigned rn, unsigned reg) { w(0x1C00 | rn | (reg << 5)); }       // mov [rn], reg
    void mmio_write(u16 off, u16 val) { mov_imm_reg(0x8000 + off, 0); mov_imm_reg(val, 1); store_reg_at_rn(1, 0); }
    void mmio_read_to_r(u16 off, unsigned reg) { mov_imm_reg(0x8000 + off, 0); load_rn_reg(0, reg); }
    void mov_imm_sttmod(u16 imm, unsigned idx) { w(0x0030 | idx); w(imm); }
    void br(u32 addr, unsigned cond = 0) { w(0x4180 | ((addr >> 16) << 4) | cond); w(addr & 0xFFFF); }
    void call(u32 addr, unsigned cond = 0) { w(0x41C0 | ((addr >> 16) << 4) | cond); w(addr & 0xFFFF); }
    void brr(int rel, unsigned cond = 0) { w(0x5000 | ((rel & 0x7F) << 4) | cond); }
    void ret() { w(0x4580); }
    void reti() { w(0x45C0); }
    void retic() { w(0x45D0); }
    void eint() { w(0x4380); }
    void dint() { w(0x43C0); }
    void nop() { w(0); }
    void inc(unsigned ax) { w(0x67D0 | (ax << 12)); }
    void dec(unsigned ax) { w(0x67E0 | (ax << 12)); }
    void add_imm(u16 imm, unsigned ax) { w(0x86C0 | (ax << 8)); w(imm); }
    void rep(u8 n) { w(0x0C00 | n); }
    void bkrep(u8 n, u16 end) { w(0x5C00 | n); w(end); }
    void push_reg(unsigned reg) { w(0x5E40 | reg); }
    void pop_reg(unsigned reg) { w(0x5E60 | reg); }
    void cntx_s() { w(0xD380); }
    void cntx_r() { w(0xD390); }
    void modr_inc(unsigned rn) { w(0x0080 | rn | (1 << 3)); }
};

// a random program exercising interrupts, timers, the ICU, idle loops, calls and hardware loops
static Prog make_program(vh::Rng& rng, std::string& descr) {
    Prog p;
    const u32 MAIN = 0x0100, SUB = 0x0300, VEC = 0x0400;
    p.org(0); p.br(MAIN);
    bool use_ctx[3];
    for (int i = 0; i < 3; ++i) {
        use_ctx[i] = rng.chance(1, 4);
        p.org(0x0006 + 8 * i);
        p.inc(1);                                  // count handler entries in a1
        if (rng.chance(1, 2)) { p.mmio_read_to_r(0x28 + 0x10 * rng.below(2), 4); }   // look at a timer counter mirror
        if (rng.chance(1, 2)) p.mmio_write(0x202, 1u << (rng.chance(1, 2) ? 10 : 9));  // acknowledge
        use_ctx[i] ? p.retic() : p.reti();
        // handlers longer than 8 words run into the next vector: keep them short
    }
    // fix: handlers above may exceed 8 words; rebuild compactly
    p.words.clear();
    p.org(0); p.br(MAIN);
    for (int i = 0; i < 3; ++i) {
        p.org(0x0006 + 8 * i);
        p.br(0x0200 + 0x20 * i);
        p.org(0x0200 + 0x20 * i);
        p.inc(1);
        if (rng.chance(1, 2)) p.mmio_read_to_r(0x28 + 0x10 * rng.below(2), 4);
        if (rng.chance(1, 2)) p.mmio_write(0x202, 1u << (rng.chance(1, 2) ? 10 : 9));
        if (rng.chance(1, 4)) { p.push_reg(4); p.pop_reg(4); }
        use_ctx[i] ? p.retic() : p.reti();
    }
    bool vctx = rng.chance(1, 3);
    p.org(VEC);
    p.add_imm(0x100, 1);
    if (rng.chance(1, 2)) p.mmio_write(0x202, 0xFFFF);
    vctx ? p.retic() : p.reti();
    p.org(SUB);
    p.inc(0); p.modr_inc(2);
    if (rng.chance(1, 3)) { p.cntx_s(); p.inc(0); p.cntx_r(); }
    p.ret();

    p.org(MAIN);
    p.mov_imm_reg(0x1000 + rng.below(0x100), 13);             // sp
    // ICU routing: which irq goes to which line
    u16 en[3] = {0, 0, 0}, ven = 0;
    for (unsigned irq : {10u, 9u, 14u, 3u}) {
        unsigned c = rng.below(6);
        if (c < 3) en[c] |= 1u << irq;
        else if (c == 3) ven |= 1u << irq;
        else if (c == 4) { en[rng.below(3)] |= 1u << irq; ven |= 1u << irq; }
    }
    for (int i = 0; i < 3; ++i) p.mmio_write(0x206 + 2 * i, en[i]);
    p.mmio_write(0x20C, ven);
    for (unsigned irq : {10u, 9u, 14u, 3u}) {
        p.mmio_write(0x212 + 4 * irq, (VEC >> 16) | (vctx ? 0x8000 : 0));
        p.mmio_write(0x214 + 4 * irq, VEC & 0xFFFF);
    }
    // timers
    static const u32 starts[] = {0, 1, 2, 3, 5, 7, 12, 20, 33, 64, 200, 0x10000, 0x10003};
    for (int i = 0; i < 2; ++i) {
        if (rng.chance(1, 4)) continue;
        u32 st = starts[rng.below(sizeof(starts) / sizeof(starts[0]))];
        p.mmio_write(0x24 + 0x10 * i, st & 0xFFFF);
        p.mmio_write(0x26 + 0x10 * i, st >> 16);
        unsigned mode = rng.below(4);
        u16 cfg = (mode << 2) | (rng.chance(1, 8) ? 0x100 : 0) | (rng.chance(2, 3) ? 0x200 : 0) | (rng.chance(4, 5) ? 0x400 : 0);
        p.mmio_write(0x20 + 0x10 * i, cfg);
        if (mode == 3 && rng.chance(1, 2)) p.mmio_write(0x22 + 0x10 * i, 1);
    }
    // interrupt masks: mod3 = crep|cpc|ccnta defaults, im bits, ic bits, ie
    u16 mod3 = 0xE000 | (rng.below(16) << 8) | (rng.chance(4, 5) ? 0x80 : 0);
    for (int i = 0; i < 3; ++i) if (use_ctx[i]) mod3 |= 1u << (1 + i);
    p.mov_imm_sttmod(mod3, 7);
    if (rng.chance(1, 3)) p.mmio_write(0x204, 1u << 3);         // software trigger
    // body
    unsigned kind = rng.below(6);
    descr = "kind" + std::to_string(kind);
    switch (kind) {
    case 0: // pure idle
        p.brr(-1);
        break;
    case 1: // counting loop
        p.inc(0); p.brr(-2);
        break;
    case 2: // nops then idle
        for (unsigned i = 0, n = rng.below(6); i < n; ++i) p.nop();
        p.inc(0); p.brr(-1);
        break;
    case 3: { // calls and a repeat, then idle
        p.call(SUB); p.rep((u8)rng.below(5)); p.inc(0); p.call(SUB);
        if (rng.chance(1, 2)) { p.dint(); p.nop(); p.eint(); }
        p.brr(-1);
        break;
    }
    case 4: { // block repeat (possibly nested), then idle
        u32 here = p.at;
        unsigned n1 = rng.below(4);
        if (rng.chance(1, 2)) {
            p.bkrep((u8)n1, (u16)(here + 2 + 1));          // body: inc a0 ; modr
            p.inc(0); p.modr_inc(3);
        } else {
            unsigned n2 = rng.below(3);
            p.bkrep((u8)n1, (u16)(here + 2 + 2 + 1 + 1));  // outer body: bkrep inner(2 words) ; inc ; [inner end] ; add? keep simple
            p.bkrep((u8)n2, (u16)(here + 2 + 2));           // inner body: inc a0 (one word at here+4)
            p.inc(0);
            p.modr_inc(3);
            p.nop();
        }
        p.brr(-1);
        break;
    }
    default: // software-triggered interrupts in a loop
        p.mmio_write(0x204, 1u << (rng.chance(1, 2) ? 3 : 14));
        p.inc(0);
        p.brr(-7);
        break;
    }
    return p;
}

// C09: nested hardware loops: depth 1..4, immediate / register counts, single-instruction repeats,
// two-word last instructions, loop-frame store/restore, then idle
static Prog make_loop_program(vh::Rng& rng, std::string& descr) {
    Prog p;
    const u32 MAIN = 0x0100;
    p.org(0); p.br(MAIN);
    p.org(MAIN);
    p.mov_imm_reg(0x1000 + rng.below(0x100), 13);             // sp
    unsigned depth = 1 + rng.below(4);
    static const unsigned cnts[] = {0, 1, 2, 3, 1, 2, 0, 5};
    descr = "loops" + std::to_string(depth);
    // emit heads with placeholder end addresses, fix up afterwards
    std::vector<u32> end_slot(depth);
    std::vector<bool> is_imm(depth);
    for (unsigned k = 0; k < depth; ++k) {
        unsigned c = cnts[rng.below(8)];
        if (depth <= 2 && rng.chance(1, 6)) c = 200 + rng.below(56);
        if (rng.chance(1, 2)) { p.w(0x5C00 | c); end_slot[k] = p.at; p.w(0); }                    // bkrep #imm8, end
        else if (rng.chance(1, 2)) { p.w(0x0023); p.w(c); p.w(0x8FDC); end_slot[k] = p.at; p.w(0); } // mov #c, r6 ; bkrep r6, end
        else { p.mov_imm_reg(c, 5); p.w(0x5D00 | 5); end_slot[k] = p.at; p.w(0); }                  // mov #c, r5 ; bkrep r5, end
        if (k + 1 < depth && rng.chance(1, 3)) p.inc(1);                                           // something before the inner loop
    }
    // innermost body
    if (rng.chance(1, 3)) { unsigned r = rng.below(4); if (rng.chance(1, 2)) p.rep((u8)r); else { p.w(0x0023); p.w(r); p.w(0x0002); } }
    p.inc(0);
    if (rng.chance(1, 4)) { p.w(0x9468); p.w(0x5F48); }      // bkrepsto [sp] ; bkreprst [sp]: frame round trip inside the loop
    if (rng.chance(1, 2)) p.modr_inc(2);
    bool two = rng.chance(1, 3);
    u32 inner_end;
    if (two) { p.add_imm(1, 1); inner_end = p.at - 1; } else { inner_end = p.at - 1; }
    p.words[end_slot[depth - 1]] = (u16)inner_end;
    for (int k = (int)depth - 2; k >= 0; --k) {
        if (rng.chance(1, 3)) p.nop();
        p.modr_inc(3);
        p.words[end_slot[k]] = (u16)(p.at - 1);
    }
    p.inc(1);
    p.brr(-1);
    return p;
}

struct Inst {
    std::unique_ptr<Teakra::Teakra> t;
    WriteLog log;
    auto& impl() { return *TeakraVerifAccess::impl(*t); }
    auto& interp() { return TeakraVerifAccess::interpreter(*TeakraVerifAccess::impl(TeakraVerifAccess::processor(impl()))); }
};

static void observe(vh::Out& o, Inst& in) {
    std::vector<int> r(NREG);
    vlayout::pack_regs(in.t->GetRegisterState(), r.data());
    o.raw("r", vh::arr(r.begin(), r.end()));
    Interpreter& ip = in.interp();
    u32 va = TeakraVerifAccess::vinterrupt_address(ip);
    int lat[7] = {TeakraVerifAccess::interrupt_pending(ip)[0] ? 1 : 0, TeakraVerifAccess::interrupt_pending(ip)[1] ? 1 : 0,
                  TeakraVerifAccess::interrupt_pending(ip)[2] ? 1 : 0, TeakraVerifAccess::vinterrupt_pending(ip) ? 1 : 0,
                  (int)(va >> 16), (int)(va & 0xFFFF), TeakraVerifAccess::vinterrupt_context_switch(ip) ? 1 : 0};
    o.raw("lat", vh::arr(lat, lat + 7));
    o.num("idle", TeakraVerifAccess::idle(ip) ? 1 : 0);
    std::string tm = "[";
    for (int i = 0; i < 2; ++i) {
        const Timer& t = in.impl().timer[i];
        if (i) tm += ',';
        tm += "{\"c\":" + vh::pair16(t.counter) + ",\"s\":" + vh::pair16(((u32)t.start_high << 16) | t.start_low) +
              ",\"m\":" + std::to_string((int)t.count_mode) + ",\"p\":" + std::to_string(t.pause) + ",\"u\":" +
              std::to_string(t.update_mmio) + ",\"mi\":[" + std::to_string(t.counter_high) + "," + std::to_string(t.counter_low) +
              "],\"sc\":" + std::to_string(t.scale) + "}";
    }
    o.raw("tm", tm + "]");
    ICU& icu = in.impl().icu;
    int en[3] = {icu.GetEnable(0), icu.GetEnable(1), icu.GetEnable(2)};
    o.raw("icu", "{\"req\":" + std::to_string(icu.GetRequest()) + ",\"en\":" + vh::arr(en, en + 3) + ",\"ven\":" +
                     std::to_string(icu.GetEnableVectored()) + ",\"vlo\":" + vh::arr(icu.vector_low.begin(), icu.vector_low.end()) +
                     ",\"vhi\":" + vh::arr(icu.vector_high.begin(), icu.vector_high.end()) + ",\"vctx\":" +
                     vh::arr(icu.vector_context_switch.begin(), icu.vector_context_switch.end()) + "}");
}

static void fresh(Inst& in) {
    Teakra::UserConfig cfg;
    in.t = std::make_unique<Teakra::Teakra>(cfg);
    in.t->SetAudioCallback([](std::array<s16, 2>) {});
    in.t->Reset();
    // the ICU has no reset and its vector tables no initialiser: give the run a defined start and let the
    // New line carry it (C17 looks at the uninitialised case separately)
    ICU& icu = in.impl().icu;
    icu.vector_low.fill(0); icu.vector_high.fill(0); icu.vector_context_switch.fill(0);
    in.log.written.clear(); in.log.oob = false;
}

int main(int argc, char** argv) {
    vh::Args a(argc, argv);
    vh::Out o;
    o.open(a.out.c_str());
    vh::install_fault_handlers(&o);
    vh::silence_stdout();
    vh::Rng rng(a.seed);
    long programs = a.n;
    for (long pi = 0; pi < programs; ++pi) {
        std::string descr;
        Prog prog = a.mode == "loops" ? make_loop_program(rng, descr) : make_program(rng, descr);
        unsigned total = rng.chance(1, 5) ? 300 + rng.below(3000) : 60 + rng.below(400);
        // slicings: one piece, single steps for a prefix then the rest, random slices, twos/threes
        std::vector<std::vector<unsigned>> slicings;
        slicings.push_back({total});
        { std::vector<unsigned> s; unsigned left = total; while (left) { unsigned n = 1 + rng.below(rng.chance(1, 2) ? 3 : 40); if (n > left) n = left; s.push_back(n); left -= n; } slicings.push_back(s); }
        { std::vector<unsigned> s; unsigned left = total; unsigned ones = std::min<unsigned>(left, 20 + rng.below(80)); for (unsigned i = 0; i < ones; ++i) s.push_back(1); left -= ones; while (left) { unsigned n = 1 + rng.below(200); if (n > left) n = left; s.push_back(n); left -= n; } slicings.push_back(s); }
        if (a.mode == "step") {   // every instruction boundary observed (C07): single steps only, for a bounded budget
            total = std::min<unsigned>(total, 260);
            slicings.clear();
            slicings.push_back(std::vector<unsigned>(total, 1));
        }
        for (auto& sl : slicings) {
            Inst in;
            fresh(in);
            o.begin(); o.str("e", "New"); o.str("prog", descr.c_str()); observe(o, in); o.end();
            std::string lw = "[";
            bool first = true;
            for (auto& kv : prog.words) {
                in.t->ProgramWrite(kv.first, kv.second);
                if (!first) lw += ',';
                first = false;
                lw += "[" + std::to_string(kv.first) + "," + std::to_string(kv.second) + "]";
            }
            o.begin(); o.str("e", "Load"); o.raw("w", lw + "]"); o.end();
            verif_mem_observer = &in.log;
            bool dead = false;
            for (unsigned n : sl) {
                if (dead) break;
                in.log.written.clear();
                const char* out = "ok";
                try { in.t->Run(n); }
                catch (const UnimplementedException&) { out = "unimpl"; dead = true; }
                catch (const TeakraVerifAssert&) { out = "assert"; dead = true; }
                if (in.log.oob) { out = "oob"; dead = true; }
                o.begin(); o.str("e", "Run"); o.num("n", n);
                observe(o, in);
                std::string wr = "[";
                bool f2 = true;
                for (auto& kv : in.log.written) { if (!f2) wr += ','; f2 = false; wr += "[" + std::to_string(kv.first) + "," + std::to_string(kv.second) + "]"; }
                o.raw("wr", wr + "]");
                o.str("out", out);
                o.end();
            }
            verif_mem_observer = nullptr;
        }
    }
    o.close();
    return 0;
}
