// C05 recorder: assembly text <-> machine code.
//  --mode asm:<lo>..<hi>   for every first word: Do() for several second words, of the word itself and of
//                          what the assembler (Parser) returns for its token list; the C binding's text/length
//  --mode cbuf             the C binding Teakra_Disasm_Do into a canary-framed buffer for EVERY buffer size
//                          0..len+2 (sampled words): which bytes were touched, where the NUL is, return value
//  --mode firm:<source>:<cdc.bin>   a hwtest firmware source next to the shipped binary: every instruction
//                          line with the shipped word(s) and what the disassembler prints for them
#include <fstream>
#include <sstream>
#include "vh.h"
#include "parser.h"
#include "teakra/disassembler.h"
#include "teakra/disassembler_c.h"

using namespace Teakra;

static std::string jstr(const std::string& s) {
    std::string o = "\"";
    for (char c : s) { if (c == '"' || c == '\\') o += '\\'; o += c; }
    return o + "\"";
}
static std::string jtokens(const std::vector<std::string>& t) {
    std::string o = "[";
    for (size_t i = 0; i < t.size(); ++i) { if (i) o += ','; o += jstr(t[i]); }
    return o + "]";
}

static std::vector<std::string> StringToTokens(const std::string& in) {   // as makedsp1 splits a line
    std::vector<std::string> out;
    bool need_new = true;
    for (char c : in) {
        if (c == ' ' || c == '\t') need_new = true;
        else { if (need_new) { need_new = false; out.push_back(""); } out.back() += c; }
    }
    return out;
}

int main(int argc, char** argv) {
    vh::Args a(argc, argv);
    vh::Out o;
    o.open(a.out.c_str());
    vh::install_fault_handlers(&o);
    vh::silence_stdout();
    vh::Rng rng(a.seed);
    auto parser = GenerateParser();

    if (a.mode.rfind("asm", 0) == 0) {
        unsigned lo = 0, hi = 65535;
        std::sscanf(a.mode.c_str(), "asm:%u..%u", &lo, &hi);
        for (unsigned w = lo; w <= hi; ++w) {
            const u16 es[4] = {0, 0xFFFF, 0x1234, rng.u16()};
            auto t0 = Disassembler::GetTokenList((u16)w, 0);
            bool err = false;
            for (auto& t : t0) if (t.find("[ERROR]") != std::string::npos) err = true;
            auto p = parser->Parse(t0);
            o.begin();
            o.str("e", "Asm"); o.num("w", w); o.num("err", err ? 1 : 0);
            o.raw("tok", jtokens(t0));
            o.num("pst", (int)p.status); o.num("pop", p.opcode);
            std::string ws = "[", ps = "[", cs = "[";
            for (int k = 0; k < 4; ++k) {
                if (k) { ws += ','; ps += ','; cs += ','; }
                // an annotated rendering (ar/arp view) asked in between must not influence any plain answer
                {
                    Disassembler::ArArpSettings view;
                    for (auto& v : view.ar) v = rng.u16();
                    for (auto& v : view.arp) v = rng.u16();
                    (void)Disassembler::GetTokenList((u16)w, es[k], view);
                    (void)Disassembler::Do((u16)w, es[k], view);
                }
                ws += "{\"x\":" + std::to_string(es[k]) + ",\"tok\":" + jtokens(Disassembler::GetTokenList((u16)w, es[k])) +
                      ",\"do\":" + jstr(Disassembler::Do((u16)w, es[k])) + "}";
                ps += jstr(p.status == Parser::Opcode::Invalid ? std::string() : Disassembler::Do(p.opcode, es[k]));
                char buf[512];
                std::memset(buf, 0x55, sizeof(buf));
                size_t n = Teakra_Disasm_Do(buf, sizeof(buf), (u16)w, es[k]);
                cs += "{\"ret\":" + std::to_string(n) + ",\"text\":" + jstr(std::string(buf)) + ",\"need\":" +
                      (Teakra_Disasm_NeedExpansion((u16)w) ? "1" : "0") + "}";
            }
            o.raw("ws", ws + "]"); o.raw("ps", ps + "]"); o.raw("cs", cs + "]");
            o.num("dexp", Disassembler::NeedExpansion((u16)w) ? 1 : 0);
            o.end();
        }
    } else if (a.mode == "cbuf") {
        const int M = 256;                         // margin on both sides of the caller's buffer
        for (long i = 0; i < a.n; ++i) {
            u16 w = rng.u16(), x = rng.u16();
            std::string text = Disassembler::Do(w, x);
            int len = (int)text.size();
            for (int dstlen = 0; dstlen <= len + 2; ++dstlen) {
                std::vector<unsigned char> area(2 * M + len + 8, 0xA5);
                char* dst = (char*)area.data() + M;
                size_t ret = Teakra_Disasm_Do(dst, (size_t)dstlen, w, x);
                int lo = 1 << 20, hi = -(1 << 20), nul = -1;
                for (int k = 0; k < (int)area.size(); ++k)
                    if (area[k] != 0xA5) { int off = k - M; if (off < lo) lo = off; if (off > hi) hi = off; }
                for (int k = 0; k < dstlen; ++k) if (dst[k] == 0) { nul = k; break; }
                std::string got;
                for (int k = 0; k < dstlen && dst[k] != 0 && (unsigned char)dst[k] != 0xA5; ++k) got += dst[k];
                o.begin();
                o.str("e", "CBuf"); o.num("w", w); o.num("x", x); o.num("dstlen", dstlen); o.num("len", len);
                o.num("ret", (long long)ret);
                o.num("touched", lo <= hi ? 1 : 0); o.num("lo", lo <= hi ? lo : 0); o.num("hi", lo <= hi ? hi : 0);
                o.num("nul", nul);
                o.raw("got", jstr(got)); o.raw("text", jstr(text));
                o.end();
            }
        }
    } else if (a.mode.rfind("firm:", 0) == 0) {
        std::string rest = a.mode.substr(5);
        std::string src = rest.substr(0, rest.find(':')), bin = rest.substr(rest.find(':') + 1);
        std::ifstream bf(bin, std::ios::binary);
        std::vector<unsigned char> raw((std::istreambuf_iterator<char>(bf)), std::istreambuf_iterator<char>());
        auto rd32 = [&](size_t off) { return (u32)raw[off] | ((u32)raw[off + 1] << 8) | ((u32)raw[off + 2] << 16) | ((u32)raw[off + 3] << 24); };
        unsigned nseg = raw.size() > 0x110 ? raw[0x10E] : 0;
        std::ifstream in(src);
        std::string line;
        int line_number = 0, seg = -1;
        size_t pos = 0, seg_end = 0;
        o.begin(); o.str("e", "FirmHead"); o.num("nseg", nseg); o.num("size", (long long)raw.size()); o.end();
        while (std::getline(in, line)) {
            ++line_number;
            auto c = line.find("//");
            if (c != std::string::npos) line.erase(c);
            auto ep = line.find("$");
            bool has_exp = ep != std::string::npos;
            int xv = -1;
            if (has_exp) {
                xv = (int)std::stoi(line.substr(ep + 1, 4), 0, 16);
                line = line.substr(0, ep) + "0000" + line.substr(ep + 5);
            }
            auto tokens = StringToTokens(line);
            if (tokens.empty()) continue;
            if (tokens[0] == "segment") {
                ++seg;
                pos = rd32(0x120 + seg * 0x30);
                seg_end = pos + rd32(0x120 + seg * 0x30 + 8);
                o.begin(); o.str("e", "FirmSeg"); o.num("line", line_number); o.num("seg", seg);
                o.num("target", std::stoi(tokens[2], 0, 16)); o.num("shiptarget", rd32(0x120 + seg * 0x30 + 4));
                o.num("type", tokens[1] == "p" ? 0 : 2); o.num("shiptype", raw[0x120 + seg * 0x30 + 15]);
                o.end();
                continue;
            }
            auto word = [&]() { int v = pos + 1 < seg_end + 0 && pos + 1 < raw.size() ? (raw[pos] | (raw[pos + 1] << 8)) : -1; pos += 2; return v; };
            if (tokens[0] == "data") {
                int ship = word();
                o.begin(); o.str("e", "FirmData"); o.num("line", line_number); o.num("v", std::stoi(tokens[1], 0, 16)); o.num("ship", ship); o.end();
                continue;
            }
            int ship = word();
            bool need = ship >= 0 && Disassembler::NeedExpansion((u16)ship);
            int shipx = need ? word() : -1;
            auto p = parser->Parse(tokens);
            o.begin(); o.str("e", "FirmIns"); o.num("line", line_number);
            o.raw("src", jtokens(tokens)); o.num("x", xv);
            o.num("pst", (int)p.status); o.num("pop", p.opcode);
            o.num("ship", ship); o.num("shipx", shipx);
            o.raw("dis", jtokens(ship >= 0 ? Disassembler::GetTokenList((u16)ship, 0) : std::vector<std::string>()));
            o.end();
        }
        o.begin(); o.str("e", "FirmEnd"); o.num("segs", seg + 1); o.num("left", (long long)(seg_end - pos)); o.end();
    }
    o.close();
    return 0;
}
