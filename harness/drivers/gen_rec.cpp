// Extra vectors from the project's own hardware-test generator (src/test_generator.cpp), for the configurations whose
// vectors depend on a narrow random placement: instructions that pin r7 inside the Y window (r7-relative operands) and
// instructions whose second word is an address inside the X window.  GenerateTestCasesToFile draws 4 states per opcode;
// a slip in a margin shows only when a draw lands on the edge (about 1 in 500), so this driver asks the very same
// generator objects for --n states per such opcode and writes them in the project's TestCase file format.  The file is
// then loaded by isa_rec (genfile mode) exactly like a GenerateTestCasesToFile output and validated by TLC (IsaTrace,
// generator clause).  Nothing here judges a vector.
//   gen_rec --n <states per opcode> --out <cases.bin>
#include <cstdio>
#include "vh.h"
#include "test_generator.cpp"   // the generator's Config / TestGenerator live in an anonymous namespace of this file

int main(int argc, char** argv) {
    vh::Args a(argc, argv);
    std::FILE* f = std::fopen(a.out.c_str(), "wb");
    if (!f) { std::perror(a.out.c_str()); return 2; }
    using namespace Teakra;
    using namespace Teakra::Test;
    TestGenerator generator;
    long written = 0;
    for (u32 i = 0; i < 0x10000; ++i) {
        u16 opcode = (u16)i;
        Config config = Decode<TestGenerator>(opcode).call(generator, opcode, 0);
        if (!config.enable) continue;
        if (!config.lock_r7 && config.expand != ExpandConfig::Memory) continue;
        for (long j = 0; j < a.n; ++j) {
            TestCase tc{};
            tc.before = config.GenerateRandomState();
            tc.opcode = opcode;
            switch (config.expand) {
            case ExpandConfig::None: tc.expand = 0; break;
            case ExpandConfig::Any: tc.expand = Random::bit16(); break;
            case ExpandConfig::Memory: tc.expand = TestSpaceX + (u16)Random::uniform(10, TestSpaceSize - 10); break;
            }
            if (std::fwrite(&tc, sizeof(tc), 1, f) != 1) return 3;
            ++written;
        }
    }
    std::fclose(f);
    std::fprintf(stderr, "gen_rec: %ld vectors\n", written);
    return 0;
}
