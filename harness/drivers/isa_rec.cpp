// Instruction-level conformance recorder (C01, C02 execution clause, C03, C04, C08, C10, C20 ...).
// Each record is ONE real Interpreter::Run(1) from a fully specified machine state:
//   op / x      first and second program word placed at pc / pc+1
//   pre         the complete register state before (int[NREG], layout: reglayout.h / TeakRegLayout.tla)
//   lat         interrupt latches before: [pending0, pending1, pending2, vpending, vaddr_hi, vaddr_lo, vctx]
//   chg         every packed register index whose value differs afterwards, with the new value
//               (computed over the WHOLE state, so "nothing else changed" is part of the observation)
//   acc         the ordered list of every memory access made: [word_address, is_write, value]
//               (word_address = raw byte address / 2; MMIO window accesses are [0x1000000 + offset, w, v])
//   out         ok | unimpl (UnimplementedException) | assert (deliberate ASSERT/UNREACHABLE) | oob
//   idle        the interpreter's idle flag afterwards
// Modes (what opcodes/states are enumerated):
//   all:<lo>..<hi>:<k>   every first word in the range, k random states each
//   gen:<lo>..<hi>:<k>   same, but states shaped like the project's test generator (address registers
//                        pinned into the two compared memory windows) -- C01 generator clause
#include <algorithm>
#include <map>
#include "vh.h"
#include "reglayout.h"
#include "randstate.h"
#include "recvisitor.h"
#include <set>
#include <sstream>
#include "interpreter.h"
#include "shared_memory.h"
#include "ahbm.h"
#include "apbp.h"
#include "btdmp.h"
#include "dma.h"
#include "icu.h"
#include "timer.h"
#include "test.h"
#include "test_generator.h"
#include "mmio.cpp" // for MMIORegion::Impl / Cell (this TU replaces the library's mmio.o)

using namespace Teakra;
using vlayout::NREG;

struct AccessLog : VerifMemObserver {
    u8* raw = nullptr;
    std::vector<std::array<int, 3>> acc;
    bool oob = false;
    bool OnAccess(u32 byte_address, bool is_write, u16 value) override {
        if (byte_address + 1 >= 0x80000) {
            oob = true;
            acc.push_back({(int)(byte_address >> 1 > 0x7FFFFFF ? 0x7FFFFFF : byte_address >> 1), is_write ? 1 : 0, is_write ? value : 0});
            return false; // not performed
        }
        int v = is_write ? value : (raw[byte_address] | (raw[byte_address + 1] << 8));
        acc.push_back({(int)(byte_address >> 1), is_write ? 1 : 0, v});
        return true;
    }
};

struct Machine {
    CoreTiming ct;
    std::vector<u8> membuf = std::vector<u8>(0x80000);
    SharedMemory sm{membuf.data()};
    MemoryInterfaceUnit miu;
    ICU icu;
    Apbp apbp_from_cpu, apbp_from_dsp;
    CoreTiming ct2; // peripherals hang off a timing object the interpreter does not tick
    std::array<Timer, 2> timer{{{ct2}, {ct2}}};
    Ahbm ahbm;
    Dma dma{sm, ahbm};
    std::array<Btdmp, 2> btdmp{{{ct2}, {ct2}}};
    MMIORegion mmio{miu, icu, apbp_from_cpu, apbp_from_dsp, timer, dma, ahbm, btdmp};
    MemoryInterface mi{sm, miu};
    RegisterState regs;
    Interpreter interp{ct, regs, mi};
    AccessLog log;
    std::array<u16, 0x800> mmio_store{};

    Machine() {
        mi.SetMMIO(mmio);
        log.raw = membuf.data();
        // every MMIO cell becomes plain logged storage: the interpreter's view of the window is what
        // is under test here, the peripherals behind it are not
        auto& cells = TeakraVerifAccess::cells(*TeakraVerifAccess::impl(mmio));
        for (unsigned i = 0; i < 0x800; ++i) {
            cells[i].set = [this, i](u16 v) { mmio_store[i] = v; log.acc.push_back({(int)(0x1000000 + i), 1, v}); };
            cells[i].get = [this, i]() -> u16 { log.acc.push_back({(int)(0x1000000 + i), 0, mmio_store[i]}); return mmio_store[i]; };
        }
    }
};

// memory pattern: a deterministic function of the address, boundary values over-represented so that
// memory operands hit 0, +-1, the sign boundary and the extremes often
static u16 hash16(u32 a, u64 seed) {
    u64 z = (a + 1) * 0x9E3779B97F4A7C15ull ^ seed;
    z = (z ^ (z >> 29)) * 0xBF58476D1CE4E5B9ull;
    z ^= z >> 32;
    static const u16 e[] = {0, 1, 2, 0x7FFF, 0x8000, 0x8001, 0xFFFF, 0xFFFE, 0x00FF, 0x0100, 0x4000, 0xC000};
    unsigned sel = (unsigned)(z >> 40) % 20;
    if (sel < 12) return e[sel];
    return (u16)(z >> 8);
}

using vstate::random_state;

// the shape Config::GenerateRandomState (test_generator.cpp) gives address registers: pinned into the
// X window (r0..r3) / Y window (r4..r7), offset 10..0x1F0, modulo off, page locked
static void generator_shape(vh::Rng& rng, int* s) {
    using namespace vlayout;
    for (int i = 0; i < 8; ++i) {
        u16 base = i < 4 ? 0x9000 : 0xD000; // overwritten below with the real constants
        (void)base;
    }
}

int main(int argc, char** argv) {
    vh::Args a(argc, argv);
    vh::Out o;
    o.open(a.out.c_str());
    vh::install_fault_handlers(&o);
    vh::silence_stdout();
    vh::Rng rng(a.seed);

    // --mode all:<lo>..<hi>:<k>  |  exp:<lo>..<hi>:<k>  |  wild:<lo>..<hi>:<k>  |  fam:<name;name/Operands;...>:<k>[:<part>/<parts>]  (handler names of decoder.h)
    char kind[16] = "all";
    unsigned lo = 0, hi = 65535, k = 1;
    std::vector<unsigned> words;
    if (a.mode.rfind("fam:", 0) == 0) {
        std::strcpy(kind, "fam");
        std::string rest = a.mode.substr(4);
        std::string names = rest.substr(0, rest.find(':'));
        unsigned part = 0, parts = 1;
        std::sscanf(rest.substr(rest.find(':') + 1).c_str(), "%u:%u/%u", &k, &part, &parts);
        std::set<std::string> want;
        std::stringstream ss(names);
        // names are separated by ';' (a full key "name/Operand,Operand" contains commas); a list without ';' is split at ','
        const char sep = names.find(';') != std::string::npos ? ';' : ',';
        for (std::string n; std::getline(ss, n, sep);) want.insert(n);
        std::vector<unsigned> sel;
        std::set<std::string> hit;
        for (unsigned w = 0; w < 65536; ++w) {
            vrec::Rec rec;
            try { auto mm = Decode<vrec::Rec>((u16)w); mm.call(rec, (u16)w, 0); } catch (...) { continue; }
            std::string nm = rec.key.substr(0, rec.key.find('/'));
            if (want.count(nm) || want.count(rec.key)) { sel.push_back(w); hit.insert(want.count(nm) ? nm : rec.key); if (want.count(nm) && want.count(rec.key)) hit.insert(rec.key); }
        }
        // a name that selects nothing is a mistake in the caller's list, never silently an empty family
        for (auto& n : want) if (!n.empty() && !hit.count(n)) { std::fprintf(stderr, "isa_rec: family name selects no instruction: %s\n", n.c_str()); return 4; }
        for (size_t i = part; i < sel.size(); i += parts) words.push_back(sel[i]);
    } else {
        if (!a.mode.empty()) std::sscanf(a.mode.c_str(), "%15[^:]:%u..%u:%u", kind, &lo, &hi, &k);
        for (unsigned w = lo; w <= hi; ++w) words.push_back(w);
        if (std::strcmp(kind, "exp") == 0) {     // exp:<lo>..<hi>:<k>  only the first words that take a second word (C02)
            std::vector<unsigned> two;
            for (unsigned w : words) {
                bool need = false;
                try { need = Decode<vrec::Rec>((u16)w).NeedExpansion(); } catch (...) {}
                if (need) two.push_back(w);
            }
            words.swap(two);
        }
    }
    (void)generator_shape;

    if (a.mode.rfind("genmake:", 0) == 0) {     // the project's own hardware-test generator writes its vectors
        bool ok = Teakra::Test::GenerateTestCasesToFile(a.mode.substr(8).c_str());
        o.close();
        return ok ? 0 : 3;
    }
    Machine m;
    u64 memseed = a.seed * 7919 + 13;
    for (u32 w = 0; w < 0x40000; ++w) {
        u16 v = hash16(w, memseed);
        m.membuf[2 * w] = v & 0xFF;
        m.membuf[2 * w + 1] = v >> 8;
    }
    verif_mem_observer = &m.log;

    // C01 generator clause: --mode genfile:<path>:<part>/<parts>  real GenerateTestCasesToFile vectors, loaded
    // the way src/test_verifier/main.cpp loads them
    std::FILE* genf = nullptr;
    unsigned gpart = 0, gparts = 1;
    long gindex = 0;
    if (a.mode.rfind("genfile:", 0) == 0) {
        std::strcpy(kind, "gen");
        std::string rest = a.mode.substr(8);
        std::string path = rest.substr(0, rest.find(':'));
        std::sscanf(rest.substr(rest.find(':') + 1).c_str(), "%u/%u", &gpart, &gparts);
        genf = std::fopen(path.c_str(), "rb");
        if (!genf) { std::perror(path.c_str()); return 2; }
        words.clear();
        k = 1;
        TestCase tc;
        long idx = 0;
        while (std::fread(&tc, sizeof(tc), 1, genf) == 1) { if (idx % gparts == gpart) words.push_back((unsigned)idx); ++idx; }
    }
    std::vector<int> pre(NREG), post(NREG);
    Machine& m_long = m;
    long fresh_machines = 0;
    for (unsigned w : words) {
        for (unsigned rep = 0; rep < k; ++rep) {
            TestCase tc;
            bool gen = genf != nullptr;
            // the result of an instruction is a function of the machine state and nothing else: one record in twelve runs on a
            // machine constructed for it (an interpreter that has never executed anything), the others on the long-lived one
            // (whose interpreter has executed every earlier record) -- memo tables and lazily built state show up as a difference
            std::unique_ptr<Machine> freshm;
            if (!gen && rng.chance(1, 12)) {
                freshm = std::make_unique<Machine>();
                freshm->membuf = m_long.membuf;
                ++fresh_machines;
            }
            Machine& m = freshm ? *freshm : m_long;
            if (gen) {
                std::fseek(genf, (long)w * (long)sizeof(TestCase), SEEK_SET);
                if (std::fread(&tc, sizeof(tc), 1, genf) != 1) break;
                (void)gindex;
                RegisterState& regs = m.regs;
                regs.Reset();
                regs.a = tc.before.a; regs.b = tc.before.b; regs.p = tc.before.p; regs.r = tc.before.r;
                regs.x = tc.before.x; regs.y = tc.before.y;
                regs.stepi0 = tc.before.stepi0; regs.stepj0 = tc.before.stepj0; regs.mixp = tc.before.mixp;
                regs.sv = tc.before.sv; regs.repc = tc.before.repc; regs.Lc() = tc.before.lc;
                regs.Set<cfgi>(tc.before.cfgi); regs.Set<cfgj>(tc.before.cfgj);
                regs.Set<stt0>(tc.before.stt0); regs.Set<stt1>(tc.before.stt1); regs.Set<stt2>(tc.before.stt2);
                regs.Set<mod0>(tc.before.mod0); regs.Set<mod1>(tc.before.mod1); regs.Set<mod2>(tc.before.mod2);
                regs.Set<ar0>(tc.before.ar[0]); regs.Set<ar1>(tc.before.ar[1]);
                regs.Set<arp0>(tc.before.arp[0]); regs.Set<arp1>(tc.before.arp[1]);
                regs.Set<arp2>(tc.before.arp[2]); regs.Set<arp3>(tc.before.arp[3]);
                vlayout::pack_regs(regs, pre.data());
                verif_mem_observer = nullptr;
                for (u16 off = 0; off < TestSpaceSize; ++off) {
                    m.mi.DataWrite(TestSpaceX + off, tc.before.test_space_x[off]);
                    m.mi.DataWrite(TestSpaceY + off, tc.before.test_space_y[off]);
                }
            } else
            random_state(rng, pre.data());
            u16 x = rng.chance(1, 2) ? rng.edge16() : rng.u16();
            unsigned opw = w;
            if (gen) { x = tc.expand; opw = tc.opcode; }
            u32 pc = (u32)pre[vlayout::I_pc];
            // relative branches add a signed 7-bit offset to the 32-bit pc without masking: keep the
            // start address away from both ends of the 18-bit program space (well-formed states of C01;
            // the ends are the business of C18)
            bool wild = std::strcmp(kind, "wild") == 0;
            if (wild) {   // C18: the ends of the program space and non-zero program pages are reachable by a guest
                if (rng.chance(1, 4)) { static const u32 e[] = {0, 1, 2, 0x3F, 0x40, 0x3FFBF, 0x3FFC0, 0x3FFFD, 0x3FFFE, 0x3FFFF}; pc = pre[vlayout::I_pc] = e[rng.below(10)]; }
                if (rng.chance(1, 4)) pre[vlayout::I_prpage] = 1 + rng.below(15);
            } else if (!gen) {
            if (std::strcmp(kind, "exp") == 0 && rng.chance(1, 3)) {   // two-word instructions at and across the 64K bank boundaries
                static const u32 e[] = {0xFFFE, 0xFFFF, 0x10000, 0x1FFFE, 0x1FFFF, 0x20000, 0x2FFFE, 0x2FFFF, 0x30000, 0x3FEFE};
                pc = pre[vlayout::I_pc] = e[rng.below(10)];
            }
            if (pc < 0x80) pc = pre[vlayout::I_pc] = 0x80 + rng.below(64);
            if (pc > 0x3FF00) pc = pre[vlayout::I_pc] = 0x3FF00 - rng.below(64);
            }
            vlayout::unpack_regs(pre.data(), m.regs);
            // latches
            int lat[7];
            bool want_lat = !gen && rng.chance(1, 8);
            for (int i = 0; i < 3; ++i) { lat[i] = want_lat ? rng.below(2) : 0; TeakraVerifAccess::interrupt_pending(m.interp)[i] = lat[i] != 0; }
            lat[3] = want_lat ? rng.below(2) : 0;
            TeakraVerifAccess::vinterrupt_pending(m.interp) = lat[3] != 0;
            u32 vaddr = rng.below(0x40000);
            lat[4] = vaddr >> 16; lat[5] = vaddr & 0xFFFF; lat[6] = rng.below(2);
            TeakraVerifAccess::vinterrupt_address(m.interp) = vaddr;
            TeakraVerifAccess::vinterrupt_context_switch(m.interp) = lat[6] != 0;
            m.miu.Reset();
            // place the instruction (not logged: observer off)
            verif_mem_observer = nullptr;
            u32 fa = pc | ((u32)pre[vlayout::I_prpage] << 18);   // where the interpreter will fetch from
            u16 old0 = 0, old1 = 0;
            if (fa < 0x40000) m.sm.WriteWord(fa, (u16)opw);
            if (fa + 1 < 0x40000) m.sm.WriteWord(fa + 1, x);
            m.log.acc.clear(); m.log.oob = false;
            verif_mem_observer = &m.log;

            const char* out = "ok";
            try {
                m.interp.Run(1);
            } catch (const UnimplementedException&) {
                out = "unimpl";
            } catch (const TeakraVerifAssert&) {
                out = "assert";
            }
            if (m.log.oob) out = "oob";
            verif_mem_observer = nullptr;
            vlayout::pack_regs(m.regs, post.data());

            o.begin();
            o.str("e", "I");
            o.num("op", opw);
            if (gen) o.num("gen", 1);
            { vrec::Rec rk; try { auto mk = Decode<vrec::Rec>((u16)opw); mk.call(rk, (u16)opw, 0); } catch (...) { rk.key = "ambiguous/"; } o.str("key", rk.key.c_str()); }
            o.num("x", x);
            o.raw("pre", vh::arr(pre.begin(), pre.end()));
            o.raw("lat", vh::arr(lat, lat + 7));
            std::string chg = "[";
            bool first = true;
            for (int i = 0; i < NREG; ++i)
                if (post[i] != pre[i]) {
                    if (!first) chg += ',';
                    first = false;
                    chg += "[" + std::to_string(i + 1) + "," + std::to_string(post[i]) + "]";
                }
            o.raw("chg", chg + "]");
            std::string acc = "[";
            for (size_t i = 0; i < m.log.acc.size(); ++i) {
                if (i) acc += ',';
                acc += "[" + std::to_string(m.log.acc[i][0]) + "," + std::to_string(m.log.acc[i][1]) + "," + std::to_string(m.log.acc[i][2]) + "]";
            }
            o.raw("acc", acc + "]");
            o.str("out", out);
            o.num("idle", TeakraVerifAccess::idle(m.interp) ? 1 : 0);
            int lat2[4];
            for (int i = 0; i < 3; ++i) lat2[i] = TeakraVerifAccess::interrupt_pending(m.interp)[i] ? 1 : 0;
            lat2[3] = TeakraVerifAccess::vinterrupt_pending(m.interp) ? 1 : 0;
            o.raw("lat2", vh::arr(lat2, lat2 + 4));
            o.end();

            // undo memory effects so that records are independent of each other
            for (auto& e : m.log.acc)
                if (e[1] && e[0] < 0x40000) {
                    u16 v = hash16(e[0], memseed);
                    m.membuf[2 * e[0]] = v & 0xFF; m.membuf[2 * e[0] + 1] = v >> 8;
                }
            (void)old0; (void)old1;
            // restore any cell the instruction overwrote at pc / pc+1 to the pattern as well
            for (u32 q : {fa, fa + 1}) { if (q >= 0x40000) continue; u16 v = hash16(q, memseed); m.membuf[2 * q] = v & 0xFF; m.membuf[2 * q + 1] = v >> 8; }
            m.mmio_store.fill(0);
            verif_mem_observer = nullptr;      // the machine of this record may go away
        }
    }
    (void)fresh_machines;
    o.close();
    return 0;
}
