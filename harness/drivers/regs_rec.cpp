// C20 conformance recorder: the 19 status/configuration words as implemented by
// RegisterState::Set<T>/Get<T> (register.h).  Each line: a random complete register state, the word
// written, the value, every packed register index that changed, and what Get<> returns for all 19 words
// afterwards.  The state is packed without going through Get/Set (reglayout.h).
// Also ("Ann" lines): the annotated disassembler's reading of ar/arp words for one ar-based and one
// arp-based instruction.
#include "vh.h"
#include "randstate.h"
#include "teakra/disassembler.h"

using namespace Teakra;
using vlayout::NREG;

template <class F> static void for_words(F f) {
    f("cfgi", [](RegisterState& r, u16 v) { r.Set<cfgi>(v); }, [](const RegisterState& r) { return r.Get<cfgi>(); });
    f("cfgj", [](RegisterState& r, u16 v) { r.Set<cfgj>(v); }, [](const RegisterState& r) { return r.Get<cfgj>(); });
    f("stt0", [](RegisterState& r, u16 v) { r.Set<stt0>(v); }, [](const RegisterState& r) { return r.Get<stt0>(); });
    f("stt1", [](RegisterState& r, u16 v) { r.Set<stt1>(v); }, [](const RegisterState& r) { return r.Get<stt1>(); });
    f("stt2", [](RegisterState& r, u16 v) { r.Set<stt2>(v); }, [](const RegisterState& r) { return r.Get<stt2>(); });
    f("mod0", [](RegisterState& r, u16 v) { r.Set<mod0>(v); }, [](const RegisterState& r) { return r.Get<mod0>(); });
    f("mod1", [](RegisterState& r, u16 v) { r.Set<mod1>(v); }, [](const RegisterState& r) { return r.Get<mod1>(); });
    f("mod2", [](RegisterState& r, u16 v) { r.Set<mod2>(v); }, [](const RegisterState& r) { return r.Get<mod2>(); });
    f("mod3", [](RegisterState& r, u16 v) { r.Set<mod3>(v); }, [](const RegisterState& r) { return r.Get<mod3>(); });
    f("st0", [](RegisterState& r, u16 v) { r.Set<st0>(v); }, [](const RegisterState& r) { return r.Get<st0>(); });
    f("st1", [](RegisterState& r, u16 v) { r.Set<st1>(v); }, [](const RegisterState& r) { return r.Get<st1>(); });
    f("st2", [](RegisterState& r, u16 v) { r.Set<st2>(v); }, [](const RegisterState& r) { return r.Get<st2>(); });
    f("icr", [](RegisterState& r, u16 v) { r.Set<icr>(v); }, [](const RegisterState& r) { return r.Get<icr>(); });
    f("ar0", [](RegisterState& r, u16 v) { r.Set<ar0>(v); }, [](const RegisterState& r) { return r.Get<ar0>(); });
    f("ar1", [](RegisterState& r, u16 v) { r.Set<ar1>(v); }, [](const RegisterState& r) { return r.Get<ar1>(); });
    f("arp0", [](RegisterState& r, u16 v) { r.Set<arp0>(v); }, [](const RegisterState& r) { return r.Get<arp0>(); });
    f("arp1", [](RegisterState& r, u16 v) { r.Set<arp1>(v); }, [](const RegisterState& r) { return r.Get<arp1>(); });
    f("arp2", [](RegisterState& r, u16 v) { r.Set<arp2>(v); }, [](const RegisterState& r) { return r.Get<arp2>(); });
    f("arp3", [](RegisterState& r, u16 v) { r.Set<arp3>(v); }, [](const RegisterState& r) { return r.Get<arp3>(); });
}

int main(int argc, char** argv) {
    vh::Args a(argc, argv);
    vh::Out o;
    o.open(a.out.c_str());
    vh::install_fault_handlers(&o);
    vh::silence_stdout();
    vh::Rng rng(a.seed);
    std::vector<int> pre(NREG), post(NREG);
    long emitted = 0;
    if (a.mode == "states") {   // just random well-formed complete register states (sample space of RoundTrip.tla)
        for (; emitted < a.n; ++emitted) {
            vstate::random_state(rng, pre.data());
            o.begin(); o.str("e", "St"); o.raw("pre", vh::arr(pre.begin(), pre.end())); o.end();
        }
        o.close();
        return 0;
    }
    while (emitted < a.n) {
        int which = rng.below(19), idx = 0;
        for_words([&](const char* name, auto set, auto get) {
            if (idx++ != which) return;
            vstate::random_state(rng, pre.data());
            RegisterState r;
            vlayout::unpack_regs(pre.data(), r);
            u16 v = rng.chance(1, 3) ? (u16)(1u << rng.below(16)) : (rng.chance(1, 2) ? rng.edge16() : rng.u16());
            set(r, v);
            vlayout::pack_regs(r, post.data());
            o.begin();
            o.str("e", "Set"); o.str("w", name); o.num("v", v);
            o.raw("pre", vh::arr(pre.begin(), pre.end()));
            std::string chg = "[";
            bool first = true;
            for (int i = 0; i < NREG; ++i)
                if (post[i] != pre[i]) { if (!first) chg += ','; first = false; chg += "[" + std::to_string(i + 1) + "," + std::to_string(post[i]) + "]"; }
            o.raw("chg", chg + "]");
            std::string gets = "{";
            bool f2 = true;
            for_words([&](const char* n2, auto, auto get2) {
                if (!f2) gets += ',';
                f2 = false;
                gets += std::string("\"") + n2 + "\":" + std::to_string(get2(r));
            });
            o.raw("get", gets + "}");
            o.end();
            ++emitted;
        });
        if (rng.chance(1, 8)) {
            // annotated disassembly of an ar-based and an arp-based instruction
            Disassembler::ArArpSettings st;
            for (auto& x : st.ar) x = rng.u16();
            for (auto& x : st.arp) x = rng.u16();
            // mov_repc_to ArRn1@1 ArStep1@0 : 0xD7D0 | rn<<1 | step ;  modr_eemod ArpRn2@10 ArpStep2@0 ArpStep2@5 : 0xD294
            unsigned rn = rng.below(2), stp = rng.below(2);
            u16 op1 = 0xD7D0 | (rn << 1) | stp;
            unsigned prn = rng.below(4), si = rng.below(4), sj = rng.below(4);
            u16 op2 = 0xD294 | (prn << 10) | si | (sj << 5);
            auto t1 = Disassembler::GetTokenList(op1, 0, st);
            auto t2 = Disassembler::GetTokenList(op2, 0, st);
            o.begin();
            o.str("e", "Ann");
            o.raw("ar", vh::arr(st.ar.begin(), st.ar.end()));
            o.raw("arp", vh::arr(st.arp.begin(), st.arp.end()));
            o.num("rn", rn); o.num("stp", stp); o.num("prn", prn); o.num("si", si); o.num("sj", sj);
            auto js = [](const std::vector<std::string>& t) { std::string s = "["; for (size_t i = 0; i < t.size(); ++i) { if (i) s += ','; s += '"' + t[i] + '"'; } return s + "]"; };
            o.raw("t1", js(t1)); o.raw("t2", js(t2));
            o.end();
            ++emitted;
        }
    }
    o.close();
    return 0;
}
