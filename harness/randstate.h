// Random well-formed machine states (all register fields within their hardware widths, machine
// invariants lp = (bcn # 0), prpage = 0), boundary values over-represented.  Shared by the recorders.
#pragma once
#include "vh.h"
#include "reglayout.h"

namespace vstate {
using vlayout::NREG;
inline void random_state(vh::Rng& rng, int* s) {
    for (int i = 0; i < NREG; ++i) {
        int w = vlayout::WIDTH[i];
        if (w == 0) { s[i] = 0; continue; }
        u32 mask = (w >= 31) ? 0x7FFFFFFF : ((1u << w) - 1);
        u32 v;
        unsigned c = rng.below(10);
        if (w == 1) v = rng.below(2);
        else if (c < 2) v = 0;
        else if (c < 3) v = mask;
        else if (c < 4) v = 1;
        else if (c < 5) v = (mask >> 1) + rng.below(2);      // around the sign boundary
        else if (c < 6) v = mask - rng.below(3);
        else if (c < 7) v = rng.below(4);
        else v = (u32)rng.next();
        s[i] = (int)(v & mask);
    }
    using namespace vlayout;
    // machine invariants of a well-formed state
    s[I_prpage] = 0;
    s[I_mod0c] = 1;
    if (rng.chance(3, 4)) { s[I_lp] = 0; s[I_bcn] = 0; }
    else { s[I_lp] = 1; s[I_bcn] = 1 + rng.below(4); }
    if (rng.chance(3, 4)) s[I_rep] = 0;
    // address registers are often placed on the landmarks of their modulo block (block start, +1, mod-1, mod, the word after):
    // there modulo stepping wraps and linear stepping does not, so the two are told apart
    for (int i = 0; i < 8; ++i) {
        if (!rng.chance(1, 2)) continue;
        unsigned m = (unsigned)s[i < 4 ? I_modi : I_modj], bits = 0;
        for (unsigned t = m; t; t >>= 1) ++bits;
        unsigned mask = (1u << bits) - 1, pos;
        switch (rng.below(5)) { case 0: pos = 0; break; case 1: pos = 1; break; case 2: pos = m - 1; break; case 3: pos = m; break; default: pos = m + 1; }
        s[I_r + i] = (int)((((unsigned)s[I_r + i] & ~mask) | (pos & mask)) & 0xFFFF);
    }
    // accumulators: sometimes plain 16/32-bit sign-extended shapes (as the project's generator does)
    static const u64 acc_edges[] = {
        0, 1, 0xFFFFFFFFFFull /* -1 */, 0x7FFF, 0x8000, 0xFFFF, 0x10000, 0x7FFFFFFF, 0x80000000ull, 0x80000001ull,
        0xFFFFFFFFull, 0x100000000ull, 0x7FFFFFFFFFull, 0x8000000000ull, 0x8000000001ull, 0xFF80000000ull /* -2^31 */,
        0xFF7FFFFFFFull /* -2^31-1 */, 0xFFFFFF8000ull, 0x3FFFFFFF, 0x40000000, 0xFFC0000000ull, 0xFFBFFFFFFFull, 0x7FFFFFFFFEull,
        0xFFFFFF0000ull, 0x00FFFF0000ull, 0x00007F8000ull};
    for (int base : {I_a0, I_a1, I_b0, I_b1, I_a1s, I_b1s}) {
        if (rng.chance(2, 5)) {
            u64 v = acc_edges[rng.below(sizeof(acc_edges) / sizeof(acc_edges[0]))];
            s[base] = v & 0xFFFF; s[base + 1] = (v >> 16) & 0xFFFF; s[base + 2] = (v >> 32) & 0xFF; s[base + 3] = 0;
            continue;
        }
        unsigned c = rng.below(6);
        if (c == 0) { s[base + 1] = (s[base] & 0x8000) ? 0xFFFF : 0; s[base + 2] = (s[base] & 0x8000) ? 0xFF : 0; }
        else if (c == 1) { s[base + 2] = (s[base + 1] & 0x8000) ? 0xFF : 0; }
        else if (c == 2) { s[base + 1] = 0; s[base + 2] = 0; }
        else if (c == 3) { s[base + 2] = 0; }
        s[base + 3] = 0;
    }
}

} // namespace vstate
