"""Common machinery for the /verif checks: build the code under test from /repo's working tree,
run conformance drivers, run TLC (model checking and trace validation, in parallel), aggregate,
write evidence, report VIOLATION / KNOWN-FINDING lines and exit codes.

Exit codes of a check: 0 property held on everything explored; 1 violation (with a VIOLATION line);
2 infrastructure failure (build failed, TLC crashed, vacuous model) -- never a VIOLATION line.
"""
import concurrent.futures as cf
import fcntl
import json
import os
import re
import shutil
import subprocess
import sys
import time

# root of this verification tree: /verif normally, a snapshot directory under `vp run`
VERIF = os.path.dirname(os.path.dirname(os.path.abspath(__file__)))
# VERIF_REPO / VERIF_BUILD: development-time override used for mutation experiments in a scratch
# worktree (never by a registered command: those always build from /repo's working tree)
REPO = os.environ.get('VERIF_REPO') or '/repo'
BUILD = os.environ.get('VERIF_BUILD') or os.path.join(VERIF, 'build')
SPEC = os.path.join(VERIF, 'spec')
JAR = '/opt/veriftools/tla/tla2tools.jar:/opt/veriftools/tla/CommunityModules-deps.jar'
NCPU = os.cpu_count() or 4


class Infra(Exception):
    pass


def sh(cmd, timeout=None, env=None, cwd=None, check=False):
    e = dict(os.environ)
    if env:
        e.update(env)
    p = subprocess.run(cmd, shell=isinstance(cmd, str), stdout=subprocess.PIPE,
                       stderr=subprocess.STDOUT, timeout=timeout, env=e, cwd=cwd, text=True,
                       errors='replace')
    if check and p.returncode != 0:
        raise Infra('command failed (%d): %s\n%s' % (p.returncode, cmd, p.stdout[-3000:]))
    return p


class TlcResult:
    def __init__(self, label, rc, out, wall):
        self.label, self.rc, self.out, self.wall = label, rc, out, wall
        m = re.findall(r'(\d+) states generated, (\d+) distinct states found', out)
        self.generated = int(m[-1][0]) if m else 0
        self.distinct = int(m[-1][1]) if m else 0
        m = re.search(r'depth of the complete state graph search is (\d+)', out)
        self.depth = int(m.group(1)) if m else 0
        m = re.search(r'Error: Invariant (\S+) is violated', out)
        self.violated = m.group(1) if m else None
        if not self.violated:
            m = re.search(r'Error: Action property (\S+) is violated|Temporal properties were violated', out)
            if m:
                self.violated = m.group(1) or 'temporal'
        if not self.violated and 'Assumption' in out and 'is false' in out:
            self.violated = 'ASSUME'
        if not self.violated and 'Deadlock reached' in out:
            self.violated = 'deadlock'
        m = re.search(r'"TRACE_MATCHED", (\d+), (\d+)', out)
        self.matched = (int(m.group(1)), int(m.group(2))) if m else None
        self.completed = 'Model checking completed' in out or 'Finished in' in out
        self.crashed = ('TLC threw an unexpected exception' in out or 'Parsing or semantic analysis failed' in out
                        or 'Error: TLC' in out or 'java.lang.' in out and 'Exception' in out and not self.violated)
        # coverage: actions never taken
        # (TLC prints coverage periodically: only the LAST report counts, earlier ones may precede the first step)
        last = out.rfind('The coverage statistics at')
        self.untaken = re.findall(r'<(\w+) line \d+, col \d+ to line \d+, col \d+ of module \w+>: 0:0', out[last:] if last >= 0 else out)


def run_tlc(module, cfg, label, workers=1, timeout=900, env=None, extra=None, xmx=None, deque=False,
            coverage=False, jvm=None):
    """Run TLC on SPEC/<module>.tla with SPEC/<cfg>; returns TlcResult."""
    meta = os.path.join(BUILD, 'tlc', label)
    shutil.rmtree(meta, ignore_errors=True)
    os.makedirs(meta, exist_ok=True)
    # one-worker runs (trace validation, many JVMs side by side) use the serial collector: with the
    # parallel collector 16 JVMs x 16 GC threads thrash
    cmd = ['java', '-XX:+UseSerialGC', '-XX:TieredStopAtLevel=4'] if workers == 1 else ['java', '-XX:+UseParallelGC', '-XX:ParallelGCThreads=4']
    if xmx:
        cmd.append('-Xmx' + xmx)
    if jvm:
        cmd += list(jvm)
    if deque:
        cmd.append('-Dtlc2.tool.queue.IStateQueue=StateDeque')
    cmd.append('-Djava.io.tmpdir=' + meta)        # TLC's scratch directories stay inside the build tree, not in /tmp
    cmd += ['-cp', JAR, 'tlc2.TLC', '-workers', str(workers), '-metadir', meta, '-noGenerateSpecTE',
            '-config', cfg]
    if coverage:
        cmd += ['-coverage', '1']
    if extra:
        cmd += extra
    cmd.append(module + '.tla')
    t0 = time.time()
    try:
        p = sh(cmd, timeout=timeout, env=env, cwd=SPEC)
        rc, out = p.returncode, p.stdout
    except subprocess.TimeoutExpired as ex:
        rc, out = 124, (ex.stdout or '') + '\nTIMEOUT'
        if isinstance(out, bytes):
            out = out.decode(errors='replace')
    res = TlcResult(label, rc, out, time.time() - t0)
    with open(os.path.join(meta, 'tlc.out'), 'w') as f:
        f.write(out)
    shutil.rmtree(os.path.join(meta, 'states'), ignore_errors=True)
    for d in os.listdir(meta):
        pth = os.path.join(meta, d)
        if os.path.isdir(pth):
            shutil.rmtree(pth, ignore_errors=True)
    return res


class Check:
    def __init__(self, prop, tier='quick', seed=1):
        self.prop, self.tier, self.seed = prop, tier, int(seed)
        self.t0 = time.time()
        self.states = 0
        self.transitions = 0
        self.traces = 0
        self.trace_lines = 0
        self.samples = []
        self.violations = []   # (signature, replay_path, message)
        self.details = {'mc_runs': [], 'trace_runs': [], 'replay_runs': []}
        self.assumptions = []
        self.extra_cov = {}
        self.tag = '%s_%d' % (prop, os.getpid())   # concurrent runs of the same check must not collide
        self.work = os.path.join(BUILD, 'run', self.tag)
        shutil.rmtree(self.work, ignore_errors=True)
        os.makedirs(self.work, exist_ok=True)
        self.replay_dir = os.path.join(BUILD, 'replay', prop)
        os.makedirs(self.replay_dir, exist_ok=True)
        kf = os.path.join(VERIF, 'known_findings.json')
        self.known = json.load(open(kf)) if os.path.exists(kf) else []
        self.known_hit = []

    @property
    def thorough(self):
        return self.tier == 'thorough'

    def pick(self, quick, thorough):
        return thorough if self.thorough else quick

    # ---------------------------------------------------------------- build
    def build(self, *targets, flavour='plain'):
        os.makedirs(BUILD, exist_ok=True)
        with open(os.path.join(BUILD, '.lock.' + flavour), 'w') as lk:
            fcntl.flock(lk, fcntl.LOCK_EX)
            tg = ' '.join('%s/%s/bin/%s' % (BUILD, flavour, t) for t in targets)
            p = sh('make -s -j%d -C %s/harness FLAVOUR=%s REPO=%s BUILDROOT=%s %s' % (NCPU, VERIF, flavour, REPO, BUILD, tg),
                   timeout=1500)
            if p.returncode != 0:
                raise Infra('build failed:\n' + p.stdout[-4000:])
        return [os.path.join(BUILD, flavour, 'bin', t) for t in targets]

    def bin(self, name, flavour='plain'):
        return os.path.join(BUILD, flavour, 'bin', name)

    def run_jobs(self, cmds, timeout=600, par=NCPU, env=None):
        """Run shell commands in parallel; each must exit 0 (drivers report through their files)."""
        def one(c):
            try:
                return sh(c, timeout=timeout, env=env)
            except subprocess.TimeoutExpired:
                raise Infra('driver timed out: %s' % c)
        with cf.ThreadPoolExecutor(par) as ex:
            res = list(ex.map(one, cmds))
        for c, p in zip(cmds, res):
            if p.returncode != 0:
                raise Infra('driver failed (%d): %s\n%s' % (p.returncode, c, p.stdout[-2000:]))
        return res

    # ---------------------------------------------------------------- model checking
    def mc(self, module, cfg, label=None, workers=None, timeout=1200, must_hold=True, xmx=None,
           coverage=None, env=None, extra=None, jvm=None):
        label = '%s_%s' % (self.tag, label or cfg.replace('.cfg', ''))
        workers = workers or NCPU
        coverage = self.thorough if coverage is None else coverage
        r = run_tlc(module, cfg, label, workers=workers, timeout=timeout, xmx=xmx, coverage=coverage,
                    env=env, extra=extra, jvm=jvm)
        self.details['mc_runs'].append({'module': module, 'cfg': cfg, 'states_generated': r.generated,
                                        'distinct_states': r.distinct, 'depth': r.depth,
                                        'wall_s': round(r.wall, 1), 'violated': r.violated,
                                        'untaken_actions': r.untaken})
        self.states += r.distinct
        self.transitions += r.generated
        if r.violated:
            if must_hold:
                keep = os.path.join(self.replay_dir, label + '.tlc.out')
                with open(keep, 'w') as f:
                    f.write(r.out)
                self.violation('model:%s:%s' % (cfg, r.violated), keep,
                               'TLC: %s violated in %s/%s (counterexample in the file)' % (r.violated, module, cfg))
        elif r.rc != 0 or r.crashed or not r.completed:
            raise Infra('TLC failed on %s/%s (rc=%d):\n%s' % (module, cfg, r.rc, r.out[-3000:]))
        elif r.untaken and coverage:
            raise Infra('vacuous model %s/%s: actions never taken: %s' % (module, cfg, r.untaken))
        return r

    # ---------------------------------------------------------------- symbolic model checking (Apalache)
    def apalache(self, module, cfg, inv, length=0, timeout=1800, must_hold=True):
        """Check invariant `inv` of SPEC/<module>.tla with Apalache (SMT) up to computation length `length`
        (0: the invariant on every initial state, i.e. a universally quantified lemma over the symbolic state)."""
        out = os.path.join(self.work, 'apalache_%s_%s' % (module, inv))
        shutil.rmtree(out, ignore_errors=True)
        t0 = time.time()
        try:
            os.makedirs(out, exist_ok=True)     # the JVM's scratch files (SANY copies of the standard modules) stay in the build tree
            p = sh(['apalache-mc', 'check', '--config=%s' % cfg, '--length=%d' % length, '--inv=%s' % inv,
                    '--out-dir=%s' % out, '--run-dir=%s' % os.path.join(out, 'run'), module + '.tla'], timeout=timeout, cwd=SPEC,
                   env={'TMPDIR': out})                  # the launcher makes its SANY scratch directory with mktemp -t
        except subprocess.TimeoutExpired:
            raise Infra('Apalache timed out on %s/%s' % (module, inv))
        wall = time.time() - t0
        text = p.stdout
        ok = 'The outcome is: NoError' in text
        bad = 'The outcome is: Error' in text and 'violated' in text
        self.details.setdefault('apalache_runs', []).append({'module': module, 'cfg': cfg, 'invariant': inv, 'length': length,
                                                             'outcome': 'NoError' if ok else 'Error' if bad else 'failed',
                                                             'wall_s': round(wall, 1)})
        if bad:
            if must_hold:
                keep = os.path.join(self.replay_dir, 'apalache_%s_%s.out' % (module, inv))
                with open(keep, 'w') as f:
                    f.write(text)
                self.violation('model:%s:%s' % (module, inv), keep, 'Apalache: %s violated in %s (counterexample named in the file)' % (inv, module))
        elif not ok:
            raise Infra('Apalache failed on %s/%s (rc=%d):\n%s' % (module, inv, p.returncode, text[-3000:]))
        return ok

    # ---------------------------------------------------------------- trace validation
    def validate_traces(self, module, cfg, files, timeout=900, par=NCPU, deque=False, env=None,
                        sig_prefix='trace', jvm=None):
        """Validate ndjson traces (impl -> spec).  One TLC process per file, `par` at a time.
        A rejected trace is re-run once; only a repeated rejection counts."""
        def one(f):
            label = '%s_tr_%s' % (self.tag, os.path.basename(f).replace('.ndjson', ''))
            e = {'TRACE': f}
            if env:
                e.update(env)
            return f, run_tlc(module, cfg, label, workers=1, timeout=timeout, env=e, deque=deque, jvm=jvm)
        with cf.ThreadPoolExecutor(par) as ex:
            results = list(ex.map(one, files))
        ok = True
        for f, r in results:
            nlines = sum(1 for _ in open(f))
            accepted = r.matched is not None and r.matched[0] == r.matched[1] and not r.violated \
                and not r.crashed and r.rc == 0
            if not accepted:
                f2, r2 = one(f)
                accepted2 = r2.matched is not None and r2.matched[0] == r2.matched[1] and not r2.violated \
                    and not r2.crashed and r2.rc == 0
                if accepted2:
                    raise Infra('flaky TLC verdict on %s' % f)
                if r2.matched is None and not r2.violated:
                    raise Infra('TLC failed on trace %s (rc=%d):\n%s' % (f, r2.rc, r2.out[-3000:]))
                r = r2
            self.states += r.distinct
            self.transitions += r.generated
            self.details['trace_runs'].append({'file': os.path.basename(f), 'lines': nlines,
                                               'matched': r.matched[0] if r.matched else None,
                                               'violated': r.violated, 'wall_s': round(r.wall, 1)})
            if accepted:
                self.traces += 1
                self.trace_lines += nlines
            else:
                ok = False
                keep = os.path.join(self.replay_dir, os.path.basename(f))
                if os.path.abspath(f) != os.path.abspath(keep):
                    shutil.copyfile(f, keep)
                line = (r.matched[0] + 1) if r.matched else 0
                ctx = ''
                try:
                    with open(f) as fh:
                        ls = fh.readlines()
                    if 0 < line <= len(ls):
                        ctx = ' first unexplained line: ' + ls[line - 1].strip()[:400]
                except Exception:
                    pass
                what = ('invariant %s violated on the observed execution' % r.violated) if r.violated \
                    else 'no specification action explains line %d' % line
                self.violation('%s:%s' % (sig_prefix, self.classify(ls[line - 1] if ctx else '')),
                               '%s#%d' % (keep, line), 'trace %s rejected by %s/%s: %s.%s' %
                               (os.path.basename(f), module, cfg, what, ctx))
        return ok

    def classify(self, line):
        try:
            d = json.loads(line)
            return str(d.get('e', '?'))
        except Exception:
            return '?'

    # ---------------------------------------------------------------- results
    def violation(self, signature, replay, message):
        for k in self.known:
            if k.get('property') == self.prop and k.get('status') == 'known' and k.get('signature') == signature:
                if signature not in self.known_hit:
                    self.known_hit.append(signature)
                    print('KNOWN-FINDING: property=%s %s' % (self.prop, k.get('description', signature)))
                return
        self.violations.append((signature, replay, message))

    def known_finding_seen(self, signature):
        """A dedicated reproducer confirmed that a listed finding still exists."""
        for k in self.known:
            if k.get('property') == self.prop and k.get('status') == 'known' and k.get('signature') == signature:
                if signature not in self.known_hit:
                    self.known_hit.append(signature)
                    print('KNOWN-FINDING: property=%s %s' % (self.prop, k.get('description', signature)))
                return True
        return False

    def cleanup(self):
        shutil.rmtree(self.work, ignore_errors=True)
        tl = os.path.join(BUILD, 'tlc')
        if os.path.isdir(tl):
            for d in os.listdir(tl):
                if d.startswith(self.tag + '_'):
                    shutil.rmtree(os.path.join(tl, d), ignore_errors=True)

    def sample(self, obj):
        if len(self.samples) < 12:
            self.samples.append(obj)

    def sample_lines(self, path, n=3, skip=0):
        try:
            with open(path) as f:
                for i, ln in enumerate(f):
                    if i < skip:
                        continue
                    if i >= skip + n:
                        break
                    try:
                        self.sample(json.loads(ln))
                    except Exception:
                        self.sample(ln.strip()[:300])
        except OSError:
            pass

    def finish(self, level='model_checking', rule=None, exhaustive=None):
        wall = time.time() - self.t0
        cov = {'states': self.states, 'transitions': self.transitions,
               'traces_validated_against_impl': self.traces,
               'samples': self.samples if self.samples else ['(no sample recorded)'],
               'trace_lines_validated': self.trace_lines}
        if rule:
            cov['rule'] = rule
        if exhaustive is not None:
            cov['exhaustive'] = exhaustive
        cov.update(self.extra_cov)
        cov.update(self.details)
        cov['known_findings_reproduced'] = self.known_hit
        ev = {'property_id': self.prop, 'tier': self.tier, 'seed': self.seed, 'level': level,
              'coverage': cov, 'assumptions': self.assumptions, 'wall_s': round(wall, 2),
              'violations': len(self.violations)}
        # evidence under /verif describes /repo; a run against another tree (VERIF_REPO: mutation experiments) keeps its own
        evdir = os.path.join(VERIF, 'evidence') if os.path.realpath(REPO) == '/repo' else os.path.join(BUILD, 'evidence')
        os.makedirs(evdir, exist_ok=True)
        tmp = os.path.join(evdir, '%s.json.tmp%d' % (self.prop, os.getpid()))
        with open(tmp, 'w') as f:
            json.dump(ev, f, indent=1)
            f.write('\n')
        os.replace(tmp, os.path.join(evdir, self.prop + '.json'))
        self.cleanup()
        if self.violations:
            for sig, replay, msg in self.violations[:20]:
                print('VIOLATION property=%s replay=%s' % (self.prop, replay))
                print('  [%s] %s' % (sig, msg))
            return 1
        print('OK property=%s tier=%s seed=%d states=%d transitions=%d traces=%d lines=%d wall=%.1fs' %
              (self.prop, self.tier, self.seed, self.states, self.transitions, self.traces,
               self.trace_lines, wall))
        return 0
