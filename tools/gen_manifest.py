#!/usr/bin/env python3
"""Writes /verif/MANIFEST.json from the table below (one source of truth for the registered checks)."""
import json, os
V = '/verif'
CHECKS = {
 'C15': dict(
   text='Exhaustive TLC model checking of Timer.tla at limb base B (every counter/start/mode/pause/mirror state, every '
        'history of ticks, skips within the horizon, restarts and config writes) decides the design; the induction step of Skip(k) = Tick^k, '
        'Skip(0) = identity and the tightness of the horizon are proved for all 32-bit states by Apalache/SMT (thorough tier for the step); trace validation of '
        'random 32-bit API histories recorded from real Timer objects binds the code to the same operators; in the composed System.tla '
        'guest programs with timers of every mode (line, vectored and unrouted requests, mode changes without restart) run for up to '
        '500000 cycles in differently cut slices and every slice end is compared.',
   design_ref='5.15',
   note='Trusted: TLC, Apalache/Z3, CommunityModules Json/IOUtils, g++; Timer.tla as a reading of the property; multi-call histories at full '
        '32-bit width are covered by boundary-clustered random traces, exhaustive only at the scaled limb base.',
   technique='TLA+ spec + TLC exhaustive model checking + Apalache (SMT) lemmas at full width + TLC trace validation of recorded executions'),
}
CHECKS['C02'] = dict(
   text='Exhaustive: TLC evaluates the decode clauses on the frozen TLA+ instruction table for all 65536 first words, and '
        'TLC validates, for all 65536 words, what the real decoder (recording visitor), the interpreter instantiation, the '
        'disassembler and the parser report against that table; the disassembler is asked plain, with an ar/arp register view and plain '
        'again (same plain answer; annotated text = plain text with every slot rendered from TeakRegs bit-field views); the listing that '
        'the repository\'s dsp1_reader makes of random firmware images must be the instruction stream Dsp1.tla derives with the same table.',
   design_ref='5.2',
   note='Trusted: TLC, CommunityModules, g++; TeakDecodeTable.tla (transcribed once from the pinned decoder.h, frozen). '
        'Execution clause: every first word that takes a second word is executed by the real interpreter from random states '
        '(pc in all four 64K banks and across their boundaries) and validated in full against CoreCycle; one-word '
        'instructions are covered by the sweep of C01. Generator clause: real GenerateTestCasesToFile vectors (one per enabled opcode, all '
        'in the thorough tier) must carry a second word exactly when the table says so and execute with the decoded length.',
   technique='TLA+ spec + TLC exhaustive enumeration + TLC validation of total decode dumps from the real code')
CHECKS['C01'] = dict(
   text='The reference semantics is an explicit TLA+ specification of the whole instruction set (332 handler overloads, decode, '
        'fetch, repeat/loop bookkeeping, interrupt entry). Every one of the 65536 first words is executed by the real interpreter '
        'from random well-formed states and TLC checks the complete post-state, the ordered memory access list and the outcome '
        'class of each execution against the specification.',
   design_ref='5.1',
   note='Trusted: TLC, CommunityModules, g++; the TLA+ semantics is a frozen hand transcription of the PINNED interpreter (the '
        'property names the pinned interpreter as the hardware-validated reference). States are sampled (k per opcode), not '
        'enumerated; the arithmetic kernels are additionally proved exact at scaled width (C03/C04). Generator clause: vectors of the real '
        'test generator (GenerateTestCasesToFile, plus hundreds of generated states for every opcode whose state is edge-sensitive: r7 '
        'displacement forms, memory-expanding forms) must satisfy the preconditions the specification states for comparing with hardware '
        '(memory window, disabled opcodes, status-word restrictions) and execute as the specification says. Replay clause '
        '(specification -> implementation): TLC predicts, for a sample of those vectors, the state the repository\'s own '
        'test_verifier compares (TvReplay.tla); the verifier built from the working tree must pass every predicted case and '
        'fail every case of a copy with one compared field altered.',
   technique='TLA+ instruction-set specification + TLC trace validation of single-instruction executions of the real interpreter + replay of TLC-predicted states through the repository\'s own test_verifier')
CHECKS['C03'] = dict(
   text='The limb operators behind add/sub/compare/logic, the Z/M/E/N flags and the saturator are compared with integer arithmetic '
        'for ALL operand pairs at a scaled limb width (TLC, exhaustive) and, for add/subtract/compare, the flags and the saturator, '
        'for all 2^40 x 2^40 operand pairs at full width (Apalache/SMT on the same operators); every encoding of these instruction families is '
        'executed by the real interpreter from boundary-clustered states with each execution validated in full by TLC at full width.',
   design_ref='5.3',
   note='Trusted: TLC, Apalache/Z3, CommunityModules, g++, the frozen TLA+ semantics. Logic operations are exhaustive only at limb width 4; '
        'the code is bound to the operators by boundary-clustered sampling of every encoding.',
   technique='TLA+ spec: exhaustive TLC theorems at scaled width + Apalache (SMT) proof of the same theorems at full width + TLC trace validation of real instruction executions')
CHECKS['C04'] = dict(
   text='Shifter (all values x all shift counts 0..42 x modes), exponent, multiplier (all factor pairs x sign selections x half-word '
        'modes) and product-shift operators are compared exhaustively with integer arithmetic at scaled widths by TLC; the multiplier, product '
        'shift and alignment additionally at full width for all factor pairs by Apalache/SMT; every encoding '
        'of the multiply/mac/mma/shift/exp families is executed by the real interpreter and validated in full by TLC at full width.',
   design_ref='5.4',
   note='Trusted: TLC, CommunityModules, g++, the frozen TLA+ semantics. One known finding (carry of a shift by exactly 40) is '
        'pinned as a named deviation so that any other deviation is still reported. Shifter and exponent are exhaustive at scaled width only.',
   technique='TLA+ spec: exhaustive TLC theorems at scaled width + Apalache (SMT) proof of the multiplier theorems at full width + TLC trace validation of real instruction executions')
CHECKS['C11'] = dict(
   text='Memory.tla gives one operator per accessor (host program/data/A32/MMIO/raw views, guest fetch/load/store) over one byte '
        'array with the MIU address formation; TLC explores every history within a deviation budget on a scaled geometry against the '
        'view-agreement and MMIO-window invariants, and validates recorded histories at the real geometry, including the raw byte '
        'addresses observed by the memory hook and full-memory scans.',
   design_ref='5.11',
   note='Trusted: TLC, CommunityModules, g++. MMIO offsets used are plain-storage cells; page mode 1 as coded.',
   technique='TLA+ spec + TLC bounded exhaustive model checking + TLC trace validation of recorded accessor histories')
CHECKS['C10'] = dict(
   text='TLC checks the address-stepping theorems on the TLA+ transcription of StepAddress/RnAndModify/RnAddress/OffsetAddress '
        'at the real widths: for every modulo value (boundary set quick, all 512 thorough) x every in-buffer offset x both modes the '
        '+-1 step is the cyclic walk of [base, base+mod] with untouched alignment bits; linear stepping, end-pointer zeroing, bit '
        'reversal and zero steps; every encoding of the address-modifying instruction families is executed by the real interpreter '
        'and validated in full by TLC. The repository\'s own hardware test vectors for modulo and double-step addressing '
        '(mod_test_generator, step2_test_generator, built from the working tree) go both ways: executed and validated by TLC, and the '
        'state TLC predicts for them judged by the repository\'s test_verifier.',
   design_ref='5.10',
   note='Trusted: TLC, CommunityModules, g++, the frozen TLA+ semantics. The walk theorem is stated for start addresses inside the buffer.',
   technique='TLA+ spec: TLC theorems over the full modulo domain + TLC trace validation of real instruction executions + replay of TLC-predicted states through the repository\'s own test_verifier')
CHECKS['C20'] = dict(
   text='TLC checks read-back, read-only, frame and cross-view theorems for all 19 words (all 65536 written values in the thorough '
        'tier) on the slot tables of TeakRegs.tla; the real RegisterState::Set<>/Get<> is validated against the same tables on random '
        'complete register states, as are the annotated disassembler and every instruction that moves a status word.',
   design_ref='5.20',
   note='Trusted: TLC, CommunityModules, g++; the slot tables are a frozen hand transcription of register.h. The generator side of the '
        'ar/arp clause is covered through the generator clause of C01 (accesses stay in the compared windows).',
   technique='TLA+ spec: exhaustive TLC theorems + TLC trace validation of Set/Get and instruction executions')
CHECKS['C16'] = dict(
   text='Exhaustive TLC model checking of the transmit FIFO (Btdmp.tla with ghost input/output history; capacity 4 quick / 6 '
        'thorough, all periods, every history of send/flush/enable/period/tick/skip within the horizon) decides FIFO order, '
        'one frame per period, flags, interrupt timing and Skip(k) = Tick^k; the counting part of that equation (phase, queue length, flags, '
        'frames, no interrupt below the horizon) is proved at the real constants for all states by Apalache/SMT on the length abstraction '
        'of the port (BtdmpInd.tla); random histories on real Btdmp objects in the Teakra '
        'wiring (direct, MMIO and CoreTiming paths, capacity 16) are validated by TLC against the same operators, and '
        'guest programs feeding both ports on a full Teakra are validated against the composed System.tla (frames, interrupts, flags '
        'at every slice; idle programs go through Btdmp::Skip while the specification only ticks; long runs of hundreds of periods '
        'in differently cut slices).',
   design_ref='5.16',
   note='Trusted: TLC, CommunityModules, g++; Btdmp.tla as a reading of the property. Full width (capacity 16, 16-bit words, '
        'period 4096) is covered by trace validation, exhaustive only at the scaled constants.',
   technique='TLA+ spec + TLC exhaustive model checking + Apalache (SMT) lemmas at the real constants + TLC trace validation of recorded executions')
CHECKS['C12'] = dict(
   text='Mmio.tla is the MMIO register file as an explicit hand-written table (177 documented offsets, 32 bit-field registers with 97 '
        'slots, side-effect cells). TLC checks read-back, non-aliasing against an explicit documented-coupling relation (shown tight), '
        'DMA channel-window independence and path agreement for every (written offset, value class, base state); recorded write/read '
        'sweeps and random histories on a real Teakra through both paths are validated by TLC, which must predict the complete set of '
        'changed read-backs and device fields after every access.',
   design_ref='5.12',
   note='Trusted: TLC, CommunityModules, g++; the table is a frozen hand transcription of mmio.cpp + docs. Effects that leave the register '
        'file (DMA transfer, FIFO contents) are modelled only as far as read-back needs.',
   technique='TLA+ spec + TLC exhaustive model checking over offset pairs + TLC trace validation of recorded MMIO histories')
CHECKS['C13'] = dict(
   text='Dma.tla/Ahbm.tla transcribe the transfer loop and the AHBM bursts; TLC checks on scaled counters that the produced element '
        'sequence equals the closed-form 3-D strided sequence, termination, exactly one interrupt, footprint and the aligned-unit AHBM '
        'clauses for all size/step/mode/space combinations; recorded transfers (direct rig and full Teakra through MMIO) are validated '
        'element by element by TLC including every DSP-memory access and external callback.',
   design_ref='5.13',
   note='Trusted: TLC, CommunityModules, g++. DSP-side cursors are kept inside data memory (the unmasked cursor is a C18 finding).',
   technique='TLA+ spec + TLC exhaustive model checking at scaled widths + TLC trace validation of recorded transfers')
CHECKS['C14'] = dict(
   text='Apbp.tla/ApbpSys.tla model both mailbox directions as wired by Teakra and the MMIO registers 0x0C0-0x0D8; TLC checks the '
        'handshake invariants and interrupt action properties exhaustively (2 channels x 2 data values x 2 semaphore bits, both '
        'directions); every transition of the one-direction state graphs is replayed on a real Teakra (spec -> impl) and random '
        'histories through facade + MMIO are validated by TLC (impl -> spec); guest programs that poll, echo, mask and '
        'acknowledge while the host calls the API between slices are validated against the composed System.tla (mailbox state, '
        'status registers, ICU request and latches, handler entry, every host callback in order); re-entrant semaphore callbacks '
        '(ApbpReent.tla: a call is a Begin step, the nested calls its handler makes, an End step) are model-checked over every nesting '
        'and a real object whose handler re-enters at random is validated step by step.',
   design_ref='5.14',
   note='Trusted: TLC, CommunityModules, g++. 3 channels and 16 semaphore bits are covered by trace validation, exhaustive at the scaled constants.',
   technique='TLA+ spec + TLC exhaustive model checking + state-graph edge replay + TLC trace validation')
CHECKS['C06'] = dict(
   text='The run loop as coded (idle skip through CoreTiming with minimum horizon and additional tick) is compared by TLC with plain '
        'cycle-by-cycle execution on a design model for every start configuration x every composition of the cycle budget; random guest '
        'programs run on a real Teakra in one piece, in random slices and single-stepped are all validated against System.tla, which '
        'consumes Run(n) as n Cycle steps (quiescent stretches are taken by a jump that the Timer/Btdmp Skip = Tick^k lemmas justify), '
        'with the complete observation compared after every slice; long programs (up to 500000 cycles, timers with 32-bit periods, '
        'slices cut next to the nearest timer / audio event) are sliced in three ways and all must agree with the specification.',
   design_ref='5.6',
   note='Trusted: TLC, CommunityModules, g++, the frozen TLA+ instruction semantics. The design model covers two timers (all modes) and, '
        'in a second configuration, the audio port in every queue/phase/period state; System.tla composes core, ICU, timers, MIU, both '
        'audio ports, both mailbox blocks, DMA, AHBM, external memory and host API calls (including Reset) at slice boundaries.',
   technique='TLA+ spec + TLC exhaustive model checking of the run-loop design + TLC trace validation with silent cycle steps')
CHECKS['C07'] = dict(
   text='All interleavings of trigger/acknowledge/route/mask/enable operations and instruction boundaries are explored by TLC on a model '
        'built from the same ICU and interrupt-entry operators the trace specifications use, against exactly-once, priority, no-spurious, '
        'stay-latched and request-bit properties; interrupt-heavy guest programs are single-stepped on a real Teakra and every boundary is '
        'validated in full; the same kinds of programs are also run in slices (idle fast-forward active; short auto-restart timers, line and '
        'vectored routing), and every encoding of the instructions that touch the interrupt state (enable/disable, return forms, status-word '
        'movers) is validated from random states with random latches.',
   design_ref='5.7',
   note='Trusted: TLC, CommunityModules, g++. The model uses 2 IRQ sources x 3 lines (thorough) / 1 source (quick); the IRQ numbers of '
        'audio port, mailbox and DMA are bound by the C16/C14/C13 traces.',
   technique='TLA+ spec + TLC model checking over all interleavings + TLC trace validation at instruction-boundary granularity')
CHECKS['C19'] = dict(
   text='ApbpConc.tla models host and DSP threads at lock granularity (per-channel mutex, recursive semaphore mutex held across the '
        'handler, ICU mutex across on_interrupt, atomic interrupt latches, re-entrant callbacks on either thread); TLC explores all '
        'interleavings for value order, no loss, eventual observation and interrupt delivery (liveness under fairness), deadlock freedom '
        'and a lockset invariant; two-thread executions of the real code under ThreadSanitizer are recorded per thread and TLC searches '
        'for an interleaving the model explains; a TSan report or a stuck run has no action and is a violation. Millions of tiny '
        'two-thread episodes (hammer_rec) are deduplicated into outcome classes, each of which must have an explaining interleaving '
        '(reaches atomicity windows of a few instructions); the interrupt-delivery clause is additionally validated sequentially '
        'in the composed System.tla.',
   design_ref='5.19',
   category='model_checking',
   note='Data-race freedom in the C++ memory-model sense is observed by ThreadSanitizer on the recorded executions, not decided by the '
        'model; the model decides the locking discipline. Two repaired races (disable-interrupt bits, ICU vector registers) are listed as fixed in known_findings.json and suppress nothing.',
   technique='TLA+ spec + TLC model checking of all interleavings (safety + liveness) + TLC interleaving search over recorded two-thread runs')
CHECKS['C08'] = dict(
   text='Round-trip theorems (push;pop for every pushable register/word/product/accumulator, call/callr/calla;ret in both pc word '
        'orders, interrupt entry;reti/retic on every line, cntx s;r, banke/bankr twice) are evaluated by TLC on the specification from '
        'random complete register states; each instruction of these families is bound to the specification by validating every '
        'encoding executed by the real interpreter in full; guest programs with line and vectored interrupts, context switches per source and '
        'several sources raised by one trigger write run on a real Teakra (single-stepped and sliced) and are validated against System.tla.',
   design_ref='5.8',
   note='Trusted: TLC, CommunityModules, g++, the frozen TLA+ semantics. Theorems are evaluated on sampled states (thousands), not all; '
        'product push/pop is stated with the product shifter off.',
   technique='TLA+ spec: TLC evaluation of pair theorems on sampled states + TLC trace validation of real instruction executions and of guest programs in the composed machine')
CHECKS['C09'] = dict(
   text='Loop programs generated from (depth 1..4, counts, rep, two-word last instruction, register/immediate count) parameters are '
        'executed cycle by cycle on the specification by TLC and compared with the unrolled execution counts, the visible loop counter '
        'sequence and the loop-state invariants; random loop programs (incl. frame store/restore) run on a real Teakra and are '
        'validated cycle by cycle; every encoding of the loop instructions is validated from random states.',
   design_ref='5.9',
   note='Trusted: TLC, CommunityModules, g++, the frozen TLA+ semantics. Counts are enumerated for small values and sampled above.',
   technique='TLA+ spec: TLC evaluation of parametrised loop programs + TLC trace validation (system and instruction level)')
CHECKS['C05'] = dict(
   text='Total over all 65536 first words: TLC validates against the frozen decode table that every renderable opcode assembles to its '
        'canonical word with the same length and identical disassembly for several second words, that the joined text and the C '
        'binding equal the token list; for sampled words the C binding is run into a canary-framed buffer of every size 0..len+2; every '
        'line of the four firmware sources is validated against the shipped binaries in both directions, and makedsp1 reproduces them '
        'byte for byte; Dsp1.tla specifies the firmware tools (source front end with every error exit, container layout, reader '
        'listing): TLC proves round trip / disjoint layout / stream recovery on all small sources, and hundreds of random sources run '
        'through the real makedsp1 and dsp1_reader are validated field by field.',
   design_ref='5.5',
   note='Trusted: TLC, CommunityModules, g++; TeakDecodeTable.tla (frozen). Second words are sampled (4 per opcode); the byte-for-byte '
        'comparison of makedsp1 output is a direct file comparison made by the runner.',
   technique='TLA+ spec (decode table) + TLC validation of total assembler/disassembler dumps, buffer sweeps and firmware line records')
CHECKS['C17'] = dict(
   text='The complete observation vector of the machine is the modelled state; in the states fresh / fresh+Reset / history+Reset the '
        'specification is in the single state FreshReset (a constant for everything but MMIO read-back). Recorded executions on '
        'polluted heaps are validated by TLC, which computes the differing observation groups; the same history replayed after Reset '
        'and on a fresh instance must coincide (including the hidden AHBM burst FIFOs, the external-memory traffic and the ownership of the DSP memory); every other instance is created through the C binding, operator new hands out junk-filled memory, a crash is a violation; Teakra::Reset between slices of guest programs must equal the reset of System.tla; two processes must produce identical streams; a component-level reset model is checked '
        'exhaustively (what Reset covers vs what C17 demands).',
   design_ref='5.17',
   note='Trusted: TLC, CommunityModules, g++. Histories are sampled. One known finding (MMIO backing storage survives Reset) is listed '
        'in known_findings.json; four further defects were repaired by fix: commits.',
   technique='TLA+ spec (FreshReset state machine + component reset model) + TLC trace validation of complete observations')
CHECKS['C18'] = dict(
   text='TLC checks the address-formation cases on the specification (data, MMIO and loop-frame indices always in range; the program-side '
        'addresses that leave the array do so only under named causes). Every first word is executed from states that include the ends '
        'of the program space and non-zero program pages with every raw access observed (out-of-range ones vetoed), and TLC validates '
        'each execution in full: the specification predicts exactly which executions go out of range; the loop-stack handlers get many '
        'states per encoding (full stack included) and guest-programmed address translation (MMIO base, page mode, x/y/z pages incl. '
        'non-existent ones, host accessors) is validated on a full Teakra against System.tla. Fuzz runs of a full Teakra under '
        'ASan+UBSan must end by Return/Unimplemented/AssertAbort (TLC); Faults have no action.',
   design_ref='5.18',
   category='model_checking',
   note='The undefined-behaviour clause (uninitialised/freed memory, signed overflow, shift range) is NOT decided by the specification: it '
        'is observed by ASan+UBSan and _GLIBCXX_ASSERTIONS on the executions run (runtime monitor). Four out-of-range causes are known '
        'findings (known_findings.json); two further defects were repaired.',
   technique='TLA+ spec + TLC theorems on address formation + TLC trace validation of wild executions + sanitizer-monitored fuzz runs')
NOT_YET = {}
def main():
    props = [json.loads(l)['id'] for l in open(os.path.join(V, 'properties.jsonl'))]
    checks = []
    for p in props:
        if p not in CHECKS:
            continue
        c = CHECKS[p]
        checks.append({
            'property_id': p,
            'quick_cmd': './check %s --tier quick' % p,
            'thorough_cmd': './check %s --tier thorough' % p,
            'evidence_file': 'evidence/%s.json' % p,
            'replay_cmd_template': './check %s --replay {path}' % p,
            'engine': 'tlc',
            'level_claimed': {'category': c.get('category', 'model_checking'), 'text': c['text'],
                              'design_ref': 'DESIGN.md section ' + c['design_ref']},
            'level_note': c['note'],
            'technique': c['technique'],
        })
    na = [{'property_id': p, 'reason': NOT_YET.get(p, 'check not built yet (work in progress, see DESIGN.md section 8); not claimed until its TLA+ module and conformance driver exist')}
          for p in props if p not in CHECKS]
    hooks_commits = os.popen("git -C /repo log --format=%h --grep='^verif hooks'").read().split()
    m = {
        'version': 1,
        'setup_cmd': 'make -s -j16 -C /verif/harness FLAVOUR=plain all && /verif/tools/vbuild makedsp1 && /verif/tools/vbuild dsp1_reader && /verif/tools/vbuild fuzz_rec asan && /verif/tools/vbuild conc_rec tsan',
        'hooks': {
            'guard': 'TEAKRA_VERIF',
            'enable': 'the harness Makefile compiles /repo/src/*.cpp from the working tree with -DTEAKRA_VERIF (see harness/Makefile)',
            'baseline_off_cmd': 'cmake --build /repo/_build && ctest --test-dir /repo/_build -j8 --timeout 900',
            'source_commits': hooks_commits,
            'add_only': True,
        },
        'engines': [{'name': 'tlc', 'path': '/verif/check', 'serves_properties': [c['property_id'] for c in checks],
                     'kind_free_text': 'explicit TLA+ specifications under /verif/spec checked with TLC; bound to the C++ code by trace validation (recorded executions -> TLC) and behaviour replay (TLC-generated tables -> code)'}],
        'checks': checks,
        'not_applicable': na,
        'notes': 'Known findings and fixed defects: /verif/known_findings.json. Exit 2 = infrastructure failure (never a VIOLATION).',
    }
    json.dump(m, open(os.path.join(V, 'MANIFEST.json'), 'w'), indent=1)
    print('MANIFEST.json: %d checks, %d not claimed' % (len(checks), len(na)))
if __name__ == '__main__':
    main()
