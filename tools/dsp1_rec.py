#!/usr/bin/env python3
"""Recorder for the firmware-tool clause of C05 (spec/Dsp1.tla, spec/Dsp1Trace.tla).

  tools/dsp1_rec.py --make-pool --asm <asm_rec> --pool pool.json --work <dir>
  tools/dsp1_rec.py --pool pool.json --makedsp1 <bin> --reader <bin> --n N --seed S --work <dir> --out trace.ndjson

Glue only: writes random firmware sources (it knows which items it wrote, nothing about what the tools should
make of them), runs the repository's makedsp1 and dsp1_reader on them and takes their outputs apart
structurally.  Instruction lines are texts the real disassembler printed (asm_rec dump of all first words).
"""
import argparse, hashlib, json, os, random, re, struct, subprocess, sys

TARGETS = [0, 1, 0x800, 0x7FFF, 0x8000, 0xFFFF, 0x10000, 0x1F000, 0x1FFFF, 0x20000, 0x3FFF0, 0x12345678, 0x7FFF0000]


def make_pool(asm_bin, work, dst):
    """compact pool of instruction texts (what the real disassembler prints), built once per check run"""
    f = os.path.join(work, 'dsp1_pool.ndjson')
    subprocess.run([asm_bin, '--mode', 'asm:0..65535', '--seed', '7', '--out', f], check=True, timeout=600)
    rows = []
    for l in open(f):
        r = json.loads(l)
        rows.append(dict(w=r['w'], err=r['err'], dexp=r['dexp'], tok=r.get('tok', []),
                         ws=[dict(x=q['x'], tok=q['tok'], do=q['do']) for q in r.get('ws', [])]))
    os.remove(f)
    json.dump(rows, open(dst, 'w'), separators=(',', ':'))


def load_pool(path):
    one, two, one0000, undefined = [], [], [], []
    for r in json.load(open(path)):
        # a source line is split at blanks and tabs: opcodes whose token list has an empty token or a token with a
        # blank in it ("mov p->r", the trailing empty tokens of "xy<-": 3248 first words) cannot be written as source text
        if not r['err'] and any(t == '' or ' ' in t or '\t' in t for q in [r] + r['ws'] for t in q['tok']):
            continue
        if r['err']:
            if not r['dexp']:
                undefined.append(r['w'])          # words that print with an error marker or not at all, one word long
            continue
        if r['dexp']:
            t0, t1 = r['ws'][0]['tok'], r['ws'][1]['tok']
            if r['ws'][0]['x'] != 0 or len(t0) != len(t1):
                continue
            d = [j for j in range(len(t0)) if t0[j] != t1[j]]
            if len(d) != 1 or '0000' not in t0[d[0]]:
                continue
            two.append((r, d[0]))
        else:
            one.append(r)
            if any('0000' in t for t in r['tok']):
                one0000.append(r)
    return one, two, one0000, undefined


def hexcase(rng, s):
    return s.upper() if rng.random() < 0.3 else s


def sep(rng):
    return rng.choice([' ', '  ', '\t', ' \t ', '   '])


def render(rng, toks):
    s = rng.choice(['', '', ' ', '\t', '  ']) + toks[0]
    for t in toks[1:]:
        s += sep(rng) + t
    s += rng.choice(['', '', ' ', '\t'])
    c = rng.random()
    if c < 0.15:
        s += '// note'
    elif c < 0.3:
        s += ' // costs $12 or $abcd1 //'
    return s


def with_dollar(tok, x, rng):
    i = tok.rfind('0000')
    return tok[:i] + '$' + hexcase(rng, '%04x' % x) + tok[i + 4:]


def gen_source(rng, pool, nerr):
    """returns (lines, items).  items carry the physical line number."""
    one, two, one0000, undefined = pool
    lines, items = [], []

    def emit(text, item=None):
        lines.append(text)
        if item is not None:
            item['ln'] = len(lines)
            items.append(item)

    def noise():
        while rng.random() < 0.25:
            emit(rng.choice(['', '   ', '\t', '// only a comment', '  // data 1234', '//$']))

    def item(k, **kw):
        d = dict(k=k, ty=0, target=0, v=0, w=0, x=-1, txt='')
        d.update(kw)
        return d

    want_err = rng.random() < nerr
    nseg = rng.randint(1, 10) if rng.random() < 0.2 else rng.randint(1, 4)
    err_at = rng.randint(0, 40) if want_err else -1
    count = 0
    total_words = 0
    for s in range(nseg):
        noise()
        ty = 0 if rng.random() < 0.6 else 2
        tg = rng.choice(TARGETS) if rng.random() < 0.7 else rng.randrange(0, 0x40000)
        if count == err_at and rng.random() < 0.3:
            emit(render(rng, ['segment', rng.choice(['x', 'P', 'pd', 'D']), '%x' % tg]), item('seg', ty=9, target=tg))
            return lines, items
        if count == err_at and rng.random() < 0.2:
            emit(render(rng, rng.choice([['segment', 'p'], ['segment'], ['segment', 'd', '100', '200']])), item('argc'))
            return lines, items
        emit(render(rng, ['segment', 'p' if ty == 0 else 'd', hexcase(rng, '%x' % tg)]), item('seg', ty=ty, target=tg))
        count += 1
        nl = rng.choice([0, 1, 2, 3, 5, 8, 13, 30]) if rng.random() < 0.8 else rng.randint(0, 60)
        for _ in range(nl):
            noise()
            bad = count == err_at
            count += 1
            r = rng.random()
            if bad:
                k = rng.random()
                if k < 0.2:
                    emit(render(rng, rng.choice([['frobnicate', 'r9'], ['mov'], ['data1', '12'], ['exp', '[r9]'], ['segmentp', '0']])), item('bad'))
                elif k < 0.35:
                    emit(render(rng, rng.choice([['data'], ['data', '12', '34']])), item('argc'))
                elif k < 0.55:
                    rec, j = rng.choice(two)
                    emit(render(rng, rec['ws'][0]['tok']), item('ins', w=rec['w'], x=-1))          # no '$'
                elif k < 0.75 and one0000:
                    rec = rng.choice(one0000)
                    toks = list(rec['tok'])
                    j = next(i for i, t in enumerate(toks) if '0000' in t)
                    x = rng.randrange(65536)
                    toks[j] = with_dollar(toks[j], x, rng)
                    emit(render(rng, toks), item('ins', w=rec['w'], x=x))                           # '$' on a one-word form
                elif k < 0.9:
                    emit(rng.choice(['data 12$', 'data $1', '  $abc', 'exp [r0] $12']), item('xbrk'))
                else:
                    # an undefined word has no text; a line that is the text of no instruction
                    emit(render(rng, ['mov', 'r9', 'b7']), item('bad'))
                return lines, items
            if ty == 2 or r < 0.25:
                if ty == 0:
                    # a data word inside a program segment is read back as an instruction: keep to one-word forms
                    v = rng.choice([0, 0, rng.choice(one)['w'], rng.choice(undefined)])
                else:
                    v = rng.choice([0, 1, 0x7FFF, 0x8000, 0xFFFF, rng.randrange(65536), rng.randrange(65536)])
                emit(render(rng, ['data', hexcase(rng, rng.choice(['%x', '%04x', '%08x']) % v)]), item('data', v=v))
                total_words += 1
            elif r < 0.6:
                rec, j = rng.choice(two)
                k = rng.randrange(4)
                x = rec['ws'][k]['x']
                toks = list(rec['ws'][0]['tok'])
                toks[j] = with_dollar(toks[j], x, rng)
                emit(render(rng, toks), item('ins', w=rec['w'], x=x, txt=rec['ws'][k]['do']))
                total_words += 2
            else:
                rec = rng.choice(one)
                emit(render(rng, rec['tok']), item('ins', w=rec['w'], x=-1, txt=rec['ws'][0]['do']))
                total_words += 1
    noise()
    if total_words == 0:
        # the reader needs a file that holds a full header: give the last segment one word
        emit('data 0', item('data', v=0))
    return lines, items


def u32(b, o):
    return struct.unpack_from('<I', b, o)[0] if o + 4 <= len(b) else -1


def take_file(path):
    b = open(path, 'rb').read()
    used = bytearray(len(b))

    def mark(lo, hi):
        for i in range(max(lo, 0), min(hi, len(b))):
            used[i] = 1
    mark(0x100, 0x120)
    nseg = b[0x10E] if len(b) > 0x10E else 0
    desc = []
    for i in range(min(nseg, 10)):
        o = 0x120 + 0x30 * i
        mark(o, o + 0x30)
        off, tg, size = u32(b, o), u32(b, o + 4), u32(b, o + 8)
        data = b[off:off + size] if 0 <= off <= len(b) else b''
        mark(off, off + size)
        words = [data[k] | (data[k + 1] << 8) for k in range(0, len(data) - 1, 2)]
        desc.append(dict(off=off, target=tg, size=size, ty=b[o + 15], pad=b[o + 12] | b[o + 13] | b[o + 14],
                         sha=b[o + 16:o + 48].hex(), sharef=hashlib.sha256(data).hexdigest(), words=words))
    stray = sum(1 for i in range(len(b)) if not used[i] and b[i] != 0)
    miscrest = (b[0x10C] | b[0x10D] | b[0x10F]) + sum(b[0x110:0x120]) if len(b) >= 0x120 else -1
    return dict(len=len(b), magic=list(b[0x100:0x104]), bsize=u32(b, 0x104), layout=u32(b, 0x108), nseg=nseg,
                miscrest=miscrest, stray=stray, desc=desc)


LINE = re.compile(r'^([0-9A-F]{8})  ([0-9A-F]{4})(.*)$')


def take_reader(stdout, listing):
    rd = dict(layout=-1, nseg=-1, flags=-1, segs=[], list=[])
    cur = None
    for l in stdout.splitlines():
        m = re.match(r'Memory layout = ([0-9A-F]+)', l)
        if m: rd['layout'] = int(m.group(1), 16)
        m = re.match(r'Num segments = (\d+)', l)
        if m: rd['nseg'] = int(m.group(1))
        m = re.match(r'Flags = (\d+)', l)
        if m: rd['flags'] = int(m.group(1))
        if l.startswith('[Segment '):
            cur = dict(ty=-1, target=-1, size=-1)
            rd['segs'].append(cur)
        m = re.match(r'memory_type = (\d+)', l)
        if m: cur['ty'] = int(m.group(1))
        m = re.match(r'target = ([0-9A-F]+)', l)
        if m: cur['target'] = int(m.group(1), 16)
        m = re.match(r'size = ([0-9A-F]+)', l)
        if m: cur['size'] = int(m.group(1), 16)
    seg = None
    for l in listing.split('\n'):
        if l == '>>>>>>>> Segment <<<<<<<<':
            seg = dict(kind=0, lines=[]); rd['list'].append(seg); continue
        if l == '>>>>>>>> Data Segment <<<<<<<<':
            seg = dict(kind=2, lines=[]); rd['list'].append(seg); continue
        m = LINE.match(l)
        if not m:
            if l.strip() and seg is not None:
                seg['lines'].append(dict(a=-2, w=-2, x=-2, xa=-2, txt=l))     # a line of no known shape
            continue
        a, w, rest = int(m.group(1), 16), int(m.group(2), 16), m.group(3)
        if rest == ' ^^^':
            seg['lines'][-1]['x'] = w
            seg['lines'][-1]['xa'] = a
        elif seg['kind'] == 2:
            seg['lines'].append(dict(a=a, w=w, x=-1, xa=-1, txt=rest))
        else:
            seg['lines'].append(dict(a=a, w=w, x=-1, xa=-1, txt=rest[9:] if rest.startswith(' ' * 9) else '?' + rest))
    return rd


ERRS = [('unexpected line break in expansion data', 'expbreak'), ("Wrong parameter count", 'argc'),
        ('Unknown segment type', 'segtype'), ('could not parse', 'parse'), ('needs expansion', 'needexp'),
        ('unexpected expansion', 'unexpexp')]


def main():
    ap = argparse.ArgumentParser()
    ap.add_argument('--asm'); ap.add_argument('--makedsp1'); ap.add_argument('--reader')
    ap.add_argument('--n', type=int, default=200); ap.add_argument('--seed', type=int, default=1)
    ap.add_argument('--work'); ap.add_argument('--out'); ap.add_argument('--keep', default=None)
    ap.add_argument('--pool'); ap.add_argument('--make-pool', action='store_true')
    a = ap.parse_args()
    rng = random.Random(a.seed)
    os.makedirs(a.work, exist_ok=True)
    if a.make_pool:
        make_pool(a.asm, a.work, a.pool)
        return
    pool = load_pool(a.pool)
    out = open(a.out, 'w')
    srcp, binp, lstp = (os.path.join(a.work, 'dsp1_%d.%s' % (a.seed, e)) for e in ('src', 'bin', 'lst'))
    for n in range(a.n):
        lines, items = gen_source(rng, pool, 0.25)
        open(srcp, 'w').write('\n'.join(lines) + ('\n' if rng.random() < 0.8 else ''))
        for p in (binp, lstp):
            if os.path.exists(p):
                os.remove(p)
        p = subprocess.run([a.makedsp1, srcp, binp], stdout=subprocess.PIPE, stderr=subprocess.STDOUT, text=True, timeout=60)
        rec = dict(e='Dsp1', n=n, src=items, rc=p.returncode & 255 if p.returncode >= 0 else 1000 - p.returncode, err='', errln=0)
        msg = p.stdout.strip()
        if rec['rc'] != 0:
            m = re.match(r'(\d+): (.*)', msg)
            if m:
                rec['errln'] = int(m.group(1))
                rec['err'] = next((k for t, k in ERRS if t in m.group(2)), 'other:' + m.group(2))
            else:
                rec['err'] = 'other:' + msg[:80]
        elif msg:
            rec['err'] = 'output:' + msg[:80]
        if rec['rc'] == 0 and os.path.exists(binp):
            rec['file'] = take_file(binp)
            q = subprocess.run([a.reader, binp, lstp], stdout=subprocess.PIPE, stderr=subprocess.STDOUT, text=True, errors='replace', timeout=60)
            rd = take_reader(q.stdout, open(lstp, errors='replace').read() if os.path.exists(lstp) else '')
            rd['rc'] = q.returncode & 255 if q.returncode >= 0 else 1000 - q.returncode
            rec['rd'] = rd
        else:
            rec['file'] = dict(len=-1)
            rec['rd'] = dict(rc=-1)
        if a.keep:
            rec['text'] = lines
        out.write(json.dumps(rec, separators=(',', ':')) + '\n')
    out.close()
    for p in (srcp, binp, lstp):
        if os.path.exists(p):
            os.remove(p)


if __name__ == '__main__':
    main()
