"""Shared orchestration for the properties decided on the instruction-set specification: record real
single-instruction executions of a family of handlers (isa_rec fam mode) and validate them with TLC
(IsaTrace: complete post-state + ordered access list + outcome against TeakCore.CoreCycle)."""
import os


def record_family(ck, names, k, tag, parts=16, seedoff=0):
    files, cmds = [], []
    for i in range(parts):
        f = os.path.join(ck.work, '%s_%02d.ndjson' % (tag, i))
        files.append(f)
        cmds.append('%s --mode "fam:%s:%d:%d/%d" --seed %d --out %s' %
                    (ck.bin('isa_rec'), ';'.join(names) + ';', k, i, parts, ck.seed * 977 + i + seedoff, f))
    ck.run_jobs(cmds, timeout=900)
    return [f for f in files if os.path.getsize(f) > 0]


def family_check(ck, names, k, tag, parts=16, rounds=1):
    ck.build('isa_rec')
    total = 0
    for r in range(rounds):
        files = record_family(ck, names, k, '%s%d' % (tag, r), parts, seedoff=10007 * r)
        ck.validate_traces('IsaTrace', 'Trace_Isa.cfg', files, timeout=2400)
        if r == 0 and files:
            ck.sample_lines(files[0], 2, skip=3)
        for f in files:
            total += sum(1 for _ in open(f))
            os.remove(f)
    ck.extra_cov['instruction_records'] = ck.extra_cov.get('instruction_records', 0) + total
    return total


ISA_ASSUMPTIONS = [
    'the TLA+ instruction semantics is a frozen hand transcription of the pinned interpreter.h',
    'states are well formed (fields within hardware widths, lp = (bcn # 0), prpage = 0, pc away from the ends)',
    'TLC, CommunityModules and g++ are trusted; values are boundary-clustered samples, not exhaustive at 40 bits']
