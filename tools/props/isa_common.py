"""Shared orchestration for the properties decided on the instruction-set specification: record real
single-instruction executions of a family of handlers (isa_rec fam mode) and validate them with TLC
(IsaTrace: complete post-state + ordered access list + outcome against TeakCore.CoreCycle)."""
import json
import os

import vlib


def record_family(ck, names, k, tag, parts=16, seedoff=0):
    files, cmds = [], []
    for i in range(parts):
        f = os.path.join(ck.work, '%s_%02d.ndjson' % (tag, i))
        files.append(f)
        cmds.append('%s --mode "fam:%s:%d:%d/%d" --seed %d --out %s' %
                    (ck.bin('isa_rec'), ';'.join(names) + ';', k, i, parts, ck.seed * 977 + i + seedoff, f))
    ck.run_jobs(cmds, timeout=900)
    return [f for f in files if os.path.getsize(f) > 0]


def family_check(ck, names, k, tag, parts=16, rounds=1):
    ck.build('isa_rec')
    total = 0
    for r in range(rounds):
        files = record_family(ck, names, k, '%s%d' % (tag, r), parts, seedoff=10007 * r)
        ck.validate_traces('IsaTrace', 'Trace_Isa.cfg', files, timeout=2400)
        if r == 0 and files:
            ck.sample_lines(files[0], 2, skip=3)
        for f in files:
            total += sum(1 for _ in open(f))
            os.remove(f)
    ck.extra_cov['instruction_records'] = ck.extra_cov.get('instruction_records', 0) + total
    return total


def sweep_all(ck, tag, k=1, seedoff=0):
    """Every one of the 65536 first words once (k times) from a random well-formed state, validated in full against CoreCycle.
    The family checks give a property's own instructions many states each; this sweep keeps every other instruction (and
    the decoder) in view of the same check, so a slip that reaches the property through an instruction outside its list
    still shows."""
    ck.build('isa_rec')
    n = 16
    step = 65536 // n
    files = [os.path.join(ck.work, '%s_all_%02d.ndjson' % (tag, i)) for i in range(n)]
    ck.run_jobs(['%s --mode all:%d..%d:%d --seed %d --out %s' % (ck.bin('isa_rec'), i * step, (i + 1) * step - 1, k,
                                                                ck.seed * 257 + i + seedoff, f) for i, f in enumerate(files)], timeout=900)
    ck.validate_traces('IsaTrace', 'Trace_Isa.cfg', files, timeout=2400, sig_prefix='sweep')
    ck.extra_cov['sweep_records'] = sum(sum(1 for _ in open(f)) for f in files)
    for f in files:
        os.remove(f)


def verifier_replay(ck, gen, tag):
    """Specification -> implementation through the repository's own verifier: TLC (TvReplay.tla) loads generator cases the way
    src/test_verifier loads them, runs one CoreCycle and prints the state the verifier compares; tools/tv_pack.py packs the
    prediction as the `after` state of a TestCase file; the repository's test_verifier, built from the working tree, must pass
    every case -- and must fail every case of a second file in which one compared field of the prediction was altered
    (rotating over all 38 scalar fields and both memory windows), or the clause has lost its oracle."""
    import concurrent.futures as cf
    import shutil
    ck.build('test_verifier')
    tool = os.path.join(vlib.VERIF, 'tools', 'tv_pack.py')
    shards = ck.pick(4, 12)
    every = ck.pick(80, 24)               # one case in 20 (quick) / in 2 (thorough), interleaved over the shards
    offs = [(ck.seed * 7 + k * (every // shards)) % every for k in range(shards)]
    cases = [os.path.join(ck.work, '%s_tv_%02d.ndjson' % (tag, k)) for k in range(shards)]
    ck.run_jobs(['python3 %s cases %s %s %d %d > %s.log' % (tool, gen, c, every, o, c) for c, o in zip(cases, offs)], timeout=900)

    def one(c):
        return c, vlib.run_tlc('TvReplay', 'Trace_Isa.cfg', '%s_%s' % (ck.tag, os.path.basename(c)[:-7]), workers=1, timeout=3000,
                               env={'TRACE': c}, jvm=['-Xss256m'])
    with cf.ThreadPoolExecutor(shards) as ex:
        res = list(ex.map(one, cases))
    total = ok = 0
    for c, r in res:
        if r.rc != 0 or r.matched is None or r.matched[0] != r.matched[1]:
            raise vlib.Infra('TLC failed on %s:\n%s' % (c, r.out[-2000:]))
        out = c.replace('.ndjson', '.tlc.txt')
        with open(out, 'w') as f:
            f.write(r.out)
        good, alt = c.replace('.ndjson', '.good.bin'), c.replace('.ndjson', '.alt.bin')
        p = vlib.sh('python3 %s pack %s %s %s %s %s' % (tool, gen, c, out, good, alt), timeout=900)
        if p.returncode != 0:
            raise vlib.Infra('tv_pack failed:\n' + p.stdout[-2000:])
        info = json.loads(p.stdout.strip().splitlines()[-1])
        ck.states += r.distinct
        ck.transitions += r.generated
        total += info['cases']
        ok += info['predicted_ok']
        if info['predicted_other'] or info['writes_outside_windows']:
            keep = os.path.join(ck.replay_dir, os.path.basename(c))
            shutil.copyfile(c, keep)
            ck.violation('generator:replay_outcome', keep, 'the specification predicts an abort or a write outside the compared windows '
                         'for %d / %d generator vectors of this file' % (info['predicted_other'], info['writes_outside_windows']))
        pg = vlib.sh('%s %s' % (ck.bin('test_verifier'), good), timeout=1800)
        verdict = (pg.stdout.strip().splitlines() or ['?'])[-1]
        if verdict != info['expect'] or pg.returncode != 0:
            keep = os.path.join(ck.replay_dir, os.path.basename(good))
            shutil.copyfile(good, keep)
            with open(keep + '.verifier.txt', 'w') as f:
                f.write(pg.stdout[-200000:])
            first = next((l for l in pg.stdout.splitlines() if l.startswith('Test case')), '')
            ck.violation('replay:test_verifier', keep, 'the repository\'s test_verifier rejects states predicted by the specification: '
                         'verdict "%s", expected "%s"; first: %s' % (verdict, info['expect'], first[:160]))
        else:
            # (only when the verifier agreed with every prediction: then a case of the altered file can pass only if the verifier
            # does not look at the altered field)
            pa = vlib.sh('%s %s' % (ck.bin('test_verifier'), alt), timeout=1800)
            averdict = (pa.stdout.strip().splitlines() or ['?'])[-1]
            if averdict != info['expect_altered']:
                raise vlib.Infra('the repository\'s test_verifier no longer notices an altered field (verdict "%s", expected "%s"): '
                                 'the replay clause has lost its oracle' % (averdict, info['expect_altered']))
        for f in (good, alt):
            os.remove(f)
    ck.extra_cov['verifier_replay_cases'] = total
    ck.extra_cov['verifier_replay_predicted_ok'] = ok


def tool_vectors(ck, tools, tag):
    """The repository's special-purpose hardware-test generators (mod_test_generator: modulo addressing of one multiply form over
    every offset / step mode / step / modulo; step2_test_generator: the +-2 steps under every modulo value) write TestCase files
    like the main generator does.  Their vectors go both ways: impl -> spec (isa_rec genfile + IsaTrace with the generator
    clause: no abort, accesses inside the compared windows) and spec -> impl (verifier_replay: predicted by TvReplay, judged by
    the repository's test_verifier)."""
    ck.build('isa_rec', *tools)
    for t in tools:
        gen = os.path.join(ck.work, '%s_%s.bin' % (tag, t))
        p = vlib.sh('%s %s' % (ck.bin(t), gen), timeout=600)
        if p.returncode != 0 or not os.path.exists(gen) or os.path.getsize(gen) % 4312:
            raise vlib.Infra('%s did not write a TestCase file:\n%s' % (t, p.stdout[-1000:]))
        shards = list(range(0, 16, ck.pick(8, 1)))
        files = [os.path.join(ck.work, '%s_%s_%02d.ndjson' % (tag, t, i)) for i in shards]
        ck.run_jobs(['%s --mode genfile:%s:%d/16 --out %s' % (ck.bin('isa_rec'), gen, i, f) for i, f in zip(shards, files)], timeout=900)
        ck.validate_traces('IsaTrace', 'Trace_Isa.cfg', files, timeout=2400, sig_prefix='hwvector')
        ck.extra_cov['%s_vectors_validated' % t] = sum(sum(1 for _ in open(f)) for f in files)
        verifier_replay(ck, gen, '%s_%s' % (tag, t))
        ck.extra_cov['%s_replayed' % t] = ck.extra_cov.pop('verifier_replay_cases')
        ck.extra_cov.pop('verifier_replay_predicted_ok', None)
        os.remove(gen)


def generator_clause(ck, parts=None, tag='gen', replay=False):
    """The project's own hardware-test generator (GenerateTestCasesToFile, about 82k vectors, 4 per enabled opcode), loaded the
    way the project's verifier loads them: IsaTrace additionally requires no abort, pc advance = decoded length, no second
    word for a one-word instruction, every data access inside the two compared windows.  parts: which of the 16 interleaved
    shards to validate (None: all; (0, 4, 8, 12): one vector per opcode)."""
    ck.build('isa_rec')
    gen = os.path.join(ck.work, '%s_cases.bin' % tag)
    ck.run_jobs(['%s --mode genmake:%s --out %s' % (ck.bin('isa_rec'), gen, os.path.join(ck.work, '%s_make.ndjson' % tag))], timeout=600)
    shards = list(range(16)) if parts is None else list(parts)
    gfiles = [os.path.join(ck.work, '%s_%02d.ndjson' % (tag, i)) for i in shards]
    ck.run_jobs(['%s --mode genfile:%s:%d/16 --out %s' % (ck.bin('isa_rec'), gen, i, f) for i, f in zip(shards, gfiles)], timeout=900)
    if replay:
        verifier_replay(ck, gen, tag)
    os.remove(gen)
    ck.validate_traces('IsaTrace', 'Trace_Isa.cfg', gfiles, timeout=2400, sig_prefix='generator')
    ck.extra_cov['generator_vectors'] = sum(sum(1 for _ in open(f)) for f in gfiles)
    # the configurations whose vectors depend on a narrow random placement (r7 pinned inside the Y window, second word an address
    # inside the X window): many states per opcode from the very same generator objects (gen_rec), same file format, same clause
    ck.build('gen_rec')
    xgen = os.path.join(ck.work, '%s_edge.bin' % tag)
    ck.run_jobs(['%s --n %d --out %s' % (ck.bin('gen_rec'), ck.pick(300, 1500) if parts is None else ck.pick(120, 600), xgen)], timeout=900)
    xfiles = [os.path.join(ck.work, '%s_edge_%02d.ndjson' % (tag, i)) for i in range(16)]
    ck.run_jobs(['%s --mode genfile:%s:%d/16 --out %s' % (ck.bin('isa_rec'), xgen, i, f) for i, f in enumerate(xfiles)], timeout=900)
    os.remove(xgen)
    ck.validate_traces('IsaTrace', 'Trace_Isa.cfg', xfiles, timeout=2400, sig_prefix='generator')
    ck.extra_cov['generator_edge_vectors'] = sum(sum(1 for _ in open(f)) for f in xfiles)
    return gfiles


ISA_ASSUMPTIONS = [
    'the TLA+ instruction semantics is a frozen hand transcription of the pinned interpreter.h',
    'states are well formed (fields within hardware widths, lp = (bcn # 0), prpage = 0, pc away from the ends)',
    'TLC, CommunityModules and g++ are trusted; values are boundary-clustered samples, not exhaustive at 40 bits']
