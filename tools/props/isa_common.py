"""Shared orchestration for the properties decided on the instruction-set specification: record real
single-instruction executions of a family of handlers (isa_rec fam mode) and validate them with TLC
(IsaTrace: complete post-state + ordered access list + outcome against TeakCore.CoreCycle)."""
import os


def record_family(ck, names, k, tag, parts=16, seedoff=0):
    files, cmds = [], []
    for i in range(parts):
        f = os.path.join(ck.work, '%s_%02d.ndjson' % (tag, i))
        files.append(f)
        cmds.append('%s --mode "fam:%s:%d:%d/%d" --seed %d --out %s' %
                    (ck.bin('isa_rec'), ';'.join(names) + ';', k, i, parts, ck.seed * 977 + i + seedoff, f))
    ck.run_jobs(cmds, timeout=900)
    return [f for f in files if os.path.getsize(f) > 0]


def family_check(ck, names, k, tag, parts=16, rounds=1):
    ck.build('isa_rec')
    total = 0
    for r in range(rounds):
        files = record_family(ck, names, k, '%s%d' % (tag, r), parts, seedoff=10007 * r)
        ck.validate_traces('IsaTrace', 'Trace_Isa.cfg', files, timeout=2400)
        if r == 0 and files:
            ck.sample_lines(files[0], 2, skip=3)
        for f in files:
            total += sum(1 for _ in open(f))
            os.remove(f)
    ck.extra_cov['instruction_records'] = ck.extra_cov.get('instruction_records', 0) + total
    return total


def sweep_all(ck, tag, k=1, seedoff=0):
    """Every one of the 65536 first words once (k times) from a random well-formed state, validated in full against CoreCycle.
    The family checks give a property's own instructions many states each; this sweep keeps every other instruction (and
    the decoder) in view of the same check, so a slip that reaches the property through an instruction outside its list
    still shows."""
    ck.build('isa_rec')
    n = 16
    step = 65536 // n
    files = [os.path.join(ck.work, '%s_all_%02d.ndjson' % (tag, i)) for i in range(n)]
    ck.run_jobs(['%s --mode all:%d..%d:%d --seed %d --out %s' % (ck.bin('isa_rec'), i * step, (i + 1) * step - 1, k,
                                                                ck.seed * 257 + i + seedoff, f) for i, f in enumerate(files)], timeout=900)
    ck.validate_traces('IsaTrace', 'Trace_Isa.cfg', files, timeout=2400, sig_prefix='sweep')
    ck.extra_cov['sweep_records'] = sum(sum(1 for _ in open(f)) for f in files)
    for f in files:
        os.remove(f)


def generator_clause(ck, parts=None, tag='gen'):
    """The project's own hardware-test generator (GenerateTestCasesToFile, about 82k vectors, 4 per enabled opcode), loaded the
    way the project's verifier loads them: IsaTrace additionally requires no abort, pc advance = decoded length, no second
    word for a one-word instruction, every data access inside the two compared windows.  parts: which of the 16 interleaved
    shards to validate (None: all; (0, 4, 8, 12): one vector per opcode)."""
    ck.build('isa_rec')
    gen = os.path.join(ck.work, '%s_cases.bin' % tag)
    ck.run_jobs(['%s --mode genmake:%s --out %s' % (ck.bin('isa_rec'), gen, os.path.join(ck.work, '%s_make.ndjson' % tag))], timeout=600)
    shards = list(range(16)) if parts is None else list(parts)
    gfiles = [os.path.join(ck.work, '%s_%02d.ndjson' % (tag, i)) for i in shards]
    ck.run_jobs(['%s --mode genfile:%s:%d/16 --out %s' % (ck.bin('isa_rec'), gen, i, f) for i, f in zip(shards, gfiles)], timeout=900)
    os.remove(gen)
    ck.validate_traces('IsaTrace', 'Trace_Isa.cfg', gfiles, timeout=2400, sig_prefix='generator')
    ck.extra_cov['generator_vectors'] = sum(sum(1 for _ in open(f)) for f in gfiles)
    # the configurations whose vectors depend on a narrow random placement (r7 pinned inside the Y window, second word an address
    # inside the X window): many states per opcode from the very same generator objects (gen_rec), same file format, same clause
    ck.build('gen_rec')
    xgen = os.path.join(ck.work, '%s_edge.bin' % tag)
    ck.run_jobs(['%s --n %d --out %s' % (ck.bin('gen_rec'), ck.pick(300, 1500) if parts is None else ck.pick(120, 600), xgen)], timeout=900)
    xfiles = [os.path.join(ck.work, '%s_edge_%02d.ndjson' % (tag, i)) for i in range(16)]
    ck.run_jobs(['%s --mode genfile:%s:%d/16 --out %s' % (ck.bin('isa_rec'), xgen, i, f) for i, f in enumerate(xfiles)], timeout=900)
    os.remove(xgen)
    ck.validate_traces('IsaTrace', 'Trace_Isa.cfg', xfiles, timeout=2400, sig_prefix='generator')
    ck.extra_cov['generator_edge_vectors'] = sum(sum(1 for _ in open(f)) for f in xfiles)
    return gfiles


ISA_ASSUMPTIONS = [
    'the TLA+ instruction semantics is a frozen hand transcription of the pinned interpreter.h',
    'states are well formed (fields within hardware widths, lp = (bcn # 0), prpage = 0, pc away from the ends)',
    'TLC, CommunityModules and g++ are trusted; values are boundary-clustered samples, not exhaustive at 40 bits']
