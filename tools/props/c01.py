"""C01 -- instruction effects match the reference semantics.

The reference is made explicit as a TLA+ specification of the whole instruction set (TeakDecode +
TeakRegs + TeakAlu + TeakAddr + TeakMachine + TeakExec/TeakDispatch + TeakCore: 332 handler overloads,
written by hand from the pinned interpreter, frozen in /verif).  Conformance impl -> spec: every 16-bit
first word is executed by the real Interpreter::Run(1) from k random well-formed machine states
(isa_rec); TLC replays CoreCycle on the same state and must predict the outcome class and, for completed
instructions, the complete register state (263 packed integers, shadow banks included), the exact
ordered memory access list with values, the idle flag and the interrupt latches (IsaTrace).
Generator clause: `gen` records are real GenerateTestCasesToFile vectors loaded the way test_verifier
loads them; additionally every data access must fall inside the two compared windows, the outcome must
not be an abort, and pc must advance by the instruction length.
Replay clause, spec -> impl: for a sample of those vectors TLC (TvReplay.tla) loads the `before` state through
the bit-field views, runs one CoreCycle and prints what test_verifier compares; packed as `after` states the
predictions are judged by the REPOSITORY'S OWN src/test_verifier built from the working tree (all must pass;
a copy with one compared field altered per case must fail everywhere, else the oracle is gone).
"""
import os
import vlib
from props import isa_common

FINISH = dict(rule='every first word 0..65535 x k random machine states (k=2 quick, 8 thorough), second word '
                   'boundary-clustered; one record = one real Run(1) compared in full with the TLA+ CoreCycle')


def shards(ck, mode, k, tag, n=16, seedoff=0):
    step = 65536 // n
    files, cmds = [], []
    for i in range(n):
        f = os.path.join(ck.work, '%s_%02d.ndjson' % (tag, i))
        files.append(f)
        cmds.append('%s --mode %s:%d..%d:%d --seed %d --out %s' %
                    (ck.bin('isa_rec'), mode, i * step, (i + 1) * step - 1, k, ck.seed * 131 + i + seedoff, f))
    ck.run_jobs(cmds, timeout=900)
    return files


def run(ck):
    ck.build('isa_rec')
    if ck.thorough:
        for rnd in range(8):
            files = shards(ck, 'all', 1, 'isa%d' % rnd, seedoff=1000 * rnd)
            ck.validate_traces('IsaTrace', 'Trace_Isa.cfg', files, timeout=2400)
            for f in files:
                os.remove(f)
    else:
        files = shards(ck, 'all', 2, 'isa')
        ck.validate_traces('IsaTrace', 'Trace_Isa.cfg', files, timeout=1800)
        ck.sample_lines(files[10], 1, skip=100)
    # generator clause: the project's own GenerateTestCasesToFile output (about 82k vectors, 4 per enabled opcode),
    # loaded as the project's verifier loads it; IsaTrace additionally requires no abort, pc advance = length and
    # every data access inside the two compared windows
    # ... and, the other way round, specification -> implementation through the repository's own verifier: TLC predicts the
    # state test_verifier compares for a sample of the same vectors (TvReplay.tla: loading through the bit-field views, one
    # CoreCycle); the repository's test_verifier must pass every predicted case and fail every case with one altered field
    gfiles = isa_common.generator_clause(ck, replay=True)
    ck.sample_lines(gfiles[0], 1, skip=50)
    ck.assumptions += ['the TLA+ instruction semantics is a hand transcription of the PINNED interpreter.h (C01 names the '
                       'pinned interpreter as the hardware-validated reference); it is frozen in /verif and never derived '
                       'from the code under test at check time',
                       'well-formed states: register fields within their hardware widths, lp = (bcn # 0), prpage = 0, '
                       'pc in [0x80, 0x3FF00] (the unmasked ends of the program space belong to C18)',
                       'one instruction with a C++-undefined shift count (tstb SttMod,Imm16 with imm >= 32) is left undecided',
                       'TLC, CommunityModules and g++ are trusted; memory access ORDER is compared as produced by g++']


def replay(ck, path):
    p = path.split('#')[0]
    if p.endswith('.good.bin'):
        # a TestCase file whose `after` states are the specification's predictions: judged by the repository's own verifier
        import vlib
        ck.build('test_verifier')
        r = vlib.sh('%s %s' % (ck.bin('test_verifier'), p), timeout=1800)
        print(r.stdout[-4000:])
        if r.returncode != 0:
            ck.violation('replay:test_verifier', p, 'test_verifier: ' + (r.stdout.strip().splitlines() or ['?'])[-1])
        return
    ck.validate_traces('IsaTrace', 'Trace_Isa.cfg', [p])
