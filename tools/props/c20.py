"""C20 -- status/config words are faithful bit-field views of one register state.

1. TLC on TeakRegs (RegsTheorems): for each of the 19 words x written value (30 boundary values quick, all
   65536 thorough) x three base states: read-back on writable bits, read-only bits kept (loop flag
   write-one-to-clear incl. bcn), every field outside the word unchanged, cross-view agreement (a field
   shown by two words reads the same through both; TeakLite limit bit = OR of the Teak limit flags).
2. Conformance: RegisterState::Set<T>/Get<T> of the real code on random complete register states
   (regs_rec): complete state after the write and Get<> of all 19 words validated by TLC against
   PSet/PGet; the annotated disassembler's reading of ar/arp words validated against the interpreter-side
   meaning; instruction-level: every encoding that moves/pushes/pops a status word executed by the real
   interpreter and validated in full (IsaTrace).
"""
import os
from props import isa_common

FAMILY = ['mov/Imm16,SttMod', 'mov/Imm16,ArArp', 'mov/Abl,SttMod', 'mov/Abl,ArArp', 'mov/SttMod,Abl', 'mov/ArArp,Abl',
          'push/ArArpSttMod', 'pop/ArArpSttMod', 'mov/ArArpSttMod,MemR7Imm16', 'mov/MemR7Imm16,ArArpSttMod',
          'mov/SttMod,ArRn1,ArStep1', 'mov/ArRn1,ArStep1,SttMod', 'mov/ArArp,ArRn1,ArStep1', 'mov/ArRn1,ArStep1,ArArp', 'alb/Alb,Imm16,SttMod', 'tstb/SttMod,Imm16',
          'mov_icr', 'mov_icr_to', 'push/Register', 'pop/Register', 'mov/Imm16,Register', 'mov/Register,Register',
          'load_ps', 'load_ps01', 'load_page', 'load_movpd', 'load_modi', 'load_stepi', 'dint', 'eint', 'cntx_s', 'cntx_r']
FINISH = dict(rule='19 words x written values x 3 base states (TLC); random register states x random word/value through the '
                   'real Set<>/Get<> (TLC-validated); every encoding of the status-word move/push/pop families')


def run(ck):
    ck.build('regs_rec', 'isa_rec')
    if ck.thorough:
        ck.mc('MC_Regs_all', 'MC_Regs_all.cfg', timeout=3400, coverage=False)
        ck.extra_cov['exhaustive_over_written_values'] = True
    else:
        ck.mc('RegsTheorems', 'MC_Regs_quick.cfg', timeout=1200, coverage=False)
    n = ck.pick(8, 16)
    files = [os.path.join(ck.work, 'regs_%02d.ndjson' % i) for i in range(n)]
    ck.run_jobs(['%s --seed %d --n %d --out %s' % (ck.bin('regs_rec'), ck.seed * 311 + i, ck.pick(4000, 12000), f)
                 for i, f in enumerate(files)])
    ck.validate_traces('RegsTrace', 'Trace_Regs.cfg', files, timeout=1800)
    ck.sample_lines(files[0], 1, skip=2)
    isa_common.family_check(ck, FAMILY, ck.pick(4, 12), 'c20', parts=8, rounds=1)
    isa_common.sweep_all(ck, 'c20', seedoff=2000)
    ck.assumptions += isa_common.ISA_ASSUMPTIONS + [
        'the slot tables of TeakRegs.tla are a hand transcription of register.h, frozen in /verif']


def replay(ck, path):
    p = path.split('#')[0]
    if 'regs_' in os.path.basename(p):
        ck.validate_traces('RegsTrace', 'Trace_Regs.cfg', [p])
    else:
        ck.validate_traces('IsaTrace', 'Trace_Isa.cfg', [p])
