"""C16 -- audio FIFO: every queued word is output once, in order, one frame per period.

1. TLC, exhaustive (Btdmp.tla = the transmit half of one port as the code has it, one operator per entry
   point, + ghost input/output history + the properties of the statement), every history of
   Send / Flush / SetEnable / SetClockConfig / SetPeriod / Reset / Tick / Skip(k <= reported horizon):
     MC_Btdmp_asis (quick) / MC_Btdmp_asis_big (thorough)  Skip as pinned, period only ever set above the
                     running phase (never 0): FifoOrder, NothingLost (= drop when full), ZerosOnlyWhenShort,
                     FlagsExact, TickRules, SendFlushRules, OneFramePerPeriod, DisabledIsSilent,
                     SkipIsTicks (Skip(k) = Tick^k on the whole state and the ordered callback log),
                     NoIrqInHorizon, SkipNeverFails, action property IrqExactlyOnEmptyingPop;
     MC_Btdmp (quick) / MC_Btdmp_big (thorough)  the same properties for the repaired Skip with the
                     period changed freely (below the phase, 0 included).
   quick: capacity 4, periods 0..3, words {0,1}; thorough: capacity 6, periods 0..4, words {0,1,2}.
2. TLC on the pinned Skip with free period changes must show the defect twice: MC_Btdmp_pinned
   (SkipIsTicks: Skip restarts the phase when transmit_timer >= transmit_period, also for k = 0) and
   MC_Btdmp_pinned_p0 (SkipNeverFails: period 0 divides by zero).
3. Conformance impl -> spec: random histories on real Btdmp objects in the wiring of Teakra::Impl
   (capacity 16, periods {1,2,3,7,4096,...,65535,0}, calls directly / through MMIO 0x2A2.. / through
   CoreTiming, k in {0,1,h-1,h,random<=h,h+1,..}), every call validated by TLC against the same operators
   (BtdmpTrace.tla): complete private state, ordered audio-callback and interrupt log, outcome, horizon,
   getters, MMIO read-back; the ghost history runs along, so the FIFO properties and Skip(k)=Tick^k
   (k <= 12) are re-evaluated at full width on every observed state.

Defect (Btdmp::Skip mishandles transmit_timer >= transmit_period).  Until the repair is in the tree under
test the recorded executions are validated against Trace_Btdmp_pinned.cfg and a directed history shows
the defect on the real code (it must be rejected by Trace_Btdmp.cfg).  Set REPO_HAS_SKIP_FIX = True (or
C16_FIXED=1 in the environment) once the fix is committed: from then on Trace_Btdmp.cfg is what every
execution is validated against.
"""
import json
import os
import vlib

REPO_HAS_SKIP_FIX = True

FINISH = dict(rule='exhaustive TLC model checking of the transmit FIFO (capacity 4/6, periods 0..4, all '
                   'histories, Skip(k) = Tick^k for all k up to the horizon) + TLC trace validation of random '
                   'direct/MMIO/CoreTiming histories on real Btdmp objects at capacity 16')


def fixed():
    e = os.environ.get('C16_FIXED')
    if e is not None and e != '':
        return e not in ('0', 'false', 'no')
    return REPO_HAS_SKIP_FIX


def trace_cfg():
    return 'Trace_Btdmp.cfg' if fixed() else 'Trace_Btdmp_pinned.cfg'


def run(ck):
    ck.build('btdmp_rec')
    # 1. design level
    ck.mc('Btdmp', ck.pick('MC_Btdmp_asis.cfg', 'MC_Btdmp_asis_big.cfg'), timeout=3000)
    ck.mc('Btdmp', ck.pick('MC_Btdmp.cfg', 'MC_Btdmp_big.cfg'), timeout=3000)
    # 2. the model of the unrepaired code must show the defect
    r = ck.mc('Btdmp', 'MC_Btdmp_pinned.cfg', workers=2, must_hold=False, coverage=False)
    if r.violated != 'SkipIsTicks':
        raise vlib.Infra('the pinned Btdmp::Skip model no longer violates SkipIsTicks (model drifted)')
    r = ck.mc('Btdmp', 'MC_Btdmp_pinned_p0.cfg', workers=2, must_hold=False, coverage=False)
    if r.violated != 'SkipNeverFails':
        raise vlib.Infra('the pinned Btdmp::Skip model no longer violates SkipNeverFails at period 0 (model drifted)')
    # 2b. real constants (16-bit phase and period, capacity 16, k up to 2^31), symbolically: on the length abstraction of the
    #     port, the induction step Skip(k+1) = Tick(Skip(k)) below the horizon (same state, one more frame exactly when the tick
    #     transmits, no interrupt), Skip(0) = identity, the horizon is tight for positive periods, and the facts about reachable
    #     states these lemmas assume (exact flags, phase < 65535) are inductive over every call (Apalache on BtdmpInd.tla);
    #     TLC checks for ALL concrete port states at the scaled constants that BtdmpInd's operators are the length
    #     abstraction of Btdmp.tla's (which frame carries which word is order of pops alone: SkipIsTicks above)
    ck.mc('BtdmpIndSame', 'MC_BtdmpIndSame.cfg', workers=4, coverage=False)
    for lemma in ('IndLemma', 'ZeroLemma', 'HorizonLemma', 'StepLemma'):
        ck.apalache('BtdmpInd', 'BtdmpInd.cfg', lemma, timeout=1800)
    # 3. impl -> spec (the directed history first: it tells which Skip the tree has)
    directed(ck)
    files = record(ck)
    ck.validate_traces('BtdmpTrace', trace_cfg(), files)
    ck.sample_lines(files[0], 2, skip=30)
    # 4. in the composed machine: guest programs feeding both ports through the MMIO registers (period shortened
    #    at construction), frames/interrupts/flags compared with System.tla at every slice; idle programs go
    #    through Btdmp::Skip inside Interpreter::Run while the specification only ticks
    if fixed():
        from props import sys_common
        ck.build('sys_rec')
        sfiles = sys_common.record(ck, ck.pick(4, 16), ck.pick(4, 12), tag='sysio', mode='io', seedoff=500)
        # idle / polling programs with BOTH ports in use (port 1 never has an audio callback in the composed machine), queues
        # filled before or after enabling, short periods, slices down to 2..5 cycles
        sfiles += sys_common.record(ck, ck.pick(6, 16), ck.pick(6, 12), tag='sysaud', mode='audio', seedoff=1500)
        sfiles += sys_common.record(ck, ck.pick(2, 8), ck.pick(4, 10), tag='syslong', mode='long', seedoff=1700)     # periods in the thousands, long runs
        sys_common.validate(ck, sfiles)
    ck.extra_cov['trace_cfg'] = trace_cfg()
    ck.assumptions += ['Btdmp.tla is a faithful reading of the C16 statement and of src/btdmp.md (reviewed by hand)',
                       'TLC, the Json/IOUtils community modules and g++ are trusted',
                       'capacity 16, 16-bit words and periods up to 65535: the counting part of Skip(k) = Tick^k (phase, queue '
                       'length, flags, number of frames, no interrupt) is proved for all states by Apalache/SMT on the length '
                       'abstraction (BtdmpInd.tla); queue contents and multi-call histories are exhaustive at the scaled constants '
                       'and sampled at full width by trace validation; Apalache and Z3 are trusted',
                       'Skip(k) for k beyond the reported horizon is outside the statement; the recorder goes there '
                       'only to bind the deliberate assertion, and ends that history',
                       'the interrupt handler is installed (Tick on an object without one throws '
                       'std::bad_function_call; Teakra always installs it); the receive half of the port is not '
                       'implemented in the code and not modelled']
    if not fixed():
        ck.assumptions.append('defect pending: Btdmp::Skip restarts the phase / divides by zero when '
                              'transmit_timer >= transmit_period; only reachable through SetTransmitPeriod '
                              '(period lowered to or below the running phase, or 0), which no MMIO register and '
                              'no caller inside the emulator uses (the period is always 4096 there); executions '
                              'validated against Trace_Btdmp_pinned.cfg, the as-pinned model checking excludes '
                              'that trigger (PhaseKept)')


def record(ck):
    nfiles = ck.pick(8, 32)
    n = ck.pick(4000, 15000)
    files = [os.path.join(ck.work, 'btdmp_%d.ndjson' % i) for i in range(nfiles)]
    ck.run_jobs(['%s --seed %d --n %d --out %s' % (ck.bin('btdmp_rec'), ck.seed * 1000 + i, n, f)
                 for i, f in enumerate(files)])
    return files


def directed(ck):
    """Directed histories around Skip with transmit_timer >= transmit_period on the real code."""
    f = os.path.join(ck.work, 'btdmp_directed.ndjson')
    side = os.path.join(ck.work, 'btdmp_repro.json')
    ck.run_jobs(['%s --mode directed --out %s' % (ck.bin('btdmp_rec'), f),
                 '%s --mode repro --out %s' % (ck.bin('btdmp_rec'), side)])
    if fixed():
        ck.validate_traces('BtdmpTrace', 'Trace_Btdmp.cfg', [f], sig_prefix='trace-directed')
        return
    # unrepaired tree: the pinned model must explain it, the repaired model must not
    ck.validate_traces('BtdmpTrace', 'Trace_Btdmp_pinned.cfg', [f], sig_prefix='trace-directed')
    r = vlib.run_tlc('BtdmpTrace', 'Trace_Btdmp.cfg', '%s_directed_fixed' % ck.tag, env={'TRACE': f})
    if r.matched is None:
        raise vlib.Infra('TLC failed on the directed Skip history:\n' + r.out[-2000:])
    if r.matched[0] == r.matched[1]:
        raise vlib.Infra('the tree under test accepts the directed Skip history under Trace_Btdmp.cfg: the '
                         'repair of Btdmp::Skip seems to be in -- set REPO_HAS_SKIP_FIX = True in tools/props/c16.py')
    line = open(f).read().splitlines()[r.matched[0]]
    seen = [json.loads(x) for x in open(side).read().splitlines() if x.strip()]
    ck.extra_cov['pending_defect_skip_overrun'] = {
        'reproduced_on_real_code': True, 'history': os.path.basename(f),
        'first_line_the_repaired_model_rejects': r.matched[0] + 1, 'line': line[:300],
        'skip_vs_ticks_on_real_code': seen}
    for d in seen[:2]:
        ck.sample(d)
    if not ck.known_finding_seen('trace:Skip-overrun'):
        print('NOTE property=C16 defect reproduced on the tree under test (Btdmp::Skip with transmit_timer >= '
              'transmit_period restarts the phase, also for k = 0; period 0 divides by zero): history line %d '
              'rejected by Trace_Btdmp.cfg; validating against Trace_Btdmp_pinned.cfg until the repair is committed'
              % (r.matched[0] + 1))


def replay(ck, path):
    path = path.split('#')[0]
    ck.build('btdmp_rec')
    if path.endswith('.ndjson'):
        ck.validate_traces('BtdmpTrace', trace_cfg(), [path])
    else:
        print(open(path).read()[-4000:])
