"""C08 -- calls, returns, stack push/pop and context switches restore state exactly.

1. TLC evaluates the round-trip theorems on the specification's own semantics (RoundTrip.tla over
   TeakCore!CoreCycle) from random complete register states: push X ; pop X for every pushable register /
   accumulator part / status word / r6 / repc / x0 / x1 / y1 / prpage / products / whole accumulators,
   call / callr / calla ; ret for both pc word orders, interrupt entry on each line ; reti / retic,
   cntx s ; cntx r, banke f ; banke f, bankr ; bankr: value and sp restored, resume address, ie, every
   program-visible register and two-way bank as before, one-way slots take the saved values.
2. Conformance: every encoding of the push / pop / pusha / popa / call / calla / callr / ret / reti / retic /
   rets / cntx / banke / bankr families executed by the real interpreter from random states (shadow banks
   filled with junk) and validated in full by TLC (IsaTrace), so that each half of every pair is bound to
   the specification; interrupt entry/exit with context switches also in the system traces of C07.
"""
import os
from props import isa_common

FAMILY = ['push', 'push_prpage', 'push_r6', 'push_repc', 'push_x0', 'push_x1', 'push_y1', 'pusha', 'pop', 'pop_prpage',
          'pop_r6', 'pop_repc', 'pop_x0', 'pop_x1', 'pop_y1', 'popa', 'call', 'calla', 'callr', 'ret', 'reti', 'retic',
          'rets', 'cntx_s', 'cntx_r', 'banke', 'bankr', 'br', 'brr', 'mov_pc', 'movpdw']
FINISH = dict(rule='round-trip theorems evaluated by TLC on the specification from random complete register states; every '
                   'encoding of the stack / call / return / context / bank families validated in full against the real interpreter')


def run(ck):
    ck.build('regs_rec', 'isa_rec')
    n = ck.pick(8, 16)
    files = [os.path.join(ck.work, 'states_%02d.ndjson' % i) for i in range(n)]
    ck.run_jobs(['%s --mode states --seed %d --n %d --out %s' % (ck.bin('regs_rec'), ck.seed * 577 + i, ck.pick(250, 1500), f)
                 for i, f in enumerate(files)])
    ck.validate_traces('RoundTrip', 'Trace_RoundTrip.cfg', files, timeout=3000, jvm=['-Xss64m'])
    isa_common.family_check(ck, FAMILY, ck.pick(4, 12), 'c08', rounds=ck.pick(1, 2))
    isa_common.sweep_all(ck, 'c08', seedoff=800)
    # in-system clause: interrupt entry / return and the context switch made by the entry (line and vectored, one flag per
    # source, several sources raised by one trigger write) in guest programs on a real Teakra, single-stepped and sliced;
    # the complete state after every slice must be that of System.tla, i.e. the interrupted stream resumes exactly
    from props import sys_common
    ck.build('sys_rec')
    sfiles = sys_common.record(ck, ck.pick(6, 16), ck.pick(6, 16), tag='c08step', mode='step', seedoff=8100)
    sfiles += sys_common.record(ck, ck.pick(6, 16), ck.pick(6, 16), tag='c08irq', seedoff=8200)
    sfiles += sys_common.record(ck, ck.pick(4, 12), ck.pick(6, 12), tag='c08irqm', mode='irq', seedoff=8300)
    sys_common.validate(ck, sfiles)
    ck.assumptions += isa_common.ISA_ASSUMPTIONS + [
        'product push/pop is stated with the product shifter off (C04 makes every product read apply the shift, so a '
        'shifted push cannot restore the raw product); status words are compared on their writable bits']


def replay(ck, path):
    p = path.split('#')[0]
    if os.path.basename(p).startswith('c08'):
        from props import sys_common
        sys_common.validate(ck, [p])
    elif 'states_' in os.path.basename(p):
        ck.validate_traces('RoundTrip', 'Trace_RoundTrip.cfg', [p], jvm=['-Xss64m'])
    else:
        ck.validate_traces('IsaTrace', 'Trace_Isa.cfg', [p])
