"""C13 -- a DMA transfer copies exactly the documented 3-D strided element sequence.

1. TLC, exhaustive (Dma.tla + Ahbm.tla through MC_Dma.tla):
   MC_Dma.cfg      DSP<->DSP, limb base/counter width B=4: sizes 0..3 (all 64 triples) x 80 pairs of
                   step triples over {0,1,2,-1 mod B} x word/double-word x overlapping bases.
   MC_Dma_ext.cfg  one or both sides external (AHBM), B=8: unit 8/16/32 x burst 1/4/8, steps {1,2,4},
                   aligned and unaligned bases, all six space x mode combinations.
   (thorough: MC_Dma_full = all 4096 step-triple pairs, MC_Dma_b8, MC_Dma_ext_full, MC_Dma_ext_unk.)
   Every configuration runs Start; Tick*; Finish over an explicit memory.  Invariants: cursors = closed
   form of dma.md at every element (CursorsClosedForm), the loop stops after exactly Count elements
   (Terminates), one interrupt after the last element (OneIrq), final memories = elements copied one by
   one in element order and nothing else changed (DataCopied, FootprintOnlyDst), the ordered accesses are
   exactly the closed-form reads/writes with the value read (AccessesClosedForm, ElementOrder); AHBM
   natural-case theorems and the worked example of dma.md as ASSUMEs.
   MC_Dma_oob_pinned.cfg: with the DSP address formation as coded (RealMap) NoOob is violated (D9, for C18).
2. TLC, MC_Dma_pinned.cfg: Channel::Tick as pinned must violate Terminates (defect D8: double-word mode,
   size0 = B-1 = 0xFFFF: u16 counter0 += 2 wraps past size0); MC_Dma_fixedD8.cfg: the proposed repair
   satisfies everything on the same configurations.
3. Conformance, impl -> spec (dma_rec): random transfers on real Dma+Ahbm objects stand-alone and inside
   a full Teakra through MMIO; every DSP-memory access (memory hook) and every external callback, the
   interrupt count, ICU bit 15, final cursors/counters and the complete AHBM state are validated by TLC
   against TickOp element by element (DmaTrace.tla), with the property invariants evaluated on every
   state of the observed executions at full 32-bit width.
4. Reproducers on the real code: D8 (transfer still running after 0x8000+64 elements, watchdog), and the
   D9 probe for C18 (DSP-side cursor leaving the data memory; C13 itself keeps cursors inside).
"""
import concurrent.futures as cf
import json
import os

import vlib

FINISH = dict(rule='exhaustive TLC model checking of Dma.tla/Ahbm.tla at scaled widths (loop as coded vs closed-form '
                   '3-D sequence, termination, one interrupt, memory footprint, element order, AHBM natural cases) + '
                   'TLC trace validation of random transfers recorded from real Dma/Ahbm objects and from a full '
                   'Teakra through MMIO (every memory access and external callback, full post-state)')

D8_SIG = 'defect:D8-dma-dword-size0-0xFFFF-never-terminates'
INV_ALL = 'all property invariants'


def run(ck):
    ck.build('dma_rec')
    with cf.ThreadPoolExecutor(3) as ex:
        f_mc = ex.submit(model_check, ck)
        f_tr = ex.submit(conformance, ck)
        f_rp = ex.submit(reproducers, ck)
        for f in (f_mc, f_tr, f_rp):
            f.result()
    # in the composed machine: guest programs that configure the AHB bridge and several DMA channels through the MMIO window
    # and start transfers (16/32-bit, DSP<->DSP, DSP<->external, three dimensions, unaligned double words), the irq 15
    # handler, host AHBM calls between slices; every cell written, every external access in order, channel and bridge
    # state incl. burst FIFOs compared with System.tla (operators of Dma.tla / Ahbm.tla) after every slice
    from props import sys_common
    ck.build('sys_rec')
    sfiles = sys_common.record(ck, ck.pick(6, 16), ck.pick(6, 12), tag='sysdma', mode='dma', seedoff=2100)
    sys_common.validate(ck, sfiles)
    ck.assumptions += [
        'Dma.tla/Ahbm.tla are a faithful reading of the C13 statement and of dma.md/ahbm.md (reviewed by hand); in '
        'double-word mode an odd size0 is read as ceil(size0/2) double words',
        'C13 is evaluated with DSP-side cursors inside the data memory (cursor < 0x20000); anything else is C18 '
        '(defect D9, probe recorded in this evidence)',
        'the external-memory clause is claimed for the natural cases only: 16-bit units in word mode / 32-bit units in '
        'double-word mode at naturally aligned addresses, bursts with consecutive elements one unit apart, a whole '
        'number of bursts, an empty queue at the start, not both sides external with bursts; all other AHBM '
        'behaviour (hardware-tested quirks, queue leftovers across transfers) is transcribed as-is and bound by traces',
        'the memory hook sees every SharedMemory access; the recorder also checks that the final memory equals the '
        'initial memory plus the logged writes (memok), so an unlogged write cannot go unnoticed',
        'TLC, Apalache/Z3, the Json/IOUtils community modules and g++ are trusted; at full width the counter/cursor loop is '
        'proved equal to the closed form by induction (Apalache, DmaInd.tla: base, digit successor, index, floor and '
        'offset-form lemmas in both tiers, the step lemma in the thorough tier); the memory side (what is read and '
        'written at those addresses) is exhaustive at the scaled limb base and sampled at full width by traces',
    ]


# ------------------------------------------------------------------ 1, 2: design level
def model_check(ck):
    w = 8
    if ck.thorough:
        ck.mc('MC_Dma', 'MC_Dma_full.cfg', workers=12, timeout=3400, xmx='8g')
        ck.mc('MC_Dma', 'MC_Dma_b8.cfg', workers=12, timeout=1800)
        ck.mc('MC_Dma', 'MC_Dma_ext_full.cfg', workers=12, timeout=3400, xmx='8g')
        ck.mc('MC_Dma', 'MC_Dma_ext_unk.cfg', workers=12, timeout=1800)
    else:
        with cf.ThreadPoolExecutor(2) as ex:
            a = ex.submit(ck.mc, 'MC_Dma', 'MC_Dma.cfg', workers=w, timeout=900)
            b = ex.submit(ck.mc, 'MC_Dma', 'MC_Dma_ext.cfg', workers=w, timeout=900)
            a.result(), b.result()
    # full width (all 16-bit sizes and steps, 32-bit cursors), symbolically: the counter/cursor loop walks the closed-form
    # element sequence, by induction over the ticks (Apalache on DmaInd.tla); TLC compares DmaInd!Step with Dma.tla!Step
    # for every channel state at the scaled base.  The step lemma takes ~10 minutes: thorough tier.
    ck.mc('DmaIndSame', 'MC_DmaIndSame.cfg', workers=8, coverage=False, timeout=1800)
    for inv in ('BaseLemma', 'IndexSucc', 'Floor', 'OffsetForms') + (('StepLemma',) if ck.thorough else ()):
        ck.apalache('DmaInd', 'DmaInd.cfg', inv, timeout=3400)
    r = ck.mc('MC_Dma', 'MC_Dma_pinned.cfg', workers=2, must_hold=False, coverage=False)
    if r.violated != 'Terminates':
        raise vlib.Infra('the pinned Channel::Tick model no longer shows defect D8 (model drifted): %s' % r.violated)
    ck.mc('MC_Dma', 'MC_Dma_fixedD8.cfg', workers=2, coverage=False)
    # D9 at scale (for C18): with the address formation as coded, nothing keeps the cursor inside the data memory
    r = ck.mc('MC_Dma', 'MC_Dma_oob_pinned.cfg', workers=2, must_hold=False, coverage=False)
    if r.violated != 'NoOob':
        raise vlib.Infra('the scaled model of the DSP-side address formation no longer shows D9: %s' % r.violated)


# ------------------------------------------------------------------ 3: conformance
def record(ck):
    nfiles = ck.pick(16, 32)
    budget = ck.pick(9000, 50000)       # elements per file
    files = [os.path.join(ck.work, 'dma_%d.ndjson' % i) for i in range(nfiles)]
    mode = '--mode thorough ' if ck.thorough else ''
    ck.run_jobs(['%s %s--seed %d --n %d --out %s' % (ck.bin('dma_rec'), mode, ck.seed * 1000 + i, budget, f)
                 for i, f in enumerate(files)])
    return files


def conformance(ck):
    files = record(ck)
    ck.validate_traces('DmaTrace', 'Trace_Dma.cfg', files, timeout=1800)
    n_dma = n_ev = 0
    for f in files[:4]:
        for ln in open(f):
            if '"e":"Dma"' in ln:
                n_dma += 1
                n_ev += ln.count('],[') + 1
    ck.extra_cov['sampled_transfers'] = {'files': 4, 'transfers': n_dma, 'logged_accesses': n_ev}
    # one short transfer as a sample
    for ln in open(files[0]):
        if '"e":"Dma"' in ln and len(ln) < 700:
            ck.sample(json.loads(ln))
            break


# ------------------------------------------------------------------ 4: reproducers on the real code
def reproducers(ck):
    d8 = os.path.join(ck.work, 'repro_d8.ndjson')
    d9 = os.path.join(ck.work, 'repro_d9.ndjson')
    ck.run_jobs(['%s --mode d8 --n %d --out %s' % (ck.bin('dma_rec'), ck.pick(1, 2), d8),
                 '%s --mode d9 --out %s' % (ck.bin('dma_rec'), d9)])

    # D9 probe (belongs to C18): the as-is model must explain the attempted out-of-range accesses
    ck.validate_traces('DmaTrace', 'Trace_Dma_asis.cfg', [d9], sig_prefix='trace-d9')
    oob = []
    for ln in open(d9):
        if '"e":"Dma"' in ln:
            d = json.loads(ln)
            k = [e for e in d['log'] if e[0] in (8, 9)]
            if k:
                oob.append({'path': d['path'], 'cfg': d['cfg'], 'first_oob_access': k[0], 'oob_accesses': len(k)})
    ck.extra_cov['d9_probe_for_C18'] = {
        'note': 'DSP-side cursor outside the data memory: access attempted at the logged byte address, vetoed by the '
                'memory hook; event = [kind 8 read/9 write, byte_addr_hi, byte_addr_lo, value_hi, value_lo]',
        'configurations': oob[:8]}

    # D8: does the unchanged code still hang?
    lines = [json.loads(ln) for ln in open(d8)]
    hung = [d for d in lines if d.get('e') == 'DmaLong' and d['cfg'][4] == 0xFFFF and d['out'] == 'watchdog']
    if hung:
        # the as-is model (FixedD8 = FALSE) must explain the recorded hang completely ...
        ok = ck.validate_traces('DmaTrace', 'Trace_Dma_asis.cfg', [d8], timeout=1800, sig_prefix='trace-d8')
        if ok:
            keep = os.path.join(ck.replay_dir, 'repro_d8.ndjson')
            with open(keep, 'w') as f:
                f.write(open(d8).read())
            d = hung[0]
            ck.sample({'defect': 'D8', 'cfg': d['cfg'], 'elements_run': d['nt'], 'expected_elements': 0x8000,
                       'state_when_stopped[cs_hi,cs_lo,cd_hi,cd_lo,c0,c1,c2,running,ach]': d['fin'], 'irq': d['irq']})
            # ... and it is a violation of C13 (termination / exactly Count elements / one interrupt)
            ck.violation(D8_SIG, keep,
                         'unchanged code: double-word mode with size0 = 0xFFFF never terminates -- still running after '
                         '%d elements (0x8000 expected), counter0 = %d, no interrupt; Dma.tla reproduces it with '
                         'FixedD8 = FALSE (MC_Dma_pinned.cfg: Terminates violated) and the recorded run is explained '
                         'by the as-is model element by element' % (d['nt'], d['fin'][4]))
    else:
        # the code no longer hangs: it must then behave as the repaired model, with all invariants
        ck.validate_traces('DmaTrace', 'Trace_Dma_fixedD8.cfg', [d8], timeout=1800, sig_prefix='trace-d8')
        ck.extra_cov['d8'] = 'not reproduced: the D8 trigger terminates and matches the FixedD8 = TRUE model'


def replay(ck, path):
    """Re-validate one recorded file.  The reproducer files (repro_d8 / repro_d9) are replayed WITH the property
    invariants, so the replay shows which statement of C13 the recorded execution breaks."""
    ck.build('dma_rec')
    path = path.split('#')[0]
    if path.endswith('.ndjson'):
        # work on a copy: validate_traces copies a rejected file into the replay directory, where this one may live
        tmp = os.path.join(ck.work, os.path.basename(path))
        with open(tmp, 'w') as f:
            f.write(open(path).read())
        ck.validate_traces('DmaTrace', 'Trace_Dma.cfg', [tmp], timeout=1800)
    else:
        print(open(path).read()[-4000:])
