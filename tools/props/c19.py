"""C19 -- the host mailbox/semaphore API is race-free and loses nothing against a running DSP.

1. TLC, all interleavings (ApbpConc.tla): host thread || DSP thread over apbp_from_cpu, apbp_from_dsp, the
   ICU and the interpreter latch AT THE LOCK GRANULARITY OF THE CODE (one step per critical section, the
   data handler after the unlock, the semaphore handler with the recursive mutex held, ICU mutex across
   on_interrupt, latch = atomic exchanged at cycle boundaries), host callbacks re-entering the API on the
   DSP thread.  MC_ApbpConc*.cfg: invariants ValuesOK (received values were sent, in send order), LocksetOK
   (locking discipline), NoDeadlock, HeldOK, OwedSafe, action property TrigDelivers;  MC_ApbpConc_live*.cfg:
   FairSpec (weak fairness of both threads, no state constraint) with LastSeen, HandlerOwed, LatchConsumed,
   IrqTaken.  MC_ApbpConc_mask*.cfg: the path opened by fix bf7856c -- MaskSemaphore calls the semaphore handler
   on the CALLING thread with the recursive mutex held (host callback on the host thread re-entering
   RecvData/GetSemaphore/ClearSemaphore; ICU trigger on the DSP thread for MMIO 0x0CE).
2. TLC, pinned models: MC_ApbpConc_pinned.cfg (DataChannel::SetDisableInterrupt without the mutex: D7 as first
   pinned, repaired by 2b7c59d) and MC_ApbpConc_pinned_vec.cfg (ICU vector registers, repaired by c4156dd) must violate
   LocksetOK; MC_ApbpConc_mut_inside.cfg (seeded
   mutation: handler called inside the lock) must violate NoDeadlock -- keeps the model honest.
4. Hammer (hammer_rec, plain build): millions of two-thread episodes of one to three calls per thread on a real
   Teakra, released together; identical episodes are one outcome class, every class must have an explaining
   interleaving (ApbpConcTrace, Trace_ApbpConc_hammer.cfg).  Reaches windows of a few instructions inside one call
   (e.g. a receive split into two critical sections), which the long protocol runs of clause 3 hit only by luck.
3. Conformance, impl -> spec: conc_rec built with -fsanitize=thread runs a real Teakra with a DSP thread
   (guest program + DSP-side MMIO accesses) and a host thread, per-thread event sequences only; TLC
   (ApbpConcTrace.tla, depth-first) searches for an interleaving of the two sequences that the same
   micro-operations explain.  ThreadSanitizer reports arrive as Race events, the watchdog's as Stuck; neither
   has an explanation.  Three modes: base (no DSP-side writes of 0x0D4 / vector registers: must be clean),
   dis (DSP thread writes the disable-interrupt bits while the host sends: clean since fix 2b7c59d, a report
   there is a violation again), vec (DSP thread writes the
   vector registers of irq 14 while the host triggers it with vectored delivery on: clean since fix c4156dd).
"""
import concurrent.futures as cf
import json
import os
import re

import vlib

FINISH = dict(rule='all interleavings of host || DSP at lock granularity (TLC, ApbpConc.tla) + interleaving search '
                   'explaining two-thread executions of the real Teakra recorded under ThreadSanitizer '
                   '(ApbpConcTrace.tla); data races are observed by ThreadSanitizer on those executions, the model '
                   'decides the locking discipline')

TSAN_ENV = {'TSAN_OPTIONS': 'exitcode=0 halt_on_error=0 report_signal_unsafe=0'}


def norm_var(v):
    """racing variable as reported by the driver -> signature (the variable, not the channel instance)"""
    m = re.match(r'(apbp_from_\w+)\.channel\d\.(\w+)$', v)
    if m:
        return 'DataChannel::' + m.group(2)
    m = re.match(r'(apbp_from_\w+)\.(\w+)$', v)
    if m:
        return 'Apbp::' + m.group(2)
    if v.startswith('icu.vector_'):
        return 'ICU::vector_registers'
    if v.startswith('icu.'):
        return 'ICU::' + v[4:]
    return v


def run(ck):
    ck.build('conc_rec', flavour='tsan')

    # ---- 1/2. design level, several TLC runs side by side
    th = ck.thorough
    jobs = [
        # (cfg, workers, must_hold, expected violation, timeout)
        ('MC_ApbpConc.cfg', 4, True, None, 3000),
        ('MC_ApbpConc_cb.cfg', 3, True, None, 3000),
        ('MC_ApbpConc_mask.cfg', 4, True, None, 3000),
        (ck.pick('MC_ApbpConc_live.cfg', 'MC_ApbpConc_live_thorough.cfg'), 2, True, None, 3000),
        (ck.pick('MC_ApbpConc_mask_live_q.cfg', 'MC_ApbpConc_mask_live.cfg'), 3, True, None, 3000),
        ('MC_ApbpConc_vec.cfg', 2, True, None, 900),
        ('MC_ApbpConc_pinned.cfg', 1, False, 'LocksetOK', 600),
        ('MC_ApbpConc_pinned_vec.cfg', 1, False, 'LocksetOK', 600),
        ('MC_ApbpConc_mut_inside.cfg', 1, False, 'NoDeadlock', 600),
    ]
    if th:
        jobs = [('MC_ApbpConc_thorough.cfg', 6, True, None, 6000), ('MC_ApbpConc_mid.cfg', 4, True, None, 3000)] + jobs

    def one(j):
        cfg, workers, must_hold, _, timeout = j
        return ck.mc('ApbpConc', cfg, workers=workers, must_hold=must_hold, coverage=False, timeout=timeout)
    with cf.ThreadPoolExecutor(len(jobs)) as ex:
        res = list(ex.map(one, jobs))
    for j, r in zip(jobs, res):
        if j[3] and r.violated != j[3]:
            raise vlib.Infra('%s no longer shows the expected counterexample (%s, got %s): model drifted'
                             % (j[0], j[3], r.violated))

    # ---- 3. conformance
    files = record(ck)
    clean = triage(ck, files)
    ck.validate_traces('ApbpConcTrace', 'Trace_ApbpConc.cfg', clean, deque=True, timeout=1500)
    hammer(ck)
    # 5. "every send with interrupts enabled is followed by an interrupt delivery", sequentially and in the composed
    #    machine: host calls between slices of guest programs that service the mailbox interrupt; ICU request,
    #    latches, handler entry and every callback must be those of System.tla (SysTrace)
    from props import sys_common
    ck.build('sys_rec')
    sfiles = sys_common.record(ck, ck.pick(4, 16), ck.pick(4, 12), tag='c19io', mode='io', seedoff=1700)
    sys_common.validate(ck, sfiles)
    for f in files[:2]:
        try:
            with open(f) as fh:
                r = json.loads(fh.readline())
            ck.sample({'file': os.path.basename(f), 'cfg': r['cfg'], 'host': r['h'][:6], 'dsp': r['d'][:10],
                       'after_join': r['q'][-2:], 'x': r['x']})
        except Exception:
            pass
    ck.assumptions += [
        'ApbpConc.tla is a faithful reading of the C19 statement and of the locking in apbp.cpp/icu.h/'
        'interpreter.h (written by hand, frozen)',
        'data-race freedom in the C++ memory-model sense is OBSERVED by ThreadSanitizer on the recorded '
        'executions, not decided by the model; the model decides the locking discipline (LocksetOK)',
        'the guest program handles the APBP interrupt (ack, status, fetch, echo, semaphore forward) and polls the '
        'status register; the remaining DSP-side polls/writes are made natively by the thread that executes Run, '
        'between Run slices, through Teakra::MMIORead/MMIOWrite',
        'the interleaving search accepts a run if SOME interleaving of the two per-thread sequences is a behaviour '
        'of the specification (no cross-thread order is recorded, on purpose: a shared counter would hide races)',
        'TLC, the Json/IOUtils/Bitwise community modules, g++ and libtsan are trusted',
    ]


def hammer(ck):
    """Atomicity windows of a few instructions: millions of tiny two-thread episodes (hammer_rec), deduplicated into
    outcome classes, every class explained by an interleaving of ApbpConc's micro-operations or reported."""
    ck.build('hammer_rec')
    nproc = ck.pick(3, 8)
    rounds = ck.pick(150000, 1000000)
    files = [os.path.join(ck.work, 'hammer_%d.ndjson' % i) for i in range(nproc)]
    ck.run_jobs(['%s --seed %d --n %d --out %s' % (ck.bin('hammer_rec'), ck.seed * 31 + i, rounds, f) for i, f in enumerate(files)],
                timeout=2400, par=3)
    episodes = classes = 0
    for f in files:
        for ln in open(f):
            classes += 1
            episodes += json.loads(ln).get('n', 0)
    ck.extra_cov['hammer_episodes'] = episodes
    ck.extra_cov['hammer_outcome_classes'] = classes
    ck.validate_traces('ApbpConcTrace', 'Trace_ApbpConc_hammer.cfg', files, deque=True, timeout=1500, sig_prefix='hammer')


def record(ck):
    per_mode = ck.pick({'base': 10, 'dis': 3, 'vec': 3}, {'base': 20, 'dis': 6, 'vec': 6})
    nruns = ck.pick(10, 60)
    files, cmds = [], []
    k = 0
    for mode, cnt in per_mode.items():
        for i in range(cnt):
            f = os.path.join(ck.work, 'conc_%s_%d.ndjson' % (mode, i))
            files.append(f)
            cmds.append('%s --seed %d --n %d --mode %s --out %s 2> %s.tsan.txt' %
                        (ck.bin('conc_rec', 'tsan'), ck.seed * 1000 + k, nruns, mode, f, f))
            k += 1
    ck.run_jobs(cmds, timeout=1200, env=TSAN_ENV)
    return files


def triage(ck, files):
    """Race / Stuck / Fault events have no action in the trace specification.  They are reported here with the
    racing variable as signature (so that a listed finding is recognised), and the REST of the file is still
    handed to TLC (the run that carries the event is taken out, everything else must be explained)."""
    out = []
    seen = {}   # signature -> how often; only the first occurrence of a signature is reported in full
    for f in files:
        lines = open(f).read().splitlines()
        keep, bad = [], []
        for n, ln in enumerate(lines, 1):
            try:
                r = json.loads(ln)
            except Exception:
                r = {'e': 'Garbage', 'x': []}
            if r.get('e') == 'Run' and not r.get('x'):
                keep.append(ln)
                continue
            bad.append((n, r))
        if not lines:
            raise vlib.Infra('recorder wrote nothing to %s' % f)
        for n, r in bad:
            kept = os.path.join(ck.replay_dir, os.path.basename(f))
            with open(kept, 'w') as fh:
                fh.write('\n'.join(lines) + '\n')
            rep = f + '.tsan.txt'
            if os.path.exists(rep):
                with open(kept + '.tsan.txt', 'w') as fh:
                    fh.write(open(rep, errors='replace').read()[:200000])
            if r.get('e') != 'Run':
                ck.violation('fault:%s' % r.get('e'), '%s#%d' % (kept, n),
                             'recorder died: %s' % json.dumps(r)[:300])
                continue
            for x in r['x']:
                if x.get('e') == 'Race':
                    # data race: the racing variable; other ThreadSanitizer reports (lock-order-inversion,
                    # double lock, ...): the kind of report
                    sig = ('race:' + norm_var(x.get('var', '?'))) if x.get('kind') == 'data-race' \
                        else 'tsan:' + str(x.get('kind'))
                    seen[sig] = seen.get(sig, 0) + 1
                    if seen[sig] > 1:
                        continue
                    ck.violation(sig, '%s#%d' % (kept, n),
                                 'ThreadSanitizer: %s on %s (%s vs %s) in run %s of %s [mode %s]; full report in '
                                 '%s.tsan.txt' % (x.get('kind'), x.get('var'), x.get('mop0'), x.get('mop1'),
                                                  r.get('run'), os.path.basename(f), json.dumps(r.get('cfg')), kept))
                elif x.get('e') == 'RaceFlood' and any(y.get('e') == 'Race' for y in r['x']):
                    continue   # only says that more reports were made than Race events written out
                else:
                    sig = 'stuck' if x.get('e') == 'Stuck' else 'x:%s' % x.get('e')
                    seen[sig] = seen.get(sig, 0) + 1
                    if seen[sig] > 1:
                        continue
                    ck.violation(sig, '%s#%d' % (kept, n),
                                 'no progress for the watchdog period (deadlock): %s; last host events %s; last DSP-thread '
                                 'events %s' % (json.dumps(x), json.dumps(r['h'][-2:]), json.dumps(r['d'][-4:])))
        if bad and keep:
            g = f.replace('.ndjson', '_rest.ndjson')
            with open(g, 'w') as fh:
                fh.write('\n'.join(keep) + '\n')
            out.append(g)
        elif keep:
            out.append(f)
    ck.extra_cov['tsan_reports'] = seen
    return out


def replay(ck, path):
    path = path.split('#')[0]
    if path.endswith('.ndjson'):
        clean = triage(ck, [path])
        ck.validate_traces('ApbpConcTrace', 'Trace_ApbpConc.cfg', clean, deque=True)
    else:
        print(open(path).read()[-4000:])
