"""C09 -- hardware loops execute their body exactly count+1 times.

1. TLC on the specification's own cycle semantics (LoopTheorems.tla over TeakCore!CoreCycle): concrete loop
   programs generated from parameters -- nesting depth 1..3 (4 thorough), counts {0,1,2} per level, immediate
   or register counts, innermost instruction optionally under `rep` with count 0..2, optionally a two-word
   last instruction -- are executed cycle by cycle and compared with what the unrolled code computes: the
   innermost instruction runs (rp+1)*PROD(c+1) times, level k's body PROD_{j<=k}(c_j+1) times, the visible
   loop counter counts c, c-1, .., 0 once per iteration, bcn <= 4 and lp = (bcn # 0) at every step, loop
   state clear on exit.
2. Conformance: random loop programs on a real Teakra (depth 1..4, counts 0..5 and 200..255, immediate /
   r6 / general-register counts, rep, two-word last instructions, bkrepsto/bkreprst frame round trips inside
   the loop), sliced and single-stepped, validated cycle by cycle against System.tla; plus every encoding of
   bkrep / rep / break / bkrepsto / bkreprst executed from random states (IsaTrace).
"""
from props import sys_common, isa_common

FAMILY = ['bkrep', 'bkrep_r6', 'bkreprst', 'bkreprst_memsp', 'bkrepsto', 'bkrepsto_memsp', 'rep', 'rep_r6', 'break_',
          'mov/Imm16,SttMod', 'mov_icr', 'mov_repc', 'mov_repc_to', 'push_repc', 'pop_repc']
FINISH = dict(rule='loop programs generated from (depth, counts, rep, two-word) parameters executed on the specification and '
                   'compared with the unrolled result (TLC); random loop programs on a real Teakra validated cycle by cycle')


def run(ck):
    ck.build('sys_rec', 'isa_rec')
    ck.mc('LoopTheorems', ck.pick('MC_Loop.cfg', 'MC_Loop_d4.cfg'), timeout=3400, coverage=False, jvm=['-Xss64m'])
    files = sys_common.record(ck, ck.pick(16, 32), ck.pick(8, 30), tag='loops', mode='loops')
    sys_common.validate(ck, files)
    ck.sample_lines(files[0], 1, skip=1)
    isa_common.family_check(ck, FAMILY, ck.pick(4, 16), 'c09', parts=8, rounds=1)
    isa_common.sweep_all(ck, 'c09', seedoff=900)
    ck.assumptions += sys_common.SYS_ASSUMPTIONS + [
        'counts up to 65535 are sampled (register forms), all small counts enumerated; the unrolled-code comparison is '
        'made on the specification (closed-form execution counts), the code is bound to the specification cycle by cycle']


def replay(ck, path):
    p = path.split('#')[0]
    import os
    if 'c09' in os.path.basename(p):
        ck.validate_traces('IsaTrace', 'Trace_Isa.cfg', [p])
    else:
        ck.validate_traces('SysTrace', 'Trace_Sys.cfg', [p])
