"""C11 -- DSP-side and host-side views of program and data memory are the same bytes.

1. TLC, exhaustive (MC_Memory.cfg / MC_Memory_B3.cfg): Memory.tla on a scaled geometry (8 program-only
   words + 2 banks x 8 data words = 48 bytes, MMIO window of 2 words with mmio_base itself at offset 1,
   bytes 0..1, written word values {1, 2} = low / high byte set), every history of accessor calls
   (program r/w, data r/w +- bypass, 32-bit-address forms, host MMIO r/w, raw bytes, guest fetch / load /
   store, every MIU register, Reset) that stays within Budget (2 quick, 3 thorough) deviations from the
   fresh state.  Invariants ProgramViewsAgree, DataViewsAgree, A32Alias, MmioWindow, WindowMoves,
   PagedStaysInData; action properties ReadsArePure, WindowNeverTouchesMemory, MmioNeverTouchesMemory,
   WritesHitOneCell, AssertChangesNothing.
2. Conformance, impl -> spec: random histories on real Teakra::Teakra objects with user-supplied and with
   internally owned memory (mem_rec), real geometry, every call -- host accessors, raw pointer, guest
   instructions run with Teakra::Run(1) -- validated by TLC against the same operators
   (MemoryTrace.tla): returned value, exact ordered raw access list from the TEAKRA_VERIF observer, MIU
   registers, outcome; periodic full scans of the 0x80000 raw bytes must equal the specification's map.
"""
import os

FINISH = dict(rule='trace validation of random accessor/guest histories on real Teakra objects (user-supplied '
                   'and owned memory, real geometry, boundary-clustered addresses, raw access list from the '
                   'memory observer, full raw-memory scans) against Memory.tla + exhaustive TLC model checking '
                   'of every view on a scaled geometry within a deviation budget')


def run(ck):
    ck.build('mem_rec')
    # 1. design level
    ck.mc('Memory', ck.pick('MC_Memory.cfg', 'MC_Memory_B3.cfg'), timeout=3000)
    # 2. conformance
    files = record(ck)
    ck.validate_traces('MemoryTrace', 'Trace_Memory.cfg', files)
    ck.sample_lines(files[0], 3, skip=2)
    for f in files[:1]:
        n = 0
        for ln in open(f):
            if ln.startswith('{"e":"G"') and n < 4:
                ck.sample(ln.strip())
                n += 1
    # the same views inside the composed machine: guest programs that relocate the MMIO window, switch page mode and pages and
    # store/load around the boundaries, while the host reads and writes through every accessor (plain, bypass, A32, program,
    # MMIO) between slices; every cell written and every value returned must be System.tla's
    from props import sys_common
    ck.build('sys_rec')
    sfiles = sys_common.record(ck, ck.pick(4, 12), ck.pick(6, 12), tag='mempage', mode='page', seedoff=3500)
    sfiles += sys_common.record(ck, ck.pick(2, 8), ck.pick(4, 10), tag='memio', mode='io', seedoff=3700)
    sys_common.validate(ck, sfiles)
    ck.assumptions += ['Memory.tla is a faithful reading of the C11 statement (reviewed by hand)',
                       'TLC, the Json/IOUtils community modules and g++ are trusted',
                       'the real geometry (2^18 program words, 2^17 data words, all mmio_base values) is covered '
                       'by trace validation on boundary-clustered and random addresses and by the exhaustive '
                       'scaled model, not by exhaustive enumeration at full size',
                       'MMIO offsets used are the MIU registers and default (plain-storage) cells 0x000..0x019, '
                       '0x400..0x7FF; the semantics of the other registers is property C12',
                       'guest forms: 9 hand-encoded instructions (mov [r0]/[imm16]/[page:imm8] load and store, '
                       'movp reg and mem, movd); the other addressing forms of the interpreter funnel through '
                       'the same mem.DataRead/DataWrite calls (checked by C01)']


def record(ck):
    nfiles = ck.pick(16, 32)
    n = ck.pick(4000, 19000)
    files = [os.path.join(ck.work, 'mem_%d.ndjson' % i) for i in range(nfiles)]
    ck.run_jobs(['%s --seed %d --n %d --out %s' % (ck.bin('mem_rec'), ck.seed * 1000 + i, n, f)
                 for i, f in enumerate(files)])
    return files


def replay(ck, path):
    path = path.split('#')[0]
    if os.path.basename(path).startswith(('mempage_', 'memio_')):
        ck.validate_traces('SysTrace', 'Trace_Sys.cfg', [path], jvm=['-Xss64m'])
    elif path.endswith('.ndjson'):
        ck.validate_traces('MemoryTrace', 'Trace_Memory.cfg', [path])
    else:
        print(open(path).read()[-4000:])
