"""C06 -- Run(n) is equivalent to n single-cycle steps, however it is sliced.

1. TLC, exhaustive on the design model of the run loop (RunModel.tla: Interpreter::Run as coded -- idle
   flag, CoreTiming::Skip with the minimum horizon, the additional tick -- next to plain cycles; abstract
   core with an idle or counting main loop and an interrupt handler; two timers in all modes): for every
   start configuration (49152), every budget n <= 5 (6 thorough) and EVERY way of slicing n into calls the
   observations agree.  MC_RunAudio.cfg: the same with the audio port in every state (51840 start configurations:
   every queue up to capacity 3, every phase incl. overrun, periods 1..3, on/off) taking part in
   CoreTiming::Skip through Btdmp::GetMaxSkip / Skip; delivered frames and audio interrupts are observed.  The two pinned configurations must violate: the loop that skips over a latched
   interrupt signal (defect D1) and Timer::Skip(0) (defect D2), both repaired in /repo by fix: commits.
2. Conformance: random guest programs on a real Teakra, each run in one piece, in random slices and with a
   single-stepped prefix; every Run(n) is consumed by exactly n Cycle steps of System.tla (which has no
   fast-forward at all) and the complete observation (registers, latches, idle, timers, ICU, memory
   written) must match after every slice: all slicings accepted by one cycle-by-cycle semantics = C06.
"""
import vlib
from props import sys_common

FINISH = dict(rule='exhaustive TLC check of the run-loop design model over all start configurations x all compositions '
                   'of the cycle budget; random guest programs x 3 slicings each on a real Teakra validated cycle by cycle')


def run(ck):
    ck.build('sys_rec')
    ck.mc('RunModel', ck.pick('MC_Run.cfg', 'MC_Run_N6.cfg'), timeout=3400, coverage=False)
    ck.mc('RunModel', 'MC_RunAudio.cfg', timeout=3400, coverage=False)
    for cfg in ('MC_Run_pinned_d1.cfg', 'MC_Run_pinned_d2.cfg', 'MC_Run_mut_vec.cfg'):
        r = ck.mc('RunModel', cfg, must_hold=False, coverage=False, timeout=1200)
        if r.violated != 'SlicingInvariant':
            raise vlib.Infra('%s no longer shows the defect it pins (model drifted)' % cfg)
    files = sys_common.record(ck, ck.pick(16, 32), ck.pick(6, 30))
    # programs that idle or poll while the audio ports run (full / over-full / partly filled queues, short periods): the run
    # loop fast-forwards through Btdmp::GetMaxSkip / Skip and the timers at once; mailbox and DMA traffic from the handlers
    files += sys_common.record(ck, ck.pick(6, 16), ck.pick(6, 16), tag='aud', mode='audio', seedoff=300)
    files += sys_common.record(ck, ck.pick(4, 12), ck.pick(4, 12), tag='sio', mode='io', seedoff=600)
    # long horizons: tens to hundreds of thousands of cycles mostly spent idle, slices from 1 to 65541 cycles and in one piece,
    # timers started near and above 2^16 / 2^17, audio periods in the thousands (the specification takes quiescent stretches in
    # one step, justified by the Skip lemmas: System!QuietStep / Jump)
    files += sys_common.record(ck, ck.pick(8, 16), ck.pick(8, 12), tag='long', mode='long', seedoff=900)
    sys_common.validate(ck, files)
    ck.sample_lines(files[0], 1, skip=2)
    ck.assumptions += sys_common.SYS_ASSUMPTIONS + [
        'programs with a self-branch as the last instruction of an active repeat block or as the target of a '
        'single-instruction repeat are excluded, as the property states']


def replay(ck, path):
    ck.validate_traces('SysTrace', 'Trace_Sys.cfg', [path.split('#')[0]])
