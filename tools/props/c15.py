"""C15 -- timers count, fire and reload exactly per mode, and fast-forward is exact.

1. TLC, exhaustive (MC_Timer.cfg): Timer.tla with two base-B limbs (B=3 quick, 4 thorough => counters
   0..B*B-1 so every borrow between the limbs is enumerated), all 4 modes x pause x mirror-update x
   start x mirror, every history of Tick/TickEvent/Restart/Reset/Skip(k<=horizon)/config writes.
   Invariants: SkipIsTicks, NoIrqInHorizon, SkipNeverAsserts, TickRules, EventRules; action property
   FireOnlyOnOneToZero; limb arithmetic == integer arithmetic (MC_Wide).
2. TLC, MC_Timer_pinned.cfg: the pinned (unrepaired) Skip must violate SkipIsTicks -- keeps the model
   honest about defect D2 (fixed in /repo by a fix: commit).
3. Conformance, impl -> spec: random histories on real Timer objects at full 32-bit width
   (timer_rec), every call validated by TLC against the same operators (TimerTrace.tla).
"""
import os

FINISH = dict(rule='trace validation of random API histories on real Timer objects (32-bit, boundary-'
                   'clustered values) against Timer.tla + exhaustive TLC model checking at limb base B')


def run(ck):
    ck.build('timer_rec')
    # 1. design level
    ck.mc('MC_Wide', 'MC_Wide.cfg', workers=2, coverage=False)
    ck.mc('Timer', ck.pick('MC_Timer.cfg', 'MC_Timer_B4.cfg'), timeout=3000)
    r = ck.mc('Timer', 'MC_Timer_pinned.cfg', must_hold=False, coverage=False)
    if r.violated != 'SkipIsTicks':
        raise __import__('vlib').Infra('the pinned Timer::Skip model no longer shows defect D2 (model drifted)')
    # 1b. full width (B = 65536: all 2^32 counters and start values), symbolically: the induction step of
    #     Skip(k) = Tick^k within the horizon, Skip(0) = identity, the horizon is tight (Apalache on TimerInd.tla);
    #     TLC checks at B = 3, for all states, that TimerInd's operators are those of TimerOps.tla.
    #     The step lemma takes minutes: thorough tier; the other two lemmas run in both tiers.
    ck.mc('TimerIndSame', 'MC_TimerIndSame.cfg', workers=4, coverage=False)
    ck.apalache('TimerInd', 'TimerInd.cfg', 'ZeroLemma', timeout=900)
    ck.apalache('TimerInd', 'TimerInd.cfg', 'HorizonLemma', timeout=900)
    if ck.thorough:
        ck.apalache('TimerInd', 'TimerInd.cfg', 'StepLemma', timeout=3000)
    # 2. conformance
    files = record(ck)
    ck.validate_traces('TimerTrace', 'Trace_Timer.cfg', files)
    ck.sample_lines(files[0], 4, skip=5)
    # 3. the timers inside the composed machine: idle and counting programs with both timers on short auto-restart / single /
    #    free-running periods, line and vectored routing, the host rewriting start values and configuration between slices;
    #    Run(n) goes through Timer::GetMaxSkip / Skip inside Interpreter::Run, the specification only ticks: counters, MMIO
    #    mirrors, ICU requests, latches and handler entries must agree after every slice (also slices of 2..5 cycles)
    from props import sys_common
    ck.build('sys_rec')
    sfiles = sys_common.record(ck, ck.pick(6, 16), ck.pick(6, 12), tag='tmirq', mode='irq', seedoff=4100)
    sfiles += sys_common.record(ck, ck.pick(2, 8), ck.pick(4, 10), tag='tmio', mode='io', seedoff=4300)
    sfiles += sys_common.record(ck, ck.pick(4, 12), ck.pick(4, 10), tag='tmlong', mode='long', seedoff=4500)   # counters crossing 2^16 / 2^17 in Run
    sys_common.validate(ck, sfiles)
    ck.assumptions += ['Timer.tla is a faithful reading of the C15 statement (reviewed by hand)',
                       'TLC, the Json/IOUtils community modules and g++ are trusted',
                       'full 32-bit width: the induction step Skip(t,k+1) = Tick(Skip(t,k)) for k below the horizon, Skip(t,0) = t and '
                       'the tightness of the horizon are proved for ALL states at B = 65536 by Apalache/SMT (TimerInd.tla, step lemma '
                       'in the thorough tier); histories of several calls are exhaustive only at the scaled base and sampled at full '
                       'width by trace validation; Apalache and Z3 are trusted']


def record(ck):
    nfiles = ck.pick(8, 32)
    n = ck.pick(4000, 20000)
    files = [os.path.join(ck.work, 'timer_%d.ndjson' % i) for i in range(nfiles)]
    ck.run_jobs(['%s --seed %d --n %d --out %s' % (ck.bin('timer_rec'), ck.seed * 1000 + i, n, f)
                 for i, f in enumerate(files)])
    return files


def replay(ck, path):
    path = path.split('#')[0]
    if os.path.basename(path).startswith(('tmirq_', 'tmio_', 'tmlong_')):
        ck.validate_traces('SysTrace', 'Trace_Sys.cfg', [path], jvm=['-Xss64m'])
    elif path.endswith('.ndjson'):
        ck.validate_traces('TimerTrace', 'Trace_Timer.cfg', [path])
    else:
        print(open(path).read()[-4000:])
