"""C07 -- interrupts are delivered exactly once, in priority order, never spuriously.

1. TLC, all interleavings (IcuModel.tla, built from the very operators the trace specifications use:
   System!IcuTrigger/IcuAck, TeakCore!Latch/Enter): trigger / acknowledge / route / mask / global-enable
   operations and instruction boundaries (with and without a running single-instruction repeat) over the IRQ
   sources in play and the lines int0, int1, vectored.  Invariants: a line is pending only for a routed,
   unserved request (never spuriously); at every boundary entry happens exactly when ie, the line mask and
   no repeat allow it, on the highest-priority eligible line, with ie cleared, the request consumed, the
   address of the next unexecuted instruction on the stack, every other pending request kept (masked ones
   stay latched); action properties: request bits change only by trigger (set) and acknowledge (exactly
   those bits); a trigger signals exactly the routed lines.
2. Conformance: interrupt-heavy guest programs (timers -> IRQ 10/9, software trigger of IRQ 3/14, routing to
   int0/int1/int2/vectored in all combinations, context-switching handlers, acknowledges) single-stepped on
   a real Teakra, every boundary observed in full and validated by TLC against System.tla; plus the sliced
   runs of C06.  The IRQ numbers of the audio port (11), mailbox (14) and DMA (15) are bound by the C16,
   C14 and C13 traces, which observe the ICU request register.
"""
from props import sys_common

FINISH = dict(rule='TLC over all interleavings of ICU/core interrupt operations; single-stepped interrupt programs on a '
                   'real Teakra validated at every instruction boundary')


# the instructions through which a program touches the interrupt state: enable / disable, the return forms (conditional ones
# included), the context forms, every mover of a status / mode word (st0..st2, stt2, mod3, icr hold ie, im, ic, ip)
FAMILY = ['eint', 'dint', 'reti', 'retic', 'retid', 'retidc', 'trap', 'cntx_s', 'cntx_r', 'mov_icr', 'mov_icr_to',
          'mov/Imm16,SttMod', 'mov/Abl,SttMod', 'mov/SttMod,Abl', 'mov/ArRn1,ArStep1,SttMod', 'mov/SttMod,ArRn1,ArStep1',
          'mov/ArArpSttMod,MemR7Imm16', 'mov/MemR7Imm16,ArArpSttMod', 'alb/Alb,Imm16,SttMod', 'tstb/SttMod,Imm16',
          'push/ArArpSttMod', 'pop/ArArpSttMod', 'push/Register', 'pop/Register']


def run(ck):
    ck.build('sys_rec')
    ck.mc('IcuModel', ck.pick('MC_Icu_quick.cfg', 'MC_Icu.cfg'), timeout=3400, coverage=False)
    files = sys_common.record(ck, ck.pick(16, 32), ck.pick(6, 24), tag='irq', mode='step')
    # "at the first instruction boundary" also when the host runs many cycles at once: the same kinds of programs in random
    # slices (idle loops are fast-forwarded by the run loop, the specification is not), line and vectored routing
    files += sys_common.record(ck, ck.pick(8, 24), ck.pick(6, 16), tag='irqs', seedoff=400)
    # idle / nop programs with both timers always running on short auto-restart periods, line and vectored routing,
    # masks mostly open (many deliveries per program), also cut into slices of 2..5 cycles
    files += sys_common.record(ck, ck.pick(6, 16), ck.pick(6, 12), tag='irqm', mode='irq', seedoff=1200)
    files += sys_common.record(ck, ck.pick(4, 12), ck.pick(4, 12), tag='irqio', mode='io', seedoff=800)
    sys_common.validate(ck, files)
    # every encoding of those instructions from random states with random latches: ie / im / ip / ic after the instruction and
    # the entry decision at its boundary are CoreCycle's (IsaTrace)
    from props import isa_common
    isa_common.family_check(ck, FAMILY, ck.pick(6, 24), 'c07i', parts=8)
    ck.sample_lines(files[0], 1, skip=5)
    ck.assumptions += sys_common.SYS_ASSUMPTIONS


def replay(ck, path):
    import os
    p = path.split('#')[0]
    if os.path.basename(p).startswith('c07i'):
        ck.validate_traces('IsaTrace', 'Trace_Isa.cfg', [p])
    else:
        ck.validate_traces('SysTrace', 'Trace_Sys.cfg', [p], jvm=['-Xss64m'])
