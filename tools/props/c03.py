"""C03 -- accumulator add/subtract/compare/logic results, flags and saturation are exact.

1. TLC, exhaustive at scaled limb width W=4 (10-bit accumulator, 8-bit saturation range): AddSub, the
   Z/M/E/N flags and the saturator of TeakAlu are compared with plain integer arithmetic for ALL operand
   pairs (AluTheorems: AddSubExact, FlagsExact, SaturateExact; 1024 x 1024 x {add, sub}).
2. Conformance at full width: every encoding of the alm/alu/or/and/xor/add/sub/cmp/moda/mov(Ab,Ab)/clr
   families executed by the real interpreter from boundary-clustered states (accumulators drawn from a list
   of 40-bit boundary values, memory/registers over-representing 0, +-1, 0x7FFF/0x8000, 0xFFFF), each
   execution validated in full by TLC against the same operators at W=16.
"""
from props import isa_common

FAMILY = ['alm', 'alm_r6', 'alu', 'or_', 'and_', 'add', 'add_p1', 'sub', 'sub_p1', 'cmp', 'cmp_b0_b1', 'cmp_b1_b0',
          'cmp_p1_to', 'moda4', 'moda3', 'mov/Ab,Ab', 'clr', 'clrr', 'lim', 'pacr1', 'movr', 'movr_r6_to', 'swap',
          'alb', 'alb_r6', 'divs', 'mov2_mij_ax', 'mov2_mji_ax', 'popa', 'mova', 'add_add', 'add_sub', 'sub_add',
          'sub_sub', 'add_sub_sv', 'sub_add_sv']
FINISH = dict(rule='every first word of the add/sub/cmp/logic/moda families x k boundary-clustered states '
                   '(k=2 quick, 8 thorough) validated in full; limb operators exhaustively equal to integer arithmetic at W=4')


def run(ck):
    ck.mc('AluTheorems', 'MC_Alu_W4.cfg', timeout=3000, coverage=False)
    # full width, symbolically: AddSub / flags / saturator / compare = integer arithmetic for ALL 2^40 x 2^40 operand pairs
    # (Apalache on AluInd.tla, W = 16); TLC checks at W = 4, for all values, that AluInd's operators are TeakAlu's
    ck.mc('AluIndSame', 'MC_AluIndSame.cfg', timeout=1200, coverage=False)
    ck.apalache('AluInd', 'AluInd.cfg', 'Exact', timeout=1500)
    isa_common.family_check(ck, FAMILY, ck.pick(4, 8), 'c03', rounds=ck.pick(1, 4))
    isa_common.sweep_all(ck, 'c03', seedoff=300)
    ck.assumptions += isa_common.ISA_ASSUMPTIONS + [
        'exactness of add/sub/compare, flags and saturation is proved at full width (W = 16) by Apalache/SMT on AluInd.tla, whose '
        'operators TLC shows equal to TeakAlu.tla for all values at W = 4 (same text, generic in W); the remaining ALU theorems '
        '(logic operations, shifts) are exhaustive at limb width 4 and observed at width 16; Apalache and Z3 are trusted']


def replay(ck, path):
    ck.validate_traces('IsaTrace', 'Trace_Isa.cfg', [path.split('#')[0]])
