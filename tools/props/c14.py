"""C14 -- APBP mailboxes and semaphores follow the documented handshake in both directions.

1. TLC, exhaustive (Apbp.tla = one Apbp object as the code has it + the per-call rules of the statement;
   ApbpSys.tla = the two objects as Teakra wires them: host facade calls, DSP MMIO 0x0C0-0x0D8, ICU
   request bit 14, Reset, handler-invocation log):
     MC_Apbp_fc / MC_Apbp_fd  each direction alone at the design constants (2 channels, data {1,2},
                              2 semaphore bits, mask, per-channel interrupt disable), all invariants
                              (per-call rules, signal = ((sem & ~mask) # 0), status registers = host view,
                              pure reads) and the action properties (interrupt on send unless disabled,
                              receive returns the last written value, interrupt on every rise of the flag
                              and never while it stays zero, ICU latch);
     MC_Apbp_q (quick) / MC_Apbp (thorough)  both directions composed (quick: one channel; thorough: the
                              full 2-channel product, 1.28M states); thorough adds 3 channels x 3 semaphore
                              bits per direction (MC_Apbp_fc3 / MC_Apbp_fd3).
2. TLC on the pinned (unrepaired) MaskSemaphore must show defect D3 twice: stale flag (MC_Apbp_pinned,
   SignalInv) and missed interrupt on unmasking (MC_Apbp_pinned_rise, SemaphoreInterrupts).
3. Conformance impl -> spec: random histories on a real Teakra::Teakra (facade on the host side,
   MMIORead/MMIOWrite on the DSP side, 16-bit boundary-clustered values, Reset and fresh instances inside
   the histories), every call validated by TLC against the same operators (ApbpTrace.tla): return value,
   handler invocations (+ what each handler could see), complete private state of both objects, ICU bit 14,
   and every side-effect-free read of both sides.
4. Conformance spec -> impl: every transition TLC generates for the two one-direction models (ApbpEdges) is
   replayed on a real Teakra seeded to the source state; return value, handlers and target state compared.

6. Re-entrant semaphore callbacks (ApbpReent.tla): a call of SetSemaphore / MaskSemaphore is a Begin step, the
   calls the handler makes on the same object (three levels deep), and an End step.  TLC checks on every
   interleaving of nested calls that the stored flag equals ((sem & ~mask) # 0) whenever a caller can look
   (and, for the repaired order, also inside the handler), that the handler never runs with the condition
   false and that a rise always fires; the pinned order (flag stored after the handler from a value computed
   before it) must violate SignalOK.  Conformance: a real Apbp object whose handler re-enters at random
   (harness/drivers/reent_rec.cpp), every step validated by TLC (ApbpReentTrace.tla, 16-bit width).  Apalache proves the
   flag invariant inductive for the repaired order at 16 bits and unbounded nesting (ApbpReentInd.tla; ApbpReentIndSame).

Defect D3 (Apbp::MaskSemaphore neither recomputes the signal flag nor interrupts on a rise).  Until the
repair is in the tree under test the recorded executions are validated against Trace_Apbp_pinned.cfg and a
directed history shows the defect on the real code (it must be rejected by Trace_Apbp.cfg).  Set
REPO_HAS_D3_FIX = True (or C14_FIXED=1 in the environment) once the fix is committed: from then on
Trace_Apbp.cfg (flag invariant and rise property included) is what every execution is validated against.
"""
import os
import re
import vlib

REPO_HAS_D3_FIX = True

FINISH = dict(rule='exhaustive TLC model checking of both APBP directions (2 channels, data {1,2}, 2 semaphore '
                   'bits) + TLC trace validation of random facade/MMIO histories on a real Teakra instance + '
                   'replay of every model transition into the real code')


def fixed():
    e = os.environ.get('C14_FIXED')
    if e is not None and e != '':
        return e not in ('0', 'false', 'no')
    return REPO_HAS_D3_FIX


def trace_cfg():
    return 'Trace_Apbp.cfg' if fixed() else 'Trace_Apbp_pinned.cfg'


def run(ck):
    ck.build('apbp_rec')
    # 1. design level
    ck.mc('ApbpSys', 'MC_Apbp_fc.cfg', workers=8, coverage=False)
    ck.mc('ApbpSys', 'MC_Apbp_fd.cfg', workers=4, coverage=False)
    if ck.thorough:
        ck.mc('ApbpSys', 'MC_Apbp.cfg', timeout=3000)
        ck.mc('ApbpSys', 'MC_Apbp_fc3.cfg', timeout=3000, coverage=False)
        ck.mc('ApbpSys', 'MC_Apbp_fd3.cfg', timeout=3000, coverage=False)
    else:
        ck.mc('ApbpSys', 'MC_Apbp_q.cfg', workers=8, coverage=False)
    # 2. the model of the unrepaired code must show D3
    r = ck.mc('ApbpSys', 'MC_Apbp_pinned.cfg', workers=2, must_hold=False, coverage=False)
    if r.violated != 'SignalInv':
        raise vlib.Infra('the pinned MaskSemaphore model no longer violates SignalInv (model drifted)')
    r = ck.mc('ApbpSys', 'MC_Apbp_pinned_rise.cfg', workers=2, must_hold=False, coverage=False)
    if r.violated != 'SemaphoreInterrupts':
        raise vlib.Infra('the pinned MaskSemaphore model no longer violates SemaphoreInterrupts (model drifted)')
    # 3. impl -> spec (the directed D3 history first: it tells which MaskSemaphore the tree has)
    d3(ck)
    files = record(ck)
    ck.validate_traces('ApbpTrace', trace_cfg(), files)
    ck.sample_lines(files[0], 3, skip=40)
    # 4. spec -> impl
    edges(ck)
    # 5. in the composed machine: guest programs that poll, echo, mask and acknowledge through the MMIO registers
    #    while the host calls the API between slices; mailbox state, status registers as the guest reads them,
    #    ICU request/latches, handler entry and every host callback must be those of System.tla at every slice
    if fixed():
        from props import sys_common
        ck.build('sys_rec')
        sfiles = sys_common.record(ck, ck.pick(4, 16), ck.pick(4, 12), tag='sysio', mode='io')
        sys_common.validate(ck, sfiles)
    # 6. re-entrant semaphore callbacks
    ck.build('reent_rec')
    ck.mc('ApbpReent', 'MC_ApbpReent.cfg', workers=4, coverage=False)
    r = ck.mc('ApbpReent', 'MC_ApbpReent_pinned.cfg', workers=2, must_hold=False, coverage=False)
    if r.violated != 'SignalOK':
        raise vlib.Infra('the pinned re-entrancy model no longer violates SignalOK (model drifted)')
    # the repaired order for the real width and any nesting depth: inductive invariant by Apalache (sets of one-bits instead of
    # bit operators; ApbpReentIndSame lets TLC compare the two readings for every pair of words at width 6)
    ck.apalache('ApbpReentInd', 'MC_ApbpReentInd.cfg', 'Inv', length=0, timeout=900)
    ck.apalache('ApbpReentInd', 'MC_ApbpReentInd_step.cfg', 'Inv', length=1, timeout=900)
    ck.mc('ApbpReentIndSame', 'MC_ApbpReentIndSame.cfg', workers=2, coverage=False)
    rfiles = [os.path.join(ck.work, 'reent_%d.ndjson' % i) for i in range(ck.pick(4, 16))]
    ck.run_jobs(['%s --seed %d --n %d --out %s' % (ck.bin('reent_rec'), ck.seed * 1000 + i, 300, f) for i, f in enumerate(rfiles)])
    ck.validate_traces('ApbpReentTrace', 'Trace_ApbpReent.cfg', rfiles, sig_prefix='reent')
    ck.sample_lines(rfiles[0], 2, skip=20)
    ck.extra_cov['trace_cfg'] = trace_cfg()
    ck.assumptions += ['Apbp.tla / ApbpSys.tla are a faithful reading of the C14 statement and of src/apbp.md '
                       '(reviewed by hand)',
                       'TLC, the Bitwise/Json/IOUtils community modules and g++ are trusted',
                       'full 16-bit data/semaphore width and 3 channels are covered by trace validation and by '
                       'the scaled exhaustive models, not by exhaustive enumeration at full width',
                       'the host handlers are installed (an instance without handlers is not exercised)',
                       'single-threaded histories; host || DSP interleavings at lock granularity are C19']
    if not fixed():
        ck.assumptions.append('defect D3 pending: executions validated against the pinned MaskSemaphore '
                              '(Trace_Apbp_pinned.cfg), which cannot satisfy the flag invariant / rise property')


def record(ck):
    nfiles = ck.pick(8, 32)
    n = ck.pick(4000, 20000)
    files = [os.path.join(ck.work, 'apbp_%d.ndjson' % i) for i in range(nfiles)]
    ck.run_jobs(['%s --seed %d --n %d --out %s' % (ck.bin('apbp_rec'), ck.seed * 1000 + i, n, f)
                 for i, f in enumerate(files)])
    return files


def d3(ck):
    """Directed history around MaskSemaphore on the real code."""
    f = os.path.join(ck.work, 'apbp_d3.ndjson')
    ck.run_jobs(['%s --mode d3 --out %s' % (ck.bin('apbp_rec'), f)])
    if fixed():
        ck.validate_traces('ApbpTrace', 'Trace_Apbp.cfg', [f], sig_prefix='trace-d3')
        return
    # unrepaired tree: the pinned model must explain it, the repaired model must not
    ck.validate_traces('ApbpTrace', 'Trace_Apbp_pinned.cfg', [f], sig_prefix='trace-d3')
    r = vlib.run_tlc('ApbpTrace', 'Trace_Apbp.cfg', '%s_d3_fixed' % ck.tag, env={'TRACE': f})
    if r.matched is None:
        raise vlib.Infra('TLC failed on the D3 history:\n' + r.out[-2000:])
    if r.matched[0] == r.matched[1]:
        raise vlib.Infra('the tree under test accepts the D3 history under Trace_Apbp.cfg: the MaskSemaphore '
                         'repair seems to be in -- set REPO_HAS_D3_FIX = True in tools/props/c14.py')
    line = open(f).read().splitlines()[r.matched[0]]
    ck.extra_cov['pending_defect_D3'] = {'reproduced_on_real_code': True, 'history': os.path.basename(f),
                                         'first_line_the_repaired_model_rejects': r.matched[0] + 1,
                                         'line': line[:300]}
    if not ck.known_finding_seen('trace:MaskSemaphore'):
        print('NOTE property=C14 defect D3 reproduced on the tree under test (Apbp::MaskSemaphore leaves the '
              'signal flag stale / raises no interrupt on unmasking): history line %d rejected by Trace_Apbp.cfg; '
              'validating against Trace_Apbp_pinned.cfg until the repair is committed' % (r.matched[0] + 1))


TOK = re.compile(r'[^\s,<>"\\]+')


def edges(ck):
    """Every transition of the one-direction exhaustive models, replayed into a real Teakra."""
    suffix = '' if fixed() else '_pinned'
    total = 0
    for d in ('fc', 'fd'):
        r = ck.mc('ApbpEdges', 'MC_ApbpEdges_%s%s.cfg' % (d, suffix), workers=1, coverage=False)
        path = os.path.join(ck.work, 'edges_%s.txt' % d)
        n = 0
        with open(path, 'w') as out:
            out.write('NCH 2\n')
            for ln in r.out.splitlines():
                if 'EDGE' not in ln:
                    continue
                t = TOK.findall(ln)
                if not t or t[0] != 'EDGE':
                    continue
                out.write(' '.join(t[1:]) + '\n')
                n += 1
        if n != r.generated - 1:
            raise vlib.Infra('edge dump incomplete for %s: %d lines, %d transitions' % (d, n, r.generated - 1))
        res = os.path.join(ck.work, 'edges_%s.result' % d)
        ck.run_jobs(['%s --mode replay --in %s --out %s' % (ck.bin('apbp_rec'), path, res)])
        replay_result(ck, path, res, n)
        total += n
    ck.extra_cov['model_transitions_replayed_on_real_code'] = total


def replay_result(ck, path, res, n):
    import json
    lines = [json.loads(x) for x in open(res).read().splitlines() if x.strip()]
    summ = lines[-1] if lines else {}
    ck.details['replay_runs'].append({'file': os.path.basename(path), 'edges': summ.get('edges'),
                                      'bad': summ.get('bad'),
                                      'edges_with_handler_calls': summ.get('edges_with_handler_calls')})
    if 'edges' not in summ or (n is not None and summ['edges'] != n):
        raise vlib.Infra('edge replay did not finish: %s' % (open(res).read()[-500:]))
    if summ['bad']:
        keep = os.path.join(ck.replay_dir, os.path.basename(path))
        with open(keep, 'w') as f:
            f.write(open(path).read())
        first = lines[0]
        ck.violation('replay:%s' % str(first.get('bad_edge', '?')).split(' ')[0], keep,
                     '%d of %d model transitions are not followed by the real code; first: %s -> got ret=%s hc=%s y=%s'
                     % (summ['bad'], summ['edges'], first.get('bad_edge'), first.get('got_ret'),
                        json.dumps(first.get('got_hc')), json.dumps(first.get('got_y'))))


def replay(ck, path):
    path = path.split('#')[0]
    ck.build('apbp_rec')
    if os.path.basename(path).startswith('reent_'):
        ck.validate_traces('ApbpReentTrace', 'Trace_ApbpReent.cfg', [path], sig_prefix='reent')
    elif path.endswith('.ndjson'):
        ck.validate_traces('ApbpTrace', trace_cfg(), [path])
    elif path.endswith('.txt'):
        res = os.path.join(ck.work, 'edges.result')
        ck.run_jobs(['%s --mode replay --in %s --out %s' % (ck.bin('apbp_rec'), path, res)])
        replay_result(ck, path, res, None)
    else:
        print(open(path).read()[-4000:])
