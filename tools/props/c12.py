"""C12 -- MMIO registers hold what was written and do not alias one another.

1. TLC, exhaustive over the table (MC_Mmio.tla / MC_Mmio.cfg): Mmio.tla is the register file written by
   hand from mmio.cpp + the *.md docs (177 documented offsets, 32 bit-field registers with 97 slots,
   the side-effect cells).  For every written offset A (177 documented + 9 undocumented/odd samples),
   every value class (0, FFFF, 5555, AAAA, 00FF, FF00, walking 1, walking 0, DMA start word, channel
   numbers, timer restart words; thorough: every two-hot word too) and every base state (fresh + fully
   programmed register files; thorough: their post-Reset images too):
     ReadBack            Read(A) = v on the bits the table marks read/write
     NonAliasing         for ALL other offsets B: Read(B) unchanged unless <<A,B>> is in the explicit
                         documented-coupling relation Coupled (which is also shown to be tight)
     HiddenFrame         state no register shows (timer counters, unselected DMA channels, FIFO length)
                         changes only in A's own device / channel
     ChannelIndependent  the eight DMA channel windows are independent (all ordered channel pairs)
     ReadPurity          reads change nothing except the mailbox receive registers
     PathsAgree          host accessor at all 32 mirrors and DSP data access at mmio_base+offset reach
                         the same register with the same effect
2. TLC on the strict forms against the code as pinned: MC_Mmio_pinned.cfg must violate
   ChannelIndependentStrict (bits of 0x1DA outside its slots are one word shared by all channels) and
   MC_Mmio_pinned_wd.cfg must violate NoAbort (TIMERx_CFG := RES | watchdog mode hits an ASSERT);
   MC_Mmio_pinned_chsel.cfg (the code before the 3-bit channel-select fix) must violate WindowReachable;
   thorough: MC_Mmio_fixed.cfg shows both proposed repairs make the strict forms hold.
3. Conformance, impl -> spec (mmio_rec -> MmioTrace.tla): on a real Teakra::Teakra, (a) sweep: every
   documented register x walking ones/zeros x both write paths, read back through both paths, window
   relocated per register; (b) random histories over all 0x800 offsets with boundary-clustered values,
   random mirrors, relocated window, Reset, host mailbox calls, guarded DMA starts.  After EVERY event
   the recorder re-reads all 0x800 offsets and logs the complete set of changed read-backs and hidden
   words; TLC requires exactly the set the specification predicts.
"""
import concurrent.futures as cf
import os
import re

import vlib

FINISH = dict(rule='trace validation of write/read sweeps and random access histories on a real Teakra '
                   '(both access paths, every event carries the complete set of changed read-backs over all '
                   '0x800 offsets) against Mmio.tla + exhaustive TLC check of read-back / non-aliasing / '
                   'channel-window independence over all offset pairs x value classes x base states')


def model_checking(ck):
    ck.mc('MC_Mmio', ck.pick('MC_Mmio.cfg', 'MC_Mmio_thorough.cfg'), timeout=ck.pick(900, 3000), coverage=False)


def pinned(ck):
    for cfg, inv, what in (('MC_Mmio_pinned_chsel.cfg', 'WindowReachable', '16-bit DMA channel select (before the 3-bit fix)'),
                           ('MC_Mmio_pinned.cfg', 'ChannelIndependentStrict', 'shared raw word of DMA register 0x1DA'),
                           ('MC_Mmio_pinned_wd.cfg', 'NoAbort', 'ASSERT in Timer::Restart for watchdog modes')):
        r = ck.mc('MC_Mmio', cfg, workers=4, must_hold=False, coverage=False)
        if r.violated != inv:
            raise vlib.Infra('the pinned MMIO model no longer shows the finding "%s" (%s: got %r)' % (what, cfg, r.violated))
    if ck.thorough:
        ck.mc('MC_Mmio', 'MC_Mmio_fixed.cfg', workers=8, timeout=3000, coverage=False)


def record(ck):
    b = ck.bin('mmio_rec')
    parts = ck.pick(6, 12)
    mode = ck.pick('sweep', 'sweepfull')
    nrand = ck.pick(6, 32)
    n = ck.pick(3000, 18000)
    files, cmds = [], []
    for i in range(parts):
        f = os.path.join(ck.work, 'mmio_sweep_%d.ndjson' % i)
        files.append(f)
        cmds.append('%s --mode %s --seed %d --part %d --parts %d --out %s' % (b, mode, ck.seed * 1000 + i, i, parts, f))
    for i in range(nrand):
        f = os.path.join(ck.work, 'mmio_rand_%d.ndjson' % i)
        files.append(f)
        cmds.append('%s --mode random --seed %d --n %d --out %s' % (b, ck.seed * 1000 + 100 + i, n, f))
    res = ck.run_jobs(cmds)
    garbage = sum(int(m.group(1)) for p in res for m in re.finditer(r'(\d+) fresh instances with non-zero', p.stdout))
    vetoed = sum(int(m.group(1)) for p in res for m in re.finditer(r'(\d+) vetoed DMA', p.stdout))
    ck.extra_cov['fresh_instances_with_uninitialised_icu_vectors_nonzero'] = garbage
    ck.extra_cov['dma_accesses_outside_dsp_memory_vetoed_by_recorder'] = vetoed
    return files


def run(ck):
    ck.build('mmio_rec')
    with cf.ThreadPoolExecutor(2) as ex:
        jobs = [ex.submit(model_checking, ck), ex.submit(pinned, ck)]
        files = record(ck)
        ck.validate_traces('MmioTrace', 'Trace_Mmio.cfg', files, par=ck.pick(10, 14), timeout=1800)
        for j in jobs:
            j.result()
    ck.sample_lines(files[0], 3, skip=2)
    ck.sample_lines(files[-1], 5, skip=6)
    # the whole register file inside the composed machine: guest programs and host calls (MMIORead/MMIOWrite, DataRead/
    # DataWrite through the window, the DMAChan0Get* / AHBMGet* helpers) touching timers, ICU, MIU, mailboxes, audio ports,
    # DMA channel windows and the AHB bridge while the core runs; every register-backed field must be what System.tla says
    # after every slice and every call (a helper that leaves the DMA channel window elsewhere shows as a changed selection)
    from props import sys_common
    ck.build('sys_rec')
    sfiles = sys_common.record(ck, ck.pick(4, 12), ck.pick(4, 10), tag='mmdma', mode='dma', seedoff=3100)
    sfiles += sys_common.record(ck, ck.pick(4, 12), ck.pick(4, 10), tag='mmio', mode='io', seedoff=3300)
    sys_common.validate(ck, sfiles)
    ck.assumptions += [
        'Mmio.tla is a faithful hand transcription of mmio.cpp and the peripheral docs (reviewed by hand); '
        'the binding is demonstrated by mutations of mmio.cpp that the check rejects',
        'side effects that leave the register file are modelled only as far as read-back needs: DMA start = '
        'store + IRQ 15 (transfer: C13), ICU trigger = request bits (delivery: C07), APBP = data/ready/semaphore '
        'words (C14), BTDMP = queue length and flags (C16)',
        'the recorder starts DMA only with <= 4096 elements; 0x1BE is written with arbitrary 16-bit values and '
        'the window is used afterwards (the 3-bit channel-select fix is exercised)',
        'value space: walking bits + boundary-clustered random 16-bit values in traces, value classes in TLC; '
        'not all 65536 values of every register',
        'TLC, the Json/IOUtils/Bitwise community modules and g++ are trusted']


def replay(ck, path):
    path = path.split('#')[0]
    if os.path.basename(path).startswith(('mmdma_', 'mmio_')):
        ck.validate_traces('SysTrace', 'Trace_Sys.cfg', [path], jvm=['-Xss64m'])
    elif path.endswith('.ndjson'):
        ck.validate_traces('MmioTrace', 'Trace_Mmio.cfg', [path])
    else:
        print(open(path).read()[-4000:])
