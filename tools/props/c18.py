"""C18 -- no guest program or register write makes the emulator touch memory out of bounds.

What the specification decides:
1. TLC, address formation on the specification (BoundsTheorems.tla over TeakCore!CoreCycle, boundary cases of
   every way an address is formed): data accesses, MMIO offsets and loop-frame indices stay in range for every
   address; the program-side addresses that do leave the array do so only under NAMED causes
   (MC_Bounds.cfg); MC_Bounds_strict.cfg (no cause accepted) exhibits the known findings.  Data-address formation
   (MMIO window, page mode, x/y/z pages, x size; 32-bit-address host accessors) is additionally proved in range or
   asserting for ALL 2^16 addresses and ALL register contents by Apalache/SMT (BoundsInd.tla).
2. Conformance of the bounds behaviour: every first word executed by the real interpreter from states that
   include the ends of the program space and non-zero program pages (isa_rec wild mode; the memory hook
   reports and vetoes every raw access outside the array).  TLC validates each execution in full against
   CoreCycle, i.e. the specification predicts exactly which executions go out of range and where; the runner
   classifies each observed out-of-range access by cause (fetch with prpage # 0, fetch past 0x3FFFF, handler).
2b/2c. The same for the handlers that index the block-repeat stack (many states per encoding, full stack included)
   and for guest-programmed address translation on a full Teakra (sys_rec page/io programs: MMIO base, page
   mode, x/y/z pages incl. non-existent ones, host accessors; SysTrace).
3. Termination modes (FuzzTrace.tla): multi-cycle instruction soups and MMIO/DMA/AHBM write storms on a full
   Teakra; a run ends by Return, Unimplemented or AssertAbort; out-of-range attempts are named deviations;
   a Fault (signal, sanitizer abort, foreign exception) has no action.
What it does NOT decide (runtime monitor on the very executions above, see DESIGN.md section 5.18): uninitialised
or freed memory, signed overflow, shift range -- observed by AddressSanitizer + UndefinedBehaviorSanitizer
(asan flavour of the fuzz driver), and table indices by _GLIBCXX_ASSERTIONS (an out-of-range std::array index
aborts and becomes a Fault line).
"""
import json
import os
import re
import vlib

FINISH = dict(rule='boundary address-formation cases on the specification (TLC); every first word from wild states validated '
                   'in full incl. out-of-range behaviour; fuzz runs under ASan+UBSan with termination modes checked by TLC')
TABLE_FAMILY = ['bkrep', 'bkrep_r6', 'bkreprst', 'bkreprst_memsp', 'bkrepsto', 'bkrepsto_memsp', 'break_']
KNOWN_OOB = {'oob:fetch_prpage', 'oob:fetch_past_end', 'oob:movpdw/Ax', 'oob:dma_cursor'}


def classify(rec):
    """cause of the first out-of-range access of an isa_rec record"""
    pre = rec['pre']
    pc, prpage = pre[0], pre[1]
    fa = pc | (prpage << 18)
    for i, (addr, w, v) in enumerate(rec['acc']):
        if addr >= 0x40000 and addr < 0x1000000:
            if i <= 1 and addr == fa + i:
                return 'oob:fetch_prpage' if prpage else 'oob:fetch_past_end'
            return 'oob:' + rec.get('key', '?').rstrip('/')
    return 'oob:?'


def run(ck):
    ck.build('isa_rec')
    ck.build('fuzz_rec', flavour='asan')
    ck.mc('MC_Bounds', 'MC_Bounds.cfg', timeout=1800, coverage=False)
    # data-address formation for EVERY address under EVERY MIU register content, symbolically (Apalache on BoundsInd.tla);
    # TLC compares BoundsInd's operators with TeakMachine's on the boundary set
    ck.mc('BoundsIndSame', 'MC_BoundsIndSame.cfg', workers=4, coverage=False, timeout=900)
    ck.apalache('BoundsInd', 'BoundsInd.cfg', 'InBounds', timeout=900)
    r = ck.mc('MC_Bounds', 'MC_Bounds_strict.cfg', must_hold=False, coverage=False, timeout=1800)
    strict_violated = r.violated == 'InBounds'
    seen = {}
    # 2. wild single-instruction executions, validated in full
    n = 16
    step = 65536 // n
    files = [os.path.join(ck.work, 'wild_%02d.ndjson' % i) for i in range(n)]
    ck.run_jobs(['%s --mode wild:%d..%d:%d --seed %d --out %s' % (ck.bin('isa_rec'), i * step, (i + 1) * step - 1, ck.pick(1, 4),
                                                                 ck.seed * 173 + i, f) for i, f in enumerate(files)], timeout=1200)
    ck.validate_traces('IsaTrace', 'Trace_Isa.cfg', files, timeout=2400)
    for f in files:
        for n_, ln in enumerate(open(f), 1):
            if '"out":"oob"' in ln:
                sig = classify(json.loads(ln))
                seen.setdefault(sig, (f, n_))
            elif '"e":"Fault"' in ln:
                seen.setdefault('fault:' + json.loads(ln).get('kind', '?'), (f, n_))
    ck.sample_lines(files[7], 1, skip=9)
    # 2b. handlers that index fixed-size tables (the four-entry block-repeat stack, its store/restore, break) with
    #     many states per encoding: a full stack (bcn = 4) is one state in sixteen
    from props import isa_common, sys_common
    isa_common.family_check(ck, TABLE_FAMILY, ck.pick(24, 96), 'c18tab', parts=8)
    # 2c. guest-programmed address translation on a full Teakra: programs that move the MMIO window, switch the page
    #     mode and set x/y/z pages (also to pages that do not exist), and host accessors doing the same between
    #     slices; every out-of-range page must end in the emulator's assertion, everything else must touch exactly
    #     the cell System.tla predicts (the memory hook vetoes and reports anything outside the array)
    ck.build('sys_rec')
    pfiles = sys_common.record(ck, ck.pick(8, 24), ck.pick(8, 16), tag='page', mode='page', seedoff=900)
    pfiles += sys_common.record(ck, ck.pick(4, 12), ck.pick(4, 10), tag='pio', mode='io', seedoff=1300)
    sys_common.validate(ck, pfiles)
    # an out-of-range outcome in these traces was PREDICTED by System.tla (the trace was accepted), so it is one of the modelled
    # causes; SysTrace names the source (a DSP-side DMA cursor, e.g. a host write to the DMA registers between two slices that
    # starts a wild transfer, or a vetoed access of the core with its position, address and program page) and the finding
    # signature follows from that; anything else stays an unlisted cause
    for f in pfiles:
        oobs = [n_ for n_, ln in enumerate(open(f), 1) if '"out":"oob"' in ln]
        if not oobs:
            continue
        r = vlib.run_tlc('SysTrace', 'Trace_Sys.cfg', '%s_oob_%s' % (ck.tag, os.path.basename(f)[:-7]), workers=1, timeout=3000,
                         env={'TRACE': f}, jvm=['-Xss64m'])
        causes = {int(m.group(1)): (m.group(2), int(m.group(3)), int(m.group(4)), int(m.group(5)))
                  for m in re.finditer(r'<<"OOB_CAUSE",\s*(\d+),\s*"(\w+)",\s*(\d+),\s*(\d+),\s*(\d+)>>', r.out)}
        for n_ in oobs:
            src, pos, addr, prpage = causes.get(n_, ('?', 0, 0, 0))
            if src == 'dma':
                sig = 'oob:dma_cursor'
            elif src == 'core' and pos <= 2:
                sig = 'oob:fetch_prpage' if prpage else 'oob:fetch_past_end'
            else:
                sig = 'oob:system'
            seen.setdefault(sig, (f, n_))
    # 3. fuzz runs under the sanitizers
    fz = []
    cmds = []
    logs = os.path.join(ck.work, 'san')
    for i in range(ck.pick(4, 32)):
        for mode in ('soup', 'mmio'):
            f = os.path.join(ck.work, 'fuzz_%s_%02d.ndjson' % (mode, i))
            fz.append(f)
            cmds.append('%s --seed %d --n %d --mode %s --out %s 2>> %s.%s.%d.txt' %
                        (ck.bin('fuzz_rec', 'asan'), ck.seed * 211 + i, ck.pick(40, 400), mode, f, logs, mode, i))
    ck.run_jobs(cmds, timeout=2400, env={'ASAN_OPTIONS': 'detect_leaks=0:abort_on_error=1:detect_stack_use_after_return=1', 'UBSAN_OPTIONS': 'print_stacktrace=0'})
    ck.validate_traces('MC_Fuzz', 'Trace_Fuzz.cfg', fz, timeout=900, sig_prefix='termination')
    for f in fz:
        for n_, ln in enumerate(open(f), 1):
            d = json.loads(ln)
            if d.get('e') == 'Fuzz' and d.get('oob', 0) > 0:
                seen.setdefault('oob:dma_cursor' if d['mode'] == 'mmio' else
                                ('oob:fetch_prpage' if d.get('prpage') else 'oob:fetch_past_end'), (f, n_))
    # sanitizer reports (undefined behaviour is not a state the specification carries: runtime monitor)
    reports = {}
    for fn in os.listdir(ck.work):
        if fn.startswith('san.') and fn.endswith('.txt'):
            asan_kind = None       # an AddressSanitizer report is named by its kind and the first frame inside the repository
            for ln in open(os.path.join(ck.work, fn), errors='replace'):
                m = re.search(r'(src|include)/([\w/\.]+):(\d+):\d+: runtime error: (.*)', ln)
                if m:
                    kind = re.sub(r'\d+', 'N', m.group(4))[:60]
                    reports.setdefault('ub:%s:%s:%s' % (m.group(2), m.group(3), kind), fn)
                    continue
                m = re.search(r'ERROR: AddressSanitizer: ([\w-]+)', ln)
                if m:
                    if asan_kind:
                        reports.setdefault('asan:%s:?' % asan_kind, fn)
                    asan_kind = m.group(1)
                    continue
                if asan_kind:
                    m = re.search(r'^\s*#\d+ .*?/(src|include)/([\w/\.]+):(\d+)', ln)
                    if m and '/usr/' not in ln:
                        reports.setdefault('asan:%s:%s:%s' % (asan_kind, m.group(2), m.group(3)), fn)
                        asan_kind = None
            if asan_kind:
                reports.setdefault('asan:%s:?' % asan_kind, fn)
    for sig, fn in reports.items():
        keep = os.path.join(ck.replay_dir, fn)
        import shutil
        shutil.copyfile(os.path.join(ck.work, fn), keep)
        seen.setdefault(sig, (keep, 0))
    for sig, (f, n_) in sorted(seen.items()):
        if ck.known_finding_seen(sig):
            continue
        keep = os.path.join(ck.replay_dir, os.path.basename(f))
        if os.path.abspath(f) != os.path.abspath(keep) and os.path.exists(f):
            import shutil
            shutil.copyfile(f, keep)
        ck.violation(sig, '%s#%d' % (keep, n_), 'out-of-range access / fault / sanitizer report with a cause that is not a listed finding: %s' % sig)
    ck.extra_cov['causes_seen'] = sorted(seen)
    ck.extra_cov['strict_model_shows_findings'] = strict_violated
    ck.assumptions += ['the undefined-behaviour clause (uninitialised/freed memory, signed overflow, shift range) is observed by '
                       'ASan+UBSan on the executions run, not decided by the specification; internal std::array indices by '
                       '_GLIBCXX_ASSERTIONS; MSan is not available in this sandbox (uninitialised reads are covered only as far '
                       'as C17 observes uninitialised state)',
                       'host calls are kept in contract (channel/AHBM indices in range, AHBM and audio callbacks installed)',
                       'TLC, CommunityModules, g++ and the sanitizer runtimes are trusted']


def replay(ck, path):
    p = path.split('#')[0]
    if 'fuzz_' in os.path.basename(p):
        ck.validate_traces('MC_Fuzz', 'Trace_Fuzz.cfg', [p])
    elif os.path.basename(p).startswith(('page_', 'pio_')):
        ck.validate_traces('SysTrace', 'Trace_Sys.cfg', [p])
    elif p.endswith('.ndjson'):
        ck.validate_traces('IsaTrace', 'Trace_Isa.cfg', [p])
    else:
        print(open(p, errors='replace').read()[-3000:])
