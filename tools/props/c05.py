"""C05 -- assembly text and machine code correspond one-to-one.

TLC validates, against the frozen decode table (TeakDecode: Decode, NeedExp, Canon), what the real
disassembler / assembler / C binding / firmware tools produce (AsmTrace.tla):
1. Asm, total over all 65536 first words: a renderable opcode assembles to Canon(w) (so two opcodes with the
   same text share Canon: they differ in unused bits only) with the same need for a second word; the
   assembled word prints identically for four second words; Do() is the token list joined by four spaces;
   the C binding returns the same text and its length.
2. CBuf: the C binding into a canary-framed caller buffer of EVERY size 0..len+2 for sampled words: nothing
   outside [0,size) touched, NUL right after the (cut) text, full length returned.
3. Firmware: each of the four hwtest firmware sources line by line next to the shipped cdc.bin: every line
   assembles to exactly the shipped word(s), every shipped instruction prints as its source line; and the
   repository's own makedsp1 (built from the working tree) reproduces each shipped binary byte for byte.
4. Firmware tools in general (spec/Dsp1.tla): TLC checks on all small sources that the reader recovers exactly the
   assembler's segments, that data areas are disjoint and binary_size is their end, and that a program segment
   lists as the instruction stream of its source (MC_Dsp1; a negative configuration must fail); random firmware
   sources (every kind of line incl. every error exit, lexical noise, targets above 16 bits, up to 10 segments)
   go through the repository's own makedsp1 and dsp1_reader built from the working tree, and the exit status,
   message and line, every header field, descriptor, data word and stray byte of the file, the reader's summary
   and its listing (addresses, words, second words, text = the source line) must be what Dsp1.tla says
   (tools/dsp1_rec.py, Dsp1Trace.tla).
TLC also checks the table-level clauses on all 65536 words (MC_Decode: one row per word, Canon idempotent
and a bit-subset of w).
"""
import os
import vlib

FINISH = dict(rule='all 65536 first words x 4 second words (token round trip, joined text, C binding); every buffer '
                   'size 0..len+2 for sampled words; every line of the 4 firmware sources; all firmware sources of up to 4 (5) items on the '
                   'container specification, hundreds of random sources through the real makedsp1 / dsp1_reader', exhaustive=True)
FIRMS = ['dsptester', 'dspapbptester', 'dspmemorytester', 'dspvictester']


def run(ck):
    ck.build('asm_rec', 'makedsp1', 'dsp1_reader')
    ck.mc('MC_Decode', 'MC_Decode_quick.cfg', timeout=1800, coverage=False)
    n = 16
    step = 65536 // n
    files = [os.path.join(ck.work, 'asm_%02d.ndjson' % i) for i in range(n)]
    cmds = ['%s --mode asm:%d..%d --seed %d --out %s' % (ck.bin('asm_rec'), i * step, (i + 1) * step - 1, ck.seed + i, f)
            for i, f in enumerate(files)]
    cb = os.path.join(ck.work, 'cbuf.ndjson')
    cmds.append('%s --mode cbuf --n %d --seed %d --out %s' % (ck.bin('asm_rec'), ck.pick(300, 3000), ck.seed, cb))
    firm = []
    for name in FIRMS:
        f = os.path.join(ck.work, 'firm_%s.ndjson' % name)
        firm.append(f)
        cmds.append('%s --mode firm:%s/hwtest/%s/firm/source:%s/hwtest/%s/data/cdc.bin --out %s' %
                    (ck.bin('asm_rec'), vlib.REPO, name, vlib.REPO, name, f))
    ck.run_jobs(cmds)
    ck.validate_traces('AsmTrace', 'Trace_Asm.cfg', files + [cb] + firm, timeout=1800)
    ck.sample_lines(files[3], 1, skip=11)
    ck.sample_lines(cb, 1, skip=4)
    ck.sample_lines(firm[0], 1, skip=3)
    # the repository's own assembler tool must reproduce the shipped binaries byte for byte
    same = 0
    for name in FIRMS:
        out = os.path.join(ck.work, name + '.bin')
        p = vlib.sh('%s %s/hwtest/%s/firm/source %s' % (ck.bin('makedsp1'), vlib.REPO, name, out), timeout=120)
        ship = open('%s/hwtest/%s/data/cdc.bin' % (vlib.REPO, name), 'rb').read()
        got = open(out, 'rb').read() if os.path.exists(out) else b''
        if p.returncode != 0 or got != ship:
            keep = os.path.join(ck.replay_dir, name + '.makedsp1.bin')
            open(keep, 'wb').write(got)
            diff = next((i for i in range(min(len(got), len(ship))) if got[i] != ship[i]), min(len(got), len(ship)))
            ck.violation('firmware:%s' % name, keep, 'makedsp1 output differs from the shipped %s/data/cdc.bin at byte %d '
                         '(sizes %d/%d, exit %d)' % (name, diff, len(got), len(ship), p.returncode))
        else:
            same += 1
    ck.extra_cov['firmware_binaries_identical'] = same
    # 4. the firmware tools against Dsp1.tla
    dsp1_clause(ck, 16, ck.pick(40, 400), model=True)
    ck.assumptions += ['TeakDecodeTable.tla was transcribed once from the pinned decoder.h and is frozen in /verif',
                       'execution equality of a word and its canonical form follows from same decode row + operands (C02) and C01',
                       'TLC, CommunityModules and g++ are trusted']


def dsp1_clause(ck, nfiles, n, model=False, tag='dsp1'):
    """Random firmware sources through the repository's own makedsp1 / dsp1_reader, validated against Dsp1.tla (also used by
    C02: the reader is one more consumer that has to agree on every instruction's length)."""
    ck.build('asm_rec', 'makedsp1', 'dsp1_reader')
    if model:
        ck.mc('MC_Dsp1', ck.pick('MC_Dsp1.cfg', 'MC_Dsp1_deep.cfg'), workers=8, timeout=1800, coverage=False)
        r = ck.mc('MC_Dsp1', 'MC_Dsp1_neg.cfg', workers=4, must_hold=False, coverage=False)
        if not r.violated:
            raise vlib.Infra('MC_Dsp1_neg.cfg (two-word data words inside a program segment) must violate the stream clause')
    tool = os.path.join(os.path.dirname(os.path.dirname(os.path.abspath(__file__))), 'dsp1_rec.py')
    pool = os.path.join(ck.work, 'dsp1_pool.json')
    p = vlib.sh('python3 %s --make-pool --asm %s --pool %s --work %s' % (tool, ck.bin('asm_rec'), pool, ck.work), timeout=600)
    if p.returncode != 0:
        raise vlib.Infra('dsp1_rec --make-pool failed:\n' + p.stdout[-2000:])
    dfiles = [os.path.join(ck.work, '%s_%02d.ndjson' % (tag, i)) for i in range(nfiles)]
    ck.run_jobs(['python3 %s --pool %s --makedsp1 %s --reader %s --n %d --seed %d --work %s --out %s' %
                 (tool, pool, ck.bin('makedsp1'), ck.bin('dsp1_reader'), n, ck.seed * 100 + i, ck.work, f)
                 for i, f in enumerate(dfiles)], timeout=3000)
    os.remove(pool)
    ck.validate_traces('Dsp1Trace', 'Trace_Dsp1.cfg', dfiles, timeout=1800, jvm=['-Xss256m'], sig_prefix='dsp1')
    ck.sample_lines(dfiles[0], 1, skip=1)
    ck.extra_cov['firmware_sources_generated'] = sum(1 for f in dfiles for _ in open(f))


def replay(ck, path):
    f = path.split('#')[0]
    if os.path.basename(f).startswith('dsp1_'):
        ck.validate_traces('Dsp1Trace', 'Trace_Dsp1.cfg', [f], jvm=['-Xss256m'], sig_prefix='dsp1')
    else:
        ck.validate_traces('AsmTrace', 'Trace_Asm.cfg', [f])
