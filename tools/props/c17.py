"""C17 -- behaviour depends only on the call history; Reset equals a fresh machine.

1. TLC, component-level design model (ResetModel.tla): any call may dirty any component, Reset freshens the
   components Teakra::Reset covers; right after Reset every component must be fresh.  MC_Reset_full (what C17
   demands) holds; MC_Reset_current (the code after the fix: commits) violates it for exactly one component,
   the MMIO backing storage (known finding); MC_Reset_pinned shows the four further components the pinned
   code left dirty (ICU, mailbox interrupt-disable bits, interpreter latches, ar/arp shadow banks).
2. Conformance (ResetTrace.tla): instances created after heap pollution (junk-filled freed blocks,
   MALLOC_PERTURB_, earlier instances destroyed), observed completely (registers incl. shadow banks, latches,
   timers, ICU + vectors, both mailboxes, read-back of every MMIO register, all eight DMA channel windows,
   audio ports, memory) straight after construction, after construction + Reset, and after random histories
   (guest programs with timers and interrupts, host MMIO writes to every component, mailbox traffic) + Reset:
   in all these states the specification is in ONE state, FreshReset, whose non-MMIO part is a constant of
   the specification; the same history replayed after Reset must end in the same observation as on a fresh
   reset instance; the recorder is run twice (two processes, different MALLOC_PERTURB_) and the two
   observation streams must be identical.
"""
import json
import os
import re
import vlib

FINISH = dict(rule='random API histories x Reset on polluted heaps, complete observations compared with the FreshReset state '
                   'by TLC; two processes compared; component-level reset model checked exhaustively')

# MMIO offsets bound by mmio.cpp to device state (anything else is backing storage: plain cells and the raw words
# of bit-field registers).  A difference after Reset on a device register is never part of the storage finding.
BITFIELD = {0x20, 0x30, 0xD4, 0xD6, 0xD8, 0xE2, 0xE4, 0xE8, 0xEA, 0xEE, 0xF0, 0x114, 0x116, 0x11A, 0x1DA, 0x2C2, 0x342} | \
           {0x212 + 4 * i for i in range(16)}
DEVICE = {0x1A, 0x22, 0x24, 0x26, 0x28, 0x2A, 0x32, 0x34, 0x36, 0x38, 0x3A, 0xC0, 0xC2, 0xC4, 0xC6, 0xC8, 0xCA, 0xCC, 0xCE, 0xD0,
          0xD2, 0xE0, 0xE6, 0xEC, 0xF2, 0x10E, 0x110, 0x112, 0x11E, 0x184, 0x18C, 0x200, 0x202, 0x204, 0x206, 0x208, 0x20A,
          0x20C, 0x2A2, 0x2BE, 0x2C6, 0x2CA, 0x322, 0x33E, 0x346, 0x34A} | {0x214 + 4 * i for i in range(16)} | \
         set(range(0x1BE, 0x1E0, 2))
KF_STORAGE = 'reset:mmio_storage'


def signatures(when, groups, where):
    """observation groups that differ -> finding signatures"""
    out = set()
    for g in groups:
        if g == 'mmio':
            idx = where.get('mmio', set())
            offs = {(i - 1) * 2 for i in idx}
            if offs & DEVICE:
                out.add('%s:mmio_register' % when)
            if (offs - DEVICE):
                out.add('%s:mmio_storage' % when)
        elif g == 'dma':
            idx = where.get('dma', set())
            # [active, enable] then 16 registers per channel; the 14th is 0x1DA whose raw word is backing storage
            regs = {(i - 3) % 16 for i in idx if i >= 3}
            if any(i < 3 for i in idx) or (regs - {13}):
                out.add('%s:dma' % when)
            if 13 in regs:
                out.add('%s:mmio_storage' % when)
        else:
            out.add('%s:%s' % (when, g))
    return out


def parse_diffs(text):
    """<<"DIFF", line, tag, {groups}, [g |-> {positions}]>> blocks printed by ResetTrace"""
    res = []
    for m in re.finditer(r'<<\s*"DIFF",\s*(\d+),\s*"(\w+)",\s*\{([^}]*)\},\s*(.*?)>>\s*(?=\n<<|\n[A-Z]|\Z)', text, re.S):
        line, tag, groups, rest = int(m.group(1)), m.group(2), m.group(3), m.group(4)
        gs = [g.strip().strip('"') for g in groups.split(',') if g.strip()]
        where = {}
        for mm in re.finditer(r'(\w+)\s*\|->\s*\{([^}]*)\}', rest):
            where[mm.group(1)] = {int(x) for x in mm.group(2).replace('\n', ' ').split(',') if x.strip().isdigit()}
        if gs:
            res.append((line, tag, gs, where))
    return res


def run(ck):
    ck.build('reset_rec')
    ck.mc('MC_Reset', 'MC_Reset_full.cfg', workers=4, coverage=False)
    r = ck.mc('MC_Reset', 'MC_Reset_current.cfg', workers=4, must_hold=False, coverage=False)
    model_storage_only = r.violated == 'ResetIsFresh'
    r = ck.mc('MC_Reset', 'MC_Reset_pinned.cfg', workers=4, must_hold=False, coverage=False)
    if r.violated != 'ResetIsFresh':
        raise vlib.Infra('the pinned reset model no longer shows the defects it pins')
    n = ck.pick(8, 24)
    files = [os.path.join(ck.work, 'reset_%02d.ndjson' % i) for i in range(n)]
    twin = [f.replace('.ndjson', '.twin.ndjson') for f in files]
    ninst = ck.pick(12, 40)
    cmds = ['MALLOC_PERTURB_=%d VERIF_NEW_FILL=%d %s --seed %d --n %d --out %s' % (37 + i, (0xA5, 0xFF, 0x5A, 0x01)[i % 4], ck.bin('reset_rec'), ck.seed * 53 + i, ninst, f)
            for i, f in enumerate(files)]
    cmds += ['MALLOC_PERTURB_=%d VERIF_NEW_FILL=%d %s --seed %d --n %d --out %s' % (201 - i, (0x3C, 0x00, 0xC3, 0x80)[i % 4], ck.bin('reset_rec'), ck.seed * 53 + i, ninst, f)
             for i, f in enumerate(twin)]
    ck.run_jobs(cmds)
    # a crash of the recorder (signal, abort) is an observation too: no rule of the specification allows it
    faulted = set()
    for f in files + twin:
        for n_, ln in enumerate(open(f), 1):
            if '"e":"Fault"' in ln:
                keep = os.path.join(ck.replay_dir, os.path.basename(f))
                import shutil
                shutil.copyfile(f, keep)
                ck.violation('fault:%s' % json.loads(ln).get('kind', '?'), '%s#%d' % (keep, n_),
                             'the emulator crashed while being constructed / reset / driven on a dirty heap: %s' % ln.strip()[:200])
                faulted.add(f)
                break
    files = [f for f in files if f not in faulted]
    twin = [g for g in twin if g.replace('.twin.ndjson', '.ndjson') in files and g not in faulted]
    files = [f for f in files if f.replace('.ndjson', '.twin.ndjson') in twin]
    # determinism across processes / allocation patterns: identical observation streams
    for f, g in zip(files, twin):
        if open(f).read() != open(g).read():
            keep = os.path.join(ck.replay_dir, os.path.basename(g))
            os.replace(g, keep)
            la, lb = open(f).read().splitlines(), open(keep).read().splitlines()
            first = next((i for i in range(min(len(la), len(lb))) if la[i] != lb[i]), min(len(la), len(lb)))
            ck.violation('determinism:process', '%s#%d' % (keep, first + 1),
                         'two processes (different MALLOC_PERTURB_) running the same history observe different states, '
                         'first at line %d' % (first + 1))
    # Reset == fresh: TLC computes the differing observation groups
    import concurrent.futures as cf

    def one(f):
        return f, vlib.run_tlc('ResetTrace', 'Trace_Reset.cfg', '%s_rt_%s' % (ck.tag, os.path.basename(f)[:-7]), workers=1,
                               timeout=900, env={'TRACE': f})
    with cf.ThreadPoolExecutor(vlib.NCPU) as ex:
        results = list(ex.map(one, files))
    storage_seen = False
    for f, r in results:
        nlines = sum(1 for _ in open(f))
        if r.matched is None or r.matched[0] != r.matched[1] or r.rc != 0:
            raise vlib.Infra('TLC failed on %s:\n%s' % (f, r.out[-2000:]))
        ck.traces += 1
        ck.trace_lines += nlines
        ck.states += r.distinct
        ck.transitions += r.generated
        for line, tag, groups, where in parse_diffs(r.out):
            for sig in sorted(signatures(tag, groups, where)):
                if sig == KF_STORAGE:
                    storage_seen = True
                    continue
                keep = os.path.join(ck.replay_dir, os.path.basename(f))
                if not os.path.exists(keep):
                    import shutil
                    shutil.copyfile(f, keep)
                ck.violation(sig, '%s#%d' % (keep, line), 'observation in state "%s" differs from FreshReset in group(s) %s '
                             '(positions %s)' % (tag, groups, {g: sorted(w)[:8] for g, w in where.items()}))
    if storage_seen:
        if not ck.known_finding_seen(KF_STORAGE):
            ck.violation(KF_STORAGE, files[0], 'MMIO backing storage survives Reset')
    # Reset in the composed machine: guest programs with mailbox / audio / DMA / paging activity, the host calls
    # Teakra::Reset between two slices (and loads the program again); System.tla!SysReset must give the complete
    # observation after the call and after every later slice (the MMIO backing storage survives, as the listed finding says)
    from props import sys_common
    ck.build('sys_rec')
    sfiles = sys_common.record(ck, ck.pick(6, 16), ck.pick(8, 12), tag='sysreset', mode='io', seedoff=2500)
    sys_common.validate(ck, sfiles)
    ck.extra_cov['in_system_resets'] = sum(open(f).read().count('"op":"Reset"') for f in sfiles)
    ck.extra_cov['model_current_violates_only_for_mmio_storage'] = model_storage_only
    ck.sample({'trace_line_kinds': ['Obs(reference)', 'New', 'Obs(fresh)', 'Reset', 'Obs(fresh_reset)', 'Hist', 'Obs(dirty)',
                                    'Reset', 'Obs(reset)', 'Obs(replayed_after_reset)', 'Obs(replayed_on_fresh)'],
               'observation_groups': ['r', 'lat', 'tm', 'icu', 'icuvec', 'apbp', 'apbpdis', 'dma', 'mmio', 'btdmp', 'ahbm', 'ext', 'memnz']})
    ck.assumptions += ['the observation vector (registers incl. shadow banks, latches, timers, ICU, mailboxes, every MMIO read-back, '
                       'DMA windows, audio ports, memory) is taken as the modelled state of C17',
                       'histories avoid wild DMA starts, timer scale/mode values that assert, and relocating the MMIO window',
                       'TLC, CommunityModules and g++ are trusted']


def replay(ck, path):
    p = path.split('#')[0]
    r = vlib.run_tlc('ResetTrace', 'Trace_Reset.cfg', ck.tag + '_replay', workers=1, timeout=900, env={'TRACE': p})
    print(r.out[-3000:])
