"""C04 -- multiplier products and barrel-shifter results follow exact arithmetic.

1. TLC exhaustive at scaled widths: AluTheorems (W=4): ShiftExact for every value x every shift count
   0..42 x shift mode x saturation, ExpExact; MulTheorems (W=6 quick, W=8 thorough): Multiply is the exact
   product under the signed/unsigned selection and half-word mode as a (2W+1)-bit number, ProductToBus
   applies the product shift with sign extension, AlignDown is the arithmetic shift by one limb.
2. Conformance at full width: every encoding of the multiply / mac / mma / product-sum / shift /
   move-and-shift / exponent / normalize families, boundary-clustered states, validated in full by TLC.
Known finding (kept visible, never loosened): a shift by exactly 40 reports carry 0 instead of the last
bit shifted out (MC_Alu_W4_strict.cfg shows TLC's counterexample; the as-coded behaviour is pinned in the
main configuration so any other deviation is still a violation).
"""
import vlib
from props import isa_common

FAMILY = ['mul', 'mul_y0', 'mul_y0_r6', 'mpyi', 'msu', 'msusu', 'mac_x1to0', 'mac1', 'mma', 'mma_mx_xy', 'mma_xy_mx',
          'mma_my_my', 'mma_mov', 'app', 'sqr_sqr_add3', 'sqr_mpysu_add3a', 'shfc', 'shfi', 'movs', 'movs_r6_to', 'movsi',
          'moda4', 'moda3', 'exp', 'exp_r6', 'norm', 'lim', 'cbs', 'add/Px,Bx', 'sub/Px,Bx', 'add_p1', 'sub_p1', 'mov_p0',
          'mov_p1_to', 'mov2', 'mov2s', 'pacr1', 'addhp', 'mov_sv_app', 'tst4b', 'push/Px', 'pop/Px', 'clrp', 'clrp0',
          'clrp1', 'mov_p0h_to', 'mov_p0h_r6', 'cmp_p1_to', 'load_ps', 'load_ps01', 'max2_vtr', 'min2_vtr']
FINISH = dict(rule='every first word of the multiply/shift/exp families x k boundary-clustered states validated in '
                   'full; shifter/multiplier operators exhaustively equal to integer arithmetic at scaled width')
KF = 'model:MC_Alu_W4_strict.cfg:ShiftExact'


def run(ck):
    ck.mc('AluTheorems', 'MC_Alu_W4.cfg', timeout=3000, coverage=False)
    ck.mc('MulTheorems', ck.pick('MC_Mul_W6.cfg', 'MC_Mul_W8.cfg'), timeout=3000, coverage=False)
    # full width, symbolically: Multiply / ProductToBus / AlignDown exact for ALL 2^16 x 2^16 factor pairs, all sign and
    # half-word modes, all 2^33 product register contents (Apalache on MulInd.tla, W = 16)
    ck.mc('MulIndSame', 'MC_MulIndSame.cfg', timeout=1200, coverage=False)
    ck.apalache('MulInd', 'MulInd.cfg', 'Exact', timeout=1500)
    r = ck.mc('AluTheorems', 'MC_Alu_W4_strict.cfg', must_hold=False, coverage=False, timeout=3000)
    if r.violated == 'ShiftExact':
        if not ck.known_finding_seen(KF):
            ck.violation(KF, 'spec/MC_Alu_W4_strict.cfg', 'shift by exactly 40: carry is not the last bit shifted out')
    isa_common.family_check(ck, FAMILY, ck.pick(4, 8), 'c04', rounds=ck.pick(1, 4))
    isa_common.sweep_all(ck, 'c04', seedoff=400)
    ck.assumptions += isa_common.ISA_ASSUMPTIONS + [
        'the multiplier, product shift and alignment are proved exact at full width (W = 16) by Apalache/SMT on MulInd.tla, whose '
        'operators TLC shows equal to TeakAlu.tla for all values at W = 6; the barrel shifter and the exponent are exhaustive at '
        'W = 4 and observed at width 16; Apalache and Z3 are trusted']


def replay(ck, path):
    ck.validate_traces('IsaTrace', 'Trace_Isa.cfg', [path.split('#')[0]])
