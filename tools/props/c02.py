"""C02 -- every opcode decodes one way; all consumers agree on its form and length.

1. TLC exhaustive over all 65536 first words (MC_Decode): table well-formed (operand fields disjoint,
   disjoint from the fixed bits, second-word operands are exactly the 16-bit ones), at most one row
   matches, Canon(w) (unused bits cleared) decodes to the same row/operands; thorough adds: every
   setting of the unused bits decodes alike, bucket speed-up == plain definition.
2. Conformance impl -> spec, total: for every first word the real decoder (recording visitor: handler
   overload + operand values for two second words), Decode<Interpreter> (name, expansion), the public
   Disassembler::NeedExpansion and Parser::Parse(tokens) must agree with TeakDecode (DecodeTrace).
   The disassembler is asked three times per word -- plain, with an ar/arp view (the annotated form
   test_verifier uses, view words varying per word), plain again: the plain answers must be equal (no
   dependence on earlier calls), and the annotated text must be the plain text with every ar/arp slot
   replaced by what TeakRegs says the slot holds after the view words are written to ar0..arp3 (the
   bit-field views of C20); a row has slot pieces in its text exactly when the table gives it slot operands.
3. Execution clause (the interpreter consumes the second word iff the table says so and resumes right behind
   the instruction, in every 64K bank and across the bank boundaries): isa_rec "exp" mode -- every first word
   that takes a second word executed by the real interpreter from random states (pc anywhere in the 18-bit
   space, boundary-clustered), complete post-state and fetch/access list validated against CoreCycle
   (IsaTrace).  One-word instructions and the unused-bit clause in execution are covered by C01's sweep.
"""
import os
import vlib

FINISH = dict(rule='all 65536 first words enumerated: TLC on the table + TLC validation of the real '
                   'decoder/disassembler/parser output per word', exhaustive=True)


def run(ck):
    ck.build('decode_dump')
    ck.mc('MC_Decode', ck.pick('MC_Decode_quick.cfg', 'MC_Decode_all.cfg'), timeout=3000, coverage=False)
    files = []
    cmds = []
    n = 16
    step = 65536 // n
    for i in range(n):
        f = os.path.join(ck.work, 'dec_%02d.ndjson' % i)
        files.append(f)
        cmds.append('%s --mode %d..%d --seed %d --out %s' % (ck.bin('decode_dump'), i * step, (i + 1) * step - 1, ck.seed, f))
    ck.run_jobs(cmds)
    ck.validate_traces('DecodeTrace', 'Trace_Decode.cfg', files, timeout=1200)
    ck.sample_lines(files[5], 2, skip=100)
    ck.sample_lines(files[12], 2, skip=7)
    # 3. execution clause for the two-word instructions
    ck.build('isa_rec')
    xfiles = [os.path.join(ck.work, 'exp_%02d.ndjson' % i) for i in range(8)]
    ck.run_jobs(['%s --mode exp:%d..%d:%d --seed %d --out %s' % (ck.bin('isa_rec'), i * 8192, (i + 1) * 8192 - 1, ck.pick(2, 12),
                                                                ck.seed * 131 + i, f) for i, f in enumerate(xfiles)], timeout=900)
    xfiles = [f for f in xfiles if os.path.getsize(f) > 0]
    ck.validate_traces('IsaTrace', 'Trace_Isa.cfg', xfiles, timeout=1800, sig_prefix='exec')
    # 4. the test generator sees the same form and length: one real GenerateTestCasesToFile vector per enabled opcode (all four
    #    in the thorough tier), second word present exactly when the table says so, execution advances pc by the decoded length
    from props import isa_common
    isa_common.generator_clause(ck, parts=None if ck.thorough else (0, 4, 8, 12), tag='c02gen')
    # 5. one more consumer: the repository's dsp1_reader walks a program segment with Disassembler::NeedExpansion; its listing of
    #    random firmware images (assembled by the repository's makedsp1) must be the instruction stream Dsp1.tla derives with
    #    the frozen decode table: one entry per instruction, the second word exactly when the form needs one, also at segment ends
    from props import c05
    c05.dsp1_clause(ck, 8, ck.pick(30, 300), tag='dsp1c02')
    ck.assumptions += ['TeakDecodeTable.tla was transcribed once from the pinned decoder.h and is frozen in /verif',
                       'TLC, CommunityModules (Bitwise, Json, IOUtils) and g++ are trusted']


def replay(ck, path):
    p = path.split('#')[0]
    if os.path.basename(p).startswith('dsp1'):
        ck.validate_traces('Dsp1Trace', 'Trace_Dsp1.cfg', [p], jvm=['-Xss256m'], sig_prefix='dsp1')
    elif os.path.basename(p).startswith(('exp_', 'c02gen_')):
        ck.validate_traces('IsaTrace', 'Trace_Isa.cfg', [p], sig_prefix='exec')
    else:
        ck.validate_traces('DecodeTrace', 'Trace_Decode.cfg', [p])
