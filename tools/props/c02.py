"""C02 -- every opcode decodes one way; all consumers agree on its form and length.

1. TLC exhaustive over all 65536 first words (MC_Decode): table well-formed (operand fields disjoint,
   disjoint from the fixed bits, second-word operands are exactly the 16-bit ones), at most one row
   matches, Canon(w) (unused bits cleared) decodes to the same row/operands; thorough adds: every
   setting of the unused bits decodes alike, bucket speed-up == plain definition.
2. Conformance impl -> spec, total: for every first word the real decoder (recording visitor: handler
   overload + operand values for two second words), Decode<Interpreter> (name, expansion), the public
   Disassembler::NeedExpansion and Parser::Parse(tokens) must agree with TeakDecode (DecodeTrace).
3. Execution clause (second word consumed iff needed, never executed; unused bits never change the
   effect): isa_rec "len" mode -- every first word executed by the real interpreter with a trapping
   second word, validated against TeakExec's length/outcome (added with the C01 machinery).
"""
import os
import vlib

FINISH = dict(rule='all 65536 first words enumerated: TLC on the table + TLC validation of the real '
                   'decoder/disassembler/parser output per word', exhaustive=True)


def run(ck):
    ck.build('decode_dump')
    ck.mc('MC_Decode', ck.pick('MC_Decode_quick.cfg', 'MC_Decode_all.cfg'), timeout=3000, coverage=False)
    files = []
    cmds = []
    n = 16
    step = 65536 // n
    for i in range(n):
        f = os.path.join(ck.work, 'dec_%02d.ndjson' % i)
        files.append(f)
        cmds.append('%s --mode %d..%d --out %s' % (ck.bin('decode_dump'), i * step, (i + 1) * step - 1, f))
    ck.run_jobs(cmds)
    ck.validate_traces('DecodeTrace', 'Trace_Decode.cfg', files, timeout=1200)
    ck.sample_lines(files[5], 2, skip=100)
    ck.sample_lines(files[12], 2, skip=7)
    ck.assumptions += ['TeakDecodeTable.tla was transcribed once from the pinned decoder.h and is frozen in /verif',
                       'TLC, CommunityModules (Bitwise, Json, IOUtils) and g++ are trusted']


def replay(ck, path):
    ck.validate_traces('DecodeTrace', 'Trace_Decode.cfg', [path.split('#')[0]])
