"""C10 -- address registers step linearly, modulo or bit-reversed exactly as configured.

1. TLC on TeakAddr at the real widths (AddrTheorems): for every modulo value (22 boundary values quick,
   all 512 thorough) x every in-buffer offset x high-bit patterns x both compatibility modes: stepping by
   +-1 walks cyclically through [base, base+mod], never alters the bits above the alignment, +1 then -1 is
   the identity; modulo off: r' = r + step for every step source (fixed, +-2 in both modes, 7-bit and
   16-bit configured steps), r3/r7 end-pointer zeroing, pre-modified value used, bit reversal, zero step.
2. Conformance: every encoding of the modr family and of the addressing-heavy instruction forms
   (Rn + StepZIDS, ArRn/ArStep with offsets, ArpRn/ArpStep pairs) executed by the real interpreter from
   boundary-clustered states and validated in full (register file after, exact addresses accessed).
"""
from props import isa_common

FAMILY = ['modr', 'modr_dmod', 'modr_i2', 'modr_i2_dmod', 'modr_d2', 'modr_d2_dmod', 'modr_eemod', 'modr_edmod',
          'modr_demod', 'modr_ddmod', 'bitrev', 'bitrev_dbrv', 'bitrev_ebrv',
          'mov/Rn,StepZIDS,Register', 'mov/Register,Rn,StepZIDS', 'mov/Rn,StepZIDS,Bx', 'mov_r6/Rn,StepZIDS',
          'mov_r6_to/Rn,StepZIDS', 'mova', 'mov2', 'mov2s', 'mov2_abh_m', 'mov2_axh_m_y0_m', 'mov2_ax_mij', 'mov2_ax_mji',
          'mov2_mij_ax', 'mov2_mji_ax', 'exchange_iaj', 'exchange_riaj', 'exchange_jai', 'exchange_rjai',
          'mov/ArRn1,ArStep1,ArArp', 'mov/ArArp,ArRn1,ArStep1', 'mov_repc/ArRn1,ArStep1', 'mov_repc_to/ArRn1,ArStep1',
          'movd', 'movp/Rn,StepZIDS,R0123,StepZIDS', 'max_ge_r0', 'min_lt_r0', 'max_ge', 'tstb/Rn,StepZIDS,Imm4',
          'alb/Alb,Imm16,Rn,StepZIDS', 'movr/ArRn2,ArStep2,Abh', 'mac1', 'msu', 'msusu', 'add_add', 'sub_sub',
          'add_sub_sv', 'bkrepsto', 'bkreprst', 'banke', 'bankr', 'load_modi', 'load_modj', 'load_stepi', 'load_stepj',
          'mov_stepi0', 'mov_stepj0', 'sqr_sqr_add3/ArRn2,ArStep2,Ab', 'mma_my_my', 'cbs/ArpRn1,ArpStep1,ArpStep1,CbsCond']
FINISH = dict(rule='address generation theorems for every modulo value in the set x offsets x modes (TLC, exhaustive over '
                   'that domain) + every encoding of the address-modifying families x k boundary-clustered states validated in full')


def run(ck):
    if ck.thorough:
        ck.mc('MC_Addr_all', 'MC_Addr_all.cfg', timeout=3400, coverage=False)
        ck.extra_cov['exhaustive_over_modulo_values'] = True
    else:
        ck.mc('AddrTheorems', 'MC_Addr_quick.cfg', timeout=1200, coverage=False)
    isa_common.family_check(ck, FAMILY, ck.pick(8, 16), 'c10', rounds=ck.pick(1, 4))
    ck.assumptions += isa_common.ISA_ASSUMPTIONS + [
        'the cyclic-walk theorem is stated for start addresses inside the buffer (offset <= mod), as the property does']


def replay(ck, path):
    ck.validate_traces('IsaTrace', 'Trace_Isa.cfg', [path.split('#')[0]])
