"""C10 -- address registers step linearly, modulo or bit-reversed exactly as configured.

1. TLC on TeakAddr at the real widths (AddrTheorems): for every modulo value (22 boundary values quick,
   all 512 thorough) x every in-buffer offset x high-bit patterns x both compatibility modes: stepping by
   +-1 walks cyclically through [base, base+mod], never alters the bits above the alignment, +1 then -1 is
   the identity; modulo off: r' = r + step for every step source (fixed, +-2 in both modes, 7-bit and
   16-bit configured steps), r3/r7 end-pointer zeroing, pre-modified value used, bit reversal, zero step.
2. Conformance: every encoding of the modr family and of the addressing-heavy instruction forms
   (Rn + StepZIDS, ArRn/ArStep with offsets, ArpRn/ArpStep pairs) executed by the real interpreter from
   boundary-clustered states and validated in full (register file after, exact addresses accessed).
3. The repository's own hardware test vectors for this property (src/mod_test_generator: modulo addressing under every
   offset / step mode / modulo; src/step2_test_generator: +-2 steps under all 512 modulo values), built from the working
   tree: executed by the real interpreter and validated by TLC (IsaTrace, generator clause), and the other way round --
   the state TLC predicts (TvReplay) judged by the repository's test_verifier.
"""
from props import isa_common

FAMILY = ['modr', 'modr_dmod', 'modr_i2', 'modr_i2_dmod', 'modr_d2', 'modr_d2_dmod', 'modr_eemod', 'modr_edmod',
          'modr_demod', 'modr_ddmod', 'bitrev', 'bitrev_dbrv', 'bitrev_ebrv',
          'mov/Rn,StepZIDS,Register', 'mov/Register,Rn,StepZIDS', 'mov/Rn,StepZIDS,Bx', 'mov_r6/Rn,StepZIDS',
          'mov_r6_to/Rn,StepZIDS', 'mova', 'mov2', 'mov2s', 'mov2_abh_m', 'mov2_axh_m_y0_m', 'mov2_ax_mij', 'mov2_ax_mji',
          'mov2_mij_ax', 'mov2_mji_ax', 'exchange_iaj', 'exchange_riaj', 'exchange_jai', 'exchange_rjai',
          'mov/ArRn1,ArStep1,ArArp', 'mov/ArArp,ArRn1,ArStep1', 'mov_repc/ArRn1,ArStep1', 'mov_repc_to/ArRn1,ArStep1',
          'movd', 'movp/Rn,StepZIDS,R0123,StepZIDS', 'max_ge_r0', 'min_lt_r0', 'max_ge', 'tstb/Rn,StepZIDS,Imm4',
          'alb/Alb,Imm16,Rn,StepZIDS', 'movr/ArRn2,ArStep2,Abh', 'mac1', 'msu', 'msusu', 'add_add', 'sub_sub',
          'add_sub_sv', 'bkrepsto', 'bkreprst', 'banke', 'bankr', 'load_modi', 'load_modj', 'load_stepi', 'load_stepj',
          'mov_stepi0', 'mov_stepj0', 'sqr_sqr_add3/ArRn2,ArStep2,Ab', 'mma_my_my', 'cbs/ArpRn1,ArpStep1,ArpStep1,CbsCond',
          # every other handler with an address-register / step operand (multiply-accumulate, vector min/max, alm/alu memory
          # forms, ...): the post-modification goes through the same StepAddress / RnAndModify, selected by per-instruction flags
          'add_sub/ArpRn1,ArpStep1,ArpStep1,Ab',
          'add_sub_i_mov_j/ArpRn1,ArpStep1,ArpStep1,Ab',
          'add_sub_j_mov_i/ArpRn1,ArpStep1,ArpStep1,Ab',
          'addhp/ArRn2,ArStep2,Px,Ax',
          'alm/Alm,Rn,StepZIDS,Ax',
          'alu/Alu,MemR7Imm16,Ax',
          'alu/Alu,MemR7Imm7s,Ax',
          'exp/Rn,StepZIDS',
          'exp/Rn,StepZIDS,Ax',
          'max2_vtr_movh/Ax,Bx,ArRn1,ArStep1',
          'max2_vtr_movh/Bx,Ax,ArRn1,ArStep1',
          'max2_vtr_movij/Ax,Bx,ArpRn1,ArpStep1,ArpStep1',
          'max2_vtr_movji/Ax,Bx,ArpRn1,ArpStep1,ArpStep1',
          'max2_vtr_movl/Ax,Bx,ArRn1,ArStep1',
          'max2_vtr_movl/Bx,Ax,ArRn1,ArStep1',
          'max_gt/Ax,StepZIDS',
          'max_gt_r0/Ax,StepZIDS',
          'min2_vtr_movh/Ax,Bx,ArRn1,ArStep1',
          'min2_vtr_movh/Bx,Ax,ArRn1,ArStep1',
          'min2_vtr_movij/Ax,Bx,ArpRn1,ArpStep1,ArpStep1',
          'min2_vtr_movji/Ax,Bx,ArpRn1,ArpStep1,ArpStep1',
          'min2_vtr_movl/Ax,Bx,ArRn1,ArStep1',
          'min2_vtr_movl/Bx,Ax,ArRn1,ArStep1',
          'min_le/Ax,StepZIDS',
          'min_le_r0/Ax,StepZIDS',
          'min_lt/Ax,StepZIDS',
          'mma/ArpRn1,ArpStep1,ArpStep1,bool,bool,RegName,bool,bool,bool,bool,SumBase,bool,bool,bool,bool',
          'mma/ArpRn2,ArpStep2,ArpStep2,bool,bool,RegName,bool,bool,bool,bool,SumBase,bool,bool,bool,bool',
          'mma_mov/ArRn2,ArStep1,RegName,bool,bool,bool,bool,SumBase,bool,bool,bool,bool',
          'mma_mov/Axh,Bxh,ArRn1,ArStep1,RegName,bool,bool,bool,bool,SumBase,bool,bool,bool,bool',
          'mma_mx_xy/ArRn1,ArStep1,RegName,bool,bool,bool,bool,SumBase,bool,bool,bool,bool',
          'mma_xy_mx/ArRn1,ArStep1,RegName,bool,bool,bool,bool,SumBase,bool,bool,bool,bool',
          'mov/ArArpSttMod,MemR7Imm16',
          'mov/ArRn1,ArStep1,SttMod',
          'mov/Axl,MemR7Imm16',
          'mov/Axl,MemR7Imm7s',
          'mov/Imm8s,RnOld',
          'mov/MemImm8,RnOld',
          'mov/MemR7Imm16,ArArpSttMod',
          'mov/MemR7Imm16,Ax',
          'mov/MemR7Imm7s,Ax',
          'mov/RnOld,MemImm8',
          'mov/SttMod,ArRn1,ArStep1',
          'mov_repc/MemR7Imm16',
          'mov_repc_to/MemR7Imm16',
          'mov_sv_app/ArRn1,ArStep1,Bx,SumBase,bool,bool,bool,bool',
          'mov_sv_app/ArRn1,ArStep1Alt,Bx,SumBase,bool,bool,bool,bool',
          'movr/Rn,StepZIDS,Ax',
          'movs/Rn,StepZIDS,Ab',
          'movsi/RnOld,Ab,Imm5s',
          'mul/Mul3,R45,StepZIDS,R0123,StepZIDS,Ax',
          'mul/Mul3,Rn,StepZIDS,Imm16,Ax',
          'mul_y0/Mul3,Rn,StepZIDS,Ax',
          'norm/Ax,Rn,StepZIDS',
          'sub_add/ArpRn1,ArpStep1,ArpStep1,Ab',
          'sub_add_i_mov_j_sv/ArpRn1,ArpStep1,ArpStep1,Ab',
          'sub_add_j_mov_i_sv/ArpRn1,ArpStep1,ArpStep1,Ab',
          'sub_add_sv/ArRn1,ArStep1,Ab',
          'tst4b/ArRn2,ArStep2',
          'tst4b/ArRn2,ArStep2,Ax']
FINISH = dict(rule='address generation theorems for every modulo value in the set x offsets x modes (TLC, exhaustive over '
                   'that domain) + every encoding of the address-modifying families x k boundary-clustered states validated in full')


def run(ck):
    if ck.thorough:
        ck.mc('MC_Addr_all', 'MC_Addr_all.cfg', timeout=3400, coverage=False)
        ck.extra_cov['exhaustive_over_modulo_values'] = True
    else:
        ck.mc('AddrTheorems', 'MC_Addr_quick.cfg', timeout=1200, coverage=False)
    isa_common.family_check(ck, FAMILY, ck.pick(8, 16), 'c10', rounds=ck.pick(1, 4))
    isa_common.sweep_all(ck, 'c10', seedoff=1000)
    # 3. the repository's own hardware test vectors for modulo and double-step addressing, both ways (see tool_vectors)
    isa_common.tool_vectors(ck, ('mod_test_generator', 'step2_test_generator'), 'c10hw')
    ck.assumptions += isa_common.ISA_ASSUMPTIONS + [
        'the cyclic-walk theorem is stated for start addresses inside the buffer (offset <= mod), as the property does']


def replay(ck, path):
    if path.split('#')[0].endswith('.good.bin'):
        from props import c01
        return c01.replay(ck, path)
    ck.validate_traces('IsaTrace', 'Trace_Isa.cfg', [path.split('#')[0]])
