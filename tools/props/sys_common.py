"""Shared orchestration for the system-level properties: record guest-program executions on a real Teakra
in slices (sys_rec) and validate them with TLC against System.tla (SysTrace: n silent Cycle steps per
logged Run(n), then the complete observation must match)."""
import os


def record(ck, nfiles, nprog, tag='sys', mode=None, seedoff=0):
    files = [os.path.join(ck.work, '%s_%02d.ndjson' % (tag, i)) for i in range(nfiles)]
    # every second file is recorded through the C binding (teakra_c.h: Teakra_Run, Teakra_SendData, ...): same programs,
    # same host calls, same specification -- the wrappers are bound as well
    ck.run_jobs(['%s --seed %d --n %d %s %s --out %s' % (ck.bin('sys_rec'), ck.seed * 7919 + i + seedoff, nprog,
                                                         ('--mode ' + mode) if mode else '', '--api c' if i % 2 else '', f)
                 for i, f in enumerate(files)], timeout=900)
    return files


def validate(ck, files):
    # (a DMA transfer is one recursion level per element: give the worker a deep stack)
    return ck.validate_traces('SysTrace', 'Trace_Sys.cfg', files, timeout=3000, jvm=['-Xss64m'])


SYS_ASSUMPTIONS = [
    'System.tla composes the frozen TLA+ instruction semantics with TimerOps, the ICU, the MIU registers, both audio ports '
    '(Btdmp), both mailbox blocks (Apbp), the DMA engine and the AHB bridge (operators of Dma.tla / Ahbm.tla; external '
    'memory = the recorder\'s callbacks, every external access compared in order) as teakra.cpp wires them, plus the host '
    'API between slices (every second trace file goes through the C binding of that API); every offset mmio.cpp binds is '
    'modelled, everything else is a plain storage cell',
    'register effects are applied after the core part of the cycle; a DMA transfer whose range is also touched later in '
    'the same cycle (return address pushed by an interrupt entered in that cycle) is declined (outcome dma-grain), not '
    'guessed; DSP-side DMA cursors outside the array are the known finding oob:dma_cursor (outcome oob)',
    'guest programs come from templates (interrupt handlers, timer/ICU programming, idle and counting loops, calls, '
    'hardware loops, context switches, mailbox echo/poll/mask loops, audio queue feeding, DMA/AHBM programming (mode dma); the audio transmit period, which '
    'has no register, is shortened at construction) with random parameters; TLC, CommunityModules and g++ are trusted']
