"""Shared orchestration for the system-level properties: record guest-program executions on a real Teakra
in slices (sys_rec) and validate them with TLC against System.tla (SysTrace: n silent Cycle steps per
logged Run(n), then the complete observation must match)."""
import os


def record(ck, nfiles, nprog, tag='sys', mode=None, seedoff=0):
    files = [os.path.join(ck.work, '%s_%02d.ndjson' % (tag, i)) for i in range(nfiles)]
    ck.run_jobs(['%s --seed %d --n %d %s --out %s' % (ck.bin('sys_rec'), ck.seed * 7919 + i + seedoff, nprog,
                                                      ('--mode ' + mode) if mode else '', f)
                 for i, f in enumerate(files)], timeout=900)
    return files


def validate(ck, files):
    return ck.validate_traces('SysTrace', 'Trace_Sys.cfg', files, timeout=3000)


SYS_ASSUMPTIONS = [
    'System.tla composes the frozen TLA+ instruction semantics with TimerOps, the ICU, both audio ports (Btdmp) and both '
    'mailbox blocks (Apbp) as teakra.cpp wires them, plus the host API between slices; MMIO '
    'registers of peripherals not modelled there make the specification decline a trace rather than guess',
    'guest programs come from templates (interrupt handlers, timer/ICU programming, idle and counting loops, calls, '
    'hardware loops, context switches, mailbox echo/poll/mask loops, audio queue feeding; the audio transmit period, which '
    'has no register, is shortened at construction) with random parameters; TLC, CommunityModules and g++ are trusted']
