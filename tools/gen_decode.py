#!/usr/bin/env python3
"""DEVELOPMENT-TIME tool (never run by a registered check): transcribes the instruction table of
the PINNED /repo/src/decoder.h into spec/TeakDecodeTable.tla.  The generated module is committed and
from then on frozen: the code under test never feeds the specification.  Re-running it on a changed
decoder.h is a deliberate specification change that must be reviewed like any other.

Each row:  [id, name, key, expected, ops, rej]
  ops : sequence of operand descriptors in declaration order
        [k |-> "at",    t |-> type, p |-> position (16 = second word), b |-> bits, v |-> 0]
        [k |-> "atn",   ...]   AtNamed (passed to the handler as its register name)
        [k |-> "const", t |-> type, p |-> 0, b |-> 0, v |-> value]      Const<T, v>
        [k |-> "cn",    t |-> "bool"|"SumBase", p |-> 0, b |-> 0, v |-> value]   SX/UX/BZr/Add/PP/...
        [k |-> "unused", t |-> "", p |-> position, b |-> 1, v |-> 0]    Unused<p>
  rej : sequence of [m |-> mask, u |-> unexpected]                      .EXCEPT(AtConst<T,p,v>)
  key : handler name + "/" + parameter type list: identifies the C++ overload that runs.
"""
import re, sys

BITS = {  # operand type -> bit width (operand.h)
 'Register': 5, 'Ax': 1, 'Axl': 1, 'Axh': 1, 'Bx': 1, 'Bxl': 1, 'Bxh': 1, 'Px': 1, 'Ab': 2, 'Abl': 2,
 'Abh': 2, 'Abe': 2, 'Ablh': 3, 'RnOld': 3, 'Rn': 3, 'R45': 1, 'R0123': 2, 'ArArpSttMod': 4, 'ArArp': 3,
 'SttMod': 3, 'Ar': 1, 'Arp': 2, 'SwapType': 4, 'StepZIDS': 2, 'ArRn1': 1, 'ArRn2': 2, 'ArStep1': 1,
 'ArStep1Alt': 1, 'ArStep2': 2, 'ArpRn1': 1, 'ArpRn2': 2, 'ArpStep1': 1, 'ArpStep2': 2,
 'Address18_2': 2, 'Address18_16': 16, 'Address16': 16, 'RelAddr7': 7, 'Imm2': 2, 'Imm4': 4, 'Imm5': 5,
 'Imm5s': 5, 'Imm6s': 6, 'Imm7s': 7, 'Imm8': 8, 'Imm8s': 8, 'Imm9': 9, 'Imm16': 16, 'MemImm8': 8,
 'MemImm16': 16, 'MemR7Imm7s': 7, 'MemR7Imm16': 16, 'Alm': 4, 'Alu': 3, 'Alb': 3, 'Mul3': 3, 'Mul2': 2,
 'Moda4': 4, 'Moda3': 3, 'Cond': 4, 'BankFlags': 6, 'CbsCond': 1,
}
CN = {'SX': ('bool', 1), 'UX': ('bool', 0), 'SY': ('bool', 1), 'UY': ('bool', 0),
      'BZr': ('SumBase', 0), 'BAc': ('SumBase', 1), 'BSv': ('SumBase', 2), 'BSr': ('SumBase', 3),
      'PA': ('bool', 1), 'PP': ('bool', 0), 'Sub': ('bool', 1), 'Add': ('bool', 0),
      'EMod': ('bool', 0), 'DMod': ('bool', 1)}


def split_top(s):
    out, depth, cur = [], 0, ''
    for ch in s:
        if ch == '<':
            depth += 1
        elif ch == '>':
            depth -= 1
        if ch == ',' and depth == 0:
            out.append(cur.strip()); cur = ''
        else:
            cur += ch
    if cur.strip():
        out.append(cur.strip())
    return out


def main(path='/repo/src/decoder.h', out='/verif/spec/TeakDecodeTable.tla'):
    src = open(path).read()
    src = src[src.index('#define EXCEPT'):src.index('#undef INST')]
    src = src[src.index('\n'):]
    src = re.sub(r'//.*', '', src)
    rows = []
    # each INST(...) optionally followed by .EXCEPT(...)*
    pos = 0
    while True:
        m = re.search(r'INST\(', src[pos:])
        if not m:
            break
        start = pos + m.end()
        depth, i = 1, start
        while depth:
            if src[i] == '(':
                depth += 1
            elif src[i] == ')':
                depth -= 1
            i += 1
        body = src[start:i - 1]
        rest = src[i:]
        rej = []
        while True:
            m2 = re.match(r'\s*\.EXCEPT\(AtConst<(\w+),\s*(\d+),\s*(\d+)>\)', rest)
            if not m2:
                break
            t, p, v = m2.group(1), int(m2.group(2)), int(m2.group(3))
            rej.append(((((1 << BITS[t]) - 1) << p) & 0xFFFF, (v << p) & 0xFFFF))
            rest = rest[m2.end():]
        pos = len(src) - len(rest)
        parts = split_top(body)
        name, expected = parts[0], int(parts[1], 16)
        ops = []
        for o in parts[2:]:
            m3 = re.match(r'(At|AtNamed)<(\w+),\s*(\d+)>$', o)
            if m3:
                ops.append(('atn' if m3.group(1) == 'AtNamed' else 'at', m3.group(2), int(m3.group(3)), BITS[m3.group(2)], 0))
                continue
            m3 = re.match(r'Const<(\w+),\s*(\d+)>$', o)
            if m3:
                ops.append(('const', m3.group(1), 0, 0, int(m3.group(2)))); continue
            m3 = re.match(r'Unused<(\d+)>$', o)
            if m3:
                ops.append(('unused', '', int(m3.group(1)), 1, 0)); continue
            if o in CN:
                ops.append(('cn', CN[o][0], 0, 0, CN[o][1])); continue
            raise SystemExit('cannot parse operand %r in %s' % (o, body))
        ptypes = [('RegName' if k == 'atn' else t) for (k, t, p, b, v) in ops if k != 'unused']
        rows.append((name, expected, ops, rej, name + '/' + ','.join(ptypes)))
    with open(out, 'w') as f:
        f.write('--------------------------- MODULE TeakDecodeTable ---------------------------\n')
        f.write('(* The XpertTeak instruction table: %d rows transcribed once from the pinned decoder.h by    *)\n' % len(rows))
        f.write('(* tools/gen_decode.py and frozen here (see that file for the row format).  Nothing in a      *)\n')
        f.write('(* check regenerates this module from the code under test.                                    *)\n')
        f.write('Rows == <<\n')
        for i, (name, expected, ops, rej, key) in enumerate(rows):
            o = ', '.join('[k |-> "%s", t |-> "%s", p |-> %d, b |-> %d, v |-> %d]' % x for x in ops)
            r = ', '.join('[m |-> %d, u |-> %d]' % x for x in rej)
            f.write('  [id |-> %d, name |-> "%s", key |-> "%s", expected |-> %d,\n   ops |-> <<%s>>,\n   rej |-> <<%s>>]%s\n'
                    % (i + 1, name, key, expected, o, r, ',' if i + 1 < len(rows) else ''))
        f.write('>>\n=============================================================================\n')
    keys = sorted(set(r[4] for r in rows))
    print('%d rows, %d distinct handler keys' % (len(rows), len(keys)))


if __name__ == '__main__':
    main(*sys.argv[1:])
