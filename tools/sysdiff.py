#!/usr/bin/env python3
"""Development helper: in a sys_rec trace, compare the observations of the different slicings of the same
program at equal cumulative cycle counts (pure C06 at the implementation level, no specification)."""
import json, sys
def main(path):
    runs=[]; cur=None
    for n,ln in enumerate(open(path),1):
        d=json.loads(ln)
        if d['e']=='New': cur={'line':n,'obs':{}, 'cyc':0, 'prog':d.get('prog')}; runs.append(cur)
        elif d['e']=='Load': cur['load']=d['w']
        elif d['e']=='Run':
            cur['cyc']+=d['n']; cur['obs'][cur['cyc']]=(n,d)
    # group consecutive runs with same load
    i=0
    while i<len(runs):
        g=[runs[i]]; j=i+1
        while j<len(runs) and runs[j].get('load')==runs[i].get('load'): g.append(runs[j]); j+=1
        base=g[0]
        for o in g[1:]:
            for c,(n,d) in o['obs'].items():
                if c in base['obs']:
                    n0,d0=base['obs'][c]
                    for k in ('r','lat','idle','tm','icu','out'):
                        if d0[k]!=d[k]:
                            if k=='r':
                                diff=[(x,a,b) for x,(a,b) in enumerate(zip(d0['r'],d['r']),1) if a!=b]
                            else: diff=(d0[k],d[k])
                            print('DIFF prog@line %d vs @line %d at cycle %d (lines %d,%d) field %s: %s'%(base['line'],o['line'],c,n0,n,k,str(diff)[:300]))
        i=j
main(sys.argv[1])
