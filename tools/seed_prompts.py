#!/usr/bin/env python3
"""Development-time tool: writes the task descriptions handed to independent sub-agents that seed realistic
regressions (one file per property; the agent sees only the property text and its own scratch worktree).

  tools/seed_prompts.py <round> <outdir>        worktrees are expected at /tmp/seed<round>-<Cxx>
"""
import json, os, sys

T = '''You are testing how well a verification setup (which you cannot see and must not look for) detects realistic regressions in an open-source C++ project: wwylele/teakra, an emulator/assembler/disassembler for the XpertTeak DSP. You work ONLY inside your own git worktree of the project at {wt} (a checkout of the current HEAD). Do not read, list or touch /verif, /repo or any other directory outside {wt} (except /tmp scratch files of your own and system headers/tools). No network.

THE PROPERTY the project is supposed to satisfy (id {pid}): "{title}"
{statement}
It must hold for: {quant}

YOUR TASK: produce TWO independent source changes (call them A and B; different mechanisms, ideally different functions/files) to the project, each of which
  1. BREAKS the property above (the emulator/assembler then really violates it for some input, state, program, schedule or history),
  2. still compiles with the project's normal build (cmake, warnings are not errors for you: if -Werror trips, fix the warning), and
  3. still passes the project's existing test suite unchanged (`cmake -S {wt} -B {wt}/_b -G Ninja >/dev/null && cmake --build {wt}/_b && ctest --test-dir {wt}/_b`),
  4. is REALISTIC: the kind of slip a maintainer could make in a refactoring or "optimisation" (an off-by-one at a boundary, a wrong field or index in one of many similar lines, a missing case, a reordered pair of statements, a dropped lock/recompute, a wrong mask or sign extension in one path) - not sabotage that ordinary use exposes at once. Prefer changes that need something SPECIFIC to manifest: a particular operand value or register state, a boundary count, a particular interleaving, a multi-step sequence of operations, an unusual but legal configuration, or two cooperating sites that each look fine alone. Do not touch tests/, the build system, or anything guarded by `#ifdef TEAKRA_VERIF` (those guarded lines are inert instrumentation; leave them exactly as they are). Keep each change small (a few lines).
For each change also write a DEMONSTRATION: a small standalone C++ program (or shell script driving the project's own tools) that exits non-zero / prints FAIL with the change applied and exits 0 / prints PASS on the unchanged tree. It may include the project's headers and link its library the way tests/*.cpp do (e.g. `g++ -std=c++17 -I{wt}/include -I{wt}/include/teakra -I{wt}/include/teakra/impl -I{wt}/src demo.cpp {wt}/_b/src/libteakra.a -pthread`). The demonstration must show the property being violated (compare against what the property demands, e.g. against single-stepping, against exact arithmetic, against the documented sequence), not just "behaviour changed".

Deliver, inside {wt}/_seed/ : A/patch.diff (unified diff from `git diff`, applying cleanly with `git apply` to the unchanged tree), A/demo.cpp (or demo.sh) and A/README.txt (what the change is, why it breaks the property, what exactly is needed for it to manifest, the exact commands you ran and their output on both trees); the same under B/. Verify everything yourself: unchanged tree: build, the suite passes, demo passes; with each patch alone: build, the suite passes, demo fails. Leave the worktree's tracked files UNCHANGED at the end (`git -C {wt} checkout -- .`; the untracked _seed/ and _b/ directories stay). Finally reply with a short summary of A and B (files touched, one-line mechanism, what is needed to manifest).
'''

EXTRA = {
 5: '''
ADDITIONAL GUIDANCE for this round: four earlier rounds already tried single-line arithmetic/mask/index slips, hidden-state and multi-component slips, rarely used instruction forms, unusual register configurations, the C binding of the host API, missing callbacks, the order of effects inside one instruction, long horizons and large counts, exact constants, error paths and default arguments. Look for what is still left, in the shape of a plausible CLEAN-UP or MODERNISATION commit: hand-written bit manipulation replaced by a helper or a standard-library call that differs for one input; a local or parameter changing width or signedness (u16 <-> u32 <-> s32, int <-> std::size_t); a value hoisted or cached before a statement that modifies what it was computed from; two similar functions, overloads or switch arms merged although they differed in one detail; a switch turned into a table with one entry wrong; an inclusive bound turned exclusive; initialisation moved between constructor, member initialiser and Reset; a std::function / lambda capturing by value what was captured by reference (or the reverse); a lock scope narrowed or a flag read outside it; an early return added in front of a side effect. Prefer an effect that shows only in COMBINATION with something else the property quantifies over (an interrupt or context switch in between, a bank or page switch, a second component active in the same cycle, the other thread at a particular point, a particular earlier call). Less-travelled places are welcome: src/teakra.cpp, src/teakra_c.cpp, src/memory_interface.cpp, src/shared_memory.h, src/ahbm.cpp, src/dma.cpp, src/btdmp.cpp, src/apbp.cpp, src/timer.cpp, src/processor.cpp, src/register.h, src/matcher.h, src/decoder.h, src/parser.cpp, src/disassembler.cpp, src/core_timing.h and the tools. The change must still be a plausible maintenance slip (not sabotage), and the two changes must use different mechanisms and preferably different files from each other.
''',
 6: '''
ADDITIONAL GUIDANCE for this round: five earlier rounds already tried single-line arithmetic/mask/index slips, hidden-state and multi-component slips, rarely used instruction forms, unusual register configurations, the C binding, missing callbacks, the order of effects inside one instruction, long horizons, exact constants, error paths, default arguments, and clean-up style commits (helpers, width/signedness changes, hoisting, merged switch arms, tables, bounds, initialisation moves, lambda captures, lock scopes, early returns). Look for what is still left. Directions that have been tried least: (1) behaviour that depends on what the SAME object did many calls or instructions earlier (a memo/cache keyed too coarsely, a lazily built table, a static or thread_local, a flag that is only cleared on one of two exits), or on a SECOND emulator instance living in the same process; (2) 32-bit quantities at and above 2^31 (timer counters and start values, DMA and AHBM addresses, external addresses, cycle counts passed to Run, skip counts), and 64-bit intermediate values of the 40-bit datapath; (3) the VALUE of the second program word / immediate (a particular immediate, address or bit pattern in it), conditions (the 16 condition codes under rare flag combinations), and combinations of addressing features (modulo + step2 modes + bit reversal + offset forms together); (4) two events in the SAME cycle or the same call whose relative order is observable (two timers, timer + audio port, DMA completion + mailbox, two host callbacks), and host API calls made in an unusual but legal order (before the first Reset, callbacks installed or replaced late, the same call twice in a row, a call made from inside a callback); (5) the tools and text paths (src/makedsp1, src/dsp1_reader, src/coff_reader, src/parser.cpp number/sign handling of immediates, src/disassembler.cpp rendering of particular immediates or addresses, src/test_generator.cpp, src/test_verifier) where the property speaks about them. The change must still be a plausible maintenance slip (not sabotage), need something specific to manifest, and the two changes must use different mechanisms and preferably different files from each other.
''',
}


def main():
    rnd, out = int(sys.argv[1]), sys.argv[2]
    v = os.path.dirname(os.path.dirname(os.path.abspath(__file__)))
    os.makedirs(out, exist_ok=True)
    for l in open(os.path.join(v, 'properties.jsonl')):
        d = json.loads(l)
        wt = '/tmp/seed%d-%s' % (rnd, d['id']) if rnd > 1 else '/tmp/seed-' + d['id']
        txt = T.format(wt=wt, pid=d['id'], title=d['title'], statement=d['statement'], quant=d['quantifier']['text']) + EXTRA.get(rnd, '')
        open(os.path.join(out, d['id'] + '.txt'), 'w').write(txt)


if __name__ == '__main__':
    main()
