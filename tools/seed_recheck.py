#!/usr/bin/env python3
"""Development-time tool (not a registered command): run checks again against kept seeded changes.

  tools/seed_recheck.py [--tier quick] [--checks C06,C15] [--jobs 2] <id> [<id> ...]      (id = C06-H, or "all")

For every id the patch /verif/seeded/<id>/patch.diff is applied to a scratch worktree of /repo's HEAD
(under /tmp, removed afterwards, /repo itself is never touched), the property's own check (or --checks) is run
with VERIF_REPO / VERIF_BUILD pointing at the scratch tree, and the outcome is printed and appended to
/verif/seeded/<id>/meta.json under "rechecks".  A patch that no longer applies to HEAD (the code it touches was
repaired since) is reported as such.  Evidence files of /verif are not touched (vlib redirects them).
"""
import argparse, concurrent.futures as cf, json, os, shutil, subprocess, sys, time

V = os.path.dirname(os.path.dirname(os.path.abspath(__file__)))


def sh(cmd, cwd=None, timeout=7200, env=None):
    e = dict(os.environ)
    if env:
        e.update(env)
    p = subprocess.run(cmd, shell=True, cwd=cwd, stdout=subprocess.PIPE, stderr=subprocess.STDOUT, text=True,
                       errors='replace', timeout=timeout, env=e)
    return p.returncode, p.stdout


def one(sid, checks, tier):
    d = os.path.join(V, 'seeded', sid)
    patch = os.path.join(d, 'patch.diff')
    wt, vb = '/tmp/rw-%s' % sid, '/tmp/rb-%s' % sid
    sh('git -C /repo worktree remove --force %s' % wt); shutil.rmtree(wt, ignore_errors=True); shutil.rmtree(vb, ignore_errors=True)
    rc, out = sh('git -C /repo worktree add --detach %s HEAD' % wt)
    if rc != 0:
        return sid, {'error': out[-300:]}
    res = {'when': time.strftime('%Y-%m-%d'), 'repo_head': sh('git -C /repo rev-parse --short HEAD')[1].strip(), 'tier': tier}
    try:
        rc, out = sh('git apply %s' % patch, cwd=wt)
        res['applies_to_head'] = rc == 0
        if rc != 0:
            res['note'] = out[-300:]
            return sid, res
        det = {}
        for c in checks or [sid.split('-')[0]]:
            t0 = time.time()
            rc, out = sh('./check %s --tier %s' % (c, tier), cwd=V, env={'VERIF_REPO': wt, 'VERIF_BUILD': vb})
            viol = [l for l in out.splitlines() if l.startswith('VIOLATION')]
            det[c] = {'exit': rc, 'violations': [v.replace(vb, '<build>') for v in viol[:2]], 'wall_s': round(time.time() - t0)}
        res['detected_by'] = [c for c, x in det.items() if x['exit'] == 1 and x['violations']]
        res['checks'] = det
        return sid, res
    finally:
        sh('git -C /repo worktree remove --force %s' % wt)
        shutil.rmtree(wt, ignore_errors=True); shutil.rmtree(vb, ignore_errors=True)


def main():
    ap = argparse.ArgumentParser()
    ap.add_argument('ids', nargs='+')
    ap.add_argument('--checks', default=None)
    ap.add_argument('--tier', default='quick')
    ap.add_argument('--jobs', type=int, default=1)
    a = ap.parse_args()
    ids = a.ids
    if ids == ['all']:
        ids = sorted(x for x in os.listdir(os.path.join(V, 'seeded')) if os.path.exists(os.path.join(V, 'seeded', x, 'patch.diff')))
    checks = a.checks.split(',') if a.checks else None
    missed = 0
    with cf.ThreadPoolExecutor(a.jobs) as ex:
        for sid, res in ex.map(lambda s: one(s, checks, a.tier), ids):
            mp = os.path.join(V, 'seeded', sid, 'meta.json')
            try:
                meta = json.load(open(mp))
            except Exception:
                meta = {'id': sid}
            meta.setdefault('rechecks', []).append(res)
            tmp = mp + '.tmp'
            json.dump(meta, open(tmp, 'w'), indent=1)
            os.replace(tmp, mp)
            print(json.dumps({'id': sid, 'applies': res.get('applies_to_head'), 'detected_by': res.get('detected_by'),
                              'wall': {c: x['wall_s'] for c, x in res.get('checks', {}).items()}}), flush=True)
            if res.get('applies_to_head') and not res.get('detected_by'):
                missed += 1
    print('RECHECK-DONE ids=%d missed=%d' % (len(ids), missed))


if __name__ == '__main__':
    main()
