#!/usr/bin/env python3
"""Development-time tool (not a registered command): confirm a seeded change delivered by an independent
sub-agent and run our checks against it.

  tools/seed_eval.py <property> <A|B> [--checks C01,C03] [--tier quick]

The change lives in /tmp/seed-<property>/_seed/<A|B>/ (patch.diff, demo.cpp|demo.sh, README.txt).  In a
scratch worktree of /repo's HEAD (outside /repo and /verif, removed afterwards) it is confirmed that:
the unchanged tree builds, passes the repository's tests and the demonstration; with the patch the tree
builds, still passes the tests, and the demonstration fails.  Then the named checks (default: the
property's own) are run against the patched worktree (VERIF_REPO/VERIF_BUILD); exit 1 with a VIOLATION line
is a detection.  The change is kept as /verif/seeded/<property>-<A|B>/ with meta.json.
"""
import argparse, json, os, shutil, subprocess, sys, time

V = os.path.dirname(os.path.dirname(os.path.abspath(__file__)))


def sh(cmd, cwd=None, timeout=3600, env=None):
    e = dict(os.environ)
    if env:
        e.update(env)
    p = subprocess.run(cmd, shell=True, cwd=cwd, stdout=subprocess.PIPE, stderr=subprocess.STDOUT, text=True,
                       errors='replace', timeout=timeout, env=e)
    return p.returncode, p.stdout


def main():
    ap = argparse.ArgumentParser()
    ap.add_argument('prop'); ap.add_argument('which')
    ap.add_argument('--checks', default=None)
    ap.add_argument('--tier', default='quick')
    ap.add_argument('--skip-confirm', action='store_true')
    ap.add_argument('--round', type=int, default=1, help='2: second round (/tmp/seed2-<prop>/_seed/<A|B>, kept as <prop>-C / <prop>-D)')
    a = ap.parse_args()
    sid = '%s-%s' % (a.prop, a.which if a.round == 1 else {2: {'A': 'C', 'B': 'D'}, 3: {'A': 'E', 'B': 'F'}, 4: {'A': 'G', 'B': 'H'}, 5: {'A': 'I', 'B': 'J'}, 6: {'A': 'K', 'B': 'L'}}[a.round][a.which])
    src = {1: '/tmp/seed-%s/_seed/%s', 2: '/tmp/seed2-%s/_seed/%s', 3: '/tmp/seed3-%s/_seed/%s', 4: '/tmp/seed4-%s/_seed/%s', 5: '/tmp/seed5-%s/_seed/%s', 6: '/tmp/seed6-%s/_seed/%s'}[a.round] % (a.prop, a.which)
    patch = os.path.join(src, 'patch.diff')
    wt = '/tmp/sw-%s' % sid
    vb = '/tmp/vb-%s' % sid
    meta = {'id': sid, 'breaks_property': a.prop, 'source': 'independent sub-agent given only the property text and its own worktree',
            'repo_head': sh('git -C /repo rev-parse --short HEAD')[1].strip(), 'ran': []}
    sh('git -C /repo worktree remove --force %s' % wt); shutil.rmtree(wt, ignore_errors=True); shutil.rmtree(vb, ignore_errors=True)
    rc, out = sh('git -C /repo worktree add --detach %s HEAD' % wt)
    assert rc == 0, out
    try:
        rc, out = sh('git apply --check %s' % patch, cwd=wt)
        meta['applies_to_head'] = rc == 0
        if rc != 0:
            print('patch does not apply to HEAD:\n' + out); meta['note'] = out[-500:]
            return finish(sid, src, meta, None)
        demo = next((f for f in ('demo.cpp', 'demo.sh') if os.path.exists(os.path.join(src, f))), None)
        inc = '-I{w}/include -I{w}/include/teakra -I{w}/include/teakra/impl -I{w}/src'.format(w=wt)

        def build_and_test(tag):
            rc, out = sh('cmake -S . -B _b -G Ninja >/dev/null 2>&1; cmake --build _b 2>&1 | tail -3 && ctest --test-dir _b 2>&1 | tail -3', cwd=wt, timeout=1800)
            ok = '100% tests passed' in out
            meta['ran'].append('%s: cmake --build + ctest -> %s' % (tag, 'tests pass' if ok else 'FAIL'))
            return ok

        def run_demo(tag):
            if demo == 'demo.cpp':
                # compiled from the same relative place inside the scratch worktree (demos may include "../../src/...")
                dd = os.path.join(wt, '_seed', a.which)
                os.makedirs(dd, exist_ok=True)
                for fn in os.listdir(src):          # the demo may come with helper headers
                    if os.path.isfile(os.path.join(src, fn)) and fn != 'patch.diff':
                        shutil.copyfile(os.path.join(src, fn), os.path.join(dd, fn))
                try:
                    os.remove('/tmp/demo-%s' % sid)
                except OSError:
                    pass
                rc, out = sh('g++ -std=c++17 -O1 %s %s -o /tmp/demo-%s %s/_b/src/libteakra_c.a %s/_b/src/libteakra.a -pthread 2>&1 | tail -5' %
                             (inc, os.path.join(dd, demo), sid, wt, wt), timeout=900)
                if not os.path.exists('/tmp/demo-%s' % sid):
                    meta['ran'].append('%s: demo compile failed: %s' % (tag, out[-300:]))
                rc, out = sh('timeout 900 /tmp/demo-%s 2>&1 | tail -5' % sid)
                rc2, _ = sh('timeout 900 /tmp/demo-%s >/dev/null 2>&1' % sid)
            else:
                rc2, out = sh('WT=%s ROOT=%s BUILD=%s/_b B=%s/_b bash %s 2>&1 | tail -5' % (wt, wt, wt, wt, os.path.join(src, demo)), cwd=wt, timeout=900)
            meta['ran'].append('%s: demo exit %d: %s' % (tag, rc2, out.strip()[-160:]))
            return rc2

        if not a.skip_confirm:
            ok0 = build_and_test('unchanged')
            d0 = run_demo('unchanged')
            sh('git apply %s' % patch, cwd=wt)
            ok1 = build_and_test('patched')
            d1 = run_demo('patched')
            meta['confirmed'] = bool(ok0 and ok1 and d0 == 0 and d1 != 0)
            meta['confirm_detail'] = {'tests_unchanged': ok0, 'tests_patched': ok1, 'demo_unchanged_exit': d0, 'demo_patched_exit': d1}
        else:
            sh('git apply %s' % patch, cwd=wt)
        shutil.rmtree(os.path.join(wt, '_b'), ignore_errors=True)
        checks = (a.checks or a.prop).split(',')
        det = {}
        for c in checks:
            t0 = time.time()
            rc, out = sh('./check %s --tier %s' % (c, a.tier), cwd=V, env={'VERIF_REPO': wt, 'VERIF_BUILD': vb}, timeout=7200)
            viol = [l for l in out.splitlines() if l.startswith('VIOLATION')]
            det[c] = {'exit': rc, 'violations': viol[:3], 'first_detail': next((l.strip()[:400] for l in out.splitlines() if l.startswith('  [')), ''),
                      'wall_s': round(time.time() - t0)}
            meta['ran'].append('VERIF_REPO=<patched worktree> ./check %s --tier %s -> exit %d' % (c, a.tier, rc))
            print(c, 'exit', rc, viol[:1], det[c]['first_detail'][:200])
        meta['detected_by'] = [c for c, d in det.items() if d['exit'] == 1 and d['violations']]
        meta['checks'] = det
        return finish(sid, src, meta, demo)
    finally:
        sh('git -C /repo worktree remove --force %s' % wt)
        shutil.rmtree(wt, ignore_errors=True); shutil.rmtree(vb, ignore_errors=True)
        try:
            os.remove('/tmp/demo-%s' % sid)
        except OSError:
            pass


def finish(sid, src, meta, demo):
    dst = os.path.join(V, 'seeded', sid)
    os.makedirs(dst, exist_ok=True)
    for f in sorted(set(['patch.diff', 'README.txt', demo] + [x for x in os.listdir(src) if x.endswith(('.h', '.hpp', '.sh', '.cpp'))])):
        if f and os.path.isfile(os.path.join(src, f)):
            shutil.copyfile(os.path.join(src, f), os.path.join(dst, f))
    rd = os.path.join(src, 'README.txt')
    if os.path.exists(rd):
        txt = open(rd, errors='replace').read()
        meta['needs_to_manifest'] = txt[:1200]
    json.dump(meta, open(os.path.join(dst, 'meta.json'), 'w'), indent=1)
    print(json.dumps({k: meta.get(k) for k in ('id', 'confirmed', 'detected_by')}))
    return 0


if __name__ == '__main__':
    sys.exit(main())
