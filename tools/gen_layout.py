#!/usr/bin/env python3
"""DEVELOPMENT-TIME tool: one table (below, written by hand from register.h) describing how the
complete RegisterState is flattened into an integer array, from which both sides of the binding are
generated so that they cannot disagree on an index:
   harness/reglayout.h        pack/unpack between Teakra::RegisterState and int[NREG]
   spec/TeakRegLayout.tla     Unpack(tuple) -> record, Pack(record) -> tuple
The packing deliberately does NOT go through RegisterState::Get<>/Set<> (the pseudo-register views are
themselves under test, C20).  Accumulators are 4 ints: l, h, e (8 bits) and `up` = 1 iff bits 40..63 are
not the sign extension of bit 39 (ill-formed; the specification only ever produces 0).  Products are
two 16-bit limbs.  All values < 2^31.
"""
# (tla field, C++ lvalue expression or special kind, count)
L = [
 ('pc', 'r.pc', 1), ('prpage', 'r.prpage', 1), ('cpc', 'r.cpc', 1), ('repc', 'r.repc', 1), ('repcs', 'r.repcs', 1),
 ('rep', 'BOOL r.rep', 1), ('crep', 'r.crep', 1), ('bcn', 'r.bcn', 1), ('lp', 'r.lp', 1),
 ('bk', 'BK', 12),
 ('a0', 'ACC r.a[0]', 4), ('a1', 'ACC r.a[1]', 4), ('b0', 'ACC r.b[0]', 4), ('b1', 'ACC r.b[1]', 4),
 ('a1s', 'ACC r.a1s', 4), ('b1s', 'ACC r.b1s', 4),
 ('ccnta', 'r.ccnta', 1), ('sat', 'r.sat', 1), ('sata', 'r.sata', 1), ('s', 'r.s', 1), ('sv', 'r.sv', 1),
 ('fz', 'r.fz', 1), ('fm', 'r.fm', 1), ('fn', 'r.fn', 1), ('fv', 'r.fv', 1), ('fe', 'r.fe', 1), ('fc0', 'r.fc0', 1),
 ('fc1', 'r.fc1', 1), ('flm', 'r.flm', 1), ('fvl', 'r.fvl', 1), ('fr', 'r.fr', 1),
 ('vtr0', 'r.vtr0', 1), ('vtr1', 'r.vtr1', 1),
 ('x', 'ARR r.x', 2), ('y', 'ARR r.y', 2), ('hwm', 'r.hwm', 1),
 ('p0', 'P32 r.p[0]', 2), ('p1', 'P32 r.p[1]', 2), ('pe', 'ARR r.pe', 2), ('ps', 'ARR r.ps', 2), ('p0h_cbs', 'r.p0h_cbs', 1),
 ('r', 'ARR r.r', 8), ('mixp', 'r.mixp', 1), ('sp', 'r.sp', 1), ('page', 'r.page', 1), ('pcmhi', 'r.pcmhi', 1),
 ('r0b', 'r.r0b', 1), ('r1b', 'r.r1b', 1), ('r4b', 'r.r4b', 1), ('r7b', 'r.r7b', 1),
 ('stepi', 'r.stepi', 1), ('stepj', 'r.stepj', 1), ('modi', 'r.modi', 1), ('modj', 'r.modj', 1),
 ('stepi0', 'r.stepi0', 1), ('stepj0', 'r.stepj0', 1),
 ('stepib', 'r.stepib', 1), ('stepjb', 'r.stepjb', 1), ('modib', 'r.modib', 1), ('modjb', 'r.modjb', 1),
 ('stepi0b', 'r.stepi0b', 1), ('stepj0b', 'r.stepj0b', 1),
 ('m', 'ARR r.m', 8), ('br', 'ARR r.br', 8), ('stp16', 'r.stp16', 1), ('cmd', 'r.cmd', 1), ('epi', 'r.epi', 1), ('epj', 'r.epj', 1),
 ('arstep', 'ARR r.arstep', 4), ('arpstepi', 'ARR r.arpstepi', 4), ('arpstepj', 'ARR r.arpstepj', 4),
 ('aroffset', 'ARR r.aroffset', 4), ('arpoffseti', 'ARR r.arpoffseti', 4), ('arpoffsetj', 'ARR r.arpoffsetj', 4),
 ('arrn', 'ARR r.arrn', 4), ('arprni', 'ARR r.arprni', 4), ('arprnj', 'ARR r.arprnj', 4),
 ('ip', 'ARR r.ip', 3), ('ipv', 'r.ipv', 1), ('im', 'ARR r.im', 3), ('imv', 'r.imv', 1), ('ic', 'ARR r.ic', 3),
 ('nimc', 'r.nimc', 1), ('ie', 'r.ie', 1),
 ('ou', 'ARR r.ou', 5), ('iu', 'ARR r.iu', 2), ('ext', 'ARR r.ext', 4), ('mod0c', 'r.mod0_unk_const', 1),
 # shadow_registers (ShadowRegisterList of flags), in declaration order
 ('sh', 'SH', 10),
 # shadow_swap_registers
 ('ss', 'SS', 32),
 # ShadowSwapAr<0..1>, ShadowSwapArp<0..3>: rni, rnj, stepi, stepj, offseti, offsetj
 ('sar', 'SAR', 12), ('sarp', 'SARP', 24),
]

# bit width of each packed integer of a field (int: same for all elements; list: per element, repeated)
WIDTHS = {
 'pc': 18, 'prpage': 4, 'cpc': 1, 'repc': 16, 'repcs': 16, 'rep': 1, 'crep': 1, 'bcn': 3, 'lp': 1,
 'bk': [18, 18, 16], 'a0': [16, 16, 8, 0], 'a1': [16, 16, 8, 0], 'b0': [16, 16, 8, 0], 'b1': [16, 16, 8, 0],
 'a1s': [16, 16, 8, 0], 'b1s': [16, 16, 8, 0], 'ccnta': 1, 'sat': 1, 'sata': 1, 's': 1, 'sv': 16,
 'fz': 1, 'fm': 1, 'fn': 1, 'fv': 1, 'fe': 1, 'fc0': 1, 'fc1': 1, 'flm': 1, 'fvl': 1, 'fr': 1,
 'vtr0': 16, 'vtr1': 16, 'x': 16, 'y': 16, 'hwm': 2, 'p0': 16, 'p1': 16, 'pe': 1, 'ps': 2, 'p0h_cbs': 16,
 'r': 16, 'mixp': 16, 'sp': 16, 'page': 8, 'pcmhi': 2, 'r0b': 16, 'r1b': 16, 'r4b': 16, 'r7b': 16,
 'stepi': 7, 'stepj': 7, 'modi': 9, 'modj': 9, 'stepi0': 16, 'stepj0': 16,
 'stepib': 7, 'stepjb': 7, 'modib': 9, 'modjb': 9, 'stepi0b': 16, 'stepj0b': 16,
 'm': 1, 'br': 1, 'stp16': 1, 'cmd': 1, 'epi': 1, 'epj': 1,
 'arstep': 3, 'arpstepi': 3, 'arpstepj': 3, 'aroffset': 2, 'arpoffseti': 2, 'arpoffsetj': 2,
 'arrn': 3, 'arprni': 2, 'arprnj': 2,
 'ip': 1, 'ipv': 1, 'im': 1, 'imv': 1, 'ic': 1, 'nimc': 1, 'ie': 1, 'ou': 1, 'iu': 1, 'ext': 16, 'mod0c': 3,
 'sh': 1,
 'ss': [2, 1, 1, 2, 1, 2, 2, 8, 1, 1] + [1] * 8 + [1] * 8 + [1] * 3 + [1, 1, 1],
 'sar': [3, 3, 3, 3, 2, 2], 'sarp': [2, 2, 3, 3, 2, 2],
}
SH_FIELDS = ['flm', 'fvl', 'fe', 'fc0', 'fc1', 'fv', 'fn', 'fm', 'fz', 'fr']
SS_FIELDS = [('pcmhi', 1), ('sat', 1), ('sata', 1), ('hwm', 1), ('s', 1), ('ps', 2), ('page', 1), ('stp16', 1),
             ('cmd', 1), ('m', 8), ('br', 8), ('im', 3), ('imv', 1), ('epi', 1), ('epj', 1)]


def main():
    n = sum(c for _, _, c in L)
    assert dict((a, c) for a, b, c in L)['ss'] == sum(c for _, c in SS_FIELDS)
    # ---------------- C++
    pack, unpack = [], []
    i = 0
    for name, kind, cnt in L:
        if kind.startswith('ARR '):
            e = kind[4:]
            pack.append('    for (int k = 0; k < %d; ++k) o[%d + k] = %s[k];' % (cnt, i, e))
            unpack.append('    for (int k = 0; k < %d; ++k) %s[k] = (u16)in[%d + k];' % (cnt, e, i))
        elif kind.startswith('ACC '):
            e = kind[4:]
            pack.append('    pack_acc(%s, o + %d);' % (e, i))
            unpack.append('    %s = unpack_acc(in + %d);' % (e, i))
        elif kind.startswith('P32 '):
            e = kind[4:]
            pack.append('    o[%d] = %s & 0xFFFF; o[%d] = %s >> 16;' % (i, e, i + 1, e))
            unpack.append('    %s = (u32)in[%d] | ((u32)in[%d] << 16);' % (e, i, i + 1))
        elif kind.startswith('BOOL '):
            e = kind[5:]
            pack.append('    o[%d] = %s ? 1 : 0;' % (i, e))
            unpack.append('    %s = in[%d] != 0;' % (e, i))
        elif kind == 'BK':
            pack.append('    for (int k = 0; k < 4; ++k) { o[%d + 3*k] = r.bkrep_stack[k].start; o[%d + 3*k + 1] = r.bkrep_stack[k].end; o[%d + 3*k + 2] = r.bkrep_stack[k].lc; }' % (i, i, i))
            unpack.append('    for (int k = 0; k < 4; ++k) { r.bkrep_stack[k].start = in[%d + 3*k]; r.bkrep_stack[k].end = in[%d + 3*k + 1]; r.bkrep_stack[k].lc = (u16)in[%d + 3*k + 2]; }' % (i, i, i))
        elif kind in ('SH', 'SS', 'SAR', 'SARP'):
            pack.append('    Shadows::pack_%s(r, o + %d);' % (kind.lower(), i))
            unpack.append('    Shadows::unpack_%s(r, in + %d);' % (kind.lower(), i))
        else:
            pack.append('    o[%d] = %s;' % (i, kind))
            unpack.append('    %s = (decltype(%s))in[%d];' % (kind, kind, i))
        i += cnt
    open('/verif/harness/reglayout.h', 'w').write(CPP_HEAD % n + '\ninline void pack_regs(const RegisterState& cr, int* o) {\n    RegisterState& r = const_cast<RegisterState&>(cr);\n'
                                                   + '\n'.join(pack) + '\n}\ninline void unpack_regs(const int* in, RegisterState& r) {\n' + '\n'.join(unpack) + '\n}\n} // namespace vlayout\n')
    ws = []
    for name, kind, cnt in L:
        w = WIDTHS[name]
        ws += [w] * cnt if isinstance(w, int) else (w * (cnt // len(w)))
    assert len(ws) == n
    names = [nm for nm, _, c in L for _ in range(c)]
    with open('/verif/harness/reglayout.h', 'a') as f:
        f.write('namespace vlayout {\nstatic const int WIDTH[NREG] = {%s};\n' % ','.join(map(str, ws)))
        f.write('static const char* const FIELD[NREG] = {%s};\n' % ','.join('"%s"' % x for x in names))
        off, i = [], 0
        for name, kind, cnt in L:
            off.append('static const int I_%s = %d;' % (name, i)); i += cnt
        f.write('\n'.join(off) + '\n} // namespace vlayout\n')
    # ---------------- TLA+
    t = []
    t.append('--------------------------- MODULE TeakRegLayout ---------------------------')
    t.append('(* GENERATED by tools/gen_layout.py from its hand-written layout table: the flattening of the     *)')
    t.append('(* complete register state into a tuple of %d integers, shared with harness/reglayout.h.          *)' % n)
    t.append('(* Accumulators are <<l, h, e>> (16/16/8 bits); the 4th packed integer `up` (ill-formed upper    *)')
    t.append('(* bits) must be 0 and is always packed as 0.  Products are <<l, h>>.                             *)')
    t.append('EXTENDS Naturals, Sequences')
    t.append('NREG == %d' % n)
    t.append('Sub(t, i, n) == [k \\in 1..n |-> t[i + k - 1]]')
    un, pk = [], []
    i = 1
    for name, kind, cnt in L:
        if kind.startswith('ACC '):
            un.append('%s |-> Sub(t, %d, 3)' % (name, i))
            pk.append('<<r.%s[1], r.%s[2], r.%s[3], 0>>' % (name, name, name))
        elif kind == 'BK':
            un.append('bk |-> [k \\in 1..4 |-> [start |-> t[%d + 3*(k-1)], end |-> t[%d + 3*(k-1) + 1], lc |-> t[%d + 3*(k-1) + 2]]]' % (i, i, i))
            pk.append('<<r.bk[1].start, r.bk[1].end, r.bk[1].lc, r.bk[2].start, r.bk[2].end, r.bk[2].lc, r.bk[3].start, r.bk[3].end, r.bk[3].lc, r.bk[4].start, r.bk[4].end, r.bk[4].lc>>')
        elif kind == 'SH':
            un.append('sh |-> [' + ', '.join('%s |-> t[%d]' % (f, i + k) for k, f in enumerate(SH_FIELDS)) + ']')
            pk.append('<<' + ', '.join('r.sh.%s' % f for f in SH_FIELDS) + '>>')
        elif kind == 'SS':
            parts, pparts, k = [], [], i
            for f, c in SS_FIELDS:
                if c == 1:
                    parts.append('%s |-> t[%d]' % (f, k)); pparts.append('<<r.ss.%s>>' % f)
                else:
                    parts.append('%s |-> Sub(t, %d, %d)' % (f, k, c)); pparts.append('r.ss.%s' % f)
                k += c
            un.append('ss |-> [' + ', '.join(parts) + ']')
            pk.append(' \\o '.join(pparts))
        elif kind in ('SAR', 'SARP'):
            m = cnt // 6
            un.append('%s |-> [k \\in 1..%d |-> [rni |-> t[%d + 6*(k-1)], rnj |-> t[%d + 6*(k-1) + 1], stepi |-> t[%d + 6*(k-1) + 2], stepj |-> t[%d + 6*(k-1) + 3], offseti |-> t[%d + 6*(k-1) + 4], offsetj |-> t[%d + 6*(k-1) + 5]]]' % (name, m, i, i, i, i, i, i))
            pk.append(' \\o '.join('<<r.%s[%d].rni, r.%s[%d].rnj, r.%s[%d].stepi, r.%s[%d].stepj, r.%s[%d].offseti, r.%s[%d].offsetj>>' % ((name, k) * 6) for k in range(1, m + 1)))
        elif cnt == 1:
            un.append('%s |-> t[%d]' % (name, i)); pk.append('<<r.%s>>' % name)
        else:
            un.append('%s |-> Sub(t, %d, %d)' % (name, i, cnt)); pk.append('r.%s' % name)
        i += cnt
    t.append('Unpack(t) == [\n  ' + ',\n  '.join(un) + ' ]')
    t.append('Pack(r) ==\n  ' + '\n  \\o '.join(pk))
    # index ranges by field name, for diagnostics
    t.append('Widths == <<' + ', '.join(map(str, ws)) + '>>')
    t.append('SeqFields == {' + ', '.join('"%s"' % nm for nm, kd, c in L if c > 1 and kd not in ('SH', 'SS')) + '}')
    t.append('FieldAt == <<' + ', '.join('"%s"' % nm for nm, _, c in L for _ in range(c)) + '>>')
    t.append('=============================================================================')
    open('/verif/spec/TeakRegLayout.tla', 'w').write('\n'.join(t) + '\n')
    print('NREG =', n)


CPP_HEAD = r'''// GENERATED by tools/gen_layout.py -- do not edit.
// Flattening of the complete Teakra::RegisterState (shadow banks included) into int[NREG].
#pragma once
#include "register.h"

struct TeakraVerifAccess {
    // private shadow storage of the register.h shadow classes
    template <class S> static auto& shadow(S& s) { return s.shadow; }
    template <class S> static unsigned short& f_rni(S& s) { return s.rni; }
    template <class S> static unsigned short& f_rnj(S& s) { return s.rnj; }
    template <class S> static unsigned short& f_stepi(S& s) { return s.stepi; }
    template <class S> static unsigned short& f_stepj(S& s) { return s.stepj; }
    template <class S> static unsigned short& f_offseti(S& s) { return s.offseti; }
    template <class S> static unsigned short& f_offsetj(S& s) { return s.offsetj; }
    // generic by-name accessors to private members of the classes that befriend TeakraVerifAccess
#define VA_MEMBER(n) template <class T> static auto& n(T& t) { return t.n; }
    VA_MEMBER(impl) VA_MEMBER(idle) VA_MEMBER(interrupt_pending) VA_MEMBER(vinterrupt_pending)
    VA_MEMBER(vinterrupt_context_switch) VA_MEMBER(vinterrupt_address) VA_MEMBER(regs) VA_MEMBER(mem)
    VA_MEMBER(transmit_queue) VA_MEMBER(transmit_timer) VA_MEMBER(transmit_period) VA_MEMBER(transmit_enable)
    VA_MEMBER(transmit_empty) VA_MEMBER(transmit_full) VA_MEMBER(transmit_clock_config)
    VA_MEMBER(request) VA_MEMBER(enabled) VA_MEMBER(vectored_enabled)
    VA_MEMBER(channels) VA_MEMBER(active_channel) VA_MEMBER(enable_channel) VA_MEMBER(busy_flag)
    VA_MEMBER(ready) VA_MEMBER(data) VA_MEMBER(disable_interrupt) VA_MEMBER(cells) VA_MEMBER(interpreter)
    VA_MEMBER(processor) VA_MEMBER(icu) VA_MEMBER(mmio) VA_MEMBER(miu) VA_MEMBER(timer) VA_MEMBER(btdmp)
    VA_MEMBER(dma) VA_MEMBER(ahbm) VA_MEMBER(apbp_from_cpu) VA_MEMBER(apbp_from_dsp) VA_MEMBER(core_timing)
    VA_MEMBER(shared_memory) VA_MEMBER(memory_interface)
#undef VA_MEMBER
    // base-class sub-objects of the (privately inheriting) shadow lists
    template <class Base, class List> static Base& base(List& l) { return static_cast<Base&>(l); }
};

namespace vlayout {
using namespace Teakra;
static const int NREG = %d;

inline void pack_acc(u64 v, int* o) {
    o[0] = (int)(v & 0xFFFF);
    o[1] = (int)((v >> 16) & 0xFFFF);
    o[2] = (int)((v >> 32) & 0xFF);
    u64 sx = (v & (1ull << 39)) ? (v | 0xFFFFFF0000000000ull) : (v & 0xFFFFFFFFFFull);
    o[3] = sx == v ? 0 : 1;
}
inline u64 unpack_acc(const int* in) {
    u64 v = (u64)in[0] | ((u64)in[1] << 16) | ((u64)(in[2] & 0xFF) << 32);
    if (v & (1ull << 39)) v |= 0xFFFFFF0000000000ull;
    return v;
}

struct Shadows {
    using RS = RegisterState;
    template <u16 RS::*o> static u16& sr(RS& r) {
        return TeakraVerifAccess::shadow(TeakraVerifAccess::base<RS::ShadowRegister<o>>(r.shadow_registers));
    }
    template <u16 RS::*o> static u16& ssr(RS& r) {
        return TeakraVerifAccess::shadow(TeakraVerifAccess::base<RS::ShadowSwapRegister<o>>(r.shadow_swap_registers));
    }
    template <std::size_t n, std::array<u16, n> RS::*o> static std::array<u16, n>& ssa(RS& r) {
        return TeakraVerifAccess::shadow(TeakraVerifAccess::base<RS::ShadowSwapArrayRegister<n, o>>(r.shadow_swap_registers));
    }
    template <class F> static void sh_fields(RS& r, F f) {
        f(sr<&RS::flm>(r)); f(sr<&RS::fvl>(r)); f(sr<&RS::fe>(r)); f(sr<&RS::fc0>(r)); f(sr<&RS::fc1>(r));
        f(sr<&RS::fv>(r)); f(sr<&RS::fn>(r)); f(sr<&RS::fm>(r)); f(sr<&RS::fz>(r)); f(sr<&RS::fr>(r));
    }
    template <class F> static void ss_fields(RS& r, F f) {
        f(ssr<&RS::pcmhi>(r)); f(ssr<&RS::sat>(r)); f(ssr<&RS::sata>(r)); f(ssr<&RS::hwm>(r)); f(ssr<&RS::s>(r));
        for (auto& v : ssa<2, &RS::ps>(r)) f(v);
        f(ssr<&RS::page>(r)); f(ssr<&RS::stp16>(r)); f(ssr<&RS::cmd>(r));
        for (auto& v : ssa<8, &RS::m>(r)) f(v);
        for (auto& v : ssa<8, &RS::br>(r)) f(v);
        for (auto& v : ssa<3, &RS::im>(r)) f(v);
        f(ssr<&RS::imv>(r)); f(ssr<&RS::epi>(r)); f(ssr<&RS::epj>(r));
    }
    template <class S, class F> static void ar_fields(S& s, F f) {
        f(TeakraVerifAccess::f_rni(s)); f(TeakraVerifAccess::f_rnj(s)); f(TeakraVerifAccess::f_stepi(s));
        f(TeakraVerifAccess::f_stepj(s)); f(TeakraVerifAccess::f_offseti(s)); f(TeakraVerifAccess::f_offsetj(s));
    }
    static void pack_sh(RS& r, int* o) { int k = 0; sh_fields(r, [&](u16& v) { o[k++] = v; }); }
    static void unpack_sh(RS& r, const int* in) { int k = 0; sh_fields(r, [&](u16& v) { v = (u16)in[k++]; }); }
    static void pack_ss(RS& r, int* o) { int k = 0; ss_fields(r, [&](u16& v) { o[k++] = v; }); }
    static void unpack_ss(RS& r, const int* in) { int k = 0; ss_fields(r, [&](u16& v) { v = (u16)in[k++]; }); }
    static void pack_sar(RS& r, int* o) {
        int k = 0; auto f = [&](u16& v) { o[k++] = v; };
        ar_fields(r.shadow_swap_ar0, f); ar_fields(r.shadow_swap_ar1, f);
    }
    static void unpack_sar(RS& r, const int* in) {
        int k = 0; auto f = [&](u16& v) { v = (u16)in[k++]; };
        ar_fields(r.shadow_swap_ar0, f); ar_fields(r.shadow_swap_ar1, f);
    }
    static void pack_sarp(RS& r, int* o) {
        int k = 0; auto f = [&](u16& v) { o[k++] = v; };
        ar_fields(r.shadow_swap_arp0, f); ar_fields(r.shadow_swap_arp1, f); ar_fields(r.shadow_swap_arp2, f); ar_fields(r.shadow_swap_arp3, f);
    }
    static void unpack_sarp(RS& r, const int* in) {
        int k = 0; auto f = [&](u16& v) { v = (u16)in[k++]; };
        ar_fields(r.shadow_swap_arp0, f); ar_fields(r.shadow_swap_arp1, f); ar_fields(r.shadow_swap_arp2, f); ar_fields(r.shadow_swap_arp3, f);
    }
};
'''

if __name__ == '__main__':
    main()
