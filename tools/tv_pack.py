#!/usr/bin/env python3
"""Glue for the specification -> implementation replay through the repository's own verifier (C01, TvReplay.tla).

  tv_pack.py cases <generator.bin> <out.ndjson> <every> <offset>
      reads TestCase structs written by the project's generator (src/test.h) and writes one line per selected case:
      opcode, second word and the `before` state as the file carries it (accumulators as 16/16/8-bit limbs)
  tv_pack.py pack <generator.bin> <cases.ndjson> <tlc.out> <out.bin> <out_altered.bin>
      takes the AFTER tuples TLC printed (the specification's prediction of what test_verifier compares) and writes
      two TestCase files: `after` = the prediction; and the same with exactly one compared field altered per case.
      Prints a JSON summary: cases, predicted outcomes, expected verdict lines.

No expected value is computed here: the windows are filled with the same published formula TvReplay.tla uses
(WinVal), everything in `after` is copied from TLC's output.
"""
import json, re, struct, sys

STATE = struct.Struct('<2Q2Q2I8H2H2H6H2H3H3H2H4H512H512H')
assert STATE.size == 2152
CASE_SIZE = 4312
WINX, WINY, WINN = 0x6400, 0xCC00, 0x200


def win_val(a, i):
    return ((a % 65536) * 251 + (i % 65536) * 7919 + 4660) % 65536


def read_case(f, idx):
    f.seek(idx * CASE_SIZE)
    raw = f.read(CASE_SIZE)
    if len(raw) < CASE_SIZE:
        return None
    before = STATE.unpack_from(raw, 0)
    op, exp = struct.unpack_from('<HH', raw, 2 * STATE.size)
    return before, op, exp


def limbs40(v):
    v40 = v & 0xFFFFFFFFFF
    ext = v >> 40
    wellformed = ext == (0xFFFFFF if (v40 >> 39) & 1 else 0)
    return [v40 & 0xFFFF, (v40 >> 16) & 0xFFFF, (v40 >> 32) & 0xFF], wellformed


def cmd_cases(gen, out, every, offset):
    n = skipped = 0
    with open(gen, 'rb') as f, open(out, 'w') as o:
        idx = offset
        while True:
            c = read_case(f, idx)
            if c is None:
                break
            b, op, exp = c
            acc = [limbs40(b[k]) for k in range(4)]
            if all(w for _, w in acc):
                rec = {'i': idx, 'op': op, 'e': exp,
                       'a': [acc[0][0], acc[1][0]], 'b': [acc[2][0], acc[3][0]],
                       'p': [[b[4] & 0xFFFF, b[4] >> 16], [b[5] & 0xFFFF, b[5] >> 16]],
                       'r': list(b[6:14]), 'xr': list(b[14:16]), 'yr': list(b[16:18]),
                       's': list(b[18:24]), 'w': list(b[24:38])}
                o.write(json.dumps(rec, separators=(',', ':')) + '\n')
                n += 1
            else:
                skipped += 1
            idx += every
    print(json.dumps({'cases': n, 'ill_formed_accumulators_skipped': skipped}))


def parse_after(text):
    """<<"AFTER", i, out, a0, a1, b0, b1, p0, p1, r, x, y, <<6 scalars>>, <<14 words>>, <<writes>>, inwin>>"""
    res = {}
    for m in re.finditer(r'<<\s*"AFTER",(.*?)(TRUE|FALSE)\s*>>', text, re.S):
        body = m.group(1)
        out = re.search(r'"(\w[\w-]*)"', body).group(1)
        nums_src = re.sub(r'"%s"\s*,' % re.escape(out), '', body, count=1)
        # nested tuples -> python lists
        py = nums_src.replace('<<', '[').replace('>>', ']')
        vals = json.loads('[' + py.strip().rstrip(',') + ']')
        i = vals[0]
        res[i] = {'out': out, 'a': [vals[1], vals[2]], 'b': [vals[3], vals[4]], 'p': [vals[5], vals[6]], 'r': vals[7], 'x': vals[8],
                  'y': vals[9], 's': vals[10], 'w': vals[11], 'writes': vals[12], 'inwin': m.group(2) == 'TRUE'}
    return res


def join40(l):
    return l[0] | (l[1] << 16) | (l[2] << 32)


def cmd_pack(gen, cases, tlcout, out, out_alt):
    after = parse_after(open(tlcout, errors='replace').read())
    lines = [json.loads(l) for l in open(cases)]
    ok = unimpl = other = outside = 0
    nfields = 0
    with open(gen, 'rb') as f, open(out, 'wb') as o, open(out_alt, 'wb') as oa:
        for n, c in enumerate(lines):
            i = c['i']
            b, op, exp = read_case(f, i)
            if i not in after:
                raise SystemExit('no prediction for case %d' % i)
            p = after[i]
            wx = [win_val(WINX + k, i) for k in range(WINN)]
            wy = [win_val(WINY + k, i) for k in range(WINN)]
            before = list(b[:38]) + wx + wy
            if p['out'] == 'ok':
                ok += 1
            elif p['out'] == 'unimpl':
                unimpl += 1
            else:
                other += 1
            if not p['inwin']:
                outside += 1
            ax, ay = list(wx), list(wy)
            for ph, v in p['writes']:
                a = ph - 0x20000
                if WINX <= a < WINX + WINN:
                    ax[a - WINX] = v
                elif WINY <= a < WINY + WINN:
                    ay[a - WINY] = v
            fields = [join40(p['a'][0]), join40(p['a'][1]), join40(p['b'][0]), join40(p['b'][1]),
                      p['p'][0][0] | (p['p'][0][1] << 16), p['p'][1][0] | (p['p'][1][1] << 16)] + \
                list(p['r']) + list(p['x']) + list(p['y']) + list(p['s']) + list(p['w'])
            assert len(fields) == 38
            good = STATE.pack(*(before)) + STATE.pack(*(fields + ax + ay)) + struct.pack('<HHI', op, exp, 0)
            assert len(good) == CASE_SIZE
            o.write(good)
            # one compared field altered per case, rotating over all 38 scalar fields and the two windows
            k = n % 40
            alt = list(fields)
            bx, by = list(ax), list(ay)
            if k < 38:
                alt[k] ^= 1 << (n % (40 if k < 4 else 32 if k < 6 else 16))
            elif k == 38:
                bx[(n * 7) % WINN] ^= 1 << (n % 16)
            else:
                by[(n * 11) % WINN] ^= 1 << (n % 16)
            nfields = max(nfields, k + 1)
            oa.write(STATE.pack(*(before)) + STATE.pack(*(alt + bx + by)) + struct.pack('<HHI', op, exp, 0))
    print(json.dumps({'cases': len(lines), 'predicted_ok': ok, 'predicted_unimpl': unimpl, 'predicted_other': other,
                      'writes_outside_windows': outside, 'altered_field_kinds': nfields,
                      'expect': '%d / %d passed, %d skipped' % (ok, ok, unimpl),
                      'expect_altered': '0 / %d passed, %d skipped' % (ok, unimpl)}))


if __name__ == '__main__':
    if sys.argv[1] == 'cases':
        cmd_cases(sys.argv[2], sys.argv[3], int(sys.argv[4]), int(sys.argv[5]))
    elif sys.argv[1] == 'pack':
        cmd_pack(*sys.argv[2:7])
    else:
        raise SystemExit(__doc__)
