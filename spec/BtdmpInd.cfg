CONSTANTS Cap = 16  TW = 65536  KMax = 2147483646
INIT Init
NEXT Next
INVARIANT Lemmas
