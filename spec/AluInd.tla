------------------------------- MODULE AluInd -------------------------------
(* C03 at FULL width (W = 16: 40-bit accumulators), discharged symbolically by Apalache (SMT) instead of    *)
(* enumeration: the limb operators behind add / subtract / compare, the Z/M/E/N flags and the saturator are   *)
(* exact integer arithmetic for ALL 2^40 x 2^40 operand pairs.                                                *)
(* The operators are those of TeakBits.tla / TeakAlu.tla with type annotations (needed by Apalache, ignored    *)
(* by TLC); MC_AluIndSame.cfg lets TLC check at W = 4 that they ARE the TeakAlu operators, for all values.      *)
EXTENDS Integers

CONSTANT
    \* @type: Int;
    W

\* @typeAlias: acc = <<Int, Int, Int>>;
\* @typeAlias: sum = { v: $acc, c: Int };
AluInd_aliases == TRUE

VARIABLES
    \* @type: $acc;
    va,
    \* @type: $acc;
    vb,
    \* @type: Bool;
    vsub

B   == 2 ^ W
E   == W \div 2
EB  == 2 ^ E
HB  == B \div 2
ABITS == 2 * W + E

\* @type: (Int, Int) => Int;
Bit(x, i)  == (x \div (2 ^ i)) % 2
\* @type: $acc;
AZero  == <<0, 0, 0>>
\* @type: ($acc) => Int;
ASign(v)  == v[3] \div (EB \div 2)
\* @type: (Int) => Int;
SxE(h)    == IF h >= HB THEN EB - 1 ELSE 0
\* @type: ($acc) => Bool;
IsSx32(v)   == v[3] = SxE(v[2])

\* @type: ($acc, $acc) => $sum;
AAdd(a, b) == LET s1 == a[1] + b[1]
                  s2 == a[2] + b[2] + s1 \div B
                  s3 == a[3] + b[3] + s2 \div B
              IN  [v |-> <<s1 % B, s2 % B, s3 % EB>>, c |-> s3 \div EB]
\* @type: ($acc, $acc) => $sum;
ASub(a, b) == LET d1 == a[1] + B - b[1]
                  d2 == a[2] + B - b[2] - (1 - d1 \div B)
                  d3 == a[3] + EB - b[3] - (1 - d2 \div B)
              IN  [v |-> <<d1 % B, d2 % B, d3 % EB>>, c |-> 1 - d3 \div EB]

\* @type: (Bool) => Int;
B2I(b) == IF b THEN 1 ELSE 0

\* @type: ($acc, $acc, Bool) => { v: $acc, c: Int, ov: Int };
AddSub(a, b, sub) ==
    LET r  == IF sub THEN ASub(a, b) ELSE AAdd(a, b)
        sb == IF sub THEN 1 - ASign(b) ELSE ASign(b)
    IN  [v |-> r.v, c |-> r.c, ov |-> B2I(ASign(a) = sb /\ ASign(a) # ASign(r.v))]

\* @type: ($acc) => { fz: Int, fm: Int, fe: Int, fn: Int };
AccFlags(v) ==
    LET z  == B2I(v = AZero)
        e  == B2I(~ IsSx32(v))
        b31 == Bit(v[2], W - 1)
        b30 == Bit(v[2], W - 2)
    IN  [fz |-> z, fm |-> ASign(v), fe |-> e, fn |-> B2I(z = 1 \/ (e = 0 /\ b31 # b30))]

\* @type: $acc;
SatMax == <<B - 1, HB - 1, 0>>
\* @type: $acc;
SatMin == <<0, HB, EB - 1>>
\* @type: ($acc) => { v: $acc, lim: Int };
Saturate(v) == IF IsSx32(v) THEN [v |-> v, lim |-> 0]
               ELSE [v |-> IF ASign(v) = 1 THEN SatMin ELSE SatMax, lim |-> 1]

-----------------------------------------------------------------------------
\* integer readings (unbounded integers)
\* @type: ($acc) => Int;
AToNat(v)  == v[1] + B * v[2] + B * B * v[3]
\* @type: ($acc) => Int;
AToInt(v)  == IF ASign(v) = 1 THEN AToNat(v) - 2 ^ ABITS ELSE AToNat(v)
M    == 2 ^ ABITS
Half == M \div 2
\* @type: (Int) => Int;
Wrap(n) == LET m == n % M IN IF m >= Half THEN m - M ELSE m
\* @type: (Int, Int) => Bool;
Fits(n, bits) == n >= -(2 ^ (bits - 1)) /\ n <= 2 ^ (bits - 1) - 1
S32 == 2 * W

Init == \E a1 \in 0 .. B - 1, a2 \in 0 .. B - 1, a3 \in 0 .. EB - 1, b1 \in 0 .. B - 1, b2 \in 0 .. B - 1, b3 \in 0 .. EB - 1, s \in BOOLEAN :
            va = <<a1, a2, a3>> /\ vb = <<b1, b2, b3>> /\ vsub = s
Next == UNCHANGED <<va, vb, vsub>>

AddSubExact ==
    LET r  == AddSub(va, vb, vsub)
        ia == AToInt(va)  ib == AToInt(vb)
        t  == IF vsub THEN ia - ib ELSE ia + ib
        u  == IF vsub THEN AToNat(va) - AToNat(vb) ELSE AToNat(va) + AToNat(vb)
    IN  /\ AToInt(r.v) = Wrap(t)
        /\ r.c = (IF vsub THEN B2I(u < 0) ELSE B2I(u >= M))
        /\ r.ov = B2I(~ Fits(t, ABITS))

FlagsExact ==
    LET x == AToInt(va)  fl == AccFlags(va) IN
    /\ fl.fz = B2I(x = 0)
    /\ fl.fm = B2I(x < 0)
    /\ fl.fe = B2I(~ Fits(x, S32))
    /\ fl.fn = B2I(x = 0 \/ (Fits(x, S32) /\ ~ Fits(x, S32 - 1)))

SaturateExact ==
    LET x == AToInt(va)  r == Saturate(va)
        lo == -(2 ^ (S32 - 1))  hi == 2 ^ (S32 - 1) - 1 IN
    /\ AToInt(r.v) = (IF x < lo THEN lo ELSE IF x > hi THEN hi ELSE x)
    /\ r.lim = B2I(x < lo \/ x > hi)

\* comparison through subtraction (cmp family): the flags of a - b order the operands
CompareExact ==
    LET r == AddSub(va, vb, TRUE) IN
    /\ (r.v = AZero) <=> (AToInt(va) = AToInt(vb))
    /\ (r.c = 1) <=> (AToNat(va) < AToNat(vb))                                   \* unsigned below
    /\ ((ASign(r.v) = 1) # (r.ov = 1)) <=> (AToInt(va) < AToInt(vb))              \* signed less: M xor V

Exact == AddSubExact /\ FlagsExact /\ SaturateExact /\ CompareExact
=============================================================================
