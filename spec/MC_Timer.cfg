CONSTANTS
  B = 3
  FixedSkipZero = TRUE
SPECIFICATION Spec
INVARIANTS TypeOK SkipIsTicks NoIrqInHorizon SkipNeverAsserts TickRules EventRules
PROPERTY FireOnlyOnOneToZero
CHECK_DEADLOCK FALSE
