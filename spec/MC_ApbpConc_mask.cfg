\* the re-entrancy path opened by fix bf7856c: Teakra::MaskSemaphore (host thread) unmasking a semaphore the
\* DSP has set fires the host semaphore callback ON THE HOST THREAD with the recursive mutex of apbp_from_dsp
\* held (the callback polls/fetches the mailbox, GetSemaphore, ClearSemaphore); MMIO 0x0CE (DSP thread)
\* unmasking a host-set semaphore triggers the ICU on the DSP thread with the mutex of apbp_from_cpu held.
CONSTANTS
  Chans = {0}
  SemFull = 3
  FixedDisableIrqLock = TRUE
  FixedVectorLock = TRUE
  HandlerInsideLock = FALSE
  VectoredOn = FALSE
  NSend = 1
  NHostOps = 3
  SemVals = {1}
  NDis = 0
  NVec = 0
  NCbSend = 0
  HostKinds = {"SemSet", "SemMask"}
  NDspMask = 2
  TrackLockset = TRUE
SPECIFICATION Spec
INVARIANTS ValuesOK LocksetOK NoDeadlock HeldOK OwedSafe
PROPERTY TrigDelivers
CHECK_DEADLOCK TRUE
