\* C11 trace validation at the real geometry (src/memory_interface.h, src/mmio.cpp)
CONSTANTS
  BYTE = 256
  DataOff = 131072
  Bank = 65536
  NBanks = 2
  MSize = 2048
  XRes = 1024
  DefBase = 32768
  DefXSize = 32
  DefYSize = 30
  OffXPage = 270
  OffYPage = 272
  OffZPage = 274
  OffPage0 = 276
  OffMisc = 282
  OffBase = 286
  PlainLo = 26
  PlainHi = 1024
  Vals = {}
  Budget = 0
SPECIFICATION TraceSpec
INVARIANT ObservedTypeOK
POSTCONDITION TraceAccepted
CHECK_DEADLOCK FALSE
