------------------------------- MODULE Timer -------------------------------
(* One XpertTeak timer: the state machine over the operators of TimerOps.tla (every history of API      *)
(* calls) and the property layer of C15.                                                                 *)
EXTENDS TimerOps

-----------------------------------------------------------------------------
(* State machine over the operators: every history of API calls.             *)
VARIABLES vT, vFired, vOutc
vars == <<vT, vFired, vOutc>>

Apply(r) == vT' = r.t /\ vFired' = r.irq /\ vOutc' = r.out

Init == vT = ResetState /\ vFired = 0 /\ vOutc = "ok"

Tick      == Apply(TickOp(vT))
TickEvent == Apply(TickEventOp(vT))
Restart   == Apply(RestartOp(vT))
Reset     == Apply(ResetOp(vT))
Skip      == \E k \in WideSet : WithinHorizon(vT, k) /\ Apply(SkipOp(vT, k))
Config    == \/ \E v \in Modes   : Apply(SetMode(vT, v))
             \/ \E v \in 0..1    : Apply(SetPause(vT, v))
             \/ \E v \in 0..1    : Apply(SetUpd(vT, v))
             \/ \E v \in WideSet : Apply(SetStart(vT, v))
             \/ \E v \in WideSet : Apply(SetMirror(vT, v))

Next == Tick \/ TickEvent \/ Restart \/ Reset \/ Skip \/ Config
Spec == Init /\ [][Next]_vars

-----------------------------------------------------------------------------
(* Property layer (C15)                                                      *)

TypeOK == vT \in TimerState /\ vFired \in 0..1 /\ vOutc \in {"ok", "assert"}

\* k single ticks, accumulating interrupts
RECURSIVE TickN(_, _)
TickN(r, k) == IF WIsZero(k) THEN r
               ELSE LET n == TickOp(r.t)
                    IN  TickN([t |-> n.t, irq |-> r.irq + n.irq,
                               out |-> IF r.out = "ok" THEN n.out ELSE r.out], WDec(k))

\* "advancing by k cycles in one step, for any k up to the horizon, is
\*  indistinguishable from k single cycles (k = 0 changes nothing)"
SkipIsTicks ==
    \A k \in WideSet : WithinHorizon(vT, k) => SkipOp(vT, k) = TickN(Ok(vT, 0), k)

\* "that horizon never skips over an interrupt"
NoIrqInHorizon ==
    \A k \in WideSet : WithinHorizon(vT, k) => TickN(Ok(vT, 0), k).irq = 0

\* the skip never trips the deliberate assertions when called within the horizon
SkipNeverAsserts ==
    \A k \in WideSet : WithinHorizon(vT, k) => SkipOp(vT, k).out = "ok"

Running(x) == x.p = 0 /\ x.m # Event

\* "decrements once per cycle and raises its interrupt exactly when the counter goes 1 -> 0;
\*  afterwards single stops, auto-restart reloads on the following cycle, free-running wraps,
\*  a paused timer holds" -- stated on one Tick from every reachable state
TickRules ==
    LET n == TickOp(vT) IN
    /\ n.out = "ok"
    /\ n.irq = (IF Running(vT) /\ vT.c = WOne THEN 1 ELSE 0)
    /\ ~ Running(vT) => n.t = vT
    /\ Running(vT) /\ ~ WIsZero(vT.c) => n.t.c = WDec(vT.c)
    /\ Running(vT) /\ WIsZero(vT.c) =>
          n.t.c = (CASE vT.m = Single -> WZero [] vT.m = Auto -> vT.s [] vT.m = Free -> WMax)
    /\ n.t.mi = (IF vT.u = 1 /\ (n.t.c # vT.c \/ (Running(vT) /\ WIsZero(vT.c) /\ vT.m # Single))
                 THEN n.t.c ELSE vT.mi)
    /\ [n.t EXCEPT !.c = vT.c, !.mi = vT.mi] = vT

EventRules ==
    LET n == TickEventOp(vT)
        live == vT.p = 0 /\ vT.m = Event /\ ~ WIsZero(vT.c) IN
    /\ n.irq = (IF live /\ vT.c = WOne THEN 1 ELSE 0)
    /\ n.t.c = (IF live THEN WDec(vT.c) ELSE vT.c)

\* the state machine only reports an interrupt on a 1 -> 0 transition of the counter
FireOnlyOnOneToZero ==
    [][vFired' = 1 => (vT.c = WOne /\ WIsZero(vT'.c))]_vars
=============================================================================
