------------------------------- MODULE Timer -------------------------------
(* One XpertTeak timer: the state machine over the operators of TimerOps.tla (every history of API      *)
(* calls) and the property layer of C15.                                                                 *)
EXTENDS TimerOps

-----------------------------------------------------------------------------
(* State machine over the operators: every history of API calls.             *)
VARIABLES t, fired, outc
vars == <<t, fired, outc>>

Apply(r) == t' = r.t /\ fired' = r.irq /\ outc' = r.out

Init == t = ResetState /\ fired = 0 /\ outc = "ok"

Tick      == Apply(TickOp(t))
TickEvent == Apply(TickEventOp(t))
Restart   == Apply(RestartOp(t))
Reset     == Apply(ResetOp(t))
Skip      == \E k \in WideSet : WithinHorizon(t, k) /\ Apply(SkipOp(t, k))
Config    == \/ \E v \in Modes   : Apply(SetMode(t, v))
             \/ \E v \in 0..1    : Apply(SetPause(t, v))
             \/ \E v \in 0..1    : Apply(SetUpd(t, v))
             \/ \E v \in WideSet : Apply(SetStart(t, v))
             \/ \E v \in WideSet : Apply(SetMirror(t, v))

Next == Tick \/ TickEvent \/ Restart \/ Reset \/ Skip \/ Config
Spec == Init /\ [][Next]_vars

-----------------------------------------------------------------------------
(* Property layer (C15)                                                      *)

TypeOK == t \in TimerState /\ fired \in 0..1 /\ outc \in {"ok", "assert"}

\* k single ticks, accumulating interrupts
RECURSIVE TickN(_, _)
TickN(r, k) == IF WIsZero(k) THEN r
               ELSE LET n == TickOp(r.t)
                    IN  TickN([t |-> n.t, irq |-> r.irq + n.irq,
                               out |-> IF r.out = "ok" THEN n.out ELSE r.out], WDec(k))

\* "advancing by k cycles in one step, for any k up to the horizon, is
\*  indistinguishable from k single cycles (k = 0 changes nothing)"
SkipIsTicks ==
    \A k \in WideSet : WithinHorizon(t, k) => SkipOp(t, k) = TickN(Ok(t, 0), k)

\* "that horizon never skips over an interrupt"
NoIrqInHorizon ==
    \A k \in WideSet : WithinHorizon(t, k) => TickN(Ok(t, 0), k).irq = 0

\* the skip never trips the deliberate assertions when called within the horizon
SkipNeverAsserts ==
    \A k \in WideSet : WithinHorizon(t, k) => SkipOp(t, k).out = "ok"

Running(x) == x.p = 0 /\ x.m # Event

\* "decrements once per cycle and raises its interrupt exactly when the counter goes 1 -> 0;
\*  afterwards single stops, auto-restart reloads on the following cycle, free-running wraps,
\*  a paused timer holds" -- stated on one Tick from every reachable state
TickRules ==
    LET n == TickOp(t) IN
    /\ n.out = "ok"
    /\ n.irq = (IF Running(t) /\ t.c = WOne THEN 1 ELSE 0)
    /\ ~ Running(t) => n.t = t
    /\ Running(t) /\ ~ WIsZero(t.c) => n.t.c = WDec(t.c)
    /\ Running(t) /\ WIsZero(t.c) =>
          n.t.c = (CASE t.m = Single -> WZero [] t.m = Auto -> t.s [] t.m = Free -> WMax)
    /\ n.t.mi = (IF t.u = 1 /\ (n.t.c # t.c \/ (Running(t) /\ WIsZero(t.c) /\ t.m # Single))
                 THEN n.t.c ELSE t.mi)
    /\ [n.t EXCEPT !.c = t.c, !.mi = t.mi] = t

EventRules ==
    LET n == TickEventOp(t)
        live == t.p = 0 /\ t.m = Event /\ ~ WIsZero(t.c) IN
    /\ n.irq = (IF live /\ t.c = WOne THEN 1 ELSE 0)
    /\ n.t.c = (IF live THEN WDec(t.c) ELSE t.c)

\* the state machine only reports an interrupt on a 1 -> 0 transition of the counter
FireOnlyOnOneToZero ==
    [][fired' = 1 => (t.c = WOne /\ WIsZero(t'.c))]_vars
=============================================================================
