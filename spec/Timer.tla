------------------------------- MODULE Timer -------------------------------
(* One XpertTeak timer (src/timer.cpp, src/timer.h), as the code has it       *)
(* (as-is layer: one operator per public entry point of class Timer), next to *)
(* the properties that C15 states (property layer).                           *)
(*                                                                            *)
(* The timer state is one record                                              *)
(*   c  counter  <<hi,lo>>        s  start value <<start_high,start_low>>     *)
(*   m  count mode 0 Single 1 AutoRestart 2 FreeRunning 3 EventCount          *)
(*   p  pause bit   u update_mmio bit   mi  MMIO mirror <<counter_high,low>>  *)
(*   sc scale (Tick asserts scale = 0)                                        *)
(* and every operator returns [t |-> next state, irq |-> handler calls,       *)
(* out |-> "ok" | "assert"].                                                  *)
EXTENDS Naturals, Sequences, TLC, Wide

CONSTANT FixedSkipZero   \* TRUE: Skip(0) returns early (the repaired code); FALSE: as pinned

Modes == 0..3
Single == 0  Auto == 1  Free == 2  Event == 3

TimerState == [c : WideSet, s : WideSet, m : Modes, p : 0..1, u : 0..1, mi : WideSet, sc : {0}]

ResetState == [c |-> WZero, s |-> WZero, m |-> Single, p |-> 0, u |-> 0, mi |-> WZero, sc |-> 0]

Ok(t, n)  == [t |-> t, irq |-> n, out |-> "ok"]
Abort(t)  == [t |-> t, irq |-> 0, out |-> "assert"]

\* Timer::UpdateMMIO
Upd(t) == IF t.u # 0 THEN [t EXCEPT !.mi = t.c] ELSE t

\* Timer::Restart
RestartOp(t) ==
    IF t.m # Free THEN Ok(Upd([t EXCEPT !.c = t.s]), 0) ELSE Ok(t, 0)

\* Timer::Tick
TickOp(t) ==
    IF t.sc # 0 THEN Abort(t)
    ELSE IF t.p # 0 \/ t.m = Event THEN Ok(t, 0)
    ELSE IF WIsZero(t.c)
         THEN IF t.m = Auto THEN RestartOp(t)
              ELSE IF t.m = Free THEN Ok(Upd([t EXCEPT !.c = WMax]), 0)
              ELSE Ok(t, 0)
         ELSE LET t1 == Upd([t EXCEPT !.c = WDec(t.c)])
              IN  Ok(t1, IF WIsZero(t1.c) THEN 1 ELSE 0)

\* Timer::TickEvent
TickEventOp(t) ==
    IF t.p # 0 \/ t.m # Event \/ WIsZero(t.c) THEN Ok(t, 0)
    ELSE LET t1 == Upd([t EXCEPT !.c = WDec(t.c)])
         IN  Ok(t1, IF WIsZero(t1.c) THEN 1 ELSE 0)

\* Timer::GetMaxSkip.  INF stands for CoreTiming::Callbacks::Infinity: <<B,0>> = B*B, one more than
\* any wide value, so the limb comparisons order it above every counter.
INF == <<B, 0>>
Horizon(t) ==
    IF t.p # 0 \/ t.m = Event THEN INF
    ELSE IF WIsZero(t.c)
         THEN IF t.m = Auto THEN t.s
              ELSE IF t.m = Free THEN WMax
              ELSE INF
         ELSE WDec(t.c)

WithinHorizon(t, k) == WLeq(k, Horizon(t))

\* Timer::Skip (k is a wide value; CoreTiming never passes more than the horizon)
SkipOp(t, k) ==
    IF FixedSkipZero /\ WIsZero(k) THEN Ok(t, 0)
    ELSE IF t.p # 0 \/ t.m = Event THEN Ok(t, 0)
    ELSE IF WIsZero(t.c)
         THEN IF t.m = Single THEN Ok(t, 0)
              ELSE LET reset == IF t.m = Auto THEN t.s ELSE WMax
                   IN  IF WLt(reset, k) THEN Abort(t)
                       ELSE Ok(Upd([t EXCEPT !.c = WSub(reset, WSub(k, WOne))]), 0)
         ELSE IF ~ WLt(k, t.c) THEN Abort(t)
              ELSE Ok(Upd([t EXCEPT !.c = WSub(t.c, k)]), 0)

\* MMIO / field writes (mmio.cpp binds these as plain storage)
SetMode(t, v)   == Ok([t EXCEPT !.m = v], 0)
SetPause(t, v)  == Ok([t EXCEPT !.p = v], 0)
SetUpd(t, v)    == Ok([t EXCEPT !.u = v], 0)
SetStart(t, v)  == Ok([t EXCEPT !.s = v], 0)
SetMirror(t, v) == Ok([t EXCEPT !.mi = v], 0)
ResetOp(t)      == Ok(ResetState, 0)

-----------------------------------------------------------------------------
(* State machine over the operators: every history of API calls.             *)
VARIABLES t, fired, outc
vars == <<t, fired, outc>>

Apply(r) == t' = r.t /\ fired' = r.irq /\ outc' = r.out

Init == t = ResetState /\ fired = 0 /\ outc = "ok"

Tick      == Apply(TickOp(t))
TickEvent == Apply(TickEventOp(t))
Restart   == Apply(RestartOp(t))
Reset     == Apply(ResetOp(t))
Skip      == \E k \in WideSet : WithinHorizon(t, k) /\ Apply(SkipOp(t, k))
Config    == \/ \E v \in Modes   : Apply(SetMode(t, v))
             \/ \E v \in 0..1    : Apply(SetPause(t, v))
             \/ \E v \in 0..1    : Apply(SetUpd(t, v))
             \/ \E v \in WideSet : Apply(SetStart(t, v))
             \/ \E v \in WideSet : Apply(SetMirror(t, v))

Next == Tick \/ TickEvent \/ Restart \/ Reset \/ Skip \/ Config
Spec == Init /\ [][Next]_vars

-----------------------------------------------------------------------------
(* Property layer (C15)                                                      *)

TypeOK == t \in TimerState /\ fired \in 0..1 /\ outc \in {"ok", "assert"}

\* k single ticks, accumulating interrupts
RECURSIVE TickN(_, _)
TickN(r, k) == IF WIsZero(k) THEN r
               ELSE LET n == TickOp(r.t)
                    IN  TickN([t |-> n.t, irq |-> r.irq + n.irq,
                               out |-> IF r.out = "ok" THEN n.out ELSE r.out], WDec(k))

\* "advancing by k cycles in one step, for any k up to the horizon, is
\*  indistinguishable from k single cycles (k = 0 changes nothing)"
SkipIsTicks ==
    \A k \in WideSet : WithinHorizon(t, k) => SkipOp(t, k) = TickN(Ok(t, 0), k)

\* "that horizon never skips over an interrupt"
NoIrqInHorizon ==
    \A k \in WideSet : WithinHorizon(t, k) => TickN(Ok(t, 0), k).irq = 0

\* the skip never trips the deliberate assertions when called within the horizon
SkipNeverAsserts ==
    \A k \in WideSet : WithinHorizon(t, k) => SkipOp(t, k).out = "ok"

Running(x) == x.p = 0 /\ x.m # Event

\* "decrements once per cycle and raises its interrupt exactly when the counter goes 1 -> 0;
\*  afterwards single stops, auto-restart reloads on the following cycle, free-running wraps,
\*  a paused timer holds" -- stated on one Tick from every reachable state
TickRules ==
    LET n == TickOp(t) IN
    /\ n.out = "ok"
    /\ n.irq = (IF Running(t) /\ t.c = WOne THEN 1 ELSE 0)
    /\ ~ Running(t) => n.t = t
    /\ Running(t) /\ ~ WIsZero(t.c) => n.t.c = WDec(t.c)
    /\ Running(t) /\ WIsZero(t.c) =>
          n.t.c = (CASE t.m = Single -> WZero [] t.m = Auto -> t.s [] t.m = Free -> WMax)
    /\ n.t.mi = (IF t.u = 1 /\ (n.t.c # t.c \/ (Running(t) /\ WIsZero(t.c) /\ t.m # Single))
                 THEN n.t.c ELSE t.mi)
    /\ [n.t EXCEPT !.c = t.c, !.mi = t.mi] = t

EventRules ==
    LET n == TickEventOp(t)
        live == t.p = 0 /\ t.m = Event /\ ~ WIsZero(t.c) IN
    /\ n.irq = (IF live /\ t.c = WOne THEN 1 ELSE 0)
    /\ n.t.c = (IF live THEN WDec(t.c) ELSE t.c)

\* the state machine only reports an interrupt on a 1 -> 0 transition of the counter
FireOnlyOnOneToZero ==
    [][fired' = 1 => (t.c = WOne /\ WIsZero(t'.c))]_vars
=============================================================================
