----------------------------- MODULE MulIndSame -----------------------------
(* The annotated operators of MulInd.tla (proved exact by Apalache at W = 16) ARE the operators of TeakAlu.tla:  *)
(* compared by TLC for all factor pairs, modes and product register contents at W = 6.                           *)
EXTENDS TeakAlu, TLC
I == INSTANCE MulInd WITH W <- W, vx <- 0, vy <- 0, vxs <- FALSE, vys <- FALSE, vhwm <- 0, vunit <- 0, vpe <- 0, vps <- 0, ve <- 0
VARIABLE vX
Init == vX = 0
Next == vX' \in 0 .. B - 1
Same ==
    /\ \A y \in 0 .. B - 1 : \A xs \in BOOLEAN : \A ys \in BOOLEAN : \A hwm \in 0 .. 3 : \A unit \in 0 .. 1 :
           I!Multiply(vX, y, xs, ys, hwm, unit) = Multiply(vX, y, xs, ys, hwm, unit)
    /\ \A l \in 0 .. B - 1 : \A pe \in 0 .. 1 : \A ps \in 0 .. 3 : I!ProductToBus(<<l, vX>>, pe, ps) = ProductToBus(<<l, vX>>, pe, ps)
    /\ \A l \in {0, 1, HB, B - 1} : \A e \in 0 .. EB - 1 : I!AlignDown(<<l, vX, e>>) = AlignDown(<<l, vX, e>>) /\ I!AToInt(<<l, vX, e>>) = AToInt(<<l, vX, e>>)
=============================================================================
