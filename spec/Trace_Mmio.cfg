\* trace validation against the code as pinned (the two open findings as pinned, the channel-select fix in)
CONSTANTS
  FixedChannelSelect = TRUE
  FixedWindowRaw = FALSE
  FixedWatchdogRestart = FALSE
SPECIFICATION TraceSpec
INVARIANT ObservedFrame
POSTCONDITION TraceAccepted
CHECK_DEADLOCK FALSE
VIEW TraceView
