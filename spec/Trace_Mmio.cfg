\* trace validation against the code as pinned (both Fixed* constants FALSE)
CONSTANTS
  FixedWindowRaw = FALSE
  FixedWatchdogRestart = FALSE
SPECIFICATION TraceSpec
INVARIANT ObservedFrame
POSTCONDITION TraceAccepted
CHECK_DEADLOCK FALSE
VIEW TraceView
