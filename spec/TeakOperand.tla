----------------------------- MODULE TeakOperand -----------------------------
(* Operand encodings of operand.h, written out by hand: which register name each value of each  *)
(* register-operand type denotes, and the order of the C++ enum RegName (used when a handler is  *)
(* passed a register name instead of an operand, i.e. AtNamed<> operands).                       *)
EXTENDS Naturals, Sequences

RegNameOrder == <<"a0","a0l","a0h","a0e","a1","a1l","a1h","a1e","b0","b0l","b0h","b0e","b1","b1l","b1h","b1e",
                  "r0","r1","r2","r3","r4","r5","r6","r7","y0","p","pc","sp","sv","lc","ar0","ar1",
                  "arp0","arp1","arp2","arp3","ext0","ext1","ext2","ext3","stt0","stt1","stt2","st0","st1","st2",
                  "cfgi","cfgj","mod0","mod1","mod2","mod3","undefine">>
RegNameIndex(n) == CHOOSE i \in 1..Len(RegNameOrder) : RegNameOrder[i] = n   \* 1-based; C++ enum value = index - 1

RegOperandNames == [
  Register    |-> <<"r0","r1","r2","r3","r4","r5","r7","y0","st0","st1","st2","p","pc","sp","cfgi","cfgj",
                    "b0h","b1h","b0l","b1l","ext0","ext1","ext2","ext3","a0","a1","a0l","a1l","a0h","a1h","lc","sv">>,
  Ax |-> <<"a0","a1">>, Axl |-> <<"a0l","a1l">>, Axh |-> <<"a0h","a1h">>,
  Bx |-> <<"b0","b1">>, Bxl |-> <<"b0l","b1l">>, Bxh |-> <<"b0h","b1h">>,
  Ab |-> <<"b0","b1","a0","a1">>, Abl |-> <<"b0l","b1l","a0l","a1l">>, Abh |-> <<"b0h","b1h","a0h","a1h">>,
  Abe |-> <<"b0e","b1e","a0e","a1e">>,
  Ablh |-> <<"b0l","b0h","b1l","b1h","a0l","a0h","a1l","a1h">>,
  RnOld |-> <<"r0","r1","r2","r3","r4","r5","r7","y0">>,
  Rn |-> <<"r0","r1","r2","r3","r4","r5","r6","r7">>,
  R45 |-> <<"r4","r5">>, R0123 |-> <<"r0","r1","r2","r3">>,
  ArArpSttMod |-> <<"ar0","ar1","arp0","arp1","arp2","arp3","undefine","undefine",
                    "stt0","stt1","stt2","undefine","mod0","mod1","mod2","mod3">>,
  ArArp |-> <<"ar0","ar1","arp0","arp1","arp2","arp3","undefine","undefine">>,
  SttMod |-> <<"stt0","stt1","stt2","undefine","mod0","mod1","mod2","mod3">>,
  Ar |-> <<"ar0","ar1">>, Arp |-> <<"arp0","arp1","arp2","arp3">> ]

RegOf(type, value) == RegOperandNames[type][value + 1]
=============================================================================
