----------------------------- MODULE BoundsTheorems -----------------------------
(* C18, address formation on the specification (TLC, boundary cases of every way an address is formed):       *)
(*   data accesses: 0x20000 + 0x10000 z + a with a 16-bit address and z < 2 (z >= 2 asserts) stay in the array *)
(*   for every a; MMIO offsets are masked into 0..0x7FF; loop-frame indices stay in 1..4;                       *)
(*   program accesses: the fetch address pc | prpage << 18, the second fetch, movpdw's second word and program   *)
(*   moves -- these are the ones that leave the array, each under a NAMED cause.                                 *)
(* Invariant: whenever CoreCycle reports an out-of-range access on a boundary case, its cause is one of          *)
(* KnownCauses; with KnownCauses = {} (MC_Bounds_strict.cfg) TLC exhibits the known findings.                    *)
EXTENDS TeakCore, TLC
CONSTANT KnownCauses

VARIABLE vB
Pcs == {0, 1, 63, 64, 262078, 262079, 262141, 262142, 262143}
Ops == {<<0, 0>>, <<24064, 4660>>, <<54425, 0>>, <<20496, 0>>, <<22512, 0>>, <<20480 + 63 * 16, 0>>, <<7200, 0>>, <<6176, 0>>,
        <<23807, 65535>>, <<1601, 0>>, <<24448, 0>>}
   \* nop ; mov #imm,r0 (2 words) ; movpdw a0 ; brr +1 ; brr -1 (idle) ; brr +63 ; mov [r0],r1 ; mov r1,[r0] ; bkrep #255,0xFFFF ; movp [r1]->[r0]? ; push..
Cases == {[pc |-> pc, prpage |-> pg, op |-> op, a0 |-> a0, r0 |-> r0, z |-> z] :
            pc \in Pcs, pg \in {0, 1, 15}, op \in Ops, a0 \in {<<65534, 3, 0>>, <<65535, 3, 0>>, <<0, 0, 0>>}, r0 \in {0, 65535, 32768}, z \in {0, 1}}
Init == vB \in {c \in Cases : c.pc = 0 /\ c.prpage = 0 /\ c.z = 0 /\ c.r0 = 0}
Next == vB.pc = 0 /\ vB.prpage = 0 /\ vB.z = 0 /\ vB.r0 = 0 /\ vB' \in {c \in Cases : c.op = vB.op /\ c.a0 = vB.a0}

Fa(c) == IF c.prpage = 0 THEN c.pc ELSE c.pc + 262144 * c.prpage
StateOf(c) ==
    [r |-> [ResetRegs EXCEPT !.pc = c.pc, !.prpage = c.prpage, !.a0 = c.a0, !.r = <<c.r0, 4660, 0, 0, 0, 0, 0, 0>>, !.sp = 4096],
     mem |-> (Fa(c) :> c.op[1]) @@ ((Fa(c) + 1) :> c.op[2]), io |-> [o \in {} |-> 0], acc |-> <<>>, out |-> "ok", idle |-> FALSE,
     lat |-> <<0, 0, 0, 0>>, vaddr |-> 0, vctx |-> 0, miu |-> [MiuReset EXCEPT !.z = c.z]]

Cause(c, s1) ==
    LET i == CHOOSE i \in 1 .. Len(s1.acc) : s1.acc[i][1] >= MemWords /\ ~ InIo(s1.acc[i][1])
    IN  IF i <= 2 /\ s1.acc[i][1] = Fa(c) + (i - 1)
        THEN (IF c.prpage # 0 THEN "fetch_prpage" ELSE "fetch_past_end")
        ELSE Rows[Decode(c.op[1])].key

InBounds ==
    LET s1 == CoreCycle(StateOf(vB)) IN
    /\ s1.out = "oob" => Cause(vB, s1) \in KnownCauses
    \* every access that is not flagged lies inside the array or the MMIO window
    /\ s1.out # "oob" => \A i \in 1 .. Len(s1.acc) : s1.acc[i][1] < MemWords \/ InIo(s1.acc[i][1])
    /\ s1.r.bcn \in 0 .. 4

\* data address formation (MemoryInterfaceUnit::ConvertDataAddress / InMMIO / ToMMIO) for boundary addresses under EVERY
\* configuration class of the MIU registers, which the guest can set freely: the access either asserts or lies inside
\* the array / the 0x800 MMIO offsets
DataAddressInBounds ==
    (vB.pc = 0 /\ vB.prpage = 0 /\ vB.z = 0 /\ vB.r0 = 0) =>      \* independent of the case: evaluated on the seed states only
    \A a \in {0, 1, 1023, 1024, 1025, 32767, 32768, 32769, 34815, 34816, 64511, 64512, 65534, 65535} :
    \A base \in {0, 32768, 63488, 65535} : \A pm \in 0 .. 1 : \A z \in {0, 1, 2, 65535} : \A xp \in {0, 1, 2, 65535} :
    \A yp \in {0, 1, 2, 65535} : \A xs0 \in {0, 1, 32, 63} :
        LET s == [StateOf(vB) EXCEPT !.miu = [MiuReset EXCEPT !.base = base, !.z = z, !.pm = pm, !.xp = xp, !.yp = yp, !.xs = <<xs0, 32>>]]
            ph == DataPhys(s, a)
        IN  DAsserts(s, a) \/ ph < MemWords \/ (InIo(ph) /\ ph - MmioBase < 2048)
=============================================================================
