------------------------------- MODULE SysTrace -------------------------------
(* System-level trace validation (C06, C07, C08, C09, C17): executions of a real Teakra instance running  *)
(* guest programs in slices (harness/drivers/sys_rec.cpp) against System.tla.  A logged Run(n) is consumed *)
(* by exactly n silent Cycle steps -- the specification has no fast-forward, so that different slicings of *)
(* the same program are all accepted is precisely C06 -- and then the complete observation must match.     *)
EXTENDS System, Json, IOUtils, TLC

Log == ndJsonDeserialize(IOEnv.TRACE)
VARIABLES vY, vL, vK, vPh, vWr
tvars == <<vY, vL, vK, vPh, vWr>>
Rec == Log[vL]

TimerOf2(t) == [c |-> t.c, s |-> t.s, m |-> t.m, p |-> t.p, u |-> t.u, mi |-> t.mi, sc |-> t.sc]
IcuOf(i) == [req |-> i.req, en |-> i.en, ven |-> i.ven, vlo |-> i.vlo, vhi |-> i.vhi, vctx |-> i.vctx]

MiuOf(m) == [base |-> m.base, z |-> m.z, pm |-> m.pm, xp |-> m.xp, yp |-> m.yp, xs |-> <<m.xs[1], m.xs[2]>>, ys |-> <<m.ys[1], m.ys[2]>>, live |-> TRUE]
CoreObs(rec, mem) == [r |-> Unpack(rec.r), mem |-> mem, io |-> EmptyIo, acc |-> <<>>, out |-> "ok", idle |-> rec.idle = 1,
                      lat |-> <<rec.lat[1], rec.lat[2], rec.lat[3], rec.lat[4]>>, vaddr |-> rec.lat[5] * 65536 + rec.lat[6],
                      vctx |-> rec.lat[7], miu |-> MiuOf(rec.miu)]
\* audio port / mailbox block as logged -> as modelled (functions over 0..2 built eagerly)
BtOf2(b) == [q |-> b.q, tm |-> b.tm, pd |-> b.pd, en |-> b.en, em |-> b.em, fu |-> b.fu, cc |-> b.cc]
F3(x) == (0 :> x[1]) @@ (1 :> x[2]) @@ (2 :> x[3])
ApOf(a) == [rdy |-> F3(a.rdy), dat |-> F3(a.dat), dis |-> F3(a.dis), sem |-> a.sem, msk |-> a.msk, sig |-> a.sig]
T3(f) == <<f[0], f[1], f[2]>>
ApObs(s) == [rdy |-> T3(s.rdy), dat |-> T3(s.dat), dis |-> T3(s.dis), sem |-> s.sem, msk |-> s.msk, sig |-> s.sig]
ApLog(a) == [rdy |-> <<a.rdy[1], a.rdy[2], a.rdy[3]>>, dat |-> <<a.dat[1], a.dat[2], a.dat[3]>>, dis |-> <<a.dis[1], a.dis[2], a.dis[3]>>,
             sem |-> a.sem, msk |-> a.msk, sig |-> a.sig]
EvLog(rec) == [i \in 1 .. Len(rec.ev) |-> <<rec.ev[i][1], rec.ev[i][2], rec.ev[i][3]>>]
\* DMA engine / AHB bridge as logged -> as modelled.  A DMA channel is logged as the array
\* [src hi, src lo, dst hi, dst lo, size0..2, src step0..2, dst step0..2, src space, dst space, dword, y, z,
\*  current_src hi, lo, current_dst hi, lo, counter0..2, running, ahbm_channel], an AHBM channel as
\* [unit, burst, direction, dma mask, [queue entries [hi, lo]], [write_burst_start hi, lo]]
DmaChOf(c) == [sa |-> <<c[1], c[2]>>, da |-> <<c[3], c[4]>>, z0 |-> c[5], z1 |-> c[6], z2 |-> c[7],
               ss |-> <<c[8], c[9], c[10]>>, ds |-> <<c[11], c[12], c[13]>>, sp |-> c[14], dp |-> c[15], dw |-> c[16],
               yv |-> c[17], zv |-> c[18], cs |-> <<c[19], c[20]>>, cd |-> <<c[21], c[22]>>,
               c0 |-> c[23], c1 |-> c[24], c2 |-> c[25], run |-> c[26], ach |-> c[27]]
DmaOf(d) == [en |-> d.en, act |-> d.act, ch |-> <<DmaChOf(d.ch[1]), DmaChOf(d.ch[2]), DmaChOf(d.ch[3]), DmaChOf(d.ch[4]),
                                                  DmaChOf(d.ch[5]), DmaChOf(d.ch[6]), DmaChOf(d.ch[7]), DmaChOf(d.ch[8])>>]
AhChOf(x) == [u |-> x[1], bu |-> x[2], dir |-> x[3], dm |-> x[4], q |-> [i \in 1 .. Len(x[5]) |-> <<x[5][i][1], x[5][i][2]>>],
              wbs |-> <<x[6][1], x[6][2]>>]
AhOf(a) == [busy |-> a.busy, ch |-> (0 :> AhChOf(a.ch[1])) @@ (1 :> AhChOf(a.ch[2])) @@ (2 :> AhChOf(a.ch[3]))]
XaLog(rec) == [i \in 1 .. Len(rec.xa) |-> <<rec.xa[i][1], rec.xa[i][2], rec.xa[i][3], rec.xa[i][4], rec.xa[i][5]>>]
Fresh(rec) == [c |-> CoreObs(rec, [ph0 \in {} |-> 0]), tm |-> <<TimerOf2(rec.tm[1]), TimerOf2(rec.tm[2])>>,
               icu |-> IcuOf(rec.icu), bt |-> <<BtOf2(rec.bt[1]), BtOf2(rec.bt[2])>>,
               ap |-> [fc |-> ApOf(rec.ap[1]), fd |-> ApOf(rec.ap[2])], cells |-> [o \in {} |-> 0], ev |-> <<>>,
               dma |-> DmaOf(rec.dma), ah |-> AhOf(rec.ah), ext |-> [xb \in {} |-> 0], xa |-> <<>>, hz |-> {}]

\* a fresh, reset instance must be in the specification's reset state (C17, as far as this observation goes;
\* the uninitialised ar/arp shadow banks are excluded here and examined by the C17 check itself)
FreshIsReset(rec) ==
    LET r == Unpack(rec.r) IN
    /\ [r EXCEPT !.sar = ResetRegs.sar, !.sarp = ResetRegs.sarp] = ResetRegs
    /\ TimerOf2(rec.tm[1]) = TM!ResetState /\ TimerOf2(rec.tm[2]) = TM!ResetState
    /\ [BtOf2(rec.bt[1]) EXCEPT !.pd = 4096] = BT!ResetState /\ [BtOf2(rec.bt[2]) EXCEPT !.pd = 4096] = BT!ResetState
    /\ MiuOf(rec.miu) = MiuLive
    /\ ApOf(rec.ap[1]) = ApFresh /\ ApOf(rec.ap[2]) = ApFresh
    /\ DmaOf(rec.dma) = DmaReset /\ AhOf(rec.ah) = AhReset /\ rec.xa = <<>>
    /\ rec.icu.req = 0 /\ rec.lat[1] = 0 /\ rec.lat[2] = 0 /\ rec.lat[3] = 0 /\ rec.lat[4] = 0

Written(c) == {c.acc[i][1] : i \in {j \in 1 .. Len(c.acc) : c.acc[j][2] = 1 /\ c.acc[j][1] < MmioBase}}

ObsMatches(rec) ==
    /\ vY.c.out = rec.out
    /\ rec.out = "ok" =>
         /\ Pack(vY.c.r) = rec.r
         /\ vY.c.lat = <<rec.lat[1], rec.lat[2], rec.lat[3], rec.lat[4]>>
         /\ (rec.lat[4] = 1 => vY.c.vaddr = rec.lat[5] * 65536 + rec.lat[6] /\ vY.c.vctx = rec.lat[7])
         /\ (IF vY.c.idle THEN 1 ELSE 0) = rec.idle
         /\ vY.tm = <<TimerOf2(rec.tm[1]), TimerOf2(rec.tm[2])>>
         /\ vY.icu = IcuOf(rec.icu)
         /\ vY.c.miu = MiuOf(rec.miu)
         /\ vY.bt = <<BtOf2(rec.bt[1]), BtOf2(rec.bt[2])>>
         /\ ApObs(vY.ap.fc) = ApLog(rec.ap[1]) /\ ApObs(vY.ap.fd) = ApLog(rec.ap[2])
         /\ vY.ev = EvLog(rec)                      \* every host callback of the slice, in order
         /\ vY.dma = DmaOf(rec.dma) /\ vY.ah = AhOf(rec.ah)
         /\ vY.xa = XaLog(rec)                      \* every external-memory callback of the slice, in order, with its value
         /\ {<<a, MemVal(vY.c, a)>> : a \in vWr} = {<<rec.wr[i][1], rec.wr[i][2]>> : i \in 1 .. Len(rec.wr)}

\* printed when an observation does not match (the step is then disabled): what differs
ObsDiff(rec) ==
    LET got == Pack(vY.c.r) IN
    [line |-> vL, out |-> <<vY.c.out, rec.out>>,
     regs |-> {<<FieldAt[i], i, got[i], rec.r[i]>> : i \in {j \in 1 .. Len(rec.r) : got[j] # rec.r[j]}},
     lat |-> <<vY.c.lat, rec.lat>>, idle |-> <<vY.c.idle, rec.idle>>,
     tm |-> IF vY.tm = <<TimerOf2(rec.tm[1]), TimerOf2(rec.tm[2])>> THEN "same" ELSE <<vY.tm, rec.tm>>,
     icu |-> IF vY.icu = IcuOf(rec.icu) THEN "same" ELSE <<vY.icu.req, rec.icu.req, vY.icu.en, rec.icu.en>>,
     miu |-> IF vY.c.miu = MiuOf(rec.miu) THEN "same" ELSE <<vY.c.miu, rec.miu>>,
     bt |-> IF vY.bt = <<BtOf2(rec.bt[1]), BtOf2(rec.bt[2])>> THEN "same" ELSE <<vY.bt, rec.bt>>,
     ap |-> IF ApObs(vY.ap.fc) = ApLog(rec.ap[1]) /\ ApObs(vY.ap.fd) = ApLog(rec.ap[2]) THEN "same" ELSE <<vY.ap, rec.ap>>,
     ev |-> IF vY.ev = EvLog(rec) THEN "same" ELSE <<vY.ev, rec.ev>>,
     dma |-> IF vY.dma = DmaOf(rec.dma) THEN "same"
             ELSE <<<<vY.dma.en, rec.dma.en>>, <<vY.dma.act, rec.dma.act>>,
                    {<<i - 1, vY.dma.ch[i], rec.dma.ch[i]>> : i \in {j \in 1 .. 8 : vY.dma.ch[j] # DmaChOf(rec.dma.ch[j])}}>>,
     ah |-> IF vY.ah = AhOf(rec.ah) THEN "same"
            ELSE <<<<vY.ah.busy, rec.ah.busy>>, {<<i, vY.ah.ch[i], rec.ah.ch[i + 1]>> : i \in {j \in 0 .. 2 : vY.ah.ch[j] # AhChOf(rec.ah.ch[j + 1])}}>>,
     xa |-> IF vY.xa = XaLog(rec) THEN "same" ELSE <<vY.xa, rec.xa>>,
     wr |-> <<{<<a, MemVal(vY.c, a)>> : a \in vWr} \ {<<rec.wr[i][1], rec.wr[i][2]>> : i \in 1 .. Len(rec.wr)},
              {<<rec.wr[i][1], rec.wr[i][2]>> : i \in 1 .. Len(rec.wr)} \ {<<a, MemVal(vY.c, a)>> : a \in vWr}>>]

IsEv(e) == vL <= Len(Log) /\ Rec.e = e

TNew  == /\ vPh = "idle" /\ IsEv("New") /\ FreshIsReset(Rec)
         /\ vY' = Fresh(Rec) /\ vL' = vL + 1 /\ TLCSet(1, vL) /\ UNCHANGED <<vK, vPh, vWr>>
TLoad == /\ vPh = "idle" /\ IsEv("Load")
         /\ vY' = [vY EXCEPT !.c.mem = [a \in {Rec.w[i][1] : i \in 1 .. Len(Rec.w)} |->
                                         Rec.w[CHOOSE i \in 1 .. Len(Rec.w) : Rec.w[i][1] = a][2]] @@ @]
         /\ vL' = vL + 1 /\ TLCSet(1, vL) /\ UNCHANGED <<vK, vPh, vWr>>
\* Teakra::Run(n): idle := false, then n cycles
TBegin == /\ vPh = "idle" /\ IsEv("Run")
          /\ vPh' = "run" /\ vK' = Rec.n /\ vWr' = {} /\ vY' = [vY EXCEPT !.c.idle = FALSE, !.ev = <<>>, !.xa = <<>>] /\ UNCHANGED vL
\* several cycles per TLC step (bounded recursion): [vY, vWr, vK] after at most Chunk cycles.
\* (A LET placed directly in an action is re-evaluated by TLC at every use, operator arguments are not:
\* hence the helper operators instead of LETs.)
\* After a quiescent cycle (System!QuietStep) the remaining budget is taken in one step up to the common horizon of the
\* ticking components (System!Jump): long idle stretches cost one TLC step, not one per cycle.
RECURSIVE Cycles(_, _, _, _)
AfterJump(j, ww, kk, budget) == Cycles(j.y, ww, kk - j.k, budget - 1)
CyclesNext(yy, y1, ww, kk, budget) ==
    IF kk > 4 /\ QuietStep(yy, y1) THEN AfterJump(Jump(y1, kk - 1), ww, kk - 1, budget)
    ELSE Cycles(y1, ww \cup Written(y1.c), kk - 1, budget - 1)
Cycles(yy, ww, kk, budget) ==
    IF kk = 0 \/ budget = 0 \/ yy.c.out # "ok" THEN [fy |-> yy, fwr |-> ww, fk |-> kk]
    ELSE CyclesNext(yy, Cycle(yy), ww, kk, budget)
Chunk == 1
StepApply(t) == vY' = t.fy /\ vWr' = t.fwr /\ vK' = t.fk
TStep  == /\ vPh = "run" /\ vK > 0 /\ vY.c.out = "ok"
          /\ StepApply(Cycles(vY, vWr, vK, Chunk))
          /\ UNCHANGED <<vL, vPh>>
\* a host API call between two Run calls: result, callbacks and the complete observation afterwards
HostApply(rec, h) == /\ (IF h.y.c.out # "ok" \/ h.ret = rec.ret THEN TRUE ELSE (PrintT(<<"MISMATCH", [line |-> vL, ret |-> <<h.ret, rec.ret>>]>>) /\ FALSE))
                     /\ vY' = h.y /\ vWr' = Written(h.y.c)
THost == /\ vPh = "idle" /\ IsEv("Host")
         /\ HostApply(Rec, HostCall([vY EXCEPT !.ev = <<>>, !.xa = <<>>, !.c.acc = <<>>], Rec.op, Rec.a, Rec.b))
         /\ vPh' = "host" /\ UNCHANGED <<vL, vK>>
\* an out-of-range outcome the specification predicted (a listed finding): which of its two sources it came from -- a
\* vetoed access of the core (fetch / data access, left in the access list of the failing cycle: position, address, program
\* page) or a DSP-side DMA cursor (System!EnvEvent, no access of the core); printed for the check's finding signatures
OobCause ==
    LET bad == {i \in 1 .. Len(vY.c.acc) : vY.c.acc[i][1] >= 262144 /\ vY.c.acc[i][1] < MmioBase} IN
    IF bad = {} THEN <<"OOB_CAUSE", vL, "dma", 0, 0, 0>>
    ELSE LET i == CHOOSE j \in bad : \A k \in bad : j <= k IN <<"OOB_CAUSE", vL, "core", i, vY.c.acc[i][1], vY.c.r.prpage>>
TEnd   == /\ (vPh = "host" \/ (vPh = "run" /\ (vK = 0 \/ vY.c.out # "ok")))
          /\ (IF ObsMatches(Rec) THEN TRUE ELSE (PrintT(<<"MISMATCH", ObsDiff(Rec)>>) /\ FALSE))
          /\ (vY.c.out = "oob" => PrintT(OobCause))
          /\ vL' = vL + 1 /\ TLCSet(1, vL) /\ vPh' = "idle" /\ UNCHANGED <<vY, vK, vWr>>

TraceInit == /\ vL = 1 /\ vK = 0 /\ vPh = "idle" /\ vWr = {} /\ TLCSet(1, 0)
             /\ vY = [c |-> [r |-> ResetRegs, mem |-> [a \in {} |-> 0], io |-> EmptyIo, acc |-> <<>>, out |-> "ok", idle |-> FALSE,
                            lat |-> <<0, 0, 0, 0>>, vaddr |-> 0, vctx |-> 0, miu |-> MiuLive],
                     tm |-> <<TM!ResetState, TM!ResetState>>, icu |-> IcuReset,
                     bt |-> <<BT!ResetState, BT!ResetState>>, ap |-> ApReset, cells |-> [o \in {} |-> 0], ev |-> <<>>,
                     dma |-> DmaReset, ah |-> AhReset, ext |-> [xb \in {} |-> 0], xa |-> <<>>, hz |-> {}]
TraceNext == TNew \/ TLoad \/ TBegin \/ TStep \/ THost \/ TEnd
TraceSpec == TraceInit /\ [][TraceNext]_tvars

TraceAccepted == /\ PrintT(<<"TRACE_MATCHED", TLCGet(1), Len(Log)>>)
                 /\ TLCGet(1) = Len(Log)
=============================================================================
