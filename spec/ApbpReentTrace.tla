--------------------------- MODULE ApbpReentTrace ---------------------------
(* Trace validation of harness/drivers/reent_rec.cpp against ApbpReent.tla: every logged step must be the   *)
(* specification's step (Begin of SetSemaphore / MaskSemaphore with the logged decision to run the handler, *)
(* ClearSemaphore, End = return of a call whose handler ran) and leave exactly the logged private fields;    *)
(* the public getters must report the same three values.  SignalOK is an INVARIANT of the trace cfg.          *)
EXTENDS ApbpReent, Json, IOUtils
Log == ndJsonDeserialize(IOEnv.TRACE)
VARIABLE vL
Rec == Log[vL]
StOk == /\ vSem' = Rec.sem /\ vMsk' = Rec.msk /\ vSig' = Rec.sig
        /\ Rec.gsem = Rec.sem /\ Rec.gmsk = Rec.msk /\ Rec.gsig = Rec.sig
IsEvent(e) == vL <= Len(Log) /\ Rec.e = e /\ vL' = vL + 1
TN == IsEvent("N") /\ vSem' = 0 /\ vMsk' = 0 /\ vSig' = 0 /\ vStack' = <<>> /\ vLast' = [a |-> "init", v |-> 0, fire |-> 0]
TB == IsEvent("B") /\ (IF Rec.op = "set" THEN BeginSet(Rec.v) ELSE BeginMask(Rec.v)) /\ vLast'.fire = Rec.fire /\ StOk
TC == IsEvent("C") /\ Clear(Rec.v) /\ StOk
TE == IsEvent("E") /\ End /\ StOk
TraceInit == Init /\ vL = 1
TraceNext == TN \/ TB \/ TC \/ TE
TraceSpec == TraceInit /\ [][TraceNext]_<<rvars, vL>>
TraceAccepted == /\ PrintT(<<"TRACE_MATCHED", TLCGet("stats").diameter - 1, Len(Log)>>)
                 /\ TLCGet("stats").diameter - 1 = Len(Log)
=============================================================================
