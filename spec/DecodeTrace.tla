----------------------------- MODULE DecodeTrace -----------------------------
(* C02/C05 conformance: one line per 16-bit word (harness/drivers/decode_dump.cpp), produced by   *)
(* the real decoder instantiated for a recording visitor and for the interpreter, by the public    *)
(* disassembler and by the assembler's parser.  Each line must agree with TeakDecode.              *)
EXTENDS TeakDecode, Json, IOUtils, TLC

Log == ndJsonDeserialize(IOEnv.TRACE)
VARIABLE vL
Rec == Log[vL]

DecOk(d, i, w) ==
    /\ d.out = "ok"
    /\ d.key = (IF i = 0 THEN "undefined/" ELSE Rows[i].key)
    /\ d.exp = (IF i # 0 /\ NeedExpRow[i] THEN 1 ELSE 0)
    /\ d.args = (IF i = 0 THEN <<>> ELSE Args(i, w, d.x))

(* The annotated form of the disassembler (optional ar/arp view, as test_verifier passes it): every ar/arp slot    *)
(* name of the plain text is replaced by what the REGISTER specification says the slot holds once the six view     *)
(* words are written to ar0, ar1, arp0..arp3 (TeakRegs!PSet, the bit-field views of C20); nothing else changes.     *)
RG == INSTANCE TeakRegs WITH W <- 16
StepNames   == <<"++0", "++1", "--1", "++s", "++2", "--2", "++2*", "--2*">>
OffsetNames == <<"+0", "+1", "-1", "-1*">>
Digit(k) == <<"0", "1", "2", "3", "4", "5", "6", "7">>[k + 1]
ViewRegs(v) ==
    LET r0 == RG!ResetRegs
        r1 == RG!PSet(r0, "ar0", v[1])    r2 == RG!PSet(r1, "ar1", v[2])
        r3 == RG!PSet(r2, "arp0", v[3])   r4 == RG!PSet(r3, "arp1", v[4])
        r5 == RG!PSet(r4, "arp2", v[5])
    IN  RG!PSet(r5, "arp3", v[6])
\* slot piece -> annotated text; any other piece is kept
Annot(piece, rg) ==
    LET Try(k) ==
          CASE piece = "arrn" \o Digit(k)   -> "%r" \o Digit(rg.arrn[k + 1])
            [] piece = "+ars" \o Digit(k)   -> OffsetNames[rg.aroffset[k + 1] + 1] \o StepNames[rg.arstep[k + 1] + 1]
            [] piece = "arprni" \o Digit(k) -> "%r" \o Digit(rg.arprni[k + 1])
            [] piece = "+arpsi" \o Digit(k) -> OffsetNames[rg.arpoffseti[k + 1] + 1] \o StepNames[rg.arpstepi[k + 1] + 1]
            [] piece = "arprnj" \o Digit(k) -> "%r" \o Digit(rg.arprnj[k + 1] + 4)
            [] piece = "+arpsj" \o Digit(k) -> OffsetNames[rg.arpoffsetj[k + 1] + 1] \o StepNames[rg.arpstepj[k + 1] + 1]
            [] OTHER -> ""
    IN  IF Try(0) # "" THEN Try(0) ELSE IF Try(1) # "" THEN Try(1) ELSE IF Try(2) # "" THEN Try(2)
        ELSE IF Try(3) # "" THEN Try(3) ELSE piece
RECURSIVE Join(_, _, _)
Join(ps, j, annot) == IF j > Len(ps) THEN "" ELSE (IF annot = <<>> THEN ps[j] ELSE Annot(ps[j], annot[1])) \o Join(ps, j + 1, annot)
\* the slot operands the decode table gives the row are exactly the slot pieces of its text
SlotTypes == {"ArRn1", "ArRn2", "ArStep1", "ArStep1Alt", "ArStep2", "ArpRn1", "ArpRn2", "ArpStep1", "ArpStep2"}
RowHasSlot(i) == i # 0 /\ \E k \in 1 .. Len(Rows[i].ops) : Rows[i].ops[k].t \in SlotTypes
IsSlotPiece(p) == Annot(p, RG!ResetRegs) # p
ViewOk(r, i) ==
    LET rg == ViewRegs(r.view) IN
    /\ r.tok0 = r.tok                                   \* the answer does not depend on the calls made before
    /\ Len(r.atoms) = Len(r.tok) /\ Len(r.tokv) = Len(r.tok)
    /\ \A k \in 1 .. Len(r.tok) :
          /\ Join(r.atoms[k], 1, <<>>) = r.tok[k]        \* the recorder's cut is a cut of the plain token
          /\ Join(r.atoms[k], 1, <<rg>>) = r.tokv[k]
    /\ r.err = 0 => (RowHasSlot(i) <=> \E k \in 1 .. Len(r.atoms) : \E j \in 1 .. Len(r.atoms[k]) : IsSlotPiece(r.atoms[k][j]))

RecOk(r) ==
    LET w == r.w
        i == Decode(w)
        e == IF i # 0 /\ NeedExpRow[i] THEN 1 ELSE 0
        c == IF i = 0 THEN w ELSE w - (w & UnusedBits[i]) IN
    /\ \A k \in 1..Len(r.dec) : DecOk(r.dec[k], i, w)
    \* the interpreter's and the disassembler's instantiation of the table see the same row / length
    /\ r.iname = (IF i = 0 THEN "*" ELSE Rows[i].name)
    /\ r.iexp = e
    /\ r.dexp = e
    \* C05: a renderable opcode assembles back to its canonical form with the same need for a second word
    /\ r.err = 0 => /\ r.pst = (IF e = 1 THEN 2 ELSE 1)
                    /\ r.pop = c
    \* an undefined word is never renderable
    /\ i = 0 => r.err = 1
    /\ ViewOk(r, i)

TraceInit == vL = 1
TraceNext == vL <= Len(Log) /\ RecOk(Rec) /\ vL' = vL + 1
TraceSpec == TraceInit /\ [][TraceNext]_vL
TraceAccepted ==
    /\ PrintT(<<"TRACE_MATCHED", TLCGet("stats").diameter - 1, Len(Log)>>)
    /\ TLCGet("stats").diameter - 1 = Len(Log)
=============================================================================
