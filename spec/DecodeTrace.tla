----------------------------- MODULE DecodeTrace -----------------------------
(* C02/C05 conformance: one line per 16-bit word (harness/drivers/decode_dump.cpp), produced by   *)
(* the real decoder instantiated for a recording visitor and for the interpreter, by the public    *)
(* disassembler and by the assembler's parser.  Each line must agree with TeakDecode.              *)
EXTENDS TeakDecode, Json, IOUtils, TLC

Log == ndJsonDeserialize(IOEnv.TRACE)
VARIABLE vL
Rec == Log[vL]

DecOk(d, i, w) ==
    /\ d.out = "ok"
    /\ d.key = (IF i = 0 THEN "undefined/" ELSE Rows[i].key)
    /\ d.exp = (IF i # 0 /\ NeedExpRow[i] THEN 1 ELSE 0)
    /\ d.args = (IF i = 0 THEN <<>> ELSE Args(i, w, d.x))

RecOk(r) ==
    LET w == r.w
        i == Decode(w)
        e == IF i # 0 /\ NeedExpRow[i] THEN 1 ELSE 0
        c == IF i = 0 THEN w ELSE w - (w & UnusedBits[i]) IN
    /\ \A k \in 1..Len(r.dec) : DecOk(r.dec[k], i, w)
    \* the interpreter's and the disassembler's instantiation of the table see the same row / length
    /\ r.iname = (IF i = 0 THEN "*" ELSE Rows[i].name)
    /\ r.iexp = e
    /\ r.dexp = e
    \* C05: a renderable opcode assembles back to its canonical form with the same need for a second word
    /\ r.err = 0 => /\ r.pst = (IF e = 1 THEN 2 ELSE 1)
                    /\ r.pop = c
    \* an undefined word is never renderable
    /\ i = 0 => r.err = 1

TraceInit == vL = 1
TraceNext == vL <= Len(Log) /\ RecOk(Rec) /\ vL' = vL + 1
TraceSpec == TraceInit /\ [][TraceNext]_vL
TraceAccepted ==
    /\ PrintT(<<"TRACE_MATCHED", TLCGet("stats").diameter - 1, Len(Log)>>)
    /\ TLCGet("stats").diameter - 1 = Len(Log)
=============================================================================
