---- MODULE MC_Mmio_TTrace_1790643301 ----
EXTENDS Sequences, TLCExt, Toolbox, Naturals, TLC, MC_Mmio

_expression ==
    LET MC_Mmio_TEExpression == INSTANCE MC_Mmio_TEExpression
    IN MC_Mmio_TEExpression!expression
----

_trace ==
    LET MC_Mmio_TETrace == INSTANCE MC_Mmio_TETrace
    IN MC_Mmio_TETrace!trace
----

_inv ==
    ~(
        TLCGet("level") = Len(_TETrace)
        /\
        bid = (1)
        /\
        wval = (1040)
        /\
        woff = (32)
    )
----

_init ==
    /\ bid = _TETrace[1].bid
    /\ woff = _TETrace[1].woff
    /\ wval = _TETrace[1].wval
----

_next ==
    /\ \E i,j \in DOMAIN _TETrace:
        /\ \/ /\ j = i + 1
              /\ i = TLCGet("level")
        /\ bid  = _TETrace[i].bid
        /\ bid' = _TETrace[j].bid
        /\ woff  = _TETrace[i].woff
        /\ woff' = _TETrace[j].woff
        /\ wval  = _TETrace[i].wval
        /\ wval' = _TETrace[j].wval

\* Uncomment the ASSUME below to write the states of the error trace
\* to the given file in Json format. Note that you can pass any tuple
\* to `JsonSerialize`. For example, a sub-sequence of _TETrace.
    \* ASSUME
    \*     LET J == INSTANCE Json
    \*         IN J!JsonSerialize("MC_Mmio_TTrace_1790643301.json", _TETrace)

=============================================================================

 Note that you can extract this module `MC_Mmio_TEExpression`
  to a dedicated file to reuse `expression` (the module in the 
  dedicated `MC_Mmio_TEExpression.tla` file takes precedence 
  over the module `MC_Mmio_TEExpression` below).

---- MODULE MC_Mmio_TEExpression ----
EXTENDS Sequences, TLCExt, Toolbox, Naturals, TLC, MC_Mmio

expression == 
    [
        \* To hide variables of the `MC_Mmio` spec from the error trace,
        \* remove the variables below.  The trace will be written in the order
        \* of the fields of this record.
        bid |-> bid
        ,woff |-> woff
        ,wval |-> wval
        
        \* Put additional constant-, state-, and action-level expressions here:
        \* ,_stateNumber |-> _TEPosition
        \* ,_bidUnchanged |-> bid = bid'
        
        \* Format the `bid` variable as Json value.
        \* ,_bidJson |->
        \*     LET J == INSTANCE Json
        \*     IN J!ToJson(bid)
        
        \* Lastly, you may build expressions over arbitrary sets of states by
        \* leveraging the _TETrace operator.  For example, this is how to
        \* count the number of times a spec variable changed up to the current
        \* state in the trace.
        \* ,_bidModCount |->
        \*     LET F[s \in DOMAIN _TETrace] ==
        \*         IF s = 1 THEN 0
        \*         ELSE IF _TETrace[s].bid # _TETrace[s-1].bid
        \*             THEN 1 + F[s-1] ELSE F[s-1]
        \*     IN F[_TEPosition - 1]
    ]

=============================================================================



Parsing and semantic processing can take forever if the trace below is long.
 In this case, it is advised to uncomment the module below to deserialize the
 trace from a generated binary file.

\*
\*---- MODULE MC_Mmio_TETrace ----
\*EXTENDS IOUtils, TLC, MC_Mmio
\*
\*trace == IODeserialize("MC_Mmio_TTrace_1790643301.bin", TRUE)
\*
\*=============================================================================
\*

---- MODULE MC_Mmio_TETrace ----
EXTENDS TLC, MC_Mmio

trace == 
    <<
    ([bid |-> 1,wval |-> 99999,woff |-> 32]),
    ([bid |-> 1,wval |-> 1040,woff |-> 32])
    >>
----


=============================================================================

---- CONFIG MC_Mmio_TTrace_1790643301 ----
CONSTANTS
    AllCells = FALSE
    FixedWindowRaw = FALSE
    FixedWatchdogRestart = FALSE
    ValMode = 1
    NBases = 2

INVARIANT
    _inv

CHECK_DEADLOCK
    \* CHECK_DEADLOCK off because of PROPERTY or INVARIANT above.
    FALSE

INIT
    _init

NEXT
    _next

CONSTANT
    _TETrace <- _trace

ALIAS
    _expression
=============================================================================
\* Generated on Tue Sep 29 00:55:11 UTC 2026