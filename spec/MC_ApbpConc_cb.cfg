\* quick, second half: the data callback re-enters SendData (and RecvData / GetSemaphore); one host send
CONSTANTS
  Chans = {0}
  SemFull = 3
  FixedDisableIrqLock = TRUE
  FixedVectorLock = TRUE
  HandlerInsideLock = FALSE
  VectoredOn = FALSE
  NSend = 1
  NHostOps = 1
  SemVals = {1}
  NDis = 1
  NVec = 0
  NCbSend = 1
  HostKinds = {"Empty", "PollRecv", "SemSet", "SemGet", "SemClr", "SemMask"}
  NDspMask = 0
  TrackLockset = TRUE
SPECIFICATION Spec
INVARIANTS ValuesOK LocksetOK NoDeadlock HeldOK OwedSafe
PROPERTY TrigDelivers
CHECK_DEADLOCK TRUE
