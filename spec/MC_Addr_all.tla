---- MODULE MC_Addr_all ----
EXTENDS AddrTheorems
AllMods == 0 .. 511
====
