\* liveness under weak fairness of both threads (no state constraint), larger bounds than MC_ApbpConc_live.cfg
CONSTANTS
  Chans = {0}
  SemFull = 3
  FixedDisableIrqLock = TRUE
  FixedVectorLock = TRUE
  HandlerInsideLock = FALSE
  VectoredOn = FALSE
  NSend = 2
  NHostOps = 1
  SemVals = {1}
  NDis = 1
  NVec = 0
  NCbSend = 0
  HostKinds = {"Empty", "PollRecv", "SemSet", "SemGet", "SemClr", "SemMask"}
  NDspMask = 0
  TrackLockset = FALSE
SPECIFICATION FairSpec
INVARIANTS ValuesOK NoDeadlock
PROPERTIES LastSeen HandlerOwed LatchConsumed IrqTaken
CHECK_DEADLOCK TRUE
