CONSTANTS SemW = 2  MaxDepth = 3  FixedReentry = TRUE
SPECIFICATION Spec
INVARIANTS TypeOK SignalOK SignalOKInside FireOnlyWhenSet
PROPERTY RiseFires
CHECK_DEADLOCK FALSE
