----------------------------- MODULE TeakDispatch -----------------------------
(* Exec(s, key, g): the handler that the decode key selects, applied to operand values g.               *)
(* One CASE arm per C++ handler overload of interpreter.h (332 keys).                                   *)
EXTENDS TeakExec

ABn(g, i)  == RN("Ab", g[i])
AXn(g, i)  == RN("Ax", g[i])
BXn(g, i)  == RN("Bx", g[i])
ARu(s, g, i)  == ArUnit(s.r, g[i])
ARs(s, g, i)  == ArStep(s.r, g[i])
ARo(s, g, i)  == ArOffset(s.r, g[i])

\* vtr min/max with a store of the counter accumulator through ar / arp
VtrMov(s, an, bn, min, g, k, high) ==
    LET s1 == MinMaxVtr(s, an, bn, min)
        v  == GetSatAccNoFlag(s1, CounterAcc(an))
        m  == AM(s1, ARu(s1, g, k), ARs(s1, g, k + 1), FALSE)
    IN  DWrite(m.s, m.a, IF high THEN v[2] ELSE v[1])
VtrMovIJ(s, g, min, ij) ==
    LET an == AXn(g, 1)
        s1 == MinMaxVtr(s, an, BXn(g, 2), min)
        v  == GetSatAccNoFlag(s1, CounterAcc(an))
        p  == IJ(s1, g[3], g[4], g[5], FALSE, FALSE)
    IN  IF ij THEN DWrite(DWrite(p.s, p.ai, v[2]), p.aj, v[1]) ELSE DWrite(DWrite(p.s, p.ai, v[1]), p.aj, v[2])

ExpOf(s, v) == [s EXCEPT !.r.sv = Exp(v)]
ExpStore(s, bn) == SetAcc(s, bn, FromS16(s.r.sv))
ExpReg(s, n) == IF n \in {"a0", "a1"} THEN ExpOf(s, GetAcc(s, n))
                ELSE LET t == RegToBus(s, n, FALSE) IN ExpOf(t.s, FromHi16(t.v))
ExpRn(s, g) == LET m == AM(s, g[1], g[2], FALSE)  t == LD(m.s, m.a) IN ExpOf(t.s, FromHi16(t.v))

\* movr: 16-bit rounding add whose carry is bit 16 and whose overflow flag is always cleared
Movr16(s, v16, bn) == LET r == v16 + HB IN SatSetAccFlag([s EXCEPT !.r.fc0 = r \div B, !.r.fv = 0], bn, <<r % B, 0, 0>>)
Rnd40(s, v, bn)    == LET t == AddSubF(s, v, <<HB, 0, 0>>, FALSE) IN SatSetAccFlag(t.s, bn, t.v)

Swap(s, g) ==
    LET t == g[1]
        A(n) == GetAcc(s, n)
        \* <<s0, d0, s1, d1>>
        q == CASE t = 0 -> <<"a0", "b0", "b0", "a0">>  [] t = 1 -> <<"a0", "b1", "b1", "a0">>
               [] t = 2 -> <<"a1", "b0", "b0", "a1">>  [] t = 3 -> <<"a1", "b1", "b1", "a1">>
               [] t = 4 -> <<"a0", "b0", "b0", "a0">>  [] t = 5 -> <<"a0", "b1", "b1", "a0">>
               [] t = 6 -> <<"a0", "b0", "b0", "a1">>  [] t = 7 -> <<"a0", "b1", "b1", "a1">>
               [] t = 8 -> <<"a1", "b0", "b0", "a0">>  [] t = 9 -> <<"a1", "b1", "b1", "a0">>
               [] t = 10 -> <<"a0", "b1", "b0", "a0">> [] t = 11 -> <<"a1", "b1", "b0", "a1">>
               [] t = 12 -> <<"a0", "b0", "b1", "a0">> [] t = 13 -> <<"a1", "b0", "b1", "a1">>
               [] OTHER -> <<"a0", "a0", "a0", "a0">>
        s1 == IF t = 4 THEN SatSetAccFlag(SatSetAccFlag(s, "a1", A("b1")), "b1", A("a1"))
              ELSE IF t = 5 THEN SatSetAccFlag(SatSetAccFlag(s, "a1", A("b0")), "b0", A("a1"))
              ELSE s
        u == GetAcc(s1, q[1])  v == GetAcc(s1, q[3])
    IN  IF t >= 14 THEN Fail(s, "assert") ELSE SatSetAccFlag(SatSetAccFlag(s1, q[2], u), q[4], v)

Norm(s, g) ==
    IF s.r.fn # 0 THEN s ELSE
    LET an == AXn(g, 1)
        v  == GetAcc(s, an)
        ov == B2I(Bit(v[3], E - 1) # Bit(v[3], E - 2))        \* value != SignExtend<39>(value)
        d  == AAdd(v, v)
        s1 == [s EXCEPT !.r.fv = ov, !.r.fvl = IF ov = 1 THEN 1 ELSE @, !.r.fc0 = d.c]
        s2 == SetAccAndFlag(s1, an, d.v)
        t  == RnAndModify(s2.r, g[2], g[3], FALSE)
    IN  [SetR(s2, t.r) EXCEPT !.r.fr = B2I(t.r.r[g[2] + 1] = 0)]

Modr1(s, unit, step, dmod, setfr) ==
    LET t == RnAndModify(s.r, unit, step, dmod) IN
    IF setfr THEN [SetR(s, t.r) EXCEPT !.r.fr = B2I(t.r.r[unit + 1] = 0)] ELSE SetR(s, t.r)
Modr2(s, g, di, dj) == IJ(s, g[1], g[2], g[3], di, dj).s

Exec(s, key, g) ==
  CASE key = "nop/" -> s
    [] key = "norm/Ax,Rn,StepZIDS" -> Norm(s, g)
    [] key = "swap/SwapType" -> Swap(s, g)
    [] key = "trap/" -> Fail(s, "unimpl")
    [] key = "alm/Alm,MemImm8,Ax" -> H_alm_mem8(s, g)
    [] key = "alm/Alm,Rn,StepZIDS,Ax" -> H_alm_rn(s, g)
    [] key = "alm/Alm,Register,Ax" -> H_alm_reg(s, g)
    [] key = "alm_r6/Alm,Ax" -> H_alm_r6(s, g)
    [] key = "alu/Alu,MemImm16,Ax" -> H_alu_mem16(s, g)
    [] key = "alu/Alu,MemR7Imm16,Ax" -> H_alu_r7i16(s, g)
    [] key = "alu/Alu,Imm16,Ax" -> H_alu_imm16(s, g)
    [] key = "alu/Alu,Imm8,Ax" -> H_alu_imm8(s, g)
    [] key = "alu/Alu,MemR7Imm7s,Ax" -> H_alu_r7i7(s, g)
    [] key = "or_/Ab,Ax,Ax" -> H_or(s, "Ab", "Ax", g)
    [] key = "or_/Ax,Bx,Ax" -> H_or(s, "Ax", "Bx", g)
    [] key = "or_/Bx,Bx,Ax" -> H_or(s, "Bx", "Bx", g)
    [] key = "and_/Ab,Ab,Ax" -> H_and(s, g)
    [] key = "alb/Alb,Imm16,MemImm8" -> H_alb_mem8(s, g)
    [] key = "alb/Alb,Imm16,Rn,StepZIDS" -> H_alb_rn(s, g)
    [] key = "alb/Alb,Imm16,Register" -> H_alb_reg(s, g)
    [] key = "alb_r6/Alb,Imm16" -> H_alb_r6(s, g)
    [] key = "alb/Alb,Imm16,SttMod" -> H_alb_sttmod(s, g)
    [] key = "add/Ab,Bx" -> AddSubTo(s, GetAcc(s, ABn(g, 1)), BXn(g, 2), FALSE)
    [] key = "add/Bx,Ax" -> AddSubTo(s, GetAcc(s, BXn(g, 1)), AXn(g, 2), FALSE)
    [] key = "add_p1/Ax" -> AddSubTo(s, P2B(s, 1), AXn(g, 1), FALSE)
    [] key = "add/Px,Bx" -> AddSubTo(s, P2B(s, g[1]), BXn(g, 2), FALSE)
    [] key = "sub/Ab,Bx" -> AddSubTo(s, GetAcc(s, ABn(g, 1)), BXn(g, 2), TRUE)
    [] key = "sub/Bx,Ax" -> AddSubTo(s, GetAcc(s, BXn(g, 1)), AXn(g, 2), TRUE)
    [] key = "sub_p1/Ax" -> AddSubTo(s, P2B(s, 1), AXn(g, 1), TRUE)
    [] key = "sub/Px,Bx" -> AddSubTo(s, P2B(s, g[1]), BXn(g, 2), TRUE)
    [] key = "app/Ab,SumBase,bool,bool,bool,bool" -> ProductSum(s, g[2], ABn(g, 1), g[3], g[4], g[5], g[6])
    [] key = "add_add/ArpRn1,ArpStep1,ArpStep1,Ab" -> H_addsub2(s, g, FALSE, FALSE)
    [] key = "add_sub/ArpRn1,ArpStep1,ArpStep1,Ab" -> H_addsub2(s, g, FALSE, TRUE)
    [] key = "sub_add/ArpRn1,ArpStep1,ArpStep1,Ab" -> H_addsub2(s, g, TRUE, FALSE)
    [] key = "sub_sub/ArpRn1,ArpStep1,ArpStep1,Ab" -> H_addsub2(s, g, TRUE, TRUE)
    [] key = "add_sub_sv/ArRn1,ArStep1,Ab" -> H_addsub_sv(s, g, FALSE)
    [] key = "sub_add_sv/ArRn1,ArStep1,Ab" -> H_addsub_sv(s, g, TRUE)
    [] key = "sub_add_i_mov_j_sv/ArpRn1,ArpStep1,ArpStep1,Ab" -> H_asm(s, g, TRUE, TRUE, FALSE)
    [] key = "sub_add_j_mov_i_sv/ArpRn1,ArpStep1,ArpStep1,Ab" -> H_asm(s, g, FALSE, TRUE, FALSE)
    [] key = "add_sub_i_mov_j/ArpRn1,ArpStep1,ArpStep1,Ab" -> H_asm(s, g, TRUE, FALSE, TRUE)
    [] key = "add_sub_j_mov_i/ArpRn1,ArpStep1,ArpStep1,Ab" -> H_asm(s, g, FALSE, FALSE, TRUE)
    [] key = "moda4/Moda4,Ax,Cond" -> Moda(s, g[1], AXn(g, 2), g[3])
    [] key = "moda3/Moda3,Bx,Cond" -> Moda(s, Moda3To4(g[1]), BXn(g, 2), g[3])
    [] key = "pacr1/Ax" -> Rnd40(s, P2B(s, 1), AXn(g, 1))
    [] key = "clr/Ab,Ab" -> DoubleClr(s, g, AZero)
    [] key = "clrr/Ab,Ab" -> DoubleClr(s, g, <<HB, 0, 0>>)
    [] key = "bkrep/Imm8,Address16" -> BlockRepeat(s, g[1], g[2] + B * ((s.r.pc \div B) % 4))
    [] key = "bkrep/Register,Address18_16,Address18_2" ->
          LET t == RegToBus(s, RN("Register", g[1]), FALSE) IN BlockRepeat(t.s, t.v, g[2] + B * g[3])
    [] key = "bkrep_r6/Address18_16,Address18_2" -> BlockRepeat(s, s.r.r[7], g[1] + B * g[2])
    [] key = "bkreprst/ArRn2" -> RestoreBkrep(s, ARu(s, g, 1))
    [] key = "bkreprst_memsp/" -> RestoreBkrep(s, 8)
    [] key = "bkrepsto/ArRn2" -> StoreBkrep(s, ARu(s, g, 1))
    [] key = "bkrepsto_memsp/" -> StoreBkrep(s, 8)
    [] key = "banke/BankFlags" -> H_banke(s, g)
    [] key = "bankr/" -> SetR(s, SwapAllArArp(s.r))
    [] key = "bankr/Ar" -> SetR(s, SwapAr(s.r, g[1]))
    [] key = "bankr/Ar,Arp" -> SetR(s, SwapArp(SwapAr(s.r, g[1]), g[2]))
    [] key = "bankr/Arp" -> SetR(s, SwapArp(s.r, g[1]))
    [] key = "bitrev/Rn" -> [s EXCEPT !.r.r[g[1] + 1] = BitReverse16(@)]
    [] key = "bitrev_dbrv/Rn" -> [s EXCEPT !.r.r[g[1] + 1] = BitReverse16(@), !.r.br[g[1] + 1] = 0]
    [] key = "bitrev_ebrv/Rn" -> [s EXCEPT !.r.r[g[1] + 1] = BitReverse16(@), !.r.br[g[1] + 1] = 1]
    [] key = "br/Address18_16,Address18_2,Cond" -> IF CondPass(s.r, g[3]) THEN SetPCLH(s, g[1], g[2]) ELSE s
    [] key = "brr/RelAddr7,Cond" -> IF CondPass(s.r, g[2]) THEN [RelPC(s, g[1]) EXCEPT !.idle = IF g[1] = 127 THEN TRUE ELSE @] ELSE s
    [] key = "break_/" -> IF s.r.lp = 0 THEN Fail(s, "assert") ELSE [s EXCEPT !.r.bcn = @ - 1, !.r.lp = IF s.r.bcn - 1 # 0 THEN 1 ELSE 0]
    [] key = "call/Address18_16,Address18_2,Cond" -> IF CondPass(s.r, g[3]) THEN SetPCLH(PushPC(s), g[1], g[2]) ELSE s
    [] key = "calla/Axl" -> SetPC(PushPC(s), GetAcc(s, RN("Axl", g[1]))[1])
    [] key = "calla/Ax" -> LET v == GetAcc(s, AXn(g, 1)) IN SetPC(PushPC(s), v[1] + B * (v[2] % 4))
    [] key = "callr/RelAddr7,Cond" -> IF CondPass(s.r, g[2]) THEN RelPC(PushPC(s), g[1]) ELSE s
    [] key = "cntx_s/" -> ContextStore(s)
    [] key = "cntx_r/" -> ContextRestore(s)
    [] key = "ret/Cond" -> IF CondPass(s.r, g[1]) THEN PopPC(s) ELSE s
    [] key = "retd/" -> Fail(s, "unimpl")
    [] key = "reti/Cond" -> IF CondPass(s.r, g[1]) THEN [PopPC(s) EXCEPT !.r.ie = 1] ELSE s
    [] key = "retic/Cond" -> IF CondPass(s.r, g[1]) THEN ContextRestore([PopPC(s) EXCEPT !.r.ie = 1]) ELSE s
    [] key = "retid/" -> Fail(s, "assert")
    [] key = "retidc/" -> Fail(s, "assert")
    [] key = "rets/Imm8" -> [PopPC(s) EXCEPT !.r.sp = (@ + g[1]) % B]
    [] key = "load_ps/Imm2" -> [s EXCEPT !.r.ps[1] = g[1]]
    [] key = "load_stepi/Imm7s" -> [s EXCEPT !.r.stepi = g[1]]
    [] key = "load_stepj/Imm7s" -> [s EXCEPT !.r.stepj = g[1]]
    [] key = "load_page/Imm8" -> [s EXCEPT !.r.page = g[1]]
    [] key = "load_modi/Imm9" -> [s EXCEPT !.r.modi = g[1]]
    [] key = "load_modj/Imm9" -> [s EXCEPT !.r.modj = g[1]]
    [] key = "load_movpd/Imm2" -> [s EXCEPT !.r.pcmhi = g[1]]
    [] key = "load_ps01/Imm4" -> [s EXCEPT !.r.ps = <<g[1] % 4, g[1] \div 4>>]
    [] key = "push/Imm16" -> Push16(s, g[1])
    [] key = "push/Register" -> LET t == RegToBus(s, RN("Register", g[1]), TRUE) IN Push16(t.s, t.v)
    [] key = "push/Abe" -> LET t == GetSatAcc(s, RN("Abe", g[1])) IN Push16(t.s, t.v[3] + (IF ASign(t.v) = 1 THEN B - EB ELSE 0))
    [] key = "push/ArArpSttMod" -> LET t == RegToBus(s, RN("ArArpSttMod", g[1]), FALSE) IN Push16(t.s, t.v)
    [] key = "push_prpage/" -> Push16(s, s.r.prpage)
    [] key = "push/Px" -> LET v == P2B(s, g[1]) IN Push16(Push16(s, v[1]), v[2])
    [] key = "push_r6/" -> Push16(s, s.r.r[7])
    [] key = "push_repc/" -> Push16(s, s.r.repc)
    [] key = "push_x0/" -> Push16(s, s.r.x[1])
    [] key = "push_x1/" -> Push16(s, s.r.x[2])
    [] key = "push_y1/" -> Push16(s, s.r.y[2])
    [] key = "pusha/Ax" -> LET t == GetSatAcc(s, AXn(g, 1)) IN Push16(Push16(t.s, t.v[1]), t.v[2])
    [] key = "pusha/Bx" -> LET t == GetSatAcc(s, BXn(g, 1)) IN Push16(Push16(t.s, t.v[1]), t.v[2])
    [] key = "pop/Register" -> LET t == Pop16(s) IN RegFromBus(t.s, RN("Register", g[1]), t.v)
    [] key = "pop/Abe" -> LET t == Pop16(s)  n == RN("Abe", g[1])  a == GetAcc(t.s, n)
                          IN  SetAccAndFlag(t.s, n, <<a[1], a[2], t.v % EB>>)
    [] key = "pop/ArArpSttMod" -> LET t == Pop16(s) IN RegFromBus(t.s, RN("ArArpSttMod", g[1]), t.v)
    [] key = "pop/Bx" -> LET t == Pop16(s) IN RegFromBus(t.s, BXn(g, 1), t.v)
    [] key = "pop_prpage/" -> LET t == Pop16(s) IN [t.s EXCEPT !.r.prpage = t.v % 16]
    [] key = "pop/Px" -> LET t1 == Pop16(s)  t2 == Pop16(t1.s) IN PFromBus(t2.s, g[1], t2.v, t1.v)
    [] key = "pop_r6/" -> LET t == Pop16(s) IN [t.s EXCEPT !.r.r[7] = t.v]
    [] key = "pop_repc/" -> LET t == Pop16(s) IN [t.s EXCEPT !.r.repc = t.v]
    [] key = "pop_x0/" -> LET t == Pop16(s) IN SetX(t.s, 0, t.v)
    [] key = "pop_x1/" -> LET t == Pop16(s) IN SetX(t.s, 1, t.v)
    [] key = "pop_y1/" -> LET t == Pop16(s) IN SetY(t.s, 1, t.v)
    [] key = "popa/Ab" -> LET t1 == Pop16(s)  t2 == Pop16(t1.s) IN SetAccAndFlag(t2.s, ABn(g, 1), FromS32(t2.v, t1.v))
    [] key = "rep/Imm8" -> [s EXCEPT !.r.repc = g[1], !.r.rep = 1]
    [] key = "rep/Register" -> LET t == RegToBus(s, RN("Register", g[1]), FALSE) IN [t.s EXCEPT !.r.repc = t.v, !.r.rep = 1]
    [] key = "rep_r6/" -> [s EXCEPT !.r.repc = s.r.r[7], !.r.rep = 1]
    [] key = "shfc/Ab,Ab,Cond" -> IF CondPass(s.r, g[3]) THEN ShiftBus(s, GetAcc(s, ABn(g, 1)), s.r.sv, ABn(g, 2)) ELSE s
    [] key = "shfi/Ab,Ab,Imm6s" -> ShiftBus(s, GetAcc(s, ABn(g, 1)), Sx(g[3], 6), ABn(g, 2))
    [] key = "tst4b/ArRn2,ArStep2" ->
          LET m == AM(s, ARu(s, g, 1), ARs(s, g, 2), FALSE)  t == LD(m.s, m.a)  b == Bit(t.v, s.r.a0[1] % 16)
          IN  [t.s EXCEPT !.r.fz = b, !.r.fc0 = b]
    [] key = "tst4b/ArRn2,ArStep2,Ax" ->
          LET a  == s.r.a0
              s1 == ShiftBus(s, a, s.r.sv, AXn(g, 3))
              s2 == [s1 EXCEPT !.r.fc1 = s1.r.fc0, !.r.fv = s.r.fv, !.r.fvl = s.r.fvl, !.r.fm = s.r.fm, !.r.fn = s.r.fn, !.r.fe = s.r.fe]
              m  == AM(s2, ARu(s2, g, 1), ARs(s2, g, 2), FALSE)
              t  == LD(m.s, m.a)
              b  == Bit(t.v, a[1] % 16)
          IN  [t.s EXCEPT !.r.fz = b, !.r.fc0 = b]
    [] key = "tstb/MemImm8,Imm4" -> LET t == LD(s, MemImm8Addr(s, g[1])) IN [t.s EXCEPT !.r.fz = Bit(t.v, g[2])]
    [] key = "tstb/Rn,StepZIDS,Imm4" -> LET m == AM(s, g[1], g[2], FALSE)  t == LD(m.s, m.a) IN [t.s EXCEPT !.r.fz = Bit(t.v, g[3])]
    [] key = "tstb/Register,Imm4" -> LET t == RegToBus(s, RN("Register", g[1]), FALSE) IN [t.s EXCEPT !.r.fz = Bit(t.v, g[2])]
    [] key = "tstb_r6/Imm4" -> [s EXCEPT !.r.fz = Bit(s.r.r[7], g[1])]
    [] key = "tstb/SttMod,Imm16" -> LET t == RegToBus(s, RN("SttMod", g[1]), FALSE)
                                    IN  [t.s EXCEPT !.r.fz = IF g[2] < 16 THEN Bit(t.v, g[2]) ELSE 0]
    [] key = "dint/" -> [s EXCEPT !.r.ie = 0]
    [] key = "eint/" -> [s EXCEPT !.r.ie = 1]
    [] key = "mul/Mul3,Rn,StepZIDS,Imm16,Ax" ->
          LET m == AM(s, g[2], g[3], FALSE)  t == LD(m.s, m.a) IN MulGeneric(SetX(SetY(t.s, 0, t.v), 0, g[4]), g[1], AXn(g, 5))
    [] key = "mul_y0/Mul3,Rn,StepZIDS,Ax" ->
          LET m == AM(s, g[2], g[3], FALSE)  t == LD(m.s, m.a) IN MulGeneric(SetX(t.s, 0, t.v), g[1], AXn(g, 4))
    [] key = "mul_y0/Mul3,Register,Ax" ->
          LET t == RegToBus(s, RN("Register", g[2]), FALSE) IN MulGeneric(SetX(t.s, 0, t.v), g[1], AXn(g, 3))
    [] key = "mul/Mul3,R45,StepZIDS,R0123,StepZIDS,Ax" ->
          LET my == AM(s, g[2] + 4, g[3], FALSE)  mx == AM(my.s, g[4], g[5], FALSE)
              ty == LD(mx.s, my.a)  tx == LD(ty.s, mx.a)
          IN  MulGeneric(SetX(SetY(tx.s, 0, ty.v), 0, tx.v), g[1], AXn(g, 6))
    [] key = "mul_y0_r6/Mul3,Ax" -> MulGeneric(SetX(s, 0, s.r.r[7]), g[1], AXn(g, 2))
    [] key = "mul_y0/Mul2,MemImm8,Ax" -> LET t == LD(s, MemImm8Addr(s, g[2])) IN MulGeneric(SetX(t.s, 0, t.v), Mul2To3(g[1]), AXn(g, 3))
    [] key = "mpyi/Imm8s" -> DoMul(SetX(s, 0, Sx(g[1], 8)), 0, TRUE, TRUE)
    [] key = "msu/R45,StepZIDS,R0123,StepZIDS,Ax" ->
          LET my == AM(s, g[1] + 4, g[2], FALSE)  mx == AM(my.s, g[3], g[4], FALSE)
              s1 == AccPlusP(mx.s, AXn(g, 5), 0, TRUE)
              ty == LD(s1, my.a)  tx == LD(ty.s, mx.a)
          IN  DoMul(SetX(SetY(tx.s, 0, ty.v), 0, tx.v), 0, TRUE, TRUE)
    [] key = "msu/Rn,StepZIDS,Imm16,Ax" ->
          LET my == AM(s, g[1], g[2], FALSE)
              s1 == AccPlusP(my.s, AXn(g, 4), 0, TRUE)
              ty == LD(s1, my.a)
          IN  DoMul(SetX(SetY(ty.s, 0, ty.v), 0, g[3]), 0, TRUE, TRUE)
    [] key = "msusu/ArRn2,ArStep2,Ax" ->
          LET m == AM(s, ARu(s, g, 1), ARs(s, g, 2), FALSE)
              s1 == AccPlusP(m.s, AXn(g, 3), 0, TRUE)
              t == LD(s1, m.a)
          IN  DoMul(SetX(t.s, 0, t.v), 0, FALSE, TRUE)
    [] key = "mac_x1to0/Ax" -> LET s1 == AccPlusP(s, AXn(g, 1), 0, FALSE) IN DoMul(SetX(s1, 0, s1.r.x[2]), 0, TRUE, TRUE)
    [] key = "mac1/ArpRn1,ArpStep1,ArpStep1,Ax" ->
          LET p == IJ(s, g[1], g[2], g[3], FALSE, FALSE)
              s1 == AccPlusP(p.s, AXn(g, 4), 1, FALSE)
              ti == LD(s1, p.ai)  tj == LD(ti.s, p.aj)
          IN  DoMul(SetY(SetX(tj.s, 1, ti.v), 1, tj.v), 1, TRUE, TRUE)
    [] key = "modr/Rn,StepZIDS" -> Modr1(s, g[1], g[2], FALSE, TRUE)
    [] key = "modr_dmod/Rn,StepZIDS" -> Modr1(s, g[1], g[2], TRUE, TRUE)
    [] key = "modr_i2/Rn" -> Modr1(s, g[1], 4, FALSE, TRUE)
    [] key = "modr_i2_dmod/Rn" -> Modr1(s, g[1], 4, TRUE, TRUE)
    [] key = "modr_d2/Rn" -> Modr1(s, g[1], 5, FALSE, TRUE)
    [] key = "modr_d2_dmod/Rn" -> Modr1(s, g[1], 5, TRUE, TRUE)
    [] key = "modr_eemod/ArpRn2,ArpStep2,ArpStep2" -> Modr2(s, g, FALSE, FALSE)
    [] key = "modr_edmod/ArpRn2,ArpStep2,ArpStep2" -> Modr2(s, g, FALSE, TRUE)
    [] key = "modr_demod/ArpRn2,ArpStep2,ArpStep2" -> Modr2(s, g, TRUE, FALSE)
    [] key = "modr_ddmod/ArpRn2,ArpStep2,ArpStep2" -> Modr2(s, g, TRUE, TRUE)
    [] key = "movd/R0123,StepZIDS,R45,StepZIDS" ->
          LET ms == AM(s, g[1], g[2], FALSE)  md == AM(ms.s, g[3] + 4, g[4], FALSE)  t == LD(md.s, ms.a)
          IN  PWrite(t.s, md.a + B * md.s.r.pcmhi, t.v)
    [] key = "movp/Axl,Register" ->
          LET a == GetAcc(s, RN("Axl", g[1]))[1] + B * s.r.pcmhi IN RegFromBus(PRead(s, a), RN("Register", g[2]), PVal(s, a))
    [] key = "movp/Ax,Register" ->
          LET v == GetAcc(s, AXn(g, 1))  a == v[1] + B * (v[2] % 4) IN RegFromBus(PRead(s, a), RN("Register", g[2]), PVal(s, a))
    [] key = "movp/Rn,StepZIDS,R0123,StepZIDS" ->
          LET ms == AM(s, g[1], g[2], FALSE)  md == AM(ms.s, g[3], g[4], FALSE)  a == ms.a + B * md.s.r.pcmhi
          IN  DWrite(PRead(md.s, a), md.a, PVal(md.s, a))
    [] key = "movpdw/Ax" ->
          LET v == GetAcc(s, AXn(g, 1))  a == v[1] + B * (v[2] % 4)
              s1 == PRead(s, a)  s2 == PRead(s1, a + 1)
          IN  IF s2.out # "ok" THEN s2 ELSE SetPCLH(s2, PVal(s1, a + 1), PVal(s, a))
    [] key = "mov/Ab,Ab" -> SatSetAccFlag(s, ABn(g, 2), GetAcc(s, ABn(g, 1)))
    [] key = "mov_dvm/Abl" -> Fail(s, "assert")
    [] key = "mov_dvm_to/Ab" -> Fail(s, "assert")
    [] key = "mov_x0/Abl" -> LET t == RegToBus(s, RN("Abl", g[1]), TRUE) IN SetX(t.s, 0, t.v)
    [] key = "mov_x1/Abl" -> LET t == RegToBus(s, RN("Abl", g[1]), TRUE) IN SetX(t.s, 1, t.v)
    [] key = "mov_y1/Abl" -> LET t == RegToBus(s, RN("Abl", g[1]), TRUE) IN SetY(t.s, 1, t.v)
    [] key = "mov/Ablh,MemImm8" -> MovRegToMem(s, RN("Ablh", g[1]), TRUE, MemImm8Addr(s, g[2]))
    [] key = "mov/Axl,MemImm16" -> MovRegToMem(s, RN("Axl", g[1]), TRUE, g[2])
    [] key = "mov/Axl,MemR7Imm16" -> MovRegToMem(s, RN("Axl", g[1]), TRUE, MemR7Imm16Addr(s, g[2]))
    [] key = "mov/Axl,MemR7Imm7s" -> MovRegToMem(s, RN("Axl", g[1]), TRUE, MemR7Imm7sAddr(s, g[2]))
    [] key = "mov/MemImm16,Ax" -> MovMemToReg(s, g[1], AXn(g, 2))
    [] key = "mov/MemImm8,Ab" -> MovMemToReg(s, MemImm8Addr(s, g[1]), ABn(g, 2))
    [] key = "mov/MemImm8,Ablh" -> MovMemToReg(s, MemImm8Addr(s, g[1]), RN("Ablh", g[2]))
    [] key = "mov_eu/MemImm8,Axh" ->
          LET t == LD(s, MemImm8Addr(s, g[1]))  n == RN("Axh", g[2])  a == GetAcc(t.s, n)
          IN  SetAccAndFlag(t.s, n, <<0, t.v, a[3]>>)
    [] key = "mov/MemImm8,RnOld" -> MovMemToReg(s, MemImm8Addr(s, g[1]), RN("RnOld", g[2]))
    [] key = "mov_sv/MemImm8" -> LET t == LD(s, MemImm8Addr(s, g[1])) IN [t.s EXCEPT !.r.sv = t.v]
    [] key = "mov_icr_to/Ab" -> RegFromBus(s, ABn(g, 1), PGet(s.r, "icr"))
    [] key = "mov/Imm16,Bx" -> RegFromBus(s, BXn(g, 2), g[1])
    [] key = "mov/Imm16,Register" -> RegFromBus(s, RN("Register", g[2]), g[1])
    [] key = "mov_icr/Imm5" -> LET v == PGet(s.r, "icr") IN SetR(s, PSet(s.r, "icr", (v - (v % 32)) + g[1]))
    [] key = "mov/Imm8s,Axh" -> RegFromBus(s, RN("Axh", g[2]), Sx(g[1], 8))
    [] key = "mov/Imm8s,RnOld" -> RegFromBus(s, RN("RnOld", g[2]), Sx(g[1], 8))
    [] key = "mov_sv/Imm8s" -> [s EXCEPT !.r.sv = Sx(g[1], 8)]
    [] key = "mov/Imm8,Axl" -> RegFromBus(s, RN("Axl", g[2]), g[1])
    [] key = "mov_ext0/Imm8s" -> [s EXCEPT !.r.ext[1] = Sx(g[1], 8)]
    [] key = "mov_ext1/Imm8s" -> [s EXCEPT !.r.ext[2] = Sx(g[1], 8)]
    [] key = "mov_ext2/Imm8s" -> [s EXCEPT !.r.ext[3] = Sx(g[1], 8)]
    [] key = "mov_ext3/Imm8s" -> [s EXCEPT !.r.ext[4] = Sx(g[1], 8)]
    [] key = "mov/MemR7Imm16,Ax" -> MovMemToReg(s, MemR7Imm16Addr(s, g[1]), AXn(g, 2))
    [] key = "mov/MemR7Imm7s,Ax" -> MovMemToReg(s, MemR7Imm7sAddr(s, g[1]), AXn(g, 2))
    [] key = "mov/Rn,StepZIDS,Bx" -> LET m == AM(s, g[1], g[2], FALSE) IN MovMemToReg(m.s, m.a, BXn(g, 3))
    [] key = "mov/Rn,StepZIDS,Register" -> LET m == AM(s, g[1], g[2], FALSE) IN MovMemToReg(m.s, m.a, RN("Register", g[3]))
    [] key = "mov_memsp_to/Register" -> MovMemToReg(s, s.r.sp, RN("Register", g[1]))
    [] key = "mov_mixp_to/Register" -> RegFromBus(s, RN("Register", g[1]), s.r.mixp)
    [] key = "mov/RnOld,MemImm8" -> MovRegToMem(s, RN("RnOld", g[1]), FALSE, MemImm8Addr(s, g[2]))
    [] key = "mov_icr/Register" -> LET t == RegToBus(s, RN("Register", g[1]), TRUE) IN SetR(t.s, PSet(t.s.r, "icr", t.v))
    [] key = "mov_mixp/Register" -> LET t == RegToBus(s, RN("Register", g[1]), TRUE) IN [t.s EXCEPT !.r.mixp = t.v]
    [] key = "mov/Register,Rn,StepZIDS" ->
          LET t == RegToBus(s, RN("Register", g[1]), TRUE)  m == AM(t.s, g[2], g[3], FALSE) IN DWrite(m.s, m.a, t.v)
    [] key = "mov/Register,Bx" -> H_mov_reg_bx(s, g)
    [] key = "mov/Register,Register" -> H_mov_reg_reg(s, g)
    [] key = "mov_repc_to/Ab" -> RegFromBus(s, ABn(g, 1), s.r.repc)
    [] key = "mov_sv_to/MemImm8" -> DWrite(s, MemImm8Addr(s, g[1]), s.r.sv)
    [] key = "mov_x0_to/Ab" -> RegFromBus(s, ABn(g, 1), s.r.x[1])
    [] key = "mov_x1_to/Ab" -> RegFromBus(s, ABn(g, 1), s.r.x[2])
    [] key = "mov_y1_to/Ab" -> RegFromBus(s, ABn(g, 1), s.r.y[2])
    [] key = "mov/Imm16,ArArp" -> RegFromBus(s, RN("ArArp", g[2]), g[1])
    [] key = "mov_r6/Imm16" -> [s EXCEPT !.r.r[7] = g[1]]
    [] key = "mov_repc/Imm16" -> [s EXCEPT !.r.repc = g[1]]
    [] key = "mov_stepi0/Imm16" -> [s EXCEPT !.r.stepi0 = g[1]]
    [] key = "mov_stepj0/Imm16" -> [s EXCEPT !.r.stepj0 = g[1]]
    [] key = "mov/Imm16,SttMod" -> RegFromBus(s, RN("SttMod", g[2]), g[1])
    [] key = "mov_prpage/Imm4" -> [s EXCEPT !.r.prpage = g[1]]
    [] key = "mov_a0h_stepi0/" -> LET t == RegToBus(s, "a0h", TRUE) IN [t.s EXCEPT !.r.stepi0 = t.v]
    [] key = "mov_a0h_stepj0/" -> LET t == RegToBus(s, "a0h", TRUE) IN [t.s EXCEPT !.r.stepj0 = t.v]
    [] key = "mov_stepi0_a0h/" -> RegFromBus(s, "a0h", s.r.stepi0)
    [] key = "mov_stepj0_a0h/" -> RegFromBus(s, "a0h", s.r.stepj0)
    [] key = "mov_prpage/Abl" -> [s EXCEPT !.r.prpage = GetAcc(s, RN("Abl", g[1]))[1] % 16]
    [] key = "mov_repc/Abl" -> LET t == RegToBus(s, RN("Abl", g[1]), TRUE) IN [t.s EXCEPT !.r.repc = t.v]
    [] key = "mov/Abl,ArArp" -> LET t == RegToBus(s, RN("Abl", g[1]), TRUE) IN RegFromBus(t.s, RN("ArArp", g[2]), t.v)
    [] key = "mov/Abl,SttMod" -> LET t == RegToBus(s, RN("Abl", g[1]), TRUE) IN RegFromBus(t.s, RN("SttMod", g[2]), t.v)
    [] key = "mov_prpage_to/Abl" -> RegFromBus(s, RN("Abl", g[1]), s.r.prpage)
    [] key = "mov_repc_to/Abl" -> RegFromBus(s, RN("Abl", g[1]), s.r.repc)
    [] key = "mov/ArArp,Abl" -> LET t == RegToBus(s, RN("ArArp", g[1]), FALSE) IN RegFromBus(t.s, RN("Abl", g[2]), t.v)
    [] key = "mov/SttMod,Abl" -> LET t == RegToBus(s, RN("SttMod", g[1]), FALSE) IN RegFromBus(t.s, RN("Abl", g[2]), t.v)
    [] key = "mov_repc_to/ArRn1,ArStep1" -> LET m == AM(s, ARu(s, g, 1), ARs(s, g, 2), FALSE) IN DWrite(m.s, m.a, s.r.repc)
    [] key = "mov/ArArp,ArRn1,ArStep1" ->
          LET m == AM(s, ARu(s, g, 2), ARs(s, g, 3), FALSE)  t == RegToBus(m.s, RN("ArArp", g[1]), FALSE) IN DWrite(t.s, m.a, t.v)
    [] key = "mov/SttMod,ArRn1,ArStep1" ->
          LET m == AM(s, ARu(s, g, 2), ARs(s, g, 3), FALSE)  t == RegToBus(m.s, RN("SttMod", g[1]), FALSE) IN DWrite(t.s, m.a, t.v)
    [] key = "mov_repc/ArRn1,ArStep1" -> LET m == AM(s, ARu(s, g, 1), ARs(s, g, 2), FALSE)  t == LD(m.s, m.a) IN [t.s EXCEPT !.r.repc = t.v]
    [] key = "mov/ArRn1,ArStep1,ArArp" -> LET m == AM(s, ARu(s, g, 1), ARs(s, g, 2), FALSE) IN MovMemToReg(m.s, m.a, RN("ArArp", g[3]))
    [] key = "mov/ArRn1,ArStep1,SttMod" -> LET m == AM(s, ARu(s, g, 1), ARs(s, g, 2), FALSE) IN MovMemToReg(m.s, m.a, RN("SttMod", g[3]))
    [] key = "mov_repc_to/MemR7Imm16" -> DWrite(s, MemR7Imm16Addr(s, g[1]), s.r.repc)
    [] key = "mov/ArArpSttMod,MemR7Imm16" -> MovRegToMem(s, RN("ArArpSttMod", g[1]), FALSE, MemR7Imm16Addr(s, g[2]))
    [] key = "mov_repc/MemR7Imm16" -> LET t == LD(s, MemR7Imm16Addr(s, g[1])) IN [t.s EXCEPT !.r.repc = t.v]
    [] key = "mov/MemR7Imm16,ArArpSttMod" -> MovMemToReg(s, MemR7Imm16Addr(s, g[1]), RN("ArArpSttMod", g[2]))
    [] key = "mov_pc/Ax" -> LET v == GetAcc(s, AXn(g, 1)) IN SetPCLH(s, v[1], v[2])
    [] key = "mov_pc/Bx" -> LET v == GetAcc(s, BXn(g, 1)) IN SetPCLH(s, v[1], v[2])
    [] key = "mov_mixp_to/Bx" -> RegFromBus(s, BXn(g, 1), s.r.mixp)
    [] key = "mov_mixp_r6/" -> [s EXCEPT !.r.r[7] = s.r.mixp]
    [] key = "mov_p0h_to/Bx" -> RegFromBus(s, BXn(g, 1), P2B(s, 0)[2])
    [] key = "mov_p0h_r6/" -> [s EXCEPT !.r.r[7] = P2B(s, 0)[2]]
    [] key = "mov_p0h_to/Register" -> RegFromBus(s, RN("Register", g[1]), P2B(s, 0)[2])
    [] key = "mov_p0/Ab" -> LET t == GetSatAcc(s, ABn(g, 1)) IN PFromBus(t.s, 0, t.v[1], t.v[2])
    [] key = "mov_p1_to/Ab" -> SatSetAccFlag(s, ABn(g, 1), P2B(s, 1))
    [] key = "mov2/Px,ArRn2,ArStep2" ->
          LET p == IF g[1] = 0 THEN s.r.p0 ELSE s.r.p1 IN Store2(s, ARu(s, g, 2), ARs(s, g, 3), ARo(s, g, 3), p[2], p[1])
    [] key = "mov2s/Px,ArRn2,ArStep2" ->
          LET v == P2B(s, g[1]) IN Store2(s, ARu(s, g, 2), ARs(s, g, 3), ARo(s, g, 3), v[2], v[1])
    [] key = "mov2/ArRn2,ArStep2,Px" ->
          LET t == Load2(s, ARu(s, g, 1), ARs(s, g, 2), ARo(s, g, 2)) IN IF t.ok THEN PFromBus(t.s, g[3], t.lo, t.hi) ELSE t.s
    [] key = "mova/Ab,ArRn2,ArStep2" ->
          LET t == GetSatAcc(s, ABn(g, 1)) IN Store2(t.s, ARu(s, g, 2), ARs(s, g, 3), ARo(s, g, 3), t.v[2], t.v[1])
    [] key = "mova/ArRn2,ArStep2,Ab" ->
          LET t == Load2(s, ARu(s, g, 1), ARs(s, g, 2), ARo(s, g, 2)) IN IF t.ok THEN SatSetAccFlag(t.s, ABn(g, 3), FromS32(t.lo, t.hi)) ELSE t.s
    [] key = "mov_r6_to/Bx" -> RegFromBus(s, BXn(g, 1), s.r.r[7])
    [] key = "mov_r6_mixp/" -> [s EXCEPT !.r.mixp = s.r.r[7]]
    [] key = "mov_r6_to/Register" -> RegFromBus(s, RN("Register", g[1]), s.r.r[7])
    [] key = "mov_r6/Register" -> LET t == RegToBus(s, RN("Register", g[1]), TRUE) IN [t.s EXCEPT !.r.r[7] = t.v]
    [] key = "mov_memsp_r6/" -> LET t == LD(s, s.r.sp) IN [t.s EXCEPT !.r.r[7] = t.v]
    [] key = "mov_r6_to/Rn,StepZIDS" -> LET m == AM(s, g[1], g[2], FALSE) IN DWrite(m.s, m.a, s.r.r[7])
    [] key = "mov_r6/Rn,StepZIDS" -> LET m == AM(s, g[1], g[2], FALSE)  t == LD(m.s, m.a) IN [t.s EXCEPT !.r.r[7] = t.v]
    [] key = "movs/MemImm8,Ab" -> LET t == LD(s, MemImm8Addr(s, g[1])) IN ShiftBus(t.s, FromS16(t.v), t.s.r.sv, ABn(g, 2))
    [] key = "movs/Rn,StepZIDS,Ab" -> LET m == AM(s, g[1], g[2], FALSE)  t == LD(m.s, m.a) IN ShiftBus(t.s, FromS16(t.v), t.s.r.sv, ABn(g, 3))
    [] key = "movs/Register,Ab" -> LET t == RegToBus(s, RN("Register", g[1]), FALSE) IN ShiftBus(t.s, FromS16(t.v), t.s.r.sv, ABn(g, 2))
    [] key = "movs_r6_to/Ax" -> ShiftBus(s, FromS16(s.r.r[7]), s.r.sv, AXn(g, 1))
    [] key = "movsi/RnOld,Ab,Imm5s" -> LET t == RegToBus(s, RN("RnOld", g[1]), FALSE) IN ShiftBus(t.s, FromS16(t.v), Sx(g[3], 5), ABn(g, 2))
    [] key = "mov2_axh_m_y0_m/Axh,ArRn2,ArStep2" ->
          Store2(s, ARu(s, g, 2), ARs(s, g, 3), ARo(s, g, 3), GetSatAccNoFlag(s, RN("Axh", g[1]))[2], s.r.y[1])
    [] key = "mov2_ax_mij/Ab,ArpRn1,ArpStep1,ArpStep1" ->
          LET p == IJ(s, g[2], g[3], g[4], FALSE, FALSE)  v == GetSatAccNoFlag(p.s, ABn(g, 1)) IN DWrite(DWrite(p.s, p.ai, v[2]), p.aj, v[1])
    [] key = "mov2_ax_mji/Ab,ArpRn1,ArpStep1,ArpStep1" ->
          LET p == IJ(s, g[2], g[3], g[4], FALSE, FALSE)  v == GetSatAccNoFlag(p.s, ABn(g, 1)) IN DWrite(DWrite(p.s, p.aj, v[2]), p.ai, v[1])
    [] key = "mov2_mij_ax/ArpRn1,ArpStep1,ArpStep1,Ab" ->
          LET p == IJ(s, g[1], g[2], g[3], FALSE, FALSE)  th == LD(p.s, p.ai)  tl == LD(th.s, p.aj)
          IN  SetAcc(tl.s, ABn(g, 4), FromS32(tl.v, th.v))
    [] key = "mov2_mji_ax/ArpRn1,ArpStep1,ArpStep1,Ab" ->
          LET p == IJ(s, g[1], g[2], g[3], FALSE, FALSE)  tl == LD(p.s, p.ai)  th == LD(tl.s, p.aj)
          IN  SetAcc(th.s, ABn(g, 4), FromS32(tl.v, th.v))
    [] key = "mov2_abh_m/Abh,Abh,ArRn1,ArStep1" ->
          Store2(s, ARu(s, g, 3), ARs(s, g, 4), ARo(s, g, 4), GetSatAccNoFlag(s, RN("Abh", g[1]))[2], GetSatAccNoFlag(s, RN("Abh", g[2]))[2])
    [] key = "exchange_iaj/Axh,ArpRn2,ArpStep2,ArpStep2" ->
          LET n == RN("Axh", g[1])  p == IJ(s, g[2], g[3], g[4], FALSE, FALSE)
              s1 == DWrite(p.s, p.aj, GetSatAccNoFlag(p.s, n)[2])  t == LD(s1, p.ai)
          IN  SetAcc(t.s, n, FromHi16(t.v))
    [] key = "exchange_riaj/Axh,ArpRn2,ArpStep2,ArpStep2" ->
          LET n == RN("Axh", g[1])  p == IJ(s, g[2], g[3], g[4], FALSE, FALSE)
              s1 == DWrite(p.s, p.aj, GetSatAccNoFlag(p.s, n)[2])  t == LD(s1, p.ai)
          IN  SetAcc(t.s, n, <<HB, t.v, SxE(t.v)>>)
    [] key = "exchange_jai/Axh,ArpRn2,ArpStep2,ArpStep2" ->
          LET n == RN("Axh", g[1])  p == IJ(s, g[2], g[3], g[4], FALSE, FALSE)
              s1 == DWrite(p.s, p.ai, GetSatAccNoFlag(p.s, n)[2])  t == LD(s1, p.aj)
          IN  SetAcc(t.s, n, FromHi16(t.v))
    [] key = "exchange_rjai/Axh,ArpRn2,ArpStep2,ArpStep2" ->
          LET n == RN("Axh", g[1])  p == IJ(s, g[2], g[3], g[4], FALSE, FALSE)
              s1 == DWrite(p.s, p.ai, GetSatAccNoFlag(p.s, n)[2])  t == LD(s1, p.aj)
          IN  SetAcc(t.s, n, <<HB, t.v, SxE(t.v)>>)
    [] key = "movr/ArRn2,ArStep2,Abh" -> LET m == AM(s, ARu(s, g, 1), ARs(s, g, 2), FALSE)  t == LD(m.s, m.a) IN Rnd40(t.s, FromHi16(t.v), RN("Abh", g[3]))
    [] key = "movr/Rn,StepZIDS,Ax" -> LET m == AM(s, g[1], g[2], FALSE)  t == LD(m.s, m.a) IN Movr16(t.s, t.v, AXn(g, 3))
    [] key = "movr/Register,Ax" ->
          LET n == RN("Register", g[1]) IN
          IF n \in {"a0", "a1"} THEN Rnd40(s, GetAcc(s, n), AXn(g, 2))
          ELSE IF n = "p" THEN Rnd40(s, P2B(s, 0), AXn(g, 2))
          ELSE LET t == RegToBus(s, n, FALSE) IN Movr16(t.s, t.v, AXn(g, 2))
    [] key = "movr/Bx,Ax" -> Rnd40(s, GetAcc(s, BXn(g, 1)), AXn(g, 2))
    [] key = "movr_r6_to/Ax" -> Movr16(s, s.r.r[7], AXn(g, 1))
    [] key = "exp/Bx" -> ExpOf(s, GetAcc(s, BXn(g, 1)))
    [] key = "exp/Bx,Ax" -> ExpStore(ExpOf(s, GetAcc(s, BXn(g, 1))), AXn(g, 2))
    [] key = "exp/Rn,StepZIDS" -> ExpRn(s, g)
    [] key = "exp/Rn,StepZIDS,Ax" -> ExpStore(ExpRn(s, g), AXn(g, 3))
    [] key = "exp/Register" -> ExpReg(s, RN("Register", g[1]))
    [] key = "exp/Register,Ax" -> ExpStore(ExpReg(s, RN("Register", g[1])), AXn(g, 2))
    [] key = "exp_r6/" -> ExpOf(s, FromHi16(s.r.r[7]))
    [] key = "exp_r6/Ax" -> ExpStore(ExpOf(s, FromHi16(s.r.r[7])), AXn(g, 1))
    [] key = "lim/Ax,Ax" -> LET t == Saturate(GetAcc(s, AXn(g, 1)))
                            IN  SetAccAndFlag(IF t.lim = 1 THEN [s EXCEPT !.r.flm = 1] ELSE s, AXn(g, 2), t.v)
    [] key = "vtrclr0/" -> [s EXCEPT !.r.vtr0 = 0]
    [] key = "vtrclr1/" -> [s EXCEPT !.r.vtr1 = 0]
    [] key = "vtrclr/" -> [s EXCEPT !.r.vtr0 = 0, !.r.vtr1 = 0]
    [] key = "vtrmov0/Axl" -> SatSetAccFlag(s, RN("Axl", g[1]), <<s.r.vtr0, 0, 0>>)
    [] key = "vtrmov1/Axl" -> SatSetAccFlag(s, RN("Axl", g[1]), <<s.r.vtr1, 0, 0>>)
    [] key = "vtrmov/Axl" -> SatSetAccFlag(s, RN("Axl", g[1]), <<(s.r.vtr1 - (s.r.vtr1 % 256)) + (s.r.vtr0 \div 256), 0, 0>>)
    [] key = "vtrshr/" -> Vtrshr(s)
    [] key = "clrp0/" -> PFromBus(s, 0, 0, 0)
    [] key = "clrp1/" -> PFromBus(s, 1, 0, 0)
    [] key = "clrp/" -> PFromBus(PFromBus(s, 0, 0, 0), 1, 0, 0)
    [] key = "max_ge/Ax,StepZIDS" -> MinMax(s, g, "ge", FALSE)
    [] key = "max_gt/Ax,StepZIDS" -> MinMax(s, g, "gt", FALSE)
    [] key = "min_le/Ax,StepZIDS" -> MinMax(s, g, "le", FALSE)
    [] key = "min_lt/Ax,StepZIDS" -> MinMax(s, g, "lt", FALSE)
    [] key = "max_ge_r0/Ax,StepZIDS" -> MinMax(s, g, "ge", TRUE)
    [] key = "max_gt_r0/Ax,StepZIDS" -> MinMax(s, g, "gt", TRUE)
    [] key = "min_le_r0/Ax,StepZIDS" -> MinMax(s, g, "le", TRUE)
    [] key = "min_lt_r0/Ax,StepZIDS" -> MinMax(s, g, "lt", TRUE)
    [] key = "divs/MemImm8,Ax" -> H_divs(s, g)
    [] key = "sqr_sqr_add3/Ab,Ab" ->
          LET v == GetAcc(s, ABn(g, 1))
              s1 == ProductSum(s, 1, ABn(g, 2), 0, 0, 0, 0)
          IN  DoMul(DoMul([s1 EXCEPT !.r.x = <<v[2], v[1]>>, !.r.y = <<v[2], v[1]>>], 0, TRUE, TRUE), 1, TRUE, TRUE)
    [] key = "sqr_sqr_add3/ArRn2,ArStep2,Ab" ->
          LET s1 == ProductSum(s, 1, ABn(g, 3), 0, 0, 0, 0)
              u  == ARu(s1, g, 1)
              m  == AM(s1, u, ARs(s1, g, 2), FALSE)
              o  == OA(m.s, u, m.a, ARo(s1, g, 2), FALSE)
              t0 == LD(m.s, m.a)  t1 == LD(t0.s, o.a)
          IN  IF ~ o.ok THEN Fail(m.s, "unimpl")
              ELSE DoMul(DoMul([t1.s EXCEPT !.r.x = <<t0.v, t1.v>>, !.r.y = <<t0.v, t1.v>>], 0, TRUE, TRUE), 1, TRUE, TRUE)
    [] key = "sqr_mpysu_add3a/Ab,Ab" ->
          LET v == GetAcc(s, ABn(g, 1))
              s1 == ProductSum(s, 1, ABn(g, 2), 0, 0, 0, 1)
          IN  DoMul(DoMul([s1 EXCEPT !.r.x = <<v[2], v[1]>>, !.r.y = <<v[2], v[2]>>], 0, TRUE, TRUE), 1, FALSE, TRUE)
    [] key = "cmp/Ax,Bx" -> CmpTo(s, GetAcc(s, AXn(g, 1)), GetAcc(s, BXn(g, 2)))
    [] key = "cmp_b0_b1/" -> CmpTo(s, s.r.b0, s.r.b1)
    [] key = "cmp_b1_b0/" -> CmpTo(s, s.r.b1, s.r.b0)
    [] key = "cmp/Bx,Ax" -> CmpTo(s, GetAcc(s, BXn(g, 1)), GetAcc(s, AXn(g, 2)))
    [] key = "cmp_p1_to/Ax" -> CmpTo(s, P2B(s, 1), GetAcc(s, AXn(g, 1)))
    [] key = "max2_vtr/Ax" -> MinMaxVtr(s, AXn(g, 1), CounterAcc(AXn(g, 1)), FALSE)
    [] key = "min2_vtr/Ax" -> MinMaxVtr(s, AXn(g, 1), CounterAcc(AXn(g, 1)), TRUE)
    [] key = "max2_vtr/Ax,Bx" -> MinMaxVtr(s, AXn(g, 1), BXn(g, 2), FALSE)
    [] key = "min2_vtr/Ax,Bx" -> MinMaxVtr(s, AXn(g, 1), BXn(g, 2), TRUE)
    [] key = "max2_vtr_movl/Ax,Bx,ArRn1,ArStep1" -> VtrMov(s, AXn(g, 1), BXn(g, 2), FALSE, g, 3, FALSE)
    [] key = "max2_vtr_movh/Ax,Bx,ArRn1,ArStep1" -> VtrMov(s, AXn(g, 1), BXn(g, 2), FALSE, g, 3, TRUE)
    [] key = "max2_vtr_movl/Bx,Ax,ArRn1,ArStep1" -> VtrMov(s, BXn(g, 1), AXn(g, 2), FALSE, g, 3, FALSE)
    [] key = "max2_vtr_movh/Bx,Ax,ArRn1,ArStep1" -> VtrMov(s, BXn(g, 1), AXn(g, 2), FALSE, g, 3, TRUE)
    [] key = "min2_vtr_movl/Ax,Bx,ArRn1,ArStep1" -> VtrMov(s, AXn(g, 1), BXn(g, 2), TRUE, g, 3, FALSE)
    [] key = "min2_vtr_movh/Ax,Bx,ArRn1,ArStep1" -> VtrMov(s, AXn(g, 1), BXn(g, 2), TRUE, g, 3, TRUE)
    [] key = "min2_vtr_movl/Bx,Ax,ArRn1,ArStep1" -> VtrMov(s, BXn(g, 1), AXn(g, 2), TRUE, g, 3, FALSE)
    [] key = "min2_vtr_movh/Bx,Ax,ArRn1,ArStep1" -> VtrMov(s, BXn(g, 1), AXn(g, 2), TRUE, g, 3, TRUE)
    [] key = "max2_vtr_movij/Ax,Bx,ArpRn1,ArpStep1,ArpStep1" -> VtrMovIJ(s, g, FALSE, TRUE)
    [] key = "max2_vtr_movji/Ax,Bx,ArpRn1,ArpStep1,ArpStep1" -> VtrMovIJ(s, g, FALSE, FALSE)
    [] key = "min2_vtr_movij/Ax,Bx,ArpRn1,ArpStep1,ArpStep1" -> VtrMovIJ(s, g, TRUE, TRUE)
    [] key = "min2_vtr_movji/Ax,Bx,ArpRn1,ArpStep1,ArpStep1" -> VtrMovIJ(s, g, TRUE, FALSE)
    [] key \in {"mov_sv_app/ArRn1,ArStep1,Bx,SumBase,bool,bool,bool,bool", "mov_sv_app/ArRn1,ArStep1Alt,Bx,SumBase,bool,bool,bool,bool"} ->
          LET si == IF key = "mov_sv_app/ArRn1,ArStep1,Bx,SumBase,bool,bool,bool,bool" THEN g[2] ELSE g[2] + 2
              m  == AM(s, ARu(s, g, 1), ArStep(s.r, si), FALSE)
              t  == LD(m.s, m.a)
          IN  ProductSum([t.s EXCEPT !.r.sv = t.v], g[4], BXn(g, 3), g[5], g[6], g[7], g[8])
    [] key = "cbs/Axh,CbsCond" ->
          LET n == RN("Axh", g[1]) IN CodebookSearch(s, GetAcc(s, n)[2], GetAcc(s, CounterAcc(n))[2], s.r.r[1], g[2])
    [] key = "cbs/Axh,Bxh,CbsCond" ->
          CodebookSearch(s, GetAcc(s, RN("Axh", g[1]))[2], GetAcc(s, RN("Bxh", g[2]))[2], s.r.r[1], g[3])
    [] key = "cbs/ArpRn1,ArpStep1,ArpStep1,CbsCond" ->
          LET p == IJ(s, g[1], g[2], g[3], FALSE, FALSE)  tu == LD(p.s, p.ai)  tv == LD(tu.s, p.aj)
          IN  CodebookSearch(tv.s, tu.v, tv.v, p.rawi, g[4])
    [] key = "mma/RegName,bool,bool,bool,bool,SumBase,bool,bool,bool,bool" ->
          MmaTail(SwapX(MmaSum(s, RegNameOf(g[1]), g, 2)), g, 2)
    [] key \in {"mma/ArpRn1,ArpStep1,ArpStep1,bool,bool,RegName,bool,bool,bool,bool,SumBase,bool,bool,bool,bool",
                "mma/ArpRn2,ArpStep2,ArpStep2,bool,bool,RegName,bool,bool,bool,bool,SumBase,bool,bool,bool,bool"} ->
          LET s1 == MmaSum(s, RegNameOf(g[6]), g, 7)
              di == g[4] = 1  dj == g[5] = 1
              p  == IJ(s1, g[1], g[2], g[3], di, dj)
              tx == LD(p.s, p.ai)  ty == LD(tx.s, p.aj)
              oi == OA(ty.s, p.ui, p.ai, ArpOffsetI(s1.r, g[2]), di)
              tx1 == LD(ty.s, oi.a)
              oj == OA(tx1.s, p.uj, p.aj, ArpOffsetJ(s1.r, g[3]), dj)
              ty1 == LD(tx1.s, oj.a)
          IN  IF ~ oi.ok THEN Fail(ty.s, "unimpl") ELSE IF ~ oj.ok THEN Fail(tx1.s, "unimpl")
              ELSE MmaTail([ty1.s EXCEPT !.r.x = <<tx.v, tx1.v>>, !.r.y = <<ty.v, ty1.v>>], g, 7)
    [] key = "mma_mx_xy/ArRn1,ArStep1,RegName,bool,bool,bool,bool,SumBase,bool,bool,bool,bool" ->
          LET s1 == SwapX(MmaSum(s, RegNameOf(g[3]), g, 4))
              m  == AM(s1, ARu(s1, g, 1), ARs(s1, g, 2), FALSE)  t == LD(m.s, m.a)
          IN  MmaTail(SetY(t.s, 0, t.v), g, 4)
    [] key = "mma_xy_mx/ArRn1,ArStep1,RegName,bool,bool,bool,bool,SumBase,bool,bool,bool,bool" ->
          LET s1 == SwapX(MmaSum(s, RegNameOf(g[3]), g, 4))
              m  == AM(s1, ARu(s1, g, 1), ARs(s1, g, 2), FALSE)  t == LD(m.s, m.a)
          IN  MmaTail(SetY(t.s, 1, t.v), g, 4)
    [] key = "mma_my_my/ArRn1,ArStep1,RegName,bool,bool,bool,bool,SumBase,bool,bool,bool,bool" ->
          LET s1 == MmaSum(s, RegNameOf(g[3]), g, 4)
              u  == ARu(s1, g, 1)
              m  == AM(s1, u, ARs(s1, g, 2), FALSE)
              t0 == LD(m.s, m.a)
              o  == OA(t0.s, u, m.a, ARo(s1, g, 2), FALSE)
              t1 == LD(t0.s, o.a)
          IN  IF ~ o.ok THEN Fail(t0.s, "unimpl") ELSE MmaTail([t1.s EXCEPT !.r.x = <<t0.v, t1.v>>], g, 4)
    [] key = "mma_mov/Axh,Bxh,ArRn1,ArStep1,RegName,bool,bool,bool,bool,SumBase,bool,bool,bool,bool" ->
          LET u  == ARu(s, g, 3)
              m  == AM(s, u, ARs(s, g, 4), FALSE)
              uv == GetSatAccNoFlag(m.s, RN("Axh", g[1]))[2]
              vv == GetSatAccNoFlag(m.s, RN("Bxh", g[2]))[2]
              o  == OA(m.s, u, m.a, ARo(s, g, 4), FALSE)
              s1 == DWrite(DWrite(m.s, o.a, vv), m.a, uv)
          IN  IF ~ o.ok THEN Fail(m.s, "unimpl") ELSE MmaTail(SwapX(MmaSum(s1, RegNameOf(g[5]), g, 6)), g, 6)
    [] key = "mma_mov/ArRn2,ArStep1,RegName,bool,bool,bool,bool,SumBase,bool,bool,bool,bool" ->
          LET an == RegNameOf(g[3])
              u  == ARu(s, g, 1)
              m  == AM(s, u, ARs(s, g, 2), FALSE)
              uv == GetSatAccNoFlag(m.s, an)[2]
              vv == GetSatAccNoFlag(m.s, CounterAcc(an))[2]
              o  == OA(m.s, u, m.a, ARo(s, g, 2), FALSE)
              s1 == DWrite(DWrite(m.s, o.a, vv), m.a, uv)
          IN  IF ~ o.ok THEN Fail(m.s, "unimpl") ELSE MmaTail(SwapX(MmaSum(s1, an, g, 4)), g, 4)
    [] key = "addhp/ArRn2,ArStep2,Px,Ax" ->
          LET m == AM(s, ARu(s, g, 1), ARs(s, g, 2), FALSE)  t == LD(m.s, m.a)
              r == AddSubF(t.s, <<HB, t.v, SxE(t.v)>>, P2B(t.s, g[3]), FALSE)
          IN  SatSetAccFlag(r.s, AXn(g, 4), r.v)
    [] OTHER -> Fail(s, "unmodelled")

Unmodelled == {}
=============================================================================
