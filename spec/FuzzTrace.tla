------------------------------- MODULE FuzzTrace -------------------------------
(* C18 termination / bounds clause on multi-cycle fuzz runs of a full Teakra built with ASan + UBSan         *)
(* (harness/drivers/fuzz_rec.cpp).  A run may end in exactly three ways -- Return, the documented            *)
(* unimplemented-instruction exception, a deliberate assertion -- and must not have attempted any raw        *)
(* access outside the 0x80000-byte array.  The attempted out-of-range accesses that the pinned code is known  *)
(* to make are NAMED deviations (KnownOob): they keep the trace going so that everything else is still        *)
(* examined, and the runner reports each as a known finding.  A Fault line (signal, sanitizer abort, foreign   *)
(* exception) or an outcome outside the three has no action: the trace is rejected there.                      *)
EXTENDS Naturals, Sequences, Json, IOUtils, TLC
CONSTANT KnownOob             \* subset of {"fetch", "dma"}: out-of-range causes accepted as named deviations

Log == ndJsonDeserialize(IOEnv.TRACE)
VARIABLE vL
Rec == Log[vL]
Cause(r) == IF r.mode = "mmio" THEN "dma" ELSE "fetch"
Return        == Rec.e = "Fuzz" /\ Rec.out = "ok" /\ Rec.oob = 0
Unimplemented == Rec.e = "Fuzz" /\ Rec.out = "unimpl" /\ Rec.oob = 0
AssertAbort   == Rec.e = "Fuzz" /\ Rec.out = "assert" /\ Rec.oob = 0
OobDeviation  == Rec.e = "Fuzz" /\ Rec.out \in {"ok", "unimpl", "assert"} /\ Rec.oob > 0 /\ Cause(Rec) \in KnownOob
TraceInit == vL = 1
TraceNext == vL <= Len(Log) /\ (Return \/ Unimplemented \/ AssertAbort \/ OobDeviation) /\ vL' = vL + 1
TraceSpec == TraceInit /\ [][TraceNext]_vL
TraceAccepted == /\ PrintT(<<"TRACE_MATCHED", TLCGet("stats").diameter - 1, Len(Log)>>)
                 /\ TLCGet("stats").diameter - 1 = Len(Log)
=============================================================================
