CONSTANT W = 16
INIT InvInit
NEXT Next
INVARIANT Inv
