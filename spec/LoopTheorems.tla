----------------------------- MODULE LoopTheorems -----------------------------
(* Property layer for C09, decided on the specification's own cycle semantics (TeakCore!CoreCycle, the    *)
(* same operator the traces are validated against): concrete loop programs are generated from parameters,  *)
(* executed cycle by cycle in TLC, and compared with what the unrolled code computes.                      *)
(*   nesting depth d in 1..4, block-repeat counts c[1..d] from Counts (immediate or register form),         *)
(*   innermost body `inc a0` (optionally under a single-instruction repeat with count rp, optionally ending *)
(*   in a TWO-WORD last instruction `add #1, a1`), every level k closed by `modr r_k, +1`.                   *)
(* Expected: a0 = (rp+1) * PROD(c[k]+1) executions of the innermost instruction, r_k = PROD_{j<=k}(c[j]+1)  *)
(* iterations of level k, the program-visible loop counter counts c[d], c[d]-1, .., 0 in every pass of the  *)
(* innermost block, lp = (bcn # 0) and bcn <= 4 all along, lp = bcn = 0 and rep = 0 at the end.              *)
EXTENDS TeakCore, TLC

CONSTANTS Counts, MaxDepth, Fuel

VARIABLE vP                         \* the parameter record being checked
Params == {[d |-> d, c |-> c, reg |-> rg, two |-> tw, rp |-> rp] :
              d \in 1 .. MaxDepth, c \in [1 .. MaxDepth -> Counts], rg \in BOOLEAN, tw \in BOOLEAN, rp \in {0, 1, 2, 99}}
\* rp = 99: no repeat instruction.  Only the first d entries of c are used (the others are fixed to the first count)
CanonP(p) == \A k \in 1 .. MaxDepth : k > p.d => p.c[k] = CHOOSE x \in Counts : TRUE
Init == vP \in {p \in Params : p.d = 1 /\ CanonP(p)}
Next == vP.d = 1 /\ vP' \in {p \in Params : CanonP(p) /\ p.c[1] = vP.c[1] /\ p.reg = vP.reg /\ p.two = vP.two /\ p.rp = vP.rp}

Base == 256
\* program words, as a sequence starting at Base, and the address of each level's last instruction
\* layout: [mov #c_k, r6 ; ] bkrep (2 words) per level, then the inner body, then one modr per outer level, then nop
HeadLen(p) == IF p.reg THEN 4 ELSE 2                         \* `mov #imm, r6` is 2 words, bkrep_r6 is 2 words
InnerLen(p) == (IF p.rp # 99 THEN 1 ELSE 0) + 1 + (IF p.two THEN 2 ELSE 0)
InnerStart(p) == Base + p.d * HeadLen(p)
InnerEnd(p) == InnerStart(p) + InnerLen(p) - 1                \* address of the LAST WORD of the innermost block
\* end address operand of level k: innermost: InnerEnd; outer level k: the modr closing it
EndOf(p, k) == IF k = p.d THEN InnerEnd(p) ELSE InnerEnd(p) + (p.d - k)
Fin(p) == InnerEnd(p) + p.d                                   \* address of the final nop
ModrInc(k) == 128 + k + 8                                      \* modr r_k, +1   (0x0080 | rn | 1 << 3)

\* `mov #imm16, r6` is the dedicated row mov_r6 0x0023 (second word = imm)
HeadR(p, k) == IF p.reg THEN <<35, p.c[k], 36828, EndOf(p, k)>> ELSE <<23552 + p.c[k], EndOf(p, k)>>

RECURSIVE Heads(_, _)
Heads(p, k) == IF k > p.d THEN <<>> ELSE HeadR(p, k) \o Heads(p, k + 1)
RECURSIVE Tails(_, _)
Tails(p, k) == IF k < 1 THEN <<>> ELSE <<ModrInc(k)>> \o Tails(p, k - 1)      \* closes level k, innermost-first
Inner(p) == (IF p.rp # 99 THEN <<3072 + p.rp>> ELSE <<>>) \o <<26576>>          \* rep #rp (0x0C00) ; inc a0 (0x67D0)
            \o (IF p.two THEN <<34752, 1>> ELSE <<>>)                           \* add #1, a1 (0x87C0, imm)
Program(p) == Heads(p, 1) \o Inner(p) \o Tails(p, p.d - 1) \o <<0>>

MemOf(p) == LET w == Program(p) IN [a \in Base .. Base + Len(w) - 1 |-> w[a - Base + 1]]
Start(p) == [r |-> [ResetRegs EXCEPT !.pc = Base, !.sp = 4096], mem |-> MemOf(p), io |-> [a \in {} |-> 0], acc |-> <<>>,
             out |-> "ok", idle |-> FALSE, lat |-> <<0, 0, 0, 0>>, vaddr |-> 0, vctx |-> 0, miu |-> MiuReset]

\* run until the final nop is reached (or fuel runs out): [s, lcs (loop counter seen at each start of the
\* innermost instruction), ok (machine invariants held at every step)]
IncAddr(p) == InnerStart(p) + (IF p.rp # 99 THEN 1 ELSE 0)
RECURSIVE RunP(_, _, _, _, _)
RunNext(p, s1, fuel, lcs, ok) == RunP(p, s1, fuel - 1, lcs, ok)
RunP(p, s, fuel, lcs, ok) ==
    IF s.r.pc = Fin(p) \/ fuel = 0 \/ s.out # "ok" THEN [s |-> s, lcs |-> lcs, ok |-> ok, fuel |-> fuel]
    ELSE RunNext(p, CoreCycle([s EXCEPT !.acc = <<>>]), fuel,
                 IF s.r.pc = IncAddr(p) /\ s.r.rep = 0 THEN Append(lcs, s.r.bk[IF s.r.lp # 0 THEN s.r.bcn ELSE 1].lc) ELSE lcs,
                 ok /\ s.r.bcn <= 4 /\ ((s.r.lp # 0) <=> (s.r.bcn # 0)))

RECURSIVE Prod(_, _)
Prod(p, k) == IF k = 0 THEN 1 ELSE (p.c[k] + 1) * Prod(p, k - 1)
RECURSIVE CountDown(_)
CountDown(n) == IF n = 0 THEN <<0>> ELSE <<n>> \o CountDown(n - 1)
RECURSIVE Repeat(_, _)
Repeat(sq, n) == IF n = 0 THEN <<>> ELSE sq \o Repeat(sq, n - 1)

LoopsExecuteCountPlusOne ==
    LET p == vP
        t == RunP(p, Start(p), Fuel, <<>>, TRUE)
        reps == IF p.rp = 99 THEN 1 ELSE p.rp + 1
    IN  /\ t.s.out = "ok" /\ t.s.r.pc = Fin(p) /\ t.ok
        /\ t.s.r.a0 = <<(reps * Prod(p, p.d)) % 65536, 0, 0>>                     \* innermost instruction: count+1 times per level
        /\ p.two => t.s.r.a1 = <<Prod(p, p.d) % 65536, 0, 0>>                      \* two-word last instruction once per iteration
        /\ \A k \in 1 .. p.d - 1 : t.s.r.r[k + 1] = Prod(p, k)                     \* level k body: count+1 times
        /\ t.s.r.lp = 0 /\ t.s.r.bcn = 0 /\ t.s.r.rep = 0                          \* in-loop state clear on exit
        /\ p.rp = 99 => t.lcs = Repeat(CountDown(p.c[p.d]), Prod(p, p.d - 1))       \* lc counts down once per iteration
=============================================================================
