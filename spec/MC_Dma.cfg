\* C13 quick, DSP <-> DSP: sizes 0..3 (all 64 triples), 80 step-triple pairs over {0,1,2,-1},
\* word/double-word, overlapping bases; counters and cursor limbs wrap at B = 4
CONSTANTS
  B = 4
  BB = 16
  HB = 2
  FixedD8 = FALSE
  RealMap = FALSE
  DataHi = 0
  RangeLo = 0
  RangeHi = 0
  SizeSet <- Sizes03
  StepPairs <- QuickPairs
  ModeSet <- DspModes
  BaseSet <- DspBasesQuick
  AhbmSet <- NoAhbm
SPECIFICATION Spec
\* size0 = B-1 in double-word mode never terminates in the unrepaired code (defect D8, see
\* MC_Dma_pinned.cfg); the property layer is evaluated with that trigger excluded
CONSTRAINT NotD8
INVARIANTS TypeOK CursorsClosedForm Terminates OneIrq NoOob DataCopied FootprintOnlyDst AccessesClosedForm ElementOrder
CHECK_DEADLOCK FALSE
