------------------------------- MODULE TeakCore -------------------------------
(* One processor cycle exactly as Interpreter::Run executes it (as-is layer): latch the interrupt       *)
(* signals, fetch (one or two words), single-instruction repeat bookkeeping, block-repeat bookkeeping,   *)
(* run the handler, interrupt entry (priority int0 > int1 > int2 > vectored, context store), and the     *)
(* peripheral tick (composed in System.tla).                                                             *)
EXTENDS TeakDispatch, TeakDecode

\* for (i < 3) if (interrupt_pending[i].exchange(false)) ip[i] = 1;  same for the vectored latch
Latch(s) ==
    [s EXCEPT !.r.ip = <<IF s.lat[1] = 1 THEN 1 ELSE s.r.ip[1], IF s.lat[2] = 1 THEN 1 ELSE s.r.ip[2],
                         IF s.lat[3] = 1 THEN 1 ELSE s.r.ip[3]>>,
              !.r.ipv = IF s.lat[4] = 1 THEN 1 ELSE @,
              !.lat = <<0, 0, 0, 0>>]

\* physical fetch address: pc | prpage << 18 (not masked by the code; prpage # 0 leaves the array)
FetchAddr(s) == IF s.r.prpage = 0 THEN s.r.pc ELSE s.r.pc + 262144 * (s.r.prpage % 4096)

\* [op, x, need, s]: the fetched words, and the state after the fetch (pc advanced)
Fetch(s) ==
    LET a0 == FetchAddr(s)
        op == PVal(s, a0)
        s1 == [PRead(s, a0) EXCEPT !.r.pc = @ + 1]
        need == NeedExp(op)
        a1 == FetchAddr(s1)
        x  == IF need THEN PVal(s1, a1) ELSE 0
        s2 == IF need THEN [PRead(s1, a1) EXCEPT !.r.pc = @ + 1] ELSE s1
    IN  [op |-> op, x |-> x, need |-> need, s |-> s2]

RepStep(s) == IF s.r.rep # 0
              THEN (IF s.r.repc = 0 THEN [s EXCEPT !.r.rep = 0] ELSE [s EXCEPT !.r.repc = @ - 1, !.r.pc = @ - 1])
              ELSE s

LoopStep(s) ==
    IF s.r.lp # 0 /\ s.r.bcn \in 1 .. 4 /\ s.r.bk[s.r.bcn].end + 1 = s.r.pc
    THEN (IF s.r.bk[s.r.bcn].lc = 0
          THEN [s EXCEPT !.r.bcn = @ - 1, !.r.lp = IF s.r.bcn - 1 # 0 THEN 1 ELSE 0]
          ELSE [s EXCEPT !.r.bk[s.r.bcn].lc = @ - 1, !.r.pc = s.r.bk[s.r.bcn].start])
    ELSE s

\* interrupt entry at the instruction boundary
Enter(s) ==
    IF s.r.ie # 0 /\ s.r.rep = 0
    THEN LET C == {i \in 1 .. 3 : s.r.im[i] # 0 /\ s.r.ip[i] # 0} IN
         IF C # {}
         THEN LET i  == CHOOSE i \in C : \A j \in C : i <= j
                  s1 == PushPC([s EXCEPT !.r.ip[i] = 0, !.r.ie = 0])
                  s2 == [s1 EXCEPT !.r.pc = 6 + 8 * (i - 1), !.idle = FALSE]
              IN  IF s.r.ic[i] # 0 THEN ContextStore(s2) ELSE s2
         ELSE IF s.r.imv # 0 /\ s.r.ipv # 0
         THEN LET s1 == PushPC([s EXCEPT !.r.ipv = 0, !.r.ie = 0])
                  s2 == [s1 EXCEPT !.r.pc = s.vaddr, !.idle = FALSE]
              IN  IF s.vctx # 0 THEN ContextStore(s2) ELSE s2
         ELSE s
    ELSE s

\* the part of a cycle that belongs to the core (everything but the peripheral tick)
CoreCycle(s) ==
    LET s0 == Latch(s)
        f  == Fetch(s0)
        i  == Decode(f.op)
        s1 == LoopStep(RepStep(f.s))
        s2 == IF f.s.out # "ok" THEN f.s
              ELSE IF i = 0 THEN Fail(s1, "assert")                 \* undefined(): UNREACHABLE
              ELSE Exec(s1, Rows[i].key, Args(i, f.op, f.x))
    IN  IF s2.out # "ok" THEN s2 ELSE Enter(s2)
=============================================================================
