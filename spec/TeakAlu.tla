------------------------------- MODULE TeakAlu -------------------------------
(* The arithmetic kernels of interpreter.h as pure operators on limb values (as-is layer):            *)
(* AddSub, SetAccFlag, SaturateAcc, ShiftBus40, DoMultiplication, ProductToBus40, the product-sum      *)
(* alignment, Exp.  They return records; TeakExec writes the results into the register state.          *)
(* The property layer (exactness against integer arithmetic at scaled width) is AluTheorems.tla.       *)
EXTENDS TeakBits

B2I(b) == IF b THEN 1 ELSE 0

\* Interpreter::AddSub: 40-bit a +/- b; c = bit 40 of the unsigned result, ov = signed overflow
AddSub(a, b, sub) ==
    LET r  == IF sub THEN ASub(a, b) ELSE AAdd(a, b)
        sb == IF sub THEN 1 - ASign(b) ELSE ASign(b)
    IN  [v |-> r.v, c |-> r.c, ov |-> B2I(ASign(a) = sb /\ ASign(a) # ASign(r.v))]

\* Interpreter::SetAccFlag
AccFlags(v) ==
    LET z  == B2I(v = AZero)
        e  == B2I(~ IsSx32(v))
        b31 == Bit(v[2], W - 1)
        b30 == Bit(v[2], W - 2)
    IN  [fz |-> z, fm |-> ASign(v), fe |-> e, fn |-> B2I(z = 1 \/ (e = 0 /\ b31 # b30))]

SatMax == <<B - 1, HB - 1, 0>>          \* 0x00_7FFF_FFFF
SatMin == <<0, HB, EB - 1>>             \* 0xFF_8000_0000
\* Interpreter::SaturateAcc / SaturateAccNoFlag: value and whether it was clamped
Saturate(v) == IF IsSx32(v) THEN [v |-> v, lim |-> 0]
               ELSE [v |-> IF ASign(v) = 1 THEN SatMin ELSE SatMax, lim |-> 1]

\* Interpreter::ShiftBus40.  sv is the 16-bit shift value (two's complement), smode = regs.s,
\* sata = regs.sata, fv0 = regs.fv before.  Result: value written, carry, overflow flag after, whether
\* fvl / flm get set, and the four SetAccFlag flags (computed before the saturation, as the code does).
ShiftN(value, left, n, smode, sata, fv0) ==
    LET f    == [i \in 0 .. ABITS - 1 |-> ABit(value, i)]
        top  == ABITS - 1
        big  == n >= ABITS
        \* left shift
        lfv  == IF smode # 0 THEN fv0
                ELSE IF big THEN B2I(value # AZero)
                ELSE B2I(\E i \in (top - n) .. top : f[i] # f[top])
        lval == IF big THEN AZero ELSE AFromBits([i \in 0 .. top |-> IF i >= n THEN f[i - n] ELSE 0])
        lc   == IF big \/ n = 0 THEN 0 ELSE f[ABITS - n]
        \* right shift
        rfv  == IF smode = 0 THEN 0 ELSE fv0
        rc   == IF big THEN (IF smode = 0 THEN f[top] ELSE 0) ELSE f[n - 1]
        fill == IF smode = 0 THEN f[top] ELSE 0
        rval == IF big THEN (IF fill = 1 THEN <<B - 1, B - 1, EB - 1>> ELSE AZero)
                ELSE AFromBits([i \in 0 .. top |-> IF i + n <= top THEN f[i + n] ELSE fill])
        v1   == IF left THEN lval ELSE rval
        fv1  == IF left THEN lfv ELSE rfv
        fl   == AccFlags(v1)
        clamp == smode = 0 /\ sata = 0 /\ (fv1 = 1 \/ ~ IsSx32(v1))
    IN  [v   |-> IF clamp THEN (IF f[top] = 1 THEN SatMin ELSE SatMax) ELSE v1,
         c   |-> IF left THEN lc ELSE rc,
         fv  |-> fv1,
         fvl |-> B2I(left /\ smode = 0 /\ lfv = 1),      \* fvl := 1 when set
         flm |-> B2I(clamp),                              \* flm := 1 when set
         fz |-> fl.fz, fm |-> fl.fm, fe |-> fl.fe, fn |-> fl.fn]

Shift(value, sv, smode, sata, fv0) ==
    ShiftN(value, sv < HB, IF sv < HB THEN sv ELSE B - sv, smode, sata, fv0)

\* unsigned W x W -> 2W-bit product as <<l, h>>, computed without exceeding 31 bits
UMul(x, y) == LET xl == x % EB
                  xh == x \div EB
                  t0 == xl * y
                  t1 == xh * y
                  lo == t0 + (t1 % EB) * EB
              IN  <<lo % B, (t1 \div EB + lo \div B) % B>>

\* Interpreter::DoMultiplication: the 32-bit product register and its extension bit
Multiply(x, y, xsign, ysign, hwm, unit) ==
    LET y1 == IF hwm = 1 \/ (hwm = 3 /\ unit = 0) THEN y \div EB
              ELSE IF hwm = 2 \/ (hwm = 3 /\ unit = 1) THEN y % EB ELSE y
        u  == UMul(x, y1)
        c1 == IF xsign /\ x >= HB THEN y1 ELSE 0          \* two's complement corrections mod 2^32
        c2 == IF ysign /\ y1 >= HB THEN x ELSE 0
        h  == (u[2] + 2 * B - c1 - c2) % B
    IN  [p |-> <<u[1], h>>, pe |-> IF xsign \/ ysign THEN h \div HB ELSE 0]

\* Interpreter::ProductToBus40: the 33-bit product (pe:p) shifted per ps and sign-extended to 40 bits
ProductToBus(p, pe, ps) ==
    CASE ps = 0 -> <<p[1], p[2], IF pe = 1 THEN EB - 1 ELSE 0>>
      [] ps = 1 -> LET h == p[2] \div 2 + pe * HB IN <<p[1] \div 2 + (p[2] % 2) * HB, h, SxE(h)>>
      [] ps = 2 -> <<(2 * p[1]) % B, (2 * p[2] + p[1] \div HB) % B, p[2] \div HB + pe * (EB - 2)>>
      [] ps = 3 -> <<(4 * p[1]) % B, (4 * p[2] + p[1] \div (B \div 4)) % B, p[2] \div (B \div 4) + pe * (EB - 4)>>

\* SignExtend<24>(value >> 16): the "aligned" product of the product-sum instructions
AlignDown(v) == <<v[2], v[3] + (IF ASign(v) = 1 THEN B - EB ELSE 0), IF ASign(v) = 1 THEN EB - 1 ELSE 0>>

\* Interpreter::Exp: redundant sign bits minus 8, as a 16-bit value
RECURSIVE ExpCount(_, _, _)
ExpCount(v, bit, sign) == IF ABit(v, bit) # sign THEN 0
                          ELSE IF bit = 0 THEN 1 ELSE 1 + ExpCount(v, bit - 1, sign)
Exp(v) == (ExpCount(v, ABITS - 2, ASign(v)) + B - E) % B

\* Interpreter::ProductSum core: base +/- a +/- b with the combined carry / overflow rule.
\* Result: value, fc0, fv, and whether either partial sum overflowed (sets fvl)
ProductSumCore(c, a, b, sub0, sub1) ==
    LET r1 == AddSub(c, a, sub0)
        r2 == AddSub(r1.v, b, sub1)
        same == sub0 = sub1
    IN  [v |-> r2.v,
         c |-> IF same THEN B2I(r1.c = 1 \/ r2.c = 1) ELSE B2I(r1.c # r2.c),
         ov |-> IF same THEN B2I(r1.ov = 1 \/ r2.ov = 1) ELSE B2I(r1.ov # r2.ov),
         anyov |-> B2I(r1.ov = 1 \/ r2.ov = 1)]
=============================================================================
