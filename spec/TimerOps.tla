----------------------------- MODULE TimerOps -----------------------------
(* One XpertTeak timer (src/timer.cpp, src/timer.h), as the code has it       *)
(* (as-is layer: one operator per public entry point of class Timer), next to *)
(* the properties that C15 states (property layer).                           *)
(*                                                                            *)
(* The timer state is one record                                              *)
(*   c  counter  <<hi,lo>>        s  start value <<start_high,start_low>>     *)
(*   m  count mode 0 Single 1 AutoRestart 2 FreeRunning 3 EventCount          *)
(*   p  pause bit   u update_mmio bit   mi  MMIO mirror <<counter_high,low>>  *)
(*   sc scale (Tick asserts scale = 0)                                        *)
(* and every operator returns [t |-> next state, irq |-> handler calls,       *)
(* out |-> "ok" | "assert"].                                                  *)
EXTENDS Naturals, Sequences, TLC, Wide

CONSTANT FixedSkipZero   \* TRUE: Skip(0) returns early (the repaired code); FALSE: as pinned

Modes == 0..3
Single == 0  Auto == 1  Free == 2  Event == 3

TimerState == [c : WideSet, s : WideSet, m : Modes, p : 0..1, u : 0..1, mi : WideSet, sc : {0}]

ResetState == [c |-> WZero, s |-> WZero, m |-> Single, p |-> 0, u |-> 0, mi |-> WZero, sc |-> 0]

Ok(t, n)  == [t |-> t, irq |-> n, out |-> "ok"]
Abort(t)  == [t |-> t, irq |-> 0, out |-> "assert"]

\* Timer::UpdateMMIO
Upd(t) == IF t.u # 0 THEN [t EXCEPT !.mi = t.c] ELSE t

\* Timer::Restart
RestartOp(t) ==
    IF t.m > 3 THEN Abort(t)                       \* ASSERT(count_mode < 4): the MMIO field is 3 bits wide
    ELSE IF t.m # Free THEN Ok(Upd([t EXCEPT !.c = t.s]), 0) ELSE Ok(t, 0)

\* Timer::Tick
TickOp(t) ==
    IF t.m > 3 \/ t.sc # 0 THEN Abort(t)
    ELSE IF t.p # 0 \/ t.m = Event THEN Ok(t, 0)
    ELSE IF WIsZero(t.c)
         THEN IF t.m = Auto THEN RestartOp(t)
              ELSE IF t.m = Free THEN Ok(Upd([t EXCEPT !.c = WMax]), 0)
              ELSE Ok(t, 0)
         ELSE LET t1 == Upd([t EXCEPT !.c = WDec(t.c)])
              IN  Ok(t1, IF WIsZero(t1.c) THEN 1 ELSE 0)

\* Timer::TickEvent
TickEventOp(t) ==
    IF t.p # 0 \/ t.m # Event \/ WIsZero(t.c) THEN Ok(t, 0)
    ELSE LET t1 == Upd([t EXCEPT !.c = WDec(t.c)])
         IN  Ok(t1, IF WIsZero(t1.c) THEN 1 ELSE 0)

\* Timer::GetMaxSkip.  INF stands for CoreTiming::Callbacks::Infinity: <<B,0>> = B*B, one more than
\* any wide value, so the limb comparisons order it above every counter.
INF == <<B, 0>>
Horizon(t) ==
    IF t.p # 0 \/ t.m = Event THEN INF
    ELSE IF WIsZero(t.c)
         THEN IF t.m = Auto THEN t.s
              ELSE IF t.m = Free THEN WMax
              ELSE INF
         ELSE WDec(t.c)

WithinHorizon(t, k) == WLeq(k, Horizon(t))

\* Timer::Skip (k is a wide value; CoreTiming never passes more than the horizon)
SkipOp(t, k) ==
    IF FixedSkipZero /\ WIsZero(k) THEN Ok(t, 0)
    ELSE IF t.p # 0 \/ t.m = Event THEN Ok(t, 0)
    ELSE IF WIsZero(t.c)
         THEN IF t.m \notin {Auto, Free} THEN Ok(t, 0)
              ELSE LET reset == IF t.m = Auto THEN t.s ELSE WMax
                   IN  IF WLt(reset, k) THEN Abort(t)
                       ELSE Ok(Upd([t EXCEPT !.c = WSub(reset, WSub(k, WOne))]), 0)
         ELSE IF ~ WLt(k, t.c) THEN Abort(t)
              ELSE Ok(Upd([t EXCEPT !.c = WSub(t.c, k)]), 0)

\* MMIO / field writes (mmio.cpp binds these as plain storage)
SetMode(t, v)   == Ok([t EXCEPT !.m = v], 0)
SetPause(t, v)  == Ok([t EXCEPT !.p = v], 0)
SetUpd(t, v)    == Ok([t EXCEPT !.u = v], 0)
SetStart(t, v)  == Ok([t EXCEPT !.s = v], 0)
SetMirror(t, v) == Ok([t EXCEPT !.mi = v], 0)
ResetOp(t)      == Ok(ResetState, 0)
=============================================================================
