CONSTANTS SemW = 16  MaxDepth = 4  FixedReentry = FALSE
SPECIFICATION TraceSpec
INVARIANTS FireOnlyWhenSet
POSTCONDITION TraceAccepted
CHECK_DEADLOCK FALSE
