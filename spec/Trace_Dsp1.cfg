SPECIFICATION TraceSpec
POSTCONDITION TraceAccepted
CHECK_DEADLOCK FALSE
