\* C13 thorough, external side(s): unit 8/16/32 x burst 1/4/8, 52 step-triple pairs over {0,1,2,4,-1},
\* sizes 0..3, aligned/unaligned/overlapping bases, all six space x mode combinations; B = 8
CONSTANTS
  B = 8
  BB = 64
  HB = 2
  FixedD8 = FALSE
  RealMap = FALSE
  DataHi = 0
  RangeLo = 0
  RangeHi = 0
  SizeSet <- Sizes03
  StepPairs <- ExtPairs
  ModeSet <- ExtModes
  BaseSet <- ExtBases3
  AhbmSet <- AhbmNat
SPECIFICATION Spec
\* size0 = B-1 in double-word mode never terminates in the unrepaired code (defect D8, see
\* MC_Dma_pinned.cfg); the property layer is evaluated with that trigger excluded
CONSTRAINT NotD8
INVARIANTS TypeOK CursorsClosedForm Terminates OneIrq NoOob DataCopied FootprintOnlyDst AccessesClosedForm ElementOrder
CHECK_DEADLOCK FALSE
