\* C13 thorough, DSP <-> DSP: sizes 0..3 (64 triples) x ALL 4096 pairs of step triples over {0,1,2,-1}
\* x word/double-word x source before/after the destination; B = 4
CONSTANTS
  B = 4
  BB = 16
  HB = 2
  FixedD8 = FALSE
  RealMap = FALSE
  DataHi = 0
  RangeLo = 0
  RangeHi = 0
  SizeSet <- Sizes03
  StepPairs <- FullPairs
  ModeSet <- DspModes
  BaseSet <- DspBases2
  AhbmSet <- NoAhbm
SPECIFICATION Spec
\* size0 = B-1 in double-word mode never terminates in the unrepaired code (defect D8, see
\* MC_Dma_pinned.cfg); the property layer is evaluated with that trigger excluded
CONSTRAINT NotD8
INVARIANTS TypeOK CursorsClosedForm Terminates OneIrq NoOob DataCopied FootprintOnlyDst AccessesClosedForm ElementOrder
CHECK_DEADLOCK FALSE
