------------------------------- MODULE TvReplay -------------------------------
(* C01, specification -> implementation, through the repository's OWN verifier (src/test_verifier).          *)
(* Each line is a test case of the project's hardware-test generator (GenerateTestCasesToFile): opcode, second *)
(* word and the `before` state exactly as the file carries it (accumulators cut into 16/16/8-bit limbs by the  *)
(* reader; the two memory windows are re-filled with WinVal, a formula both sides know, instead of being       *)
(* shipped).  The specification loads the case the way test_verifier/main.cpp does -- Reset, plain fields, then *)
(* the fourteen status/configuration words through the bit-field views (TeakRegs!PSet, in the verifier's        *)
(* order), program at 0 -- runs ONE CoreCycle and PRINTS the state test_verifier compares: accumulators,        *)
(* products, r, x, y, stepi0/stepj0/mixp/sv/repc/lc, the fourteen words read back through PGet, and every      *)
(* write inside the windows.  tools/tv_pack.py packs that as the `after` state of a TestCase file and the      *)
(* repository's test_verifier binary, built from the working tree, must pass every case (and must fail exactly  *)
(* the cases of a second file in which one compared field of the predicted state was altered).                 *)
EXTENDS TeakCore, Json, IOUtils, TLC

Log == ndJsonDeserialize(IOEnv.TRACE)
VARIABLE vL
Rec == Log[vL]
EmptyIo == [o \in {} |-> 0]

WinX == 25600      \* TestSpaceX = 0x6400
WinY == 52224      \* TestSpaceY = 0xCC00
WinN == 512
WinVal(a, i) == ((a % 65536) * 251 + (i % 65536) * 7919 + 4660) % 65536
WinCells == (DataBase + WinX .. DataBase + WinX + WinN - 1) \cup (DataBase + WinY .. DataBase + WinY + WinN - 1)

WordOrder == <<"cfgi", "cfgj", "stt0", "stt1", "stt2", "mod0", "mod1", "mod2", "ar0", "ar1", "arp0", "arp1", "arp2", "arp3">>
RECURSIVE SetWords(_, _, _)
SetWords(r, ws, j) == IF j > Len(WordOrder) THEN r ELSE SetWords(PSet(r, WordOrder[j], ws[j]), ws, j + 1)

\* regs.Reset(); regs.a = ...; ...; regs.Lc() = lc (lp is 0 after Reset: frame 0); then the words
LoadRegs(c) ==
    LET r0 == [ResetRegs EXCEPT !.a0 = c.a[1], !.a1 = c.a[2], !.b0 = c.b[1], !.b1 = c.b[2], !.p0 = c.p[1], !.p1 = c.p[2],
                                !.r = c.r, !.x = c.xr, !.y = c.yr, !.stepi0 = c.s[1], !.stepj0 = c.s[2], !.mixp = c.s[3],
                                !.sv = c.s[4], !.repc = c.s[5], !.bk[1].lc = c.s[6]]
    IN  SetWords(r0, c.w, 1)

Start(c) == [r |-> LoadRegs(c),
             mem |-> [ph \in WinCells \cup {0, 1} |-> IF ph = 0 THEN c.op ELSE IF ph = 1 THEN c.e ELSE WinVal(ph - DataBase, c.i)],
             io |-> EmptyIo, acc |-> <<>>, out |-> "ok", idle |-> FALSE,
             lat |-> <<0, 0, 0, 0>>, vaddr |-> 0, vctx |-> 0, miu |-> MiuReset]

Lc(r) == IF r.lp # 0 THEN r.bk[r.bcn].lc ELSE r.bk[1].lc
Writes(acc) == SelectSeq(acc, LAMBDA e : e[2] = 1)
After(c) ==
    LET s1 == CoreCycle(Start(c)) IN
    <<"AFTER", c.i, s1.out, s1.r.a0, s1.r.a1, s1.r.b0, s1.r.b1, s1.r.p0, s1.r.p1, s1.r.r, s1.r.x, s1.r.y,
      <<s1.r.stepi0, s1.r.stepj0, s1.r.mixp, s1.r.sv, s1.r.repc, Lc(s1.r)>>,
      [j \in 1 .. Len(WordOrder) |-> PGet(s1.r, WordOrder[j])],
      [j \in 1 .. Len(Writes(s1.acc)) |-> <<Writes(s1.acc)[j][1], Writes(s1.acc)[j][3]>>],
      \A j \in 1 .. Len(Writes(s1.acc)) : Writes(s1.acc)[j][1] \in WinCells>>

TraceInit == vL = 1
TraceNext == vL <= Len(Log) /\ PrintT(After(Rec)) /\ vL' = vL + 1
TraceSpec == TraceInit /\ [][TraceNext]_vL
TraceAccepted ==
    /\ PrintT(<<"TRACE_MATCHED", TLCGet("stats").diameter - 1, Len(Log)>>)
    /\ TLCGet("stats").diameter - 1 = Len(Log)
=============================================================================
