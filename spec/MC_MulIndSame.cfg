CONSTANTS W = 6
INIT Init
NEXT Next
INVARIANT Same
CHECK_DEADLOCK FALSE
