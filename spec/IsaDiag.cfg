CONSTANTS W = 16
INIT Init0
NEXT Next0
