----------------------------- MODULE DmaIndSame -----------------------------
(* DmaInd!Step (integers, proved by Apalache at 16/32 bits) IS Dma.tla!Step (channel record, wide cursors, repaired   *)
(* dimension-0 counter), and DmaInd's element offset IS Dma.tla!ElemAddr: compared by TLC for every channel state at    *)
(* the scaled base B = 4.                                                                                               *)
EXTENDS Naturals, Sequences, TLC
B == 4
D == INSTANCE Dma WITH B <- B, BB <- 16, HB <- 2, FixedD8 <- TRUE, RealMap <- FALSE, DataHi <- 0, RangeLo <- 0, RangeHi <- 0,
                       SizeSet <- {}, StepPairs <- {}, ModeSet <- {}, BaseSet <- {}, AhbmSet <- {},
                       ch <- 0, ah <- 0, dmem <- 0, xmem <- 0, log <- 0, irq <- 0, ticks <- 0, phase <- 0
VARIABLE vC       \* <<z0, z1, z2, dw>>
Init2 == vC \in (0 .. B - 1) \X (0 .. B - 1) \X (0 .. B - 1) \X (0 .. 1)
Next2 == UNCHANGED vC
Steps == {0, 1, 2, B - 1}
Same ==
    \A t0 \in Steps : \A t1 \in Steps : \A t2 \in Steps : \A k0 \in 0 .. B : \A k1 \in 0 .. B - 1 : \A k2 \in 0 .. B - 1 : \A cur \in {<<0, 0>>, <<0, 3>>, <<B - 1, B - 2>>, <<B - 1, B - 1>>} :
        LET chn == [sa |-> <<0, 1>>, da |-> <<0, 2>>, z0 |-> vC[1], z1 |-> vC[2], z2 |-> vC[3], ss |-> <<t0, t1, t2>>, ds |-> <<t2, t0, t1>>,
                    sp |-> 0, dp |-> 0, dw |-> vC[4], cs |-> cur, cd |-> cur, c0 |-> k0, c1 |-> k1, c2 |-> k2, run |-> 1, ach |-> 0]
            a == D!Step(chn)
            II == INSTANCE DmaInd WITH B16 <- B, sa <- 1, z0 <- vC[1], z1 <- vC[2], z2 <- vC[3], s0 <- t0, s1 <- t1, s2 <- t2, dw <- vC[4],
                                       c0 <- k0, c1 <- k1, c2 <- k2, cs <- D!WToInt(cur), vR <- 0, vP <- 0
            b == II!Step(k0, k1, k2, D!WToInt(cur))
        IN  /\ a.c0 = b.c0 /\ a.c1 = b.c1 /\ a.c2 = b.c2 /\ a.run = b.run /\ D!WToInt(a.cs) = b.cs
            /\ II!N0 = D!N0(chn) /\ II!N1 = D!N1(chn) /\ II!N2 = D!N2(chn)
=============================================================================
