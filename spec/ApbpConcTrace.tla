--------------------------- MODULE ApbpConcTrace ---------------------------
(* Trace validation for C19.  harness/drivers/conc_rec.cpp (ThreadSanitizer build) records, per run, *)
(* what each of the two real threads did, in that thread's own order and with everything it sent,    *)
(* received or was told -- and nothing about how the two threads interleaved (no clock, no shared    *)
(* counter).  TLC searches for an interleaving of the two sequences that ApbpConc explains: every    *)
(* logged call is replayed through the SAME micro-operations (ApbpConc!Do) as the model checked in   *)
(* MC_ApbpConc, at the same lock granularity (a SendData is its critical section and then, as a       *)
(* separate step that the other thread may precede, the handler; a semaphore callback runs with the  *)
(* semaphore mutex of apbp_from_dsp held, so no host-thread semaphore call can be placed inside it), *)
(* and must return exactly what the real call returned.  Steps of the real system that are not       *)
(* logged (the handler's ICU trigger, the run loop's latch exchange, the end of SetSemaphore) are     *)
(* silent steps.  The host callbacks are placed on the thread that logged them: the data callback    *)
(* and the semaphore callback of the guest's 0x0CC write on the DSP thread, the semaphore callback    *)
(* of Teakra::MaskSemaphore (fix bf7856c) on the host thread.  An interrupt entry logged by the guest (Irq) needs a latched, routed trigger        *)
(* before it; at the end of a run (Quiesce) nothing may be left latched or requested, the last value *)
(* sent on every channel must have been received, and every owed handler call must have been made.  *)
(* A run with a Race (ThreadSanitizer report), Stuck (watchdog) or Fault event has no explanation.   *)
(*                                                                                                    *)
(* One ndjson line = one run.  TRACE_MATCHED reports <<runs explained, runs in the file>>.           *)
EXTENDS ApbpConc, Json, IOUtils

Log == ndJsonDeserialize(IOEnv.TRACE)

VARIABLE tr  \* [r: run (line) number, i: [thread -> next event], ip, ie: guest interrupt state]
tvars == <<vS, vTodo, vRet, hp, dp, tr>>

ARun == Log[tr.r]
\* (a run for which one explanation has been found is not searched any further: TLCGet(1) = runs explained)
Explainable == tr.r <= Len(Log) /\ tr.r > TLCGet(1) /\ ARun.e = "Run" /\ Len(ARun.x) = 0
\* the main thread's final observations (q) are made after both threads were joined: they continue the
\* host sequence but may only be placed once the DSP thread's sequence is used up
HostEvs == ARun.h \o ARun.q
EvList(t) == IF t = "h" THEN HostEvs ELSE ARun.d
DspDone == tr.i["d"] > Len(ARun.d) /\ vTodo["d"] = <<>>
HasEv(t) == /\ tr.i[t] <= Len(EvList(t))
            /\ (t = "h" /\ tr.i[t] > Len(ARun.h)) => DspDone
Ev(t) == EvList(t)[tr.i[t]]
IsCb(e) == "cb" \in DOMAIN e
HeadKind(t) == IF vTodo[t] = <<>> THEN "none" ELSE Head(vTodo[t]).k

CbEnd == Op("CbEnd", "fd", 0, 0)
\* a callback is over when the driver says so
Fix(fol) == LET F[i \in 0..Len(fol)] ==
                  IF i = 0 THEN <<>>
                  ELSE F[i - 1] \o (IF fol[i].k \in {"CbData", "CbSem"} THEN <<fol[i], CbEnd>> ELSE <<fol[i]>>)
            IN  F[Len(fol)]

\* polls carry the logged answer in op.v
Polls == {"ReadyCS", "SemSig", "GetDisCS"}
Accept(t, op, rest, want, r) ==
    /\ op.k \in Polls => r.ret = op.v
    /\ want # -1 => r.ret = want
    /\ vS' = r.S
    /\ vRet' = [vRet EXCEPT ![t] = r.ret]
    /\ vTodo' = [vTodo EXCEPT ![t] = Fix(r.fol) \o rest]
Apply(t, op, rest, want) ==
    /\ Enabled(vS, t, op, vRet[t])
    /\ Accept(t, op, rest, want, Do(vS, t, op, vRet[t]))
Advance(t) == tr' = [tr EXCEPT !.i[t] = @ + 1]

\* logged call -> micro-operations (the first one is the call's first critical section)
OpsOf(e) ==
    CASE e.e = "Send"    -> <<Op("SendCS", "fc", e.c, e.v)>>
      [] e.e = "Empty"   -> <<Op("ReadyCS", "fc", e.c, 1 - e.r)>>
      [] e.e = "Ready"   -> <<Op("ReadyCS", "fd", e.c, e.r)>>
      [] e.e = "Recv"    -> <<Op("RecvCS", "fd", e.c, 0)>>
      [] e.e = "Peek"    -> <<Op("PeekCS", "fd", e.c, 0)>>
      [] e.e = "SemSet"  -> <<Op("SemSetA", "fc", 0, e.v)>>
      [] e.e = "SemGet"  -> <<Op("SemGet", "fd", 0, 0)>>
      [] e.e = "SemClr"  -> <<Op("SemClr", "fd", 0, e.v)>>
      [] e.e = "SemMask" -> <<Op("SemMaskA", "fd", 0, e.v)>>      \* may call the semaphore callback on this thread
      \* DSP side (guest program through the MMIO window, or the DSP thread between two Run slices)
      [] e.e = "Ack"     -> <<Op("Ack", "icu", 0, 0)>>
      [] e.e = "Stat"    -> <<Op("ReadyCS", "fd", 0, e.r[1]), Op("ReadyCS", "fd", 1, e.r[2]), Op("ReadyCS", "fd", 2, e.r[3]),
                              Op("ReadyCS", "fc", 0, e.r[4]), Op("SemSig", "fc", 0, e.r[5]),
                              Op("ReadyCS", "fc", 1, e.r[6]), Op("ReadyCS", "fc", 2, e.r[7])>>
      [] e.e = "GRecv"   -> <<Op("RecvCS", "fc", e.c, 0)>>
      [] e.e = "GSend"   -> <<Op("SendCS", "fd", e.c, e.v)>>
      [] e.e = "GSemGet" -> <<Op("SemGet", "fc", 0, 0)>>
      [] e.e = "GSemClr" -> <<Op("SemClr", "fc", 0, e.v)>>
      [] e.e = "GSemSet" -> <<Op("SemSetA", "fd", 0, e.v)>>
      [] e.e = "GSemMask" -> <<Op("SemMaskA", "fc", 0, e.v)>>     \* may trigger the ICU on the DSP thread
      [] e.e = "SetDis"  -> <<Op("SetDis", "fc", 0, e.v[1]), Op("SetDis", "fc", 1, e.v[2]), Op("SetDis", "fc", 2, e.v[3])>>
      [] e.e = "GetDis"  -> <<Op("GetDisCS", "fc", 0, (e.r \div 256) % 2), Op("GetDisCS", "fc", 1, (e.r \div 4096) % 2),
                              Op("GetDisCS", "fc", 2, (e.r \div 8192) % 2)>>
      [] e.e = "SetVec"  -> <<Op("SetVec", "icu", 0, e.v)>>
      [] e.e = "GetReq"  -> <<Op("GetReq", "icu", 0, 0)>>
DspOnly == {"Ack", "Stat", "GRecv", "GSend", "GSemGet", "GSemClr", "GSemSet", "GSemMask", "SetDis", "GetDis", "SetVec",
            "GetReq"}
Known == {"Send", "Empty", "Ready", "Recv", "Peek", "SemSet", "SemGet", "SemClr", "SemMask"} \cup DspOnly
Want(e) == CASE e.e \in {"Recv", "Peek", "SemGet", "GRecv", "GSemGet"} -> e.r
             [] e.e = "GetReq" -> IF e.r = 16384 THEN 1 ELSE IF e.r = 0 THEN 0 ELSE 2   \* only irq 14 is ever raised
             [] OTHER -> -1

\* ---- silent steps
TMicro(t) == /\ Explainable
             /\ vTodo[t] # <<>> /\ Head(vTodo[t]).k \in SilentKinds
             /\ Apply(t, Head(vTodo[t]), Tail(vTodo[t]), -1)
             /\ UNCHANGED <<hp, dp, tr>>
\* top of a cycle: interrupt_pending[0].exchange(false) -> regs.ip[0]
TExch == /\ Explainable
         /\ vTodo["d"] = <<>> /\ vS.latch
         /\ vS' = [vS EXCEPT !.latch = FALSE]
         /\ tr' = [tr EXCEPT !.ip = TRUE]
         /\ UNCHANGED <<vTodo, vRet, hp, dp>>

\* ---- logged steps
Pop(t) == vTodo' = [vTodo EXCEPT ![t] = Tail(@)]
Regular(t, e, ops) == Apply(t, Head(ops), Tail(ops) \o vTodo[t], Want(e))
Logged(t, e, hk) ==
    CASE hk = "CbData" -> /\ e.e = "CbData" /\ e.c = Head(vTodo[t]).c                 \* the handler call after Send's unlock
                          /\ t = "d"
                          /\ vS' = [vS EXCEPT !.dlv["fd"] = @ + 1]
                          /\ Pop(t) /\ Advance(t) /\ UNCHANGED vRet
      [] hk = "CbSem"  -> /\ e.e = "CbSem"                                            \* on either thread (see the header)
                          /\ Pop(t) /\ Advance(t) /\ UNCHANGED <<vS, vRet>>
      [] hk = "CbEnd" /\ e.e = "CbEnd" ->
                          /\ Pop(t) /\ Advance(t) /\ UNCHANGED <<vS, vRet>>
      [] hk \in {"none", "CbEnd"} /\ e.e = "Irq" ->                                   \* interrupt entry: ip = 0, ie = 0
                          /\ hk = "none" /\ t = "d" /\ tr.ie /\ tr.ip
                          /\ tr' = [tr EXCEPT !.ip = FALSE, !.ie = FALSE, !.i[t] = @ + 1]
                          /\ UNCHANGED <<vS, vTodo, vRet>>
      [] hk \in {"none", "CbEnd"} /\ e.e = "Reti" ->
                          /\ hk = "none" /\ t = "d" /\ ~ tr.ie
                          /\ tr' = [tr EXCEPT !.ie = TRUE, !.i[t] = @ + 1]
                          /\ UNCHANGED <<vS, vTodo, vRet>>
      [] hk \in {"none", "CbEnd"} /\ e.e = "Quiesce" ->
                          \* both threads joined: nothing latched, requested or owed; last values seen
                          /\ hk = "none" /\ t = "h"
                          /\ ~ vS.latch /\ ~ tr.ip /\ tr.ie /\ e.ip = 0 /\ e.ie = 1
                          /\ e.req = (IF vS.req THEN 16384 ELSE 0) /\ ~ vS.req
                          /\ \A o \in Objs : vS.dlv[o] = vS.own[o]
                          /\ \A o \in Objs : \A c \in Chans : vS.rcv[o][c] = vS.sn[o][c]
                          /\ \A l \in Locks : vS.held[l] = "none"
                          /\ Advance(t) /\ UNCHANGED <<vS, vTodo, vRet>>
      [] hk \in {"none", "CbEnd"} /\ e.e \in Known ->
                          /\ (hk = "CbEnd") <=> IsCb(e)          \* re-entrant calls are made inside a callback
                          /\ t = "h" => e.e \notin DspOnly
                          /\ Regular(t, e, OpsOf(e))
                          /\ Advance(t)
      [] OTHER -> FALSE
TEvent(t) == /\ Explainable /\ HasEv(t)
             /\ UNCHANGED <<hp, dp>>
             /\ Logged(t, Ev(t), HeadKind(t))

RunDone == /\ Explainable
           /\ tr.i["h"] > Len(HostEvs) /\ tr.i["d"] > Len(ARun.d)
           /\ vTodo["h"] = <<>> /\ vTodo["d"] = <<>>
Fresh(r) == [r |-> r, i |-> [t \in Threads |-> 1], ip |-> FALSE, ie |-> TRUE]
StartS(r) == InitS(TRUE, IF r <= Len(Log) /\ Log[r].e = "Run" THEN Log[r].cfg.ven = 1 ELSE FALSE)
TNextRun == /\ RunDone
            /\ TLCSet(1, IF TLCGet(1) > tr.r THEN TLCGet(1) ELSE tr.r)   \* most runs explained so far (one worker)
            /\ tr' = Fresh(tr.r + 1)
            /\ vS' = StartS(tr.r + 1)
            /\ vTodo' = [t \in Threads |-> <<>>]
            /\ vRet' = [t \in Threads |-> 0]
            /\ UNCHANGED <<hp, dp>>

TraceInit == /\ TLCSet(1, 0)
             /\ tr = Fresh(1)
             /\ vS = StartS(1)
             /\ vTodo = [t \in Threads |-> <<>>]
             /\ vRet = [t \in Threads |-> 0]
             /\ hp = 0 /\ dp = 0                     \* the program counters of the MC model are not used here
TraceNext == \/ \E t \in Threads : TMicro(t) \/ TEvent(t)
             \/ TExch
             \/ TNextRun
TraceSpec == TraceInit /\ [][TraceNext]_tvars

\* the value-order and lock-cycle properties of the property layer, on every state of every candidate
\* explanation of the observed execution (at full width: 3 channels, 16 semaphore bits, 16-bit values)
ObservedOK == ValuesOK /\ OwedSafe /\ (\A t \in Threads : Blocked(t) => vS.held[Need(t)] # t)

\* hammer episodes (harness/drivers/hammer_rec.cpp) receive blindly on purpose -- a receive that finds the mailbox never
\* written returns the reset value 0, which is no value of C19's "every value the receiver reads"; everything else stands
ObservedHammer == /\ vS.bad \subseteq {"received a value nobody sent"}
                  /\ OwedSafe /\ (\A t \in Threads : Blocked(t) => vS.held[Need(t)] # t)

TraceAccepted ==
    /\ PrintT(<<"TRACE_MATCHED", TLCGet(1), Len(Log)>>)
    /\ TLCGet(1) = Len(Log)
=============================================================================
