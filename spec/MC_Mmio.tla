------------------------------ MODULE MC_Mmio ------------------------------
(* Model checking of the C12 property layer of Mmio.tla.                      *)
(* A state is (bid, woff, wval) = (b, A, v): base state number, written offset, written value.    *)
(* Init enumerates b x A (v = NoVal), one Next                                 *)
(* step picks v; every invariant is a statement about Write(BaseOf(b), A, v)   *)
(* quantified over all other offsets B (and, for the DMA window, over all      *)
(* ordered channel pairs).  So TLC's workers share the A x v x base product    *)
(* and the per-state work is the "for all B" part.                             *)
(*   A in DocOffs (177 documented offsets) + SampleOffs (9 undocumented/odd)   *)
(*   v in {0, FFFF, 5555, AAAA, 00FF, FF00, walking 1, walking 0} + values     *)
(*        with meaning (DMA start 40C0, channel numbers, timer restart words); *)
(*        ValMode 2 adds every two-hot word and nibble patterns                *)
(*   b    1 fresh; 2, 3 two fully programmed register files (every documented   *)
(*        register written, eight distinct DMA channels, timers armed in event  *)
(*        mode with the mirror on, mailbox words pending, FIFO part-full/full,  *)
(*        window relocated, ZPAGE set); 4, 5 = Teakra::Reset applied to 2, 3    *)
(*        (raw BitFieldCell words survive next to reset fields); 6 the timers   *)
(*        the other way round, 7 = Reset applied to 6                           *)
EXTENDS Mmio, SequencesExt

CONSTANTS ValMode, NBases
VARIABLES bid, woff, wval      \* (names that no operator of Mmio.tla uses for a parameter)
vars == <<bid, woff, wval>>

NoVal == 99999
Walk1 == { 2^k : k \in 0..15 }
Walk0 == { \hFFFF - 2^k : k \in 0..15 }
Special == { \h40C0, 3, 5, 7, 8, \h060C, \h0410, \h0404, \h0608, \h00FF, \hFF00 }
TwoHot == { 2^p[1] + 2^p[2] : p \in { q \in (0..15) \X (0..15) : q[1] < q[2] } }
Values == { 0, \hFFFF, \h5555, \hAAAA } \cup Walk1 \cup Walk0 \cup Special
          \cup (IF ValMode >= 2 THEN TwoHot \cup { \h0F0F, \hF0F0, \h3333, \hCCCC, \h7FFF, \h8001, 1234, 40000 }
                ELSE {})
WriteSet == DocOffs \cup SampleOffs

-----------------------------------------------------------------------------
(* base states: programs of writes and host mailbox calls run on Fresh        *)
\* (the test on s forces TLC's lazily passed argument here, not deep inside Write)
Step(s, op) == IF s[ActiveK] > 65535 THEN s
               ELSE CASE op[1] = "W"    -> Write(s, op[2], op[3]).s
                      [] op[1] = "HS"   -> HostSend(s, op[2], op[3])
                      [] op[1] = "HSem" -> HostSetSem(s, op[3])
\* FoldLeft has a Java implementation (a loop): no TLA+ recursion, no stack depth
RunOps(s, ops, i) == FoldLeft(Step, s, ops)
SortedSeq(S) == [i \in 1..Cardinality(S) |-> CHOOSE x \in S : Cardinality({ y \in S : y < x }) = i - 1]
Pat(o, salt) == (o * 40503 + salt * 12345 + \h1357) % 65536
W(o, x) == <<"W", o, x>>
Rep(op, n) == [i \in 1..n |-> op]

BulkOffs == SortedSeq((DocOffs \cup SampleOffs) \ { \h1BE, \h20, \h22, \h30, \h32, \h112, \h11E })
WinSeq   == SortedSeq(WindowOffs)
Bulk(salt)    == [i \in 1..Len(BulkOffs) |-> W(BulkOffs[i], Pat(BulkOffs[i], salt))]
Chan(c, salt) == <<W(\h1BE, c)>> \o [i \in 1..Len(WinSeq) |-> W(WinSeq[i], Pat(WinSeq[i], salt + c))]
RECURSIVE Chans(_, _)
Chans(c, salt) == IF c > 7 THEN <<>> ELSE Chan(c, salt) \o Chans(c + 1, salt)

Ops2 == Bulk(1) \o Chans(0, 10) \o
        << W(\h1BE, 3),
           W(\h24, 1), W(\h26, 0), W(\h20, \h060C),        \* timer 0: event count, mirror on, restart: counter 1
           W(\h34, 2), W(\h36, 0), W(\h30, \h0404),        \* timer 1: auto restart, mirror off, counter 2
           <<"HS", 0, \h1111>>, <<"HS", 2, \h3333>>, <<"HSem", 0, \h00F0>> >>
        \o Rep(W(\h2C6, \h7777), 3) \o << W(\h11E, \h0800) >>
Ops3 == Bulk(2) \o Chans(0, 20) \o
        << W(\h1BE, 7),
           W(\h34, 0), W(\h36, 1), W(\h30, \h060C),        \* timer 1: event count, counter 0x10000 (limb borrow)
           W(\h24, 9), W(\h26, 9), W(\h20, \h0608),        \* timer 0: free running: RES does not reload
           W(\hCE, \h00FF), W(\hD4, \h1000),
           <<"HSem", 0, \h0F0F>>, <<"HS", 1, \h2222>>, <<"HS", 0, \h4444>> >>
        \o Rep(W(\h2C6, 1), 16) \o Rep(W(\h346, 2), 2)
        \o << W(\h112, 1), W(\h11E, \hFC00) >>

Base2 == RunOps(Fresh, Ops2, 1)
Base3 == RunOps(Fresh, Ops3, 1)
Base4 == ResetEffect(Base2)
Base5 == ResetEffect(Base3)
\* the two timers the other way round (timer 1 about to expire, timer 0 about to borrow)
\* ... and a semaphore that is pending but fully masked (unmasking it must raise IRQ 14)
Base6 == RunOps(Fresh, << W(\h34, 1), W(\h36, 0), W(\h30, \h060C), W(\h24, 0), W(\h26, 1), W(\h20, \h060C),
                          W(\hCE, \hFFFF), <<"HSem", 0, \h0101>> >>, 1)
Base7 == ResetEffect(Base6)
BaseOf(i) == CASE i = 1 -> Fresh [] i = 2 -> Base2 [] i = 3 -> Base3 [] i = 4 -> Base4 [] i = 5 -> Base5
               [] i = 6 -> Base6 [] i = 7 -> Base7
Bases == 1..NBases
\* read-back of every watched offset in every base, tabulated once
BaseReads == TLCEval([i \in 1..7 |-> TLCEval([o \in Watch |-> Read(BaseOf(i), o)])])

-----------------------------------------------------------------------------
Init == bid \in Bases /\ woff \in WriteSet /\ wval = NoVal
Next == wval = NoVal /\ wval' \in Values /\ UNCHANGED <<bid, woff>>
Spec == Init /\ [][Next]_vars

Chosen == wval # NoVal
\* written channels c of the window clause (every other channel d in 0..7 is compared)
ChanSet == IF ValMode >= 2 THEN 0..7 ELSE { 0, 3, 7 }
S0 == BaseOf(bid)

TypeOK == /\ bid \in Bases /\ woff \in WriteSet /\ wval \in Values \cup { NoVal }
          /\ Chosen => LET w == Write(S0, woff, wval) IN
                /\ w.out \in { "ok", "assert", "oob" }
                /\ w.out = "oob" <=> (woff \in WindowOffs /\ S0[ActiveK] >= 8)
                /\ Read(w.s, woff) \in 0..65535
ReadBack           == Chosen => ReadBackAt(S0, woff, wval)
NonAliasing        == Chosen => NonAliasingTab(S0, BaseReads[bid], woff, wval)
HiddenFrame        == Chosen => HiddenFrameAt(S0, woff, wval)
\* (statements about reads: evaluated once per (base, offset), on the successor with value 0 / FFFF, so that
\*  TLC's workers share them; initial states are generated by one thread)
ReadPurity         == wval = 0 => ReadPurityAt(S0, woff)
PathsAgree         == wval = \hFFFF => PathsAgreeAt(S0, woff)
ChannelIndependent == (Chosen /\ woff \in WindowOffs) => ChannelIndependentAt(S0, woff, wval, FALSE, ChanSet)
\* any value written to the channel select leaves a usable window (pinned code before the 3-bit fix:
\* MC_Mmio_pinned_chsel.cfg)
WindowReachable    == (Chosen /\ woff = \h1BE) => WindowReachableAt(S0, wval)
\* strict forms: violated by the pinned code (MC_Mmio_pinned*.cfg), hold with the Fixed* constants
ChannelIndependentStrict == (Chosen /\ woff \in WindowOffs) => ChannelIndependentAt(S0, woff, wval, TRUE, ChanSet)
\* CM = 7 is not a documented count mode; 4..6 are (watchdog modes)
NoAbort == (Chosen /\ ~ (woff \in { \h20, \h30 } /\ Field(wval, 2, 3) = 7)) => NoAbortAt(S0, woff, wval)

-----------------------------------------------------------------------------
(* facts about the table itself, evaluated once                              *)
ASSUME Cardinality(DocOffs) = 177
ASSUME \A o \in DocOffs : o % 2 = 0 /\ o < \h800
ASSUME DocMaskCovered
ASSUME \A p \in Coupled \cup ReadCoupled : p[1] \in DocOffs /\ p[2] \in DocOffs /\ p[1] # p[2]
\* read-back of a freshly constructed object (constructor defaults)
ASSUME /\ Read(Fresh, \h01A) = \hC902 /\ Read(Fresh, \h114) = \h1E20 /\ Read(Fresh, \h116) = \h1E20
       /\ Read(Fresh, \h11E) = \h8000 /\ Read(Fresh, \h18C) = \hFFFF
       /\ Read(Fresh, \h2C2) = \h10   /\ Read(Fresh, \h342) = \h10
       /\ \A o \in Watch \ { \h01A, \h114, \h116, \h11E, \h18C, \h2C2, \h342 } : Read(Fresh, o) = 0
\* the bases are what their programs intend
ASSUME /\ \A i \in 1..7 : Keys \subseteq DOMAIN BaseOf(i) /\ \A k \in DOMAIN BaseOf(i) : BaseOf(i)[k] \in 0..65535
       /\ Base2[ActiveK] = 3 /\ Base2[TK(0, "cnt_lo")] = 1 /\ Base2[TK(0, "ctr_low")] = 1 /\ Base2[TK(1, "cnt_lo")] = 2
       /\ Base2[K("bt", 0, "qlen")] = 3 /\ Base2[FC("ready0")] = 1 /\ Base2[FC("signal")] = 1
       /\ Base3[ActiveK] = 7 /\ Base3[TK(1, "cnt_hi")] = 1 /\ Base3[TK(0, "cnt_lo")] = 0
       /\ Base6[FC("signal")] = 0 /\ Base6[FC("sem")] = \h0101 /\ Read(Base6, \h200) = 0
       /\ Base3[K("bt", 0, "full")] = 1 /\ Base3[K("bt", 1, "qlen")] = 2 /\ Base3[FC("dis1")] = 1
       /\ Read(Base3, \h200) = (Read(Base3, \h200) | \h4000)
\* every coupling that is claimed is real (the relation is tight): some base and value shows it
CoupledTight ==
    /\ \A p \in Coupled : \E i \in { 1, 2, 3, 6 }, x \in Values :
           Read(Write(BaseOf(i), p[1], x).s, p[2]) # Read(BaseOf(i), p[2])
    /\ \A p \in ReadCoupled : \E i \in 1..3 : Read(ReadEffect(BaseOf(i), p[1]), p[2]) # Read(BaseOf(i), p[2])
ASSUME CoupledTight
\* what Teakra::Reset leaves behind (the C17 known finding): the backing words of MMIORegion, nothing else
ASSUME \A k \in SurvivesReset : k[1] = "cell"
=============================================================================
