\* D9 (for C18, visible here): the address formation of the DSP side as coded, at scale.  B = 8: word
\* offset DataHi*B = 16, byte address = 2*(16 + cursor) mod 64, data memory = bytes [32,64).  Cursors
\* 16..31 fall outside it (the real machine: cursor >= 0x20000 -> raw[] index >= 0x80000), cursors 32..47
\* alias back into it.  NoOob must be violated: nothing masks or checks the cursor.
CONSTANTS
  B = 8
  BB = 64
  HB = 2
  FixedD8 = FALSE
  RealMap = TRUE
  DataHi = 2
  RangeLo = 4
  RangeHi = 8
  SizeSet <- Sizes03
  StepPairs <- QuickPairs
  ModeSet <- DspModes
  BaseSet <- OobBases
  AhbmSet <- NoAhbm
SPECIFICATION Spec
CONSTRAINT NotD8
INVARIANTS TypeOK NoOob
CHECK_DEADLOCK FALSE
