\* the pinned code against the strict channel-window clause ("each of the eight channels has
\* independent copies of its registers", whole registers): the bits of 0x1DA outside SRC_SPACE /
\* DST_SPACE / DWM are one word shared by all channels -> ChannelIndependentStrict is violated
CONSTANTS
  FixedChannelSelect = TRUE
  FixedWindowRaw = FALSE
  FixedWatchdogRestart = FALSE
  ValMode = 1
  NBases = 2
SPECIFICATION Spec
INVARIANTS TypeOK ChannelIndependentStrict
CHECK_DEADLOCK FALSE
