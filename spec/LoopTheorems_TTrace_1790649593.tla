---- MODULE LoopTheorems_TTrace_1790649593 ----
EXTENDS Sequences, TLCExt, Toolbox, Naturals, TLC, LoopTheorems

_expression ==
    LET LoopTheorems_TEExpression == INSTANCE LoopTheorems_TEExpression
    IN LoopTheorems_TEExpression!expression
----

_trace ==
    LET LoopTheorems_TETrace == INSTANCE LoopTheorems_TETrace
    IN LoopTheorems_TETrace!trace
----

_inv ==
    ~(
        TLCGet("level") = Len(_TETrace)
        /\
        vP = ([d |-> 4, c |-> <<0, 1, 3, 3>>, reg |-> FALSE, two |-> TRUE, rp |-> 2])
    )
----

_init ==
    /\ vP = _TETrace[1].vP
----

_next ==
    /\ \E i,j \in DOMAIN _TETrace:
        /\ \/ /\ j = i + 1
              /\ i = TLCGet("level")
        /\ vP  = _TETrace[i].vP
        /\ vP' = _TETrace[j].vP

\* Uncomment the ASSUME below to write the states of the error trace
\* to the given file in Json format. Note that you can pass any tuple
\* to `JsonSerialize`. For example, a sub-sequence of _TETrace.
    \* ASSUME
    \*     LET J == INSTANCE Json
    \*         IN J!JsonSerialize("LoopTheorems_TTrace_1790649593.json", _TETrace)

=============================================================================

 Note that you can extract this module `LoopTheorems_TEExpression`
  to a dedicated file to reuse `expression` (the module in the 
  dedicated `LoopTheorems_TEExpression.tla` file takes precedence 
  over the module `LoopTheorems_TEExpression` below).

---- MODULE LoopTheorems_TEExpression ----
EXTENDS Sequences, TLCExt, Toolbox, Naturals, TLC, LoopTheorems

expression == 
    [
        \* To hide variables of the `LoopTheorems` spec from the error trace,
        \* remove the variables below.  The trace will be written in the order
        \* of the fields of this record.
        vP |-> vP
        
        \* Put additional constant-, state-, and action-level expressions here:
        \* ,_stateNumber |-> _TEPosition
        \* ,_vPUnchanged |-> vP = vP'
        
        \* Format the `vP` variable as Json value.
        \* ,_vPJson |->
        \*     LET J == INSTANCE Json
        \*     IN J!ToJson(vP)
        
        \* Lastly, you may build expressions over arbitrary sets of states by
        \* leveraging the _TETrace operator.  For example, this is how to
        \* count the number of times a spec variable changed up to the current
        \* state in the trace.
        \* ,_vPModCount |->
        \*     LET F[s \in DOMAIN _TETrace] ==
        \*         IF s = 1 THEN 0
        \*         ELSE IF _TETrace[s].vP # _TETrace[s-1].vP
        \*             THEN 1 + F[s-1] ELSE F[s-1]
        \*     IN F[_TEPosition - 1]
    ]

=============================================================================



Parsing and semantic processing can take forever if the trace below is long.
 In this case, it is advised to uncomment the module below to deserialize the
 trace from a generated binary file.

\*
\*---- MODULE LoopTheorems_TETrace ----
\*EXTENDS IOUtils, TLC, LoopTheorems
\*
\*trace == IODeserialize("LoopTheorems_TTrace_1790649593.bin", TRUE)
\*
\*=============================================================================
\*

---- MODULE LoopTheorems_TETrace ----
EXTENDS TLC, LoopTheorems

trace == 
    <<
    ([vP |-> [d |-> 1, c |-> <<0, 0, 0, 0>>, reg |-> FALSE, two |-> TRUE, rp |-> 2]]),
    ([vP |-> [d |-> 4, c |-> <<0, 1, 3, 3>>, reg |-> FALSE, two |-> TRUE, rp |-> 2]])
    >>
----


=============================================================================

---- CONFIG LoopTheorems_TTrace_1790649593 ----
CONSTANTS
    W = 16
    Counts = { 0 , 1 , 2 , 3 }
    MaxDepth = 4

INVARIANT
    _inv

CHECK_DEADLOCK
    \* CHECK_DEADLOCK off because of PROPERTY or INVARIANT above.
    FALSE

INIT
    _init

NEXT
    _next

CONSTANT
    _TETrace <- _trace

ALIAS
    _expression
=============================================================================
\* Generated on Tue Sep 29 02:40:02 UTC 2026