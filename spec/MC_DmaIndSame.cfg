INIT Init2
NEXT Next2
INVARIANT Same
CHECK_DEADLOCK FALSE
