\* C14 exhaustive: 2 channels, data in {1,2}, 2 semaphore bits, mask, per-channel interrupt disable,
\* both directions composed (host facade + DSP MMIO + ICU request bit 14 + Reset)
CONSTANTS
  NCh = 2
  Data = {1, 2}
  SemW = 2
  FixedMask = TRUE
    FixedReentry = TRUE
  Junk = {0}
  Sides = {"fc", "fd"}
SPECIFICATION Spec
VIEW View
INVARIANTS TypeOK SignalInv SignalStatus LastWritten StatusAgree PureReads
PROPERTIES DataInterrupts RecvReturnsLast SemaphoreInterrupts IcuLatch
CHECK_DEADLOCK FALSE
