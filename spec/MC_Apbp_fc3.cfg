\* C14 thorough: direction CPU->DSP alone with the real channel count (3) and 3 semaphore bits
CONSTANTS
  NCh = 3
  Data = {1, 2}
  SemW = 3
  FixedMask = TRUE
    FixedReentry = TRUE
  Junk = {0}
  Sides = {"fc"}
SPECIFICATION Spec
VIEW View
INVARIANTS TypeOK ObjectRulesHold SignalInv SignalStatus SemInterruptRulesHold LastWritten StatusAgree PureReads
PROPERTIES DataInterrupts RecvReturnsLast SemaphoreInterrupts IcuLatch
CHECK_DEADLOCK FALSE
