---------------------------- MODULE BtdmpTrace ----------------------------
(* Trace validation for C16: an execution recorded from real Btdmp objects   *)
(* (harness/drivers/btdmp_rec.cpp) must be a behaviour of Btdmp.tla.  Every  *)
(* line names the call, its arguments, the complete transmit state after it  *)
(* (queue contents, timer, period, enable, flags, clock config), the         *)
(* callbacks it made in order (audio frames and interrupt-handler calls),    *)
(* its outcome, the horizon reported afterwards, the public getters and the  *)
(* MMIO read-back; the trace action applies the specification's operator to  *)
(* the current specification state and requires equality with all of it.     *)
(* The ghost history of Btdmp.tla runs along, so the FIFO properties are     *)
(* re-evaluated on every state of the observed execution at capacity 16.     *)
EXTENDS Btdmp, Json, IOUtils

Log == ndJsonDeserialize(IOEnv.TRACE)

VARIABLE l
tvars == <<s, ev, outc, gin, gout, gpad, l>>

Rec == Log[l]
St(r) == [q |-> r.s.q, tm |-> r.s.tm, pd |-> r.s.pd, en |-> r.s.en, em |-> r.s.em, fu |-> r.s.fu, cc |-> r.s.cc]

Matches(res) == /\ res.out = Rec.out
                /\ res.s   = St(Rec)
                /\ res.ev  = Rec.cb
                /\ Horizon(res.s) = Rec.h
                /\ <<res.s.em, res.s.fu, res.s.pd, res.s.en, res.s.cc, 0>> = Rec.g
                /\ Mmio(res.s) = Rec.mm

\* a call on a live object (the previous call came back normally)
IsEvent(e) == l <= Len(Log) /\ Rec.e = e /\ outc = "ok"

\* a new object straight from its constructor must already be in the reset state; it also ends
\* a history whose last call tripped the assertion or died
TNew       == l <= Len(Log) /\ Rec.e = "New" /\ Matches(ResetOp(s)) /\ DoReset /\ l' = l + 1
TReset     == IsEvent("Reset")     /\ Matches(ResetOp(s))           /\ DoReset               /\ l' = l + 1
TSend      == IsEvent("Send")      /\ Matches(SendOp(s, Rec.v))      /\ DoSend(Rec.v)         /\ l' = l + 1
TFlush     == IsEvent("Flush")     /\ Matches(FlushOp(s, Rec.v))     /\ DoFlush(Rec.v)        /\ l' = l + 1
TSetEnable == IsEvent("SetEnable") /\ Matches(SetEnableOp(s, Rec.v)) /\ DoSetEnable(Rec.v)    /\ l' = l + 1
TSetClock  == IsEvent("SetClock")  /\ Matches(SetClockOp(s, Rec.v))  /\ DoSetClock(Rec.v)     /\ l' = l + 1
TSetPeriod == IsEvent("SetPeriod") /\ Matches(SetPeriodOp(s, Rec.v)) /\ DoSetPeriod(Rec.v)    /\ l' = l + 1
TTick      == IsEvent("Tick")      /\ Matches(TickOp(s))             /\ DoTick                /\ l' = l + 1
TSkip      == IsEvent("Skip")      /\ Rec.out # "fpe" /\ Matches(SkipOp(s, Rec.k)) /\ DoSkip(Rec.k) /\ l' = l + 1
\* the division by zero kills the call: the specification says that it happens, not what is left behind
TSkipFpe   == IsEvent("Skip")      /\ Rec.out = "fpe" /\ SkipOp(s, Rec.k).out = "fpe" /\ Rec.cb = <<>>
                                   /\ outc' = "fpe" /\ UNCHANGED <<s, ev, gin, gout, gpad>> /\ l' = l + 1

TraceInit == Init /\ l = 1
TraceNext == TNew \/ TReset \/ TSend \/ TFlush \/ TSetEnable \/ TSetClock \/ TSetPeriod \/ TTick
             \/ TSkip \/ TSkipFpe
TraceSpec == TraceInit /\ [][TraceNext]_tvars

\* The property layer on every state of the observed execution, at full width (capacity 16, 16-bit
\* words, periods up to 65535).  After a call that tripped the assertion or died (the caller went
\* past the horizon, or hit the pinned defect) nothing is claimed until the next fresh object.
\* SkipIsTicks etc. quantify k <= K cycles here; as pinned they hold only while the phase is below
\* the period (the deviation modelled by FixedSkipOverrun).
Observed ==
    outc = "ok" =>
        /\ TypeOK /\ FifoOrder /\ NothingLost /\ ZerosOnlyWhenShort /\ FlagsExact
        /\ TickRules /\ OneFramePerPeriod /\ DisabledIsSilent
        /\ (FixedSkipOverrun \/ s.tm < s.pd) => (SkipIsTicks /\ NoIrqInHorizon /\ SkipNeverFails)

\* "the empty interrupt fires exactly when a pop empties the queue", on every observed call that
\* came back normally
ObservedIrq ==
    [][outc' = "ok" =>
          Irqs(ev') = (IF Frames(ev') # <<>> /\ s.q # <<>> /\ s'.q = <<>> THEN 1 ELSE 0)]_tvars

TraceAccepted ==
    /\ PrintT(<<"TRACE_MATCHED", TLCGet("stats").diameter - 1, Len(Log)>>)
    /\ TLCGet("stats").diameter - 1 = Len(Log)
=============================================================================
