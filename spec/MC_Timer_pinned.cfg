\* the pinned (unrepaired) Timer::Skip: used to show that the model reproduces defect D2
CONSTANTS
  B = 3
  FixedSkipZero = FALSE
SPECIFICATION Spec
INVARIANTS TypeOK SkipIsTicks
CHECK_DEADLOCK FALSE
