\* C16, exhaustive, quick: the repaired Skip (FixedSkipOverrun), every history of API calls including
\* period changes below the running phase and period 0.  Capacity 4, periods 0..3, words from {0,1}
\* (0 on purpose: a queued zero must not be confused with padding), ghost history up to G accepted words.
CONSTANTS
  Cap = 4
  TW = 8
  ResetPeriod = 2
  FixedSkipOverrun = TRUE
  Vals = {0, 1}
  Periods = {0, 1, 2, 3}
  Clocks = {0, 1}
  K = 7
  G = 5
  PhaseKept = FALSE
SPECIFICATION Spec
CONSTRAINT HistoryBound
INVARIANTS TypeOK FifoOrder NothingLost ZerosOnlyWhenShort FlagsExact TickRules SendFlushRules
           OneFramePerPeriod DisabledIsSilent SkipIsTicks NoIrqInHorizon SkipNeverFails
PROPERTY IrqExactlyOnEmptyingPop
CHECK_DEADLOCK FALSE
