---- MODULE MC_Fuzz ----
EXTENDS FuzzTrace
AllKnown == {"fetch", "dma"}
====
