------------------------------- MODULE TeakExec -------------------------------
(* One operator per instruction handler of interpreter.h (as-is layer of C01): Exec(s, key, g) runs the  *)
(* handler identified by the decode key ("name/OperandTypes", see TeakDecodeTable) with operand values g *)
(* (in declaration order, exactly what the C++ overload receives) on machine state s (TeakMachine).       *)
(* Written by hand from the pinned interpreter.h, which C01 names as the hardware-validated reference;     *)
(* quirks the code marks as hardware-tested are transcribed, not idealised.  Handlers not yet written are *)
(* listed in Unmodelled: for those a trace record is only checked for decode, fetch and length.           *)
EXTENDS TeakMachine

RN(t, v) == RegOf(t, v)                                   \* operand value -> register name

\* RnAddressAndModify: [a |-> address used (bit-reversed if configured), raw |-> pre-modified Rn, s |-> state]
AM(s, unit, step, dmod) == LET t == RnAndModify(s.r, unit, step, dmod)
                           IN  [a |-> RnAddress(s.r, unit, t.val), raw |-> t.val, s |-> SetR(s, t.r)]
\* OffsetAddress on the current register state: address, or unimplemented
OA(s, unit, a, off, dmod) == OffsetAddress(s.r, unit, a, off, dmod)

\* read a data word: [v, s]
LD(s, a) == [v |-> DVal(s, a), s |-> DRead(s, a)]
MemImm8Addr(s, a)   == (a + s.r.page * 256) % B
MemR7Imm16Addr(s, a) == (a + s.r.r[8]) % B
MemR7Imm7sAddr(s, a) == (Sx(a, 7) + s.r.r[8]) % B

-----------------------------------------------------------------------------
(* ALM / ALU                                                                                              *)
AlmExtend(op, v) == IF op \in {3, 6, 7} THEN FromS16(v) ELSE IF op \in {9, 11} THEN FromHi16(v) ELSE FromU16(v)

AlmGeneric(s, op, a, bn) ==
    LET acc == GetAcc(s, bn) IN
    CASE op = 0 -> SetAccAndFlag(s, bn, AOr(acc, a))
      [] op = 1 -> SetAccAndFlag(s, bn, AAnd(acc, a))
      [] op = 2 -> SetAccAndFlag(s, bn, AXor(acc, a))
      [] op = 4 -> [s EXCEPT !.r.fz = B2I((acc[1] & a[1]) = 0)]
      [] op = 5 -> [s EXCEPT !.r.fz = B2I((acc[1] & LimbNot(a[1])) = 0)]
      [] op \in {3, 6, 7, 9, 10, 11, 12, 15} ->
            LET t == AddSubF(s, acc, a, op \notin {3, 9, 10})
            IN  IF op \in {6, 15} THEN SetAccFlag(t.s, t.v) ELSE SatSetAccFlag(t.s, bn, t.v)
      [] op = 8 -> LET t  == AddSubF(s, acc, P2B(s, 0), TRUE)
                       s1 == SatSetAccFlag(t.s, bn, t.v)
                   IN  DoMul([s1 EXCEPT !.r.x[1] = a[1]], 0, TRUE, TRUE)
      [] op = 14 -> LET t  == AddSubF(s, acc, P2B(s, 0), FALSE)
                        s1 == SatSetAccFlag(t.s, bn, t.v)
                    IN  DoMul([s1 EXCEPT !.r.x[1] = a[1], !.r.y[1] = a[1]], 0, TRUE, TRUE)
      [] op = 13 -> DoMul([s EXCEPT !.r.x[1] = a[1], !.r.y[1] = a[1]], 0, TRUE, TRUE)

H_alm_mem8(s, g)  == LET t == LD(s, MemImm8Addr(s, g[2])) IN AlmGeneric(t.s, g[1], AlmExtend(g[1], t.v), RN("Ax", g[3]))
H_alm_rn(s, g)    == LET m == AM(s, g[2], g[3], FALSE)  t == LD(m.s, m.a)
                     IN  AlmGeneric(t.s, g[1], AlmExtend(g[1], t.v), RN("Ax", g[4]))
H_alm_reg(s, g)   == LET op == g[1]  n == RN("Register", g[2])  bn == RN("Ax", g[3]) IN
                     IF n \in {"p", "a0", "a1"}
                     THEN IF op \notin {0, 1, 2, 3, 6, 7} THEN Fail(s, "unimpl")
                          ELSE AlmGeneric(s, op, IF n = "p" THEN P2B(s, 0) ELSE GetAcc(s, n), bn)
                     ELSE LET t == RegToBus(s, n, FALSE) IN AlmGeneric(t.s, op, AlmExtend(op, t.v), bn)
H_alm_r6(s, g)    == AlmGeneric(s, g[1], AlmExtend(g[1], s.r.r[7]), RN("Ax", g[2]))
H_alu_mem16(s, g) == LET t == LD(s, g[2]) IN AlmGeneric(t.s, g[1], AlmExtend(g[1], t.v), RN("Ax", g[3]))
H_alu_r7i16(s, g) == LET t == LD(s, MemR7Imm16Addr(s, g[2])) IN AlmGeneric(t.s, g[1], AlmExtend(g[1], t.v), RN("Ax", g[3]))
H_alu_imm16(s, g) == AlmGeneric(s, g[1], AlmExtend(g[1], g[2]), RN("Ax", g[3]))
H_alu_imm8(s, g)  == LET bn == RN("Ax", g[3])
                         s1 == AlmGeneric(s, g[1], AlmExtend(g[1], g[2]), bn)
                     IN  IF g[1] = 1     \* AND: bits 8..15 of the accumulator are kept, flags as if they were not
                         THEN LET old == GetAcc(s, bn)  new == GetAcc(s1, bn)
                              IN  SetAcc(s1, bn, <<(old[1] - (old[1] % 256)) + (new[1] % 256), new[2], new[3]>>)
                         ELSE s1
H_alu_r7i7(s, g)  == LET t == LD(s, MemR7Imm7sAddr(s, g[2])) IN AlmGeneric(t.s, g[1], AlmExtend(g[1], t.v), RN("Ax", g[3]))

H_or(s, ta, tb, g)  == SetAccAndFlag(s, RN("Ax", g[3]), AOr(GetAcc(s, RN(ta, g[1])), GetAcc(s, RN(tb, g[2]))))
H_and(s, g)         == SetAccAndFlag(s, RN("Ax", g[3]), AAnd(GetAcc(s, RN("Ab", g[1])), GetAcc(s, RN("Ab", g[2]))))

-----------------------------------------------------------------------------
(* ALB                                                                                                    *)
\* GenericAlb: [v, s]
Alb(s, op, a, b) ==
    LET res == CASE op = 0 -> a | b
                 [] op = 1 -> LimbNot(a) & b
                 [] op = 2 -> a ^^ b
                 [] op = 3 -> (a + b) % B
                 [] op = 4 -> B2I((a & b) # 0)
                 [] op = 5 -> B2I((a & LimbNot(b)) # 0)
                 [] op \in {6, 7} -> (b + B - a) % B
        s1 == CASE op \in {0, 1, 2} -> [s EXCEPT !.r.fm = res \div HB]
                [] op = 3 -> [s EXCEPT !.r.fc0 = B2I(a + b >= B), !.r.fm = B2I(SInt16(a) + SInt16(b) < 0)]
                [] op \in {4, 5} -> s
                [] op \in {6, 7} -> [s EXCEPT !.r.fc0 = B2I(b < a), !.r.fm = B2I(SInt16(b) - SInt16(a) < 0)]
    IN  [v |-> res, s |-> [s1 EXCEPT !.r.fz = B2I(res = 0)]]
AlbModifies(op) == op \in {0, 1, 2, 3, 7}

H_alb_mem8(s, g) == LET adr == MemImm8Addr(s, g[3])  t == LD(s, adr)  u == Alb(t.s, g[1], g[2], t.v)
                    IN  IF AlbModifies(g[1]) THEN DWrite(u.s, adr, u.v) ELSE u.s
H_alb_rn(s, g)   == LET m == AM(s, g[3], g[4], FALSE)  t == LD(m.s, m.a)  u == Alb(t.s, g[1], g[2], t.v)
                    IN  IF AlbModifies(g[1]) THEN DWrite(u.s, m.a, u.v) ELSE u.s
H_alb_reg(s, g)  == LET n == RN("Register", g[3]) IN
                    IF n \in {"a0", "a1"} THEN Fail(s, "unimpl")
                    ELSE LET t == IF n = "p" THEN [v |-> P2B(s, 0)[2], s |-> s] ELSE RegToBus(s, n, FALSE)
                             u == Alb(t.s, g[1], g[2], t.v)
                         IN  IF ~ AlbModifies(g[1]) THEN u.s
                             ELSE IF IsAccName(n) /\ AccPart(n) = "l" THEN [u.s EXCEPT !.r[AccBase[n]][1] = u.v]
                             ELSE IF IsAccName(n) /\ AccPart(n) = "h" THEN [u.s EXCEPT !.r[AccBase[n]][2] = u.v]
                             ELSE RegFromBus(u.s, n, u.v)
H_alb_r6(s, g)   == LET u == Alb(s, g[1], g[2], s.r.r[7]) IN IF AlbModifies(g[1]) THEN [u.s EXCEPT !.r.r[7] = u.v] ELSE u.s
H_alb_sttmod(s, g) == LET n == RN("SttMod", g[3])  t == RegToBus(s, n, FALSE)  u == Alb(t.s, g[1], g[2], t.v)
                      IN  IF t.s.out # "ok" THEN t.s ELSE IF AlbModifies(g[1]) THEN RegFromBus(u.s, n, u.v) ELSE u.s

-----------------------------------------------------------------------------
(* add / sub / cmp extras, product sums                                                                    *)
AddSubTo(s, a, bn, sub) == LET t == AddSubF(s, GetAcc(s, bn), a, sub) IN SatSetAccFlag(t.s, bn, t.v)
CmpTo(s, a, b)          == LET t == AddSubF(s, b, a, TRUE) IN SetAccFlag(t.s, t.v)

ProductSum(s, base, accn, sub0, al0, sub1, al1) ==
    LET va == IF al0 = 1 THEN AlignDown(P2B(s, 0)) ELSE P2B(s, 0)
        vb == IF al1 = 1 THEN AlignDown(P2B(s, 1)) ELSE P2B(s, 1)
        vc == CASE base = 0 -> AZero
                [] base = 1 -> GetAcc(s, accn)
                [] base = 2 -> FromHi16(s.r.sv)
                [] base = 3 -> <<HB, s.r.sv, SxE(s.r.sv)>>
        t  == ProductSumCore(vc, va, vb, sub0 = 1, sub1 = 1)
    IN  SatSetAccFlag([s EXCEPT !.r.fc0 = t.c, !.r.fv = t.ov, !.r.fvl = IF t.anyov = 1 THEN 1 ELSE @], accn, t.v)

\* the two-memory add/sub family: value <<low, high mod 2^16, high div 2^16>> from integer halves
HiLo(hsum, low) == <<low % B, hsum % B, (hsum \div B) % EB>>
\* add_add / add_sub / sub_add / sub_sub (ArpRn1, ArpStep1 i, ArpStep1 j, Ab): hi = [j] +/- [i], lo = [j+oj] +/- [i+oi]
H_addsub2(s, g, hsub, lsub) ==
    LET ui == ArpUnitI(s.r, g[1])  uj == ArpUnitJ(s.r, g[1])
        mi == AM(s, ui, ArpStepI(s.r, g[2]), FALSE)
        mj == AM(mi.s, uj, ArpStepJ(mi.s.r, g[3]), FALSE)
        tj == LD(mj.s, mj.a)
        ti == LD(tj.s, mi.a)
        oj == OA(ti.s, uj, mj.a, ArpOffsetJ(s.r, g[3]), FALSE)
        lj == LD(ti.s, oj.a)
        oi == OA(lj.s, ui, mi.a, ArpOffsetI(s.r, g[2]), FALSE)
        li == LD(lj.s, oi.a)
        hs == IF hsub THEN SInt16(tj.v) - SInt16(ti.v) ELSE SInt16(tj.v) + SInt16(ti.v)
        lo == IF lsub THEN lj.v + B - li.v ELSE lj.v + li.v
    IN  IF ~ oj.ok THEN Fail(ti.s, "unimpl") ELSE IF ~ oi.ok THEN Fail(lj.s, "unimpl")
        ELSE SetAcc(li.s, RN("Ab", g[4]), HiLo(hs, lo))
\* add_sub_sv / sub_add_sv (ArRn1, ArStep1, Ab): hi = [a] +/- sv, lo = [a+o] -/+ sv
H_addsub_sv(s, g, hsub) ==
    LET u  == ArUnit(s.r, g[1])
        m  == AM(s, u, ArStep(s.r, g[2]), FALSE)
        th == LD(m.s, m.a)
        o  == OA(th.s, u, m.a, ArOffset(s.r, g[2]), FALSE)
        tl == LD(th.s, o.a)
        hs == IF hsub THEN SInt16(th.v) - SInt16(s.r.sv) ELSE SInt16(th.v) + SInt16(s.r.sv)
        lo == IF hsub THEN tl.v + s.r.sv ELSE tl.v + B - s.r.sv
    IN  IF ~ o.ok THEN Fail(th.s, "unimpl") ELSE SetAcc(tl.s, RN("Ab", g[3]), HiLo(hs, lo))
\* sub_add_i_mov_j_sv / sub_add_j_mov_i_sv / add_sub_i_mov_j / add_sub_j_mov_i
H_asm(s, g, useI, hsub, store) ==
    LET ui == ArpUnitI(s.r, g[1])  uj == ArpUnitJ(s.r, g[1])
        mi == AM(s, ui, ArpStepI(s.r, g[2]), FALSE)
        mj == AM(mi.s, uj, ArpStepJ(mi.s.r, g[3]), FALSE)
        ua == IF useI THEN ui ELSE uj
        aa == IF useI THEN mi.a ELSE mj.a          \* the address the arithmetic reads
        ab == IF useI THEN mj.a ELSE mi.a          \* the address of the move
        off == IF useI THEN ArpOffsetI(s.r, g[2]) ELSE ArpOffsetJ(s.r, g[3])
        th == LD(mj.s, aa)
        o  == OA(th.s, ua, aa, off, FALSE)
        tl == LD(th.s, o.a)
        hs == IF hsub THEN SInt16(th.v) - SInt16(s.r.sv) ELSE SInt16(th.v) + SInt16(s.r.sv)
        lo == IF hsub THEN tl.v + s.r.sv ELSE tl.v + B - s.r.sv
        bn == RN("Ab", g[4])
    IN  IF ~ o.ok THEN Fail(th.s, "unimpl")
        ELSE IF store
             THEN LET ex == GetSatAccNoFlag(tl.s, bn)[1] IN DWrite(SetAcc(tl.s, bn, HiLo(hs, lo)), ab, ex)
             ELSE LET tm == LD(SetAcc(tl.s, bn, HiLo(hs, lo)), ab) IN [tm.s EXCEPT !.r.sv = tm.v]

-----------------------------------------------------------------------------
(* moda, clr, shifts                                                                                      *)
\* write a Shift() result into the machine
ShiftBus(s, value, sv, dest) ==
    LET t == Shift(value, sv, s.r.s, s.r.sata, s.r.fv) IN
    SetAcc([s EXCEPT !.r.fc0 = t.c, !.r.fv = t.fv, !.r.fvl = IF t.fvl = 1 THEN 1 ELSE @, !.r.flm = IF t.flm = 1 THEN 1 ELSE @,
                     !.r.fz = t.fz, !.r.fm = t.fm, !.r.fe = t.fe, !.r.fn = t.fn], dest, t.v)

Moda(s, op, an, cond) ==
    IF ~ CondPass(s.r, cond) THEN s ELSE
    LET acc == GetAcc(s, an) IN
    CASE op = 0 -> ShiftBus(s, acc, B - 1, an)
      [] op = 1 -> ShiftBus(s, acc, B - 4, an)
      [] op = 2 -> ShiftBus(s, acc, 1, an)
      [] op = 3 -> ShiftBus(s, acc, 4, an)
      [] op = 4 -> LET f == [i \in 0 .. ABITS - 1 |-> ABit(acc, i)]
                       v == AFromBits([i \in 0 .. ABITS - 1 |-> IF i = ABITS - 1 THEN s.r.fc0 ELSE f[i + 1]])
                   IN  SetAccAndFlag([s EXCEPT !.r.fc0 = f[0]], an, v)
      [] op = 5 -> LET f == [i \in 0 .. ABITS - 1 |-> ABit(acc, i)]
                       v == AFromBits([i \in 0 .. ABITS - 1 |-> IF i = 0 THEN s.r.fc0 ELSE f[i - 1]])
                   IN  SetAccAndFlag([s EXCEPT !.r.fc0 = f[ABITS - 1]], an, v)
      [] op = 6 -> SatSetAccFlag(s, an, AZero)
      [] op = 8 -> SetAccAndFlag(s, an, ANot(acc))
      [] op = 9 -> LET ismin == acc = <<0, 0, EB \div 2>>
                       s1 == [s EXCEPT !.r.fc0 = B2I(acc # AZero), !.r.fv = B2I(ismin), !.r.fvl = IF ismin THEN 1 ELSE @]
                   IN  SatSetAccFlag(s1, an, ANeg(acc))
      [] op = 10 -> LET t == AddSubF(s, acc, <<HB, 0, 0>>, FALSE) IN SatSetAccFlag(t.s, an, t.v)
      [] op = 11 -> LET t == AddSubF(s, P2B(s, 0), <<HB, 0, 0>>, FALSE) IN SatSetAccFlag(t.s, an, t.v)
      [] op = 12 -> SatSetAccFlag(s, an, <<HB, 0, 0>>)
      [] op = 13 -> LET t == AddSubF(s, acc, <<1, 0, 0>>, FALSE) IN SatSetAccFlag(t.s, an, t.v)
      [] op = 14 -> LET t == AddSubF(s, acc, <<1, 0, 0>>, TRUE) IN SatSetAccFlag(t.s, an, t.v)
      [] op = 15 -> SatSetAccFlag(s, an, GetAcc(s, IF an = "a0" THEN "a1" ELSE "a0"))
      [] OTHER -> Fail(s, "assert")
Moda3To4(op) == IF op = 7 THEN 12 ELSE op

\* FilterDoubleClr
DoubleClr(s, g, v) ==
    LET a == RN("Ab", g[1])  b0 == RN("Ab", g[2])
        b == CASE a = "b0" -> "b1" [] a = "b1" -> "b0"
               [] a = "a0" -> (IF b0 = "a0" THEN "a1" ELSE b0)
               [] OTHER -> (IF b0 = "b1" THEN "b1" ELSE "b0")
    IN  SatSetAccFlag(SatSetAccFlag(s, a, v), b, v)

-----------------------------------------------------------------------------
(* loops, banks, control flow                                                                             *)
BlockRepeat(s, lc, address) ==
    IF s.r.bcn > 3 THEN Fail(s, "assert")
    ELSE [s EXCEPT !.r.bk[s.r.bcn + 1] = [start |-> s.r.pc, end |-> address, lc |-> lc], !.r.lp = 1, !.r.bcn = @ + 1]

\* RestoreBlockRepeat / StoreBlockRepeat on an address register given as a getter/setter pair:
\* which = 8 for sp, or a unit number 0..7
AddrRegGet(s, which) == IF which = 8 THEN s.r.sp ELSE s.r.r[which + 1]
AddrRegSet(s, which, v) == IF which = 8 THEN [s EXCEPT !.r.sp = v] ELSE [s EXCEPT !.r.r[which + 1] = v]
RestoreBkrep(s, which) ==
    IF s.r.lp # 0 /\ s.r.bcn > 3 THEN Fail(s, "assert") ELSE
    LET s1 == IF s.r.lp # 0
              THEN [s EXCEPT !.r.bk = LET F(k) == IF k >= 2 /\ k <= s.r.bcn + 1 THEN s.r.bk[k - 1] ELSE s.r.bk[k] IN <<F(1), F(2), F(3), F(4)>>,
                             !.r.bcn = @ + 1]
              ELSE s
        a0 == AddrRegGet(s1, which)
        t0 == LD(s1, a0)                     \* flag
        t1 == LD(t0.s, (a0 + 1) % B)         \* end low
        t2 == LD(t1.s, (a0 + 2) % B)         \* start low
        t3 == LD(t2.s, (a0 + 3) % B)         \* lc
        valid == t0.v \div HB
        s2 == AddrRegSet(t3.s, which, (a0 + 4) % B)
        s3 == IF s.r.lp = 0 /\ valid = 1 THEN [s2 EXCEPT !.r.lp = 1, !.r.bcn = 1] ELSE s2
    IN  IF s.r.lp # 0 /\ valid = 0 THEN Fail(t0.s, "assert")
        ELSE [s3 EXCEPT !.r.bk[1] = [end |-> t1.v + B * ((t0.v \div 256) % 4), start |-> t2.v + B * (t0.v % 4), lc |-> t3.v]]
StoreBkrep(s, which) ==
    LET a0 == AddrRegGet(s, which)
        f  == s.r.bk[1]
        flag == ((s.r.lp % 2) * HB) + (f.start \div B) + (256 * (f.end \div B))
        s1 == DWrite(s, (a0 + B - 1) % B, f.lc)
        s2 == DWrite(s1, (a0 + B - 2) % B, f.start % B)
        s3 == DWrite(s2, (a0 + B - 3) % B, f.end % B)
        s4 == AddrRegSet(DWrite(s3, (a0 + B - 4) % B, flag % B), which, (a0 + B - 4) % B)
    IN  IF s.r.lp # 0
        THEN [s4 EXCEPT !.r.bk = LET F(k) == IF k + 1 <= s.r.bcn THEN s.r.bk[k + 1] ELSE s.r.bk[k] IN <<F(1), F(2), F(3), F(4)>>,
                        !.r.bcn = @ - 1, !.r.lp = IF s.r.bcn - 1 = 0 THEN 0 ELSE @]
        ELSE s4

H_banke(s, g) ==
    LET f == g[1]  r == s.r
        r1 == IF Bit(f, 0) = 1 THEN [r EXCEPT !.stepi = r.stepib, !.stepib = r.stepi, !.modi = r.modib, !.modib = r.modi,
                                               !.stepi0 = IF r.stp16 # 0 THEN r.stepi0b ELSE @, !.stepi0b = IF r.stp16 # 0 THEN r.stepi0 ELSE @] ELSE r
        r2 == IF Bit(f, 1) = 1 THEN [r1 EXCEPT !.r[5] = r1.r4b, !.r4b = r1.r[5]] ELSE r1
        r3 == IF Bit(f, 2) = 1 THEN [r2 EXCEPT !.r[2] = r2.r1b, !.r1b = r2.r[2]] ELSE r2
        r4 == IF Bit(f, 3) = 1 THEN [r3 EXCEPT !.r[1] = r3.r0b, !.r0b = r3.r[1]] ELSE r3
        r5 == IF Bit(f, 4) = 1 THEN [r4 EXCEPT !.r[8] = r4.r7b, !.r7b = r4.r[8]] ELSE r4
        r6 == IF Bit(f, 5) = 1 THEN [r5 EXCEPT !.stepj = r5.stepjb, !.stepjb = r5.stepj, !.modj = r5.modjb, !.modjb = r5.modj,
                                                !.stepj0 = IF r5.stp16 # 0 THEN r5.stepj0b ELSE @, !.stepj0b = IF r5.stp16 # 0 THEN r5.stepj0 ELSE @] ELSE r5
    IN  SetR(s, r6)

\* pc += Relative32() on the 32-bit program counter (no 18-bit mask in the code)
RelPC(s, rel7) == [s EXCEPT !.r.pc = IF rel7 >= 64 THEN @ + rel7 - 128 ELSE @ + rel7]

-----------------------------------------------------------------------------
(* multiply                                                                                               *)
Mul2To3(op) == CASE op = 0 -> 0 [] op = 1 -> 2 [] op = 2 -> 4 [] op = 3 -> 6
MulGeneric(s, op, an) ==
    LET s1 == IF op \in {0, 1} THEN s
              ELSE LET pr == IF op \in {4, 7} THEN AlignDown(P2B(s, 0)) ELSE P2B(s, 0)
                       t  == AddSubF(s, GetAcc(s, an), pr, FALSE)
                   IN  SatSetAccFlag(t.s, an, t.v)
    IN  CASE op \in {0, 2, 4} -> DoMul(s1, 0, TRUE, TRUE)
          [] op \in {1, 6, 7} -> DoMul(s1, 0, FALSE, TRUE)
          [] op = 3 -> DoMul(s1, 0, TRUE, FALSE)
          [] op = 5 -> DoMul(s1, 0, FALSE, FALSE)
SetX(s, i, v) == [s EXCEPT !.r.x[i + 1] = v]
SetY(s, i, v) == [s EXCEPT !.r.y[i + 1] = v]
\* acc +/- product(unit) with saturation and flags
AccPlusP(s, an, unit, sub) == LET t == AddSubF(s, GetAcc(s, an), P2B(s, unit), sub) IN SatSetAccFlag(t.s, an, t.v)
-----------------------------------------------------------------------------
(* moves                                                                                                  *)
\* value of a register on the bus, written somewhere: small combinators
ToMem(s, adr, v)      == DWrite(s, adr, v)
MovRegToMem(s, n, satmov, adr) == LET t == RegToBus(s, n, satmov) IN DWrite(t.s, adr, t.v)
MovMemToReg(s, adr, n)  == LET t == LD(s, adr) IN RegFromBus(t.s, n, t.v)

\* mov(Register a, Register b)
H_mov_reg_reg(s, g) ==
    LET an == RN("Register", g[1])  bn == RN("Register", g[2]) IN
    IF an = "p" THEN SatSetAccFlag(s, IF g[2] % 2 = 1 THEN "a1" ELSE "a0", P2B(s, 0))
    ELSE IF an = "pc" THEN (IF bn \in {"a0", "a1"} THEN SatSetAccFlag(s, bn, <<s.r.pc % B, s.r.pc \div B, 0>>)
                            ELSE RegFromBus(s, bn, s.r.pc % B))
    ELSE LET t == RegToBus(s, an, TRUE) IN RegFromBus(t.s, bn, t.v)
\* mov(Register a, Bx b)
H_mov_reg_bx(s, g) ==
    LET an == RN("Register", g[1])  bn == RN("Bx", g[2]) IN
    IF an = "p" THEN SatSetAccFlag(s, bn, P2B(s, 0))
    ELSE IF an \in {"a0", "a1"} THEN SatSetAccFlag(s, bn, GetAcc(s, an))
    ELSE LET t == RegToBus(s, an, TRUE) IN RegFromBus(t.s, bn, t.v)

\* two-word stores through ar: write second word at the offset address first, then the first at the address
Store2(s, unit, step, off, vfirst, vsecond) ==
    LET m == AM(s, unit, step, FALSE)
        o == OA(m.s, unit, m.a, off, FALSE)
    IN  IF ~ o.ok THEN Fail(m.s, "unimpl") ELSE DWrite(DWrite(m.s, o.a, vsecond), m.a, vfirst)
\* two-word loads through ar: [lo from offset address, hi from address, s]
Load2(s, unit, step, off) ==
    LET m == AM(s, unit, step, FALSE)
        o == OA(m.s, unit, m.a, off, FALSE)
        t2 == LD(m.s, o.a)
        t1 == LD(t2.s, m.a)
    IN  [ok |-> o.ok, lo |-> t2.v, hi |-> t1.v, s |-> IF o.ok THEN t1.s ELSE Fail(m.s, "unimpl")]

\* i / j pair addressing: [ai, aj, s]
IJ(s, idx, si, sj, di, dj) ==
    LET ui == ArpUnitI(s.r, idx)  uj == ArpUnitJ(s.r, idx)
        mi == AM(s, ui, ArpStepI(s.r, si), di)
        mj == AM(mi.s, uj, ArpStepJ(mi.s.r, sj), dj)
    IN  [ai |-> mi.a, aj |-> mj.a, rawi |-> mi.raw, ui |-> ui, uj |-> uj, s |-> mj.s]

-----------------------------------------------------------------------------
(* min / max, divs, viterbi, codebook search                                                              *)
MinMax(s, g, kind, r0form) ==      \* kind: "ge" "gt" "le" "lt"
    LET an == RN("Ax", g[1])
        u  == GetAcc(s, an)
        t  == RnAndModify(s.r, 0, g[2], FALSE)
        s1 == SetR(s, t.r)
        ld == IF r0form THEN LD(s1, RnAddress(s1.r, 0, t.val)) ELSE [v |-> 0, s |-> s1]
        v  == IF r0form THEN FromS16(ld.v) ELSE GetAcc(s, CounterAcc(an))
        lt == ASLt(v, u)     \* v < u
        eq == v = u
        take == CASE kind = "ge" -> ~ lt [] kind = "gt" -> ~ lt /\ ~ eq [] kind = "le" -> lt \/ eq [] kind = "lt" -> lt
    IN  IF take THEN SetAcc([ld.s EXCEPT !.r.fm = 1, !.r.mixp = t.val], an, v) ELSE [ld.s EXCEPT !.r.fm = 0]

H_divs(s, g) ==
    LET t  == LD(s, MemImm8Addr(s, g[1]))
        bn == RN("Ax", g[2])
        db == GetAcc(t.s, bn)
        \* da << 15 as a 40-bit value: da * 2^15 = <<(da % 2) * HB, da \div 2, 0>>
        sh == <<(t.v % 2) * HB, t.v \div 2, 0>>
        neg == ASLt(db, sh)                                  \* (db - (da << 15)) >> 63 on sign-extended 64-bit values
        dbl(v) == AAdd(v, v).v
    IN  IF neg THEN SetAccAndFlag(t.s, bn, dbl(db))
        ELSE SetAccAndFlag(t.s, bn, AAdd(dbl(ASub(db, sh).v), <<1, 0, 0>>).v)

Vtrshr(s) == [s EXCEPT !.r.vtr0 = (s.r.vtr0 \div 2) + s.r.fc0 * HB, !.r.vtr1 = (s.r.vtr1 \div 2) + s.r.fc1 * HB]
MinMaxVtr(s, an, bn, min) ==
    LET u == GetAcc(s, an)  v == GetAcc(s, bn)
        uh == u[2] + B * u[3]  vh == v[2] + B * v[3]            \* 24-bit high parts, compared as signed
        suh == IF u[3] >= EB \div 2 THEN uh - B * EB ELSE uh
        svh == IF v[3] >= EB \div 2 THEN vh - B * EB ELSE vh
        wh == IF min THEN suh - svh ELSE svh - suh
        wl == IF min THEN SInt16(u[1]) - SInt16(v[1]) ELSE SInt16(v[1]) - SInt16(u[1])
        c0 == B2I(wh >= 0)  c1 == B2I(wl >= 0)
        w  == <<IF c1 = 1 THEN v[1] ELSE u[1], IF c0 = 1 THEN v[2] ELSE u[2], IF c0 = 1 THEN v[3] ELSE u[3]>>
    IN  Vtrshr(SetAcc([s EXCEPT !.r.fc0 = c0, !.r.fc1 = c1], an, w))

CodebookSearch(s, u, v, rr, c) ==
    LET diffneg == ASLt(P2B(s, 0), P2B(s, 1))
        diffzero == P2B(s, 0) = P2B(s, 1)
        cond == IF c = 0 THEN ~ diffneg ELSE ~ diffneg /\ ~ diffzero
        s1 == IF cond THEN [s EXCEPT !.r.x[2] = s.r.p0h_cbs, !.r.x[1] = s.r.y[2], !.r.mixp = rr] ELSE s
        x0 == s1.r.x[1]
        s2 == DoMul([s1 EXCEPT !.r.y[1] = u, !.r.x[1] = u], 0, TRUE, TRUE)
        ph == P2B(s2, 0)[2]
        s3 == [s2 EXCEPT !.r.p0h_cbs = ph, !.r.y[1] = ph, !.r.x[1] = x0, !.r.y[2] = v]
    IN  DoMul(DoMul(s3, 0, TRUE, TRUE), 1, TRUE, TRUE)

\* mma core: ProductSum, then both multiplications
MmaTail(s, g, k) == DoMul(DoMul(s, 0, g[k] = 1, g[k + 1] = 1), 1, g[k + 2] = 1, g[k + 3] = 1)
MmaSum(s, an, g, k) == ProductSum(s, g[k + 4], an, g[k + 5], g[k + 6], g[k + 7], g[k + 8])
RegNameOf(v) == RegNameOrder[v + 1]
SwapX(s) == [s EXCEPT !.r.x = <<s.r.x[2], s.r.x[1]>>]
=============================================================================
