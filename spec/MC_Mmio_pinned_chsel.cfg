\* the code before "fix: DMA channel select is a 3-bit field": 0x1BE kept all 16 bits, so 0x1BE := 8
\* left the window pointing outside channels[0..7] -> WindowReachable is violated
CONSTANTS
  FixedChannelSelect = FALSE
  FixedWindowRaw = FALSE
  FixedWatchdogRestart = FALSE
  ValMode = 1
  NBases = 2
SPECIFICATION Spec
INVARIANTS TypeOK WindowReachable
CHECK_DEADLOCK FALSE
