CONSTANTS W = 16
  Mods <- AllMods
INIT Init
NEXT Next
INVARIANT Inv
