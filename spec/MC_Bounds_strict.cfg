CONSTANTS W = 16
 KnownCauses <- None
INIT Init
NEXT Next
INVARIANTS InBounds
CHECK_DEADLOCK FALSE
