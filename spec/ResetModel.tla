------------------------------- MODULE ResetModel -------------------------------
(* Design-level model for C17 at component granularity: which parts of the machine Teakra::Reset brings    *)
(* back to the fresh state.  Every component is "fresh" or "dirty"; any API call may dirty any component;     *)
(* Reset freshens exactly the components in ResetSet (what Teakra::Impl::Reset and the Reset functions it     *)
(* calls cover -- bound to the code by ResetTrace: every observation group belongs to one component).         *)
(* Invariant: right after Reset every modelled component is fresh.                                            *)
EXTENDS Naturals, FiniteSets
CONSTANT ResetSet
Components == {"memory", "miu", "icu", "apbp", "apbp_irq_disable", "timers", "ahbm", "dma", "btdmp", "registers",
               "interrupt_latches", "ar_arp_shadows", "mmio_storage"}
VARIABLES vState, vJustReset
Init == vState = [c \in Components |-> "fresh"] /\ vJustReset = FALSE
Dirty(c) == vState' = [vState EXCEPT ![c] = "dirty"] /\ vJustReset' = FALSE
Reset == vState' = [c \in Components |-> IF c \in ResetSet THEN "fresh" ELSE vState[c]] /\ vJustReset' = TRUE
Next == Reset \/ \E c \in Components : Dirty(c)
Spec == Init /\ [][Next]_<<vState, vJustReset>>
ResetIsFresh == vJustReset => \A c \in Components : vState[c] = "fresh"
=============================================================================
