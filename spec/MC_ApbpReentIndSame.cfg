CONSTANTS SemW = 6  MaxDepth = 1  FixedReentry = TRUE
SPECIFICATION Spec
INVARIANT TypeOK
CONSTRAINT NoSteps
CHECK_DEADLOCK FALSE
