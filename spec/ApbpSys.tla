------------------------------- MODULE ApbpSys -------------------------------
(* The two APBP objects as Teakra wires them (src/teakra.cpp), the host side  *)
(* reached through the facade API (include/teakra/teakra.h) and the DSP side  *)
(* through the MMIO registers 0x0C0-0x0D8 (src/mmio.cpp), plus ICU request    *)
(* bit 14 (0x200 read / 0x202 acknowledge; src/icu.h).                        *)
(*                                                                            *)
(*   fc  apbp_from_cpu : host sends/sets, DSP receives/acknowledges/masks;    *)
(*       every handler of it is icu.TriggerSingle(0xE)                        *)
(*   fd  apbp_from_dsp : DSP sends/sets, host receives/acknowledges/masks;    *)
(*       handlers are what the host installed (SetRecvDataHandler(i), Set-    *)
(*       SemaphoreHandler)                                                    *)
(*   icu ICU request bit 14 (latched by Trigger, cleared by Acknowledge)      *)
(*   s4 s6 s8  backing storage of the BitFieldCells 0x0D4/0x0D6/0x0D8: bits   *)
(*       without a getter read back what was last written (never reset)       *)
(*                                                                            *)
(* Every operator returns [y |-> system state after, ret |-> value returned,  *)
(* hc |-> handler invocations in order], one invocation being                 *)
(*   [h |-> "irq", a |-> 0x0D6 as the DSP reads it at that moment, b |-> 0x0D2]*)
(*   [h |-> "d<i>", a |-> RecvDataIsReady(i), b |-> PeekRecvData(i)]  (host)  *)
(*   [h |-> "sem", a |-> GetSemaphore(), b |-> signal flag]            (host)  *)
EXTENDS Apbp

CONSTANTS Junk,  \* model checking: values written to 0x0D6/0x0D8 and to the non-CI bits of 0x0D4
          Sides  \* model checking: which objects the explored calls act on: {"fc","fd"} = the whole
                 \* system; {"fc"} / {"fd"} = one direction alone (the other object only sees Reset)

W16 == 65535
RECURSIVE SumTo(_, _)
SumTo(f, n) == IF n = 0 THEN 0 ELSE f[n-1] + SumTo(f, n-1)   \* f[0] + ... + f[n-1]
SumCh(f) == SumTo(f, NCh)

\* --- register map (src/mmio.cpp, block "APBP") ---------------------------------------------
AReply(c) == 192 + 4 * c       \* 0x0C0 + 4c  set: fd.SendData(c)      get: fd.PeekData(c)
ACmd(c)   == 194 + 4 * c       \* 0x0C2 + 4c  set: nothing             get: fc.RecvData(c)  (!)
ASet  == 204                   \* 0x0CC       set: fd.SetSemaphore     get: fd.GetSemaphore
AMask == 206                   \* 0x0CE       set: fc.MaskSemaphore    get: fc.GetSemaphoreMask
AAck  == 208                   \* 0x0D0       set: fc.ClearSemaphore   get: 0
AGet  == 210                   \* 0x0D2       set: nothing             get: fc.GetSemaphore
ACfg  == 212                   \* 0x0D4       bits 8,12,13 = fc disable_interrupt 0,1,2
ASts  == 214                   \* 0x0D6
APsts == 216                   \* 0x0D8
AIcuReq == 512                 \* 0x200       get: ICU::GetRequest
AIcuAck == 514                 \* 0x202       set: ICU::Acknowledge   get: 0
IRQ == 14                      \* all four fc handlers: icu.TriggerSingle(0xE)

CIpos == <<8, 12, 13>>         \* 0x0D4: CI0 CI1 CI2
C6pos == <<8, 12, 13>>         \* 0x0D6: fc.IsDataReady(0,1,2)
R6pos(c) == 5 + c              \* 0x0D6: fd.IsDataReady(c)
S6pos == 9                     \* 0x0D6: fc.IsSemaphoreSignaled
S8pos == 9                     \* 0x0D8: fc.IsSemaphoreSignaled (sic: the same object as 0x0D6)
R8pos(c) == 10 + c             \* 0x0D8: fd.IsDataReady(c)
C8pos(c) == 13 + c             \* 0x0D8: fc.IsDataReady(c)

CfgMask  == SumCh([c \in Chan |-> 2^CIpos[c+1]])
StsMask  == SumCh([c \in Chan |-> 2^R6pos(c) + 2^C6pos[c+1]]) + 2^S6pos
PstsMask == SumCh([c \in Chan |-> 2^R8pos(c) + 2^C8pos(c)]) + 2^S8pos

\* Cell::BitFieldCell get: the stored word with the bits that have a getter replaced
CfgVal(y)  == (y.s4 & (W16 - CfgMask)) + SumCh([c \in Chan |-> y.fc.dis[c] * 2^CIpos[c+1]])
StsVal(y)  == (y.s6 & (W16 - StsMask))
              + SumCh([c \in Chan |-> y.fd.rdy[c] * 2^R6pos(c) + y.fc.rdy[c] * 2^C6pos[c+1]])
              + y.fc.sig * 2^S6pos
PstsVal(y) == (y.s8 & (W16 - PstsMask))
              + SumCh([c \in Chan |-> y.fd.rdy[c] * 2^R8pos(c) + y.fc.rdy[c] * 2^C8pos(c)])
              + y.fc.sig * 2^S8pos

SysFresh == [fc |-> Fresh, fd |-> Fresh, icu |-> 0, s4 |-> 0, s6 |-> 0, s8 |-> 0]

DName == <<"d0", "d1", "d2">>
Res(y, ret, hc) == [y |-> y, ret |-> ret, hc |-> hc]

\* an operation on apbp_from_cpu: every handler of it triggers ICU irq 14
WireFc(y, r) ==
    LET mid == [y EXCEPT !.fc = r.mid]
    IN  Res([y EXCEPT !.fc = r.s, !.icu = IF r.hc # <<>> THEN 1 ELSE y.icu], r.ret,
            [i \in 1..Len(r.hc) |-> [h |-> "irq", a |-> StsVal(mid), b |-> mid.fc.sem]])
\* an operation on apbp_from_dsp: the handlers are the host's
WireFd(y, r) ==
    Res([y EXCEPT !.fd = r.s], r.ret,
        [i \in 1..Len(r.hc) |->
            IF r.hc[i] = SEMH THEN [h |-> "sem", a |-> r.mid.sem, b |-> r.mid.sig]
            ELSE [h |-> DName[r.hc[i] + 1], a |-> r.mid.rdy[r.hc[i]], b |-> r.mid.dat[r.hc[i]]]])

\* --- host side: the facade (src/teakra.cpp) -----------------------------------------------
HSendData(y, c, v)      == WireFc(y, SendData(y.fc, c, v))
HSendDataIsEmpty(y, c)  == Res(y, 1 - IsDataReady(y.fc, c).ret, <<>>)
HRecvDataIsReady(y, c)  == Res(y, IsDataReady(y.fd, c).ret, <<>>)
HRecvData(y, c)         == WireFd(y, RecvData(y.fd, c))
HPeekRecvData(y, c)     == WireFd(y, PeekData(y.fd, c))
HSetSemaphore(y, b)     == WireFc(y, SetSemaphore(y.fc, b))
HGetSemaphore(y)        == WireFd(y, GetSemaphore(y.fd))
HClearSemaphore(y, b)   == WireFd(y, ClearSemaphore(y.fd, b))
HMaskSemaphore(y, b)    == WireFd(y, MaskSemaphore(y.fd, b))
\* Teakra::Reset: both objects and (since the fix b81da6f in /repo) the ICU; the MMIO cell storage is not touched
HReset(y)               == Res([y EXCEPT !.fc = Reset(y.fc).s, !.fd = Reset(y.fd).s, !.icu = 0], 0, <<>>)

\* --- DSP side: MMIORead / MMIOWrite -------------------------------------------------------
IsReply(a) == \E c \in Chan : a = AReply(c)
IsCmd(a)   == \E c \in Chan : a = ACmd(c)
ChanOf(a)  == ((a - 192) \div 4)
Addrs      == {AReply(c) : c \in Chan} \cup {ACmd(c) : c \in Chan}
              \cup {ASet, AMask, AAck, AGet, ACfg, ASts, APsts, AIcuReq, AIcuAck}

MmioWrite(y, a, v) ==
    CASE IsReply(a)  -> WireFd(y, SendData(y.fd, ChanOf(a), v))
      [] IsCmd(a)    -> Res(y, 0, <<>>)
      [] a = ASet    -> WireFd(y, SetSemaphore(y.fd, v))
      [] a = AMask   -> WireFc(y, MaskSemaphore(y.fc, v))
      [] a = AAck    -> WireFc(y, ClearSemaphore(y.fc, v))
      [] a = AGet    -> Res(y, 0, <<>>)
      [] a = ACfg    -> Res([y EXCEPT !.s4 = v,
                                      !.fc.dis = [c \in Chan |-> Bit(v, CIpos[c+1])]], 0, <<>>)
      [] a = ASts    -> Res([y EXCEPT !.s6 = v], 0, <<>>)
      [] a = APsts   -> Res([y EXCEPT !.s8 = v], 0, <<>>)
      [] a = AIcuAck -> Res([y EXCEPT !.icu = IF Bit(v, IRQ) = 1 THEN 0 ELSE y.icu], 0, <<>>)
      [] a = AIcuReq -> Res(y, 0, <<>>)          \* NoSet

MmioRead(y, a) ==
    CASE IsReply(a)  -> WireFd(y, PeekData(y.fd, ChanOf(a)))
      [] IsCmd(a)    -> WireFc(y, RecvData(y.fc, ChanOf(a)))     \* reading CMDc receives
      [] a = ASet    -> WireFd(y, GetSemaphore(y.fd))
      [] a = AMask   -> WireFc(y, GetSemaphoreMask(y.fc))
      [] a = AAck    -> Res(y, 0, <<>>)
      [] a = AGet    -> WireFc(y, GetSemaphore(y.fc))
      [] a = ACfg    -> Res(y, CfgVal(y), <<>>)
      [] a = ASts    -> Res(y, StsVal(y), <<>>)
      [] a = APsts   -> Res(y, PstsVal(y), <<>>)
      [] a = AIcuReq -> Res(y, y.icu * 2^IRQ, <<>>)
      [] a = AIcuAck -> Res(y, 0, <<>>)

\* everything either side can read without changing anything (tuples are 1-based: channel c at c+1)
PerCh(F(_)) == [i \in 1..NCh |-> F(i - 1)]
Obs(y) == [cfg  |-> MmioRead(y, ACfg).ret,  sts  |-> MmioRead(y, ASts).ret,
           psts |-> MmioRead(y, APsts).ret, req  |-> MmioRead(y, AIcuReq).ret,
           rep  |-> PerCh(LAMBDA c : MmioRead(y, AReply(c)).ret),
           set  |-> MmioRead(y, ASet).ret,  mask |-> MmioRead(y, AMask).ret,
           get  |-> MmioRead(y, AGet).ret,
           hemp |-> PerCh(LAMBDA c : HSendDataIsEmpty(y, c).ret),
           hrdy |-> PerCh(LAMBDA c : HRecvDataIsReady(y, c).ret),
           hpk  |-> PerCh(LAMBDA c : HPeekRecvData(y, c).ret),
           hsem |-> HGetSemaphore(y).ret]

-----------------------------------------------------------------------------
(* State machine: every history of host calls and DSP register accesses.     *)
(* ev is the log of the last step (call, arguments, return value, handler    *)
(* invocations); lw is a history variable: the value last written to each    *)
(* data register since the last Reset.  ev is kept out of the fingerprint    *)
(* (VIEW): it is a function of the step and influences nothing.              *)
VARIABLES y, lw, ev
vars == <<y, lw, ev>>
View == <<y, lw>>

LwZero == [cpu |-> [c \in Chan |-> 0], dsp |-> [c \in Chan |-> 0]]
LwAfter(name, c, v) ==
    CASE name = "HSendData"           -> [lw EXCEPT !.cpu[c] = v]
      [] name = "W" /\ IsReply(c)     -> [lw EXCEPT !.dsp[ChanOf(c)] = v]
      [] name \in {"HReset", "New"}   -> LwZero
      [] OTHER                        -> lw

\* c: channel (host calls) or register address ("R"/"W");  v: value argument (0 when none)
Do(name, c, v, res) ==
    /\ y'  = res.y
    /\ lw' = LwAfter(name, c, v)
    /\ ev' = [e |-> name, c |-> c, v |-> v, ret |-> res.ret, hc |-> res.hc]

Init == y = SysFresh /\ lw = LwZero /\ ev = [e |-> "New", c |-> 0, v |-> 0, ret |-> 0, hc |-> <<>>]

CfgWrites == {SumCh([c \in Chan |-> f[c] * 2^CIpos[c+1]]) + j :
                 f \in [Chan -> 0..1], j \in {k \in Junk : (k & CfgMask) = 0}}

OnFc == "fc" \in Sides
OnFd == "fd" \in Sides
HostSend  == OnFc /\ \E c \in Chan, v \in Data : Do("HSendData", c, v, HSendData(y, c, v))
HostRecv  == OnFd /\ \E c \in Chan : Do("HRecvData", c, 0, HRecvData(y, c))
HostSet   == OnFc /\ \E b \in SemVals : Do("HSetSemaphore", 0, b, HSetSemaphore(y, b))
HostAck   == OnFd /\ \E b \in SemVals : Do("HClearSemaphore", 0, b, HClearSemaphore(y, b))
HostMask  == OnFd /\ \E b \in SemVals : Do("HMaskSemaphore", 0, b, HMaskSemaphore(y, b))
HostReset == Do("HReset", 0, 0, HReset(y))
DspSend   == OnFd /\ \E c \in Chan, v \in Data : Do("W", AReply(c), v, MmioWrite(y, AReply(c), v))
DspRecv   == OnFc /\ \E c \in Chan : Do("R", ACmd(c), 0, MmioRead(y, ACmd(c)))
DspSet    == OnFd /\ \E b \in SemVals : Do("W", ASet, b, MmioWrite(y, ASet, b))
DspAck    == OnFc /\ \E b \in SemVals : Do("W", AAck, b, MmioWrite(y, AAck, b))
DspMask   == OnFc /\ \E b \in SemVals : Do("W", AMask, b, MmioWrite(y, AMask, b))
DspCfg    == OnFc /\ \E v \in CfgWrites : Do("W", ACfg, v, MmioWrite(y, ACfg, v))
DspStsW   == \E a \in {ASts, APsts}, v \in Junk : Do("W", a, v, MmioWrite(y, a, v))
DspIrqAck == OnFc /\ Do("W", AIcuAck, 2^IRQ, MmioWrite(y, AIcuAck, 2^IRQ))

Next == \/ HostSend \/ HostRecv \/ HostSet \/ HostAck \/ HostMask \/ HostReset
        \/ DspSend \/ DspRecv \/ DspSet \/ DspAck \/ DspMask \/ DspCfg \/ DspStsW \/ DspIrqAck
Spec == Init /\ [][Next]_vars

-----------------------------------------------------------------------------
(* Property layer (C14), system level                                        *)

SysState == [fc : ApbpState, fd : ApbpState, icu : 0..1, s4 : 0..W16, s6 : 0..W16, s8 : 0..W16]
TypeOK == y \in SysState /\ y.fc.dis \in [Chan -> 0..1] /\ y.fd.dis = [c \in Chan |-> 0]

\* every per-object rule, on both objects, from every reachable state
ObjectRulesHold == ObjectRules(y.fc) /\ ObjectRules(y.fd)

\* "the signal flag always equals ((semaphore AND NOT mask) is non-zero)" -- both directions, and as
\* the DSP reads it (S, bit 9 of 0x0D6)
SignalInv    == SignalOK(y.fc) /\ SignalOK(y.fd)
SignalStatus == Bit(MmioRead(y, ASts).ret, 9) = FlagP(y.fc)

\* "the peer is interrupted whenever that flag rises and never while it stays zero", per call
SemInterruptRulesHold == SemInterruptRules(y.fc) /\ SemInterruptRules(y.fd)

\* "... returns the most recently written value": what a data register holds is what was last written
LastWritten == \A c \in Chan : y.fc.dat[c] = lw.cpu[c] /\ y.fd.dat[c] = lw.dsp[c]

\* "the DSP-side status registers and the host API report the same data-ready flags"
\* (bit layout of src/apbp.md: 0x0D6 R0..2 = 5,6,7  C0,C1,C2 = 8,12,13;  0x0D8 R0..2 = 10..12  C0..2 = 13..15;
\*  0x0D4 CI0,CI1,CI2 = 8,12,13)
DocC6 == <<8, 12, 13>>
DocCI == <<8, 12, 13>>
StatusAgree ==
    LET sts == MmioRead(y, ASts).ret  psts == MmioRead(y, APsts).ret  cfg == MmioRead(y, ACfg).ret IN
    \A c \in Chan :
        /\ Bit(sts, 5 + c)       = HRecvDataIsReady(y, c).ret
        /\ Bit(psts, 10 + c)     = HRecvDataIsReady(y, c).ret
        /\ Bit(sts, DocC6[c+1])  = 1 - HSendDataIsEmpty(y, c).ret
        /\ Bit(psts, 13 + c)     = 1 - HSendDataIsEmpty(y, c).ret
        /\ HRecvDataIsReady(y, c).ret = y.fd.rdy[c] /\ HSendDataIsEmpty(y, c).ret = 1 - y.fc.rdy[c]
        /\ Bit(cfg, DocCI[c+1])  = y.fc.dis[c]

\* reads other than CMDc, the host getters and peeks change nothing and interrupt nobody;
\* writes to the read-only registers CMDc / GET_SEMAPHORE / 0x200 are ignored
PureAddrs == (Addrs \ {ACmd(c) : c \in Chan})
PureReads ==
    /\ \A a \in PureAddrs : LET r == MmioRead(y, a) IN r.y = y /\ r.hc = <<>>
    /\ \A c \in Chan : /\ HPeekRecvData(y, c) = Res(y, y.fd.dat[c], <<>>)
                       /\ HSendDataIsEmpty(y, c).y = y /\ HRecvDataIsReady(y, c).y = y
                       /\ MmioRead(y, AReply(c)).ret = y.fd.dat[c]
    /\ HGetSemaphore(y) = Res(y, y.fd.sem, <<>>)
    /\ \A a \in {ACmd(c) : c \in Chan} \cup {AGet, AIcuReq} : MmioWrite(y, a, W16) = Res(y, 0, <<>>)

NumH(hc, h) == Len(SelectSeq(hc, LAMBDA x : x.h = h))

\* Send: ready set, the peer interrupted exactly once unless disabled -- the DSP through ICU irq 14
\* (request bit latched), the host through the handler of THAT channel, flag and data already visible
DataInterrupts ==
    [][ /\ ev'.e = "HSendData" =>
              /\ y'.fc.rdy[ev'.c] = 1
              /\ Len(ev'.hc) = (IF y.fc.dis[ev'.c] = 0 THEN 1 ELSE 0)
              /\ NumH(ev'.hc, "irq") = Len(ev'.hc)
              /\ y.fc.dis[ev'.c] = 0 => y'.icu = 1 /\ Bit(ev'.hc[1].a, C6pos[ev'.c + 1]) = 1
        /\ (ev'.e = "W" /\ IsReply(ev'.c)) =>
              /\ y'.fd.rdy[ChanOf(ev'.c)] = 1
              /\ ev'.hc = << [h |-> DName[ChanOf(ev'.c) + 1], a |-> 1, b |-> ev'.v] >>
      ]_vars

\* Recv returns the last written value and clears the flag; the flag changes in no other way
RecvReturnsLast ==
    [][ /\ ev'.e = "HRecvData" => ev'.ret = lw.dsp[ev'.c] /\ y'.fd.rdy[ev'.c] = 0
        /\ (ev'.e = "R" /\ IsCmd(ev'.c)) => ev'.ret = lw.cpu[ChanOf(ev'.c)] /\ y'.fc.rdy[ChanOf(ev'.c)] = 0
      ]_vars

\* the action property of the statement, on the transitions the system really takes: irq 14 / the
\* host's semaphore handler on every rise of the flag, never while it stays zero (irq 14 is shared
\* with the data channels: a host send is the one other cause)
Rises(s, t) == FlagP(s) = 0 /\ FlagP(t) = 1
StaysZero(s, t) == FlagP(s) = 0 /\ FlagP(t) = 0
SemaphoreInterrupts ==
    [][ /\ Rises(y.fc, y'.fc) => NumH(ev'.hc, "irq") >= 1 /\ y'.icu = 1
        /\ (StaysZero(y.fc, y'.fc) /\ ev'.e # "HSendData") => NumH(ev'.hc, "irq") = 0
        /\ Rises(y.fd, y'.fd) => NumH(ev'.hc, "sem") >= 1
        /\ StaysZero(y.fd, y'.fd) => NumH(ev'.hc, "sem") = 0
      ]_vars

\* request bit 14 is a latch: up only by an interrupt, down only by the acknowledge write (or a reset)
IcuLatch ==
    [][ /\ (y.icu = 0 /\ y'.icu = 1) => NumH(ev'.hc, "irq") >= 1
        /\ (y.icu = 1 /\ y'.icu = 0) => (ev'.e = "W" /\ ev'.c = AIcuAck) \/ ev'.e \in {"New", "HReset"}   \* New: another instance; Reset resets the ICU
        /\ NumH(ev'.hc, "irq") >= 1 => y'.icu = 1
      ]_vars
=============================================================================
