------------------------------- MODULE Btdmp -------------------------------
(* The transmit half of one BTDMP audio port (src/btdmp.h, src/btdmp.cpp,     *)
(* doc src/btdmp.md), as the code has it (as-is layer: one operator per       *)
(* public entry point of class Btdmp), next to the properties that C16 states *)
(* (property layer).                                                          *)
(*                                                                            *)
(* The port state is one record                                               *)
(*   q   transmit_queue, oldest word first (words are u16, 0..65535)          *)
(*   tm  transmit_timer (u16)          pd  transmit_period (u16)              *)
(*   en  transmit_enable (u16, any non-zero value enables)                    *)
(*   em  transmit_empty flag 0/1       fu  transmit_full flag 0/1             *)
(*   cc  transmit_clock_config (u16, stored and read back, nothing else)      *)
(* and every operator returns                                                 *)
(*   [s |-> next state, ev |-> the callbacks made by the call, in order,      *)
(*    out |-> "ok" | "assert" | "fpe"]                                        *)
(* A callback is a triple: <<0, l, r>> one stereo frame handed to the audio   *)
(* callback, <<1, 0, 0>> one call of the interrupt handler.  Samples are      *)
(* written as unsigned 16-bit numbers: the code casts each queued u16 to s16  *)
(* for the callback, the recorder casts it back, the cast loses nothing.      *)
EXTENDS Naturals, Sequences, TLC

CONSTANTS Cap,               \* queue capacity: 16 in the code, 4 in model checking
          TW,                \* modulus of ++transmit_timer: 65536 in the code
          ResetPeriod,       \* period after Reset: 4096 in the code
          FixedSkipOverrun   \* FALSE: Skip as pinned; TRUE: Skip repaired for transmit_timer >= transmit_period
                             \* (period lowered to or below the running phase, or period 0), see SkipOp

\* model-checking parameters (unused by the trace specification)
CONSTANTS Vals,              \* sample words sent
          Periods,           \* values given to SetTransmitPeriod
          Clocks,            \* values given to SetTransmitClockConfig
          K,                 \* largest k tried by Skip / compared against Tick^k
          G,                 \* bound on the ghost history (accepted words since Reset)
          PhaseKept          \* TRUE: SetTransmitPeriod only to a value above the running phase (and never 0)

INF == 2147483647            \* stands for CoreTiming::Callbacks::Infinity (largest TLC integer)

IRQ         == <<1, 0, 0>>
Frame(l, r) == <<0, l, r>>
Frames(ev)  == SelectSeq(ev, LAMBDA e : e[1] = 0)
Irqs(ev)    == Len(SelectSeq(ev, LAMBDA e : e[1] = 1))

ResetState == [q |-> <<>>, tm |-> 0, pd |-> ResetPeriod, en |-> 0, em |-> 1, fu |-> 0, cc |-> 0]

Ok(s, ev) == [s |-> s, ev |-> ev, out |-> "ok"]

\* Btdmp::Reset, and the member initialisers seen by a freshly constructed object
ResetOp(s) == Ok(ResetState, <<>>)

\* plain setters (mmio.cpp binds clock config to 0x2A2 and enable to 0x2BE; the period has no register)
SetClockOp(s, v)  == Ok([s EXCEPT !.cc = v], <<>>)
SetPeriodOp(s, v) == Ok([s EXCEPT !.pd = v], <<>>)
SetEnableOp(s, v) == Ok([s EXCEPT !.en = v], <<>>)

\* Btdmp::Send (0x2C6): a write to a full queue is dropped (the code only prints "overrun")
SendOp(s, v) ==
    IF Len(s.q) = Cap THEN Ok(s, <<>>)
    ELSE LET q1 == Append(s.q, v)
         IN  Ok([s EXCEPT !.q = q1, !.em = 0, !.fu = IF Len(q1) = Cap THEN 1 ELSE 0], <<>>)

\* Btdmp::SetTransmitFlush (0x2CA): the written value is ignored, no callback
FlushOp(s, v) == Ok([s EXCEPT !.q = <<>>, !.em = 1, !.fu = 0], <<>>)

\* one turn of the pop loop of Tick: [s, w word for the frame, irq 0/1]
PopTick(s) ==
    IF s.q = <<>> THEN [s |-> s, w |-> 0, irq |-> 0]
    ELSE LET q1 == Tail(s.q)
             e  == IF q1 = <<>> THEN 1 ELSE 0
         IN  [s |-> [s EXCEPT !.q = q1, !.em = e, !.fu = 0], w |-> Head(s.q), irq |-> e]

\* Btdmp::Tick.  ++transmit_timer wraps in 16 bits; `>=` so that a period lowered to or below the
\* running phase transmits on the next tick, and period 0 transmits on every tick.  The interrupt
\* handler runs inside the pop loop, i.e. before the frame reaches the audio callback.
TickOp(s) ==
    IF s.en = 0 THEN Ok(s, <<>>)
    ELSE LET t1 == (s.tm + 1) % TW IN
         IF t1 >= s.pd
         THEN LET a == PopTick([s EXCEPT !.tm = 0])
                  b == PopTick(a.s)
              IN  Ok(b.s, (IF a.irq = 1 THEN <<IRQ>> ELSE <<>>) \o (IF b.irq = 1 THEN <<IRQ>> ELSE <<>>)
                          \o <<Frame(a.w, b.w)>>)
         ELSE Ok([s EXCEPT !.tm = t1], <<>>)

\* Btdmp::GetMaxSkip
Horizon(s) ==
    IF s.en = 0 \/ s.q = <<>> THEN INF
    ELSE (IF s.tm < s.pd THEN s.pd - s.tm - 1 ELSE 0) + (((Len(s.q) + 1) \div 2) - 1) * s.pd

\* one turn of the pop loop of Skip: ASSERT(!transmit_queue.empty()) sits between the pop and
\* `transmit_full = false`; the empty flag is never touched, no interrupt is ever raised
PopSkip(s) ==
    IF s.q = <<>> THEN [s |-> s, w |-> 0, ok |-> TRUE]
    ELSE LET q1 == Tail(s.q) IN
         IF q1 = <<>> THEN [s |-> [s EXCEPT !.q = q1], w |-> Head(s.q), ok |-> FALSE]
         ELSE [s |-> [s EXCEPT !.q = q1, !.fu = 0], w |-> Head(s.q), ok |-> TRUE]

RECURSIVE SkipLoop(_, _, _)
SkipLoop(s, c, ev) ==
    IF c = 0 THEN Ok(s, ev)
    ELSE LET a == PopSkip(s) IN
         IF ~ a.ok THEN [s |-> a.s, ev |-> ev, out |-> "assert"]
         ELSE LET b == PopSkip(a.s) IN
              IF ~ b.ok THEN [s |-> b.s, ev |-> ev, out |-> "assert"]
              ELSE SkipLoop(b.s, c - 1, Append(ev, Frame(a.w, b.w)))

\* Btdmp::Skip.
\* As pinned: `if (transmit_timer >= transmit_period) transmit_timer = 0;` then
\* future = timer + ticks, cycles = future / period, timer = future % period.  With period 0 the
\* division traps (SIGFPE, the process dies: outcome "fpe", no state afterwards); with
\* 0 < period <= timer the phase is restarted, also by Skip(0), although Tick transmits on the very
\* next tick in that state (defect, see MC_Btdmp_pinned.cfg).
\* Repaired (FixedSkipOverrun): ticks = 0 returns early; timer >= period is treated like Tick does:
\* the first skipped tick transmits, the remaining ticks - 1 run from phase 0.
SkipOp(s, k) ==
    IF s.en = 0 THEN Ok(s, <<>>)
    ELSE IF FixedSkipOverrun /\ k = 0 THEN Ok(s, <<>>)
    ELSE IF FixedSkipOverrun /\ s.tm >= s.pd
         THEN LET cyc == 1 + (IF s.pd = 0 THEN k - 1 ELSE (k - 1) \div s.pd)
                  t1  == IF s.pd = 0 THEN 0 ELSE (k - 1) % s.pd
              IN  SkipLoop([s EXCEPT !.tm = t1], cyc, <<>>)
    ELSE IF s.pd = 0 THEN [s |-> s, ev |-> <<>>, out |-> "fpe"]
    ELSE LET t0  == IF s.tm >= s.pd THEN 0 ELSE s.tm
             fut == t0 + k
         IN  SkipLoop([s EXCEPT !.tm = fut % s.pd], fut \div s.pd, <<>>)

\* what the MMIO getters show: 0x2C2 status (bit 3 full, bit 4 empty), 0x2A2, 0x2BE, 0x2CA (always 0)
Mmio(s) == <<8 * s.fu + 16 * s.em, s.cc, s.en, 0>>

-----------------------------------------------------------------------------
(* Ghost history, kept next to the port by the state machines below:         *)
(*   gin   the words an ideal 'Cap'-word FIFO accepted since Reset, minus the *)
(*         ones discarded by a flush                                          *)
(*   gout  the words delivered so far (frame positions backed by a pending    *)
(*         word; padding positions are judged by gpad)                        *)
(*   gpad  TRUE as long as every padding position carried a zero              *)
(* The ghosts are updated from the call arguments and the observed callbacks  *)
(* only, never from the port's own queue.                                     *)

Min(a, b) == IF a <= b THEN a ELSE b

RECURSIVE Absorb(_, _, _, _)
Absorb(gi, go, pad, fs) ==
    IF fs = <<>> THEN [go |-> go, pad |-> pad]
    ELSE LET n == IF Len(gi) >= Len(go) THEN Len(gi) - Len(go) ELSE 0    \* words pending in the ideal FIFO
             r == Min(2, n)
             f == Head(fs)
         IN  Absorb(gi, go \o SubSeq(<<f[2], f[3]>>, 1, r),
                    pad /\ (r < 1 => f[2] = 0) /\ (r < 2 => f[3] = 0), Tail(fs))

VARIABLES s, ev, outc, gin, gout, gpad
vars == <<s, ev, outc, gin, gout, gpad>>

Apply(r) == s' = r.s /\ ev' = r.ev /\ outc' = r.out

\* the call produced result r; gi is the ideal FIFO's input history after the call's own effect on it
Do(r, gi) == /\ Apply(r)
             /\ gin' = gi
             /\ LET a == Absorb(gi, gout, gpad, Frames(r.ev)) IN gout' = a.go /\ gpad' = a.pad

Pending == IF Len(gin) >= Len(gout) THEN Len(gin) - Len(gout) ELSE 0
Kept    == SubSeq(gin, 1, Min(Len(gin), Len(gout)))     \* history without the pending words

DoSend(v)      == Do(SendOp(s, v), IF Pending < Cap THEN Append(gin, v) ELSE gin)
DoFlush(v)     == Do(FlushOp(s, v), Kept)
DoReset        == Apply(ResetOp(s)) /\ gin' = <<>> /\ gout' = <<>> /\ gpad' = TRUE
DoTick         == Do(TickOp(s), gin)
DoSkip(k)      == Do(SkipOp(s, k), gin)
DoSetPeriod(v) == Do(SetPeriodOp(s, v), gin)
DoSetEnable(v) == Do(SetEnableOp(s, v), gin)
DoSetClock(v)  == Do(SetClockOp(s, v), gin)

Init == s = ResetState /\ ev = <<>> /\ outc = "ok" /\ gin = <<>> /\ gout = <<>> /\ gpad = TRUE

\* every history of API calls; Skip only up to the reported horizon, as CoreTiming::Skip does
Next == \/ DoTick
        \/ DoReset
        \/ \E v \in Vals : DoSend(v)
        \/ DoFlush(1)
        \/ \E v \in 0..1 : DoSetEnable(v)
        \/ \E v \in Clocks : DoSetClock(v)
        \/ \E v \in Periods : (PhaseKept => (v > s.tm /\ v > 0)) /\ DoSetPeriod(v)
        \/ \E k \in 0..K : k <= Horizon(s) /\ DoSkip(k)
Spec == Init /\ [][Next]_vars

HistoryBound == Len(gin) <= G       \* state CONSTRAINT of the MC configurations

-----------------------------------------------------------------------------
(* Property layer (C16)                                                      *)

TypeOK == /\ s.q \in Seq(Nat) /\ Len(s.q) <= Cap
          /\ s.tm \in 0..TW-1 /\ s.em \in 0..1 /\ s.fu \in 0..1
          /\ outc \in {"ok", "assert", "fpe"}

\* "no word is lost, duplicated or reordered": what came out is a prefix of what went in ...
FifoOrder == Len(gout) <= Len(gin) /\ gout = SubSeq(gin, 1, Len(gout))
\* ... and everything else is still queued, in order (so it will come out, once); this is also
\* "writes to a full queue are dropped": the ideal FIFO refused exactly the words the port refused
NothingLost == s.q = SubSeq(gin, Len(gout) + 1, Len(gin))
\* "zeros for missing words" (and only there: positions backed by a word carry that word, FifoOrder)
ZerosOnlyWhenShort == gpad

\* "the full/empty flags are exact"
FlagsExact == (s.em = 1 <=> Len(s.q) = 0) /\ (s.fu = 1 <=> Len(s.q) = Cap)

Word(i) == IF i <= Len(s.q) THEN s.q[i] ELSE 0

\* one Tick from every reachable state: a frame exactly when the enabled timer reaches the period,
\* made of the two oldest words, the interrupt exactly when that pop empties the queue (and before
\* the frame is delivered), nothing else moves
TickRules ==
    LET n     == TickOp(s)
        t1    == (s.tm + 1) % TW
        fires == s.en # 0 /\ t1 >= s.pd
        L     == Len(s.q)
    IN  /\ n.out = "ok"
        /\ ~ fires => n.ev = <<>> /\ n.s = [s EXCEPT !.tm = IF s.en # 0 THEN t1 ELSE s.tm]
        /\ fires => /\ Frames(n.ev) = <<Frame(Word(1), Word(2))>>
                    /\ n.s.q = SubSeq(s.q, Min(2, L) + 1, L)
                    /\ n.s.tm = 0
                    /\ Irqs(n.ev) = (IF L \in 1..2 THEN 1 ELSE 0)
                    /\ Len(n.ev) = 1 + Irqs(n.ev) /\ n.ev[Len(n.ev)][1] = 0
                    /\ n.s.em = (IF L <= 2 THEN 1 ELSE 0) /\ n.s.fu = (IF L = 0 THEN s.fu ELSE 0)
                    /\ [n.s EXCEPT !.q = s.q, !.tm = s.tm, !.em = s.em, !.fu = s.fu] = s

\* "writes to a full queue are dropped", "flushing empties it silently"
SendFlushRules ==
    /\ \A v \in Vals : LET n == SendOp(s, v) IN
          /\ n.ev = <<>> /\ n.out = "ok"
          /\ n.s.q = (IF Len(s.q) = Cap THEN s.q ELSE Append(s.q, v))
          /\ Len(s.q) = Cap => n.s = s
          /\ [n.s EXCEPT !.q = s.q, !.em = s.em, !.fu = s.fu] = s
    /\ LET n == FlushOp(s, 1) IN
          /\ n.ev = <<>> /\ n.out = "ok" /\ n.s.q = <<>> /\ n.s.em = 1 /\ n.s.fu = 0
          /\ [n.s EXCEPT !.q = s.q, !.em = s.em, !.fu = s.fu] = s

\* k single ticks, callbacks accumulated in order
RECURSIVE TickN(_, _)
TickN(r, k) == IF k = 0 THEN r
               ELSE LET n == TickOp(r.s)
                    IN  TickN([s |-> n.s, ev |-> r.ev \o n.ev,
                               out |-> IF r.out = "ok" THEN n.out ELSE r.out], k - 1)

\* "exactly one stereo frame reaches the audio callback every period cycles": from every reachable
\* enabled state the next frame comes after exactly period - phase ticks (1 tick if the period was
\* lowered to or below the phase) and restarts the phase, so the one after comes exactly one period
\* later.  Period 0: a frame on every tick.
TicksToFrame == IF s.tm < s.pd THEN s.pd - s.tm ELSE 1
OneFramePerPeriod ==
    (s.en # 0 /\ s.tm # TW - 1) =>
        /\ \A j \in 0..Min(TicksToFrame - 1, K) : Frames(TickN(Ok(s, <<>>), j).ev) = <<>>
        /\ TicksToFrame <= K =>
              LET r == TickN(Ok(s, <<>>), TicksToFrame)
              IN  Len(Frames(r.ev)) = 1 /\ r.s.tm = 0
DisabledIsSilent == s.en = 0 => \A j \in 0..K : TickN(Ok(s, <<>>), j) = Ok(s, <<>>)

\* "advancing by k cycles at once (up to the reported horizon) equals k single cycles": same state,
\* same callbacks in the same order, same outcome
SkipIsTicks ==
    \A k \in 0..K : k <= Horizon(s) => SkipOp(s, k) = TickN(Ok(s, <<>>), k)

\* the horizon never skips over an interrupt
NoIrqInHorizon ==
    \A k \in 0..K : k <= Horizon(s) => Irqs(TickN(Ok(s, <<>>), k).ev) = 0

\* within the horizon the skip neither trips its assertion nor divides by zero
SkipNeverFails ==
    \A k \in 0..K : k <= Horizon(s) => SkipOp(s, k).out = "ok"

\* "the empty interrupt fires exactly when a pop empties the queue, flushing empties it silently":
\* over all calls of the state machine, one handler call iff frames were delivered and the queue went
\* from non-empty to empty
IrqExactlyOnEmptyingPop ==
    [][Irqs(ev') = (IF Frames(ev') # <<>> /\ s.q # <<>> /\ s'.q = <<>> THEN 1 ELSE 0)]_vars
=============================================================================
