CONSTANTS Lo = 0  Hi = 4095
INIT Init
NEXT Next
INVARIANT Inv
