---------------------------- MODULE TimerTrace ----------------------------
(* Trace validation for C15: an execution recorded from real Timer objects   *)
(* (harness/drivers/timer_rec.cpp) must be a behaviour of Timer.tla.  Every  *)
(* line names the call, its arguments, the complete timer state after it,    *)
(* the interrupt-handler calls it made, its outcome and the horizon reported *)
(* afterwards; the trace action applies the specification's operator to the  *)
(* current specification state and requires equality with all of it.         *)
EXTENDS Timer, Json, IOUtils

Log == ndJsonDeserialize(IOEnv.TRACE)

VARIABLE l
tvars == <<t, fired, outc, l>>

Rec == Log[l]
St(r) == [c |-> r.t.c, s |-> r.t.s, m |-> r.t.m, p |-> r.t.p, u |-> r.t.u, mi |-> r.t.mi, sc |-> r.t.sc]

Matches(res) == /\ res.t   = St(Rec)
                /\ res.irq = Rec.irq
                /\ res.out = Rec.out
                /\ Horizon(res.t) = Rec.h

Step(res) == Matches(res) /\ Apply(res) /\ l' = l + 1

IsEvent(e) == l <= Len(Log) /\ Rec.e = e

\* a new object straight from its constructor must already be in the reset state (C17 for the timer)
TNew       == IsEvent("New")       /\ Step(ResetOp(t))
TTick      == IsEvent("Tick")      /\ Step(TickOp(t))
TTickEvent == IsEvent("TickEvent") /\ Step(TickEventOp(t))
TRestart   == IsEvent("Restart")   /\ Step(RestartOp(t))
TReset     == IsEvent("Reset")     /\ Step(ResetOp(t))
TSkip      == IsEvent("Skip")      /\ Step(SkipOp(t, Rec.k))
TSetMode   == IsEvent("SetMode")   /\ Step(SetMode(t, Rec.v))
TSetPause  == IsEvent("SetPause")  /\ Step(SetPause(t, Rec.v))
TSetUpd    == IsEvent("SetUpd")    /\ Step(SetUpd(t, Rec.v))
TSetStart  == IsEvent("SetStart")  /\ Step(SetStart(t, Rec.v))
TSetMirror == IsEvent("SetMirror") /\ Step(SetMirror(t, Rec.v))
TSetScale  == IsEvent("SetScale")  /\ Step(Ok([t EXCEPT !.sc = Rec.v], 0))

TraceInit == Init /\ l = 1
TraceNext == TNew \/ TTick \/ TTickEvent \/ TRestart \/ TReset \/ TSkip \/ TSetMode \/ TSetPause
             \/ TSetUpd \/ TSetStart \/ TSetMirror \/ TSetScale
TraceSpec == TraceInit /\ [][TraceNext]_tvars

\* the properties of the property layer, re-evaluated on every state of the observed execution
\* at full width is not possible for the k-quantified ones (k ranges over 2^32 values); the
\* per-tick rules are cheap and are checked on every observed state.
ObservedTickRules == t.sc = 0 => (TickRules /\ EventRules)

TraceAccepted ==
    /\ PrintT(<<"TRACE_MATCHED", TLCGet("stats").diameter - 1, Len(Log)>>)
    /\ TLCGet("stats").diameter - 1 = Len(Log)
=============================================================================
