---------------------------- MODULE TimerTrace ----------------------------
(* Trace validation for C15: an execution recorded from real Timer objects   *)
(* (harness/drivers/timer_rec.cpp) must be a behaviour of Timer.tla.  Every  *)
(* line names the call, its arguments, the complete timer state after it,    *)
(* the interrupt-handler calls it made, its outcome and the horizon reported *)
(* afterwards; the trace action applies the specification's operator to the  *)
(* current specification state and requires equality with all of it.         *)
EXTENDS Timer, Json, IOUtils

Log == ndJsonDeserialize(IOEnv.TRACE)

VARIABLE vL
tvars == <<vT, vFired, vOutc, vL>>

Rec == Log[vL]
St(r) == [c |-> r.t.c, s |-> r.t.s, m |-> r.t.m, p |-> r.t.p, u |-> r.t.u, mi |-> r.t.mi, sc |-> r.t.sc]

Matches(res) == /\ res.t   = St(Rec)
                /\ res.irq = Rec.irq
                /\ res.out = Rec.out
                /\ Horizon(res.t) = Rec.h

Step(res) == Matches(res) /\ Apply(res) /\ vL' = vL + 1

IsEvent(e) == vL <= Len(Log) /\ Rec.e = e

\* a new object straight from its constructor must already be in the reset state (C17 for the timer)
TNew       == IsEvent("New")       /\ Step(ResetOp(vT))
TTick      == IsEvent("Tick")      /\ Step(TickOp(vT))
TTickEvent == IsEvent("TickEvent") /\ Step(TickEventOp(vT))
TRestart   == IsEvent("Restart")   /\ Step(RestartOp(vT))
TReset     == IsEvent("Reset")     /\ Step(ResetOp(vT))
TSkip      == IsEvent("Skip")      /\ Step(SkipOp(vT, Rec.k))
TSetMode   == IsEvent("SetMode")   /\ Step(SetMode(vT, Rec.v))
TSetPause  == IsEvent("SetPause")  /\ Step(SetPause(vT, Rec.v))
TSetUpd    == IsEvent("SetUpd")    /\ Step(SetUpd(vT, Rec.v))
TSetStart  == IsEvent("SetStart")  /\ Step(SetStart(vT, Rec.v))
TSetMirror == IsEvent("SetMirror") /\ Step(SetMirror(vT, Rec.v))
TSetScale  == IsEvent("SetScale")  /\ Step(Ok([vT EXCEPT !.sc = Rec.v], 0))

TraceInit == Init /\ vL = 1
TraceNext == TNew \/ TTick \/ TTickEvent \/ TRestart \/ TReset \/ TSkip \/ TSetMode \/ TSetPause
             \/ TSetUpd \/ TSetStart \/ TSetMirror \/ TSetScale
TraceSpec == TraceInit /\ [][TraceNext]_tvars

\* the properties of the property layer, re-evaluated on every state of the observed execution
\* at full width is not possible for the k-quantified ones (k ranges over 2^32 values); the
\* per-tick rules are cheap and are checked on every observed state.
ObservedTickRules == vT.sc = 0 => (TickRules /\ EventRules)

TraceAccepted ==
    /\ PrintT(<<"TRACE_MATCHED", TLCGet("stats").diameter - 1, Len(Log)>>)
    /\ TLCGet("stats").diameter - 1 = Len(Log)
=============================================================================
