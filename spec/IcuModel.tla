------------------------------- MODULE IcuModel -------------------------------
(* Design-level model for C07: the interrupt controller and the interrupt part of the core, built from    *)
(* the SAME operators the trace specifications use (System!IcuTrigger / IcuAck, TeakCore!Latch / Enter),  *)
(* explored over every interleaving of trigger / acknowledge / route / mask / enable operations and       *)
(* instruction boundaries, for IRQ sources Irqs and the core lines int0, int1 and the vectored line.      *)
(* Ghost state: owed[k] = a request has been signalled to line k (by a trigger of an IRQ that was routed  *)
(* to k at that moment) and not yet served.                                                               *)
EXTENDS System

CONSTANTS Irqs                   \* the IRQ numbers in play, e.g. {3, 10}

VARIABLES vC, vIcu, vOwed, vLast
mvars == <<vC, vIcu, vOwed, vLast>>

RECURSIVE BitsOf(_)
BitsOf(T) == IF T = {} THEN 0 ELSE LET q == CHOOSE q \in T : TRUE IN 2 ^ q + BitsOf(T \ {q})
SubBits == {BitsOf(T) : T \in SUBSET Irqs}

PC0 == 4660   SP0 == 4096
Core0 == [r |-> [ResetRegs EXCEPT !.pc = PC0, !.sp = SP0], mem |-> [a \in {} |-> 0], io |-> [a \in {} |-> 0], acc |-> <<>>,
          out |-> "ok", idle |-> FALSE, lat |-> <<0, 0, 0, 0>>, vaddr |-> 0, vctx |-> 0, miu |-> MiuReset]
Y == [c |-> vC, icu |-> vIcu]

Init == /\ vC = Core0 /\ vIcu = IcuReset /\ vOwed = <<FALSE, FALSE, FALSE, FALSE>> /\ vLast = <<"init", 0>>

Routed(irq, k) == IF k <= 3 THEN Bit(vIcu.en[k], irq) = 1 ELSE Bit(vIcu.ven, irq) = 1

Trigger(irq) ==
    LET y1 == IcuTrigger(Y, 2 ^ irq) IN
    /\ vC' = y1.c /\ vIcu' = y1.icu
    /\ vOwed' = [k \in 1 .. 4 |-> vOwed[k] \/ Routed(irq, k)]
    /\ vLast' = <<"trigger", irq>>
Ack(bits) == /\ vIcu' = IcuAck(Y, bits).icu /\ vLast' = <<"ack", bits>> /\ UNCHANGED <<vC, vOwed>>
SetEnable(k, bits) == /\ vIcu' = IF k <= 3 THEN [vIcu EXCEPT !.en[k] = bits] ELSE [vIcu EXCEPT !.ven = bits]
                      /\ vLast' = <<"route", k>> /\ UNCHANGED <<vC, vOwed>>
SetMask(k, b) == /\ vC' = IF k <= 3 THEN [vC EXCEPT !.r.im[k] = b] ELSE [vC EXCEPT !.r.imv = b]
                 /\ vLast' = <<"mask", k>> /\ UNCHANGED <<vIcu, vOwed>>
SetIe(b) == /\ vC' = [vC EXCEPT !.r.ie = b] /\ vLast' = <<"ie", b>> /\ UNCHANGED <<vIcu, vOwed>>

\* one instruction boundary: latch, then (unless a single-instruction repeat is running) interrupt entry.
\* The program counter / stack of the abstract program are put back afterwards so that the model is finite.
EnteredLine(c0, c1) == IF c1.r.ie = c0.r.ie THEN 0
                       ELSE IF \E k \in 1 .. 3 : c1.r.pc = 6 + 8 * (k - 1) THEN CHOOSE k \in 1 .. 3 : c1.r.pc = 6 + 8 * (k - 1) ELSE 4
BoundaryResult(rep) == Enter([Latch(vC) EXCEPT !.r.rep = rep])
Boundary(rep) ==
    LET c1 == BoundaryResult(rep)
        k  == EnteredLine(Latch(vC), c1)
    IN  /\ vC' = [c1 EXCEPT !.r.pc = PC0, !.r.sp = SP0, !.mem = Core0.mem, !.acc = <<>>, !.r.rep = 0]
        /\ vOwed' = [j \in 1 .. 4 |-> IF j = k THEN FALSE ELSE vOwed[j]]
        /\ vLast' = <<"boundary", k>>
        /\ UNCHANGED vIcu

Next == \/ \E irq \in Irqs : Trigger(irq)
        \/ \E b \in SubBits : Ack(b)
        \/ \E k \in {1, 2, 4} : \E b \in SubBits : SetEnable(k, b)
        \/ \E k \in {1, 2, 4} : \E b \in 0 .. 1 : SetMask(k, b)
        \/ \E b \in 0 .. 1 : SetIe(b)
        \/ \E rep \in 0 .. 1 : Boundary(rep)
Spec == Init /\ [][Next]_mvars

-----------------------------------------------------------------------------
(* Property layer (C07)                                                                                    *)
Pending(c, k) == IF k <= 3 THEN c.r.ip[k] = 1 \/ c.lat[k] = 1 ELSE c.r.ipv = 1 \/ c.lat[4] = 1
Masked(c, k)  == IF k <= 3 THEN c.r.im[k] = 0 ELSE c.r.imv = 0

\* a line is pending only because a routed request was signalled and not yet served: never spuriously
NoSpuriousPending == \A k \in 1 .. 4 : Pending(vC, k) => vOwed[k]

\* what an instruction boundary does, for every reachable state and both repeat situations
BoundaryRules ==
    \A rep \in 0 .. 1 :
        LET c0 == Latch(vC)
            c1 == BoundaryResult(rep)
            k  == EnteredLine(c0, c1)
            elig == {j \in 1 .. 4 : Pending(vC, j) /\ ~ Masked(vC, j)}
            can  == vC.r.ie = 1 /\ rep = 0 /\ elig # {}
        IN  \* entry happens exactly when the enables allow it and something is pending, on the highest priority line
            /\ (k # 0) <=> can
            /\ can => k = CHOOSE j \in elig : \A i \in elig : j <= i
            /\ k # 0 => /\ c1.r.ie = 0                                            \* global enable cleared
                        /\ ~ Pending(c1, k)                                       \* that request is consumed
                        /\ c1.r.sp = (SP0 + 65536 - 2) % 65536                     \* return address pushed:
                        /\ MemVal(c1, 131072 + c1.r.sp) = PC0 % 65536              \*   the next unexecuted instruction
                        /\ MemVal(c1, 131072 + c1.r.sp + 1) = PC0 \div 65536
                        /\ c1.r.pc = (IF k <= 3 THEN 6 + 8 * (k - 1) ELSE vC.vaddr)
            \* all other pending requests stay latched (masked ones in particular)
            /\ \A j \in 1 .. 4 : (j # k /\ Pending(vC, j)) => Pending(c1, j)
            /\ k = 0 => c1.r.pc = PC0 /\ c1.r.sp = SP0 /\ c1.r.ie = vC.r.ie

\* the controller's pending bits change only by a trigger (set) and by an acknowledge (exactly those bits)
RequestBits ==
    [][/\ vLast'[1] = "trigger" => vIcu'.req = (vIcu.req | 2 ^ vLast'[2])
       /\ vLast'[1] = "ack"     => vIcu'.req = vIcu.req - (vIcu.req & vLast'[2])
       /\ vLast'[1] \notin {"trigger", "ack"} => vIcu'.req = vIcu.req]_mvars

\* a trigger signals exactly the lines the IRQ is routed to
TriggerRouting ==
    [][vLast'[1] = "trigger" =>
          \A k \in 1 .. 4 : /\ Routed(vLast'[2], k) => vC'.lat[k] = 1
                            /\ ~ Routed(vLast'[2], k) => vC'.lat[k] = vC.lat[k]]_mvars

TypeOK == vIcu.req \in SubBits /\ vC.out = "ok"
=============================================================================
