------------------------------- MODULE IsaDiag -------------------------------
(* Diagnosis of one rejected ISA trace line: prints what the specification computes next to what the    *)
(* code did.  TRACE=<file> LINE=<n> tlc -config IsaDiag.cfg IsaDiag.tla                                   *)
EXTENDS IsaTrace
LN == atoi(IOEnv.LINE)
ASSUME PrintT(<<"DIAG", Diag(Log[LN])>>)
Init0 == vL = 1
Next0 == UNCHANGED vL
=============================================================================
