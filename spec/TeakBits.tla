------------------------------- MODULE TeakBits -------------------------------
(* Limb arithmetic for the XpertTeak data path.  TLC integers are 32-bit, the machine has 40-bit      *)
(* accumulators and 33-bit products, so a wide value is a tuple of limbs:                             *)
(*     accumulator  <<l, h, e>>   l, h \in 0..B-1 (W bits each), e \in 0..EB-1 (E = W/2 bits)          *)
(*     product      <<l, h>> plus the separate extension bit pe                                        *)
(* exactly the architecture's own aXl / aXh / aXe split.  Everything is generic in the limb width W:  *)
(* W = 16 is the real machine; with W = 4 (a 10-bit accumulator) every operator below is compared      *)
(* exhaustively against plain integer arithmetic (module AluTheorems).                                 *)
EXTENDS Integers, Sequences, Bitwise

CONSTANT W                     \* limb width in bits, even, >= 4

B   == 2 ^ W                   \* limb modulus (65536)
E   == W \div 2                \* accumulator extension width (8)
EB  == 2 ^ E                   \* (256)
HB  == B \div 2                \* weight of a limb's sign bit (32768)
ABITS == 2 * W + E             \* accumulator width (40)

Bit(x, i)  == (x \div (2 ^ i)) % 2
LimbNot(x) == B - 1 - x

AccSet == (0 .. B - 1) \X (0 .. B - 1) \X (0 .. EB - 1)
AZero  == <<0, 0, 0>>
ASign(v)  == v[3] \div (EB \div 2)                  \* bit 39
SxE(h)    == IF h >= HB THEN EB - 1 ELSE 0          \* extension that sign-extends a 32-bit value
SxH(l)    == IF l >= HB THEN B - 1 ELSE 0
FromS16(x)  == <<x, SxH(x), SxE(SxH(x))>>           \* SignExtend<16>(x)
FromU16(x)  == <<x, 0, 0>>
FromHi16(x) == <<0, x, SxE(x)>>                     \* SignExtend<32>(x << 16)
FromS32(l, h) == <<l, h, SxE(h)>>                   \* SignExtend<32>(h:l)
FromU32(l, h) == <<l, h, 0>>
IsSx32(v)   == v[3] = SxE(v[2])                     \* v = SignExtend<32>(v)
AIsZero(v)  == v = AZero

\* a + b: 40-bit sum and the carry out of bit 39
AAdd(a, b) == LET s1 == a[1] + b[1]
                  s2 == a[2] + b[2] + s1 \div B
                  s3 == a[3] + b[3] + s2 \div B
              IN  [v |-> <<s1 % B, s2 % B, s3 % EB>>, c |-> s3 \div EB]
\* a - b: 40-bit difference and the borrow (bit 40 of the unsigned difference)
ASub(a, b) == LET d1 == a[1] + B - b[1]
                  d2 == a[2] + B - b[2] - (1 - d1 \div B)
                  d3 == a[3] + EB - b[3] - (1 - d2 \div B)
              IN  [v |-> <<d1 % B, d2 % B, d3 % EB>>, c |-> 1 - d3 \div EB]

AAnd(a, b) == <<a[1] & b[1], a[2] & b[2], a[3] & b[3]>>
AOr(a, b)  == <<a[1] | b[1], a[2] | b[2], a[3] | b[3]>>
AXor(a, b) == <<a[1] ^^ b[1], a[2] ^^ b[2], a[3] ^^ b[3]>>
ANot(a)    == <<B - 1 - a[1], B - 1 - a[2], EB - 1 - a[3]>>
ANeg(a)    == ASub(AZero, a).v

\* signed comparison of two 40-bit values (a < b)
ASLt(a, b) == IF ASign(a) # ASign(b) THEN ASign(a) = 1
              ELSE \/ a[3] < b[3]
                   \/ a[3] = b[3] /\ a[2] < b[2]
                   \/ a[3] = b[3] /\ a[2] = b[2] /\ a[1] < b[1]

\* bit-level view, used for the barrel shifter and the exponent
ABit(v, i) == IF i < W THEN Bit(v[1], i) ELSE IF i < 2 * W THEN Bit(v[2], i - W) ELSE Bit(v[3], i - 2 * W)
RECURSIVE BitsToNat(_, _, _)
BitsToNat(f, lo, n) == IF n = 0 THEN 0 ELSE f[lo] + 2 * BitsToNat(f, lo + 1, n - 1)
AFromBits(f) == <<BitsToNat(f, 0, W), BitsToNat(f, W, W), BitsToNat(f, 2 * W, E)>>   \* f : 0..ABITS-1 -> {0,1}

\* 16-bit helpers
Add16(a, b)  == (a + b) % B
Sub16(a, b)  == (a + B - b) % B
SInt16(x)    == IF x >= HB THEN x - B ELSE x           \* signed reading of a limb (fits a TLC integer)
RECURSIVE BitRev(_, _)
BitRev(x, n) == IF n = 0 THEN 0 ELSE (x % 2) * (2 ^ (n - 1)) + BitRev(x \div 2, n - 1)
BitReverse16(x) == BitRev(x, W)
\* SignExtend<n>(x) as a W-bit value, for n <= W
Sx(x, n) == LET y == x % (2 ^ n) IN IF y >= 2 ^ (n - 1) THEN y + B - 2 ^ n ELSE y
\* position of the highest set bit plus one (std20::log2p1)
RECURSIVE Log2p1(_)
Log2p1(x) == IF x = 0 THEN 0 ELSE 1 + Log2p1(x \div 2)

-----------------------------------------------------------------------------
(* integer readings, only meaningful where 2^ABITS fits a TLC integer (scaled widths)                  *)
AToNat(v)  == v[1] + B * v[2] + B * B * v[3]
AToInt(v)  == IF ASign(v) = 1 THEN AToNat(v) - 2 ^ ABITS ELSE AToNat(v)
AFromInt(n) == LET m == n % (2 ^ ABITS) IN <<m % B, (m \div B) % B, m \div (B * B)>>
=============================================================================
