CONSTANTS W = 16
SPECIFICATION TraceSpec
POSTCONDITION TraceAccepted
CHECK_DEADLOCK FALSE
