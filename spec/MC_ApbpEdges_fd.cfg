\* every transition of the exhaustive one-direction model (fd), printed for replay into the real code
CONSTANTS
  NCh = 2
  Data = {1, 2}
  SemW = 2
  FixedMask = TRUE
    FixedReentry = TRUE
  Junk = {0}
  Sides = {"fd"}
SPECIFICATION Spec
VIEW View
INVARIANT TypeOK
ACTION_CONSTRAINT EdgeOut
CHECK_DEADLOCK FALSE
