---- MODULE T3_TTrace_1790642818 ----
EXTENDS Sequences, TLCExt, Toolbox, Naturals, TLC, T3

_expression ==
    LET T3_TEExpression == INSTANCE T3_TEExpression
    IN T3_TEExpression!expression
----

_trace ==
    LET T3_TETrace == INSTANCE T3_TETrace
    IN T3_TETrace!trace
----

_inv ==
    ~(
        TLCGet("level") = Len(_TETrace)
        /\
        A = (0)
        /\
        b = (1)
        /\
        v = (0)
    )
----

_init ==
    /\ A = _TETrace[1].A
    /\ b = _TETrace[1].b
    /\ v = _TETrace[1].v
----

_next ==
    /\ \E i,j \in DOMAIN _TETrace:
        /\ \/ /\ j = i + 1
              /\ i = TLCGet("level")
        /\ A  = _TETrace[i].A
        /\ A' = _TETrace[j].A
        /\ b  = _TETrace[i].b
        /\ b' = _TETrace[j].b
        /\ v  = _TETrace[i].v
        /\ v' = _TETrace[j].v

\* Uncomment the ASSUME below to write the states of the error trace
\* to the given file in Json format. Note that you can pass any tuple
\* to `JsonSerialize`. For example, a sub-sequence of _TETrace.
    \* ASSUME
    \*     LET J == INSTANCE Json
    \*         IN J!JsonSerialize("T3_TTrace_1790642818.json", _TETrace)

=============================================================================

 Note that you can extract this module `T3_TEExpression`
  to a dedicated file to reuse `expression` (the module in the 
  dedicated `T3_TEExpression.tla` file takes precedence 
  over the module `T3_TEExpression` below).

---- MODULE T3_TEExpression ----
EXTENDS Sequences, TLCExt, Toolbox, Naturals, TLC, T3

expression == 
    [
        \* To hide variables of the `T3` spec from the error trace,
        \* remove the variables below.  The trace will be written in the order
        \* of the fields of this record.
        A |-> A
        ,b |-> b
        ,v |-> v
        
        \* Put additional constant-, state-, and action-level expressions here:
        \* ,_stateNumber |-> _TEPosition
        \* ,_AUnchanged |-> A = A'
        
        \* Format the `A` variable as Json value.
        \* ,_AJson |->
        \*     LET J == INSTANCE Json
        \*     IN J!ToJson(A)
        
        \* Lastly, you may build expressions over arbitrary sets of states by
        \* leveraging the _TETrace operator.  For example, this is how to
        \* count the number of times a spec variable changed up to the current
        \* state in the trace.
        \* ,_AModCount |->
        \*     LET F[s \in DOMAIN _TETrace] ==
        \*         IF s = 1 THEN 0
        \*         ELSE IF _TETrace[s].A # _TETrace[s-1].A
        \*             THEN 1 + F[s-1] ELSE F[s-1]
        \*     IN F[_TEPosition - 1]
    ]

=============================================================================



Parsing and semantic processing can take forever if the trace below is long.
 In this case, it is advised to uncomment the module below to deserialize the
 trace from a generated binary file.

\*
\*---- MODULE T3_TETrace ----
\*EXTENDS IOUtils, TLC, T3
\*
\*trace == IODeserialize("T3_TTrace_1790642818.bin", TRUE)
\*
\*=============================================================================
\*

---- MODULE T3_TETrace ----
EXTENDS TLC, T3

trace == 
    <<
    ([A |-> 0,b |-> 1,v |-> 99999]),
    ([A |-> 0,b |-> 1,v |-> 0])
    >>
----


=============================================================================

---- CONFIG T3_TTrace_1790642818 ----
CONSTANTS
    AllCells = FALSE
    FixedWindowRaw = FALSE
    FixedWatchdogRestart = FALSE
    ValMode = 1
    NBases = 4

INVARIANT
    _inv

CHECK_DEADLOCK
    \* CHECK_DEADLOCK off because of PROPERTY or INVARIANT above.
    FALSE

INIT
    _init

NEXT
    _next

CONSTANT
    _TETrace <- _trace

ALIAS
    _expression
=============================================================================
\* Generated on Tue Sep 29 00:47:10 UTC 2026