CONSTANTS W = 16
  Mods = {0, 1, 2, 3, 4, 5, 7, 8, 15, 16, 31, 32, 63, 64, 100, 127, 128, 255, 256, 300, 510, 511}
INIT Init
NEXT Next
INVARIANT Inv
