\* as MC_ApbpEdges_fd.cfg for the PINNED (unrepaired) MaskSemaphore
CONSTANTS
  NCh = 2
  Data = {1, 2}
  SemW = 2
  FixedMask = FALSE
    FixedReentry = TRUE
  Junk = {0}
  Sides = {"fd"}
SPECIFICATION Spec
VIEW View
INVARIANT TypeOK
ACTION_CONSTRAINT EdgeOut
CHECK_DEADLOCK FALSE
