-------------------------------- MODULE Apbp --------------------------------
(* One APBP object (src/apbp.cpp, src/apbp.h, src/apbp.md): NCh mailbox data  *)
(* channels and one semaphore word, ONE direction.  Teakra owns two of them   *)
(* (apbp_from_cpu, apbp_from_dsp); their wiring is module ApbpSys.            *)
(*                                                                            *)
(* As-is layer: one operator per public entry point of class Apbp,            *)
(* transcribed from the code, quirks included.  An Apbp state is the record   *)
(*   rdy[c] dat[c] dis[c]   DataChannel::ready / data / disable_interrupt     *)
(*   sem  msk  sig          Impl::semaphore / semaphore_mask /                *)
(*                          semaphore_master_signal                           *)
(* and every operator returns                                                 *)
(*   [s   |-> state after the call,                                           *)
(*    ret |-> value returned (0 for void),                                    *)
(*    hc  |-> handlers invoked, in order: c \in Chan = data handler of        *)
(*            channel c, SEMH = the semaphore handler,                        *)
(*    mid |-> the state at the moment the handlers run (= s when none)].      *)
(* The handlers are assumed installed (Teakra installs the DSP-side ones in   *)
(* its constructor, the recorder installs the host-side ones).                *)
EXTENDS Naturals, Sequences, TLC, Bitwise

CONSTANTS NCh,        \* number of data channels (3 in the machine, 2 in model checking)
          Data,       \* values a data register is written with (0..65535 in the machine)
          SemW,       \* semaphore width in bits (16 in the machine, 2 in model checking)
          FixedMask,  \* TRUE: MaskSemaphore recomputes the signal flag and interrupts on a rise
                      \*       (the repaired code); FALSE: as pinned (it only stores the mask)
          FixedReentry \* TRUE: SetSemaphore / MaskSemaphore store the signal flag BEFORE they call the handler
                      \*       (the repaired code: the handler sees the new flag); FALSE: as pinned, the flag is
                      \*       stored after the handler returned, from a value computed before (ApbpReent.tla
                      \*       has the call as separate Begin / nested calls / End steps)

Chan    == 0..NCh-1
SEMH    == NCh                      \* handler id of the semaphore handler
SemMax  == 2^SemW - 1
SemVals == 0..SemMax
SemNot(x) == SemMax - x             \* ~x at width SemW (x \in SemVals)
B01(b)  == IF b THEN 1 ELSE 0

ApbpState == [rdy : [Chan -> 0..1], dat : [Chan -> Data \cup {0}], dis : [Chan -> 0..65535],
              sem : SemVals, msk : SemVals, sig : 0..1]

\* a freshly constructed object (member initialisers)
Fresh == [rdy |-> [c \in Chan |-> 0], dat |-> [c \in Chan |-> 0], dis |-> [c \in Chan |-> 0],
          sem |-> 0, msk |-> 0, sig |-> 0]

Ret(s, ret)         == [s |-> s, ret |-> ret, hc |-> <<>>, mid |-> s]
Call(s, ret, h, m)  == [s |-> s, ret |-> ret, hc |-> <<h>>, mid |-> m]

\* what apbp.md calls S: (GET_SEMAPHORE & ~MASK_SEMAPHORE) is non-zero
Flag(s) == B01((s.sem & SemNot(s.msk)) # 0)

\* Apbp::SendData -> DataChannel::Send : locked update, then the handler outside the lock
SendData(s, c, v) ==
    LET s1 == [s EXCEPT !.rdy[c] = 1, !.dat[c] = v]
    IN  IF s.dis[c] # 0 THEN Ret(s1, 0) ELSE Call(s1, 0, c, s1)
\* Apbp::RecvData -> DataChannel::Recv
RecvData(s, c)    == Ret([s EXCEPT !.rdy[c] = 0], s.dat[c])
\* Apbp::PeekData / IsDataReady / GetDisableInterrupt
PeekData(s, c)    == Ret(s, s.dat[c])
IsDataReady(s, c) == Ret(s, s.rdy[c])
GetDisableInterrupt(s, c)    == Ret(s, s.dis[c])
SetDisableInterrupt(s, c, v) == Ret([s EXCEPT !.dis[c] = v], 0)

\* Apbp::SetSemaphore : the handler runs whenever the new flag value is 1 (also when it already was),
\* the flag is or-ed, not assigned; pinned: the handler runs BEFORE semaphore_master_signal is stored
SetSemaphore(s, b) ==
    LET s1 == [s EXCEPT !.sem = s.sem | b]
        ns == Flag(s1)
        s2 == [s1 EXCEPT !.sig = B01(s.sig = 1 \/ ns = 1)]
    IN  IF ns = 1 THEN Call(s2, 0, SEMH, IF FixedReentry THEN s2 ELSE s1) ELSE Ret(s2, 0)
\* Apbp::ClearSemaphore
ClearSemaphore(s, b) ==
    LET s1 == [s EXCEPT !.sem = s.sem & SemNot(b)]
    IN  Ret([s1 EXCEPT !.sig = Flag(s1)], 0)
\* Apbp::MaskSemaphore
MaskSemaphore(s, b) ==
    LET s1 == [s EXCEPT !.msk = b]
        ns == Flag(s1)
        s2 == [s1 EXCEPT !.sig = ns]
    IN  IF ~ FixedMask THEN Ret(s1, 0)                         \* pinned: stores the mask, nothing else
        ELSE IF ns = 1 /\ s.sig = 0 THEN Call(s2, 0, SEMH, IF FixedReentry THEN s2 ELSE s1) \* repaired: interrupt on the rise
        ELSE Ret(s2, 0)
GetSemaphore(s)        == Ret(s, s.sem)
GetSemaphoreMask(s)    == Ret(s, s.msk)
IsSemaphoreSignaled(s) == Ret(s, s.sig)

\* Apbp::Reset -> Impl::Reset + DataChannel::Reset (disable_interrupt is reset too since the fix 2ec73fc in /repo)
Reset(s) == Ret(Fresh, 0)

-----------------------------------------------------------------------------
(* Property layer for one object (C14): what one call must do from a state  *)
(* s.  ApbpSys evaluates these on every reachable state of both directions.  *)
(* Bits are taken arithmetically here, not through the Bitwise operators the *)
(* as-is layer uses.                                                         *)

Bit(x, i)   == (x \div (2^i)) % 2
NumOf(q, h) == Len(SelectSeq(q, LAMBDA x : x = h))
\* "((semaphore AND NOT mask) is non-zero)"
FlagP(s)    == B01(\E i \in 0..SemW-1 : Bit(s.sem, i) = 1 /\ Bit(s.msk, i) = 0)

SameChannelsBut(s, t, c) == /\ \A d \in Chan \ {c} : t.rdy[d] = s.rdy[d] /\ t.dat[d] = s.dat[d]
                            /\ t.dis = s.dis
SameSemaphore(s, t)      == t.sem = s.sem /\ t.msk = s.msk /\ t.sig = s.sig

\* "Writing a data channel sets its data-ready flag and raises the peer's interrupt unless that
\*  channel's interrupt is disabled" (exactly that channel's handler, once, with the flag already up)
SendRules(s) ==
    \A c \in Chan, v \in Data :
        LET r == SendData(s, c, v) IN
        /\ r.s.rdy[c] = 1 /\ r.s.dat[c] = v
        /\ SameChannelsBut(s, r.s, c) /\ SameSemaphore(s, r.s)
        /\ r.hc = (IF s.dis[c] = 0 THEN <<c>> ELSE <<>>)
        /\ r.hc # <<>> => r.mid.rdy[c] = 1 /\ r.mid.dat[c] = v

\* "reading it returns the most recently written value and clears the flag"
\* (that dat[c] IS the most recently written value is ApbpSys!LastWritten)
RecvRules(s) ==
    \A c \in Chan :
        LET r == RecvData(s, c) IN
        /\ r.ret = s.dat[c] /\ r.s.rdy[c] = 0 /\ r.s.dat[c] = s.dat[c]
        /\ SameChannelsBut(s, r.s, c) /\ SameSemaphore(s, r.s) /\ r.hc = <<>>

\* "peeking does neither"; the other getters are pure as well
PeekRules(s) ==
    /\ \A c \in Chan : /\ PeekData(s, c) = Ret(s, s.dat[c])
                       /\ IsDataReady(s, c) = Ret(s, s.rdy[c])
                       /\ GetDisableInterrupt(s, c) = Ret(s, s.dis[c])
    /\ GetSemaphore(s) = Ret(s, s.sem) /\ GetSemaphoreMask(s) = Ret(s, s.msk)
    /\ IsSemaphoreSignaled(s) = Ret(s, s.sig)

\* "Semaphore bits accumulate on set and clear on acknowledge"; the mask is what was last written
SemRules(s) ==
    \A b \in SemVals :
        LET st == SetSemaphore(s, b).s  cl == ClearSemaphore(s, b).s  mk == MaskSemaphore(s, b).s IN
        /\ \A i \in 0..SemW-1 :
              /\ Bit(st.sem, i) = B01(Bit(s.sem, i) = 1 \/ Bit(b, i) = 1)
              /\ Bit(cl.sem, i) = B01(Bit(s.sem, i) = 1 /\ Bit(b, i) = 0)
        /\ st.msk = s.msk /\ cl.msk = s.msk /\ mk.msk = b /\ mk.sem = s.sem
        /\ \A t \in {st, cl, mk} : SameChannelsBut(s, t, NCh) /\ t.sem \in SemVals

\* "the signal flag always equals ((semaphore AND NOT mask) is non-zero)"
SignalOK(s) == s.sig = FlagP(s)

\* "the peer is interrupted whenever that flag rises and never while it stays zero" -- for the call
\* s -> r (more interrupts while the flag stays one are allowed by the statement)
InterruptRule(s, r) ==
    /\ (FlagP(s) = 0 /\ FlagP(r.s) = 1) => NumOf(r.hc, SEMH) >= 1
    /\ (FlagP(s) = 0 /\ FlagP(r.s) = 0) => NumOf(r.hc, SEMH) = 0
SemInterruptRules(s) ==
    /\ \A b \in SemVals : /\ InterruptRule(s, SetSemaphore(s, b))
                          /\ InterruptRule(s, ClearSemaphore(s, b))
                          /\ InterruptRule(s, MaskSemaphore(s, b))
    /\ \A c \in Chan : /\ \A v \in Data : InterruptRule(s, SendData(s, c, v))
                       /\ InterruptRule(s, RecvData(s, c))
    /\ InterruptRule(s, Reset(s))

\* Reset: no data pending, semaphore, mask and flag zero (what it leaves alone is C17's business)
ResetRules(s) ==
    LET r == Reset(s) IN
    /\ \A c \in Chan : r.s.rdy[c] = 0 /\ r.s.dat[c] = 0
    /\ r.s.sem = 0 /\ r.s.msk = 0 /\ r.s.sig = 0 /\ r.hc = <<>>

ObjectRules(s) == SendRules(s) /\ RecvRules(s) /\ PeekRules(s) /\ SemRules(s) /\ ResetRules(s)
=============================================================================
