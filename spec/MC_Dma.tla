------------------------------ MODULE MC_Dma ------------------------------
(* Configuration spaces for model checking Dma.tla (substituted for the      *)
(* CONSTANTS SizeSet/StepPairs/ModeSet/BaseSet/AhbmSet by the MC_Dma*.cfg    *)
(* files; a .cfg cannot write tuples).  Steps are u16 values added to the    *)
(* 32-bit cursor, so "-1" is B-1 and moves the cursor forward by B-1.        *)
EXTENDS Dma

ASSUME AhbmTheorems
ASSUME ClosedFormIsDocExample
ASSUME WMulIsProduct

S4 == {0, 1, 2, B - 1}
Trip(S) == S \X S \X S
Rot(t) == <<t[2], t[3], t[1]>>
Uni(S) == { << <<a, a, a>>, <<b, b, b>> >> : a \in S, b \in S }

Sizes03 == 0..3

\* ---- DSP <-> DSP
DspModes  == { <<0, 0, 0>>, <<0, 0, 1>> }
NoAhbm    == { <<0, 0>> }
\* every source step triple, against a rotated destination triple and against uniform ones
QuickPairs == { <<t, Rot(t)>> : t \in Trip(S4) } \cup Uni(S4)
FullPairs  == Trip(S4) \X Trip(S4)
\* source before / after / on the destination, and next to the 2^32 (here B^2) wrap
DspBases == { << <<0, 0>>, <<0, 1>> >>, << <<0, 1>>, <<0, 0>> >>, << <<0, 2>>, <<0, 2>> >>,
              << <<B-1, B-2>>, <<0, 3>> >>, << <<0, 3>>, <<B-1, B-1>> >> }
DspBases2 == { << <<0, 0>>, <<0, 1>> >>, << <<0, 1>>, <<0, 0>> >> }
DspBasesQuick == { << <<0, 0>>, <<0, 1>> >>, << <<0, 1>>, <<0, 0>> >>, << <<B-1, B-2>>, <<B-1, B-1>> >> }

\* ---- one or both sides external (needs B >= 8 so that step 4 = one 32-bit unit exists)
ExtModes == { <<0, 7, 0>>, <<0, 7, 1>>, <<7, 0, 0>>, <<7, 0, 1>>, <<7, 7, 0>>, <<7, 7, 1>> }
AhbmNat  == (0..2) \X (0..2)          \* unit 8/16/32 x burst 1/4/8
AhbmQuick == { <<0, 0>>, <<1, 0>>, <<1, 1>>, <<1, 2>>, <<2, 0>>, <<2, 2>> }
AhbmAll  == (0..3) \X (0..3)          \* plus the unknown encodings
ExtPairsQuick == Uni({1, 2, 4}) \cup { << <<2, 4, B-1>>, <<4, 2, 0>> >> }
ExtPairs      == Uni({0, 1, 2, 4, B-1}) \cup { <<t, Rot(t)>> : t \in Trip({1, 2, 4}) }
ExtBasesQuick == { << <<0, 0>>, <<0, 4>> >>, << <<0, 3>>, <<0, 1>> >> }
ExtBases3     == { << <<0, 0>>, <<0, 4>> >>, << <<0, 3>>, <<0, 1>> >>, << <<B-1, B-4>>, <<B-1, B-2>> >> }
ExtBases      == { << <<0, 0>>, <<0, 4>> >>, << <<0, 4>>, <<0, 0>> >>, << <<0, 3>>, <<0, 1>> >>,
                   << <<0, 2>>, <<0, 2>> >>, << <<B-1, B-4>>, <<B-1, B-2>> >> }

\* ---- D9 at scale (RealMap = TRUE): a source that starts on the last in-range cursor
OobBases == { << <<1, B-1>>, <<0, 0>> >> }

\* ---- the trigger of defect D8: double-word mode with size0 = B-1 (0xFFFF on the real machine)
D8Sizes == {B - 1, 1}
D8Pairs == { << <<0, 0, 0>>, <<0, 0, 0>> >>, << <<2, 1, 1>>, <<2, 1, 1>> >> }
D8Bases == { << <<0, 0>>, <<0, 2>> >> }
=============================================================================
