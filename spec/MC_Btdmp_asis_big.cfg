\* C16, exhaustive, thorough: Btdmp::Skip as pinned, with the trigger of its defect excluded: the period is
\* only ever set to a value above the running phase (never 0).  Capacity 6, periods 1..4, three word
\* values, ghost history up to 6 accepted words, k up to 11.
CONSTANTS
  Cap = 6
  TW = 8
  ResetPeriod = 2
  FixedSkipOverrun = FALSE
  Vals = {0, 1, 2}
  Periods = {1, 2, 3, 4}
  Clocks = {0}
  K = 11
  G = 6
  PhaseKept = TRUE
SPECIFICATION Spec
CONSTRAINT HistoryBound
INVARIANTS TypeOK FifoOrder NothingLost ZerosOnlyWhenShort FlagsExact TickRules SendFlushRules
           OneFramePerPeriod DisabledIsSilent SkipIsTicks NoIrqInHorizon SkipNeverFails
PROPERTY IrqExactlyOnEmptyingPop
CHECK_DEADLOCK FALSE
