----------------------------- MODULE TeakDecode -----------------------------
(* Instruction decoding (decoder.h / matcher.h / operand.h): which row of the instruction table a *)
(* 16-bit word selects, whether it needs a second word, what operand values the handler receives, *)
(* and the canonical form of a word (unused bits cleared).  Property layer: C02's decode clauses. *)
EXTENDS Naturals, Sequences, FiniteSets, Bitwise, TeakDecodeTable, TeakOperand

N == Len(Rows)
Pow2(n) == 2 ^ n

\* bits of the first word occupied by one operand descriptor
OpMask(o) == IF o.k \in {"at", "atn"} THEN (IF o.p = 16 THEN 0 ELSE ((Pow2(o.b) - 1) * Pow2(o.p)) % 65536)
             ELSE IF o.k = "unused" THEN Pow2(o.p) ELSE 0

RECURSIVE SumMasks(_, _)
SumMasks(ops, i) == IF i > Len(ops) THEN 0 ELSE OpMask(ops[i]) + SumMasks(ops, i + 1)
RECURSIVE OrMasks(_, _)
OrMasks(ops, i) == IF i > Len(ops) THEN 0 ELSE OpMask(ops[i]) | OrMasks(ops, i + 1)

OperandBits == [i \in 1..N |-> OrMasks(Rows[i].ops, 1)]       \* MatcherCreator: mask = ~(operand masks)
RowMask     == [i \in 1..N |-> 65535 - OperandBits[i]]
NeedExpRow  == [i \in 1..N |-> \E j \in 1..Len(Rows[i].ops) : Rows[i].ops[j].k \in {"at","atn"} /\ Rows[i].ops[j].p = 16]
UnusedBits  == [i \in 1..N |-> LET U == {j \in 1..Len(Rows[i].ops) : Rows[i].ops[j].k = "unused"}
                               IN  IF U = {} THEN 0 ELSE OrMasks([j \in 1..Len(Rows[i].ops) |->
                                        IF j \in U THEN Rows[i].ops[j] ELSE [k |-> "cn", t |-> "", p |-> 0, b |-> 0, v |-> 0]], 1)]

Rejected(i, w) == \E j \in 1..Len(Rows[i].rej) : (w & Rows[i].rej[j].m) = Rows[i].rej[j].u
Matches(i, w)  == (w & RowMask[i]) = Rows[i].expected /\ ~ Rejected(i, w)

\* rows whose fixed bits are compatible with a given top byte (pure speed-up of Matching: a row outside
\* Bucket[w \div 256] cannot match w because it disagrees with w on a fixed bit of the top byte)
Bucket == [t \in 0..255 |-> {i \in 1..N : ((t * 256) & RowMask[i] & 65280) = (Rows[i].expected & 65280)}]
Matching(w) == {i \in Bucket[w \div 256] : Matches(i, w)}
MatchingSlow(w) == {i \in 1..N : Matches(i, w)}
\* 0 = undefined opcode
Decode(w) == LET S == Matching(w) IN IF S = {} THEN 0 ELSE CHOOSE i \in S : \A j \in S : i <= j

NeedExp(w) == LET i == Decode(w) IN i # 0 /\ NeedExpRow[i]
Canon(w)   == LET i == Decode(w) IN IF i = 0 THEN w ELSE w - (w & UnusedBits[i])

\* operand values handed to the handler, in declaration order, unused bits not passed
ArgValue(o, w, x) ==
    CASE o.k = "at"    -> IF o.p = 16 THEN x ELSE (w \div Pow2(o.p)) % Pow2(o.b)
      [] o.k = "atn"   -> RegNameIndex(RegOf(o.t, (w \div Pow2(o.p)) % Pow2(o.b))) - 1
      [] o.k = "const" -> o.v
      [] o.k = "cn"    -> o.v
Args(i, w, x) == LET P == SelectSeq(Rows[i].ops, LAMBDA o : o.k # "unused")
                 IN  [j \in 1..Len(P) |-> ArgValue(P[j], w, x)]

-----------------------------------------------------------------------------
(* Property layer (checked for all 65536 words by MC_Decode)                  *)

\* table well-formedness: operand fields are pairwise disjoint and disjoint from the fixed bits
TableWellFormed ==
    \A i \in 1..N : /\ SumMasks(Rows[i].ops, 1) = OperandBits[i]
                    /\ (Rows[i].expected & OperandBits[i]) = 0
                    /\ \A j \in 1..Len(Rows[i].ops) :
                          Rows[i].ops[j].k \in {"at","atn"} => (Rows[i].ops[j].p = 16 <=> Rows[i].ops[j].b = 16)

AtMostOneRow(w)   == Cardinality(Matching(w)) <= 1
BucketsSound(w)   == Matching(w) = MatchingSlow(w)
CanonSameRow(w)   == LET i == Decode(w) IN
                     i # 0 => LET c == w - (w & UnusedBits[i]) IN
                              /\ Decode(c) = i
                              /\ \A x \in {0, 65535} : Args(i, c, x) = Args(i, w, x)
                              /\ (c & UnusedBits[i]) = 0
                              /\ (c & w) = c
\* every variant of the unused bits decodes to the same row with the same operands
UnusedIrrelevant(w) == LET i == Decode(w) IN
                       i # 0 /\ UnusedBits[i] # 0 =>
                          \A v \in 0..65535 : (v & (65535 - UnusedBits[i])) = (w & (65535 - UnusedBits[i]))
                                               => Decode(v) = i /\ Args(i, v, 0) = Args(i, w, 0)
=============================================================================
