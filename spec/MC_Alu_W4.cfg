CONSTANTS W = 4  Dev_ShiftBy40 = TRUE
INIT Init
NEXT Next
INVARIANT Inv
