\* the pinned code: TIMERx_CFG := RES | CM in 4..6 (documented watchdog modes) stops the emulator in
\* ASSERT(count_mode < 4) (Timer::Restart) and leaves the raw word unwritten -> NoAbort is violated
CONSTANTS
  FixedChannelSelect = TRUE
  FixedWindowRaw = FALSE
  FixedWatchdogRestart = FALSE
  ValMode = 1
  NBases = 2
SPECIFICATION Spec
INVARIANTS TypeOK NoAbort
CHECK_DEADLOCK FALSE
