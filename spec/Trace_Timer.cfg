CONSTANTS
  B = 65536
  FixedSkipZero = TRUE
SPECIFICATION TraceSpec
INVARIANT ObservedTickRules
POSTCONDITION TraceAccepted
CHECK_DEADLOCK FALSE
