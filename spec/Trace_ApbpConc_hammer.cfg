\* hammer episodes (hammer_rec): as Trace_ApbpConc.cfg, blind receives of a never-written mailbox allowed
\* trace validation at full width: three channels, sixteen semaphore bits.  The locking constants only
\* matter for the lockset ghost, which is not judged on traces (locks are not observable from outside;
\* ThreadSanitizer observes the races, see the module header); the MC budgets are unused.
CONSTANTS
  Chans = {0, 1, 2}
  SemFull = 65535
  FixedDisableIrqLock = TRUE
  FixedVectorLock = TRUE
  HandlerInsideLock = FALSE
  VectoredOn = FALSE
  NSend = 0
  NHostOps = 0
  SemVals = {}
  NDis = 0
  NVec = 0
  NCbSend = 0
  HostKinds = {"Empty", "PollRecv", "SemSet", "SemGet", "SemClr", "SemMask"}
  NDspMask = 0
  TrackLockset = FALSE
SPECIFICATION TraceSpec
INVARIANT ObservedHammer
POSTCONDITION TraceAccepted
CHECK_DEADLOCK FALSE
