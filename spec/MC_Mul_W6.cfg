CONSTANTS W = 6
INIT Init
NEXT Next
INVARIANT Inv
