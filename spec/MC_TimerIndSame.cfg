CONSTANTS B = 3  FixedSkipZero = TRUE
INIT Init
NEXT Next
INVARIANT Same
CHECK_DEADLOCK FALSE
