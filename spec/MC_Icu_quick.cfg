CONSTANTS W = 16  Irqs = {10}
SPECIFICATION Spec
INVARIANTS TypeOK NoSpuriousPending BoundaryRules
PROPERTIES RequestBits TriggerRouting
CHECK_DEADLOCK FALSE
