---- MODULE MC_Reset_TTrace_1790650472 ----
EXTENDS Sequences, TLCExt, Toolbox, Naturals, TLC, MC_Reset

_expression ==
    LET MC_Reset_TEExpression == INSTANCE MC_Reset_TEExpression
    IN MC_Reset_TEExpression!expression
----

_trace ==
    LET MC_Reset_TETrace == INSTANCE MC_Reset_TETrace
    IN MC_Reset_TETrace!trace
----

_inv ==
    ~(
        TLCGet("level") = Len(_TETrace)
        /\
        vJustReset = (TRUE)
        /\
        vState = ([memory |-> "fresh", miu |-> "fresh", icu |-> "fresh", apbp |-> "fresh", apbp_irq_disable |-> "fresh", timers |-> "fresh", ahbm |-> "fresh", dma |-> "fresh", btdmp |-> "fresh", registers |-> "fresh", interrupt_latches |-> "fresh", ar_arp_shadows |-> "fresh", mmio_storage |-> "dirty"])
    )
----

_init ==
    /\ vJustReset = _TETrace[1].vJustReset
    /\ vState = _TETrace[1].vState
----

_next ==
    /\ \E i,j \in DOMAIN _TETrace:
        /\ \/ /\ j = i + 1
              /\ i = TLCGet("level")
        /\ vJustReset  = _TETrace[i].vJustReset
        /\ vJustReset' = _TETrace[j].vJustReset
        /\ vState  = _TETrace[i].vState
        /\ vState' = _TETrace[j].vState

\* Uncomment the ASSUME below to write the states of the error trace
\* to the given file in Json format. Note that you can pass any tuple
\* to `JsonSerialize`. For example, a sub-sequence of _TETrace.
    \* ASSUME
    \*     LET J == INSTANCE Json
    \*         IN J!JsonSerialize("MC_Reset_TTrace_1790650472.json", _TETrace)

=============================================================================

 Note that you can extract this module `MC_Reset_TEExpression`
  to a dedicated file to reuse `expression` (the module in the 
  dedicated `MC_Reset_TEExpression.tla` file takes precedence 
  over the module `MC_Reset_TEExpression` below).

---- MODULE MC_Reset_TEExpression ----
EXTENDS Sequences, TLCExt, Toolbox, Naturals, TLC, MC_Reset

expression == 
    [
        \* To hide variables of the `MC_Reset` spec from the error trace,
        \* remove the variables below.  The trace will be written in the order
        \* of the fields of this record.
        vJustReset |-> vJustReset
        ,vState |-> vState
        
        \* Put additional constant-, state-, and action-level expressions here:
        \* ,_stateNumber |-> _TEPosition
        \* ,_vJustResetUnchanged |-> vJustReset = vJustReset'
        
        \* Format the `vJustReset` variable as Json value.
        \* ,_vJustResetJson |->
        \*     LET J == INSTANCE Json
        \*     IN J!ToJson(vJustReset)
        
        \* Lastly, you may build expressions over arbitrary sets of states by
        \* leveraging the _TETrace operator.  For example, this is how to
        \* count the number of times a spec variable changed up to the current
        \* state in the trace.
        \* ,_vJustResetModCount |->
        \*     LET F[s \in DOMAIN _TETrace] ==
        \*         IF s = 1 THEN 0
        \*         ELSE IF _TETrace[s].vJustReset # _TETrace[s-1].vJustReset
        \*             THEN 1 + F[s-1] ELSE F[s-1]
        \*     IN F[_TEPosition - 1]
    ]

=============================================================================



Parsing and semantic processing can take forever if the trace below is long.
 In this case, it is advised to uncomment the module below to deserialize the
 trace from a generated binary file.

\*
\*---- MODULE MC_Reset_TETrace ----
\*EXTENDS IOUtils, TLC, MC_Reset
\*
\*trace == IODeserialize("MC_Reset_TTrace_1790650472.bin", TRUE)
\*
\*=============================================================================
\*

---- MODULE MC_Reset_TETrace ----
EXTENDS TLC, MC_Reset

trace == 
    <<
    ([vJustReset |-> FALSE,vState |-> [memory |-> "fresh", miu |-> "fresh", icu |-> "fresh", apbp |-> "fresh", apbp_irq_disable |-> "fresh", timers |-> "fresh", ahbm |-> "fresh", dma |-> "fresh", btdmp |-> "fresh", registers |-> "fresh", interrupt_latches |-> "fresh", ar_arp_shadows |-> "fresh", mmio_storage |-> "fresh"]]),
    ([vJustReset |-> FALSE,vState |-> [memory |-> "fresh", miu |-> "fresh", icu |-> "fresh", apbp |-> "fresh", apbp_irq_disable |-> "fresh", timers |-> "fresh", ahbm |-> "fresh", dma |-> "fresh", btdmp |-> "fresh", registers |-> "fresh", interrupt_latches |-> "fresh", ar_arp_shadows |-> "fresh", mmio_storage |-> "dirty"]]),
    ([vJustReset |-> TRUE,vState |-> [memory |-> "fresh", miu |-> "fresh", icu |-> "fresh", apbp |-> "fresh", apbp_irq_disable |-> "fresh", timers |-> "fresh", ahbm |-> "fresh", dma |-> "fresh", btdmp |-> "fresh", registers |-> "fresh", interrupt_latches |-> "fresh", ar_arp_shadows |-> "fresh", mmio_storage |-> "dirty"]])
    >>
----


=============================================================================

---- CONFIG MC_Reset_TTrace_1790650472 ----
CONSTANTS
    ResetSet <- CurrentResetSet

INVARIANT
    _inv

CHECK_DEADLOCK
    \* CHECK_DEADLOCK off because of PROPERTY or INVARIANT above.
    FALSE

INIT
    _init

NEXT
    _next

CONSTANT
    _TETrace <- _trace

ALIAS
    _expression
=============================================================================
\* Generated on Tue Sep 29 02:54:33 UTC 2026