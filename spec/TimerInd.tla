------------------------------ MODULE TimerInd ------------------------------
(* C15 at FULL width (B = 65536, 32-bit counters), discharged symbolically by Apalache (SMT), not by        *)
(* enumeration: the induction step of "Skip(k) = Tick^k within the horizon".                                 *)
(* The operators below are TimerOps.tla/Wide.tla with type annotations (Apalache needs them; TLC ignores     *)
(* them); TimerIndSame.cfg lets TLC check at a small base that they ARE the TimerOps operators.              *)
(*   StepLemma:  for every timer state t and every wide k with k < Horizon(t):                                *)
(*       Skip(t, k) and Skip(t, k+1) succeed, Tick(Skip(t,k)) succeeds without an interrupt, and              *)
(*       Skip(t, k+1) = Tick(Skip(t, k));   Skip(t, 0) = t.                                                   *)
(*   By induction on k: Skip(t,k) = Tick^k(t) with no interrupt for all k <= Horizon(t), all 2^32 counters,   *)
(*   all start values, all modes.  HorizonLemma: the tick after the horizon is the first that can interrupt. *)
EXTENDS Integers

CONSTANT
    \* @type: Int;
    B

\* @typeAlias: timer = { c: <<Int, Int>>, s: <<Int, Int>>, m: Int, p: Int, u: Int, mi: <<Int, Int>>, sc: Int };
\* @typeAlias: res = { t: $timer, irq: Int, out: Str };
TimerInd_aliases == TRUE

VARIABLES
    \* @type: $timer;
    vt,
    \* @type: <<Int, Int>>;
    vk

\* @type: (<<Int, Int>>) => Bool;
WIsZero(a) == a[1] = 0 /\ a[2] = 0
\* @type: (<<Int, Int>>, <<Int, Int>>) => Bool;
WLt(a, b)  == a[1] < b[1] \/ (a[1] = b[1] /\ a[2] < b[2])
\* @type: (<<Int, Int>>, <<Int, Int>>) => Bool;
WLeq(a, b) == a = b \/ WLt(a, b)
\* @type: (<<Int, Int>>, <<Int, Int>>) => <<Int, Int>>;
WAdd(a, b) == LET lo == a[2] + b[2]
                  c  == IF lo >= B THEN 1 ELSE 0
              IN  << (a[1] + b[1] + c) % B, lo % B >>
\* @type: (<<Int, Int>>, <<Int, Int>>) => <<Int, Int>>;
WSub(a, b) == LET br == IF a[2] < b[2] THEN 1 ELSE 0
                  lo == (a[2] + B - b[2]) % B
                  hi == (a[1] + B + B - b[1] - br) % B
              IN  << hi, lo >>
\* @type: <<Int, Int>>;
WOne == <<0, 1>>
\* @type: <<Int, Int>>;
WZero == <<0, 0>>
\* @type: <<Int, Int>>;
WMax == <<B - 1, B - 1>>
\* @type: (<<Int, Int>>) => <<Int, Int>>;
WDec(a) == WSub(a, WOne)
\* @type: (<<Int, Int>>) => <<Int, Int>>;
WInc(a) == WAdd(a, WOne)
\* @type: <<Int, Int>>;
INF == <<B, 0>>

\* @type: ($timer) => $timer;
Upd(t) == IF t.u # 0 THEN [t EXCEPT !.mi = t.c] ELSE t
\* @type: ($timer, Int) => $res;
Ok(t, n)  == [t |-> t, irq |-> n, out |-> "ok"]
\* @type: ($timer) => $res;
Abort(t)  == [t |-> t, irq |-> 0, out |-> "assert"]

\* @type: ($timer) => $res;
RestartOp(t) ==
    IF t.m > 3 THEN Abort(t)
    ELSE IF t.m # 2 THEN Ok(Upd([t EXCEPT !.c = t.s]), 0) ELSE Ok(t, 0)

\* @type: ($timer) => $res;
TickOp(t) ==
    IF t.m > 3 \/ t.sc # 0 THEN Abort(t)
    ELSE IF t.p # 0 \/ t.m = 3 THEN Ok(t, 0)
    ELSE IF WIsZero(t.c)
         THEN IF t.m = 1 THEN RestartOp(t)
              ELSE IF t.m = 2 THEN Ok(Upd([t EXCEPT !.c = WMax]), 0)
              ELSE Ok(t, 0)
         ELSE LET t1 == Upd([t EXCEPT !.c = WDec(t.c)])
              IN  Ok(t1, IF WIsZero(t1.c) THEN 1 ELSE 0)

\* @type: ($timer) => <<Int, Int>>;
Horizon(t) ==
    IF t.p # 0 \/ t.m = 3 THEN INF
    ELSE IF WIsZero(t.c)
         THEN IF t.m = 1 THEN t.s
              ELSE IF t.m = 2 THEN WMax
              ELSE INF
         ELSE WDec(t.c)

\* @type: ($timer, <<Int, Int>>) => $res;
SkipOp(t, k) ==
    IF WIsZero(k) THEN Ok(t, 0)
    ELSE IF t.p # 0 \/ t.m = 3 THEN Ok(t, 0)
    ELSE IF WIsZero(t.c)
         THEN IF t.m \notin {1, 2} THEN Ok(t, 0)
              ELSE LET reset == IF t.m = 1 THEN t.s ELSE WMax
                   IN  IF WLt(reset, k) THEN Abort(t)
                       ELSE Ok(Upd([t EXCEPT !.c = WSub(reset, WSub(k, WOne))]), 0)
         ELSE IF ~ WLt(k, t.c) THEN Abort(t)
              ELSE Ok(Upd([t EXCEPT !.c = WSub(t.c, k)]), 0)

\* every timer state and every wide k, chosen symbolically
Init ==
    \E c1 \in 0 .. B - 1, c2 \in 0 .. B - 1, s1 \in 0 .. B - 1, s2 \in 0 .. B - 1, m \in 0 .. 3, p \in 0 .. 1, u \in 0 .. 1,
       i1 \in 0 .. B - 1, i2 \in 0 .. B - 1, k1 \in 0 .. B - 1, k2 \in 0 .. B - 1 :
        /\ vt = [c |-> <<c1, c2>>, s |-> <<s1, s2>>, m |-> m, p |-> p, u |-> u, mi |-> <<i1, i2>>, sc |-> 0]
        /\ vk = <<k1, k2>>
Next == UNCHANGED <<vt, vk>>

StepLemma ==
    WLt(vk, Horizon(vt)) =>
        LET a  == SkipOp(vt, vk)
            b  == SkipOp(vt, WInc(vk))
            tk == TickOp(a.t)
        IN  /\ a.out = "ok" /\ b.out = "ok" /\ tk.out = "ok"
            /\ a.irq = 0 /\ b.irq = 0 /\ tk.irq = 0
            /\ b.t = tk.t
ZeroLemma == SkipOp(vt, WZero) = Ok(vt, 0)
\* the horizon is tight: when it is finite, the tick after Skip(horizon) is the one that fires (or reloads)
HorizonLemma ==
    (Horizon(vt) # INF /\ ~ WIsZero(vt.c)) =>
        LET a == SkipOp(vt, Horizon(vt)) IN a.out = "ok" /\ TickOp(a.t).irq = 1
Lemmas == StepLemma /\ ZeroLemma /\ HorizonLemma
=============================================================================
