\* the tree as pinned: FixedSkipOverrun = FALSE (flip to TRUE once Btdmp::Skip is repaired in /repo)
CONSTANTS
  Cap = 16
  TW = 65536
  ResetPeriod = 4096
  FixedSkipOverrun = FALSE
  Vals = {0}
  Periods = {1}
  Clocks = {0}
  K = 12
  G = 0
  PhaseKept = FALSE
SPECIFICATION TraceSpec
INVARIANT Observed
POSTCONDITION TraceAccepted
CHECK_DEADLOCK FALSE
