\* the repaired Btdmp::Skip (FixedSkipOverrun = TRUE): Skip(k) = Tick^k is claimed on every observed state
CONSTANTS
  Cap = 16
  TW = 65536
  ResetPeriod = 4096
  FixedSkipOverrun = TRUE
  Vals = {0}
  Periods = {1}
  Clocks = {0}
  K = 12
  G = 0
  PhaseKept = FALSE
SPECIFICATION TraceSpec
INVARIANT Observed
PROPERTY ObservedIrq
POSTCONDITION TraceAccepted
CHECK_DEADLOCK FALSE
