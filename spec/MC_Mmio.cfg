\* C12 quick: the code as pinned; 186 offsets x 47 values x 3 bases, all B for each
CONSTANTS
  FixedChannelSelect = TRUE
  FixedWindowRaw = FALSE
  FixedWatchdogRestart = FALSE
  ValMode = 1
  NBases = 3
SPECIFICATION Spec
INVARIANTS TypeOK ReadBack NonAliasing HiddenFrame ReadPurity PathsAgree ChannelIndependent WindowReachable
CHECK_DEADLOCK FALSE
