------------------------------- MODULE ResetTrace -------------------------------
(* C17: behaviour depends only on the call history; Reset equals a fresh machine.                           *)
(* The modelled machine state is the complete observation vector (registers, latches, timers, ICU, both      *)
(* mailboxes, MMIO read-back of every register, DMA channel windows, audio ports, the hidden AHBM burst     *)
(* FIFOs, the external-memory traffic, memory).  The                                                        *)
(* specification is the state machine                                                                        *)
(*      New -> fresh --Reset--> reset --history--> dirty --Reset--> reset ...                                *)
(* in which `reset` and `fresh` are ONE state: FreshReset, the observation of the first instance of a         *)
(* pristine process after construction and Reset (line 1 of every trace).  Every observation the recorder     *)
(* makes in the states fresh / fresh_reset / reset must therefore equal FreshReset, and the same history       *)
(* replayed after a Reset must end in the same observation as on a fresh, reset instance.                     *)
(* The trace is always consumed to the end; for every observation TLC prints the set of observation groups    *)
(* that differ (with the first differing positions), which the runner maps to violations / known findings.    *)
EXTENDS TeakRegs, FiniteSets, Json, IOUtils, TLC

Log == ndJsonDeserialize(IOEnv.TRACE)
VARIABLES vL, vRef, vHeld, vMode
rvars == <<vL, vRef, vHeld, vMode>>
Rec == Log[vL]

Groups == {"r", "lat", "tm", "icu", "icuvec", "apbp", "apbpdis", "dma", "mmio", "btdmp", "ahbm", "ext", "memown", "memnz", "memfirst"}
DiffGroups(a, b) == {g \in Groups : a[g] # b[g]}
\* first few differing positions of a group (1-based), for the report
Where(a, b, g) == IF g = "memnz" THEN <<a[g], b[g]>>
                  ELSE LET D == {i \in 1 .. Len(a[g]) : i > Len(b[g]) \/ a[g][i] # b[g][i]} IN
                       IF g \in {"mmio", "dma"} \/ Cardinality(D) <= 12 THEN D ELSE {i \in D : Cardinality({j \in D : j < i}) < 12}
Report(tag, a, b) == LET D == DiffGroups(a, b) IN
                     D = {} \/ PrintT(<<"DIFF", vL, tag, D, [g \in D |-> Where(a, b, g)]>>)

\* FreshReset, as far as the specification itself knows it (everything but the MMIO read-back, for which the
\* first instance of a pristine process is the reference): the reference observation must equal it
Zeros(n) == [i \in 1 .. n |-> 0]
FreshResetConst ==
    [r |-> Pack(ResetRegs), lat |-> Zeros(7), tm |-> Zeros(20), icu |-> Zeros(5), icuvec |-> Zeros(48),
     apbp |-> <<1, 0, 0, 1, 0, 0, 1, 0, 0>> \o Zeros(9), apbpdis |-> Zeros(6), dma |-> Zeros(130),
     btdmp |-> <<0, 4096, 0, 1, 0, 0, 0, 0, 4096, 0, 1, 0, 0, 0>>, ahbm |-> Zeros(40), ext |-> <<0, 0, 0>>, memown |-> <<1>>,
     memnz |-> 0, memfirst |-> <<>>]
ConstGroups == DOMAIN FreshResetConst
ReportRef(o) == LET D == {g \in ConstGroups : o[g] # FreshResetConst[g]} IN
                D = {} \/ PrintT(<<"DIFF", vL, "reference", D, [g \in D |-> Where(o, FreshResetConst, g)]>>)

Init == vL = 1 /\ vRef = <<>> /\ vHeld = <<>> /\ vMode = "none"
IsEv(e) == vL <= Len(Log) /\ Rec.e = e
TNew   == IsEv("New") /\ vMode' = "fresh" /\ vL' = vL + 1 /\ UNCHANGED <<vRef, vHeld>>
TReset == IsEv("Reset") /\ vMode' = "reset" /\ vL' = vL + 1 /\ UNCHANGED <<vRef, vHeld>>
THist  == IsEv("Hist") /\ vMode' = "dirty" /\ vL' = vL + 1 /\ UNCHANGED <<vRef, vHeld>>
TObs   == /\ IsEv("Obs")
          /\ CASE Rec.when = "reference" -> vRef' = Rec.o /\ ReportRef(Rec.o) /\ UNCHANGED vHeld
               [] Rec.when \in {"fresh", "fresh_reset", "reset"} ->
                      \* in these states the machine is FreshReset: the observation must be the reference
                      /\ vMode \in {"fresh", "reset"} /\ Report(Rec.when, Rec.o, vRef) /\ UNCHANGED <<vRef, vHeld>>
               [] Rec.when = "dirty" -> UNCHANGED <<vRef, vHeld>>
               [] Rec.when = "replayed_after_reset" -> vHeld' = Rec.o /\ UNCHANGED vRef
               [] Rec.when = "replayed_on_fresh" -> Report("replay", vHeld, Rec.o) /\ UNCHANGED <<vRef, vHeld>>
          /\ vL' = vL + 1 /\ UNCHANGED vMode
Next == TNew \/ TReset \/ THist \/ TObs
TraceSpec == Init /\ [][Next]_rvars
TraceAccepted == /\ PrintT(<<"TRACE_MATCHED", TLCGet("stats").diameter - 1, Len(Log)>>)
                 /\ TLCGet("stats").diameter - 1 = Len(Log)
=============================================================================
