-------------------------------- MODULE Dsp1 --------------------------------
(* The firmware container layer of the repository's tools (C05, firmware clause):                          *)
(*   src/makedsp1/main.cpp     firmware source text  ->  DSP1 container file                                *)
(*   src/dsp1_reader/main.cpp  DSP1 container file   ->  segment summary + disassembly listing              *)
(* as-is layer, written from the two main.cpp files:                                                        *)
(*   a source file, after the lexical layer (comment removal, '$' expansion syntax, splitting at blanks and *)
(*   tabs), is a sequence of items, each on a physical line `ln`:                                           *)
(*     [k |-> "seg",  ln, ty, target]    "segment p|d <hex>"   (ty = 0 program, 2 data, 9 = unknown letter) *)
(*     [k |-> "data", ln, v]             "data <hex>"                                                       *)
(*     [k |-> "ins",  ln, w, x]          an instruction line whose text is the disassembly of first word w; *)
(*                                       x = the value after '$', or -1 when the line carries none          *)
(*     [k |-> "bad",  ln]                a line the assembler cannot parse                                   *)
(*     [k |-> "argc", ln]                "segment"/"data" with the wrong number of parameters               *)
(*     [k |-> "xbrk", ln]                a '$' with fewer than four characters after it                     *)
(*   Assemble(src) folds the items exactly like the tool's loop (first error ends the run with exit -1 and  *)
(*   a message naming the physical line); Container(segs) is the file layout; ReadBack / Listing is what    *)
(*   the reader makes of a container.                                                                       *)
(* property layer (checked by TLC in MC_Dsp1 over all small sources):                                       *)
(*   RoundTrip      the reader recovers exactly the assembler's segments (type, target, words)              *)
(*   NoOverlap      segment data areas are disjoint, in order, start at 0x300, and binary_size is their end *)
(*   StreamBack     the listing of a program segment is the instruction stream of the source: one entry per *)
(*                  instruction line, the canonical first word, the second word exactly when the form needs *)
(*                  one, at the word address target + (number of words before it)                           *)
EXTENDS TeakDecode, Integers, Sequences, FiniteSets, TLC

HeaderEnd == 768          \* 0x300: first data byte
SegTab    == 288          \* 0x120: first segment descriptor
SegDesc   == 48           \* 0x30
MaxSegs   == 10           \* descriptors that fit below 0x300 (the reader's header struct)

\* ---------------------------------------------------------------- assembler front end (makedsp1)
ItemWords(it) == CASE it.k = "data" -> <<it.v>>
                   [] it.k = "ins"  -> IF NeedExp(it.w) THEN <<Canon(it.w), it.x>> ELSE <<Canon(it.w)>>
                   [] OTHER         -> <<>>

\* error message kinds of the tool, in the order its code tests them
ItemError(it) ==
    CASE it.k = "xbrk" -> "expbreak"          \* '$' with fewer than four characters after it (tested before anything else)
      [] it.k = "argc" -> "argc"
      [] it.k = "seg"  -> IF it.ty \in {0, 2} THEN "" ELSE "segtype"
      [] it.k = "bad"  -> "parse"
      [] it.k = "ins"  -> IF Decode(it.w) = 0 THEN "parse"
                          ELSE IF NeedExp(it.w) /\ it.x = -1 THEN "needexp"
                          ELSE IF ~ NeedExp(it.w) /\ it.x # -1 THEN "unexpexp"
                          ELSE ""
      [] OTHER         -> ""

\* fold state: finished segments are [ty, target, words]
AppendToLast(segs, ws) == [segs EXCEPT ![Len(segs)].words = @ \o ws]

RECURSIVE AsmFrom(_, _, _)
AsmFrom(src, i, segs) ==
    IF i > Len(src) THEN [rc |-> 0, err |-> "", ln |-> 0, segs |-> segs]
    ELSE LET it == src[i] e == ItemError(it) IN
         IF e # "" THEN [rc |-> 255, err |-> e, ln |-> it.ln, segs |-> segs]
         ELSE IF it.k = "seg" THEN AsmFrom(src, i + 1, Append(segs, [ty |-> it.ty, target |-> it.target, words |-> <<>>]))
         ELSE AsmFrom(src, i + 1, AppendToLast(segs, ItemWords(it)))
Assemble(src) == AsmFrom(src, 1, <<>>)

\* in-contract sources: the first item opens a segment (the tool appends to segments.back()), at most MaxSegs segments
WellFormed(src) == /\ Len(src) > 0
                   /\ src[1].k = "seg" \/ ItemError(src[1]) # ""
                   /\ Cardinality({i \in 1..Len(src) : src[i].k = "seg"}) <= MaxSegs

\* ---------------------------------------------------------------- container layout
RECURSIVE OffsetOf(_, _)
OffsetOf(segs, i) == IF i = 1 THEN HeaderEnd ELSE OffsetOf(segs, i - 1) + 2 * Len(segs[i - 1].words)

Container(segs) ==
    LET n == Len(segs) IN
    [ magic  |-> <<68, 83, 80, 49>>,                                   \* "DSP1" at 0x100
      bsize  |-> OffsetOf(segs, n + 1),                                \* u32 at 0x104: end of the last data area
      layout |-> 65535,                                                \* u32 at 0x108 = 0x0000FFFF
      misc   |-> n,                                                    \* u32 at 0x10C = n << 16: byte 0x10E
      desc   |-> [i \in 1..n |-> [off |-> OffsetOf(segs, i), target |-> segs[i].target,
                                  size |-> 2 * Len(segs[i].words), ty |-> segs[i].ty, words |-> segs[i].words]] ]

Max(a, b) == IF a >= b THEN a ELSE b
\* the file is as long as its furthest write: the descriptor table, or the last non-empty data area
RECURSIVE LastDataEnd(_, _)
LastDataEnd(segs, i) == IF i = 0 THEN 0 ELSE IF Len(segs[i].words) > 0 THEN OffsetOf(segs, i + 1) ELSE LastDataEnd(segs, i - 1)
FileLen(segs) == Max(SegTab + SegDesc * Len(segs), LastDataEnd(segs, Len(segs)))

\* ---------------------------------------------------------------- reader (dsp1_reader)
ReadBack(c) == [i \in 1..c.misc |-> [ty |-> c.desc[i].ty, target |-> c.desc[i].target, words |-> c.desc[i].words]]

\* listing of one program segment from its word stream: <<address, first word, second word or -1>>
RECURSIVE ListFrom(_, _, _)
ListFrom(ws, target, p) ==
    IF p > Len(ws) THEN <<>>
    ELSE IF NeedExp(ws[p]) /\ p < Len(ws)
         THEN <<[a |-> target + p - 1, w |-> ws[p], x |-> ws[p + 1]]>> \o ListFrom(ws, target, p + 2)
         ELSE <<[a |-> target + p - 1, w |-> ws[p], x |-> -1]>> \o ListFrom(ws, target, p + 1)
\* (a two-word form in the very last word of a segment makes the reader read past the segment: out of contract)
StreamClosed(ws) == LET L == ListFrom(ws, 0, 1) IN Len(L) = 0 \/ ~ (NeedExp(L[Len(L)].w) /\ L[Len(L)].x = -1)

ListData(ws, target) == [p \in 1..Len(ws) |-> [a |-> target + p - 1, w |-> ws[p], x |-> -1]]
Listing(seg) == IF seg.ty \in {0, 1} THEN ListFrom(seg.words, seg.target, 1)
                ELSE IF seg.ty = 2 THEN ListData(seg.words, seg.target) ELSE <<>>

\* ---------------------------------------------------------------- property layer
\* the instruction stream a source puts into segment number s (items between its "segment" line and the next)
RECURSIVE SegItems(_, _, _, _)
SegItems(src, i, s, cur) ==
    IF i > Len(src) THEN <<>>
    ELSE IF src[i].k = "seg" THEN SegItems(src, i + 1, s, cur + 1)
    ELSE IF cur = s THEN <<src[i]>> \o SegItems(src, i + 1, s, cur) ELSE SegItems(src, i + 1, s, cur)

RECURSIVE StreamOf(_, _, _)
StreamOf(items, target, i) ==
    IF i > Len(items) THEN <<>>
    ELSE LET ws == ItemWords(items[i]) IN
         <<[a |-> target, w |-> ws[1], x |-> IF Len(ws) = 2 THEN ws[2] ELSE -1]>> \o StreamOf(items, target + Len(ws), i + 1)

RECURSIVE AllWords(_, _)
AllWords(segs, i) == IF i > Len(segs) THEN <<>> ELSE segs[i].words \o AllWords(segs, i + 1)

RoundTrip(src) == LET r == Assemble(src) IN r.rc = 0 => ReadBack(Container(r.segs)) = r.segs
NoOverlap(src) == LET r == Assemble(src) c == Container(r.segs) IN
    r.rc = 0 => /\ \A i \in 1..Len(r.segs) : c.desc[i].off = (IF i = 1 THEN HeaderEnd ELSE c.desc[i - 1].off + c.desc[i - 1].size)
                /\ c.bsize = HeaderEnd + 2 * Len(AllWords(r.segs, 1))
                /\ FileLen(r.segs) <= Max(c.bsize, HeaderEnd)
\* "data" lines inside a program segment are read back as instructions; the stream clause speaks about segments
\* whose data words are one-word forms (as in the shipped sources: data 0000)
PlainData(items) == \A i \in 1..Len(items) : items[i].k = "data" => ~ NeedExp(items[i].v)
StreamBack(src) == LET r == Assemble(src) IN
    r.rc = 0 => \A s \in 1..Len(r.segs) :
        LET items == SegItems(src, 1, s, 0) IN
        (r.segs[s].ty = 0 /\ PlainData(items)) => Listing(r.segs[s]) = StreamOf(items, r.segs[s].target, 1)
=============================================================================
