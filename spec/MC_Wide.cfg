CONSTANTS B = 7
INIT Init
NEXT Next
