\* negative control: a fast-forward guard that ignores the vectored signal (the seeded change C06-C / C07-C / C15-D) must violate
CONSTANTS TB = 2  N = 5  FixPending = TRUE  FixSkipZero = TRUE  Family = "timers"  FixAudioSkip = TRUE  GuardSeesVectored = FALSE
INIT Init
NEXT Next
INVARIANT SlicingInvariant
CHECK_DEADLOCK FALSE
