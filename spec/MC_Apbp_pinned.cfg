\* the pinned (unrepaired) Apbp::MaskSemaphore: shows that the model reproduces defect D3 (stale signal flag)
CONSTANTS
  NCh = 2
  Data = {1, 2}
  SemW = 2
  FixedMask = FALSE
    FixedReentry = TRUE
  Junk = {0}
  Sides = {"fc", "fd"}
SPECIFICATION Spec
VIEW View
INVARIANTS TypeOK SignalInv
CHECK_DEADLOCK FALSE
