----------------------------- MODULE AddrTheorems -----------------------------
(* Property layer for C10 on TeakAddr (W = 16, the real widths; the domain is small enough):            *)
(*  - modulo on, step +-1: the register walks cyclically through the aligned buffer [base, base+vMod]     *)
(*    and never alters the address bits above the buffer's power-of-two alignment, in Teak and           *)
(*    TeakLite-compatible mode (for every vMod value x every in-buffer offset x high-bit patterns);       *)
(*  - modulo off: r' = r + step vMod 2^16 for every step source; r3/r7 are zeroed in end-pointer mode;    *)
(*    the access uses the pre-modified value; a zero step never changes the register;                    *)
(*  - bit reversal with modulo off: address = bitrev(r) while r steps linearly.                          *)
EXTENDS TeakAddr, TLC

CONSTANT Mods                    \* the modulo values to enumerate (0..511 in the thorough configuration)

VARIABLE vMod
Init == vMod = 0
Next == vMod' \in Mods

\* the fields of the register record that address generation reads
Regs(cmd, unit, m, br, md, step, step0, stp16, ep, rv) ==
    [cmd |-> cmd, m |-> [i \in 1 .. 8 |-> IF i = unit + 1 THEN m ELSE 0], br |-> [i \in 1 .. 8 |-> IF i = unit + 1 THEN br ELSE 0],
     modi |-> md, modj |-> md, stepi |-> step, stepj |-> step, stepi0 |-> step0, stepj0 |-> step0, stp16 |-> stp16,
     epi |-> ep, epj |-> ep, r |-> [i \in 1 .. 8 |-> IF i = unit + 1 THEN rv ELSE 4660]]

AlignMask(md) == 2 ^ Log2p1(md) - 1
Highs == {0, 21504, 64512, 43008}          \* 0x0000 0x5400 0xFC00 0xA800: bits above any 9-bit buffer

ModuloWalk ==
    \A cmd \in 0 .. 1 : \A unit \in {0, 5} : \A hi \in Highs : \A low \in 0 .. vMod :
        LET mask == AlignMask(vMod)
            base == hi - (hi & mask)
            a    == base + low
            r    == Regs(cmd, unit, 1, 0, vMod, 0, 0, 0, 0, a)
            up   == StepAddress(r, unit, a, 1, FALSE)
            dn   == StepAddress(r, unit, a, 2, FALSE)
        IN  /\ up = (IF vMod = 0 THEN a ELSE IF low = vMod THEN base ELSE a + 1)
            /\ dn = (IF vMod = 0 THEN a ELSE IF low = 0 THEN base + vMod ELSE a - 1)
            /\ AndNot(up, mask) = base /\ AndNot(dn, mask) = base            \* alignment bits untouched
            /\ (up & mask) <= vMod /\ (dn & mask) <= vMod                       \* stays inside the buffer
            /\ vMod # 0 => StepAddress(r, unit, up, 2, FALSE) = a              \* +1 then -1 is the identity
            \* the configured step register holding +1 / -1 behaves like the fixed steps (7-bit step, stp16 off)
            /\ cmd = 1 => /\ StepAddress(Regs(cmd, unit, 1, 0, vMod, 1, 0, 0, 0, a), unit, a, 3, FALSE) = up
                          /\ StepAddress(Regs(cmd, unit, 1, 0, vMod, 127, 0, 0, 0, a), unit, a, 3, FALSE) = dn

Addrs == {0, 1, 2, 255, 256, 32767, 32768, 65534, 65535, 4660, 43981}
Steps7 == {0, 1, 2, 63, 64, 126, 127}
Steps16 == {0, 1, 2, 32767, 32768, 65534, 65535, 513}

Linear ==
    \A cmd \in 0 .. 1 : \A unit \in {0, 3, 4, 7} : \A a \in Addrs : \A m \in 0 .. 1 : \A br \in 0 .. 1 :
        (m = 0 \/ br = 1) =>            \* modulo disabled for this register
        /\ \A st \in 0 .. 7 :
             LET r == Regs(cmd, unit, m, br, vMod, 5, 9, 0, 0, a)
                 want == CASE st = 0 -> a [] st = 1 -> U16(a + 1) [] st = 2 -> U16(a + B - 1)
                           [] st \in {4, 6} -> U16(a + 2) [] st \in {5, 7} -> U16(a + B - 2)
                           [] st = 3 -> U16(a + (IF br = 1 /\ m = 0 THEN 9 ELSE 5))
             IN  StepAddress(r, unit, a, st, FALSE) = want
        \* configured steps: 7-bit signed step, or the 16-bit step when stp16 is set in Teak mode
        /\ \A s7 \in Steps7 : \A s16 \in Steps16 : \A stp16 \in 0 .. 1 :
             LET r == Regs(cmd, unit, m, br, vMod, s7, s16, stp16, 0, a)
                 amt == IF stp16 = 1 /\ cmd = 0 THEN (IF m = 1 THEN Sx(s16, 9) ELSE s16)
                        ELSE IF br = 1 /\ m = 0 THEN s16 ELSE Sx(s7, 7)
             IN  StepAddress(r, unit, a, 3, FALSE) = U16(a + amt)
        \* dmod forces linear stepping even with modulo enabled
        /\ StepAddress(Regs(cmd, unit, 1, 0, vMod, 0, 0, 0, 0, a), unit, a, 1, TRUE) = U16(a + 1)

PreModifiedAndEndPointer ==
    \A cmd \in 0 .. 1 : \A unit \in {0, 3, 7} : \A a \in Addrs : \A ep \in 0 .. 1 : \A st \in 0 .. 7 :
        LET r == Regs(cmd, unit, 0, 0, vMod, 5, 9, 0, ep, a)
            t == RnAndModify(r, unit, st, FALSE)
        IN  /\ t.val = a                                                       \* the access uses the old value
            /\ (ep = 1 /\ unit \in {3, 7} /\ st \notin {4, 5, 6, 7}) => t.r.r[unit + 1] = 0
            /\ ~ (ep = 1 /\ unit \in {3, 7} /\ st \notin {4, 5, 6, 7}) => t.r.r[unit + 1] = StepAddress(r, unit, a, st, FALSE)
            /\ \A u \in 0 .. 7 : u # unit => t.r.r[u + 1] = r.r[u + 1]        \* no other register changes

BitReversal ==
    \A a \in Addrs : \A m \in 0 .. 1 : \A br \in 0 .. 1 : \A unit \in {1, 6} :
        LET r == Regs(0, unit, m, br, vMod, 0, 0, 0, 0, a) IN
        /\ RnAddress(r, unit, a) = (IF br = 1 /\ m = 0 THEN BitReverse16(a) ELSE a)
        /\ BitReverse16(BitReverse16(a)) = a
        /\ br = 1 /\ m = 0 => RnAndModify(r, unit, 1, FALSE).r.r[unit + 1] = U16(a + 1)   \* the register steps linearly

ZeroStep ==
    \A cmd \in 0 .. 1 : \A a \in Addrs : \A m \in 0 .. 1 : \A br \in 0 .. 1 : \A dm \in BOOLEAN :
        /\ StepAddress(Regs(cmd, 2, m, br, vMod, 0, 0, 1, 0, a), 2, a, 0, dm) = a
        /\ StepAddress(Regs(cmd, 2, m, br, vMod, 0, 0, 1, 0, a), 2, a, 3, dm) = a      \* configured step of zero

Inv == ModuloWalk /\ Linear /\ PreModifiedAndEndPointer /\ BitReversal /\ ZeroStep
=============================================================================
