\* thorough: two channels, all interleavings; the repaired locking
CONSTANTS
  Chans = {0, 1}
  SemFull = 3
  FixedDisableIrqLock = TRUE
  FixedVectorLock = TRUE
  HandlerInsideLock = FALSE
  VectoredOn = TRUE
  NSend = 1
  NHostOps = 1
  SemVals = {1}
  NDis = 1
  NVec = 1
  NCbSend = 1
  HostKinds = {"Empty", "PollRecv", "SemSet", "SemGet", "SemClr", "SemMask"}
  NDspMask = 0
  TrackLockset = TRUE
SPECIFICATION Spec
INVARIANTS ValuesOK LocksetOK NoDeadlock HeldOK OwedSafe
PROPERTY TrigDelivers
CHECK_DEADLOCK TRUE
