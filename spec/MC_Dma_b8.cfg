\* C13 thorough, DSP <-> DSP at B = 8 (counters 0..7, 64-word memory): 80 step-triple pairs, five base
\* placements including the B^2 wrap of the cursors
CONSTANTS
  B = 8
  BB = 64
  HB = 2
  FixedD8 = FALSE
  RealMap = FALSE
  DataHi = 0
  RangeLo = 0
  RangeHi = 0
  SizeSet <- Sizes03
  StepPairs <- QuickPairs
  ModeSet <- DspModes
  BaseSet <- DspBases
  AhbmSet <- NoAhbm
SPECIFICATION Spec
\* size0 = B-1 in double-word mode never terminates in the unrepaired code (defect D8, see
\* MC_Dma_pinned.cfg); the property layer is evaluated with that trigger excluded
CONSTRAINT NotD8
INVARIANTS TypeOK CursorsClosedForm Terminates OneIrq NoOob DataCopied FootprintOnlyDst AccessesClosedForm ElementOrder
CHECK_DEADLOCK FALSE
