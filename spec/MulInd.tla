------------------------------- MODULE MulInd -------------------------------
(* C04 (multiplier side) at FULL width (W = 16), discharged symbolically by Apalache (SMT):                   *)
(*   Multiply = the exact product of the two 16-bit factors under every signed/unsigned selection and          *)
(*   half-word mode, as a 33-bit two's complement number (pe : p), for ALL 2^16 x 2^16 factor pairs;            *)
(*   ProductToBus = that number shifted by the product shift (none, >>1, <<1, <<2), sign-extended to 40 bits,   *)
(*   for ALL 2^33 product register contents; AlignDown = arithmetic shift right by one limb for all 2^40.       *)
(* Operators as in TeakAlu.tla with type annotations; MC_MulIndSame.cfg: TLC checks at W = 6 that they are the  *)
(* same operators.                                                                                              *)
EXTENDS Integers

CONSTANT
    \* @type: Int;
    W

VARIABLES
    \* @type: Int;
    vx,
    \* @type: Int;
    vy,
    \* @type: Bool;
    vxs,
    \* @type: Bool;
    vys,
    \* @type: Int;
    vhwm,
    \* @type: Int;
    vunit,
    \* @type: Int;
    vpe,
    \* @type: Int;
    vps,
    \* @type: Int;
    ve

B   == 2 ^ W
E   == W \div 2
EB  == 2 ^ E
HB  == B \div 2
ABITS == 2 * W + E

\* @type: (Int) => Int;
SxE(h)    == IF h >= HB THEN EB - 1 ELSE 0
\* @type: (<<Int, Int, Int>>) => Int;
ASign(v)  == v[3] \div (EB \div 2)

\* @type: (Int, Int) => <<Int, Int>>;
UMul(x, y) == LET xl == x % EB
                  xh == x \div EB
                  t0 == xl * y
                  t1 == xh * y
                  lo == t0 + (t1 % EB) * EB
              IN  <<lo % B, (t1 \div EB + lo \div B) % B>>

\* @type: (Int, Int, Bool, Bool, Int, Int) => { p: <<Int, Int>>, pe: Int };
Multiply(x, y, xsign, ysign, hwm, unit) ==
    LET y1 == IF hwm = 1 \/ (hwm = 3 /\ unit = 0) THEN y \div EB
              ELSE IF hwm = 2 \/ (hwm = 3 /\ unit = 1) THEN y % EB ELSE y
        u  == UMul(x, y1)
        c1 == IF xsign /\ x >= HB THEN y1 ELSE 0
        c2 == IF ysign /\ y1 >= HB THEN x ELSE 0
        h  == (u[2] + 2 * B - c1 - c2) % B
    IN  [p |-> <<u[1], h>>, pe |-> IF xsign \/ ysign THEN h \div HB ELSE 0]

\* @type: (<<Int, Int>>, Int, Int) => <<Int, Int, Int>>;
ProductToBus(p, pe, ps) ==
    CASE ps = 0 -> <<p[1], p[2], IF pe = 1 THEN EB - 1 ELSE 0>>
      [] ps = 1 -> LET h == p[2] \div 2 + pe * HB IN <<p[1] \div 2 + (p[2] % 2) * HB, h, SxE(h)>>
      [] ps = 2 -> <<(2 * p[1]) % B, (2 * p[2] + p[1] \div HB) % B, p[2] \div HB + pe * (EB - 2)>>
      [] OTHER  -> <<(4 * p[1]) % B, (4 * p[2] + p[1] \div (B \div 4)) % B, p[2] \div (B \div 4) + pe * (EB - 4)>>

\* @type: (<<Int, Int, Int>>) => <<Int, Int, Int>>;
AlignDown(v) == <<v[2], v[3] + (IF ASign(v) = 1 THEN B - EB ELSE 0), IF ASign(v) = 1 THEN EB - 1 ELSE 0>>

\* @type: (<<Int, Int, Int>>) => Int;
AToNat(v)  == v[1] + B * v[2] + B * B * v[3]
\* @type: (<<Int, Int, Int>>) => Int;
AToInt(v)  == IF ASign(v) = 1 THEN AToNat(v) - 2 ^ ABITS ELSE AToNat(v)
\* @type: (Int, Bool) => Int;
SInt(v, signed) == IF signed /\ v >= HB THEN v - B ELSE v
\* @type: (<<Int, Int>>, Int) => Int;
PInt(p, pe) == p[1] + B * p[2] - pe * (B * B)
\* @type: (Int) => Int;
FloorDiv2(n) == IF n >= 0 THEN n \div 2 ELSE -((-n + 1) \div 2)

Init == \E x \in 0 .. B - 1, y \in 0 .. B - 1, xs \in BOOLEAN, ys \in BOOLEAN, hwm \in 0 .. 3, unit \in 0 .. 1, pe \in 0 .. 1, ps \in 0 .. 3,
           e \in 0 .. EB - 1 :
            vx = x /\ vy = y /\ vxs = xs /\ vys = ys /\ vhwm = hwm /\ vunit = unit /\ vpe = pe /\ vps = ps /\ ve = e
Next == UNCHANGED <<vx, vy, vxs, vys, vhwm, vunit, vpe, vps, ve>>

MultiplyExact ==
    LET y1 == IF vhwm = 1 \/ (vhwm = 3 /\ vunit = 0) THEN vy \div EB
              ELSE IF vhwm = 2 \/ (vhwm = 3 /\ vunit = 1) THEN vy % EB ELSE vy
        r  == Multiply(vx, vy, vxs, vys, vhwm, vunit)
    IN  PInt(r.p, r.pe) = SInt(vx, vxs) * SInt(y1, vys)

\* every 33-bit product register content (low limb vy, high limb vx, extension vpe)
ProductToBusExact ==
    LET \* @type: <<Int, Int>>;
        p == <<vy, vx>>
        n == PInt(p, vpe)
        want == IF vps = 0 THEN n ELSE IF vps = 1 THEN FloorDiv2(n) ELSE IF vps = 2 THEN 2 * n ELSE 4 * n
    IN  AToInt(ProductToBus(p, vpe, vps)) = want

\* every 40-bit value (low limb vy, high limb vx, extension ve)
AlignExact ==
    LET \* @type: <<Int, Int, Int>>;
        v == <<vy, vx, ve>>
        n == AToInt(v)
        fl == IF n >= 0 THEN n \div B ELSE -((-n + B - 1) \div B)
    IN  AToInt(AlignDown(v)) = fl

Exact == MultiplyExact /\ ProductToBusExact /\ AlignExact
=============================================================================
