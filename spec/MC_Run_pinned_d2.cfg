\* the pinned Timer::Skip(0) inside the repaired loop: must violate (defect D2 seen through Run)
CONSTANTS TB = 2  N = 5  FixPending = TRUE  FixSkipZero = FALSE  Family = "timers"  FixAudioSkip = TRUE  GuardSeesVectored = TRUE
INIT Init
NEXT Next
INVARIANT SlicingInvariant
CHECK_DEADLOCK FALSE
