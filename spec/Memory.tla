------------------------------- MODULE Memory -------------------------------
(* C11 -- one DSP memory, many views.                                         *)
(*                                                                            *)
(* As-is layer: one operator per accessor of MemoryInterface / Teakra         *)
(* (src/memory_interface.{h,cpp}, src/shared_memory.h, src/teakra.cpp) and of *)
(* the interpreter's guest accesses (src/interpreter.h), transcribed from the *)
(* code, asserts included.  Property layer: what C11 states about them.       *)
(*                                                                            *)
(* Geometry is a set of CONSTANTS so that the same operators serve            *)
(*   * model checking on a scaled memory (MC_Memory*.cfg: 8 program-only      *)
(*     words + 2 banks x 8 data words, window of 2, bytes 0..1), and          *)
(*   * trace validation at the real geometry (Trace_Memory.cfg: 0x20000 +     *)
(*     2 x 0x10000 words, window 0x800, bytes 0..255).                        *)
(*                                                                            *)
(* st.mem  shared DSP memory, byte address -> byte, kept SPARSE: only the     *)
(*         non-zero bytes are in the domain (canonical form, so TLC's state   *)
(*         equality is memory equality; an untouched byte reads 0).           *)
(* st.io   the MMIO register file seen as plain storage, offset -> word,      *)
(*         sparse in the same way.  Only offsets that the code binds to a     *)
(*         default `Cell()` (plain storage; Plain(o)) and the six MIU         *)
(*         registers are modelled; any other offset gives out = "unmodelled"  *)
(*         (real MMIO semantics is property C12's module).                    *)
(* st.pm/xp/yp/zp/xsz/ysz/base  MemoryInterfaceUnit: page_mode, x/y/z_page,   *)
(*         x_size[0], y_size[0], mmio_base.                                   *)
(*                                                                            *)
(* Every operator returns [st, val, acc, out]: next state, value returned     *)
(* (reads) or echoed (writes), the ordered list of raw word accesses made on  *)
(* SharedMemory as <<byte address, is_write, value written>> (what the        *)
(* TEAKRA_VERIF observer hook sees), and out \in {"ok","assert",...}.         *)
EXTENDS Naturals, Sequences, FiniteSets, TLC

CONSTANTS
    BYTE,        \* values per byte: 256 (2 when model checking)
    DataOff,     \* MemoryInterfaceUnit::DataMemoryOffset   0x20000 (words)
    Bank,        \* MemoryInterfaceUnit::DataMemoryBankSize 0x10000 (= size of the 16-bit data space)
    NBanks,      \* 2 ("ASSERT(z_page < 2)")
    MSize,       \* MemoryInterfaceUnit::MMIOSize 0x800
    XRes,        \* MemoryInterfaceUnit::XYSizeResolution 0x400
    DefBase,     \* reset value of mmio_base 0x8000
    DefXSize,    \* reset value of x_size[0] 0x20
    DefYSize,    \* reset value of y_size[0] 0x1E
    OffXPage, OffYPage, OffZPage, OffPage0, OffMisc, OffBase,
                 \* MMIO offsets of MIU_XPAGE 0x10E, YPAGE 0x110, ZPAGE 0x112, PAGE0CFG 0x114,
                 \* the PAGEMODE word 0x11A, MIU_MMIOBASE 0x11E
    PlainLo, PlainHi,
                 \* offsets o < PlainLo or o >= PlainHi are default cells (plain storage) in mmio.cpp
    Vals,        \* model checking only: word values written by the accessors
    Budget       \* model checking only: bound on Dev (see below)

TW     == DataOff + NBanks * Bank      \* words of shared memory = program address space (2^18)
WORD   == BYTE * BYTE
PAddr  == 0 .. TW - 1                  \* program word addresses
DAddr  == 0 .. Bank - 1                \* 16-bit data addresses
BAddr  == 0 .. 2 * TW - 1              \* byte addresses of the raw view

-----------------------------------------------------------------------------
(* sparse maps with default 0 *)
Empty       == [x \in {} |-> 0]
Get(m, k)   == IF k \in DOMAIN m THEN m[k] ELSE 0
Put(m, k, v) == IF v = 0 THEN [x \in DOMAIN m \ {k} |-> m[x]]
                ELSE [x \in DOMAIN m \cup {k} |-> IF x = k THEN v ELSE m[x]]

Fresh == [mem |-> Empty, io |-> Empty, pm |-> 0, xp |-> 0, yp |-> 0, zp |-> 0,
          xsz |-> DefXSize, ysz |-> DefYSize, base |-> DefBase]

Res(s, v, a, o) == [st |-> s, val |-> v, acc |-> a, out |-> o]
Abort(s)        == Res(s, 0, <<>>, "assert")

\* SharedMemory::ReadWord / WriteWord -- little endian, word w = bytes 2w, 2w+1
ReadWord(s, w)     == Get(s.mem, 2 * w) + BYTE * Get(s.mem, 2 * w + 1)
WriteWord(s, w, v) == [s EXCEPT !.mem = Put(Put(@, 2 * w, v % BYTE), 2 * w + 1, (v \div BYTE) % BYTE)]
RdW(s, w)    == Res(s, ReadWord(s, w), << <<2 * w, 0, 0>> >>, "ok")
WrW(s, w, v) == Res(WriteWord(s, w, v), v, << <<2 * w, 1, v>> >>, "ok")

\* bit fields of the two BitFieldCell registers
Field(v, pos, len)       == (v \div 2^pos) % 2^len
SetField(v, pos, len, f) == v - Field(v, pos, len) * 2^pos + f * 2^pos

Plain(o) == o < PlainLo \/ o >= PlainHi
IsReg(o) == o \in {OffXPage, OffYPage, OffZPage, OffPage0, OffMisc, OffBase}

\* MMIORegion::Read(o) / Write(o, v), o already reduced to 0..MSize-1 (mmio.cpp)
CellRead(s, o) ==
    CASE o = OffXPage -> Res(s, s.xp, <<>>, "ok")
      [] o = OffYPage -> Res(s, s.yp, <<>>, "ok")
      [] o = OffZPage -> Res(s, s.zp, <<>>, "ok")
      [] o = OffBase  -> Res(s, s.base, <<>>, "ok")
      [] o = OffPage0 -> Res(s, SetField(SetField(Get(s.io, o), 0, 6, s.xsz), 8, 6, s.ysz), <<>>, "ok")
      [] o = OffMisc  -> Res(s, SetField(Get(s.io, o), 6, 1, s.pm), <<>>, "ok")
      [] OTHER -> IF Plain(o) THEN Res(s, Get(s.io, o), <<>>, "ok") ELSE Res(s, 0, <<>>, "unmodelled")
CellWrite(s, o, v) ==
    CASE o = OffXPage -> Res([s EXCEPT !.xp = v], v, <<>>, "ok")
      [] o = OffYPage -> Res([s EXCEPT !.yp = v], v, <<>>, "ok")
      [] o = OffZPage -> Res([s EXCEPT !.zp = v], v, <<>>, "ok")
      [] o = OffBase  -> Res([s EXCEPT !.base = v], v, <<>>, "ok")
      [] o = OffPage0 -> Res([s EXCEPT !.xsz = Field(v, 0, 6), !.ysz = Field(v, 8, 6), !.io = Put(@, o, v)],
                             v, <<>>, "ok")
      [] o = OffMisc  -> Res([s EXCEPT !.pm = Field(v, 6, 1), !.io = Put(@, o, v)], v, <<>>, "ok")
      [] OTHER -> IF Plain(o) THEN Res([s EXCEPT !.io = Put(@, o, v)], v, <<>>, "ok")
                  ELSE Res(s, v, <<>>, "unmodelled")

\* MemoryInterfaceUnit::InMMIO / ToMMIO / ConvertDataAddress -- exactly as coded: the upper bound is
\* computed in int (no 16-bit wrap, a base above Bank-MSize gives a truncated window), ToMMIO asserts
\* z_page = 0, page mode 1 sends addr <= x_size[0]*XRes (sic, inclusive) to the X page, the rest to Y.
InMMIO(s, a) == a >= s.base /\ a < s.base + MSize
ToMMIO(s, a) == (a - s.base) % MSize
Convert(s, a) ==
    IF s.pm = 0 THEN IF s.zp < NBanks THEN [w |-> DataOff + a + s.zp * Bank, out |-> "ok"]
                     ELSE [w |-> 0, out |-> "assert"]
    ELSE IF a <= s.xsz * XRes
         THEN IF s.xp < NBanks THEN [w |-> DataOff + a + s.xp * Bank, out |-> "ok"]
              ELSE [w |-> 0, out |-> "assert"]
         ELSE IF s.yp < NBanks THEN [w |-> DataOff + a + s.yp * Bank, out |-> "ok"]
              ELSE [w |-> 0, out |-> "assert"]

\* MemoryInterface::* (the Teakra facade forwards 1:1)
ProgramReadOp(s, p)     == RdW(s, p)
ProgramWriteOp(s, p, v) == WrW(s, p, v)
DataReadOp(s, a, bypass) ==
    IF InMMIO(s, a) /\ ~ bypass
    THEN IF s.zp # 0 THEN Abort(s) ELSE CellRead(s, ToMMIO(s, a))
    ELSE LET c == Convert(s, a) IN IF c.out # "ok" THEN Abort(s) ELSE RdW(s, c.w)
DataWriteOp(s, a, v, bypass) ==
    IF InMMIO(s, a) /\ ~ bypass
    THEN IF s.zp # 0 THEN Abort(s) ELSE CellWrite(s, ToMMIO(s, a), v)
    ELSE LET c == Convert(s, a) IN IF c.out # "ok" THEN Abort(s) ELSE WrW(s, c.w, v)
\* `address & (DataMemoryBankSize*2 - 1)`; NBanks*Bank is a power of two, so the mask is a modulus
DataReadA32Op(s, a32)     == RdW(s, (a32 % (NBanks * Bank)) + DataOff)
DataWriteA32Op(s, a32, v) == WrW(s, (a32 % (NBanks * Bank)) + DataOff, v)
MMIOReadOp(s, a)     == CellRead(s, a % MSize)
MMIOWriteOp(s, a, v) == CellWrite(s, a % MSize, v)

\* the raw pointer (GetDspMemory() / the user's own buffer): bytes, no hook
RawReadOp(s, b)     == Res(s, Get(s.mem, b), <<>>, "ok")
RawWriteOp(s, b, v) == Res([s EXCEPT !.mem = Put(@, b, v)], v, <<>>, "ok")

\* guest: Interpreter::Run fetches mem.ProgramRead(pc | prpage << 18); loads and stores are
\* mem.DataRead / mem.DataWrite without bypass.  (prpage # 0 leaves the memory: property C18.)
FetchOp(s, pc, prpage) == ProgramReadOp(s, pc + prpage * TW)
LoadOp(s, a)           == DataReadOp(s, a, FALSE)
StoreOp(s, a, v)       == DataWriteOp(s, a, v, FALSE)

\* Teakra::Reset: memset(raw, 0), miu.Reset(); the plain MMIO cells keep their storage (as coded)
ResetOp(s) == Res([Fresh EXCEPT !.io = s.io], 0, <<>>, "ok")

-----------------------------------------------------------------------------
(* State machine: every history of accessor calls (model checking).  `last`  *)
(* describes the call that led to the state; it is kept out of the           *)
(* fingerprint (VIEW st).                                                    *)
VARIABLES st, last
vars == <<st, last>>

\* the bound of the exhaustive exploration: number of components in which a state differs from the
\* fresh state (non-zero memory bytes, non-zero MMIO cells, MIU registers off their reset value).
\* Every state within the bound is explored, from every history that stays within it.  (The bound is
\* part of the action rather than a CONSTRAINT: TLC evaluates the invariants again on every generated
\* out-of-constraint state, which costs a factor 400 here.)
B2N(b) == IF b THEN 1 ELSE 0
Dev(s) == Cardinality(DOMAIN s.mem) + Cardinality(DOMAIN s.io) + B2N(s.pm # 0) + B2N(s.xp # 0)
          + B2N(s.yp # 0) + B2N(s.zp # 0) + B2N(s.xsz # DefXSize) + B2N(s.base # DefBase)

Call(k, a, v, bp, r) == /\ Dev(r.st) <= Budget
                        /\ st' = r.st
                        /\ last' = [kind |-> k, a |-> a, v |-> v, bp |-> bp, val |-> r.val, acc |-> r.acc, out |-> r.out]

Init == st = Fresh /\ last = [kind |-> "Init", a |-> 0, v |-> 0, bp |-> FALSE, val |-> 0, acc |-> <<>>, out |-> "ok"]

Bytes == 0 .. BYTE - 1
Next ==
    \/ \E p \in PAddr : Call("PR", p, 0, FALSE, ProgramReadOp(st, p))
    \/ \E p \in PAddr, v \in Vals : Call("PW", p, v, FALSE, ProgramWriteOp(st, p, v))
    \/ \E a \in DAddr, bp \in BOOLEAN : Call("DR", a, 0, bp, DataReadOp(st, a, bp))
    \/ \E a \in DAddr, bp \in BOOLEAN, v \in Vals : Call("DW", a, v, bp, DataWriteOp(st, a, v, bp))
    \/ \E a \in 0 .. 2 * NBanks * Bank - 1 : Call("AR", a, 0, FALSE, DataReadA32Op(st, a))
    \/ \E a \in 0 .. 2 * NBanks * Bank - 1, v \in Vals : Call("AW", a, v, FALSE, DataWriteA32Op(st, a, v))
    \/ \E a \in 0 .. 2 * MSize - 1 : Call("MR", a, 0, FALSE, MMIOReadOp(st, a))
    \/ \E a \in 0 .. 2 * MSize - 1, v \in Vals : Call("MW", a, v, FALSE, MMIOWriteOp(st, a, v))
    \/ \E b \in BAddr : Call("RR", b, 0, FALSE, RawReadOp(st, b))
    \/ \E b \in BAddr, v \in Bytes : Call("RW", b, v, FALSE, RawWriteOp(st, b, v))
    \/ \E p \in PAddr : Call("Fetch", p, 0, FALSE, FetchOp(st, p, 0))
    \/ \E a \in DAddr : Call("Load", a, 0, FALSE, LoadOp(st, a))
    \/ \E a \in DAddr, v \in Vals : Call("Store", a, v, FALSE, StoreOp(st, a, v))
    \* MIU registers (in the real geometry they sit in the MMIO file; the scaled window is too small
    \* to hold them, except mmio_base which MC_Memory.cfg places at offset 1)
    \/ \E v \in 0 .. 1 : Call("SetPm", 0, v, FALSE, Res([st EXCEPT !.pm = v], v, <<>>, "ok"))
    \/ \E v \in 0 .. NBanks : Call("SetXp", 0, v, FALSE, Res([st EXCEPT !.xp = v], v, <<>>, "ok"))
    \/ \E v \in 0 .. NBanks : Call("SetYp", 0, v, FALSE, Res([st EXCEPT !.yp = v], v, <<>>, "ok"))
    \/ \E v \in 0 .. NBanks : Call("SetZp", 0, v, FALSE, Res([st EXCEPT !.zp = v], v, <<>>, "ok"))
    \/ \E v \in 0 .. (Bank \div XRes) - 1 : Call("SetXsz", 0, v, FALSE, Res([st EXCEPT !.xsz = v], v, <<>>, "ok"))
    \/ \E v \in DAddr : Call("SetBase", 0, v, FALSE, CellWrite(st, OffBase, v))
    \/ Call("Reset", 0, 0, FALSE, ResetOp(st))

Spec == Init /\ [][Next]_vars

StView == st

-----------------------------------------------------------------------------
(* Property layer (C11).  The "ideal" side is written without the as-is      *)
(* operators: cells are named by byte address.                               *)

ProgCell(p)    == 2 * p                                   \* program word p = bytes 2p, 2p+1
DataCell(z, a) == 2 * (DataOff + Bank * z + a)            \* data word a of bank z, default paging
LE(m, b)       == Get(m, b) + BYTE * Get(m, b + 1)        \* little endian
Window(base)   == {a \in DAddr : a >= base /\ a - base < MSize}
WithWord(m, b, v) == Put(Put(m, b, v % BYTE), b + 1, v \div BYTE)
OneRead(b)     == << <<b, 0, 0>> >>
OneWrite(b, v) == << <<b, 1, v>> >>

TypeOK ==
    /\ DOMAIN st.mem \subseteq BAddr /\ \A b \in DOMAIN st.mem : st.mem[b] \in 1 .. BYTE - 1
    /\ \A o \in DOMAIN st.io : st.io[o] \in 1 .. WORD - 1
    /\ st.pm \in 0 .. 1 /\ st.base \in DAddr
    /\ last.out \in {"ok", "assert"}

\* "Program word p is bytes 2p and 2p+1 (little endian) of the shared DSP memory": the host program
\* accessor, the instruction fetch and the raw pointer observe the same cell, for every word of the
\* shared memory (the data banks are program words DataOff..TW-1 as well).
ProgramViewsAgree ==
    \A p \in PAddr :
        LET r == ProgramReadOp(st, p)  f == FetchOp(st, p, 0) IN
        /\ r = Res(st, LE(st.mem, ProgCell(p)), OneRead(ProgCell(p)), "ok")
        /\ f = r
        /\ r.val = RawReadOp(st, ProgCell(p)).val + BYTE * RawReadOp(st, ProgCell(p) + 1).val
        /\ \A v \in Vals :
              ProgramWriteOp(st, p, v) =
                  Res([st EXCEPT !.mem = WithWord(@, ProgCell(p), v)], v, OneWrite(ProgCell(p), v), "ok")

\* "in the default paging mode, data word a in bank z is the word at 0x20000 + 0x10000*z + a":
\* 16-bit forms (bypass, and without bypass / guest load-store outside the window), the
\* 32-bit-address forms, the program accessor at that word and the raw bytes all agree.
DataViewsAgree ==
    st.pm = 0 /\ st.zp < NBanks =>
    \A a \in DAddr :
        LET c == DataCell(st.zp, a)
            rd == Res(st, LE(st.mem, c), OneRead(c), "ok")
            wr(v) == Res([st EXCEPT !.mem = WithWord(@, c, v)], v, OneWrite(c, v), "ok") IN
        /\ DataReadOp(st, a, TRUE) = rd
        /\ DataReadA32Op(st, st.zp * Bank + a) = rd
        /\ ProgramReadOp(st, DataOff + Bank * st.zp + a) = rd
        /\ a \notin Window(st.base) => DataReadOp(st, a, FALSE) = rd /\ LoadOp(st, a) = rd
        /\ \A v \in Vals :
              /\ DataWriteOp(st, a, v, TRUE) = wr(v)
              /\ DataWriteA32Op(st, st.zp * Bank + a, v) = wr(v)
              /\ ProgramWriteOp(st, DataOff + Bank * st.zp + a, v) = wr(v)
              /\ a \notin Window(st.base) => DataWriteOp(st, a, v, FALSE) = wr(v) /\ StoreOp(st, a, v) = wr(v)

\* the 32-bit-address forms name bank z, word a as z*Bank + a whatever the paging registers say,
\* ignore the MMIO window, and wrap by the mask
A32Alias ==
    \A z \in 0 .. NBanks - 1, a \in DAddr :
        LET c == DataCell(z, a) IN
        /\ DataReadA32Op(st, z * Bank + a) = Res(st, LE(st.mem, c), OneRead(c), "ok")
        /\ DataReadA32Op(st, z * Bank + a + NBanks * Bank) = DataReadA32Op(st, z * Bank + a)
        /\ \A v \in Vals :
              /\ DataWriteA32Op(st, z * Bank + a, v) =
                     Res([st EXCEPT !.mem = WithWord(@, c, v)], v, OneWrite(c, v), "ok")
              /\ DataWriteA32Op(st, z * Bank + a + NBanks * Bank, v) = DataWriteA32Op(st, z * Bank + a, v)

\* "Data addresses inside the MMIO window at its configured base reach peripheral registers instead of
\* memory unless the host asks to bypass MMIO, and never modify the memory underneath."
MmioWindow ==
    \A a \in DAddr :
        /\ InMMIO(st, a) <=> a \in Window(st.base)
        /\ a \in Window(st.base) =>
              LET o == a - st.base IN
              /\ o \in 0 .. MSize - 1
              /\ IF st.zp = 0
                 THEN /\ DataReadOp(st, a, FALSE) = CellRead(st, o) /\ LoadOp(st, a) = CellRead(st, o)
                      /\ CellRead(st, o).acc = <<>> /\ CellRead(st, o).st = st
                      /\ \A v \in Vals :
                            /\ DataWriteOp(st, a, v, FALSE) = CellWrite(st, o, v)
                            /\ StoreOp(st, a, v) = CellWrite(st, o, v)
                            /\ CellWrite(st, o, v).acc = <<>>
                            /\ CellWrite(st, o, v).st.mem = st.mem
                            /\ CellRead(CellWrite(st, o, v).st, o).val = v
                 ELSE \* deliberate assertion (ToMMIO), nothing touched
                      /\ DataReadOp(st, a, FALSE) = Abort(st)
                      /\ \A v \in Vals : DataWriteOp(st, a, v, FALSE) = Abort(st)
              \* with bypass the memory underneath is reached and the register file is not
              /\ LET c == Convert(st, a) IN
                 IF c.out = "ok"
                 THEN /\ DataReadOp(st, a, TRUE) = Res(st, LE(st.mem, 2 * c.w), OneRead(2 * c.w), "ok")
                      /\ \A v \in Vals : DataWriteOp(st, a, v, TRUE) =
                            Res([st EXCEPT !.mem = WithWord(@, 2 * c.w, v)], v, OneWrite(2 * c.w, v), "ok")
                 ELSE DataReadOp(st, a, TRUE) = Abort(st)

\* relocation: writing mmio_base moves the window, changes nothing else
WindowMoves ==
    \A b \in DAddr :
        LET s1 == CellWrite(st, OffBase, b).st IN
        /\ s1 = [st EXCEPT !.base = b]
        /\ {a \in DAddr : InMMIO(s1, a)} = Window(b)
        /\ \A a \in Window(st.base) \ Window(b) : s1.pm = 0 /\ s1.zp < NBanks =>
              LoadOp(s1, a) = Res(s1, LE(s1.mem, DataCell(s1.zp, a)), OneRead(DataCell(s1.zp, a)), "ok")

\* page mode 1 "as coded": still one word of the data banks at offset a, bank x_page or y_page
PagedStaysInData ==
    \A a \in DAddr : LET c == Convert(st, a) IN
        c.out = "ok" => /\ c.w \in DataOff .. TW - 1
                        /\ c.w \in {DataOff + Bank * z + a : z \in 0 .. NBanks - 1}
                        /\ st.pm = 1 => c.w = DataOff + a + Bank * (IF a <= st.xsz * XRes THEN st.xp ELSE st.yp)

\* ---- over the histories (action properties; `last'` names the call) ----
Reads  == {"PR", "DR", "AR", "MR", "RR", "Fetch", "Load"}
Writes == {"PW", "DW", "AW", "RW", "Store"}
Changed == {b \in BAddr : Get(st'.mem, b) # Get(st.mem, b)}

\* a read through any view changes nothing
ReadsArePure == [][last'.kind \in Reads => st' = st]_vars

\* a windowed access without bypass never reads or writes memory
WindowNeverTouchesMemory ==
    [][(last'.kind \in {"DR", "DW", "Load", "Store"} /\ ~ last'.bp /\ last'.a \in Window(st.base))
          => (st'.mem = st.mem /\ last'.acc = <<>>)]_vars

\* MMIO accessors and register writes never change memory
MmioNeverTouchesMemory ==
    [][last'.kind \in {"MR", "MW", "SetPm", "SetXp", "SetYp", "SetZp", "SetXsz", "SetBase"}
          => (st'.mem = st.mem /\ last'.acc = <<>>)]_vars

\* a word write through any view changes at most the two bytes of one aligned word, which then read
\* back as the value through the raw view; the hook saw exactly that word; nothing else moved
WritesHitOneCell ==
    [][last'.kind \in Writes \ {"RW"} /\ last'.out = "ok" /\ last'.acc # <<>> =>
          /\ Len(last'.acc) = 1 /\ last'.acc[1][2] = 1 /\ last'.acc[1][3] = last'.v
          /\ last'.acc[1][1] % 2 = 0
          /\ Changed \subseteq {last'.acc[1][1], last'.acc[1][1] + 1}
          /\ LE(st'.mem, last'.acc[1][1]) = last'.v
          /\ [st' EXCEPT !.mem = st.mem] = st]_vars

\* Teakra::Reset zeroes the whole memory and puts the MIU registers back (the trace specification
\* relies on it: a cell never written since the last Reset reads 0 through every view)
ResetZeroesMemory ==
    [][last'.kind = "Reset" => st'.mem = Empty /\ [st' EXCEPT !.io = Empty] = Fresh]_vars

\* a failed assertion leaves everything as it was
AssertChangesNothing == [][last'.out = "assert" => st' = st /\ last'.acc = <<>>]_vars
=============================================================================
