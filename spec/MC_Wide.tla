---- MODULE MC_Wide ----
EXTENDS Wide
ASSUME WideTheorems
VARIABLE x
Init == x = 0
Next == UNCHANGED x
====
