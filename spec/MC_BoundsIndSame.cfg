CONSTANTS W = 16
INIT Init
NEXT Next
INVARIANT Same
CHECK_DEADLOCK FALSE
