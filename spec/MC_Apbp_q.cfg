\* C14 quick composition: both directions together with ONE channel (the two-channel product is MC_Apbp.cfg, thorough tier)
CONSTANTS
  NCh = 1
  Data = {1, 2}
  SemW = 2
  FixedMask = TRUE
    FixedReentry = TRUE
  Junk = {0}
  Sides = {"fc", "fd"}
SPECIFICATION Spec
VIEW View
INVARIANTS TypeOK SignalInv SignalStatus LastWritten StatusAgree PureReads
PROPERTIES DataInterrupts RecvReturnsLast SemaphoreInterrupts IcuLatch
CHECK_DEADLOCK FALSE
