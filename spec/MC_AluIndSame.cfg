CONSTANTS W = 4
INIT Init
NEXT Next
INVARIANT Same
CHECK_DEADLOCK FALSE
