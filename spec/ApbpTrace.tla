----------------------------- MODULE ApbpTrace -----------------------------
(* Trace validation for C14: an execution recorded from a real Teakra::Teakra *)
(* (harness/drivers/apbp_rec.cpp) must be a behaviour of ApbpSys.tla.  Every  *)
(* line names the call (facade call on the host side, MMIORead "R" /          *)
(* MMIOWrite "W" on the DSP side), its arguments, the value returned, the     *)
(* handler invocations made during the call (which handler, what it could see *)
(* at that moment), the complete private state of both Apbp objects and ICU   *)
(* request bit 14 after the call (y), and everything either side can read     *)
(* without side effect after the call (o).  The trace action applies the      *)
(* specification's operator to the current specification state and requires   *)
(* equality with all of it.                                                   *)
EXTENDS ApbpSys, Json, IOUtils

Log == ndJsonDeserialize(IOEnv.TRACE)
DataFull == 0..65535     \* the trace cfgs put this in place of the constant Data

VARIABLE l
tvars == <<y, lw, ev, l>>

Rec == Log[l]
Ch(t)  == [c \in Chan |-> t[c + 1]]
ASt(r) == [rdy |-> Ch(r.rdy), dat |-> Ch(r.dat), dis |-> Ch(r.dis), sem |-> r.sem, msk |-> r.msk, sig |-> r.sig]

Matches(res) == /\ res.ret  = Rec.ret
                /\ res.hc   = Rec.hc
                /\ res.y.fc = ASt(Rec.y.fc)
                /\ res.y.fd = ASt(Rec.y.fd)
                /\ res.y.icu = Rec.y.icu
                /\ Obs(res.y) = Rec.o

Step(res) == Matches(res) /\ Do(Rec.e, Rec.c, Rec.v, res) /\ l' = l + 1

IsEvent(e) == l <= Len(Log) /\ Rec.e = e

\* a new instance straight from its constructor (handlers installed by the recorder)
TNew      == IsEvent("New")              /\ Step(Res(SysFresh, 0, <<>>))
THSend    == IsEvent("HSendData")        /\ Step(HSendData(y, Rec.c, Rec.v))
THRecv    == IsEvent("HRecvData")        /\ Step(HRecvData(y, Rec.c))
THPeek    == IsEvent("HPeekRecvData")    /\ Step(HPeekRecvData(y, Rec.c))
THEmpty   == IsEvent("HSendDataIsEmpty") /\ Step(HSendDataIsEmpty(y, Rec.c))
THReady   == IsEvent("HRecvDataIsReady") /\ Step(HRecvDataIsReady(y, Rec.c))
THSet     == IsEvent("HSetSemaphore")    /\ Step(HSetSemaphore(y, Rec.v))
THClear   == IsEvent("HClearSemaphore")  /\ Step(HClearSemaphore(y, Rec.v))
THMask    == IsEvent("HMaskSemaphore")   /\ Step(HMaskSemaphore(y, Rec.v))
THGet     == IsEvent("HGetSemaphore")    /\ Step(HGetSemaphore(y))
THReset   == IsEvent("HReset")           /\ Step(HReset(y))
TRead     == IsEvent("R") /\ Rec.c \in Addrs /\ Step(MmioRead(y, Rec.c))
TWrite    == IsEvent("W") /\ Rec.c \in Addrs /\ Step(MmioWrite(y, Rec.c, Rec.v))

TraceInit == Init /\ l = 1
TraceNext == TNew \/ THSend \/ THRecv \/ THPeek \/ THEmpty \/ THReady \/ THSet \/ THClear \/ THMask
             \/ THGet \/ THReset \/ TRead \/ TWrite
TraceSpec == TraceInit /\ [][TraceNext]_tvars

\* the property layer re-evaluated on every state of the observed execution (the per-call rules
\* quantify over all 2^16 arguments and are left to the model checker; the action properties
\* DataInterrupts, RecvReturnsLast, SemaphoreInterrupts, IcuLatch are PROPERTIES of the trace cfg)
Observed       == TypeOK /\ LastWritten /\ StatusAgree /\ SignalInv /\ SignalStatus
\* the unrepaired MaskSemaphore (defect D3) breaks SignalInv/SignalStatus/SemaphoreInterrupts
ObservedPinned == TypeOK /\ LastWritten /\ StatusAgree

TraceAccepted ==
    /\ PrintT(<<"TRACE_MATCHED", TLCGet("stats").diameter - 1, Len(Log)>>)
    /\ TLCGet("stats").diameter - 1 = Len(Log)
=============================================================================
