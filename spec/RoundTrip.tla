------------------------------- MODULE RoundTrip -------------------------------
(* Property layer for C08, evaluated by TLC on the specification's own semantics (TeakCore!CoreCycle) from  *)
(* random complete register states (sample space: harness/drivers/regs_rec.cpp --mode states):              *)
(*   PushPop     with saturation-on-read disabled and no hardware loop: push X ; pop X restores X and sp,     *)
(*               for every pushable 16-bit register / accumulator part / status word, r6, repc, x0, x1, y1,  *)
(*               prpage, products (push Px / pop Px, product shifter off) and whole accumulators             *)
(*               (push aXe ; pusha ; popa ; pop aXe);                                                         *)
(*   CallRet     call / callr / calla followed by ret resumes after the call with sp restored, both pc word   *)
(*               orders;                                                                                      *)
(*   IrqReti     interrupt entry on every line followed by reti / retic resumes the interrupted stream with   *)
(*               interrupts enabled; with a context switch every program-visible register is as before;       *)
(*   Context     cntx s ; cntx r, banke f ; banke f, bankr ; bankr are the identity on every program-visible   *)
(*               register and two-way bank, the one-way slots take the saved values.                          *)
(* (That each single instruction behaves like the specification is the business of the instruction traces.)  *)
EXTENDS TeakCore, Json, IOUtils, TLC

Log == ndJsonDeserialize(IOEnv.TRACE)
VARIABLE vL

Mk(r, words) == [r |-> r, mem |-> [a \in r.pc .. r.pc + Len(words) - 1 |-> words[a - r.pc + 1]], io |-> [a \in {} |-> 0],
                 acc |-> <<>>, out |-> "ok", idle |-> FALSE, lat |-> <<0, 0, 0, 0>>, vaddr |-> 0, vctx |-> 0,
                 miu |-> MiuReset]
Step(s) == CoreCycle([s EXCEPT !.acc = <<>>])
\* keep stack and code out of the MMIO window, away from each other, no loop, no repeat, no interrupt
Quiet(r0) == [r0 EXCEPT !.pc = 512 + (r0.pc % 256), !.sp = 4096 + (r0.sp % 256), !.lp = 0, !.bcn = 0, !.rep = 0, !.ie = 0,
                        !.sat = 1, !.prpage = 0]

\* value of a register as the 16-bit bus reads it (no saturation: sat = 1)
Val(r, n) == RegToBus(Mk(r, <<0>>), n, FALSE).v

PushableRegs == {"r0","r1","r2","r3","r4","r5","r7","y0","st0","st1","st2","sp","cfgi","cfgj","b0h","b1h","b0l","b1l",
                 "ext0","ext1","ext2","ext3","a0","a1","a0l","a1l","a0h","a1h","lc","sv"}
RegCode(n) == CHOOSE v \in 0 .. 31 : RegOf("Register", v) = n
PushPopRegister(r0) ==
    \A n \in PushableRegs :
        LET r  == Quiet(r0)
            s2 == Step(Step(Mk(r, <<24128 + RegCode(n), 24160 + RegCode(n)>>)))          \* 0x5E40 | r ; 0x5E60 | r
        IN  /\ s2.out = "ok" /\ s2.r.sp = r.sp
            /\ n \notin {"a0", "a1"} => Val(s2.r, n) = Val(r, n)                           \* aX as Register pushes aXl
            /\ n \in {"a0", "a1"} => Val(s2.r, n) = Val(r, n)
SttNames == {"ar0","ar1","arp0","arp1","arp2","arp3","stt0","stt1","stt2","mod0","mod1","mod2","mod3"}
SttCode(n) == CHOOSE v \in 0 .. 15 : RegOf("ArArpSttMod", v) = n
PushPopWord(r0) ==
    \A n \in SttNames :
        LET r  == Quiet(r0)
            s2 == Step(Step(Mk(r, <<54224 + SttCode(n), 32967 + 256 * SttCode(n)>>)))     \* 0xD3D0 | v ; 0x80C7 | v << 8
            \* writable bits come back; read-only bits and write-one-to-clear LP are not "values held" by the word
            m  == WritableMask(n)
        IN  s2.out = "ok" /\ s2.r.sp = r.sp /\ (PGet(s2.r, n) & m) = (PGet(r, n) & m)
PushPopMisc(r0) ==
    LET r == Quiet(r0)
        T(w1, w2) == Step(Step(Mk(r, <<w1, w2>>)))
    IN  /\ LET s2 == T(54487, 36) IN s2.r.sp = r.sp /\ s2.r.r[7] = r.r[7]                  \* push r6 0xD4D7 ; pop r6 0x0024
        /\ LET s2 == T(55288, 55280) IN s2.r.sp = r.sp /\ s2.r.repc = r.repc               \* push repc 0xD7F8 ; pop 0xD7F0
        /\ LET s2 == T(54484, 54420) IN s2.r.sp = r.sp /\ s2.r.x[1] = r.x[1]               \* x0: 0xD4D4 ; 0xD494
        /\ LET s2 == T(54485, 54421) IN s2.r.sp = r.sp /\ s2.r.x[2] = r.x[2]               \* x1: 0xD4D5 ; 0xD495
        /\ LET s2 == T(54486, 4) IN s2.r.sp = r.sp /\ s2.r.y[2] = r.y[2]                   \* y1: 0xD4D6 ; 0x0004
        /\ LET s2 == T(55292, 55284) IN s2.r.sp = r.sp /\ s2.r.prpage = r.prpage           \* prpage: 0xD7FC ; 0xD7F4
        /\ \A e \in 0 .. 3 :                                                               \* aXe / bXe: 0xD7C8 | e<<1 ; 0x47B4 | e
              LET s2 == T(55240 + 2 * e, 18356 + e)  n == RegOf("Abe", e)
              IN  s2.r.sp = r.sp /\ s2.r[AccBase[n]][3] = r[AccBase[n]][3]
        /\ \A px \in 0 .. 1 :                                                              \* products, shifter off
              LET rp == [r EXCEPT !.ps = <<0, 0>>]
                  s2 == Step(Step(Mk(rp, <<55180 + 2 * px, 54422 + px>>)))                 \* 0xD78C | px<<1 ; 0xD496 | px
              IN  s2.r.sp = rp.sp /\ s2.r.p0 = rp.p0 /\ s2.r.p1 = rp.p1 /\ (rp.pe[px + 1] = (IF px = 0 THEN rp.p0 ELSE rp.p1)[2] \div 32768 => s2.r.pe = rp.pe)
        /\ \A ab \in 0 .. 3 :                                                              \* whole accumulator: push e ; pusha ; popa ; pop e
              LET n  == RegOf("Ab", ab)
                  pa == IF ab >= 2 THEN 17284 + 64 * (ab - 2) ELSE 55176 + 2 * ab           \* pusha Ax 0x4384|ax<<6 ; pusha Bx 0xD788|bx<<1
                  s4 == Step(Step(Step(Step(Mk(r, <<55240 + 2 * ab, pa, 18352 + ab, 18356 + ab>>)))))
              IN  s4.out = "ok" /\ s4.r.sp = r.sp /\ s4.r[n] = r[n]

CallRet(r0) ==
    \A cpc \in 0 .. 1 :
        LET r  == [Quiet(r0) EXCEPT !.cpc = cpc]
            tgt == 1536
            \* call tgt (2 words) ... at tgt: ret
            run(words, len) == LET s1 == Step([Mk(r, words) EXCEPT !.mem = (tgt :> 17792) @@ @]) IN <<s1, Step(s1)>>
            t1 == run(<<16832, tgt>>, 2)                                                    \* call 0x41C0, cond true
        IN  /\ t1[1].r.pc = tgt /\ t1[2].out = "ok" /\ t1[2].r.pc = r.pc + 2 /\ t1[2].r.sp = r.sp
            \* callr +5: target = pc + 1 + 5
            /\ LET s1 == Step([Mk(r, <<4176>>) EXCEPT !.mem = ((r.pc + 6) :> 17792) @@ @])  s2 == Step(s1)
               IN  s1.r.pc = r.pc + 6 /\ s2.r.pc = r.pc + 1 /\ s2.r.sp = r.sp
            \* calla a0l: target = a0l (kept clear of code and stack)
            /\ LET ra == [r EXCEPT !.a0 = <<1792, r.a0[2], r.a0[3]>>]
                   s1 == Step([Mk(ra, <<54400>>) EXCEPT !.mem = (1792 :> 17792) @@ @])  s2 == Step(s1)
               IN  s1.r.pc = 1792 /\ s2.r.pc = ra.pc + 1 /\ s2.r.sp = ra.sp

\* program-visible registers: everything but the shadow banks (one-way and two-way)
Visible(r) == [r EXCEPT !.sh = ResetRegs.sh, !.ss = ResetRegs.ss, !.sar = ResetRegs.sar, !.sarp = ResetRegs.sarp,
                        !.a1s = ResetRegs.a1s, !.b1s = ResetRegs.b1s, !.repcs = 0, !.r0b = 0, !.r1b = 0, !.r4b = 0, !.r7b = 0,
                        !.stepib = 0, !.stepjb = 0, !.modib = 0, !.modjb = 0, !.stepi0b = 0, !.stepj0b = 0]
TwoWay(r) == <<r.ss, r.sar, r.sarp, r.r0b, r.r1b, r.r4b, r.r7b, r.stepib, r.stepjb, r.modib, r.modjb, r.stepi0b, r.stepj0b>>

IrqReti(r0) ==
    \A line \in 1 .. 3 : \A ctx \in 0 .. 1 :
        LET r  == [Quiet(r0) EXCEPT !.ie = 1, !.im = [k \in 1 .. 3 |-> IF k = line THEN 1 ELSE 0], !.imv = 0,
                                    !.ip = <<0, 0, 0>>, !.ipv = 0, !.ic = [k \in 1 .. 3 |-> IF k = line THEN ctx ELSE 0]]
            h  == 6 + 8 * (line - 1)
            s0 == [Mk(r, <<0>>) EXCEPT !.lat = [k \in 1 .. 4 |-> IF k = line THEN 1 ELSE 0],
                                       !.mem = (h :> (IF ctx = 1 THEN 17872 ELSE 17856)) @@ @]      \* retic 0x45D0 / reti 0x45C0
            s1 == Step(s0)             \* the nop executes, then the handler is entered
            s2 == Step(s1)             \* reti / retic
        IN  /\ s1.r.pc = h /\ s1.r.ie = 0 /\ s1.r.ip[line] = 0
            /\ s2.out = "ok" /\ s2.r.pc = r.pc + 1 /\ s2.r.sp = r.sp /\ s2.r.ie = 1
            /\ Visible([s2.r EXCEPT !.pc = r.pc]) = Visible(r)
            /\ TwoWay(s2.r) = TwoWay(r)

Context(r0) ==
    LET r  == Quiet(r0)
        s2 == Step(Step(Mk(r, <<54144, 54160>>)))                                            \* cntx s 0xD380 ; cntx r 0xD390
    IN  /\ Visible([s2.r EXCEPT !.pc = r.pc]) = Visible(r) /\ TwoWay(s2.r) = TwoWay(r)
        \* the one-way slots take the saved values
        /\ s2.r.sh = [flm |-> r.flm, fvl |-> r.fvl, fe |-> r.fe, fc0 |-> r.fc0, fc1 |-> r.fc1, fv |-> r.fv, fn |-> r.fn,
                      fm |-> r.fm, fz |-> r.fz, fr |-> r.fr]
        /\ r.crep = 0 => s2.r.repcs = r.repc
        /\ r.ccnta = 0 => s2.r.a1s = r.a1 /\ s2.r.b1s = r.b1
        \* bank exchanges applied twice
        /\ \A f \in {1, 2, 4, 8, 16, 32, 63, 21, 42} :
              Step(Step(Mk(r, <<19328 + f, 19328 + f>>))).r = [r EXCEPT !.pc = r.pc + 2]     \* banke 0x4B80 | flags
        /\ \A w \in {36063, 36060, 36061, 36048, 36053, 36058, 36056, 36059} :               \* bankr forms 0x8CDF 0x8CDC.. 0x8CD0.. 0x8CD8..
              Step(Step(Mk(r, <<w, w>>))).r = [r EXCEPT !.pc = r.pc + 2]

StateOk(rec) == LET r0 == Unpack(rec.pre) IN
    PushPopRegister(r0) /\ PushPopWord(r0) /\ PushPopMisc(r0) /\ CallRet(r0) /\ IrqReti(r0) /\ Context(r0)

TraceInit == vL = 1
TraceNext == vL <= Len(Log) /\ StateOk(Log[vL]) /\ vL' = vL + 1
TraceSpec == TraceInit /\ [][TraceNext]_vL
TraceAccepted == /\ PrintT(<<"TRACE_MATCHED", TLCGet("stats").diameter - 1, Len(Log)>>)
                 /\ TLCGet("stats").diameter - 1 = Len(Log)
=============================================================================
