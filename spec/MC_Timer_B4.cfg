CONSTANTS
  B = 4
  FixedSkipZero = TRUE
SPECIFICATION Spec
INVARIANTS TypeOK SkipIsTicks NoIrqInHorizon SkipNeverAsserts TickRules EventRules
PROPERTY FireOnlyOnOneToZero
CHECK_DEADLOCK FALSE
