\* vectored delivery of irq 14 on, the DSP rewrites the vector register while host sends and semaphore sets
\* trigger the ICU; with the (hypothetical) ICU-mutex-protected register write the discipline holds
CONSTANTS
  Chans = {0}
  SemFull = 3
  FixedDisableIrqLock = TRUE
  FixedVectorLock = TRUE
  HandlerInsideLock = FALSE
  VectoredOn = TRUE
  NSend = 1
  NHostOps = 1
  SemVals = {1}
  NDis = 0
  NVec = 1
  NCbSend = 0
  HostKinds = {"Empty", "PollRecv", "SemSet", "SemGet", "SemClr", "SemMask"}
  NDspMask = 0
  TrackLockset = TRUE
SPECIFICATION Spec
INVARIANTS ValuesOK LocksetOK NoDeadlock HeldOK OwedSafe
PROPERTY TrigDelivers
CHECK_DEADLOCK TRUE
