---- MODULE MC_Regs_all ----
EXTENDS RegsTheorems
AllVals == 0 .. 65535
====
