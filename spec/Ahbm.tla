------------------------------- MODULE Ahbm -------------------------------
(* The AHB master bridge between the DMA engine and external memory           *)
(* (src/ahbm.cpp, src/ahbm.h, src/ahbm.md), as the code has it: one operator  *)
(* per entry point (Read16/Read32/Write16/Write32/WriteInternal/              *)
(* GetChannelForDma), the burst queue and the hardware-tested unaligned       *)
(* quirks included (as-is layer), and the statement of C13's external-memory  *)
(* clause for the natural cases (property layer, AhbmTheorems).               *)
(*                                                                            *)
(* Addresses are wide values <<hi,lo>> in base B (Wide.tla; B = 65536 in      *)
(* traces, small in model checking; B must be a multiple of 4 so that the     *)
(* alignment masks & ~1, & ~3 act on the low limb only).                      *)
(* Values: a byte is 0..BB-1, a 16-bit word is 0..BB*BB-1, a 32-bit value is  *)
(* <<high word, low word>>.  BB = 256 in traces; in model checking BB is      *)
(* chosen large enough to give every memory cell a distinct tag (the bridge   *)
(* only moves, shifts and splits values, it never computes with them).        *)
(*                                                                            *)
(* An access to the outside world is an event <<kind, address, value>>;       *)
(* external reads take the value the environment returned as an input.        *)
EXTENDS Naturals, Sequences, Wide

CONSTANT BB
ASSUME B % 4 = 0

WB == BB * BB

\* event kinds (numbers: TLC cannot compare strings with tuples, and traces stay small)
KDspR == 0   KDspW == 1          \* DSP data memory word read / write
KR8   == 2   KW8   == 3          \* external callbacks
KR16  == 4   KW16  == 5
KR32  == 6   KW32  == 7
KOobR == 8   KOobW == 9          \* DSP access outside the data memory (attempt; the hook vetoes it)
IsReadKind(k)  == k \in {KDspR, KR8, KR16, KR32, KOobR}
IsWriteKind(k) == ~ IsReadKind(k)
IsExtKind(k)   == k \in {KR8, KW8, KR16, KW16, KR32, KW32}

\* bytes of a 32-bit value <<hi,lo>>: (u8)v, (u8)(v>>8), (u8)(v>>16), (u8)(v>>24)
Byte0(v) == v[2] % BB
Byte1(v) == v[2] \div BB
Byte2(v) == v[1] % BB
Byte3(v) == v[1] \div BB
W16(x)   == <<0, x>>             \* zero-extension of a byte / word to 32 bits

\* address arithmetic (u32, wraps)
AddK(a, k)  == WAdd(a, WFromInt(k))
Odd(a)      == a[2] % 2 = 1
Align2(a)   == <<a[1], a[2] - (a[2] % 2)>>          \* a & 0xFFFFFFFE
Align4(a)   == <<a[1], a[2] - (a[2] % 4)>>          \* a & 0xFFFFFFFC
OrOne(a)    == <<a[1], a[2] - (a[2] % 2) + 1>>      \* a | 1

-----------------------------------------------------------------------------
(* State: three channels [u, bu, dir, dm, q, wbs]                             *)
(*   u   unit size  0 = 8 bit, 1 = 16 bit, 2 = 32 bit, 3 = unknown (default:) *)
(*   bu  burst      0 = x1, 1 = x4, 2 = x8, 3 = unknown (treated as 1)        *)
(*   dir direction  (only used for a printf in the code: no effect)           *)
(*   dm  bit mask of the DMA channels routed to this AHBM channel             *)
(*   q   burst queue (sequence of 32-bit values), survives between transfers  *)
(*   wbs write_burst_start                                                    *)
AhbmChanReset == [u |-> 0, bu |-> 0, dir |-> 0, dm |-> 0, q |-> <<>>, wbs |-> WZero]
AhbmReset     == [i \in 0..2 |-> AhbmChanReset]

\* Ahbm::Channel::GetBurstSize
Burst(c) == IF c.bu = 1 THEN 4 ELSE IF c.bu = 2 THEN 8 ELSE 1
\* how far `current` advances per queue entry
UnitBytes(c) == IF c.u = 0 THEN 1 ELSE IF c.u = 1 THEN 2 ELSE IF c.u = 2 THEN 4 ELSE 0

\* Ahbm::GetChannelForDma: first channel whose mask has bit d, else 0
Bit(x, d) == (x \div (2 ^ d)) % 2 = 1
ChannelForDma(ah, d) == IF Bit(ah[0].dm, d) THEN 0
                        ELSE IF Bit(ah[1].dm, d) THEN 1
                        ELSE IF Bit(ah[2].dm, d) THEN 2 ELSE 0

-----------------------------------------------------------------------------
(* Read side.  Read32 refills the queue with Burst(c) units starting at the   *)
(* address of the call when (and only when) the queue is empty, then pops.    *)

\* the external read the i-th refill iteration issues, <<kind, address>>
FillReq(c, cur) == IF c.u = 0 THEN <<KR8, cur>>
                   ELSE IF c.u = 1 THEN <<KR16, Align2(cur)>>
                   ELSE <<KR32, Align4(cur)>>
FillCur(c, addr, i) == AddK(addr, (i - 1) * UnitBytes(c))
\* the reads a Read32/Read16 call will issue
ReadReqs32(c, addr) ==
    IF c.q # <<>> \/ c.u > 2 THEN <<>>
    ELSE [i \in 1..Burst(c) |-> FillReq(c, FillCur(c, addr, i))]
\* value pushed for a unit read at `cur` that returned v
FillVal(c, cur, v) == IF c.u = 0 /\ Odd(cur) THEN <<0, v[2] * BB>>   \* value <<= 8 (hwtested)
                      ELSE v

\* Ahbm::Read32(channel, address); vals = what the external reads returned, in order
Read32Op(c, addr, vals) ==
    LET reqs == ReadReqs32(c, addr)
        q1   == IF c.q # <<>> THEN c.q
                ELSE IF c.u > 2 THEN [i \in 1..Burst(c) |-> WZero]
                ELSE [i \in 1..Burst(c) |-> FillVal(c, FillCur(c, addr, i), vals[i])]
    IN  [c  |-> [c EXCEPT !.q = Tail(q1)],
         v  |-> Head(q1),
         ev |-> [i \in 1..Len(reqs) |-> <<reqs[i][1], reqs[i][2], vals[i]>>]]

\* Ahbm::Read16: bit 0 of the address selects the half of the popped value
Read16Op(c, addr, vals) ==
    LET r == Read32Op(c, addr, vals)
    IN  [c |-> r.c, v |-> (IF Odd(addr) THEN r.v[1] ELSE r.v[2]), ev |-> r.ev]

-----------------------------------------------------------------------------
(* Write side.                                                                *)

\* what one queue entry v turns into when the burst is written out at `cur`
DrainEv(u, cur, v) ==
    IF u = 0 THEN << <<KW8, cur, W16(IF Odd(cur) THEN Byte1(v) ELSE Byte0(v))>> >>   \* hwtested
    ELSE IF u = 1 THEN
        LET c0 == Align2(cur)  c1 == AddK(c0, 1) IN
        IF WLeq(cur, c0) THEN << <<KW16, c0, W16(v[2])>> >>
        ELSE << <<KW8, c1, W16(Byte1(v))>> >>
    ELSE IF u = 2 THEN
        LET c0 == Align4(cur)  c1 == AddK(c0, 1)  c2 == AddK(c0, 2)  c3 == AddK(c0, 3) IN
        IF WLeq(cur, c0) /\ WLeq(cur, c1) /\ WLeq(cur, c2) THEN << <<KW32, c0, v>> >>
        ELSE IF WLeq(cur, c2)
             THEN (IF WLeq(cur, c1) THEN << <<KW8, c1, W16(Byte1(v))>> >> ELSE <<>>)
                  \o << <<KW16, c2, W16(v[1])>> >>
             ELSE << <<KW8, c3, W16(Byte3(v))>> >>
    ELSE <<>>

RECURSIVE DrainFrom(_, _, _, _)
DrainFrom(c, q, start, i) ==
    IF i > Len(q) THEN <<>>
    ELSE DrainEv(c.u, AddK(start, (i - 1) * UnitBytes(c)), q[i]) \o DrainFrom(c, q, start, i + 1)

\* Ahbm::WriteInternal
WriteInternalOp(c, addr, v) ==
    LET start == IF c.q = <<>> THEN addr ELSE c.wbs
        q1    == Append(c.q, v)
    IN  IF Len(q1) >= Burst(c)
        THEN [c |-> [c EXCEPT !.q = <<>>, !.wbs = start], ev |-> DrainFrom(c, q1, start, 1)]
        ELSE [c |-> [c EXCEPT !.q = q1,   !.wbs = start], ev |-> <<>>]

\* Ahbm::Write16 (w a 16-bit word), Ahbm::Write32 (v a 32-bit value)
Write16Op(c, addr, w) == WriteInternalOp(c, addr, W16(w))
Write32Op(c, addr, v) == WriteInternalOp(c, addr, IF Odd(addr) THEN W16(v[1]) ELSE v)   \* value >>= 16 (hwtested)

-----------------------------------------------------------------------------
(* Property layer (C13, external-memory clause): "each access of a 16- or     *)
(* 32-bit unit at a naturally aligned address transfers exactly those bytes   *)
(* at exactly that external address, also when bursts are enabled and the     *)
(* step equals the unit size".  Stated on the operators for every naturally   *)
(* aligned address, both units, the three burst lengths:                      *)
(*  - a read burst issues exactly one r16/r32 per unit at addr + i*unit and   *)
(*    hands the values back unchanged, in order;                              *)
(*  - Burst(c) consecutive writes at addr + i*unit come out as exactly one    *)
(*    w16/w32 per unit at that address carrying that value.                   *)
NatChan(u, bu) == [AhbmChanReset EXCEPT !.u = u, !.bu = bu]
NatAligned(u, a) == a[2] % (IF u = 1 THEN 2 ELSE 4) = 0
TagVal(u, i) == IF u = 1 THEN W16((17 * i + 3) % WB) ELSE <<(29 * i + 5) % WB, (13 * i + 7) % WB>>

RECURSIVE PopAll(_, _, _, _)      \* values handed out by n successive Read32 calls at addr+i*unit
PopAll(c, addr, vals, i) ==
    IF i > Burst(c) THEN <<>>
    ELSE LET r == Read32Op(c, FillCur(c, addr, i), vals)
         IN  <<r.v>> \o PopAll(r.c, addr, vals, i + 1)

RECURSIVE PushAll(_, _, _, _)     \* events of n successive Write32/Write16 calls at addr+i*unit
PushAll(c, addr, u, i) ==
    IF i > Burst(c) THEN <<>>
    ELSE LET r == IF u = 1 THEN Write16Op(c, FillCur(c, addr, i), TagVal(u, i)[2])
                           ELSE Write32Op(c, FillCur(c, addr, i), TagVal(u, i))
         IN  r.ev \o PushAll(r.c, addr, u, i + 1)

AhbmTheorems ==
    \A u \in {1, 2}, bu \in 0..2, a \in WideSet :
        NatAligned(u, a) =>
            LET c    == NatChan(u, bu)
                n    == Burst(c)
                vals == [i \in 1..n |-> TagVal(u, i)]
            IN  /\ ReadReqs32(c, a) = [i \in 1..n |-> <<IF u = 1 THEN KR16 ELSE KR32, FillCur(c, a, i)>>]
                /\ PopAll(c, a, vals, 1) = vals
                /\ PushAll(c, a, u, 1) = [i \in 1..n |-> <<IF u = 1 THEN KW16 ELSE KW32, FillCur(c, a, i), TagVal(u, i)>>]
=============================================================================
