------------------------------- MODULE RegsTrace -------------------------------
(* C20 conformance: RegisterState::Set<T> / Get<T> of the real code (harness/drivers/regs_rec.cpp)      *)
(* against TeakRegs.PSet / PGet on complete random register states, and the annotated disassembler's     *)
(* reading of ar/arp words against the interpreter-side meaning (TeakAddr.ArUnit/ArStep/ArOffset ...).   *)
EXTENDS TeakAddr, Json, IOUtils, TLC

Log == ndJsonDeserialize(IOEnv.TRACE)
VARIABLE vL
Rec == Log[vL]

ApplyChg(pre, chg) == [i \in 1 .. Len(pre) |->
                          IF \E j \in 1 .. Len(chg) : chg[j][1] = i
                          THEN chg[CHOOSE j \in 1 .. Len(chg) : chg[j][1] = i][2] ELSE pre[i]]

SetOk(rec) ==
    LET r0 == Unpack(rec.pre)
        r1 == PSet(r0, rec.w, rec.v)
    IN  /\ Pack(r1) = ApplyChg(rec.pre, rec.chg)
        /\ \A w2 \in WordNames : PGet(r1, w2) = rec.get[w2]

StepNames   == <<"++0", "++1", "--1", "++s", "++2", "--2", "++2*", "--2*">>
OffsetNames == <<"+0", "+1", "-1", "-1*">>
Tok(unit, off, step) == "[%r" \o ToString(unit) \o OffsetNames[off + 1] \o StepNames[step + 1] \o "]"
Zero == Unpack([i \in 1 .. NREG |-> 0])
AnnOk(rec) ==
    LET r == PSet(PSet(PSet(PSet(PSet(PSet(Zero, "ar0", rec.ar[1]), "ar1", rec.ar[2]),
                                  "arp0", rec.arp[1]), "arp1", rec.arp[2]), "arp2", rec.arp[3]), "arp3", rec.arp[4])
    IN  /\ rec.t1[3] = Tok(ArUnit(r, rec.rn), ArOffset(r, rec.stp), ArStep(r, rec.stp))
        /\ rec.t2[2] = Tok(ArpUnitI(r, rec.prn), ArpOffsetI(r, rec.si), ArpStepI(r, rec.si))
        /\ rec.t2[3] = Tok(ArpUnitJ(r, rec.prn), ArpOffsetJ(r, rec.sj), ArpStepJ(r, rec.sj))

RecOk(rec) == IF rec.e = "Set" THEN SetOk(rec) ELSE AnnOk(rec)

TraceInit == vL = 1
TraceNext == vL <= Len(Log) /\ RecOk(Rec) /\ vL' = vL + 1
TraceSpec == TraceInit /\ [][TraceNext]_vL
TraceAccepted ==
    /\ PrintT(<<"TRACE_MATCHED", TLCGet("stats").diameter - 1, Len(Log)>>)
    /\ TLCGet("stats").diameter - 1 = Len(Log)
=============================================================================
