CONSTANT ResetSet <- FullResetSet
SPECIFICATION Spec
INVARIANT ResetIsFresh
