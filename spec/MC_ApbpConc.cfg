\* quick: one channel, two host sends, two semaphore bits, all interleavings; the repaired locking
CONSTANTS
  Chans = {0}
  SemFull = 3
  FixedDisableIrqLock = TRUE
  FixedVectorLock = TRUE
  HandlerInsideLock = FALSE
  VectoredOn = FALSE
  NSend = 2
  NHostOps = 1
  SemVals = {1}
  NDis = 1
  NVec = 0
  NCbSend = 0
  HostKinds = {"Empty", "PollRecv", "SemSet", "SemGet", "SemClr", "SemMask"}
  NDspMask = 0
  TrackLockset = TRUE
SPECIFICATION Spec
INVARIANTS ValuesOK LocksetOK NoDeadlock HeldOK OwedSafe
PROPERTY TrigDelivers
CHECK_DEADLOCK TRUE
