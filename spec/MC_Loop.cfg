CONSTANTS W = 16  Counts = {0, 1, 2}  MaxDepth = 3  Fuel = 200
INIT Init
NEXT Next
INVARIANT LoopsExecuteCountPlusOne
CHECK_DEADLOCK FALSE
