\* C16, exhaustive, thorough: the repaired Skip; capacity 6 (three frames per fill), periods 0..4,
\* three word values, ghost history up to 6 accepted words, k up to 11.
CONSTANTS
  Cap = 6
  TW = 8
  ResetPeriod = 2
  FixedSkipOverrun = TRUE
  Vals = {0, 1, 2}
  Periods = {0, 1, 2, 3, 4}
  Clocks = {0}
  K = 11
  G = 6
  PhaseKept = FALSE
SPECIFICATION Spec
CONSTRAINT HistoryBound
INVARIANTS TypeOK FifoOrder NothingLost ZerosOnlyWhenShort FlagsExact TickRules SendFlushRules
           OneFramePerPeriod DisabledIsSilent SkipIsTicks NoIrqInHorizon SkipNeverFails
PROPERTY IrqExactlyOnEmptyingPop
CHECK_DEADLOCK FALSE
