\* the literal reading of C04's carry clause: expected to FAIL at a shift by exactly 40 (known finding)
CONSTANTS W = 4  Dev_ShiftBy40 = FALSE
INIT Init
NEXT Next
INVARIANT ShiftExact
