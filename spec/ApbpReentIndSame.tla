-------------------------- MODULE ApbpReentIndSame --------------------------
(* Binds the set reading of ApbpReentInd.tla (Apalache) to the bit-operator text of ApbpReent.tla (TLC, traces): *)
(* for EVERY pair of words at the scaled width, or = union, and-not = difference and the flag condition agree;  *)
(* the step definitions of the two modules are otherwise the same text (FixedReentry = TRUE).                    *)
EXTENDS ApbpReent
SetOf(x) == {i \in 0 .. SemW - 1 : Bit(x, i) = 1}
FlagS(S, M) == B01(S \ M # {})
Same == \A x \in SemVals, y \in SemVals :
          /\ SetOf(x | y) = SetOf(x) \union SetOf(y)
          /\ SetOf(x & SemNot(y)) = SetOf(x) \ SetOf(y)
          /\ Flag(x, y) = FlagS(SetOf(x), SetOf(y))
          /\ FlagP(x, y) = FlagS(SetOf(x), SetOf(y))
          /\ (SetOf(x) = SetOf(y)) = (x = y)
ASSUME Same
NoSteps == vLast.a = "init"      \* the ASSUME is the check; the behaviour is not explored
=============================================================================
