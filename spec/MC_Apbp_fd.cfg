\* C14 exhaustive, direction DSP->CPU alone (apbp_from_dsp + host handlers + Reset) at the design constants
CONSTANTS
  NCh = 2
  Data = {1, 2}
  SemW = 2
  FixedMask = TRUE
    FixedReentry = TRUE
  Junk = {0}
  Sides = {"fd"}
SPECIFICATION Spec
VIEW View
INVARIANTS TypeOK ObjectRulesHold SignalInv SignalStatus SemInterruptRulesHold LastWritten StatusAgree PureReads
PROPERTIES DataInterrupts RecvReturnsLast SemaphoreInterrupts IcuLatch
CHECK_DEADLOCK FALSE
