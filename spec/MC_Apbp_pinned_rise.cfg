\* the pinned (unrepaired) Apbp::MaskSemaphore: defect D3, second face -- unmasking a pending semaphore raises no interrupt
CONSTANTS
  NCh = 2
  Data = {1, 2}
  SemW = 2
  FixedMask = FALSE
    FixedReentry = TRUE
  Junk = {0}
  Sides = {"fc", "fd"}
SPECIFICATION Spec
VIEW View
INVARIANTS TypeOK
PROPERTIES SemaphoreInterrupts
CHECK_DEADLOCK FALSE
