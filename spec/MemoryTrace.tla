---------------------------- MODULE MemoryTrace ----------------------------
(* Trace validation for C11: an execution recorded from real Teakra::Teakra   *)
(* instances (harness/drivers/mem_rec.cpp; user-supplied and internally owned *)
(* DSP memory) must be a behaviour of Memory.tla at the real geometry.        *)
(*                                                                            *)
(* Every line is one call:  e  which accessor, its arguments,                 *)
(*   v    value returned (reads) / written (writes),                          *)
(*   acc  the raw SharedMemory accesses the TEAKRA_VERIF observer saw during  *)
(*        the call, in order, as [byte address, is_write, value written],     *)
(*   out  "ok" | "assert",                                                    *)
(*   m    the MemoryInterfaceUnit registers after the call, read directly     *)
(*        from the object: [page_mode, x_page, y_page, z_page, x_size[0],     *)
(*        y_size[0], mmio_base].                                              *)
(* The trace action applies the specification's operator to the current       *)
(* specification state and requires equality with all of it: the value read   *)
(* must be the value the sparse memory map knows for that cell, the raw       *)
(* access list must be exactly the predicted one (address formation).         *)
(* "Scan" lines list every non-zero byte of the whole 0x80000-byte raw memory *)
(* and must equal the map (no stray write anywhere).                          *)
(*                                                                            *)
(* MMIO offsets used by the recorder: the six MIU registers and offsets that  *)
(* mmio.cpp leaves as default cells (0x000..0x019, 0x400..0x7FF), which are   *)
(* plain storage; any other offset is outside this module (C12) and would be  *)
(* rejected as "unmodelled".                                                  *)
EXTENDS Memory, Json, IOUtils

Log == ndJsonDeserialize(IOEnv.TRACE)

VARIABLE l
tvars == <<st, last, l>>

Rec == Log[l]
RegsOf(s) == <<s.pm, s.xp, s.yp, s.zp, s.xsz, s.ysz, s.base>>

Matches(res) == /\ res.val = Rec.v
                /\ res.acc = Rec.acc
                /\ res.out = Rec.out
                /\ RegsOf(res.st) = Rec.m

Step(res) == Matches(res) /\ st' = res.st /\ UNCHANGED last /\ l' = l + 1

IsEvent(e) == l <= Len(Log) /\ Rec.e = e

\* list of [address, value] pairs -> sparse map (addresses distinct, values non-zero)
FromPairs(s) == [b \in {s[i][1] : i \in DOMAIN s} |-> s[CHOOSE i \in DOMAIN s : s[i][1] = b][2]]
PairsOk(s)   == /\ \A i \in DOMAIN s : s[i][2] \in 1 .. BYTE - 1 /\ s[i][1] \in BAddr
                /\ Cardinality({s[i][1] : i \in DOMAIN s}) = Len(s)

\* a new Teakra.  own = 1: memory allocated by Teakra itself, all zero; own = 0: the user's buffer,
\* zero except the listed pre-filled bytes, and the raw pointer handed out is that very buffer
\* (same = 1; for owned memory same = 1 says the const and non-const GetDspMemory agree, non-null).
TNew == /\ IsEvent("New")
        /\ Rec.same = 1
        /\ Rec.own = 1 => Rec.init = <<>>
        /\ PairsOk(Rec.init)
        /\ Step(Res([Fresh EXCEPT !.mem = FromPairs(Rec.init)], 0, <<>>, "ok"))

TReset == IsEvent("Reset") /\ Rec.same = 1 /\ Step(ResetOp(st))      \* same: the raw pointer handed out earlier still is the memory

\* full observation of the raw memory
TScan == /\ IsEvent("Scan")
         /\ Len(Rec.nz) = Cardinality(DOMAIN st.mem)
         /\ \A i \in DOMAIN Rec.nz : Get(st.mem, Rec.nz[i][1]) = Rec.nz[i][2]
         /\ Step(Res(st, 0, <<>>, "ok"))

\* a 32-bit address arrives as limbs [hi, lo] (TLC integers are 32-bit signed); the operator's mask
\* `% (NBanks*Bank)` of hi*65536+lo equals that of (hi % NBanks)*Bank + lo because Bank = 65536.
A32(a) == (a[1] % NBanks) * Bank + a[2]

TPR == IsEvent("PR") /\ Step(ProgramReadOp(st, Rec.a))
TPW == IsEvent("PW") /\ Step(ProgramWriteOp(st, Rec.a, Rec.v))
TDR == IsEvent("DR") /\ Step(DataReadOp(st, Rec.a, Rec.bp = 1))
TDW == IsEvent("DW") /\ Step(DataWriteOp(st, Rec.a, Rec.v, Rec.bp = 1))
TAR == IsEvent("AR") /\ Step(DataReadA32Op(st, A32(Rec.a)))
TAW == IsEvent("AW") /\ Step(DataWriteA32Op(st, A32(Rec.a), Rec.v))
TMR == IsEvent("MR") /\ Step(MMIOReadOp(st, Rec.a))
TMW == IsEvent("MW") /\ Step(MMIOWriteOp(st, Rec.a, Rec.v))
TRR == IsEvent("RR") /\ Rec.a \in BAddr /\ Step(RawReadOp(st, Rec.a))
TRW == IsEvent("RW") /\ Rec.a \in BAddr /\ Rec.v \in 0 .. BYTE - 1 /\ Step(RawWriteOp(st, Rec.a, Rec.v))

-----------------------------------------------------------------------------
(* Guest accesses: one instruction executed by Teakra::Run(1) from the given  *)
(* registers.  Encodings (src/decoder.h) and address formation                *)
(* (src/interpreter.h), by hand:                                              *)
(*   ldr  0x1C20      mov [r0], r1        load  r1 <- data[r0]                *)
(*   str  0x1820      mov r1, [r0]        store data[r0] <- r1                *)
(*   lda  0xD4B8 imm  mov [imm16], a0     load  a0 <- data[imm16]             *)
(*   sta  0xD4BC imm  mov a0l, [imm16]    store data[imm16] <- a0l            *)
(*   ld8  0x6400+i8   mov [page:i8], r1   load  r1 <- data[page*256 + i8]     *)
(*   st8  0x2200+i8   mov r1, [page:i8]   store data[page*256 + i8] <- r1     *)
(*   mpr  0x0041      movp a0l, r1        r1 <- prog[pcmhi:a0l]               *)
(*   mpm  0x0601      movp [r1], [r0]     data[r0] <- prog[pcmhi:r1]          *)
(*   mdm  0x5F80      movd [r0], [r4]     prog[pcmhi:r4] <- data[r0]          *)
(* every one preceded by its instruction fetch(es) at pc (prpage = 0).        *)
ThenV(r, F(_, _)) == IF r.out # "ok" THEN Res(r.st, 0, r.acc, r.out)
                     ELSE LET n == F(r.st, r.val) IN Res(n.st, n.val, r.acc \o n.acc, n.out)
Expect(r, w) == IF r.out = "ok" /\ r.val # w THEN Res(r.st, r.val, r.acc, "wrong-opcode") ELSE r

Opcode(g) == CASE g.f = "ldr" -> 7200  [] g.f = "str" -> 6176
               [] g.f = "lda" -> 54456 [] g.f = "sta" -> 54460
               [] g.f = "ld8" -> 25600 + g.imm [] g.f = "st8" -> 8704 + g.imm
               [] g.f = "mpr" -> 65 [] g.f = "mpm" -> 1537 [] g.f = "mdm" -> 24448
TwoWords(g) == g.f \in {"lda", "sta"}
NoValue(g)  == g.f \in {"mpm", "mdm"}   \* the moved value is not observable in a register

GuestOp(s, g) ==
    LET f1  == Expect(FetchOp(s, g.pc, 0), Opcode(g))
        fet == IF TwoWords(g) THEN ThenV(f1, LAMBDA x, pv : Expect(FetchOp(x, g.pc + 1, 0), g.imm)) ELSE f1
        pa(lo) == lo + 65536 * g.hi
        r == CASE g.f = "ldr" -> ThenV(fet, LAMBDA x, pv : LoadOp(x, g.r0))
               [] g.f = "str" -> ThenV(fet, LAMBDA x, pv : StoreOp(x, g.r0, g.r1))
               [] g.f = "lda" -> ThenV(fet, LAMBDA x, pv : LoadOp(x, g.imm))
               [] g.f = "sta" -> ThenV(fet, LAMBDA x, pv : StoreOp(x, g.imm, g.al))
               [] g.f = "ld8" -> ThenV(fet, LAMBDA x, pv : LoadOp(x, g.pg * 256 + g.imm))
               [] g.f = "st8" -> ThenV(fet, LAMBDA x, pv : StoreOp(x, g.pg * 256 + g.imm, g.r1))
               [] g.f = "mpr" -> ThenV(fet, LAMBDA x, pv : ProgramReadOp(x, pa(g.al)))
               [] g.f = "mpm" -> ThenV(ThenV(fet, LAMBDA x, pv : ProgramReadOp(x, pa(g.r1))),
                                       LAMBDA x, pv : StoreOp(x, g.r0, pv))
               [] g.f = "mdm" -> ThenV(ThenV(fet, LAMBDA x, pv : LoadOp(x, g.r0)),
                                       LAMBDA x, pv : ProgramWriteOp(x, pa(g.r4), pv))
    IN  IF NoValue(g) \/ r.out # "ok" THEN Res(r.st, 0, r.acc, r.out) ELSE r

TGuest == IsEvent("G") /\ Step(GuestOp(st, Rec))

TraceInit == Init /\ l = 1
TraceNext == TNew \/ TReset \/ TScan \/ TPR \/ TPW \/ TDR \/ TDW \/ TAR \/ TAW \/ TMR \/ TMW
             \/ TRR \/ TRW \/ TGuest
TraceSpec == TraceInit /\ [][TraceNext]_tvars

\* on every state of the observed execution: the map is a memory (bytes, in range)
ObservedTypeOK ==
    /\ DOMAIN st.mem \subseteq BAddr
    /\ \A b \in DOMAIN st.mem : st.mem[b] \in 1 .. BYTE - 1
    /\ \A o \in DOMAIN st.io : o \in 0 .. MSize - 1 /\ st.io[o] \in 1 .. WORD - 1

TraceAccepted ==
    /\ PrintT(<<"TRACE_MATCHED", TLCGet("stats").diameter - 1, Len(Log)>>)
    /\ TLCGet("stats").diameter - 1 = Len(Log)
=============================================================================
