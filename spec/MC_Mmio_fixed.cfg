\* the two proposed repairs switched on: the strict forms hold as well
CONSTANTS
  FixedChannelSelect = TRUE
  FixedWindowRaw = TRUE
  FixedWatchdogRestart = TRUE
  ValMode = 1
  NBases = 4
SPECIFICATION Spec
INVARIANTS TypeOK ReadBack NonAliasing HiddenFrame ReadPurity PathsAgree ChannelIndependent WindowReachable ChannelIndependentStrict NoAbort
CHECK_DEADLOCK FALSE
