----------------------------- MODULE DmaTrace -----------------------------
(* Trace validation for C13: executions recorded from the real Dma + Ahbm    *)
(* objects, stand-alone and inside a full Teakra driven through its MMIO     *)
(* registers (harness/drivers/dma_rec.cpp), must be behaviours of Dma.tla /  *)
(* Ahbm.tla.                                                                 *)
(*                                                                            *)
(* One line = one call:                                                      *)
(*   New      fresh objects; complete AHBM state after construction           *)
(*   Ahbm     unit/burst/direction/DMA-routing of one AHBM channel written;   *)
(*            complete AHBM state afterwards                                  *)
(*   Dma      one complete Dma::DoDma: the channel configuration written, the *)
(*            ordered log of every DSP-memory access (memory hook) and every  *)
(*            external callback <<kind, addr hi, addr lo, value hi, value lo>>,*)
(*            interrupt-handler calls, ICU request bit 15, the channel's      *)
(*            cursors/counters/running flag and the complete AHBM state       *)
(*            afterwards, outcome                                             *)
(*   DmaLong  the same for long DSP->DSP transfers (16-bit edge sizes) where  *)
(*            the accesses are counted, not listed                            *)
(* A Dma line is consumed by one Start step, one Tick step per element (the  *)
(* specification's TickOp applied to the current specification state, fed    *)
(* with the values the logged reads returned, must produce exactly the next  *)
(* logged events) and one Finish step that requires equality with all of the *)
(* logged post-state.  No recursion over the log: linear in its length.      *)
EXTENDS Dma, Json, IOUtils

Log == ndJsonDeserialize(IOEnv.TRACE)

VARIABLES l,      \* next line
          p,      \* next event of the current line's log
          bad     \* out-of-data-memory DSP accesses seen so far (C13 excludes them, see NoOob)
tvars == <<ch, ah, dmem, xmem, log, irq, ticks, phase, l, p, bad>>

Rec == Log[l]
IsEvent(e) == l <= Len(Log) /\ Rec.e = e

AhJ(r) == [i \in 0..2 |-> LET x == r[i + 1] IN
              [u |-> x[1], bu |-> x[2], dir |-> x[3], dm |-> x[4], q |-> x[5], wbs |-> x[6]]]
ChJ(c) == [sa |-> <<c[1], c[2]>>, da |-> <<c[3], c[4]>>, z0 |-> c[5], z1 |-> c[6], z2 |-> c[7],
           ss |-> <<c[8], c[9], c[10]>>, ds |-> <<c[11], c[12], c[13]>>,
           sp |-> c[14], dp |-> c[15], dw |-> c[16],
           cs |-> WZero, cd |-> WZero, c0 |-> 0, c1 |-> 0, c2 |-> 0, run |-> 0, ach |-> 0]
Fin(c) == <<c.cs[1], c.cs[2], c.cd[1], c.cd[2], c.c0, c.c1, c.c2, c.run, c.ach>>
EvJ(e) == <<e[1], <<e[2], e[3]>>, <<e[4], e[5]>>>>
OobCount(ev) == Len(SelectSeq(ev, LAMBDA e : e[1] \in {KOobR, KOobW}))

Done(ph) == /\ l' = l + 1 /\ phase' = ph /\ TLCSet(7, l)
Quiet == UNCHANGED <<dmem, xmem, log>>

\* ---- configuration lines
TNew == /\ IsEvent("New") /\ phase # "run"
        /\ ah' = AhbmReset /\ ah' = AhJ(Rec.ah)
        /\ irq' = 0
        /\ Done("idle") /\ Quiet /\ UNCHANGED <<ch, ticks, p, bad>>

TAhbm == /\ IsEvent("Ahbm") /\ phase # "run"
         /\ ah' = [ah EXCEPT ![Rec.i] = [@ EXCEPT !.u = Rec.u, !.bu = Rec.bu, !.dir = Rec.dir, !.dm = Rec.dm]]
         /\ ah' = AhJ(Rec.ah)
         /\ irq' = 0
         /\ Done("idle") /\ Quiet /\ UNCHANGED <<ch, ticks, p, bad>>

\* ---- Dma::DoDma
TStart == /\ (IsEvent("Dma") \/ IsEvent("DmaLong")) /\ phase # "run"
          /\ ch' = StartOp(ChJ(Rec.cfg), ChannelForDma(ah, Rec.dc))
          /\ phase' = "run" /\ irq' = 0 /\ ticks' = 0 /\ p' = 1
          /\ Quiet /\ UNCHANGED <<ah, l, bad>>

(* TLC re-evaluates a LET definition that sits directly in an action at every use; operator   *)
(* arguments are evaluated once.  Hence the step bodies below are operators applied to the    *)
(* result of TickOp.                                                                          *)
Avail == Len(Rec.log) - p + 1
TickVals(n) == [i \in 1..n |-> IF i <= Avail THEN LET e == Rec.log[p + i - 1] IN <<e[4], e[5]>> ELSE WZero]
NextTick == TickOp(ch, ah, TickVals(Len(ReadReqs(ch, ah))))

TickMatches(r, m) ==
    /\ m <= Avail
    /\ \A i \in 1..m : EvJ(Rec.log[p + i - 1]) = r.ev[i]
    /\ ch' = r.ch /\ ah' = r.ah /\ p' = p + m
    /\ bad' = bad + OobCount(r.ev)
TickStep(r) == TickMatches(r, Len(r.ev))
TTick == /\ IsEvent("Dma") /\ phase = "run" /\ ch.run # 0
         /\ TickStep(NextTick)
         /\ ticks' = ticks + 1
         /\ Quiet /\ UNCHANGED <<irq, phase, l>>

TFinish == /\ IsEvent("Dma") /\ phase = "run" /\ ch.run = 0
           /\ p = Len(Rec.log) + 1
           /\ Rec.out = "ok" /\ Rec.memok = 1
           /\ Rec.irq = 1 /\ Rec.icu = 1          \* as coded: interrupt_handler() once, after the loop
           /\ Fin(ch) = Rec.fin /\ ah = AhJ(Rec.ah)
           /\ irq' = Rec.irq
           /\ Done("done") /\ Quiet /\ UNCHANGED <<ch, ah, ticks, p, bad>>

\* the recorder's watchdog stopped a transfer that was still running: the logged events must be
\* what the specification produces up to that point, the rest of the tick never happened
CutMatches(r) == /\ Avail < Len(r.ev)
                 /\ \A i \in 1..Avail : EvJ(Rec.log[p + i - 1]) = r.ev[i]
TCut == /\ IsEvent("Dma") /\ phase = "run" /\ ch.run # 0 /\ Rec.out = "watchdog"
        /\ CutMatches(NextTick)
        /\ Rec.irq = 0
        /\ irq' = 0
        /\ Done("cut") /\ Quiet /\ UNCHANGED <<ch, ah, ticks, p, bad>>

\* ---- long transfers: accesses counted.  Up to Chunk elements per step (bounded recursion), so
\* the invariants see every Chunk-th element of such a transfer and its end.
Chunk == 32
LongAfter(st, r) == [ch |-> r.ch, ah |-> r.ah, nev |-> st.nev + Len(r.ev),
                     bad |-> st.bad + OobCount(r.ev), ticks |-> st.ticks + 1]
LongTick1(st) ==      \* st = [ch, ah, nev, bad, ticks]
    LongAfter(st, TickOp(st.ch, st.ah, [i \in 1..Len(ReadReqs(st.ch, st.ah)) |-> WZero]))
RECURSIVE LongRun(_, _)
LongRun(st, n) ==
    IF n = 0 \/ st.ch.run = 0 \/ st.ticks >= Rec.nt THEN st ELSE LongRun(LongTick1(st), n - 1)
LongApply(st) == ch' = st.ch /\ ah' = st.ah /\ p' = st.nev /\ bad' = st.bad /\ ticks' = st.ticks

TLongTick == /\ IsEvent("DmaLong") /\ phase = "run" /\ ch.run # 0 /\ ticks < Rec.nt
             /\ LongApply(LongRun([ch |-> ch, ah |-> ah, nev |-> p, bad |-> bad, ticks |-> ticks], Chunk))
             /\ Quiet /\ UNCHANGED <<irq, phase, l>>

TLongFinish == /\ IsEvent("DmaLong") /\ phase = "run" /\ ticks = Rec.nt
               /\ p - 1 = Rec.nev /\ Rec.memok = 1
               /\ Fin(ch) = Rec.fin /\ ah = AhJ(Rec.ah)
               /\ \/ ch.run = 0 /\ Rec.out = "ok" /\ Rec.irq = 1 /\ Rec.icu = 1 /\ Done("done")
                  \/ ch.run # 0 /\ Rec.out = "watchdog" /\ Rec.irq = 0 /\ Done("cut")
               /\ irq' = Rec.irq
               /\ Quiet /\ UNCHANGED <<ch, ah, ticks, p, bad>>

TraceInit == /\ ch = ChJ([i \in 1..16 |-> 0]) /\ ah = AhbmReset
             /\ dmem = <<>> /\ xmem = <<>> /\ log = <<>>
             /\ irq = 0 /\ ticks = 0 /\ phase = "idle" /\ l = 1 /\ p = 1 /\ bad = 0
             /\ TLCSet(7, 0)
TraceNext == TNew \/ TAhbm \/ TStart \/ TTick \/ TFinish \/ TCut \/ TLongTick \/ TLongFinish
TraceSpec == TraceInit /\ [][TraceNext]_tvars

-----------------------------------------------------------------------------
(* The property layer of Dma.tla on every state of the observed execution:   *)
(* CursorsClosedForm, Terminates and OneIrq are evaluated as they stand (the  *)
(* closed form at full width, ticks = element number), plus:                  *)
ObservedNoOob == bad = 0              \* DSP-side cursors stayed inside the data memory
ObservedNoCut == phase # "cut"        \* no transfer had to be stopped by the watchdog

TraceAccepted ==
    /\ PrintT(<<"TRACE_MATCHED", TLCGet(7), Len(Log)>>)
    /\ TLCGet(7) = Len(Log)
=============================================================================
