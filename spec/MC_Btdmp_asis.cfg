\* C16, exhaustive, quick: Btdmp::Skip as pinned, with the trigger of its defect excluded: the period is
\* only ever set to a value above the running phase (never 0) -- PhaseKept.  Everything C16 states holds
\* for the unchanged code on these histories.  Capacity 4, periods 1..3, words {0,1}.
CONSTANTS
  Cap = 4
  TW = 8
  ResetPeriod = 2
  FixedSkipOverrun = FALSE
  Vals = {0, 1}
  Periods = {1, 2, 3}
  Clocks = {0, 1}
  K = 7
  G = 5
  PhaseKept = TRUE
SPECIFICATION Spec
CONSTRAINT HistoryBound
INVARIANTS TypeOK FifoOrder NothingLost ZerosOnlyWhenShort FlagsExact TickRules SendFlushRules
           OneFramePerPeriod DisabledIsSilent SkipIsTicks NoIrqInHorizon SkipNeverFails
PROPERTY IrqExactlyOnEmptyingPop
CHECK_DEADLOCK FALSE
