\* liveness under weak fairness of both threads (no state constraint): the last value sent is eventually
\* observed, every send that found interrupts enabled is followed by the handler call, the latch is
\* consumed and the interrupt taken
CONSTANTS
  Chans = {0}
  SemFull = 3
  FixedDisableIrqLock = TRUE
  FixedVectorLock = TRUE
  HandlerInsideLock = FALSE
  VectoredOn = FALSE
  NSend = 2
  NHostOps = 0
  SemVals = {1}
  NDis = 1
  NVec = 0
  NCbSend = 0
  HostKinds = {"Empty", "PollRecv", "SemSet", "SemGet", "SemClr", "SemMask"}
  NDspMask = 0
  TrackLockset = FALSE
SPECIFICATION FairSpec
INVARIANTS ValuesOK NoDeadlock
PROPERTIES LastSeen HandlerOwed LatchConsumed IrqTaken
CHECK_DEADLOCK TRUE
