CONSTANTS W = 16
 KnownCauses <- Known
INIT Init
NEXT Next
INVARIANTS InBounds DataAddressInBounds
CHECK_DEADLOCK FALSE
