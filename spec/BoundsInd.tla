------------------------------ MODULE BoundsInd ------------------------------
(* C18, data-address formation for EVERY 16-bit address under EVERY content of the MIU registers (which the       *)
(* guest sets freely): the access either ends in the emulator's assertion or lies inside the DSP memory array /   *)
(* the 0x800 MMIO offsets.  Discharged symbolically by Apalache (SMT) -- 2^16 addresses x 2^16 bases x 2 page       *)
(* modes x 2^16 z/x/y pages each x 64 x-sizes are not enumerable.  The operators are TeakMachine.tla's              *)
(* (InMMIO, DataPage, DataPhys, DAsserts) on plain variables; MC_BoundsIndSame.cfg: TLC compares them with the      *)
(* originals on the boundary set.  Also: the 32-bit-address host accessors (A32) stay inside the array.            *)
EXTENDS Integers

VARIABLES
    \* @type: Int;
    va,
    \* @type: Int;
    vbase,
    \* @type: Int;
    vpm,
    \* @type: Int;
    vz,
    \* @type: Int;
    vxp,
    \* @type: Int;
    vyp,
    \* @type: Int;
    vxs,
    \* @type: Int;
    va32

MemWords == 262144
DataBase == 131072
MmioBase == 16777216

\* @type: (Int, Int) => Bool;
InMMIO(a, base) == a >= base /\ a < base + 2048
\* @type: (Int, Int, Int, Int, Int, Int) => Int;
DataPage(a, pm, z, xp, yp, xs) == IF pm = 0 THEN z ELSE IF a <= xs * 1024 THEN xp ELSE yp
\* @type: (Int, Int, Int, Int, Int, Int, Int) => Int;
DataPhys(a, base, pm, z, xp, yp, xs) ==
    IF InMMIO(a, base) THEN MmioBase + ((a - base) % 2048) ELSE DataBase + a + 65536 * DataPage(a, pm, z, xp, yp, xs)
\* @type: (Int, Int, Int, Int, Int, Int, Int) => Bool;
DAsserts(a, base, pm, z, xp, yp, xs) == IF InMMIO(a, base) THEN z # 0 ELSE DataPage(a, pm, z, xp, yp, xs) >= 2
\* @type: (Int) => Int;
A32(a) == DataBase + (a % 131072)

Init == \E a \in 0 .. 65535, base \in 0 .. 65535, pm \in 0 .. 1, z \in 0 .. 65535, xp \in 0 .. 65535, yp \in 0 .. 65535, xs \in 0 .. 63,
           a32 \in 0 .. 2147483647 :
            va = a /\ vbase = base /\ vpm = pm /\ vz = z /\ vxp = xp /\ vyp = yp /\ vxs = xs /\ va32 = a32
Next == UNCHANGED <<va, vbase, vpm, vz, vxp, vyp, vxs, va32>>

DataInBounds ==
    LET ph == DataPhys(va, vbase, vpm, vz, vxp, vyp, vxs) IN
    \/ DAsserts(va, vbase, vpm, vz, vxp, vyp, vxs)
    \/ (ph >= DataBase /\ ph < MemWords)                       \* data memory: the upper half of the array
    \/ (ph >= MmioBase /\ ph - MmioBase < 2048)
A32InBounds == A32(va32) >= DataBase /\ A32(va32) < MemWords
InBounds == DataInBounds /\ A32InBounds
=============================================================================
