CONSTANTS
 AllCells = FALSE
 FixedWindowRaw = FALSE
 FixedWatchdogRestart = FALSE
 ValMode = 1
 NBases = 4
INIT TInit
NEXT TNext
