CONSTANT ResetSet <- CurrentResetSet
SPECIFICATION Spec
INVARIANT ResetIsFresh
