INIT Init
NEXT Next
INVARIANT InBounds
