---------------------------- MODULE ApbpReentInd ----------------------------
(* The repaired order of Apbp::SetSemaphore / MaskSemaphore (flag stored before the handler is called), for  *)
(* the real semaphore width and ANY nesting depth of re-entrant handler calls, as an inductive invariant      *)
(* for Apalache:   Init => Inv   and   Inv /\ Next => Inv'.                                                   *)
(* The semaphore and mask words are the SETS of their one-bits (Apalache has no bit operators): or = union,   *)
(* and-not = set difference.  ApbpReentIndSame.tla lets TLC compare this reading with the bit-operator text   *)
(* of ApbpReent.tla on every state at a scaled width.                                                          *)
EXTENDS Integers, Sequences, FiniteSets
CONSTANT
    \* @type: Int;
    W
Bits == 0 .. (W - 1)
VARIABLES
    \* @type: Set(Int);
    vSem,
    \* @type: Set(Int);
    vMsk,
    \* @type: Int;
    vSig,
    \* @type: Int;
    vDepth,
    \* @type: Int;
    vFire
B01(b) == IF b THEN 1 ELSE 0
Flag(sem, msk) == B01(sem \ msk # {})

Init == vSem = {} /\ vMsk = {} /\ vSig = 0 /\ vDepth = 0 /\ vFire = 0

\* repaired code: everything is stored before the handler; what remains after it is the unlock (End)
BeginSet(b) ==
    LET sem == vSem \union b
        ns  == Flag(sem, vMsk) IN
    /\ vSem' = sem /\ vMsk' = vMsk
    /\ vSig' = B01(vSig = 1 \/ ns = 1)
    /\ vDepth' = vDepth + ns /\ vFire' = ns
BeginMask(b) ==
    LET ns   == Flag(vSem, b)
        fire == B01(ns = 1 /\ vSig = 0) IN
    /\ vSem' = vSem /\ vMsk' = b
    /\ vSig' = ns
    /\ vDepth' = vDepth + fire /\ vFire' = fire
Clear(b) ==
    /\ vSem' = vSem \ b /\ vMsk' = vMsk /\ vSig' = Flag(vSem \ b, vMsk)
    /\ vDepth' = vDepth /\ vFire' = 0
End == vDepth > 0 /\ vDepth' = vDepth - 1 /\ vFire' = 0 /\ UNCHANGED <<vSem, vMsk, vSig>>

Next == (\E b \in SUBSET Bits : BeginSet(b) \/ BeginMask(b) \/ Clear(b)) \/ End

\* the stored flag is exact at every point, inside handlers too; the handler only runs with the condition true
Inv == /\ vSem \subseteq Bits /\ vMsk \subseteq Bits /\ vSig \in 0..1 /\ vDepth >= 0 /\ vFire \in 0..1
       /\ vSig = Flag(vSem, vMsk)
       /\ vFire = 1 => Flag(vSem, vMsk) = 1
\* a step that takes the condition from false to true calls the handler (action property as a state predicate over one step:
\* checked with --length=1 from Inv as the initial predicate)
InvInit == /\ vSem \in SUBSET Bits /\ vMsk \in SUBSET Bits /\ vSig \in 0..1 /\ vDepth \in Nat /\ vFire \in 0..1
           /\ Inv
=============================================================================
