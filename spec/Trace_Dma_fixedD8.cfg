\* the proposed repair of defect D8 (counter0 does not wrap before the comparison), all property invariants on
CONSTANTS
  B = 65536
  BB = 256
  HB = 256
  FixedD8 = TRUE
  RealMap = TRUE
  DataHi = 2
  RangeLo = 4
  RangeHi = 8
  SizeSet = {}
  StepPairs = {}
  ModeSet = {}
  BaseSet = {}
  AhbmSet = {}
SPECIFICATION TraceSpec
INVARIANTS CursorsClosedForm Terminates OneIrq ObservedNoOob ObservedNoCut
POSTCONDITION TraceAccepted
CHECK_DEADLOCK FALSE
