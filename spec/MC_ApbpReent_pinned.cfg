CONSTANTS SemW = 2  MaxDepth = 2  FixedReentry = FALSE
SPECIFICATION Spec
INVARIANTS TypeOK SignalOK
CHECK_DEADLOCK FALSE
