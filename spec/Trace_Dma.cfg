\* trace validation of recorded transfers at full width: the as-is layer as pinned (FixedD8 = FALSE:
\* counter0 is a u16), DSP accesses at byte address 2*(0x20000+cursor), data memory = [0x40000,0x80000)
CONSTANTS
  B = 65536
  BB = 256
  HB = 256
  FixedD8 = FALSE
  RealMap = TRUE
  DataHi = 2
  RangeLo = 4
  RangeHi = 8
  SizeSet = {}
  StepPairs = {}
  ModeSet = {}
  BaseSet = {}
  AhbmSet = {}
SPECIFICATION TraceSpec
INVARIANTS CursorsClosedForm Terminates OneIrq ObservedNoOob ObservedNoCut
POSTCONDITION TraceAccepted
CHECK_DEADLOCK FALSE
