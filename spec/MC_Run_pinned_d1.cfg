\* the pinned run loop (skips even when an interrupt signal is latched): must violate (defect D1)
CONSTANTS TB = 2  N = 5  FixPending = FALSE  FixSkipZero = TRUE  Family = "timers"  FixAudioSkip = TRUE  GuardSeesVectored = TRUE
INIT Init
NEXT Next
INVARIANT SlicingInvariant
CHECK_DEADLOCK FALSE
