------------------------------- MODULE IsaTrace -------------------------------
(* C01 (and the execution clauses of C02/C03/C04/C08/C10/C20) conformance: every line is ONE real        *)
(* Interpreter::Run(1) from a fully specified machine state (harness/drivers/isa_rec.cpp).  The          *)
(* specification runs CoreCycle on the same state and must predict the outcome class and, for completed   *)
(* instructions, the COMPLETE register state afterwards, the exact ordered list of memory accesses        *)
(* (addresses and values), the idle flag and the interrupt latches.                                       *)
EXTENDS TeakCore, Json, IOUtils, TLC

Log == ndJsonDeserialize(IOEnv.TRACE)
VARIABLE vL
Rec == Log[vL]

\* memory oracle: the value of each touched cell at its first access
FirstIdx(acc, a) == CHOOSE i \in 1 .. Len(acc) : acc[i][1] = a /\ \A j \in 1 .. i - 1 : acc[j][1] # a
Oracle(acc) == [a \in {acc[i][1] : i \in 1 .. Len(acc)} \ (MmioBase .. MmioBase + 2047) |-> acc[FirstIdx(acc, a)][3]]
IoOracle(acc) == [o \in {acc[i][1] - MmioBase : i \in {j \in 1 .. Len(acc) : InIo(acc[j][1])}} |-> acc[FirstIdx(acc, o + MmioBase)][3]]

ApplyChg(pre, chg) == [i \in 1 .. Len(pre) |->
                          IF \E j \in 1 .. Len(chg) : chg[j][1] = i
                          THEN chg[CHOOSE j \in 1 .. Len(chg) : chg[j][1] = i][2] ELSE pre[i]]

Start(rec) == [r |-> Unpack(rec.pre), mem |-> Oracle(rec.acc), io |-> IoOracle(rec.acc), acc |-> <<>>, out |-> "ok", idle |-> FALSE,
               lat |-> <<rec.lat[1], rec.lat[2], rec.lat[3], rec.lat[4]>>, vaddr |-> rec.lat[5] * 65536 + rec.lat[6],
               vctx |-> rec.lat[7], miu |-> MiuReset]

\* records the specification declines to decide (with the reason), counted by the runner
Undecided(rec) ==
    FALSE        \* (none at present; tstb with a bit index >= 32 was undefined C++ until the fix in /repo)

\* C01, generator clause: a vector emitted by the project's own hardware-test generator (loaded the way the
\* project's verifier loads it, program at 0) executes without aborting, advances pc by the instruction's
\* length, and touches data memory only inside the two windows the hardware verifier compares
InWindow(ph) == (ph >= DataBase + 25600 /\ ph < DataBase + 25600 + 512) \/ (ph >= DataBase + 52224 /\ ph < DataBase + 52224 + 512)
GenClause(rec, s1) ==
    LET i == Decode(rec.op)
        len == IF i # 0 /\ NeedExpRow[i] THEN 2 ELSE 1 IN
    /\ s1.out \in {"ok", "unimpl"}
    /\ (len = 1 => rec.x = 0)                      \* a vector of a one-word instruction carries no second word (C02: the
                                                  \* generator sees the same form and length as the decoder)
    /\ s1.out = "ok" => /\ s1.r.pc = len
                         /\ \A j \in len + 1 .. Len(s1.acc) : InWindow(s1.acc[j][1])

Conforms(rec, s1) ==
    \/ Undecided(rec)
    \/ /\ s1.out # "unmodelled"
       /\ s1.out = rec.out
       /\ rec.out = "ok" =>
            /\ Pack(s1.r) = ApplyChg(rec.pre, rec.chg)
            /\ s1.acc = rec.acc
            /\ (IF s1.idle THEN 1 ELSE 0) = rec.idle
            /\ s1.lat = rec.lat2
RecOkWith(rec, s1) == Conforms(rec, s1) /\ (("gen" \in DOMAIN rec) => GenClause(rec, s1))
RecOk(rec) == RecOkWith(rec, CoreCycle(Start(rec)))

TraceInit == vL = 1
TraceNext == vL <= Len(Log) /\ RecOk(Rec) /\ vL' = vL + 1
TraceSpec == TraceInit /\ [][TraceNext]_vL
TraceAccepted ==
    /\ PrintT(<<"TRACE_MATCHED", TLCGet("stats").diameter - 1, Len(Log)>>)
    /\ TLCGet("stats").diameter - 1 = Len(Log)

\* diagnosis helper (used by the runner on a rejected line): which part disagrees
Diag(rec) ==
    LET s1 == CoreCycle(Start(rec))
        want == ApplyChg(rec.pre, rec.chg)
        got  == Pack(s1.r)
        i == Decode(rec.op)
    IN  [key |-> IF i = 0 THEN "undefined" ELSE Rows[i].key, out |-> s1.out, wantout |-> rec.out,
         regdiff |-> {<<FieldAt[k], k, got[k], want[k]>> : k \in {k \in 1 .. Len(want) : got[k] # want[k]}},
         acc |-> s1.acc, wantacc |-> rec.acc]
=============================================================================
