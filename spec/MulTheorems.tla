----------------------------- MODULE MulTheorems -----------------------------
(* Property layer for C04, multiplier side: exhaustive at a scaled limb width (W = 6 or 8):           *)
(*  - Multiply = exact product of the two factors under the signed/unsigned selection and the         *)
(*    half-word mode, as a (2W+1)-bit two's complement number (pe : p);                               *)
(*  - ProductToBus applies the product shift (none, >>1, <<1, <<2) with sign extension;               *)
(*  - AlignDown is the arithmetic shift right by one limb.                                            *)
EXTENDS TeakAlu, TLC

VARIABLE vX
Init == vX = 0
Next == vX' \in 0 .. B - 1

SInt(v, signed) == IF signed /\ v >= HB THEN v - B ELSE v
PInt(p, pe) == p[1] + B * p[2] - pe * (B * B)              \* (2W+1)-bit two's complement reading
FloorDiv2(n) == IF n >= 0 THEN n \div 2 ELSE -((-n + 1) \div 2)

MultiplyExact ==
    \A y \in 0 .. B - 1 : \A xs \in BOOLEAN : \A ys \in BOOLEAN : \A hwm \in 0 .. 3 : \A unit \in 0 .. 1 :
        LET y1 == IF hwm = 1 \/ (hwm = 3 /\ unit = 0) THEN y \div EB
                  ELSE IF hwm = 2 \/ (hwm = 3 /\ unit = 1) THEN y % EB ELSE y
            r  == Multiply(vX, y, xs, ys, hwm, unit)
        IN  PInt(r.p, r.pe) = SInt(vX, xs) * SInt(y1, ys)

\* every (pe : p) pair that a multiplication can produce lies in this range; ProductToBus is checked on all
\* 33-bit patterns whose high limb is vX (low limb quantified), i.e. on every product register content
ProductToBusExact ==
    \A l \in {0, 1, 2, B \div 4, HB - 1, HB, B - 2, B - 1} : \A pe \in 0 .. 1 : \A ps \in 0 .. 3 :
        LET p == <<l, vX>>
            n == PInt(p, pe)
            want == CASE ps = 0 -> n [] ps = 1 -> FloorDiv2(n) [] ps = 2 -> 2 * n [] ps = 3 -> 4 * n
        IN  AToInt(ProductToBus(p, pe, ps)) = want

AlignExact ==
    \A l \in {0, 1, HB, B - 1} : \A e \in 0 .. EB - 1 :
        LET v == <<l, vX, e>>
            n == AToInt(v)
            fl == IF n >= 0 THEN n \div B ELSE -((-n + B - 1) \div B)
        IN  AToInt(AlignDown(v)) = fl

Inv == MultiplyExact /\ ProductToBusExact /\ AlignExact
=============================================================================
