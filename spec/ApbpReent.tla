----------------------------- MODULE ApbpReent -----------------------------
(* Re-entrant semaphore callbacks (C14 with C19's "host callbacks may call back into the mailbox API").    *)
(* src/apbp.cpp calls the semaphore handler from inside SetSemaphore / MaskSemaphore while it holds the     *)
(* (recursive) semaphore mutex; the handler may call the same object's API again -- the usual host          *)
(* callback reads the semaphore and acknowledges it on the spot.  A call is therefore NOT one atomic step:  *)
(* here it is a Begin step (what the code does before the handler), any number of nested calls made by     *)
(* the handler (same actions, one level deeper), and an End step (what the code does after the handler     *)
(* returned, with the locals it computed before).                                                          *)
(*   FixedReentry = FALSE  the pinned code: semaphore_master_signal is stored AFTER the handler from a       *)
(*                         value computed BEFORE it (SetSemaphore: flag or new_signal; MaskSemaphore:        *)
(*                         flag = new_signal)                                                                 *)
(*   FixedReentry = TRUE   the repaired code: the flag is stored before the handler runs, nothing after it   *)
(* Property layer: whenever no call is in progress the stored flag equals ((semaphore AND NOT mask) # 0);   *)
(* the handler only ever runs with the flag condition true; a top-level call that takes the condition from  *)
(* false to true (as seen at its Begin) runs the handler at least once.                                     *)
EXTENDS Naturals, Sequences, TLC, Bitwise
CONSTANTS SemW, MaxDepth, FixedReentry
SemMax == 2^SemW - 1
SemVals == 0..SemMax
SemNot(x) == SemMax - x
B01(b) == IF b THEN 1 ELSE 0
Flag(sem, msk) == B01((sem & SemNot(msk)) # 0)
Bit(x, i) == (x \div (2^i)) % 2
FlagP(sem, msk) == B01(\E i \in 0..SemW-1 : Bit(sem, i) = 1 /\ Bit(msk, i) = 0)

VARIABLES vSem, vMsk, vSig,     \* Impl::semaphore / semaphore_mask / semaphore_master_signal
          vStack,               \* handler invocations in progress, innermost last: [op, ns]
          vLast                 \* ghost: what the last step was (for the trace specification and for reading counterexamples)
rvars == <<vSem, vMsk, vSig, vStack, vLast>>

Init == vSem = 0 /\ vMsk = 0 /\ vSig = 0 /\ vStack = <<>> /\ vLast = [a |-> "init", v |-> 0, fire |-> 0]

CanCall == Len(vStack) < MaxDepth

\* Apbp::SetSemaphore up to and including the decision to call the handler
BeginSet(b) ==
    LET sem == vSem | b
        ns  == Flag(sem, vMsk)
        sg  == B01(vSig = 1 \/ ns = 1) IN
    /\ CanCall
    /\ vSem' = sem /\ vMsk' = vMsk
    /\ IF ns = 1 THEN /\ vSig' = (IF FixedReentry THEN sg ELSE vSig)            \* pinned: not stored yet
                      /\ vStack' = Append(vStack, [op |-> "set", ns |-> ns])
                 ELSE /\ vSig' = sg /\ vStack' = vStack
    /\ vLast' = [a |-> "set", v |-> b, fire |-> ns]

\* Apbp::MaskSemaphore
BeginMask(b) ==
    LET ns   == Flag(vSem, b)
        fire == B01(ns = 1 /\ vSig = 0) IN
    /\ CanCall
    /\ vSem' = vSem /\ vMsk' = b
    /\ IF fire = 1 THEN /\ vSig' = (IF FixedReentry THEN ns ELSE vSig)
                        /\ vStack' = Append(vStack, [op |-> "mask", ns |-> ns])
                   ELSE /\ vSig' = ns /\ vStack' = vStack
    /\ vLast' = [a |-> "mask", v |-> b, fire |-> fire]

\* Apbp::ClearSemaphore never calls out
Clear(b) ==
    /\ CanCall
    /\ vSem' = vSem & SemNot(b) /\ vMsk' = vMsk
    /\ vSig' = Flag(vSem & SemNot(b), vMsk) /\ vStack' = vStack
    /\ vLast' = [a |-> "clear", v |-> b, fire |-> 0]

\* the innermost handler returns; the rest of the interrupted call runs
End ==
    /\ vStack # <<>>
    /\ LET f == vStack[Len(vStack)] IN
       /\ vSig' = (IF FixedReentry THEN vSig
                   ELSE IF f.op = "set" THEN B01(vSig = 1 \/ f.ns = 1) ELSE f.ns)
       /\ vLast' = [a |-> "end", v |-> 0, fire |-> 0]
    /\ vStack' = SubSeq(vStack, 1, Len(vStack) - 1)
    /\ UNCHANGED <<vSem, vMsk>>

Next == (\E b \in SemVals : BeginSet(b) \/ BeginMask(b) \/ Clear(b)) \/ End
Spec == Init /\ [][Next]_rvars

TypeOK == vSem \in SemVals /\ vMsk \in SemVals /\ vSig \in 0..1 /\ Len(vStack) <= MaxDepth
\* "the signal flag always equals ((semaphore AND NOT mask) is non-zero)" -- at every point where a caller can look
SignalOK == vStack = <<>> => vSig = FlagP(vSem, vMsk)
\* with the repaired order the flag is right even while a handler runs (what the handler itself can read)
SignalOKInside == vSig = FlagP(vSem, vMsk)
\* the handler never runs with the condition false ("never while it stays zero")
FireOnlyWhenSet == vLast.fire = 1 => FlagP(vSem, vMsk) = 1
\* a rise of the condition is always announced: a set / mask step that takes the condition from 0 to 1 fires
RiseFires == [][\A b \in SemVals : (BeginSet(b) \/ BeginMask(b)) /\ FlagP(vSem, vMsk) = 0 /\ FlagP(vSem', vMsk') = 1
                    /\ vSig = FlagP(vSem, vMsk) => vLast'.fire = 1]_rvars
=============================================================================
