------------------------------- MODULE Wide -------------------------------
(* Two-limb unsigned arithmetic in base B.  A wide value is <<hi, lo>> with   *)
(* hi, lo \in 0..B-1 and denotes hi*B + lo.  The real machine uses B = 65536  *)
(* (32-bit timer counters; TLC integers are only 32-bit signed, so a wide     *)
(* value is never turned into one number at full width).  Model checking uses *)
(* a small B so that every carry/borrow case is enumerated, and compares the  *)
(* limb operators against plain integer arithmetic (WideTheorems).            *)
EXTENDS Naturals
CONSTANT B

WideSet   == (0..B-1) \X (0..B-1)
WZero     == <<0, 0>>
WMax      == <<B-1, B-1>>
WIsZero(a) == a[1] = 0 /\ a[2] = 0
WOne      == <<0, 1>>

WLt(a, b)  == a[1] < b[1] \/ (a[1] = b[1] /\ a[2] < b[2])
WLeq(a, b) == a = b \/ WLt(a, b)
WMin(a, b) == IF WLeq(a, b) THEN a ELSE b

\* (a + b) mod B^2
WAdd(a, b) == LET lo == a[2] + b[2]
                  c  == IF lo >= B THEN 1 ELSE 0
              IN  << (a[1] + b[1] + c) % B, lo % B >>
\* (a - b) mod B^2
WSub(a, b) == LET br == IF a[2] < b[2] THEN 1 ELSE 0
                  lo == (a[2] + B - b[2]) % B
                  hi == (a[1] + B + B - b[1] - br) % B
              IN  << hi, lo >>
WDec(a) == WSub(a, WOne)
WInc(a) == WAdd(a, WOne)

\* only meaningful when B*B fits a TLC integer (model checking instances)
WToInt(a)   == a[1] * B + a[2]
WFromInt(n) == << (n \div B) % B, n % B >>

WideTheorems ==
    \A a \in WideSet, b \in WideSet :
        /\ WToInt(WAdd(a, b)) = (WToInt(a) + WToInt(b)) % (B * B)
        /\ WToInt(WSub(a, b)) = (WToInt(a) + B * B - WToInt(b)) % (B * B)
        /\ WLt(a, b) <=> WToInt(a) < WToInt(b)
        /\ WFromInt(WToInt(a)) = a
=============================================================================
